/-
  C02 — `CurOk` (cursors inside the children lists) holds in every reachable state.
-/
import TmVerif.Sched.AggOps

namespace TmVerif.Sched

section Bubble
variable {μ : Type} (step : Bkt → List (Option Tree) → μ → Bkt × μ) (incl : Bool)
variable (hcur : ∀ b cs m, (step b cs m).1.cursors = b.cursors)
include hcur

mutual
theorem bubble_curOk : ∀ (t : Tree) (target : Nat) (m : μ) (t' : Tree) (m' : μ),
    t.bubble step incl target m = some (t', m') → CurOk t → CurOk t'
  | .leaf s, target, m, t', m', h, hc => by
    simp only [Tree.bubble] at h
    split at h
    · simp only [Option.some.injEq, Prod.mk.injEq] at h; rw [← h.1]; exact hc
    · cases h
  | .node b cs, target, m, t', m', h, hc => by
    simp only [CurOk] at hc
    simp only [Tree.bubble] at h
    split at h
    · split at h
      · simp only [Option.some.injEq, Prod.mk.injEq] at h; rw [← h.1]
        simp only [CurOk, hcur]; exact hc
      · simp only [Option.some.injEq, Prod.mk.injEq] at h; rw [← h.1]
        simp only [CurOk]; exact hc
    · split at h
      · cases h
      · rename_i cs' m1 heq
        simp only [Option.some.injEq, Prod.mk.injEq] at h
        rw [← h.1]
        obtain ⟨h1, h2⟩ := bubbleL_curOk cs target m cs' m1 heq hc.2
        simp only [CurOk, hcur, h2]
        exact ⟨hc.1, h1⟩
theorem bubbleL_curOk : ∀ (cs : List (Option Tree)) (target : Nat) (m : μ) (cs' : List (Option Tree)) (m' : μ),
    Tree.bubbleL step incl cs target m = some (cs', m') → CurOkL cs → CurOkL cs' ∧ cs'.length = cs.length
  | [], _, _, _, _, h, _ => by simp [Tree.bubbleL] at h
  | none :: r, target, m, cs', m', h, hc => by
    simp only [CurOkL] at hc
    simp only [Tree.bubbleL] at h
    split at h
    · cases h
    · rename_i r' m1 heq
      simp only [Option.some.injEq, Prod.mk.injEq] at h
      rw [← h.1]
      obtain ⟨h1, h2⟩ := bubbleL_curOk r target m r' m1 heq hc
      exact ⟨by simp only [CurOkL]; exact h1, by simp [h2]⟩
  | some t :: r, target, m, cs', m', h, hc => by
    simp only [CurOkL] at hc
    simp only [Tree.bubbleL] at h
    split at h
    · rename_i t1 m1 heq
      simp only [Option.some.injEq, Prod.mk.injEq] at h
      rw [← h.1]
      exact ⟨by simp only [CurOkL]; exact ⟨bubble_curOk t target m t1 m1 heq hc.1, hc.2⟩, by simp⟩
    · split at h
      · cases h
      · rename_i r' m1 heq
        simp only [Option.some.injEq, Prod.mk.injEq] at h
        rw [← h.1]
        obtain ⟨h1, h2⟩ := bubbleL_curOk r target m r' m1 heq hc.2
        exact ⟨by simp only [CurOkL]; exact ⟨hc.1, h1⟩, by simp [h2]⟩
end
end Bubble

theorem treeAff_curOk {t t' : Tree} {target : Nat} {incl : Bool} {d : Counter} {sg : Int}
    (h : treeAff t target incl d sg = some t') (hc : CurOk t) : CurOk t' := by
  unfold treeAff at h
  cases hb : t.bubble (affStep d sg) incl target () with
  | none => rw [hb] at h; cases h
  | some r =>
    rw [hb] at h; simp only [Option.map_some, Option.some.injEq] at h; subst h
    exact bubble_curOk _ _ (fun _ _ _ => rfl) _ _ _ r.1 r.2 hb hc

theorem treeLabels_curOk {t t' : Tree} {target : Nat} {incl : Bool} {ls : List Nat}
    (h : treeLabels t target incl ls = some t') (hc : CurOk t) : CurOk t' := by
  unfold treeLabels at h
  cases hb : t.bubble labelStep incl target ls with
  | none => rw [hb] at h; cases h
  | some r =>
    rw [hb] at h; simp only [Option.map_some, Option.some.injEq] at h; subst h
    exact bubble_curOk _ _ (fun _ _ _ => rfl) _ _ _ r.1 r.2 hb hc

theorem treeTraits_curOk {t t' : Tree} {target : Nat} {incl : Bool} {m : TraitMsg}
    (h : treeTraits t target incl m = some t') (hc : CurOk t) : CurOk t' := by
  unfold treeTraits at h
  cases hb : t.bubble traitStep incl target m with
  | none => rw [hb] at h; cases h
  | some r =>
    rw [hb] at h; simp only [Option.map_some, Option.some.injEq] at h; subst h
    exact bubble_curOk _ _ (fun b cs m => by cases m <;> rfl) _ _ _ r.1 r.2 hb hc

theorem treeCap_curOk {srvs : List Srv} {t t' : Tree} {target : Nat} {incl : Bool} {m : CapMsg}
    (h : treeCap srvs t target incl m = some t') (hc : CurOk t) : CurOk t' := by
  unfold treeCap at h
  cases hb : t.bubble (capStep srvs) incl target m with
  | none => rw [hb] at h; cases h
  | some r =>
    rw [hb] at h; simp only [Option.map_some, Option.some.injEq] at h; subst h
    exact bubble_curOk _ _ (fun b cs m => by obtain ⟨f, e⟩ := capStep_fields srvs b cs m; rw [e]) _ _ _ r.1 r.2 hb hc

theorem curOkL_append : ∀ (a b : List (Option Tree)), CurOkL (a ++ b) ↔ CurOkL a ∧ CurOkL b
  | [], b => by simp [CurOkL]
  | none :: r, b => by simp only [List.cons_append, CurOkL]; exact curOkL_append r b
  | some t :: r, b => by simp only [List.cons_append, CurOkL]; rw [curOkL_append r b, and_assoc]

mutual
theorem attach_curOk (child : Tree) (hchild : CurOk child) : ∀ (t : Tree) (pid : Nat) (t' : Tree),
    Tree.attach child t pid = some t' → CurOk t → CurOk t'
  | .leaf _, _, _, h, _ => by simp [Tree.attach] at h
  | .node b cs, pid, t', h, hc => by
    simp only [CurOk] at hc
    simp only [Tree.attach] at h
    split at h
    · simp only [Option.some.injEq] at h; subst h
      simp only [CurOk, List.length_append, List.length_cons, List.length_nil]
      refine ⟨fun p hp => Nat.le_trans (hc.1 p hp) (by omega), ?_⟩
      rw [curOkL_append]; exact ⟨hc.2, by simp only [CurOkL]; exact ⟨hchild, trivial⟩⟩
    · split at h
      · cases h
      · rename_i cs' heq
        simp only [Option.some.injEq] at h; subst h
        obtain ⟨h1, h2⟩ := attachL_curOk child hchild cs pid cs' heq hc.2
        simp only [CurOk, h2]; exact ⟨hc.1, h1⟩
theorem attachL_curOk (child : Tree) (hchild : CurOk child) : ∀ (cs : List (Option Tree)) (pid : Nat)
    (cs' : List (Option Tree)), Tree.attachL child cs pid = some cs' → CurOkL cs → CurOkL cs' ∧ cs'.length = cs.length
  | [], _, _, h, _ => by simp [Tree.attachL] at h
  | none :: r, pid, cs', h, hc => by
    simp only [CurOkL] at hc
    simp only [Tree.attachL, Option.map_eq_some_iff] at h
    obtain ⟨r', hr, rfl⟩ := h
    obtain ⟨h1, h2⟩ := attachL_curOk child hchild r pid r' hr hc
    exact ⟨by simp only [CurOkL]; exact h1, by simp [h2]⟩
  | some t :: r, pid, cs', h, hc => by
    simp only [CurOkL] at hc
    simp only [Tree.attachL] at h
    split at h
    · rename_i t1 heq
      simp only [Option.some.injEq] at h; subst h
      exact ⟨by simp only [CurOkL]; exact ⟨attach_curOk child hchild t pid t1 heq hc.1, hc.2⟩, by simp⟩
    · simp only [Option.map_eq_some_iff] at h
      obtain ⟨r', hr, rfl⟩ := h
      obtain ⟨h1, h2⟩ := attachL_curOk child hchild r pid r' hr hc.2
      exact ⟨by simp only [CurOkL]; exact ⟨hc.1, h1⟩, by simp [h2]⟩
end

theorem detachHere_curOk : ∀ (cs : List (Option Tree)) (cid : Nat) (cs' : List (Option Tree)) (sub : Tree),
    Tree.detachHere cs cid = some (cs', sub) → CurOkL cs → CurOkL cs' ∧ cs'.length = cs.length
  | [], _, _, _, h, _ => by simp [Tree.detachHere] at h
  | none :: r, cid, cs', sub, h, hc => by
    simp only [CurOkL] at hc
    simp only [Tree.detachHere] at h
    split at h
    · cases h
    · rename_i r' sub' heq
      simp only [Option.some.injEq, Prod.mk.injEq] at h
      obtain ⟨rfl, rfl⟩ := h
      obtain ⟨h1, h2⟩ := detachHere_curOk r cid r' sub' heq hc
      exact ⟨by simp only [CurOkL]; exact h1, by simp [h2]⟩
  | some t :: r, cid, cs', sub, h, hc => by
    simp only [CurOkL] at hc
    simp only [Tree.detachHere] at h
    split at h
    · simp only [Option.some.injEq, Prod.mk.injEq] at h
      obtain ⟨rfl, rfl⟩ := h
      exact ⟨by simp only [CurOkL]; exact hc.2, by simp⟩
    · split at h
      · cases h
      · rename_i r' sub' heq
        simp only [Option.some.injEq, Prod.mk.injEq] at h
        obtain ⟨rfl, rfl⟩ := h
        obtain ⟨h1, h2⟩ := detachHere_curOk r cid r' sub' heq hc.2
        exact ⟨by simp only [CurOkL]; exact ⟨hc.1, h1⟩, by simp [h2]⟩

mutual
theorem detach_curOk : ∀ (t : Tree) (cid : Nat) (t' : Tree) (pid : Nat) (sub : Tree),
    t.detach cid = some (t', pid, sub) → CurOk t → CurOk t'
  | .leaf _, _, _, _, _, h, _ => by simp [Tree.detach] at h
  | .node b cs, cid, t', pid, sub, h, hc => by
    simp only [CurOk] at hc
    simp only [Tree.detach] at h
    split at h
    · rename_i cs' sub' heq
      simp only [Option.some.injEq, Prod.mk.injEq] at h
      obtain ⟨rfl, _, _⟩ := h
      obtain ⟨h1, h2⟩ := detachHere_curOk cs cid cs' sub' heq hc.2
      simp only [CurOk, h2]; exact ⟨hc.1, h1⟩
    · split at h
      · cases h
      · rename_i cs' pid' sub' heq
        simp only [Option.some.injEq, Prod.mk.injEq] at h
        obtain ⟨rfl, _, _⟩ := h
        obtain ⟨h1, h2⟩ := detachL_curOk cs cid cs' pid' sub' heq hc.2
        simp only [CurOk, h2]; exact ⟨hc.1, h1⟩
theorem detachL_curOk : ∀ (cs : List (Option Tree)) (cid : Nat) (cs' : List (Option Tree)) (pid : Nat) (sub : Tree),
    Tree.detachL cs cid = some (cs', pid, sub) → CurOkL cs → CurOkL cs' ∧ cs'.length = cs.length
  | [], _, _, _, _, h, _ => by simp [Tree.detachL] at h
  | none :: r, cid, cs', pid, sub, h, hc => by
    simp only [CurOkL] at hc
    simp only [Tree.detachL] at h
    split at h
    · cases h
    · rename_i r' pid' sub' heq
      simp only [Option.some.injEq, Prod.mk.injEq] at h
      obtain ⟨rfl, _, _⟩ := h
      obtain ⟨h1, h2⟩ := detachL_curOk r cid r' pid' sub' heq hc
      exact ⟨by simp only [CurOkL]; exact h1, by simp [h2]⟩
  | some t :: r, cid, cs', pid, sub, h, hc => by
    simp only [CurOkL] at hc
    simp only [Tree.detachL] at h
    split at h
    · rename_i t1 pid' sub' heq
      simp only [Option.some.injEq, Prod.mk.injEq] at h
      obtain ⟨rfl, _, _⟩ := h
      exact ⟨by simp only [CurOkL]; exact ⟨detach_curOk t cid t1 pid' sub' heq hc.1, hc.2⟩, by simp⟩
    · split at h
      · cases h
      · rename_i r' pid' sub' heq
        simp only [Option.some.injEq, Prod.mk.injEq] at h
        obtain ⟨rfl, _, _⟩ := h
        obtain ⟨h1, h2⟩ := detachL_curOk r cid r' pid' sub' heq hc.2
        exact ⟨by simp only [CurOkL]; exact ⟨hc.1, h1⟩, by simp [h2]⟩
end

/-! ### primitives and operations -/

theorem curOk_lprim {c c' : Cell} {lab : Lab} (hc : CurOk c.tree) (hp : LPrim lab c c') : CurOk c'.tree := by
  cases hp with
  | @put _ _ aid sid l0 b h =>
    cases b with
    | false =>
      rcases serverPut_shape h with ⟨_, rfl⟩ | ⟨hb, _⟩
      · exact hc
      · cases hb
    | true =>
      obtain ⟨a, s, t1, _, _, h1, h2⟩ := serverPut_tree' h
      exact treeCap_curOk h2 (treeAff_curOk h1 hc)
  | remove h =>
    obtain ⟨a, s, t1, _, _, h1, h2⟩ := serverRemove_tree' h
    exact treeCap_curOk h2 (treeAff_curOk h1 hc)
  | release h => rw [(release_tree_srvs h).1]; exact hc
  | acquire h => rw [(acquire_tree_srvs h).1]; exact hc
  | appMeta _ _ _ _ _ _ _ _ _ _ _ _ _ _ _ _ _ _ => exact hc
  | setRenew _ => exact hc
  | ghost _ => exact hc
  | dropDangling _ _ _ => exact hc
  | forgetIdentity _ _ _ _ _ => exact hc
  | tree _ hcur => exact hcur hc
  | clearEv => exact hc

theorem curOk_reach {c c' : Cell} (hc : CurOk c.tree) (h : Reach c c') : CurOk c'.tree := by
  induction h with
  | refl => exact hc
  | step _ p ih => obtain ⟨lab, p⟩ := p; exact curOk_lprim ih p

theorem curOk_addNode {c c' : Cell} {cid tr : Nat} {aff : Counter} {ls : List Nat} {fr : Vec}
    (hc : CurOk c.tree) (h : addNodeEffects c cid tr aff ls fr = .ok c') : CurOk c'.tree := by
  simp only [addNodeEffects, bind_ok, orAbort_ok, pure_ok] at h
  obtain ⟨t1, h1, t2, h2, t3, h3, t4, h4, rfl⟩ := h
  exact treeCap_curOk h4 (treeLabels_curOk h3 (treeAff_curOk h2 (treeTraits_curOk h1 hc)))

theorem curOk_detach {c c' : Cell} {sid : Nat} (hc : CurOk c.tree) (h : detachServer c sid = .ok c') :
    CurOk c'.tree := by
  simp only [detachServer, bind_ok, orAbort_ok, pure_ok] at h
  obtain ⟨s, _, ⟨t, pid, sub⟩, hdet, t1, h1, t2, h2, t3, h3, rfl⟩ := h
  exact treeCap_curOk h3 (treeAff_curOk h2 (treeTraits_curOk h1 (detach_curOk c.tree sid t pid sub hdet hc)))

theorem curOk_step {c c' : Cell} {op : Op} (hc : CurOk c.tree) (h : step c op = .ok c') : CurOk c'.tree := by
  cases op with
  | addBucket bid pid level =>
    simp only [step, addBucket] at h
    split at h
    · simp only [throw_bind, throw_ne_ok] at h
    · simp only [bind_ok, orAbort_ok] at h
      obtain ⟨t, hatt, h⟩ := h
      refine curOk_addNode (c := { c with tree := t }) ?_ h
      exact attach_curOk _ (by simp only [CurOk, CurOkL]; exact ⟨fun _ hp => (by cases hp), trivial⟩) c.tree pid t hatt hc
  | addServer sid pid cap label traits vu =>
    simp only [step, addServer] at h
    split at h
    · simp only [throw_bind, throw_ne_ok] at h
    · split at h
      · simp only [throw_bind, throw_ne_ok] at h
      · simp only [bind_ok, orAbort_ok] at h
        obtain ⟨t, hatt, h⟩ := h
        refine curOk_addNode (c := { c with tree := t, srvs := _ }) ?_ h
        exact attach_curOk _ (by simp only [CurOk]) c.tree pid t hatt hc
  | removeServer sid =>
    simp only [step, removeServer, bind_ok] at h
    obtain ⟨c1, h1, h2⟩ := h
    exact curOk_detach (curOk_reach hc (serverRemoveAll_reach h1)) h2
  | detachServer sid => exact curOk_detach hc h
  | setState sid st since =>
    simp only [step, setState, bind_ok, orAbort_ok] at h
    obtain ⟨s, hs, h⟩ := h
    split at h
    · simp only [pure_ok] at h; subst h; exact hc
    · simp only [bind_ok, orAbort_ok, pure_ok] at h
      obtain ⟨t, ht, rfl⟩ := h
      exact treeCap_curOk ht hc
  | setValidUntil sid v =>
    simp only [step, setValidUntil, bind_ok, orAbort_ok, pure_ok] at h
    obtain ⟨s, hs, rfl⟩ := h; exact hc
  | addApp a =>
    simp only [step, addApp] at h
    split at h
    · simp only [throw_bind, throw_ne_ok] at h
    · simp only [pure_ok] at h
      subst h
      show CurOk (match a.group with | some g => ensureGroup c g | none => c).tree
      cases a.group <;> simp only [ensureGroup_tree] <;> exact hc
  | updateApp aid al prio ret bl =>
    simp only [step, updateApp, bind_ok, orAbort_ok, pure_ok] at h
    obtain ⟨a, ha, rfl⟩ := h
    show CurOk (match a.group with | some g => ensureGroup c g | none => c).tree
    cases a.group <;> simp only [ensureGroup_tree] <;> exact hc
  | removeApp aid =>
    simp only [step, removeApp] at h
    split at h
    · simp only [pure_ok] at h; subst h; exact hc
    · rename_i a ha
      split at h
      · split at h
        · simp only [bind_ok, pure_ok] at h
          obtain ⟨c1, h1, c2, h2, rfl⟩ := h
          show CurOk c2.tree
          rw [(release_tree_srvs h2).1]
          exact curOk_lprim hc (.remove h1)
        · simp only [bind_ok, pure_ok] at h
          obtain ⟨c1, rfl, c2, h2, rfl⟩ := h
          show CurOk c2.tree
          rw [(release_tree_srvs h2).1]; exact hc
      · simp only [bind_ok, pure_ok] at h
        obtain ⟨c1, rfl, c2, h2, rfl⟩ := h
        show CurOk c2.tree
        rw [(release_tree_srvs h2).1]; exact hc
  | setAlloc al info =>
    simp only [step, pure_ok] at h; subst h
    unfold setAlloc; split <;> exact hc
  | configureGroup g n =>
    simp only [step, pure_ok] at h; subst h
    unfold configureGroup; split <;> exact hc
  | removeGroup g =>
    simp only [step, pure_ok] at h; subst h
    unfold removeGroup; split
    · exact hc
    · split <;> exact hc
  | forceIdentity aid k =>
    simp only [step, forceIdentity, bind_ok, orAbort_ok, pure_ok] at h
    obtain ⟨a, ha, g, _, grp, _, rfl⟩ := h; exact hc
  | serverPut aid sid =>
    simp only [step, bind_ok, pure_ok] at h
    obtain ⟨⟨c1, b⟩, h1, rfl⟩ := h
    exact curOk_lprim hc (.put h1)
  | serverRestore aid sid e =>
    simp only [step, bind_ok, pure_ok] at h
    obtain ⟨⟨c1, b⟩, h1, rfl⟩ := h
    exact curOk_reach hc (serverRestore_reach h1)
  | serverRemoveAll sid => exact curOk_reach hc (serverRemoveAll_reach h)
  | setPrio aid p =>
    simp only [step, bind_ok, orAbort_ok, pure_ok] at h
    obtain ⟨a, ha, rfl⟩ := h; exact hc
  | setBlacklisted aid b =>
    simp only [step, bind_ok, orAbort_ok, pure_ok] at h
    obtain ⟨a, ha, rfl⟩ := h; exact hc
  | setUnschedule aid b =>
    simp only [step, bind_ok, orAbort_ok, pure_ok] at h
    obtain ⟨a, ha, rfl⟩ := h; exact hc
  | setRenew aid b =>
    simp only [step, bind_ok, orAbort_ok, pure_ok] at h
    obtain ⟨a, ha, rfl⟩ := h; exact hc
  | tick now => simp only [step, pure_ok] at h; subst h; exact hc
  | schedule qs ch => exact curOk_reach hc (schedule_reach h)

theorem curOk_runOps : ∀ (ops : List Op) (c c' : Cell), CurOk c.tree → runOps c ops = .ok c' → CurOk c'.tree := by
  intro ops
  induction ops with
  | nil => intro c c' hc h; simp only [runOps, pure_ok] at h; subst h; exact hc
  | cons op ops ih =>
    intro c c' hc h
    simp only [runOps, bind_ok] at h
    obtain ⟨c1, h1, h2⟩ := h
    exact ih c1 c' (curOk_step hc h1) h2

theorem curOk_init (r l : Nat) : CurOk (Cell.init r l).tree := by
  simp only [Cell.init, CurOk, CurOkL]
  exact ⟨fun _ hp => (by cases hp), trivial⟩

end TmVerif.Sched
