/-
  C05, end-of-cycle clauses, part 2: the loop over the queue settles every app.
-/
import TmVerif.Sched.Settled

namespace TmVerif.Sched

/-- Every label of an entry's chain targets the entry's app or an app behind it in the queue. -/
theorem placeOk_target {a0 : App} {unpl : Bool} {after : List Nat} {c : Cell} {lab : Lab}
    (h : PlaceOk a0 unpl after c lab) (y : Nat) (ht : lab.target = some y) : y = a0.id ∨ y ∈ after := by
  cases lab with
  | put a sid l0 ok => simp only [Lab.target, Option.some.injEq] at ht; subst ht; exact Or.inl h.1
  | remove sid a =>
    simp only [Lab.target, Option.some.injEq] at ht; subst ht
    rcases h with h | h
    · exact Or.inl h.1
    · exact Or.inr h.2.1
  | release a => simp only [Lab.target, Option.some.injEq] at ht; subst ht; exact Or.inl h.1
  | acquire a ok => simp only [Lab.target, Option.some.injEq] at ht; subst ht; exact Or.inl h.1
  | appMeta a => simp only [Lab.target, Option.some.injEq] at ht; subst ht; exact Or.inl h.1
  | setRenew a b => simp only [Lab.target, Option.some.injEq] at ht; subst ht; exact Or.inl h.1
  | ghost a v => simp only [Lab.target, Option.some.injEq] at ht; subst ht; exact Or.inr h.2.1
  | dropDangling a => simp only [PlaceOk] at h
  | forgetIdentity a => simp only [PlaceOk] at h
  | tree => simp [Lab.target] at ht
  | clearEv => simp [Lab.target] at ht

/-- How any primitive changes the `renew` flag of any app. -/
theorem lprim_renew {c c' : Cell} {lab : Lab} (hp : LPrim lab c c') (y : Nat) :
    ∀ a', c'.app? y = some a' → ∃ a, c.app? y = some a ∧
      (a'.renew = a.renew ∨ ∃ b, lab = .setRenew y b ∧ a'.renew = b) := by
  intro a' ha'
  by_cases ht : lab.target ≠ some y
  · obtain ⟨a, ha, _, _, _, e, _⟩ := lprim_untargeted hp ht a' ha'
    exact ⟨a, ha, Or.inl e⟩
  · have ht : lab.target = some y := Decidable.of_not_not ht
    obtain ⟨a, ha, _⟩ := app?_stat_of (sameStatic_lprim hp) ha'
    refine ⟨a, ha, ?_⟩
    cases hp with
    | @put _ _ aid sid l0 b h =>
      rcases serverPut_shape h with ⟨_, e⟩ | ⟨_, a1, s1, anc, ha1, _, _, _, _, _, happs, _⟩
      · subst e; rw [ha] at ha'; cases ha'; exact Or.inl rfl
      · rw [app?_of_apps happs, ha] at ha'
        simp only [Option.map_some, Option.some.injEq] at ha'
        rw [← ha']
        split
        · rename_i e
          have : y = aid := by rw [← app?_id ha, e]; exact (app?_id ha1 : a1.id = aid)
          subst this; rw [ha] at ha1; cases ha1; exact Or.inl rfl
        · exact Or.inl rfl
    | @remove _ _ sid aid h =>
      obtain ⟨a1, s1, ha1, _, _, happs, _⟩ := serverRemove_shape h
      rw [app?_of_apps happs, ha] at ha'
      simp only [Option.map_some, Option.some.injEq] at ha'
      rw [← ha']
      split
      · rename_i e
        have : y = aid := by rw [← app?_id ha, e]; exact (app?_id ha1 : a1.id = aid)
        subst this; rw [ha] at ha1; cases ha1; exact Or.inl rfl
      · exact Or.inl rfl
    | @release _ _ aid h =>
      simp only [releaseIdentity, bind_ok, orAbort_ok] at h
      obtain ⟨a1, ha1, h⟩ := h
      split at h
      · simp only [bind_ok, orAbort_ok, pure_ok] at h
        obtain ⟨grp, _, rfl⟩ := h
        rcases setApp_cases' (c := c) rfl ha ha' with e | e
        · have hy : y = aid := by
            have h1 := app?_id ha'; rw [e] at h1; exact h1.symm.trans (app?_id ha1 : a1.id = aid)
          subst hy; rw [ha] at ha1; cases ha1; rw [e]; exact Or.inl rfl
        · rw [e]; exact Or.inl rfl
      · simp only [pure_ok] at h; subst h; rw [ha] at ha'; cases ha'; exact Or.inl rfl
    | @acquire _ _ aid ch b ch' h =>
      have hx : aid = y := by simpa [Lab.target] using ht
      subst hx
      obtain ⟨a0, ha0, _, _⟩ := acquire_post h a' ha'
      rw [ha] at ha0; cases ha0
      -- acquire only writes the identity
      simp only [acquireIdentity, bind_ok, orAbort_ok] at h
      obtain ⟨a1, ha1, h⟩ := h
      rw [ha] at ha1; cases ha1
      split at h
      · simp only [pure_ok, Prod.mk.injEq] at h
        obtain ⟨rfl, _⟩ := h; rw [ha] at ha'; cases ha'; exact Or.inl rfl
      · split at h
        · simp only [pure_ok, Prod.mk.injEq] at h
          obtain ⟨rfl, _⟩ := h; rw [ha] at ha'; cases ha'; exact Or.inl rfl
        · simp only [bind_ok, orAbort_ok] at h
          obtain ⟨grp, _, h⟩ := h
          split at h
          · simp only [pure_ok, Prod.mk.injEq] at h
            obtain ⟨rfl, _⟩ := h; rw [ha] at ha'; cases ha'; exact Or.inl rfl
          · split at h
            · simp only [throw_ne_ok] at h
            · split at h
              · simp only [throw_bind, throw_ne_ok] at h
              · simp only [pure_ok, Prod.mk.injEq] at h
                obtain ⟨rfl, _⟩ := h
                rcases setApp_cases' (c := c) rfl ha ha' with e | e <;> (rw [e]; exact Or.inl rfl)
    | @appMeta _ a1 a1' ha1 hid _ _ _ _ _ _ _ _ _ _ _ _ _ _ hrn =>
      rcases setApp_cases ha ha' with e | e
      · have hy : y = a1.id := by
          have h1 := app?_id ha'; rw [e, hid] at h1; exact h1.symm
        subst hy; rw [ha] at ha1; cases ha1; rw [e]; exact Or.inl hrn
      · rw [e]; exact Or.inl rfl
    | @setRenew _ a1 b ha1 =>
      have hx : a1.id = y := by simpa [Lab.target] using ht
      rcases setApp_cases ha ha' with e | e
      · rw [e]; exact Or.inr ⟨b, by rw [hx], rfl⟩
      · rw [e]; exact Or.inl rfl
    | @ghost _ a1 v ha1 =>
      rcases setApp_cases ha ha' with e | e
      · have hy : y = a1.id := by
          have h1 := app?_id ha'; rw [e] at h1; exact h1.symm
        subst hy; rw [ha] at ha1; cases ha1; rw [e]; exact Or.inl rfl
      · rw [e]; exact Or.inl rfl
    | @dropDangling _ a1 sid ha1 =>
      rcases setApp_cases ha ha' with e | e
      · have hy : y = a1.id := by
          have h1 := app?_id ha'; rw [e] at h1; exact h1.symm
        subst hy; rw [ha] at ha1; cases ha1; rw [e]; exact Or.inl rfl
      · rw [e]; exact Or.inl rfl
    | @forgetIdentity _ a1 k g grp ha1 =>
      rcases setApp_cases ha ha' with e | e
      · have hy : y = a1.id := by
          have h1 := app?_id ha'; rw [e] at h1; exact h1.symm
        subst hy; rw [ha] at ha1; cases ha1; rw [e]; exact Or.inl rfl
      · rw [e]; exact Or.inl rfl
    | tree => simp [Lab.target] at ht
    | clearEv => simp [Lab.target] at ht

/-- What must hold of an app that has not had its turn yet: no renewal pending, and a blacklisted
    app is unplaced and holds nothing. -/
def Waiting (c : Cell) (y : Nat) : Prop :=
  ∀ a, c.app? y = some a → a.renew = false ∧
    (a.blacklisted = true → a.server = none ∧ (a.group.isSome = true → a.identity = none))

/-- `Waiting` survives every step of any entry's chain. -/
theorem waiting_step {ct c c' : Cell} {q : Nat × Bool} {a0 : App} {after : List Nat} {lab : Lab} {y : Nat}
    (ha0 : ct.app? q.1 = some a0) (hw0 : Waiting ct q.1) (hs : SameStatic ct c) (hw : Waiting c y)
    (hok : PlaceOk a0 q.2 after c lab) (hp : LPrim lab c c') : Waiting c' y := by
  intro a' ha'
  have hs' := sameStatic_lprim hp
  obtain ⟨a, ha, hst⟩ := app?_stat_of hs' ha'
  have e_bl : a'.blacklisted = a.blacklisted := congrArg AppStat.blacklisted hst
  have e_grp : a'.group = a.group := congrArg AppStat.group hst
  obtain ⟨hrn, hblk⟩ := hw a ha
  have ha0id := app?_id ha0
  have hrn0 : a0.renew = false := (hw0 a0 ha0).1
  -- the renew flag
  have hrenew : a'.renew = false := by
    obtain ⟨b, hb, hcase⟩ := lprim_renew hp y a' ha'
    rw [ha] at hb; cases hb
    rcases hcase with e | ⟨bb, hl, e⟩
    · rw [e]; exact hrn
    · subst hl
      simp only [PlaceOk] at hok
      obtain ⟨_, _, _, himp⟩ := hok
      cases bb with
      | false => exact e
      | true => have := himp rfl; rw [hrn0] at this; cases this
  refine ⟨hrenew, ?_⟩
  intro hbl'
  have hbl : a.blacklisted = true := by rw [← e_bl]; exact hbl'
  obtain ⟨hsv, hidn⟩ := hblk hbl
  -- a blacklisted, unplaced app is not touched by any label
  have hnt : lab.target ≠ some y := by
    intro ht
    rcases placeOk_target hok y ht with e | hafter
    · -- y would be the app of the current entry, which is not blacklisted
      obtain ⟨at_, hat, hst2⟩ := app?_stat_of hs ha
      rw [e, ha0id, ha0] at hat; cases hat
      have eb : a.blacklisted = a0.blacklisted := congrArg AppStat.blacklisted hst2
      have h0 : a0.blacklisted = false := by
        cases lab with
        | put a1 sid l0 ok => exact hok.2.1
        | remove sid a1 =>
          rcases hok with h | h
          · exact h.2.1
          · exact h.2.2.1
        | release a1 => exact hok.2.1
        | acquire a1 ok => exact hok.2.1
        | appMeta a1 => exact hok.2.1
        | setRenew a1 b => exact hok.2.1
        | ghost a1 v => exact hok.2.2.1
        | dropDangling a1 => simp only [PlaceOk] at hok
        | forgetIdentity a1 => simp only [PlaceOk] at hok
        | tree => simp [Lab.target] at ht
        | clearEv => simp [Lab.target] at ht
      rw [eb, h0] at hbl; cases hbl
    · -- y would be a victim: but victims are placed
      cases lab with
      | put a1 sid l0 ok =>
        simp only [Lab.target, Option.some.injEq] at ht; subst ht
        -- own-turn label: y = a0.id
        obtain ⟨at_, hat, hst2⟩ := app?_stat_of hs ha
        have hy : a1 = a0.id := hok.1
        rw [hy, ha0id, ha0] at hat; cases hat
        have eb : a.blacklisted = a0.blacklisted := congrArg AppStat.blacklisted hst2
        rw [eb, hok.2.1] at hbl; cases hbl
      | remove sid a1 =>
        simp only [Lab.target, Option.some.injEq] at ht; subst ht
        rcases hok with h | ⟨_, _, _, _, x0, s0, hx0, _, hsvx, _⟩
        · obtain ⟨at_, hat, hst2⟩ := app?_stat_of hs ha
          rw [h.1, ha0id, ha0] at hat; cases hat
          have eb : a.blacklisted = a0.blacklisted := congrArg AppStat.blacklisted hst2
          rw [eb, h.2.1] at hbl; cases hbl
        · rw [ha] at hx0; cases hx0; rw [hsv] at hsvx; cases hsvx
      | release a1 =>
        simp only [Lab.target, Option.some.injEq] at ht; subst ht
        obtain ⟨at_, hat, hst2⟩ := app?_stat_of hs ha
        rw [hok.1, ha0id, ha0] at hat; cases hat
        have eb : a.blacklisted = a0.blacklisted := congrArg AppStat.blacklisted hst2
        rw [eb, hok.2.1] at hbl; cases hbl
      | acquire a1 ok =>
        simp only [Lab.target, Option.some.injEq] at ht; subst ht
        obtain ⟨at_, hat, hst2⟩ := app?_stat_of hs ha
        rw [hok.1, ha0id, ha0] at hat; cases hat
        have eb : a.blacklisted = a0.blacklisted := congrArg AppStat.blacklisted hst2
        rw [eb, hok.2.1] at hbl; cases hbl
      | appMeta a1 =>
        simp only [Lab.target, Option.some.injEq] at ht; subst ht
        obtain ⟨at_, hat, hst2⟩ := app?_stat_of hs ha
        rw [hok.1, ha0id, ha0] at hat; cases hat
        have eb : a.blacklisted = a0.blacklisted := congrArg AppStat.blacklisted hst2
        rw [eb, hok.2.1] at hbl; cases hbl
      | setRenew a1 b =>
        simp only [Lab.target, Option.some.injEq] at ht; subst ht
        obtain ⟨at_, hat, hst2⟩ := app?_stat_of hs ha
        rw [hok.1, ha0id, ha0] at hat; cases hat
        have eb : a.blacklisted = a0.blacklisted := congrArg AppStat.blacklisted hst2
        rw [eb, hok.2.1] at hbl; cases hbl
      | ghost a1 v =>
        simp only [Lab.target, Option.some.injEq] at ht; subst ht
        obtain ⟨_, _, _, _, x0, sidx, sx, hx0, hsvx, _⟩ := hok
        rw [ha] at hx0; cases hx0; rw [hsv] at hsvx; cases hsvx
      | dropDangling a1 => simp only [PlaceOk] at hok
      | forgetIdentity a1 => simp only [PlaceOk] at hok
      | tree => simp [Lab.target] at ht
      | clearEv => simp [Lab.target] at ht
  obtain ⟨b, hb, e1, e2, _⟩ := lprim_untargeted hp hnt a' ha'
  rw [ha] at hb; cases hb
  exact ⟨by rw [e1]; exact hsv, fun hg => by rw [e2]; exact hidn (by rw [← e_grp]; exact hg)⟩

/-- A settled app that no label targets stays settled. -/
theorem settled_untargeted {c c' : Cell} {lab : Lab} {y : Nat} (hs : Settled c y) (hp : LPrim lab c c')
    (hnt : lab.target ≠ some y) : Settled c' y := by
  intro a' ha'
  obtain ⟨a, ha, e1, e2, _⟩ := lprim_untargeted hp hnt a' ha'
  obtain ⟨a2, ha2, hst⟩ := app?_stat_of (sameStatic_lprim hp) ha'
  rw [ha] at ha2; cases ha2
  have e_grp : a'.group = a.group := congrArg AppStat.group hst
  obtain ⟨h1, h2⟩ := hs a ha
  refine ⟨fun hsome => ?_, fun hn hg => ?_⟩
  · rw [hasIdentity_congr e_grp e2]; exact h1 (by rw [← e1]; exact hsome)
  · rw [e2]; exact h2 (by rw [← e1]; exact hn) (by rw [← e_grp]; exact hg)

end TmVerif.Sched
