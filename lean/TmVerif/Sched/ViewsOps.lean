/-
  How `attach` (add_node) and `detach` (remove_node) act on the flat view of the tree.
-/
import TmVerif.Sched.Views

namespace TmVerif.Sched

theorem Tree.id_mem_names : ∀ (t : Tree), t.id ∈ t.names
  | .leaf s => by simp [Tree.id, Tree.names]
  | .node b cs => by simp [Tree.id, Tree.names]

theorem perm_swap_right {α} (a c r : List α) : ((a ++ c) ++ r).Perm ((a ++ r) ++ c) := by
  rw [List.append_assoc, List.append_assoc]
  exact List.Perm.append_left a List.perm_append_comm

theorem namesL_append : ∀ (a b : List (Option Tree)), Tree.namesL (a ++ b) = Tree.namesL a ++ Tree.namesL b
  | [], b => by simp [Tree.namesL]
  | none :: r, b => by simp only [List.cons_append, Tree.namesL]; exact namesL_append r b
  | some t :: r, b => by simp only [List.cons_append, Tree.namesL, namesL_append r b, List.append_assoc]
theorem leavesL_append : ∀ (a b : List (Option Tree)), Tree.leavesL (a ++ b) = Tree.leavesL a ++ Tree.leavesL b
  | [], b => by simp [Tree.leavesL]
  | none :: r, b => by simp only [List.cons_append, Tree.leavesL]; exact leavesL_append r b
  | some t :: r, b => by simp only [List.cons_append, Tree.leavesL, leavesL_append r b, List.append_assoc]
theorem viewsL_append : ∀ (a b : List (Option Tree)), Tree.viewsL (a ++ b) = Tree.viewsL a ++ Tree.viewsL b
  | [], b => by simp [Tree.viewsL]
  | none :: r, b => by simp only [List.cons_append, Tree.viewsL]; exact viewsL_append r b
  | some t :: r, b => by simp only [List.cons_append, Tree.viewsL, viewsL_append r b, List.append_assoc]
theorem namesL_append_one (cs : List (Option Tree)) (t : Tree) : Tree.namesL (cs ++ [some t]) = Tree.namesL cs ++ t.names := by
  rw [namesL_append]; simp [Tree.namesL]
theorem leavesL_append_one (cs : List (Option Tree)) (t : Tree) : Tree.leavesL (cs ++ [some t]) = Tree.leavesL cs ++ t.leaves := by
  rw [leavesL_append]; simp [Tree.leavesL]
theorem viewsL_append_one (cs : List (Option Tree)) (t : Tree) : Tree.viewsL (cs ++ [some t]) = Tree.viewsL cs ++ t.views := by
  rw [viewsL_append]; simp [Tree.viewsL]

/-! ### attach -/

/-- `v'` is `v` with the attached subtree's names / leaves added iff `v` is at or above `pid`. -/
def AttRel (pid : Nat) (cn cl : List Nat) (v v' : NView) : Prop :=
  v'.b = v.b ∧
  ((v.above true pid = true ∧ v'.names.Perm (v.names ++ cn) ∧ v'.leaves.Perm (v.leaves ++ cl)) ∨
   (v.above true pid = false ∧ v'.names = v.names ∧ v'.leaves = v.leaves))

theorem attRel_notin {pid : Nat} {cn cl : List Nat} {ns : List Nat} {v : NView}
    (h1 : v.b.id ∈ ns) (h2 : ∀ x ∈ v.names, x ∈ ns) (hnot : pid ∉ ns) : AttRel pid cn cl v v := by
  refine ⟨rfl, Or.inr ⟨?_, rfl, rfl⟩⟩
  have e1 : pid ∉ v.names := fun h => hnot (h2 _ h)
  have e2 : v.b.id ≠ pid := fun e => hnot (e ▸ h1)
  simp [NView.above, e1, e2]

mutual
theorem attach_spec (child : Tree) : ∀ (t : Tree) (pid : Nat) (t' : Tree), t.names.Nodup →
    Tree.attach child t pid = some t' →
    pid ∈ t.names ∧ t'.names.Perm (t.names ++ child.names) ∧ t'.leaves.Perm (t.leaves ++ child.leaves) ∧
    (∀ v' ∈ t'.views, v' ∈ child.views ∨ ∃ v ∈ t.views, AttRel pid child.names child.leaves v v')
  | .leaf _, _, _, _, h => by simp [Tree.attach] at h
  | .node b cs, pid, t', hnd, h => by
    simp only [Tree.names, List.nodup_cons] at hnd
    simp only [Tree.attach] at h
    split at h
    · rename_i hb
      simp only [Option.some.injEq] at h
      subst h
      have hn : Tree.namesL (cs ++ [some child]) = Tree.namesL cs ++ child.names := namesL_append_one cs child
      have hl : Tree.leavesL (cs ++ [some child]) = Tree.leavesL cs ++ child.leaves := leavesL_append_one cs child
      have hv : Tree.viewsL (cs ++ [some child]) = Tree.viewsL cs ++ child.views := viewsL_append_one cs child
      refine ⟨by simp [Tree.names, hb], ?_, ?_, ?_⟩
      · simp only [Tree.names, hn, List.cons_append]; exact List.Perm.refl _
      · simp only [Tree.leaves, hl]; exact List.Perm.refl _
      · intro v' hv'
        simp only [Tree.views, hv, List.mem_cons, List.mem_append] at hv'
        rcases hv' with rfl | hv' | hv'
        · refine Or.inr ⟨⟨b, Tree.namesL cs, Tree.leavesL cs⟩, by simp [Tree.views], rfl, Or.inl ⟨?_, ?_, ?_⟩⟩
          · simp [NView.above, hb]
          · simp only [hn]; exact List.Perm.refl _
          · simp only [hl]; exact List.Perm.refl _
        · refine Or.inr ⟨v', by simp [Tree.views, hv'], ?_⟩
          have := viewsL_inside cs v' hv'
          exact attRel_notin this.1 this.2.1 (by rw [← hb]; exact hnd.1)
        · exact Or.inl hv'
    · rename_i hb
      split at h
      · cases h
      · rename_i cs' heq
        simp only [Option.some.injEq] at h
        subst h
        obtain ⟨h1, h2, h3, h4⟩ := attachL_spec child cs pid cs' hnd.2 heq
        refine ⟨by simp [Tree.names, h1], ?_, ?_, ?_⟩
        · simp only [Tree.names, List.cons_append]; exact List.Perm.cons _ h2
        · simp only [Tree.leaves]; exact h3
        · intro v' hv'
          simp only [Tree.views, List.mem_cons] at hv'
          rcases hv' with rfl | hv'
          · refine Or.inr ⟨⟨b, Tree.namesL cs, Tree.leavesL cs⟩, by simp [Tree.views], rfl, Or.inl ⟨?_, h2, h3⟩⟩
            simp [NView.above, h1]
          · rcases h4 v' hv' with hc | ⟨v, hv, hr⟩
            · exact Or.inl hc
            · exact Or.inr ⟨v, by simp [Tree.views, hv], hr⟩
theorem attachL_spec (child : Tree) : ∀ (cs : List (Option Tree)) (pid : Nat) (cs' : List (Option Tree)),
    (Tree.namesL cs).Nodup → Tree.attachL child cs pid = some cs' →
    pid ∈ Tree.namesL cs ∧ (Tree.namesL cs').Perm (Tree.namesL cs ++ child.names) ∧
    (Tree.leavesL cs').Perm (Tree.leavesL cs ++ child.leaves) ∧
    (∀ v' ∈ Tree.viewsL cs', v' ∈ child.views ∨ ∃ v ∈ Tree.viewsL cs, AttRel pid child.names child.leaves v v')
  | [], _, _, _, h => by simp [Tree.attachL] at h
  | none :: r, pid, cs', hnd, h => by
    simp only [Tree.namesL] at hnd
    simp only [Tree.attachL, Option.map_eq_some_iff] at h
    obtain ⟨r', hr, rfl⟩ := h
    simp only [Tree.namesL, Tree.leavesL, Tree.viewsL]
    exact attachL_spec child r pid r' hnd hr
  | some t :: r, pid, cs', hnd, h => by
    simp only [Tree.namesL] at hnd
    have hnd' := List.nodup_append.mp hnd
    simp only [Tree.attachL] at h
    split at h
    · rename_i t1 heq
      simp only [Option.some.injEq] at h
      subst h
      obtain ⟨h1, h2, h3, h4⟩ := attach_spec child t pid t1 hnd'.1 heq
      simp only [Tree.namesL, Tree.leavesL, Tree.viewsL, List.mem_append]
      refine ⟨Or.inl h1, ?_, ?_, ?_⟩
      · exact (List.Perm.append_right _ h2).trans (perm_swap_right _ _ _)
      · exact (List.Perm.append_right _ h3).trans (perm_swap_right _ _ _)
      · intro v' hv'
        rcases hv' with hv' | hv'
        · rcases h4 v' hv' with hc | ⟨v, hv, hr⟩
          · exact Or.inl hc
          · exact Or.inr ⟨v, Or.inl hv, hr⟩
        · refine Or.inr ⟨v', Or.inr hv', ?_⟩
          have := viewsL_inside r v' hv'
          exact attRel_notin this.1 this.2.1 (fun hr => hnd'.2.2 _ h1 _ hr rfl)
    · rename_i hnone
      simp only [Option.map_eq_some_iff] at h
      obtain ⟨r', hr, rfl⟩ := h
      obtain ⟨h1, h2, h3, h4⟩ := attachL_spec child r pid r' hnd'.2.1 hr
      simp only [Tree.namesL, Tree.leavesL, Tree.viewsL, List.mem_append]
      refine ⟨Or.inr h1, ?_, ?_, ?_⟩
      · rw [List.append_assoc]; exact List.Perm.append_left _ h2
      · rw [List.append_assoc]; exact List.Perm.append_left _ h3
      · intro v' hv'
        rcases hv' with hv' | hv'
        · refine Or.inr ⟨v', Or.inl hv', ?_⟩
          have := views_inside t v' hv'
          exact attRel_notin this.1 this.2.1 (fun ht => hnd'.2.2 _ ht _ h1 rfl)
        · rcases h4 v' hv' with hc | ⟨v, hv, hr⟩
          · exact Or.inl hc
          · exact Or.inr ⟨v, Or.inr hv, hr⟩
end

/-! ### detach -/

/-- `v'` (after) is `v` (before) minus the detached subtree iff `v'` is at or above the parent `pid`. -/
def DetRel (pid : Nat) (sn sl : List Nat) (v v' : NView) : Prop :=
  v'.b = v.b ∧
  ((v'.above true pid = true ∧ v.names.Perm (v'.names ++ sn) ∧ v.leaves.Perm (v'.leaves ++ sl)) ∨
   (v'.above true pid = false ∧ v'.names = v.names ∧ v'.leaves = v.leaves))

theorem detRel_notin {pid : Nat} {sn sl : List Nat} {ns : List Nat} {v : NView}
    (h1 : v.b.id ∈ ns) (h2 : ∀ x ∈ v.names, x ∈ ns) (hnot : pid ∉ ns) : DetRel pid sn sl v v := by
  refine ⟨rfl, Or.inr ⟨?_, rfl, rfl⟩⟩
  have e1 : pid ∉ v.names := fun h => hnot (h2 _ h)
  have e2 : v.b.id ≠ pid := fun e => hnot (e ▸ h1)
  simp [NView.above, e1, e2]

theorem detachHere_spec : ∀ (cs : List (Option Tree)) (cid : Nat) (cs' : List (Option Tree)) (sub : Tree),
    Tree.detachHere cs cid = some (cs', sub) →
    sub.id = cid ∧ (Tree.namesL cs).Perm (Tree.namesL cs' ++ sub.names) ∧
    (Tree.leavesL cs).Perm (Tree.leavesL cs' ++ sub.leaves) ∧ (∀ v' ∈ Tree.viewsL cs', v' ∈ Tree.viewsL cs)
  | [], _, _, _, h => by simp [Tree.detachHere] at h
  | none :: r, cid, cs', sub, h => by
    simp only [Tree.detachHere] at h
    split at h
    · cases h
    · rename_i r' sub' heq
      simp only [Option.some.injEq, Prod.mk.injEq] at h
      obtain ⟨rfl, rfl⟩ := h
      simp only [Tree.namesL, Tree.leavesL, Tree.viewsL]
      exact detachHere_spec r cid r' sub' heq
  | some t :: r, cid, cs', sub, h => by
    simp only [Tree.detachHere] at h
    split at h
    · rename_i hid
      simp only [Option.some.injEq, Prod.mk.injEq] at h
      obtain ⟨rfl, rfl⟩ := h
      simp only [Tree.namesL, Tree.leavesL, Tree.viewsL, List.mem_append]
      exact ⟨hid, List.perm_append_comm, List.perm_append_comm, fun v' hv' => Or.inr hv'⟩
    · split at h
      · cases h
      · rename_i r' sub' heq
        simp only [Option.some.injEq, Prod.mk.injEq] at h
        obtain ⟨rfl, rfl⟩ := h
        obtain ⟨h1, h2, h3, h4⟩ := detachHere_spec r cid r' sub' heq
        simp only [Tree.namesL, Tree.leavesL, Tree.viewsL, List.mem_append]
        refine ⟨h1, ?_, ?_, ?_⟩
        · rw [List.append_assoc]; exact List.Perm.append_left _ h2
        · rw [List.append_assoc]; exact List.Perm.append_left _ h3
        · intro v' hv'
          rcases hv' with hv' | hv'
          · exact Or.inl hv'
          · exact Or.inr (h4 v' hv')

mutual
theorem detach_spec : ∀ (t : Tree) (cid : Nat) (t' : Tree) (pid : Nat) (sub : Tree), t.names.Nodup →
    t.detach cid = some (t', pid, sub) →
    sub.id = cid ∧ t.names.Perm (t'.names ++ sub.names) ∧ t.leaves.Perm (t'.leaves ++ sub.leaves) ∧
    pid ∈ t'.names ∧ (∀ v' ∈ t'.views, ∃ v ∈ t.views, DetRel pid sub.names sub.leaves v v')
  | .leaf _, _, _, _, _, _, h => by simp [Tree.detach] at h
  | .node b cs, cid, t', pid, sub, hnd, h => by
    simp only [Tree.names, List.nodup_cons] at hnd
    simp only [Tree.detach] at h
    split at h
    · rename_i cs' sub' heq
      simp only [Option.some.injEq, Prod.mk.injEq] at h
      obtain ⟨rfl, rfl, rfl⟩ := h
      obtain ⟨h1, h2, h3, h4⟩ := detachHere_spec cs cid cs' sub' heq
      refine ⟨h1, ?_, ?_, by simp [Tree.names], ?_⟩
      · simp only [Tree.names, List.cons_append]; exact List.Perm.cons _ h2
      · simp only [Tree.leaves]; exact h3
      · intro v' hv'
        simp only [Tree.views, List.mem_cons] at hv'
        rcases hv' with rfl | hv'
        · refine ⟨⟨b, Tree.namesL cs, Tree.leavesL cs⟩, by simp [Tree.views], rfl, Or.inl ⟨?_, h2, h3⟩⟩
          simp [NView.above]
        · have hv := h4 v' hv'
          refine ⟨v', by simp [Tree.views, hv], ?_⟩
          have := viewsL_inside cs v' hv
          exact detRel_notin this.1 this.2.1 hnd.1
    · split at h
      · cases h
      · rename_i cs' pid' sub' heq
        simp only [Option.some.injEq, Prod.mk.injEq] at h
        obtain ⟨rfl, rfl, rfl⟩ := h
        obtain ⟨h1, h2, h3, h4, h5⟩ := detachL_spec cs cid cs' pid' sub' hnd.2 heq
        refine ⟨h1, ?_, ?_, by simp [Tree.names, h4], ?_⟩
        · simp only [Tree.names, List.cons_append]; exact List.Perm.cons _ h2
        · simp only [Tree.leaves]; exact h3
        · intro v' hv'
          simp only [Tree.views, List.mem_cons] at hv'
          rcases hv' with rfl | hv'
          · refine ⟨⟨b, Tree.namesL cs, Tree.leavesL cs⟩, by simp [Tree.views], rfl, Or.inl ⟨?_, h2, h3⟩⟩
            simp [NView.above, h4]
          · obtain ⟨v, hv, hr⟩ := h5 v' hv'
            exact ⟨v, by simp [Tree.views, hv], hr⟩
theorem detachL_spec : ∀ (cs : List (Option Tree)) (cid : Nat) (cs' : List (Option Tree)) (pid : Nat) (sub : Tree),
    (Tree.namesL cs).Nodup → Tree.detachL cs cid = some (cs', pid, sub) →
    sub.id = cid ∧ (Tree.namesL cs).Perm (Tree.namesL cs' ++ sub.names) ∧
    (Tree.leavesL cs).Perm (Tree.leavesL cs' ++ sub.leaves) ∧
    pid ∈ Tree.namesL cs' ∧ (∀ v' ∈ Tree.viewsL cs', ∃ v ∈ Tree.viewsL cs, DetRel pid sub.names sub.leaves v v')
  | [], _, _, _, _, _, h => by simp [Tree.detachL] at h
  | none :: r, cid, cs', pid, sub, hnd, h => by
    simp only [Tree.namesL] at hnd
    simp only [Tree.detachL] at h
    split at h
    · cases h
    · rename_i r' pid' sub' heq
      simp only [Option.some.injEq, Prod.mk.injEq] at h
      obtain ⟨rfl, rfl, rfl⟩ := h
      simp only [Tree.namesL, Tree.leavesL, Tree.viewsL]
      exact detachL_spec r cid r' pid' sub' hnd heq
  | some t :: r, cid, cs', pid, sub, hnd, h => by
    simp only [Tree.namesL] at hnd
    have hnd' := List.nodup_append.mp hnd
    simp only [Tree.detachL] at h
    split at h
    · rename_i t1 pid' sub' heq
      simp only [Option.some.injEq, Prod.mk.injEq] at h
      obtain ⟨rfl, rfl, rfl⟩ := h
      obtain ⟨h1, h2, h3, h4, h5⟩ := detach_spec t cid t1 pid' sub' hnd'.1 heq
      simp only [Tree.namesL, Tree.leavesL, Tree.viewsL, List.mem_append]
      refine ⟨h1, ?_, ?_, Or.inl h4, ?_⟩
      · exact (List.Perm.append_right _ h2).trans (perm_swap_right _ _ _)
      · exact (List.Perm.append_right _ h3).trans (perm_swap_right _ _ _)
      · intro v' hv'
        rcases hv' with hv' | hv'
        · obtain ⟨v, hv, hr⟩ := h5 v' hv'
          exact ⟨v, Or.inl hv, hr⟩
        · refine ⟨v', Or.inr hv', ?_⟩
          have := viewsL_inside r v' hv'
          have hpt : pid' ∈ t.names := (h2.mem_iff).mpr (List.mem_append_left _ h4)
          exact detRel_notin this.1 this.2.1 (fun hr => hnd'.2.2 _ hpt _ hr rfl)
    · split at h
      · cases h
      · rename_i r' pid' sub' heq
        simp only [Option.some.injEq, Prod.mk.injEq] at h
        obtain ⟨rfl, rfl, rfl⟩ := h
        obtain ⟨h1, h2, h3, h4, h5⟩ := detachL_spec r cid r' pid' sub' hnd'.2.1 heq
        simp only [Tree.namesL, Tree.leavesL, Tree.viewsL, List.mem_append]
        refine ⟨h1, ?_, ?_, Or.inr h4, ?_⟩
        · rw [List.append_assoc]; exact List.Perm.append_left _ h2
        · rw [List.append_assoc]; exact List.Perm.append_left _ h3
        · intro v' hv'
          rcases hv' with hv' | hv'
          · refine ⟨v', Or.inl hv', ?_⟩
            have := views_inside t v' hv'
            have hpr : pid' ∈ Tree.namesL r := (h2.mem_iff).mpr (List.mem_append_left _ h4)
            exact detRel_notin this.1 this.2.1 (fun ht => hnd'.2.2 _ ht _ hpr rfl)
          · obtain ⟨v, hv, hr⟩ := h5 v' hv'
            exact ⟨v, Or.inr hv, hr⟩
end

end TmVerif.Sched
