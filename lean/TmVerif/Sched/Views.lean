/-
  A flat view of the topology tree: one record per bucket, with the names of its strict
  descendants and the server ids below it.  The tree invariants (affinity counters, C04) are
  stated over this list; this file proves how upward propagation (`bubble`), `path`, the search,
  `attach` and `detach` act on it.
-/
import TmVerif.Sched.TreeLemmas
import TmVerif.Base.ListX

namespace TmVerif.Sched

mutual
/-- All names (bucket ids and server ids), DFS pre-order. -/
def Tree.names : Tree → List Nat
  | .leaf s => [s]
  | .node b cs => b.id :: Tree.namesL cs
def Tree.namesL : List (Option Tree) → List Nat
  | [] => []
  | none :: r => Tree.namesL r
  | some t :: r => t.names ++ Tree.namesL r
end

structure NView where
  b : Bkt
  /-- names of the strict descendants -/
  names : List Nat
  /-- server ids below -/
  leaves : List Nat

mutual
def Tree.views : Tree → List NView
  | .leaf _ => []
  | .node b cs => ⟨b, Tree.namesL cs, Tree.leavesL cs⟩ :: Tree.viewsL cs
def Tree.viewsL : List (Option Tree) → List NView
  | [] => []
  | none :: r => Tree.viewsL r
  | some t :: r => t.views ++ Tree.viewsL r
end

/-! ### leaves ⊆ names; views stay inside the subtree -/

mutual
theorem leaves_sub_names : ∀ (t : Tree) (x : Nat), x ∈ t.leaves → x ∈ t.names
  | .leaf s, x, h => by simpa [Tree.leaves, Tree.names] using h
  | .node b cs, x, h => by
    simp only [Tree.leaves] at h
    simp only [Tree.names, List.mem_cons]
    exact Or.inr (leavesL_sub_namesL cs x h)
theorem leavesL_sub_namesL : ∀ (cs : List (Option Tree)) (x : Nat), x ∈ Tree.leavesL cs → x ∈ Tree.namesL cs
  | [], x, h => by simp [Tree.leavesL] at h
  | none :: r, x, h => by
    simp only [Tree.leavesL] at h
    simp only [Tree.namesL]
    exact leavesL_sub_namesL r x h
  | some t :: r, x, h => by
    simp only [Tree.leavesL, List.mem_append] at h
    simp only [Tree.namesL, List.mem_append]
    rcases h with h | h
    · exact Or.inl (leaves_sub_names t x h)
    · exact Or.inr (leavesL_sub_namesL r x h)
end

mutual
theorem views_inside : ∀ (t : Tree) (v : NView), v ∈ t.views →
    v.b.id ∈ t.names ∧ (∀ x ∈ v.names, x ∈ t.names) ∧ (∀ x ∈ v.leaves, x ∈ v.names)
  | .leaf _, v, h => by simp [Tree.views] at h
  | .node b cs, v, h => by
    simp only [Tree.views, List.mem_cons] at h
    simp only [Tree.names, List.mem_cons]
    rcases h with rfl | h
    · exact ⟨Or.inl rfl, fun x hx => Or.inr hx, fun x hx => leavesL_sub_namesL cs x hx⟩
    · obtain ⟨h1, h2, h3⟩ := viewsL_inside cs v h
      exact ⟨Or.inr h1, fun x hx => Or.inr (h2 x hx), h3⟩
theorem viewsL_inside : ∀ (cs : List (Option Tree)) (v : NView), v ∈ Tree.viewsL cs →
    v.b.id ∈ Tree.namesL cs ∧ (∀ x ∈ v.names, x ∈ Tree.namesL cs) ∧ (∀ x ∈ v.leaves, x ∈ v.names)
  | [], v, h => by simp [Tree.viewsL] at h
  | none :: r, v, h => by
    simp only [Tree.viewsL] at h
    simp only [Tree.namesL]
    exact viewsL_inside r v h
  | some t :: r, v, h => by
    simp only [Tree.viewsL, List.mem_append] at h
    simp only [Tree.namesL, List.mem_append]
    rcases h with h | h
    · obtain ⟨h1, h2, h3⟩ := views_inside t v h
      exact ⟨Or.inl h1, fun x hx => Or.inl (h2 x hx), h3⟩
    · obtain ⟨h1, h2, h3⟩ := viewsL_inside r v h
      exact ⟨Or.inr h1, fun x hx => Or.inr (h2 x hx), h3⟩
end

/-! ### `bubble` -/

section Bubble
variable {μ : Type} (step : Bkt → List (Option Tree) → μ → Bkt × μ) (incl : Bool)

mutual
theorem bubble_names (hid : ∀ b cs m, (step b cs m).1.id = b.id) :
    ∀ (t : Tree) (target : Nat) (m : μ) (t' : Tree) (m' : μ),
      t.bubble step incl target m = some (t', m') → t'.names = t.names
  | .leaf s, target, m, t', m', h => by
    simp only [Tree.bubble] at h
    split at h
    · simp only [Option.some.injEq, Prod.mk.injEq] at h; rw [← h.1]
    · cases h
  | .node b cs, target, m, t', m', h => by
    simp only [Tree.bubble] at h
    split at h
    · split at h
      · simp only [Option.some.injEq, Prod.mk.injEq] at h; rw [← h.1]; simp only [Tree.names, hid]
      · simp only [Option.some.injEq, Prod.mk.injEq] at h; rw [← h.1]
    · split at h
      · cases h
      · rename_i cs' m1 heq
        simp only [Option.some.injEq, Prod.mk.injEq] at h
        rw [← h.1]
        simp only [Tree.names, hid]
        rw [bubbleL_names hid cs target m cs' m1 heq]
theorem bubbleL_names (hid : ∀ b cs m, (step b cs m).1.id = b.id) :
    ∀ (cs : List (Option Tree)) (target : Nat) (m : μ) (cs' : List (Option Tree)) (m' : μ),
      Tree.bubbleL step incl cs target m = some (cs', m') → Tree.namesL cs' = Tree.namesL cs
  | [], _, _, _, _, h => by simp [Tree.bubbleL] at h
  | none :: r, target, m, cs', m', h => by
    simp only [Tree.bubbleL] at h
    split at h
    · cases h
    · rename_i r' m1 heq
      simp only [Option.some.injEq, Prod.mk.injEq] at h
      rw [← h.1]
      simp only [Tree.namesL]
      exact bubbleL_names hid r target m r' m1 heq
  | some t :: r, target, m, cs', m', h => by
    simp only [Tree.bubbleL] at h
    split at h
    · rename_i t1 m1 heq
      simp only [Option.some.injEq, Prod.mk.injEq] at h
      rw [← h.1]
      simp only [Tree.namesL]
      rw [bubble_names hid t target m t1 m1 heq]
    · split at h
      · cases h
      · rename_i r' m1 heq
        simp only [Option.some.injEq, Prod.mk.injEq] at h
        rw [← h.1]
        simp only [Tree.namesL]
        rw [bubbleL_names hid r target m r' m1 heq]
end

mutual
/-- `bubble` finds its target exactly when the name is in the tree. -/
theorem bubble_isSome : ∀ (t : Tree) (target : Nat) (m : μ),
    (t.bubble step incl target m).isSome = true ↔ target ∈ t.names
  | .leaf s, target, m => by
    simp only [Tree.bubble, Tree.names, List.mem_singleton]
    split
    · rename_i e; simp [e]
    · rename_i e; simp; exact fun e' => e e'.symm
  | .node b cs, target, m => by
    simp only [Tree.bubble, Tree.names, List.mem_cons]
    split
    · rename_i e
      constructor
      · intro _; exact Or.inl e.symm
      · intro _; split <;> rfl
    · rename_i e
      have ih := bubbleL_isSome cs target m
      cases hb : Tree.bubbleL step incl cs target m with
      | none =>
        rw [hb] at ih
        simp only [Option.isSome_none, Bool.false_eq_true, false_iff] at ih ⊢
        rintro (e' | h')
        · exact e e'.symm
        · exact ih h'
      | some r =>
        rw [hb] at ih
        simp only [Option.isSome_some, true_iff] at ih ⊢
        exact Or.inr ih
theorem bubbleL_isSome : ∀ (cs : List (Option Tree)) (target : Nat) (m : μ),
    (Tree.bubbleL step incl cs target m).isSome = true ↔ target ∈ Tree.namesL cs
  | [], _, _ => by simp [Tree.bubbleL, Tree.namesL]
  | none :: r, target, m => by
    simp only [Tree.bubbleL, Tree.namesL]
    have ih := bubbleL_isSome r target m
    cases hb : Tree.bubbleL step incl r target m with
    | none => rw [hb] at ih; simpa using ih
    | some x => rw [hb] at ih; simpa using ih
  | some t :: r, target, m => by
    simp only [Tree.bubbleL, Tree.namesL, List.mem_append]
    have ih1 := bubble_isSome t target m
    have ih2 := bubbleL_isSome r target m
    cases hb : t.bubble step incl target m with
    | some x =>
      rw [hb] at ih1
      simp only [Option.isSome_some, true_iff] at ih1 ⊢
      exact Or.inl ih1
    | none =>
      rw [hb] at ih1
      simp only [Option.isSome_none, Bool.false_eq_true, false_iff] at ih1
      cases hb2 : Tree.bubbleL step incl r target m with
      | none =>
        rw [hb2] at ih2
        simp only [Option.isSome_none, Bool.false_eq_true, false_iff] at ih2 ⊢
        rintro (h | h)
        · exact ih1 h
        · exact ih2 h
      | some y =>
        rw [hb2] at ih2
        simp only [Option.isSome_some, true_iff] at ih2 ⊢
        exact Or.inr ih2
end

theorem bubble_mem {t : Tree} {target : Nat} {m : μ} {r} (h : t.bubble step incl target m = some r) :
    target ∈ t.names := by
  have := (bubble_isSome step incl t target m).mp (by rw [h]; rfl)
  exact this

theorem bubble_none {t : Tree} {target : Nat} {m : μ} (h : t.bubble step incl target m = none) :
    target ∉ t.names := by
  intro hm
  have := (bubble_isSome step incl t target m).mpr hm
  rw [h] at this; cases this

theorem bubbleL_mem {cs : List (Option Tree)} {target : Nat} {m : μ} {r}
    (h : Tree.bubbleL step incl cs target m = some r) : target ∈ Tree.namesL cs :=
  (bubbleL_isSome step incl cs target m).mp (by rw [h]; rfl)

theorem bubbleL_none {cs : List (Option Tree)} {target : Nat} {m : μ}
    (h : Tree.bubbleL step incl cs target m = none) : target ∉ Tree.namesL cs := by
  intro hm
  have := (bubbleL_isSome step incl cs target m).mpr hm
  rw [h] at this; cases this

end Bubble

/-! ### a bubble that preserves a projection of every bucket preserves the projected views -/

/-- Two view lists agree up to a relation on the bucket records. -/
def ViewsRel (R : Bkt → Bkt → Prop) (l l' : List NView) : Prop :=
  TmVerif.Forall2 (fun v v' => R v.b v'.b ∧ v'.names = v.names ∧ v'.leaves = v.leaves) l l'

theorem ViewsRel.refl {R : Bkt → Bkt → Prop} (hr : ∀ b, R b b) : ∀ l, ViewsRel R l l
  | [] => Forall2.nil
  | v :: l => Forall2.cons ⟨hr _, rfl, rfl⟩ (ViewsRel.refl hr l)

theorem ViewsRel.append {R : Bkt → Bkt → Prop} {a a' b b' : List NView} (h1 : ViewsRel R a a')
    (h2 : ViewsRel R b b') : ViewsRel R (a ++ b) (a' ++ b') := by
  induction h1 with
  | nil => exact h2
  | cons h _ ih => exact Forall2.cons h ih

/-- From a `ViewsRel`, every new view comes from an old one. -/
theorem ViewsRel.mem_right {R : Bkt → Bkt → Prop} {l l' : List NView} (h : ViewsRel R l l') :
    ∀ v' ∈ l', ∃ v ∈ l, R v.b v'.b ∧ v'.names = v.names ∧ v'.leaves = v.leaves := by
  induction h with
  | nil => intro v' hv; cases hv
  | cons hh _ ih =>
    intro v' hv
    rcases List.mem_cons.mp hv with rfl | hv
    · exact ⟨_, List.mem_cons_self, hh⟩
    · obtain ⟨v, hv1, hv2⟩ := ih v' hv
      exact ⟨v, List.mem_cons_of_mem _ hv1, hv2⟩

theorem ViewsRel.mem_left {R : Bkt → Bkt → Prop} {l l' : List NView} (h : ViewsRel R l l') :
    ∀ v ∈ l, ∃ v' ∈ l', R v.b v'.b ∧ v'.names = v.names ∧ v'.leaves = v.leaves := by
  induction h with
  | nil => intro v hv; cases hv
  | cons hh _ ih =>
    intro v hv
    rcases List.mem_cons.mp hv with rfl | hv
    · exact ⟨_, List.mem_cons_self, hh⟩
    · obtain ⟨v', hv1, hv2⟩ := ih v hv
      exact ⟨v', List.mem_cons_of_mem _ hv1, hv2⟩

section BubbleRel
variable {μ : Type} (step : Bkt → List (Option Tree) → μ → Bkt × μ) (incl : Bool)
variable (R : Bkt → Bkt → Prop) (hr : ∀ b, R b b) (hstep : ∀ b cs m, R b (step b cs m).1)
variable (hid : ∀ b cs m, (step b cs m).1.id = b.id)
include hr hstep hid

mutual
theorem bubble_viewsRel : ∀ (t : Tree) (target : Nat) (m : μ) (t' : Tree) (m' : μ),
    t.bubble step incl target m = some (t', m') → ViewsRel R t.views t'.views
  | .leaf s, target, m, t', m', h => by
    simp only [Tree.bubble] at h
    split at h
    · simp only [Option.some.injEq, Prod.mk.injEq] at h; rw [← h.1]; exact ViewsRel.refl hr _
    · cases h
  | .node b cs, target, m, t', m', h => by
    simp only [Tree.bubble] at h
    split at h
    · split at h
      · simp only [Option.some.injEq, Prod.mk.injEq] at h; rw [← h.1]
        simp only [Tree.views]
        exact Forall2.cons ⟨hstep _ _ _, rfl, rfl⟩ (ViewsRel.refl hr _)
      · simp only [Option.some.injEq, Prod.mk.injEq] at h; rw [← h.1]; exact ViewsRel.refl hr _
    · split at h
      · cases h
      · rename_i cs' m1 heq
        simp only [Option.some.injEq, Prod.mk.injEq] at h
        rw [← h.1]
        simp only [Tree.views]
        refine Forall2.cons ⟨hstep _ _ _, ?_, ?_⟩ (bubbleL_viewsRel cs target m cs' m1 heq)
        · exact bubbleL_names step incl hid cs target m cs' m1 heq
        · exact bubbleL_leaves step incl cs target m cs' m1 heq
theorem bubbleL_viewsRel : ∀ (cs : List (Option Tree)) (target : Nat) (m : μ) (cs' : List (Option Tree)) (m' : μ),
    Tree.bubbleL step incl cs target m = some (cs', m') → ViewsRel R (Tree.viewsL cs) (Tree.viewsL cs')
  | [], _, _, _, _, h => by simp [Tree.bubbleL] at h
  | none :: r, target, m, cs', m', h => by
    simp only [Tree.bubbleL] at h
    split at h
    · cases h
    · rename_i r' m1 heq
      simp only [Option.some.injEq, Prod.mk.injEq] at h
      rw [← h.1]
      simp only [Tree.viewsL]
      exact bubbleL_viewsRel r target m r' m1 heq
  | some t :: r, target, m, cs', m', h => by
    simp only [Tree.bubbleL] at h
    split at h
    · rename_i t1 m1 heq
      simp only [Option.some.injEq, Prod.mk.injEq] at h
      rw [← h.1]
      simp only [Tree.viewsL]
      exact (bubble_viewsRel t target m t1 m1 heq).append (ViewsRel.refl hr _)
    · split at h
      · cases h
      · rename_i r' m1 heq
        simp only [Option.some.injEq, Prod.mk.injEq] at h
        rw [← h.1]
        simp only [Tree.viewsL]
        exact (ViewsRel.refl hr _).append (bubbleL_viewsRel r target m r' m1 heq)
end
end BubbleRel

/-! ### a message-free bubble updates exactly the ancestors of the target -/

/-- Is the bucket of view `v` an ancestor of `target` (or the target itself when `incl`)? -/
def NView.above (v : NView) (incl : Bool) (target : Nat) : Bool :=
  v.names.contains target || (incl && v.b.id == target)

def NView.upd (f : Bkt → Bkt) (incl : Bool) (target : Nat) (v : NView) : NView :=
  if v.above incl target then { v with b := f v.b } else v

theorem upd_id_of_notin {f : Bkt → Bkt} {incl : Bool} {target : Nat} {l : List NView} {ns : List Nat}
    (hin : ∀ v ∈ l, v.b.id ∈ ns ∧ ∀ x ∈ v.names, x ∈ ns) (hnot : target ∉ ns) :
    l.map (NView.upd f incl target) = l := by
  have : ∀ v ∈ l, NView.upd f incl target v = id v := by
    intro v hv
    obtain ⟨h1, h2⟩ := hin v hv
    unfold NView.upd NView.above
    have e1 : target ∉ v.names := fun h => hnot (h2 _ h)
    have e2 : (v.b.id == target) = false := by
      simp only [beq_eq_false_iff_ne, ne_eq]
      intro e; exact hnot (e ▸ h1)
    simp [e1, e2]
  rw [List.map_congr_left this, List.map_id]

section BubbleUpd
variable (f : Bkt → Bkt) (incl : Bool) (hid : ∀ b, (f b).id = b.id)
include hid

mutual
theorem bubble_views_upd : ∀ (t : Tree) (target : Nat) (t' : Tree) (u : Unit),
    t.names.Nodup → t.bubble (fun b _ (u : Unit) => (f b, u)) incl target () = some (t', u) →
    t'.views = t.views.map (NView.upd f incl target)
  | .leaf s, target, t', u, _, h => by
    simp only [Tree.bubble] at h
    split at h
    · simp only [Option.some.injEq, Prod.mk.injEq] at h; rw [← h.1]; simp [Tree.views]
    · cases h
  | .node b cs, target, t', u, hnd, h => by
    simp only [Tree.names, List.nodup_cons] at hnd
    simp only [Tree.bubble] at h
    have htail : ∀ (hbt : b.id = target), (Tree.viewsL cs).map (NView.upd f incl target) = Tree.viewsL cs := by
      intro hbt
      apply upd_id_of_notin (ns := Tree.namesL cs)
      · intro v hv; have := viewsL_inside cs v hv; exact ⟨this.1, this.2.1⟩
      · rw [← hbt]; exact hnd.1
    split at h
    · rename_i hbt
      have hnot : target ∉ Tree.namesL cs := by rw [← hbt]; exact hnd.1
      split at h
      · rename_i hincl
        simp only [Option.some.injEq, Prod.mk.injEq] at h; rw [← h.1]
        simp only [Tree.views, List.map_cons, htail hbt]
        congr 1
        simp [NView.upd, NView.above, hnot, hincl, hbt]
      · rename_i hincl
        simp only [Option.some.injEq, Prod.mk.injEq] at h; rw [← h.1]
        simp only [Tree.views, List.map_cons, htail hbt]
        congr 1
        simp [NView.upd, NView.above, hnot, hincl]
    · rename_i hbt
      split at h
      · cases h
      · rename_i cs' m1 heq
        simp only [Option.some.injEq, Prod.mk.injEq] at h
        rw [← h.1]
        have hmem := bubbleL_mem _ _ heq
        have hn := bubbleL_names (fun b _ (u : Unit) => (f b, u)) incl (fun b _ _ => hid b) cs target () cs' m1 heq
        have hl := bubbleL_leaves (fun b _ (u : Unit) => (f b, u)) incl cs target () cs' m1 heq
        simp only [Tree.views, List.map_cons]
        rw [bubbleL_views_upd cs target cs' m1 hnd.2 heq, hn, hl]
        congr 1
        simp [NView.upd, NView.above, hmem]
theorem bubbleL_views_upd : ∀ (cs : List (Option Tree)) (target : Nat) (cs' : List (Option Tree)) (u : Unit),
    (Tree.namesL cs).Nodup → Tree.bubbleL (fun b _ (u : Unit) => (f b, u)) incl cs target () = some (cs', u) →
    Tree.viewsL cs' = (Tree.viewsL cs).map (NView.upd f incl target)
  | [], _, _, _, _, h => by simp [Tree.bubbleL] at h
  | none :: r, target, cs', u, hnd, h => by
    simp only [Tree.namesL] at hnd
    simp only [Tree.bubbleL] at h
    split at h
    · cases h
    · rename_i r' m1 heq
      simp only [Option.some.injEq, Prod.mk.injEq] at h
      rw [← h.1]
      simp only [Tree.viewsL]
      exact bubbleL_views_upd r target r' m1 hnd heq
  | some t :: r, target, cs', u, hnd, h => by
    simp only [Tree.namesL] at hnd
    have hnd' := List.nodup_append.mp hnd
    simp only [Tree.bubbleL] at h
    split at h
    · rename_i t1 m1 heq
      simp only [Option.some.injEq, Prod.mk.injEq] at h
      rw [← h.1]
      simp only [Tree.viewsL, List.map_append]
      rw [bubble_views_upd t target t1 m1 hnd'.1 heq]
      congr 1
      symm
      apply upd_id_of_notin (ns := Tree.namesL r)
      · intro v hv; have := viewsL_inside r v hv; exact ⟨this.1, this.2.1⟩
      · intro hr
        exact hnd'.2.2 _ (bubble_mem _ _ heq) _ hr rfl
    · rename_i hnone
      split at h
      · cases h
      · rename_i r' m1 heq
        simp only [Option.some.injEq, Prod.mk.injEq] at h
        rw [← h.1]
        simp only [Tree.viewsL, List.map_append]
        rw [bubbleL_views_upd r target r' m1 hnd'.2.1 heq]
        congr 1
        symm
        apply upd_id_of_notin (ns := t.names)
        · intro v hv; have := views_inside t v hv; exact ⟨this.1, this.2.1⟩
        · exact bubble_none _ _ hnone
end
end BubbleUpd

/-! ### `path` returns every ancestor -/

mutual
theorem path_covers : ∀ (t : Tree) (target : Nat) (p : List Bkt), t.names.Nodup → t.path target = some p →
    ∀ v ∈ t.views, target ∈ v.names → v.b ∈ p
  | .leaf s, target, p, _, _ => by intro v hv; simp [Tree.views] at hv
  | .node b cs, target, p, hnd, h => by
    simp only [Tree.names, List.nodup_cons] at hnd
    simp only [Tree.path] at h
    intro v hv hin
    simp only [Tree.views, List.mem_cons] at hv
    split at h
    · rename_i hbt
      -- target is this bucket: no view below contains it, nor does this one
      exfalso
      rcases hv with rfl | hv
      · exact hnd.1 (hbt ▸ hin)
      · exact hnd.1 (hbt ▸ (viewsL_inside cs v hv).2.1 _ hin)
    · split at h
      · cases h
      · rename_i p' heq
        simp only [Option.some.injEq] at h
        subst h
        rcases hv with rfl | hv
        · exact List.mem_cons_self
        · exact List.mem_cons_of_mem _ (pathL_covers cs target p' hnd.2 heq v hv hin)
theorem pathL_covers : ∀ (cs : List (Option Tree)) (target : Nat) (p : List Bkt), (Tree.namesL cs).Nodup →
    Tree.pathL cs target = some p → ∀ v ∈ Tree.viewsL cs, target ∈ v.names → v.b ∈ p
  | [], _, _, _, h => by simp [Tree.pathL] at h
  | none :: r, target, p, hnd, h => by
    simp only [Tree.namesL] at hnd
    simp only [Tree.pathL] at h
    simp only [Tree.viewsL]
    exact pathL_covers r target p hnd h
  | some t :: r, target, p, hnd, h => by
    simp only [Tree.namesL] at hnd
    have hnd' := List.nodup_append.mp hnd
    simp only [Tree.pathL] at h
    intro v hv hin
    simp only [Tree.viewsL, List.mem_append] at hv
    split at h
    · rename_i p' heq
      simp only [Option.some.injEq] at h
      subst h
      rcases hv with hv | hv
      · exact path_covers t target p' hnd'.1 heq v hv hin
      · exfalso
        have h1 : target ∈ t.names := path_mem t target p' heq
        exact hnd'.2.2 _ h1 _ ((viewsL_inside r v hv).2.1 _ hin) rfl
    · rename_i hnone
      rcases hv with hv | hv
      · exfalso
        exact path_none t target hnone ((views_inside t v hv).2.1 _ hin)
      · exact pathL_covers r target p hnd'.2.1 h v hv hin
theorem path_mem : ∀ (t : Tree) (target : Nat) (p : List Bkt), t.path target = some p → target ∈ t.names
  | .leaf s, target, p, h => by
    simp only [Tree.path] at h
    split at h
    · rename_i e; simp [Tree.names, e]
    · cases h
  | .node b cs, target, p, h => by
    simp only [Tree.path] at h
    simp only [Tree.names, List.mem_cons]
    split at h
    · rename_i e; exact Or.inl e.symm
    · split at h
      · cases h
      · rename_i p' heq; exact Or.inr (pathL_mem cs target p' heq)
theorem pathL_mem : ∀ (cs : List (Option Tree)) (target : Nat) (p : List Bkt), Tree.pathL cs target = some p →
    target ∈ Tree.namesL cs
  | [], _, _, h => by simp [Tree.pathL] at h
  | none :: r, target, p, h => by
    simp only [Tree.pathL] at h
    simp only [Tree.namesL]
    exact pathL_mem r target p h
  | some t :: r, target, p, h => by
    simp only [Tree.pathL] at h
    simp only [Tree.namesL, List.mem_append]
    split at h
    · rename_i p' heq
      exact Or.inl (path_mem t target p' heq)
    · exact Or.inr (pathL_mem r target p h)
theorem path_none : ∀ (t : Tree) (target : Nat), t.path target = none → target ∉ t.names
  | .leaf s, target, h => by
    simp only [Tree.path] at h
    split at h
    · cases h
    · rename_i e; simp only [Tree.names, List.mem_singleton]; exact fun e' => e e'.symm
  | .node b cs, target, h => by
    simp only [Tree.path] at h
    simp only [Tree.names, List.mem_cons]
    split at h
    · cases h
    · rename_i e
      split at h
      · rename_i heq
        rintro (e' | h')
        · exact e e'.symm
        · exact pathL_none cs target heq h'
      · cases h
theorem pathL_none : ∀ (cs : List (Option Tree)) (target : Nat), Tree.pathL cs target = none →
    target ∉ Tree.namesL cs
  | [], _, _ => by simp [Tree.namesL]
  | none :: r, target, h => by
    simp only [Tree.pathL] at h
    simp only [Tree.namesL]
    exact pathL_none r target h
  | some t :: r, target, h => by
    simp only [Tree.pathL] at h
    simp only [Tree.namesL, List.mem_append]
    split at h
    · cases h
    · rename_i hnone
      rintro (h' | h')
      · exact path_none t target hnone h'
      · exact pathL_none r target h h'
end

/-! ### a server id among a view's names is among its leaves -/

mutual
theorem views_leaf_names : ∀ (t : Tree), t.names.Nodup → ∀ v ∈ t.views, ∀ x ∈ v.names, x ∈ t.leaves → x ∈ v.leaves
  | .leaf _, _, v, hv, _, _, _ => by simp [Tree.views] at hv
  | .node b cs, hnd, v, hv, x, hx, hl => by
    simp only [Tree.names, List.nodup_cons] at hnd
    simp only [Tree.views, List.mem_cons] at hv
    simp only [Tree.leaves] at hl
    rcases hv with rfl | hv
    · exact hl
    · exact viewsL_leaf_names cs hnd.2 v hv x hx hl
theorem viewsL_leaf_names : ∀ (cs : List (Option Tree)), (Tree.namesL cs).Nodup →
    ∀ v ∈ Tree.viewsL cs, ∀ x ∈ v.names, x ∈ Tree.leavesL cs → x ∈ v.leaves
  | [], _, v, hv, _, _, _ => by simp [Tree.viewsL] at hv
  | none :: r, hnd, v, hv, x, hx, hl => by
    simp only [Tree.namesL] at hnd
    simp only [Tree.viewsL] at hv
    simp only [Tree.leavesL] at hl
    exact viewsL_leaf_names r hnd v hv x hx hl
  | some t :: r, hnd, v, hv, x, hx, hl => by
    simp only [Tree.namesL] at hnd
    have hnd' := List.nodup_append.mp hnd
    simp only [Tree.viewsL, List.mem_append] at hv
    simp only [Tree.leavesL, List.mem_append] at hl
    rcases hv with hv | hv
    · have hxt : x ∈ t.names := (views_inside t v hv).2.1 x hx
      rcases hl with hl | hl
      · exact views_leaf_names t hnd'.1 v hv x hx hl
      · exact absurd rfl (hnd'.2.2 _ hxt _ (leavesL_sub_namesL r x hl))
    · have hxr : x ∈ Tree.namesL r := (viewsL_inside r v hv).2.1 x hx
      rcases hl with hl | hl
      · exact absurd rfl (hnd'.2.2 _ (leaves_sub_names t x hl) _ hxr)
      · exact viewsL_leaf_names r hnd'.2.1 v hv x hx hl
end

mutual
/-- The leaves of a view are leaves of the tree. -/
theorem views_leaves_sub : ∀ (t : Tree) (v : NView), v ∈ t.views → ∀ x ∈ v.leaves, x ∈ t.leaves
  | .leaf _, v, hv, _, _ => by simp [Tree.views] at hv
  | .node b cs, v, hv, x, hx => by
    simp only [Tree.views, List.mem_cons] at hv
    simp only [Tree.leaves]
    rcases hv with rfl | hv
    · exact hx
    · exact viewsL_leaves_sub cs v hv x hx
theorem viewsL_leaves_sub : ∀ (cs : List (Option Tree)) (v : NView), v ∈ Tree.viewsL cs →
    ∀ x ∈ v.leaves, x ∈ Tree.leavesL cs
  | [], v, hv, _, _ => by simp [Tree.viewsL] at hv
  | none :: r, v, hv, x, hx => by
    simp only [Tree.viewsL] at hv
    simp only [Tree.leavesL]
    exact viewsL_leaves_sub r v hv x hx
  | some t :: r, v, hv, x, hx => by
    simp only [Tree.viewsL, List.mem_append] at hv
    simp only [Tree.leavesL, List.mem_append]
    rcases hv with hv | hv
    · exact Or.inl (views_leaves_sub t v hv x hx)
    · exact Or.inr (viewsL_leaves_sub r v hv x hx)
end

/-! ### names = leaves ∪ bucket ids -/

mutual
theorem leaves_sublist_names : ∀ (t : Tree), t.leaves.Sublist t.names
  | .leaf _ => by simp [Tree.leaves, Tree.names]
  | .node b cs => by
    simp only [Tree.leaves, Tree.names]
    exact List.Sublist.cons _ (leavesL_sublist_namesL cs)
theorem leavesL_sublist_namesL : ∀ (cs : List (Option Tree)), (Tree.leavesL cs).Sublist (Tree.namesL cs)
  | [] => by simp [Tree.leavesL, Tree.namesL]
  | none :: r => by simp only [Tree.leavesL, Tree.namesL]; exact leavesL_sublist_namesL r
  | some t :: r => by
    simp only [Tree.leavesL, Tree.namesL]
    exact List.Sublist.append (leaves_sublist_names t) (leavesL_sublist_namesL r)
end

theorem leaves_nodup {t : Tree} (h : t.names.Nodup) : t.leaves.Nodup :=
  List.Nodup.sublist (leaves_sublist_names t) h

mutual
theorem names_iff : ∀ (t : Tree) (x : Nat), x ∈ t.names ↔ x ∈ t.leaves ∨ ∃ b ∈ t.buckets, b.id = x
  | .leaf s, x => by simp [Tree.names, Tree.leaves, Tree.buckets]
  | .node b cs, x => by
    simp only [Tree.names, Tree.leaves, Tree.buckets, List.mem_cons, namesL_iff cs x]
    constructor
    · rintro (rfl | h | ⟨b', hb', rfl⟩)
      · exact Or.inr ⟨b, Or.inl rfl, rfl⟩
      · exact Or.inl h
      · exact Or.inr ⟨b', Or.inr hb', rfl⟩
    · rintro (h | ⟨b', rfl | hb', rfl⟩)
      · exact Or.inr (Or.inl h)
      · exact Or.inl rfl
      · exact Or.inr (Or.inr ⟨b', hb', rfl⟩)
theorem namesL_iff : ∀ (cs : List (Option Tree)) (x : Nat),
    x ∈ Tree.namesL cs ↔ x ∈ Tree.leavesL cs ∨ ∃ b ∈ Tree.bucketsL cs, b.id = x
  | [], x => by simp [Tree.namesL, Tree.leavesL, Tree.bucketsL]
  | none :: r, x => by simp only [Tree.namesL, Tree.leavesL, Tree.bucketsL]; exact namesL_iff r x
  | some t :: r, x => by
    simp only [Tree.namesL, Tree.leavesL, Tree.bucketsL, List.mem_append, names_iff t x, namesL_iff r x]
    constructor
    · rintro ((h | ⟨b, hb, rfl⟩) | (h | ⟨b, hb, rfl⟩))
      · exact Or.inl (Or.inl h)
      · exact Or.inr ⟨b, Or.inl hb, rfl⟩
      · exact Or.inl (Or.inr h)
      · exact Or.inr ⟨b, Or.inr hb, rfl⟩
    · rintro ((h | h) | ⟨b, hb | hb, rfl⟩)
      · exact Or.inl (Or.inl h)
      · exact Or.inr (Or.inl h)
      · exact Or.inl (Or.inr ⟨b, hb, rfl⟩)
      · exact Or.inr (Or.inr ⟨b, hb, rfl⟩)
end

end TmVerif.Sched
