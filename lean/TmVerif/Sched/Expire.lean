/-
  C08: an app whose retention expired (down server) or that is marked for unscheduling (frozen
  server) is off that server after the cycle.
-/
import TmVerif.Sched.C08More
import TmVerif.Sched.TreeLemmas

namespace TmVerif.Sched

theorem selectM_complete (p : Nat → M Bool) : ∀ (l r : List Nat), selectM p l = .ok r →
    ∀ x ∈ l, p x = .ok true → x ∈ r := by
  intro l
  induction l with
  | nil => intro r _ x hx; cases hx
  | cons y ys ih =>
    intro r h x hx hp
    simp only [selectM, bind_ok, pure_ok] at h
    obtain ⟨b, hb, r', hr', rfl⟩ := h
    rcases List.mem_cons.mp hx with rfl | hx
    · rw [hp] at hb; cases hb; simp
    · have := ih r' hr' x hx hp
      cases b <;> simp [this]

/-- No `put` at all. -/
def AnyLabNoPut : Cell → Lab → Prop := fun _ lab => ∀ x s l0 b, lab ≠ .put x s l0 b

/-- `x` is not on `sid`. -/
def OffSrv (x sid : Nat) (c : Cell) : Prop := ∀ a, c.app? x = some a → a.server ≠ some sid

theorem offSrv_noput {x sid : Nat} {c c' : Cell} {lab : Lab} (hq : OffSrv x sid c)
    (hnp : ∀ s l0 b, lab ≠ .put x s l0 b) (hp : LPrim lab c c') : OffSrv x sid c' := by
  intro a' ha' hsv
  obtain ⟨a, ha, hcase⟩ := lprim_server hp x a' ha'
  rcases hcase with e | e | ⟨sid', l0, hl, _, _⟩
  · exact hq a ha (by rw [← e]; exact hsv)
  · rw [e] at hsv; cases hsv
  · exact hnp _ _ _ hl

theorem preOk_noput {c : Cell} {lab : Lab} (h : PreOk c lab) (x s : Nat) (l0 b : Bool) : lab ≠ .put x s l0 b := by
  intro e; subst e; simp only [PreOk] at h

/-- After `_handle_inactive_servers` processed server `sid`, an app that had to move is off it. -/
theorem handleInactive_off {c c' : Cell} {sid x : Nat} {s : Srv} {a : App} (hc : InvCap c)
    (hs : c.srv? sid = some s) (ha : c.app? x = some a)
    (hmove : (s.state = .down ∧ expiredOn c s a = true) ∨ (s.state = .frozen ∧ a.unschedule = true))
    (h : handleInactive c sid = .ok c') : OffSrv x sid c' := by
  by_cases hon' : a.server ≠ some sid
  · have hon := hon'
    -- already elsewhere: the pass places nothing
    have r := handleInactive_lreach hc h
    exact r.induct (fun _ _ _ hq hp lp => offSrv_noput hq (preOk_noput hp x) lp)
      (fun a1 ha1 => by rw [ha] at ha1; cases ha1; exact hon)
  · have hon : a.server = some sid := Decidable.of_not_not hon'
    simp only [handleInactive, bind_ok, orAbort_ok] at h
    obtain ⟨s1, hs1, toMove, hmv, h⟩ := h
    rw [hs] at hs1; cases hs1
    have hxin : x ∈ s.apps := by
      have := (hc.views s (srv?_mem hs) x).mpr ⟨a, app?_mem ha, app?_id ha, by rw [hon, srv?_id hs]⟩
      exact this
    have hxmove : x ∈ toMove := by
      unfold toMoveOf at hmv
      rcases hmove with ⟨hst, he⟩ | ⟨hst, hu⟩
      · rw [hst] at hmv
        exact selectM_complete _ _ _ hmv x hxin (by simp only [bind_ok, orAbort_ok, pure_ok]; exact ⟨a, ha, he⟩)
      · rw [hst] at hmv
        exact selectM_complete _ _ _ hmv x hxin (by simp only [bind_ok, orAbort_ok, pure_ok]; exact ⟨a, ha, hu⟩)
    -- each element of toMove is unplaced when processed and nothing is placed afterwards
    have est := foldlM_establish (Q := fun c y => ∀ b, c.app? y = some b → b.server = none)
      (P := AnyLabNoPut) (removeRelease sid) ?_ ?_ ?_ toMove c c' h x hxmove
    · intro a1 ha1 hsv; rw [est a1 ha1] at hsv; cases hsv
    · intro c0 y c0' hy
      simp only [removeRelease, bind_ok] at hy
      obtain ⟨cm, h1, h2⟩ := hy
      exact (LReach.single (.remove h1) (by intro _ _ _ _ e; cases e)).step (.release h2)
        (by intro _ _ _ _ e; cases e)
    · intro c0 c0' lab y hq hnp hp b hb
      obtain ⟨b0, hb0, hcase⟩ := lprim_server hp y b hb
      rcases hcase with e | e | ⟨sid', l0, hl, _, _⟩
      · rw [e]; exact hq b0 hb0
      · exact e
      · exact absurd hl (hnp _ _ _ _)
    · intro c0 y c0' hy
      simp only [removeRelease, bind_ok] at hy
      obtain ⟨cm, h1, h2⟩ := hy
      obtain ⟨a0, _, ha0⟩ := serverRemove_app_self h1
      intro b hb
      obtain ⟨b0, hb0, hcase⟩ := lprim_server (.release h2) y b hb
      rw [ha0] at hb0; cases hb0
      rcases hcase with e | e | ⟨sid', l0, hl, _, _⟩
      · rw [e]; rfl
      · exact e
      · cases hl

end TmVerif.Sched

namespace TmVerif.Sched

/-- How any primitive changes the `unschedule` flag of any app: kept, or the app is unplaced. -/
theorem lprim_unsched {c c' : Cell} {lab : Lab} (hp : LPrim lab c c') (y : Nat) :
    ∀ a', c'.app? y = some a' → ∃ a, c.app? y = some a ∧ (a'.unschedule = a.unschedule ∨ a'.server = none) := by
  intro a' ha'
  by_cases ht : lab.target ≠ some y
  · obtain ⟨a, ha, _, _, e, _⟩ := lprim_untargeted hp ht a' ha'
    exact ⟨a, ha, Or.inl e⟩
  · have ht : lab.target = some y := Decidable.of_not_not ht
    obtain ⟨a, ha, _⟩ := app?_stat_of (sameStatic_lprim hp) ha'
    refine ⟨a, ha, ?_⟩
    cases hp with
    | @put _ _ aid sid l0 b h =>
      rcases serverPut_shape h with ⟨_, e⟩ | ⟨_, a1, s1, anc, ha1, _, _, _, _, _, happs, _⟩
      · subst e; rw [ha] at ha'; cases ha'; exact Or.inl rfl
      · rw [app?_of_apps happs, ha] at ha'
        simp only [Option.map_some, Option.some.injEq] at ha'
        rw [← ha']
        split
        · rename_i e
          have : y = aid := by rw [← app?_id ha, e]; exact (app?_id ha1 : a1.id = aid)
          subst this; rw [ha] at ha1; cases ha1; exact Or.inl rfl
        · exact Or.inl rfl
    | @remove _ _ sid aid h =>
      have hx : aid = y := by simpa [Lab.target] using ht
      subst hx
      obtain ⟨a1, ha1, ha1'⟩ := serverRemove_app_self h
      rw [ha'] at ha1'; cases ha1'
      exact Or.inr rfl
    | @release _ _ aid h =>
      simp only [releaseIdentity, bind_ok, orAbort_ok] at h
      obtain ⟨a1, ha1, h⟩ := h
      split at h
      · simp only [bind_ok, orAbort_ok, pure_ok] at h
        obtain ⟨grp, _, rfl⟩ := h
        rcases setApp_cases' (c := c) rfl ha ha' with e | e
        · have hy : y = aid := by
            have h1 := app?_id ha'; rw [e] at h1; exact h1.symm.trans (app?_id ha1 : a1.id = aid)
          subst hy; rw [ha] at ha1; cases ha1; rw [e]; exact Or.inl rfl
        · rw [e]; exact Or.inl rfl
      · simp only [pure_ok] at h; subst h; rw [ha] at ha'; cases ha'; exact Or.inl rfl
    | @acquire _ _ aid ch b ch' h =>
      simp only [acquireIdentity, bind_ok, orAbort_ok] at h
      obtain ⟨a1, ha1, h⟩ := h
      split at h
      · simp only [pure_ok, Prod.mk.injEq] at h
        obtain ⟨rfl, _⟩ := h; rw [ha] at ha'; cases ha'; exact Or.inl rfl
      · split at h
        · simp only [pure_ok, Prod.mk.injEq] at h
          obtain ⟨rfl, _⟩ := h; rw [ha] at ha'; cases ha'; exact Or.inl rfl
        · simp only [bind_ok, orAbort_ok] at h
          obtain ⟨grp, _, h⟩ := h
          split at h
          · simp only [pure_ok, Prod.mk.injEq] at h
            obtain ⟨rfl, _⟩ := h; rw [ha] at ha'; cases ha'; exact Or.inl rfl
          · split at h
            · simp only [throw_ne_ok] at h
            · rename_i k rest
              split at h
              · simp only [throw_bind, throw_ne_ok] at h
              · simp only [pure_ok, Prod.mk.injEq] at h
                obtain ⟨rfl, _⟩ := h
                rcases setApp_cases' (c := c) rfl ha ha' with e | e
                · have hy : y = aid := by
                    have h1 := app?_id ha'; rw [e] at h1; exact h1.symm.trans (app?_id ha1 : a1.id = aid)
                  subst hy; rw [ha] at ha1; cases ha1; rw [e]; exact Or.inl rfl
                · rw [e]; exact Or.inl rfl
    | @appMeta _ a1 a1' ha1 hid _ _ _ _ _ _ _ _ _ _ _ _ _ hun =>
      rcases setApp_cases ha ha' with e | e
      · have hy : y = a1.id := by
          have h1 := app?_id ha'; rw [e, hid] at h1; exact h1.symm
        subst hy; rw [ha] at ha1; cases ha1; rw [e]; exact Or.inl hun
      · rw [e]; exact Or.inl rfl
    | @setRenew _ a1 b ha1 =>
      rcases setApp_cases ha ha' with e | e
      · have hy : y = a1.id := by
          have h1 := app?_id ha'; rw [e] at h1; exact h1.symm
        subst hy; rw [ha] at ha1; cases ha1; rw [e]; exact Or.inl rfl
      · rw [e]; exact Or.inl rfl
    | @ghost _ a1 v ha1 =>
      rcases setApp_cases ha ha' with e | e
      · have hy : y = a1.id := by
          have h1 := app?_id ha'; rw [e] at h1; exact h1.symm
        subst hy; rw [ha] at ha1; cases ha1; rw [e]; exact Or.inl rfl
      · rw [e]; exact Or.inl rfl
    | @dropDangling _ a1 sid ha1 =>
      rcases setApp_cases ha ha' with e | e
      · rw [e]; exact Or.inr rfl
      · rw [e]; exact Or.inl rfl
    | @forgetIdentity _ a1 k g grp ha1 =>
      rcases setApp_cases ha ha' with e | e
      · have hy : y = a1.id := by
          have h1 := app?_id ha'; rw [e] at h1; exact h1.symm
        subst hy; rw [ha] at ha1; cases ha1; rw [e]; exact Or.inl rfl
      · rw [e]; exact Or.inl rfl
    | tree => simp [Lab.target] at ht
    | clearEv => simp [Lab.target] at ht

theorem handleInactive_fold_lreach : ∀ (l : List Nat) (a b : Cell), InvCap a →
    l.foldlM handleInactive a = .ok b → LReach PreOk a b := by
  intro l
  induction l with
  | nil => intro a b _ h; simp [List.foldlM, pure_ok] at h; subst h; exact .refl
  | cons x xs ih =>
    intro a b ha h
    simp only [List.foldlM, bind_ok] at h
    obtain ⟨a1, hx, hrest⟩ := h
    have r := handleInactive_lreach ha hx
    exact r.trans (ih a1 b (invCap_lreach ha r) hrest)

theorem foldlM_append {α} (f : Cell → α → M Cell) (l1 l2 : List α) (c c' : Cell)
    (h : (l1 ++ l2).foldlM f c = .ok c') : ∃ cm, l1.foldlM f c = .ok cm ∧ l2.foldlM f cm = .ok c' := by
  induction l1 generalizing c with
  | nil => exact ⟨c, by simp [List.foldlM, pure_ok], h⟩
  | cons x xs ih =>
    simp only [List.cons_append, List.foldlM, bind_ok] at h ⊢
    obtain ⟨c1, h1, h2⟩ := h
    obtain ⟨cm, hm1, hm2⟩ := ih c1 h2
    exact ⟨cm, ⟨c1, h1, hm1⟩, hm2⟩

theorem preOk_leaves {c c' : Cell} {lab : Lab} (hok : PreOk c lab) (hp : LPrim lab c c') :
    c'.tree.leaves = c.tree.leaves := by
  cases hp with
  | put h => simp only [PreOk] at hok
  | remove h => exact serverRemove_leaves h
  | release h =>
    simp only [releaseIdentity, bind_ok, orAbort_ok] at h
    obtain ⟨a, ha, h⟩ := h
    split at h
    · simp only [bind_ok, orAbort_ok, pure_ok] at h
      obtain ⟨grp, _, rfl⟩ := h; rfl
    · simp only [pure_ok] at h; subst h; rfl
  | acquire h => simp only [PreOk] at hok
  | appMeta => simp only [PreOk] at hok
  | setRenew => simp only [PreOk] at hok
  | ghost => simp only [PreOk] at hok
  | dropDangling => rfl
  | forgetIdentity => rfl
  | tree => simp only [PreOk] at hok
  | clearEv => simp only [PreOk] at hok

theorem preOk_lreach_leaves {c c' : Cell} (h : LReach PreOk c c') : c'.tree.leaves = c.tree.leaves := by
  induction h with
  | refl => rfl
  | step _ p hp ih => rw [preOk_leaves hp p, ih]

/-- What has to move, evaluated on the static data. -/
def MustMove (c : Cell) (s : Srv) (a : App) : Prop :=
  (s.state = .down ∧ expiresAt s a ≤ c.now) ∨ (s.state = .frozen ∧ a.unschedule = true)

/-- Along the pre-passes: either `x` is already off `sid`, or its `unschedule` mark is unchanged. -/
theorem preOk_off_or_same {c c' : Cell} {x sid : Nat} {a : App} (h : LReach PreOk c c')
    (h0 : OffSrv x sid c ∨ ∃ ai, c.app? x = some ai ∧ ai.unschedule = a.unschedule) :
    OffSrv x sid c' ∨ ∃ ai, c'.app? x = some ai ∧ ai.unschedule = a.unschedule := by
  refine h.induct (I := fun ci => OffSrv x sid ci ∨ ∃ ai, ci.app? x = some ai ∧ ai.unschedule = a.unschedule) ?_ h0
  intro ci ci' lab hi hok hp
  rcases hi with hoff | ⟨ai, hai, hun⟩
  · exact Or.inl (offSrv_noput hoff (preOk_noput hok x) hp)
  · obtain ⟨ai', hai', _⟩ := app?_stat_to (sameStatic_lprim hp) hai
    obtain ⟨b, hb, hcase⟩ := lprim_unsched hp x ai' hai'
    rw [hai] at hb; cases hb
    rcases hcase with e | e
    · exact Or.inr ⟨ai', hai', by rw [e]; exact hun⟩
    · left; intro a2 ha2 hsv; rw [hai'] at ha2; cases ha2; rw [e] at hsv; cases hsv

/-- After the pre-passes an app that has to move off a down/frozen server is off it. -/
theorem prePasses_off {c c1 : Cell} {x sid : Nat} {s : Srv} {a : App} (hc : InvCap c)
    (hs : c.srv? sid = some s) (ha : c.app? x = some a) (hleaf : sid ∈ c.tree.leaves)
    (hmove : MustMove c s a) (h : prePasses c = .ok c1) : OffSrv x sid c1 := by
  simp only [prePasses, bind_ok] at h
  obtain ⟨ca, h1, cb, h2, cc, h3, h4⟩ := h
  have r1 : LReach PreOk c ca := foldlM_lreach _ _ (fun _ _ _ _ hx => fixInvalidPlacement_lreach hx) _ _ h1
  have hca : InvCap ca := invCap_lreach hc r1
  have hleaf' : sid ∈ ca.tree.leaves := by rw [preOk_lreach_leaves r1]; exact hleaf
  obtain ⟨l1, l2, hl⟩ := List.append_of_mem hleaf'
  rw [hl] at h2
  obtain ⟨cm, hm1, hm2⟩ := foldlM_append handleInactive l1 (sid :: l2) ca cb h2
  simp only [List.foldlM, bind_ok] at hm2
  obtain ⟨cm', hsid, hm3⟩ := hm2
  have r2 : LReach PreOk ca cm := handleInactive_fold_lreach l1 ca cm hca hm1
  have hcm : InvCap cm := invCap_lreach hca r2
  have r12 := r1.trans r2
  -- state of x and of the server when `sid` is processed
  have hst := sameStatic_lreach r12
  obtain ⟨sm, hsm, esm⟩ := srv?_stat_to hst hs
  obtain ⟨am, ham, eam⟩ := app?_stat_to hst ha
  have hoff_m : OffSrv x sid cm' := by
    rcases preOk_off_or_same (a := a) r12 (Or.inr ⟨a, ha, rfl⟩) with hoff | ⟨ai, hai, hun⟩
    · -- already off: the pass places nothing
      exact (handleInactive_lreach hcm hsid).induct
        (fun _ _ _ hq hp lp => offSrv_noput hq (preOk_noput hp x) lp) hoff
    · rw [ham] at hai; cases hai
      refine handleInactive_off hcm hsm ham ?_ hsid
      have e_st : sm.state = s.state := congrArg SrvStat.state esm
      have e_si : sm.since = s.since := congrArg SrvStat.since esm
      have e_ret : am.retention = a.retention := congrArg AppStat.retention eam
      rcases hmove with ⟨hd, he⟩ | ⟨hf, hu⟩
      · left
        refine ⟨by rw [e_st]; exact hd, ?_⟩
        unfold expiredOn
        have : expiresAt sm am = expiresAt s a := by unfold expiresAt; rw [e_ret, e_si]
        rw [this, hst.now]; simpa using he
      · right; exact ⟨by rw [e_st]; exact hf, by rw [hun]; exact hu⟩
  -- the rest of the pre-passes places nothing
  have hcm' : InvCap cm' := invCap_lreach hcm (handleInactive_lreach hcm hsid)
  have r3 : LReach PreOk cm' cb := handleInactive_fold_lreach l2 cm' cb hcm' hm3
  have r4 : LReach PreOk cb cc := foldlM_lreach _ _ (fun _ _ _ _ hx => handleBlacklisted_lreach hx) _ _ h3
  have r5 : LReach PreOk cc c1 := foldlM_lreach _ _ (fun _ _ _ _ hx => fixInvalidIdentity_lreach hx) _ _ h4
  exact ((r3.trans r4).trans r5).induct (fun _ _ _ hq hp lp => offSrv_noput hq (preOk_noput hp x) lp) hoff_m

/-- **C08 (expiry / unschedule).** An app on a down server whose retention has expired, or on a
    frozen server and marked for unscheduling, is not on that server after the cycle. -/
theorem off_schedule {c c' : Cell} {qs ch} {x sid : Nat} {s : Srv} {a : App} (hc : InvCap c)
    (hs : c.srv? sid = some s) (ha : c.app? x = some a) (hleaf : sid ∈ c.tree.leaves)
    (hmove : MustMove c s a) (h : schedule c qs ch = .ok c') : OffSrv x sid c' := by
  obtain ⟨c1, hpre, hcy⟩ := schedule_parts h
  have h1 := prePasses_off hc hs ha hleaf hmove hpre
  have hst1 : SameStatic c c1 := sameStatic_reach (prePasses_reach hpre)
  have hnu : s.state ≠ .up := by
    rcases hmove with ⟨hd, _⟩ | ⟨hf, _⟩
    · rw [hd]; decide
    · rw [hf]; decide
  have notUp : ∀ ci, SameStatic c ci → ∀ s', ci.srv? sid = some s' → s'.state ≠ .up := by
    intro ci hst s' hs'
    obtain ⟨s0, hs0, est⟩ := srv?_stat_of hst hs'
    rw [hs] at hs0; cases hs0
    have : s'.state = s.state := congrArg SrvStat.state est
    rw [this]; exact hnu
  have h2 := cycle_inv (Ipre := fun ci => SameStatic c ci ∧ OffSrv x sid ci)
    (I := fun ci => (SameStatic c ci ∧ OffSrv x sid ci) ∧ GhostOk ci) ?_ (fun _ h => h.1) ?_ hcy ⟨hst1, h1⟩
  · exact h2.2
  · intro ci ⟨hst, hoff⟩
    exact ⟨⟨hst.trans (sameStatic_lprim (.clearEv (c := ci))),
      offSrv_noput hoff (by intro _ _ _ e; cases e) (.clearEv (c := ci))⟩, ghostOk_clear ci⟩
  · intro ct q a0 after ci ci' lab ha0 hict _ hi hok hp
    obtain ⟨⟨hst, hoff⟩, hg⟩ := hi
    refine ⟨⟨hst.trans (sameStatic_lprim hp), ?_⟩, ghostOk_step hg hok hp⟩
    intro a' ha' hsv
    obtain ⟨a1, ha1, hcase⟩ := lprim_server hp x a' ha'
    rcases hcase with e | e | ⟨sid', l0, hl, _, hnew⟩
    · exact hoff a1 ha1 (by rw [← e]; exact hsv)
    · rw [e] at hsv; cases hsv
    · subst hl
      rw [hnew] at hsv
      have hsid : sid' = sid := Option.some.inj hsv
      subst hsid
      simp only [PlaceOk] at hok
      obtain ⟨hy, _, _, hfalse, htrue⟩ := hok
      cases l0 with
      | false =>
        obtain ⟨s', hs', hup⟩ := hfalse rfl
        exact absurd hup (notUp ci hst s' hs')
      | true =>
        rcases htrue rfl with ⟨x0, e0, hx0, hev⟩ | ⟨_, hsv0⟩
        · obtain ⟨s', hs', hup⟩ := hg x x0 sid' e0 hx0 hev
          exact absurd hup (notUp ci hst s' hs')
        · have hq1 : q.1 = x := by rw [← app?_id ha0]; exact hy.symm
          rw [hq1] at ha0
          exact hict.1.2 a0 ha0 hsv0

end TmVerif.Sched
