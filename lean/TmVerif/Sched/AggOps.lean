/-
  C02 — the aggregates stay sound under every operation of a scheduler-level history.
-/
import TmVerif.Sched.AggInv

namespace TmVerif.Sched

theorem treeX_find_traits {t t' : Tree} {target : Nat} {m : TraitMsg} (h : treeTraits t target false m = some t') :
    t'.find? target = t.find? target := by
  unfold treeTraits at h
  cases hb : t.bubble traitStep false target m with
  | none => rw [hb] at h; cases h
  | some r =>
    rw [hb] at h; simp only [Option.map_some, Option.some.injEq] at h; subst h
    exact bubble_find? traitStep (fun b cs m => by cases m <;> rfl) t target m r.1 r.2 hb

theorem treeX_find_aff {t t' : Tree} {target : Nat} {d : Counter} {sg : Int} (h : treeAff t target false d sg = some t') :
    t'.find? target = t.find? target := by
  unfold treeAff at h
  cases hb : t.bubble (affStep d sg) false target () with
  | none => rw [hb] at h; cases h
  | some r =>
    rw [hb] at h; simp only [Option.map_some, Option.some.injEq] at h; subst h
    exact bubble_find? (affStep d sg) (fun _ _ _ => rfl) t target () r.1 r.2 hb

theorem treeX_find_labels {t t' : Tree} {target : Nat} {ls : List Nat} (h : treeLabels t target false ls = some t') :
    t'.find? target = t.find? target := by
  unfold treeLabels at h
  cases hb : t.bubble labelStep false target ls with
  | none => rw [hb] at h; cases h
  | some r =>
    rw [hb] at h; simp only [Option.map_some, Option.some.injEq] at h; subst h
    exact bubble_find? labelStep (fun _ _ _ => rfl) t target ls r.1 r.2 hb

/-- `add_node` effects (traits, empty affinity delta, labels, capacity) on a tree to which the child is
    already attached: the old table `srvs` is the one without the child's server record (if any). -/
theorem aggOk_addNode {c c' : Cell} {t child : Tree} {srvs' : List Srv} {cid traits : Nat} {labels : List Nat} {free : Vec}
    (hnd : t.names.Nodup) (hfind : t.find? cid = some child)
    (hcap : CapOk c.srvs t) (hlab : LabOk c.srvs t) (htr : TrOk c.srvs t)
    (hagc : ∀ k ∈ t.leaves, k ≠ cid → childView srvs' (.leaf k) = childView c.srvs (.leaf k))
    (hagl : ∀ k ∈ t.leaves, k ≠ cid → labLeaf srvs' k = labLeaf c.srvs k)
    (hagt : ∀ k ∈ t.leaves, k ≠ cid → trLeaf srvs' k = trLeaf c.srvs k)
    (hct : TrMsgIn (.set cid traits) (Agg.view trLeaf trNode c.srvs child) (Agg.view trLeaf trNode srvs' child))
    (hcl : ∀ x ∈ Agg.view labLeaf labNode srvs' child, x ∈ labels)
    (hcc : MsgIn (.up free) (childView c.srvs child) (childView srvs' child))
    (h : addNodeEffects { c with tree := t, srvs := srvs' } cid traits [] labels free = .ok c') : AggOk c' := by
  simp only [addNodeEffects, bind_ok, orAbort_ok, pure_ok] at h
  obtain ⟨t1, h1, t2, h2, t3, h3, t4, h4, rfl⟩ := h
  obtain ⟨n1, l1, _⟩ := treeTraits_views h1
  obtain ⟨n2, l2, _⟩ := treeAff_nil_views h2
  obtain ⟨n3, l3, _⟩ := treeLabels_views h3
  have hnd1 : t1.names.Nodup := by rw [n1]; exact hnd
  have hnd2 : t2.names.Nodup := by rw [n2]; exact hnd1
  have hnd3 : t3.names.Nodup := by rw [n3]; exact hnd2
  have f1 := treeX_find_traits h1
  have f2 := treeX_find_aff h2
  have f3 := treeX_find_labels h3
  have nl : ∀ (tt : Tree), NotLeafAt tt cid false := fun tt => notLeafAt_false tt cid
  refine ⟨?_, ?_, ?_⟩
  · -- capacity: three foreign steps under the old table, then the real one
    have c1 := treeTraits_capOk hnd (nl t) h1 hcap
    have c2 := treeAff_capOk hnd1 (nl t1) h2 c1
    have c3 := treeLabels_capOk hnd2 (nl t2) h3 c2
    refine treeCap_capOk hnd3 h4 c3 ?_ ?_ (by intro e; cases e)
    · intro k hk hne; exact hagc k (by rw [← l1, ← l2, ← l3]; exact hk) hne
    · intro _ tt htt
      rw [f3, f2, f1, hfind] at htt; cases htt; exact hcc
  · have c1 := treeTraits_labOk hnd (nl t) h1 hlab
    have c2 := treeAff_labOk hnd1 (nl t1) h2 c1
    have c3 : LabOk srvs' t3 := by
      refine treeLabels_labOk hnd2 h3 c2 ?_ ?_ (by intro e; cases e)
      · intro k hk hne; exact hagl k (by rw [← l1, ← l2]; exact hk) hne
      · intro _ tt htt
        rw [f2, f1, hfind] at htt; cases htt; exact hcl
    exact treeCap_labOk hnd3 (nl t3) h4 c3
  · have c1 : TrOk srvs' t1 := by
      refine treeTraits_trOk hnd h1 htr hagt ?_ (by intro e; cases e)
      intro _ tt htt
      rw [hfind] at htt; cases htt; exact hct
    have c2 := treeAff_trOk hnd1 (nl t1) h2 c1
    have c3 := treeLabels_trOk hnd2 (nl t2) h3 c2
    exact treeCap_trOk hnd3 (nl t3) h4 c3

/-! ### lookups in an extended / filtered server table -/

theorem find_append_ne (srvs : List Srv) (s : Srv) {k : Nat} (h : k ≠ s.id) :
    (srvs ++ [s]).find? (fun x => x.id = k) = srvs.find? (fun x => x.id = k) := by
  rw [List.find?_append]
  cases hf : srvs.find? (fun x => x.id = k) with
  | some y => rfl
  | none =>
    simp only [Option.none_or, List.find?_cons, List.find?_nil]
    have : ¬ s.id = k := fun e => h e.symm
    simp [this]

theorem find_append_new (srvs : List Srv) (s : Srv) (h : srvs.find? (fun x => x.id = s.id) = none) :
    (srvs ++ [s]).find? (fun x => x.id = s.id) = some s := by
  rw [List.find?_append, h]
  simp

theorem find_filter_ne (srvs : List Srv) (sid : Nat) {k : Nat} (h : k ≠ sid) :
    (srvs.filter (fun x => x.id ≠ sid)).find? (fun x => x.id = k) = srvs.find? (fun x => x.id = k) := by
  rw [List.find?_filter]
  congr 1
  funext a
  by_cases hk : a.id = k
  · have : a.id ≠ sid := fun e => h (hk ▸ e)
    simp [hk, this]
    exact fun e => this (hk ▸ e)
  · simp [hk]

/-! ### every operation -/

theorem aggOk_detach {c c' : Cell} {sid : Nat} (hall : AffAll c) (hc : AggOk c)
    (h : detachServer c sid = .ok c') : AggOk c' := by
  simp only [detachServer, bind_ok, orAbort_ok, pure_ok] at h
  obtain ⟨s, hs, ⟨t, pid, sub⟩, hdet, t1, h1, t2, h2, t3, h3, rfl⟩ := h
  simp only at h1 h2 h3
  have hnd := hall.tree.names
  obtain ⟨d1, d2, d3, _, _⟩ := detach_spec c.tree sid t pid sub hnd hdet
  have hndall : (t.names ++ sub.names).Nodup := d2.nodup_iff.mp hnd
  have hnd' := List.nodup_append.mp hndall
  have hndt : t.names.Nodup := hnd'.1
  have hsidnot : sid ∉ t.names := by
    intro hm
    exact hnd'.2.2 _ hm _ (d1 ▸ Tree.id_mem_names sub) rfl
  -- the parent is a bucket of the remaining tree, and none of its children is named sid
  obtain ⟨pb, hpb, hpid⟩ := detach_parent c.tree sid t pid sub hdet
  obtain ⟨pcs, hpfind⟩ := find?_bucket t pb hndt hpb
  rw [hpid] at hpfind
  have hnl : ∀ (tt : Tree), tt.find? pid = t.find? pid → NotLeafAt tt pid true := by
    intro tt e _ s0 hs0
    rw [e, hpfind] at hs0; cases hs0
  obtain ⟨n1, l1, _⟩ := treeTraits_views h1
  have hnd1 : t1.names.Nodup := by rw [n1]; exact hndt
  have hleaf_ne : ∀ k ∈ t.leaves, k ≠ sid := fun k hk e => hsidnot (e ▸ leaves_sub_names t k hk)
  have hpid_notleaf : pid ∉ t.leaves := by
    intro hm
    rw [find?_leaf t pid hndt hm] at hpfind; cases hpfind
  have hpid_name : pid ∈ t.names := find?_mem t pid _ hpfind
  -- the target stays a bucket through the propagations (names and leaves are kept)
  have hnl : ∀ (tt : Tree), tt.names = t.names → tt.leaves = t.leaves → NotLeafAt tt pid true := by
    intro tt en el _ s0 hs0
    have hndtt : tt.names.Nodup := by rw [en]; exact hndt
    have hin : pid ∈ tt.names := by rw [en]; exact hpid_name
    rcases (names_iff tt pid).mp hin with hl | ⟨b0, hb0, e0⟩
    · exact hpid_notleaf (by rw [← el]; exact hl)
    · obtain ⟨cs0, hf⟩ := find?_bucket tt b0 hndtt hb0
      rw [e0] at hf; rw [hf] at hs0; cases hs0
  obtain ⟨n1, l1, _⟩ := treeTraits_views h1
  have hnd1 : t1.names.Nodup := by rw [n1]; exact hndt
  have hn2l2 : t2.names = t1.names ∧ t2.leaves = t1.leaves := by
    unfold treeAff at h2
    cases hb : t1.bubble (affStep s.aff (-1)) true pid () with
    | none => rw [hb] at h2; cases h2
    | some r =>
      rw [hb] at h2; simp only [Option.map_some, Option.some.injEq] at h2; subst h2
      exact ⟨bubble_names _ _ (fun _ _ _ => rfl) _ _ _ r.1 r.2 hb, bubble_leaves _ _ _ _ _ r.1 r.2 hb⟩
  obtain ⟨n2, l2⟩ := hn2l2
  have hnd2 : t2.names.Nodup := by rw [n2]; exact hnd1
  obtain ⟨n3, l3, _⟩ := treeCap_views h3
  have nl0 := hnl t rfl rfl
  have nl1 := hnl t1 n1 l1
  have nl2 := hnl t2 (n2.trans n1) (l2.trans l1)
  have hleaf3 : ∀ k ∈ t3.leaves, k ≠ sid := by
    intro k hk; exact hleaf_ne k (by rw [← l1, ← l2, ← l3]; exact hk)
  have hcv : ∀ k, k ≠ sid → childView (c.srvs.filter (fun x => x.id ≠ sid)) (.leaf k) = childView c.srvs (.leaf k) := by
    intro k hk; simp only [childView, find_filter_ne c.srvs sid hk]
  have hlv : ∀ k, k ≠ sid → labLeaf (c.srvs.filter (fun x => x.id ≠ sid)) k = labLeaf c.srvs k := by
    intro k hk; simp only [labLeaf, find_filter_ne c.srvs sid hk]
  have htv : ∀ k, k ≠ sid → trLeaf (c.srvs.filter (fun x => x.id ≠ sid)) k = trLeaf c.srvs k := by
    intro k hk; simp only [trLeaf, find_filter_ne c.srvs sid hk]
  refine ⟨?_, ?_, ?_⟩
  · have c0 := (Agg.detach_ok capLeaf capNode capGood capInv c.srvs c.tree sid t pid sub hdet hc.cap).1
    have c1 := treeTraits_capOk hndt nl0 h1 c0
    have c2 := treeAff_capOk hnd1 nl1 h2 c1
    refine treeCap_capOk hnd2 h3 c2 ?_ (by intro e; cases e) ?_
    · intro k hk _; exact hcv k (hleaf_ne k (by rw [← l1, ← l2]; exact hk))
    · intro _
      exact ⟨fun k hk => hcv k (hleaf_ne k (by rw [← l1, ← l2]; exact hk)), nl2 rfl⟩
  · have c0 := (Agg.detach_ok labLeaf labNode labGood (fun _ => True) c.srvs c.tree sid t pid sub hdet hc.lab).1
    have c1 := treeTraits_labOk hndt nl0 h1 c0
    have c2 := treeAff_labOk hnd1 nl1 h2 c1
    have c3 := treeCap_labOk hnd2 nl2 h3 c2
    exact Agg.ok_congr labLeaf labNode labGood (fun _ => True) t3 (fun k hk => hlv k (hleaf3 k hk)) c3
  · have c0 := (Agg.detach_ok trLeaf trNode trGood (fun _ => True) c.srvs c.tree sid t pid sub hdet hc.tr).1
    have c1 : TrOk c.srvs t1 := by
      refine treeTraits_trOk hndt h1 c0 (fun _ _ _ => rfl) (by intro e; cases e) ?_
      intro _
      refine ⟨fun _ _ => rfl, nl0 rfl, ?_⟩
      intro b0 cs0 hf tc htc e
      have h1' : tc.id ∈ (Tree.node b0 cs0).names := by
        simp only [Tree.names, List.mem_cons]; exact Or.inr (id_mem_namesL cs0 tc htc)
      exact hsidnot (e ▸ find?_sub_names t pid _ hf _ h1')
    have c2 := treeAff_trOk hnd1 nl1 h2 c1
    have c3 := treeCap_trOk hnd2 nl2 h3 c2
    exact Agg.ok_congr trLeaf trNode trGood (fun _ => True) t3 (fun k hk => htv k (hleaf3 k hk)) c3

theorem capOk_nonneg_at {srvs : List Srv} {t : Tree} {x : Nat} {b : Bkt} {cs : List (Option Tree)}
    (hc : CapOk srvs t) (hf : t.find? x = some (.node b cs)) : b.free.nonneg := by
  have := Agg.ok_find capLeaf capNode capGood capInv srvs t x _ hf hc
  simp only [Agg.Ok] at this
  exact this.1

theorem aggOk_step {c c' : Cell} {op : Op} (hall : AffAll c) (hc : AggOk c) (hok : OpOk c op)
    (h : step c op = .ok c') : AggOk c' := by
  cases op with
  | addBucket bid pid level =>
    simp only [step, addBucket] at h
    split at h
    · simp only [throw_bind, throw_ne_ok] at h
    · rename_i hfree
      simp only [bind_ok, orAbort_ok] at h
      obtain ⟨t, hatt, h⟩ := h
      have hnot : bid ∉ c.tree.names := fun hm => hfree ((nameTaken_iff c bid).mpr hm)
      let b0 : Bkt := { id := bid, level := level, free := Vec.zero, selfTraits := 0, childTraits := [],
                        labels := [], aff := [], cursors := [] }
      obtain ⟨_, p2, _, _⟩ := attach_spec (.node b0 []) c.tree pid t hall.tree.names hatt
      have hnd : t.names.Nodup := by
        rw [p2.nodup_iff, List.nodup_append]
        refine ⟨hall.tree.names, by simp [Tree.names, Tree.namesL], ?_⟩
        intro a ha b hb e
        simp only [Tree.names, Tree.namesL, List.mem_singleton] at hb
        have hb' : b = bid := hb
        exact hnot (by rw [← hb', ← e]; exact ha)
      have hfind : t.find? bid = some (.node b0 []) :=
        attach_find? (.node b0 []) c.tree pid t hnot hatt
      refine aggOk_addNode (child := .node b0 []) (srvs' := c.srvs) hnd hfind ?_ ?_ ?_
        (fun _ _ _ => rfl) (fun _ _ _ => rfl) (fun _ _ _ => rfl) ?_ ?_ ?_ h
      · refine Agg.attach_ok capLeaf capNode capGood capInv c.srvs (.node b0 []) ?_ c.tree pid t hatt ?_
          hall.tree.names hc.cap
        · simp only [Agg.Ok, Agg.KidsOk, Agg.OkL]
          exact ⟨Vec.zero_nonneg, fun _ h => (by cases h), trivial⟩
        · intro b cs hf _
          exact (Vec.nonneg_iff_zero_le _).mp (capOk_nonneg_at hc.cap hf)
      · refine Agg.attach_ok labLeaf labNode labGood (fun _ => True) c.srvs (.node b0 []) ?_ c.tree pid t hatt ?_
          hall.tree.names hc.lab
        · simp only [Agg.Ok, Agg.KidsOk, Agg.OkL]
          exact ⟨trivial, fun _ h => (by cases h), trivial⟩
        · intro b cs _ x hx; cases hx
      · refine Agg.attach_ok trLeaf trNode trGood (fun _ => True) c.srvs (.node b0 []) ?_ c.tree pid t hatt ?_
          hall.tree.names hc.tr
        · simp only [Agg.Ok, Agg.KidsOk, Agg.OkL]
          exact ⟨trivial, fun _ h => (by cases h), trivial⟩
        · intro b cs _; exact Or.inl rfl
      · exact ⟨rfl, rfl⟩
      · intro x hx; cases hx
      · intro _; exact Vec.le_refl' _
  | addServer sid pid cap label traits vu =>
    simp only [step, addServer] at h
    split at h
    · simp only [throw_bind, throw_ne_ok] at h
    · rename_i hfree
      split at h
      · simp only [throw_bind, throw_ne_ok] at h
      · rename_i hnew
        simp only [bind_ok, orAbort_ok] at h
        obtain ⟨t, hatt, h⟩ := h
        have hnot : sid ∉ c.tree.names := fun hm => hfree ((nameTaken_iff c sid).mpr hm)
        have hnone : c.srvs.find? (fun x => x.id = sid) = none := by
          cases hf : c.srv? sid with
          | none => exact hf
          | some x => simp [hf] at hnew
        obtain ⟨_, p2, _, _⟩ := attach_spec (.leaf sid) c.tree pid t hall.tree.names hatt
        have hnd : t.names.Nodup := by
          rw [p2.nodup_iff, List.nodup_append]
          refine ⟨hall.tree.names, by simp [Tree.names], ?_⟩
          intro a ha b hb e
          simp only [Tree.names, List.mem_singleton] at hb
          exact hnot (by rw [← hb, ← e]; exact ha)
        have hfind : t.find? sid = some (.leaf sid) :=
          attach_find? (.leaf sid) c.tree pid t hnot hatt
        let s : Srv := { id := sid, init := cap, free := cap, apps := [], label := label, traits := traits,
                         validUntil := vu, state := .up, since := c.now, aff := [] }
        have hfs : (c.srvs ++ [s]).find? (fun x => x.id = sid) = some s := find_append_new c.srvs s hnone
        refine aggOk_addNode (child := .leaf sid) (srvs' := c.srvs ++ [s]) hnd hfind ?_ ?_ ?_ ?_ ?_ ?_ ?_ ?_ ?_ h
        · refine Agg.attach_ok capLeaf capNode capGood capInv c.srvs (.leaf sid) (by simp only [Agg.Ok]) c.tree pid t hatt ?_
            hall.tree.names hc.cap
          intro b cs _ hup
          simp only [Agg.view, capLeaf, childView, hnone] at hup
          cases hup
        · refine Agg.attach_ok labLeaf labNode labGood (fun _ => True) c.srvs (.leaf sid) (by simp only [Agg.Ok]) c.tree pid t hatt ?_
            hall.tree.names hc.lab
          intro b cs _ x hx
          simp only [Agg.view, labLeaf, hnone] at hx
          cases hx
        · refine Agg.attach_ok trLeaf trNode trGood (fun _ => True) c.srvs (.leaf sid) (by simp only [Agg.Ok]) c.tree pid t hatt ?_
            hall.tree.names hc.tr
          intro b cs _
          left
          simp only [Agg.view, trLeaf, hnone]
        · intro k _ hk; simp only [childView, find_append_ne c.srvs s (show k ≠ s.id from hk)]
        · intro k _ hk; simp only [labLeaf, find_append_ne c.srvs s (show k ≠ s.id from hk)]
        · intro k _ hk; simp only [trLeaf, find_append_ne c.srvs s (show k ≠ s.id from hk)]
        · simp [TrMsgIn, Agg.view, trLeaf, hfs]
          rfl
        · intro x hx
          simp only [Agg.view, labLeaf, hfs] at hx
          exact hx
        · intro _
          simp only [childView, hfs]
          exact Vec.le_refl' _
  | removeServer sid =>
    simp only [step, removeServer, bind_ok] at h
    obtain ⟨c1, h1, h2⟩ := h
    have hr := serverRemoveAll_reach h1
    exact aggOk_detach (affAll_reach hall hr) (aggOk_reach hall hc hr) h2
  | detachServer sid => exact aggOk_detach hall hc h
  | setState sid st since =>
    simp only [step, setState, bind_ok, orAbort_ok] at h
    obtain ⟨s, hs, h⟩ := h
    split at h
    · simp only [pure_ok] at h; subst h; exact hc
    · rename_i hne
      simp only [bind_ok, orAbort_ok, pure_ok] at h
      obtain ⟨t, ht, rfl⟩ := h
      have hsm := srv?_mem hs
      have hsid := srv?_id hs
      have hnd := hall.tree.names
      have hleaf : sid ∈ c.tree.leaves := (hall.tree.leaves sid).mpr ⟨s, hsm, hsid⟩
      have hfind : c.srvs.find? (fun x => x.id = sid) = some s := hs
      have hfind' : (c.setSrv { s with state := st, since := since }).srvs.find? (fun x => x.id = sid) =
          some { s with state := st, since := since } := by
        show (updSrv c.srvs { s with state := st, since := since }).find? _ = _
        rw [find_updSrv, hfind]; simp
      refine ⟨?_, ?_, ?_⟩
      · refine treeCap_capOk hnd ht hc.cap ?_ ?_ (by intro e; cases e)
        · intro k _ hk
          exact childView_updSrv_ne (s' := { s with state := st, since := since }) (by show k ≠ s.id; rw [hsid]; exact hk)
        · intro _ tt htt
          show MsgIn _ (childView c.srvs tt) (childView (c.setSrv { s with state := st, since := since }).srvs tt)
          have hf : c.tree.find? sid = some (.leaf sid) := find?_leaf c.tree sid hnd hleaf
          have htt' : c.tree.find? sid = some tt := htt
          rw [hf] at htt'; cases htt'
          rw [childView_leaf_of _ hfind']
          cases st with
          | up => intro _; exact Vec.le_refl' _
          | down => intro hup; simp at hup
          | frozen => intro hup; simp at hup
      · have hl : ∀ k, labLeaf (c.setSrv { s with state := st, since := since }).srvs k = labLeaf c.srvs k :=
          fun k => labLeaf_updSrv (s' := { s with state := st, since := since }) hsm hall.cap.srvIds rfl rfl k
        exact labOk_congr hl (treeCap_labOk hnd (notLeafAt_false _ _) ht hc.lab)
      · have hl : ∀ k, trLeaf (c.setSrv { s with state := st, since := since }).srvs k = trLeaf c.srvs k :=
          fun k => trLeaf_updSrv (s' := { s with state := st, since := since }) hsm hall.cap.srvIds rfl rfl k
        exact trOk_congr hl (treeCap_trOk hnd (notLeafAt_false _ _) ht hc.tr)
  | setValidUntil sid v =>
    simp only [step, setValidUntil, bind_ok, orAbort_ok, pure_ok] at h
    obtain ⟨s, hs, rfl⟩ := h
    have hsm := srv?_mem hs
    have hfind : c.srvs.find? (fun x => x.id = sid) = some s := hs
    refine ⟨?_, ?_, ?_⟩
    · refine Agg.ok_congr capLeaf capNode capGood capInv c.tree ?_ hc.cap
      intro k _
      show childView (updSrv c.srvs { s with validUntil := v }) (.leaf k) = childView c.srvs (.leaf k)
      by_cases hk : k = sid
      · subst hk
        simp only [childView, find_updSrv, hfind, Option.map_some, ↓reduceIte]
      · exact childView_updSrv_ne (s' := { s with validUntil := v }) (by show k ≠ s.id; rw [srv?_id hs]; exact hk)
    · exact labOk_congr (fun k => labLeaf_updSrv (s' := { s with validUntil := v }) hsm hall.cap.srvIds rfl rfl k) hc.lab
    · exact trOk_congr (fun k => trLeaf_updSrv (s' := { s with validUntil := v }) hsm hall.cap.srvIds rfl rfl k) hc.tr
  | addApp a =>
    simp only [step, addApp] at h
    split at h
    · simp only [throw_bind, throw_ne_ok] at h
    · simp only [pure_ok] at h
      subst h
      refine aggOk_ext hc ?_ ?_ <;> (cases a.group <;> simp)
  | updateApp aid al prio ret bl =>
    simp only [step, updateApp, bind_ok, orAbort_ok, pure_ok] at h
    obtain ⟨a, ha, rfl⟩ := h
    refine aggOk_ext hc ?_ ?_ <;> (cases a.group <;> simp [Cell.setApp])
  | removeApp aid =>
    simp only [step, removeApp] at h
    split at h
    · simp only [pure_ok] at h; subst h; exact hc
    · rename_i a ha
      split at h
      · rename_i sid hsv
        split at h
        · simp only [bind_ok, pure_ok] at h
          obtain ⟨c1, h1, c2, h2, rfl⟩ := h
          obtain ⟨e1, e2⟩ := release_tree_srvs h2
          exact aggOk_ext (aggOk_remove hall hc h1) e1 e2
        · simp only [bind_ok, pure_ok] at h
          obtain ⟨c1, rfl, c2, h2, rfl⟩ := h
          obtain ⟨e1, e2⟩ := release_tree_srvs h2
          exact aggOk_ext hc e1 e2
      · simp only [bind_ok, pure_ok] at h
        obtain ⟨c1, rfl, c2, h2, rfl⟩ := h
        obtain ⟨e1, e2⟩ := release_tree_srvs h2
        exact aggOk_ext hc e1 e2
  | setAlloc al info =>
    simp only [step, pure_ok] at h; subst h
    unfold setAlloc; split <;> exact aggOk_ext hc rfl rfl
  | configureGroup g n =>
    simp only [step, pure_ok] at h; subst h
    unfold configureGroup; split <;> exact aggOk_ext hc rfl rfl
  | removeGroup g =>
    simp only [step, pure_ok] at h; subst h
    unfold removeGroup; split
    · exact hc
    · split <;> exact aggOk_ext hc rfl rfl
  | forceIdentity aid k =>
    simp only [step, forceIdentity, bind_ok, orAbort_ok, pure_ok] at h
    obtain ⟨a, ha, g, _, grp, _, rfl⟩ := h
    exact aggOk_ext hc rfl rfl
  | serverPut aid sid =>
    simp only [step, bind_ok, pure_ok] at h
    obtain ⟨⟨c1, b⟩, h1, rfl⟩ := h
    exact aggOk_put hall hc h1
  | serverRestore aid sid e =>
    simp only [step, bind_ok, pure_ok] at h
    obtain ⟨⟨c1, b⟩, h1, rfl⟩ := h
    exact aggOk_reach hall hc (serverRestore_reach h1)
  | serverRemoveAll sid => exact aggOk_reach hall hc (serverRemoveAll_reach h)
  | setPrio aid p =>
    simp only [step, bind_ok, orAbort_ok, pure_ok] at h
    obtain ⟨a, ha, rfl⟩ := h; exact aggOk_ext hc rfl rfl
  | setBlacklisted aid b =>
    simp only [step, bind_ok, orAbort_ok, pure_ok] at h
    obtain ⟨a, ha, rfl⟩ := h; exact aggOk_ext hc rfl rfl
  | setUnschedule aid b =>
    simp only [step, bind_ok, orAbort_ok, pure_ok] at h
    obtain ⟨a, ha, rfl⟩ := h; exact aggOk_ext hc rfl rfl
  | setRenew aid b =>
    simp only [step, bind_ok, orAbort_ok, pure_ok] at h
    obtain ⟨a, ha, rfl⟩ := h; exact aggOk_ext hc rfl rfl
  | tick now => simp only [step, pure_ok] at h; subst h; exact aggOk_ext hc rfl rfl
  | schedule qs ch => exact aggOk_reach hall hc (schedule_reach h)

theorem aggOk_init (r l : Nat) : AggOk (Cell.init r l) := by
  refine ⟨?_, ?_, ?_⟩ <;> simp only [CapOk, LabOk, TrOk, Cell.init, Agg.Ok, Agg.KidsOk, Agg.OkL]
  · exact ⟨Vec.zero_nonneg, fun _ h => (by cases h), trivial⟩
  · exact ⟨trivial, fun _ h => (by cases h), trivial⟩
  · exact ⟨trivial, fun _ h => (by cases h), trivial⟩

theorem aggOk_runOps : ∀ (ops : List Op) (c c' : Cell), AffAll c → AggOk c → GuardsHold c ops → LimGuards c ops →
    runOps c ops = .ok c' → AffAll c' ∧ AggOk c' := by
  intro ops
  induction ops with
  | nil => intro c c' h1 h2 _ _ h; simp only [runOps, pure_ok] at h; subst h; exact ⟨h1, h2⟩
  | cons op ops ih =>
    intro c c' h1 h2 hg hl h
    simp only [runOps, bind_ok] at h
    obtain ⟨c1, hs, hr⟩ := h
    exact ih c1 c' (affAll_step h1 hg.1 hl.1 hs) (aggOk_step h1 h2 hg.1 hs) (hg.2 c1 hs) (hl.2 c1 hs) hr

end TmVerif.Sched
