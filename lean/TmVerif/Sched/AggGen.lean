/-
  C02 — aggregates over the whole tree, generically: every bucket keeps a summary that *covers* the
  view it has of each child (`good`), a local invariant (`inv`), and an upward propagation
  (`bubble step`) whose messages obey a contract (`msgIn`) re-establishes both along the path.
  Instances: free capacity (AggCap.lean), partition labels, traits.
-/
import TmVerif.Sched.Views

namespace TmVerif.Sched

mutual
/-- The subtree named `target` (first in DFS order). -/
def Tree.find? : Tree → Nat → Option Tree
  | .leaf s, target => if s = target then some (.leaf s) else none
  | .node b cs, target => if b.id = target then some (.node b cs) else Tree.findL? cs target
def Tree.findL? : List (Option Tree) → Nat → Option Tree
  | [], _ => none
  | none :: r, target => Tree.findL? r target
  | some t :: r, target =>
    match t.find? target with
    | some x => some x
    | none => Tree.findL? r target
end

mutual
theorem find?_none : ∀ (t : Tree) (target : Nat), target ∉ t.names → t.find? target = none
  | .leaf s, target, h => by
    simp only [Tree.names, List.mem_singleton] at h
    simp only [Tree.find?]
    rw [if_neg (fun e => h e.symm)]
  | .node b cs, target, h => by
    simp only [Tree.names, List.mem_cons, not_or] at h
    simp only [Tree.find?]
    rw [if_neg (fun e => h.1 e.symm)]
    exact findL?_none cs target h.2
theorem findL?_none : ∀ (cs : List (Option Tree)) (target : Nat), target ∉ Tree.namesL cs → Tree.findL? cs target = none
  | [], _, _ => rfl
  | none :: r, target, h => by
    simp only [Tree.namesL] at h
    simp only [Tree.findL?]
    exact findL?_none r target h
  | some t :: r, target, h => by
    simp only [Tree.namesL, List.mem_append, not_or] at h
    simp only [Tree.findL?]
    rw [find?_none t target h.1]
    exact findL?_none r target h.2
end

mutual
theorem find?_mem : ∀ (t : Tree) (target : Nat) (x : Tree), t.find? target = some x → target ∈ t.names
  | .leaf s, target, x, h => by
    simp only [Tree.find?] at h
    split at h
    · rename_i e; simp [Tree.names, e]
    · cases h
  | .node b cs, target, x, h => by
    simp only [Tree.find?] at h
    simp only [Tree.names, List.mem_cons]
    split at h
    · rename_i e; exact Or.inl e.symm
    · exact Or.inr (findL?_mem cs target x h)
theorem findL?_mem : ∀ (cs : List (Option Tree)) (target : Nat) (x : Tree), Tree.findL? cs target = some x →
    target ∈ Tree.namesL cs
  | [], _, _, h => by simp [Tree.findL?] at h
  | none :: r, target, x, h => by
    simp only [Tree.findL?] at h
    simp only [Tree.namesL]
    exact findL?_mem r target x h
  | some t :: r, target, x, h => by
    simp only [Tree.findL?] at h
    simp only [Tree.namesL, List.mem_append]
    split at h
    · rename_i y hy; exact Or.inl (find?_mem t target y hy)
    · exact Or.inr (findL?_mem r target x h)
end

mutual
/-- `attach` succeeds below a bucket that is there. -/
theorem attach_some_of_find (child : Tree) : ∀ (t : Tree) (pid : Nat) (b0 : Bkt) (cs0 : List (Option Tree)),
    t.find? pid = some (.node b0 cs0) → Tree.attach child t pid ≠ none
  | .leaf s, pid, b0, cs0, h => by
    simp only [Tree.find?] at h
    split at h <;> cases h
  | .node b cs, pid, b0, cs0, h => by
    simp only [Tree.find?] at h
    simp only [Tree.attach]
    split at h
    · rename_i e; simp [e]
    · rename_i e
      simp only [e, ↓reduceIte]
      have := attachL_some_of_find child cs pid b0 cs0 h
      cases hh : Tree.attachL child cs pid with
      | none => exact absurd hh this
      | some x => simp
theorem attachL_some_of_find (child : Tree) : ∀ (cs : List (Option Tree)) (pid : Nat) (b0 : Bkt) (cs0 : List (Option Tree)),
    Tree.findL? cs pid = some (.node b0 cs0) → Tree.attachL child cs pid ≠ none
  | [], _, _, _, h => by simp [Tree.findL?] at h
  | none :: r, pid, b0, cs0, h => by
    simp only [Tree.findL?] at h
    simp only [Tree.attachL]
    have := attachL_some_of_find child r pid b0 cs0 h
    cases hh : Tree.attachL child r pid with
    | none => exact absurd hh this
    | some x => simp
  | some t :: r, pid, b0, cs0, h => by
    simp only [Tree.findL?] at h
    simp only [Tree.attachL]
    split at h
    · rename_i x hx
      simp only [Option.some.injEq] at h
      subst h
      have := attach_some_of_find child t pid b0 cs0 hx
      cases hh : Tree.attach child t pid with
      | none => exact absurd hh this
      | some y => simp
    · cases hh : Tree.attach child t pid with
      | some y => simp
      | none =>
        simp only
        have := attachL_some_of_find child r pid b0 cs0 h
        cases hh2 : Tree.attachL child r pid with
        | none => exact absurd hh2 this
        | some x => simp
end

theorem leaf_mem_leavesL : ∀ (cs : List (Option Tree)) (s : Nat), some (Tree.leaf s) ∈ cs → s ∈ Tree.leavesL cs
  | [], _, h => by cases h
  | none :: r, s, h => by
    simp only [Tree.leavesL]
    rcases List.mem_cons.mp h with e | h
    · cases e
    · exact leaf_mem_leavesL r s h
  | some t :: r, s, h => by
    simp only [Tree.leavesL, List.mem_append]
    rcases List.mem_cons.mp h with e | h
    · simp only [Option.some.injEq] at e; subst e; left; simp [Tree.leaves]
    · exact Or.inr (leaf_mem_leavesL r s h)

/-! ### an `incl = false` propagation does not touch the target subtree; `attach` puts the child there -/

section FindStable
variable {μ : Type} (step : Bkt → List (Option Tree) → μ → Bkt × μ)
variable (hid : ∀ b cs m, (step b cs m).1.id = b.id)
include hid

mutual
theorem bubble_find? : ∀ (t : Tree) (target : Nat) (m : μ) (t' : Tree) (m' : μ),
    t.bubble step false target m = some (t', m') → t'.find? target = t.find? target
  | .leaf s, target, m, t', m', h => by
    simp only [Tree.bubble] at h
    split at h
    · simp only [Option.some.injEq, Prod.mk.injEq] at h; rw [← h.1]
    · cases h
  | .node b cs, target, m, t', m', h => by
    simp only [Tree.bubble] at h
    split at h
    · simp only [Bool.false_eq_true, ↓reduceIte, Option.some.injEq, Prod.mk.injEq] at h; rw [← h.1]
    · rename_i hb
      split at h
      · cases h
      · rename_i cs' m1 heq
        simp only [Option.some.injEq, Prod.mk.injEq] at h
        rw [← h.1]
        simp only [Tree.find?, hid, hb, ↓reduceIte]
        exact bubbleL_find? cs target m cs' m1 heq
theorem bubbleL_find? : ∀ (cs : List (Option Tree)) (target : Nat) (m : μ) (cs' : List (Option Tree)) (m' : μ),
    Tree.bubbleL step false cs target m = some (cs', m') → Tree.findL? cs' target = Tree.findL? cs target
  | [], _, _, _, _, h => by simp [Tree.bubbleL] at h
  | none :: r, target, m, cs', m', h => by
    simp only [Tree.bubbleL] at h
    split at h
    · cases h
    · rename_i r' m1 heq
      simp only [Option.some.injEq, Prod.mk.injEq] at h
      rw [← h.1]
      simp only [Tree.findL?]
      exact bubbleL_find? r target m r' m1 heq
  | some t :: r, target, m, cs', m', h => by
    simp only [Tree.bubbleL] at h
    split at h
    · rename_i t1 m1 heq
      simp only [Option.some.injEq, Prod.mk.injEq] at h
      rw [← h.1]
      simp only [Tree.findL?]
      rw [bubble_find? t target m t1 m1 heq]
    · rename_i hnone
      split at h
      · cases h
      · rename_i r' m1 heq
        simp only [Option.some.injEq, Prod.mk.injEq] at h
        rw [← h.1]
        simp only [Tree.findL?]
        rw [bubbleL_find? r target m r' m1 heq]
end
end FindStable

mutual
theorem attach_find? (child : Tree) : ∀ (t : Tree) (pid : Nat) (t' : Tree), child.id ∉ t.names →
    Tree.attach child t pid = some t' → t'.find? child.id = some child
  | .leaf _, _, _, _, h => by simp [Tree.attach] at h
  | .node b cs, pid, t', hfresh, h => by
    simp only [Tree.names, List.mem_cons, not_or] at hfresh
    simp only [Tree.attach] at h
    have hne : ¬ b.id = child.id := fun e => hfresh.1 e.symm
    split at h
    · simp only [Option.some.injEq] at h
      subst h
      simp only [Tree.find?, hne, ↓reduceIte]
      exact findL?_append_one cs child hfresh.2
    · split at h
      · cases h
      · rename_i cs' heq
        simp only [Option.some.injEq] at h
        subst h
        simp only [Tree.find?, hne, ↓reduceIte]
        exact attachL_find? child cs pid cs' hfresh.2 heq
theorem attachL_find? (child : Tree) : ∀ (cs : List (Option Tree)) (pid : Nat) (cs' : List (Option Tree)),
    child.id ∉ Tree.namesL cs → Tree.attachL child cs pid = some cs' → Tree.findL? cs' child.id = some child
  | [], _, _, _, h => by simp [Tree.attachL] at h
  | none :: r, pid, cs', hfresh, h => by
    simp only [Tree.namesL] at hfresh
    simp only [Tree.attachL, Option.map_eq_some_iff] at h
    obtain ⟨r', hr, rfl⟩ := h
    simp only [Tree.findL?]
    exact attachL_find? child r pid r' hfresh hr
  | some t :: r, pid, cs', hfresh, h => by
    simp only [Tree.namesL, List.mem_append, not_or] at hfresh
    simp only [Tree.attachL] at h
    split at h
    · rename_i t1 heq
      simp only [Option.some.injEq] at h
      subst h
      simp only [Tree.findL?]
      rw [attach_find? child t pid t1 hfresh.1 heq]
    · simp only [Option.map_eq_some_iff] at h
      obtain ⟨r', hr, rfl⟩ := h
      simp only [Tree.findL?]
      rw [find?_none t child.id hfresh.1]
      exact attachL_find? child r pid r' hfresh.2 hr
theorem findL?_append_one : ∀ (cs : List (Option Tree)) (child : Tree), child.id ∉ Tree.namesL cs →
    Tree.findL? (cs ++ [some child]) child.id = some child
  | [], child, _ => by
    simp only [List.nil_append, Tree.findL?]
    cases child with
    | leaf s => simp [Tree.find?, Tree.id]
    | node b cs => simp [Tree.find?, Tree.id]
  | none :: r, child, h => by
    simp only [Tree.namesL] at h
    simp only [List.cons_append, Tree.findL?]
    exact findL?_append_one r child h
  | some t :: r, child, h => by
    simp only [Tree.namesL, List.mem_append, not_or] at h
    simp only [List.cons_append, Tree.findL?]
    rw [find?_none t child.id h.1]
    exact findL?_append_one r child h.2
end

/-! ### more about `find?` -/

mutual
/-- With unique names, a bucket is the subtree its id names. -/
theorem find?_bucket : ∀ (t : Tree) (b : Bkt), t.names.Nodup → b ∈ t.buckets → ∃ cs, t.find? b.id = some (.node b cs)
  | .leaf _, _, _, h => by simp [Tree.buckets] at h
  | .node b0 cs, b, hnd, h => by
    simp only [Tree.names, List.nodup_cons] at hnd
    simp only [Tree.buckets, List.mem_cons] at h
    simp only [Tree.find?]
    rcases h with rfl | h
    · exact ⟨cs, by simp⟩
    · have hne : ¬ b0.id = b.id := by
        intro e
        apply hnd.1
        rw [e]
        exact (namesL_iff cs b.id).mpr (Or.inr ⟨b, h, rfl⟩)
      rw [if_neg hne]
      exact findL?_bucket cs b hnd.2 h
theorem findL?_bucket : ∀ (cs : List (Option Tree)) (b : Bkt), (Tree.namesL cs).Nodup → b ∈ Tree.bucketsL cs →
    ∃ cs0, Tree.findL? cs b.id = some (.node b cs0)
  | [], _, _, h => by simp [Tree.bucketsL] at h
  | none :: r, b, hnd, h => by
    simp only [Tree.namesL] at hnd
    simp only [Tree.bucketsL] at h
    simp only [Tree.findL?]
    exact findL?_bucket r b hnd h
  | some t :: r, b, hnd, h => by
    simp only [Tree.namesL] at hnd
    have hnd' := List.nodup_append.mp hnd
    simp only [Tree.bucketsL, List.mem_append] at h
    simp only [Tree.findL?]
    rcases h with h | h
    · obtain ⟨cs0, e⟩ := find?_bucket t b hnd'.1 h
      rw [e]; exact ⟨cs0, rfl⟩
    · have hnot : b.id ∉ t.names := by
        intro hm
        exact hnd'.2.2 _ hm _ ((namesL_iff r b.id).mpr (Or.inr ⟨b, h, rfl⟩)) rfl
      rw [find?_none t b.id hnot]
      exact findL?_bucket r b hnd'.2.1 h
end

mutual
/-- The subtree found is inside the tree. -/
theorem find?_sub_names : ∀ (t : Tree) (x : Nat) (tt : Tree), t.find? x = some tt → ∀ n ∈ tt.names, n ∈ t.names
  | .leaf s, x, tt, h => by
    simp only [Tree.find?] at h
    split at h
    · simp only [Option.some.injEq] at h; subst h; exact fun n hn => hn
    · cases h
  | .node b cs, x, tt, h => by
    simp only [Tree.find?] at h
    split at h
    · simp only [Option.some.injEq] at h; subst h; exact fun n hn => hn
    · intro n hn
      simp only [Tree.names, List.mem_cons]
      exact Or.inr (findL?_sub_names cs x tt h n hn)
theorem findL?_sub_names : ∀ (cs : List (Option Tree)) (x : Nat) (tt : Tree), Tree.findL? cs x = some tt →
    ∀ n ∈ tt.names, n ∈ Tree.namesL cs
  | [], _, _, h => by simp [Tree.findL?] at h
  | none :: r, x, tt, h => by
    simp only [Tree.findL?] at h
    simp only [Tree.namesL]
    exact findL?_sub_names r x tt h
  | some t :: r, x, tt, h => by
    simp only [Tree.findL?] at h
    intro n hn
    simp only [Tree.namesL, List.mem_append]
    split at h
    · rename_i y hy
      simp only [Option.some.injEq] at h; subst h
      exact Or.inl (find?_sub_names t x y hy n hn)
    · exact Or.inr (findL?_sub_names r x tt h n hn)
end

mutual
/-- The parent reported by `detach` is a bucket of the remaining tree. -/
theorem detach_parent : ∀ (t : Tree) (cid : Nat) (t' : Tree) (pid : Nat) (sub : Tree),
    t.detach cid = some (t', pid, sub) → ∃ b ∈ t'.buckets, b.id = pid
  | .leaf _, _, _, _, _, h => by simp [Tree.detach] at h
  | .node b cs, cid, t', pid, sub, h => by
    simp only [Tree.detach] at h
    split at h
    · simp only [Option.some.injEq, Prod.mk.injEq] at h
      obtain ⟨rfl, rfl, _⟩ := h
      exact ⟨b, by simp [Tree.buckets], rfl⟩
    · split at h
      · cases h
      · rename_i cs' pid' sub' heq
        simp only [Option.some.injEq, Prod.mk.injEq] at h
        obtain ⟨rfl, rfl, _⟩ := h
        obtain ⟨b0, hb0, e⟩ := detachL_parent cs cid cs' pid' sub' heq
        exact ⟨b0, by simp [Tree.buckets, hb0], e⟩
theorem detachL_parent : ∀ (cs : List (Option Tree)) (cid : Nat) (cs' : List (Option Tree)) (pid : Nat) (sub : Tree),
    Tree.detachL cs cid = some (cs', pid, sub) → ∃ b ∈ Tree.bucketsL cs', b.id = pid
  | [], _, _, _, _, h => by simp [Tree.detachL] at h
  | none :: r, cid, cs', pid, sub, h => by
    simp only [Tree.detachL] at h
    split at h
    · cases h
    · rename_i r' pid' sub' heq
      simp only [Option.some.injEq, Prod.mk.injEq] at h
      obtain ⟨rfl, rfl, _⟩ := h
      simp only [Tree.bucketsL]
      exact detachL_parent r cid r' pid' sub' heq
  | some t :: r, cid, cs', pid, sub, h => by
    simp only [Tree.detachL] at h
    split at h
    · rename_i t1 pid' sub' heq
      simp only [Option.some.injEq, Prod.mk.injEq] at h
      obtain ⟨rfl, rfl, _⟩ := h
      obtain ⟨b0, hb0, e⟩ := detach_parent t cid t1 pid' sub' heq
      exact ⟨b0, by simp [Tree.bucketsL, hb0], e⟩
    · split at h
      · cases h
      · rename_i r' pid' sub' heq
        simp only [Option.some.injEq, Prod.mk.injEq] at h
        obtain ⟨rfl, rfl, _⟩ := h
        obtain ⟨b0, hb0, e⟩ := detachL_parent r cid r' pid' sub' heq
        exact ⟨b0, by simp [Tree.bucketsL, hb0], e⟩
end

namespace Agg
section
variable {V M : Type} (leafView : List Srv → Nat → V) (nodeView : Bkt → V)
  (good : Bkt → V → Prop) (inv : Bkt → Prop) (msgIn : M → V → V → Prop)

/-- The view a parent has of a child. -/
def view (srvs : List Srv) : Tree → V
  | .leaf s => leafView srvs s
  | .node b _ => nodeView b

/-- `b` covers every child. -/
def KidsOk (srvs : List Srv) (b : Bkt) (cs : List (Option Tree)) : Prop :=
  ∀ t, some t ∈ cs → good b (view leafView nodeView srvs t)

mutual
def Ok (srvs : List Srv) : Tree → Prop
  | .leaf _ => True
  | .node b cs => inv b ∧ KidsOk leafView nodeView good srvs b cs ∧ OkL srvs cs
def OkL (srvs : List Srv) : List (Option Tree) → Prop
  | [] => True
  | none :: r => OkL srvs r
  | some t :: r => Ok srvs t ∧ OkL srvs r
end

/-- Server `k` looks the same to its parent in both tables. -/
def SameRec (srvs srvs' : List Srv) (k : Nat) : Prop := leafView srvs' k = leafView srvs k


theorem view_congr {srvs srvs' : List Srv} (t : Tree)
    (hroot : ∀ s, t = .leaf s → SameRec leafView srvs srvs' s) :
    view leafView nodeView srvs' t = view leafView nodeView srvs t := by
  cases t with
  | leaf s => exact hroot s rfl
  | node b cs => rfl

theorem kidsOk_congr {srvs srvs' : List Srv} {b : Bkt} {cs : List (Option Tree)}
    (h : ∀ k ∈ Tree.leavesL cs, SameRec leafView srvs srvs' k)
    (hk : KidsOk leafView nodeView good srvs b cs) : KidsOk leafView nodeView good srvs' b cs := by
  intro t ht
  have hview : view leafView nodeView srvs' t = view leafView nodeView srvs t :=
    view_congr leafView nodeView t (fun s e => by subst e; exact h s (leaf_mem_leavesL cs s ht))
  rw [hview]
  exact hk t ht

mutual
theorem ok_congr {srvs srvs' : List Srv} : ∀ (t : Tree), (∀ k ∈ t.leaves, SameRec leafView srvs srvs' k) →
    Ok leafView nodeView good inv srvs t → Ok leafView nodeView good inv srvs' t
  | .leaf _, _, _ => by simp only [Ok]
  | .node b cs, h, hc => by
    simp only [Tree.leaves] at h
    simp only [Ok] at hc ⊢
    exact ⟨hc.1, kidsOk_congr leafView nodeView good h hc.2.1, okL_congr cs h hc.2.2⟩
theorem okL_congr {srvs srvs' : List Srv} : ∀ (cs : List (Option Tree)),
    (∀ k ∈ Tree.leavesL cs, SameRec leafView srvs srvs' k) →
    OkL leafView nodeView good inv srvs cs → OkL leafView nodeView good inv srvs' cs
  | [], _, _ => by simp only [OkL]
  | none :: r, h, hc => by
    simp only [Tree.leavesL] at h
    simp only [OkL] at hc ⊢
    exact okL_congr r h hc
  | some t :: r, h, hc => by
    simp only [Tree.leavesL, List.mem_append] at h
    simp only [OkL] at hc ⊢
    exact ⟨ok_congr t (fun k hk => h k (Or.inl hk)) hc.1, okL_congr r (fun k hk => h k (Or.inr hk)) hc.2⟩
end


mutual
/-- `Ok` holds of every subtree. -/
theorem ok_find (srvs : List Srv) : ∀ (t : Tree) (x : Nat) (tt : Tree), t.find? x = some tt →
    Ok leafView nodeView good inv srvs t → Ok leafView nodeView good inv srvs tt
  | .leaf s, x, tt, h, hc => by
    simp only [Tree.find?] at h
    split at h
    · simp only [Option.some.injEq] at h; subst h; exact hc
    · cases h
  | .node b cs, x, tt, h, hc => by
    simp only [Tree.find?] at h
    split at h
    · simp only [Option.some.injEq] at h; subst h; exact hc
    · simp only [Ok] at hc
      exact okL_find srvs cs x tt h hc.2.2
theorem okL_find (srvs : List Srv) : ∀ (cs : List (Option Tree)) (x : Nat) (tt : Tree), Tree.findL? cs x = some tt →
    OkL leafView nodeView good inv srvs cs → Ok leafView nodeView good inv srvs tt
  | [], _, _, h, _ => by simp [Tree.findL?] at h
  | none :: r, x, tt, h, hc => by
    simp only [Tree.findL?] at h
    simp only [OkL] at hc
    exact okL_find srvs r x tt h hc
  | some t :: r, x, tt, h, hc => by
    simp only [Tree.findL?] at h
    simp only [OkL] at hc
    split at h
    · rename_i y hy
      simp only [Option.some.injEq] at h; subst h
      exact ok_find srvs t x y hy hc.1
    · exact okL_find srvs r x tt h hc.2
end

/-- How the children of a bucket on the path look after the propagation below it: each is an old
    child, unchanged in the parent's eyes or obeying the contract of the message `m1`. -/
def KidsStep (srvs srvs' : List Srv) (m1 : M) (cs cs' : List (Option Tree)) : Prop :=
  ∀ tc, some tc ∈ cs' → ∃ tc0, some tc0 ∈ cs ∧
    (view leafView nodeView srvs' tc = view leafView nodeView srvs tc0 ∨
     msgIn m1 (view leafView nodeView srvs tc0) (view leafView nodeView srvs' tc))

/-! ### structural changes: cursors, attach, detach -/

section Structural
variable (srvs : List Srv)

/-- Membership in the cursor-free children. -/
theorem mem_skelL : ∀ (cs : List (Option Tree)) (t : Tree), some t ∈ Tree.skelL cs → ∃ t0, some t0 ∈ cs ∧ t = t0.skel
  | [], _, h => by simp [Tree.skelL] at h
  | none :: r, t, h => by
    simp only [Tree.skelL] at h
    rcases List.mem_cons.mp h with e | h'
    · cases e
    · obtain ⟨t0, h0, e0⟩ := mem_skelL r t h'
      exact ⟨t0, List.mem_cons_of_mem _ h0, e0⟩
  | some t1 :: r, t, h => by
    simp only [Tree.skelL] at h
    rcases List.mem_cons.mp h with e | h'
    · simp only [Option.some.injEq] at e
      exact ⟨t1, List.mem_cons_self, e⟩
    · obtain ⟨t0, h0, e0⟩ := mem_skelL r t h'
      exact ⟨t0, List.mem_cons_of_mem _ h0, e0⟩

theorem mem_skelL' : ∀ (cs : List (Option Tree)) (t0 : Tree), some t0 ∈ cs → some t0.skel ∈ Tree.skelL cs
  | [], _, h => by cases h
  | none :: r, t0, h => by
    simp only [Tree.skelL]
    rcases List.mem_cons.mp h with e | h'
    · cases e
    · exact List.mem_cons_of_mem _ (mem_skelL' r t0 h')
  | some t1 :: r, t0, h => by
    simp only [Tree.skelL]
    rcases List.mem_cons.mp h with e | h'
    · simp only [Option.some.injEq] at e; subst e; exact List.mem_cons_self
    · exact List.mem_cons_of_mem _ (mem_skelL' r t0 h')

theorem view_skel (hncView : ∀ b, nodeView b.noCur = nodeView b) (t : Tree) :
    view leafView nodeView srvs t.skel = view leafView nodeView srvs t := by
  cases t with
  | leaf s => simp [Tree.skel, view]
  | node b cs => simp only [Tree.skel, view]; exact hncView b

variable (hncView : ∀ b, nodeView b.noCur = nodeView b)
variable (hncGood : ∀ b v, good b.noCur v ↔ good b v) (hncInv : ∀ b, inv b.noCur ↔ inv b)
include hncView hncGood hncInv

mutual
theorem ok_skel : ∀ (t : Tree), Ok leafView nodeView good inv srvs t.skel ↔ Ok leafView nodeView good inv srvs t
  | .leaf _ => by simp [Tree.skel, Ok]
  | .node b cs => by
    simp only [Tree.skel, Ok]
    rw [hncInv b, okL_skel cs]
    constructor
    · rintro ⟨h1, h2, h3⟩
      refine ⟨h1, ?_, h3⟩
      intro t ht
      have := h2 t.skel (mem_skelL' cs t ht)
      rw [view_skel leafView nodeView srvs hncView] at this
      exact (hncGood b _).mp this
    · rintro ⟨h1, h2, h3⟩
      refine ⟨h1, ?_, h3⟩
      intro t ht
      obtain ⟨t0, h0, e0⟩ := mem_skelL cs t ht
      rw [e0, view_skel leafView nodeView srvs hncView]
      exact (hncGood b _).mpr (h2 t0 h0)
theorem okL_skel : ∀ (cs : List (Option Tree)),
    OkL leafView nodeView good inv srvs (Tree.skelL cs) ↔ OkL leafView nodeView good inv srvs cs
  | [] => by simp [Tree.skelL, OkL]
  | none :: r => by simp only [Tree.skelL, OkL]; exact okL_skel r
  | some t :: r => by simp only [Tree.skelL, OkL]; rw [ok_skel t, okL_skel r]
end

/-- Trees with the same skeleton satisfy `Ok` together. -/
theorem ok_of_skel {t t' : Tree} (h : t'.skel = t.skel) (hc : Ok leafView nodeView good inv srvs t) :
    Ok leafView nodeView good inv srvs t' := by
  rw [← ok_skel leafView nodeView good inv srvs hncView hncGood hncInv, h,
    ok_skel leafView nodeView good inv srvs hncView hncGood hncInv]
  exact hc
end Structural

section AttachDetach
variable (srvs : List Srv)

theorem okL_append : ∀ (a b : List (Option Tree)),
    OkL leafView nodeView good inv srvs (a ++ b) ↔
      OkL leafView nodeView good inv srvs a ∧ OkL leafView nodeView good inv srvs b
  | [], b => by simp [OkL]
  | none :: r, b => by simp only [List.cons_append, OkL]; exact okL_append r b
  | some t :: r, b => by simp only [List.cons_append, OkL]; rw [okL_append r b, and_assoc]

mutual
/-- Attaching a subtree that is itself fine and that its new parent already covers. -/
theorem attach_ok (child : Tree) (hchild : Ok leafView nodeView good inv srvs child) :
    ∀ (t : Tree) (pid : Nat) (t' : Tree), Tree.attach child t pid = some t' →
    (∀ b cs, t.find? pid = some (.node b cs) → good b (view leafView nodeView srvs child)) →
    t.names.Nodup → Ok leafView nodeView good inv srvs t → Ok leafView nodeView good inv srvs t'
  | .leaf _, _, _, h, _, _, _ => by simp [Tree.attach] at h
  | .node b cs, pid, t', h, hcov, hnd, hc => by
    simp only [Tree.names, List.nodup_cons] at hnd
    simp only [Ok] at hc
    simp only [Tree.attach] at h
    split at h
    · rename_i hb
      simp only [Option.some.injEq] at h
      subst h
      simp only [Ok]
      refine ⟨hc.1, ?_, ?_⟩
      · intro tc htc
        rcases List.mem_append.mp htc with h1 | h1
        · exact hc.2.1 tc h1
        · simp only [List.mem_singleton, Option.some.injEq] at h1
          subst h1
          exact hcov b cs (by simp [Tree.find?, hb])
      · rw [okL_append]; exact ⟨hc.2.2, by simp only [OkL]; exact ⟨hchild, trivial⟩⟩
    · rename_i hb
      split at h
      · cases h
      · rename_i cs' heq
        simp only [Option.some.injEq] at h
        subst h
        have hfind : Tree.find? (.node b cs) pid = Tree.findL? cs pid := by simp [Tree.find?, hb]
        obtain ⟨h1, h2⟩ := attachL_ok child hchild cs pid cs' heq
          (fun b0 cs0 h0 => hcov b0 cs0 (by rw [hfind]; exact h0)) hnd.2 hc.2.2
        simp only [Ok]
        refine ⟨hc.1, ?_, h1⟩
        intro tc htc
        obtain ⟨tc0, htc0, e⟩ := h2 tc htc
        rw [e]; exact hc.2.1 tc0 htc0
theorem attachL_ok (child : Tree) (hchild : Ok leafView nodeView good inv srvs child) :
    ∀ (cs : List (Option Tree)) (pid : Nat) (cs' : List (Option Tree)), Tree.attachL child cs pid = some cs' →
    (∀ b cs0, Tree.findL? cs pid = some (.node b cs0) → good b (view leafView nodeView srvs child)) →
    (Tree.namesL cs).Nodup → OkL leafView nodeView good inv srvs cs →
    OkL leafView nodeView good inv srvs cs' ∧
      ∀ tc, some tc ∈ cs' → ∃ tc0, some tc0 ∈ cs ∧
        view leafView nodeView srvs tc = view leafView nodeView srvs tc0
  | [], _, _, h, _, _, _ => by simp [Tree.attachL] at h
  | none :: r, pid, cs', h, hcov, hnd, hc => by
    simp only [Tree.namesL] at hnd
    simp only [OkL] at hc
    simp only [Tree.findL?] at hcov
    simp only [Tree.attachL, Option.map_eq_some_iff] at h
    obtain ⟨r', hr, rfl⟩ := h
    obtain ⟨h1, h2⟩ := attachL_ok child hchild r pid r' hr hcov hnd hc
    refine ⟨by simp only [OkL]; exact h1, ?_⟩
    intro tc htc
    rcases List.mem_cons.mp htc with e | htc'
    · cases e
    · obtain ⟨tc0, h3, h4⟩ := h2 tc htc'
      exact ⟨tc0, List.mem_cons_of_mem _ h3, h4⟩
  | some t :: r, pid, cs', h, hcov, hnd, hc => by
    simp only [Tree.namesL] at hnd
    have hnd' := List.nodup_append.mp hnd
    simp only [OkL] at hc
    simp only [Tree.attachL] at h
    split at h
    · rename_i t1 heq
      simp only [Option.some.injEq] at h
      subst h
      have hfind : ∀ tt, t.find? pid = some tt → Tree.findL? (some t :: r) pid = some tt := by
        intro tt htt; simp [Tree.findL?, htt]
      have h1 := attach_ok child hchild t pid t1 heq (fun b0 cs0 h0 => hcov b0 cs0 (hfind _ h0)) hnd'.1 hc.1
      refine ⟨by simp only [OkL]; exact ⟨h1, hc.2⟩, ?_⟩
      intro tc htc
      rcases List.mem_cons.mp htc with e | htc'
      · simp only [Option.some.injEq] at e; subst e
        refine ⟨t, List.mem_cons_self, ?_⟩
        -- attaching below keeps the root bucket
        cases t with
        | leaf s => simp [Tree.attach] at heq
        | node b cs =>
          simp only [Tree.attach] at heq
          split at heq
          · simp only [Option.some.injEq] at heq; subst heq; rfl
          · split at heq
            · cases heq
            · simp only [Option.some.injEq] at heq; subst heq; rfl
      · exact ⟨tc, List.mem_cons_of_mem _ htc', rfl⟩
    · rename_i hnone
      simp only [Option.map_eq_some_iff] at h
      obtain ⟨r', hr, rfl⟩ := h
      -- pid is not a bucket of t
      have hfn : ∀ b0 cs0, Tree.findL? (some t :: r) pid = some (.node b0 cs0) → Tree.findL? r pid = some (.node b0 cs0) := by
        intro b0 cs0 h0
        simp only [Tree.findL?] at h0
        split at h0
        · rename_i x hx
          simp only [Option.some.injEq] at h0
          subst h0
          exact absurd hnone (attach_some_of_find child t pid b0 cs0 hx)
        · exact h0
      obtain ⟨h1, h2⟩ := attachL_ok child hchild r pid r' hr
        (fun b0 cs0 h0 => hcov b0 cs0 (by
          simp only [Tree.findL?]
          split
          · rename_i x hx
            exfalso
            -- pid names something in t, and a bucket in r: names are unique
            have h1' : pid ∈ t.names := find?_mem t pid x hx
            have h2' : pid ∈ Tree.namesL r := findL?_mem r pid _ h0
            exact hnd'.2.2 _ h1' _ h2' rfl
          · exact h0)) hnd'.2.1 hc.2
      refine ⟨by simp only [OkL]; exact ⟨hc.1, h1⟩, ?_⟩
      intro tc htc
      rcases List.mem_cons.mp htc with e | htc'
      · simp only [Option.some.injEq] at e; subst e
        exact ⟨tc, List.mem_cons_self, rfl⟩
      · obtain ⟨tc0, h3, h4⟩ := h2 tc htc'
        exact ⟨tc0, List.mem_cons_of_mem _ h3, h4⟩
end
theorem detachHere_ok : ∀ (cs : List (Option Tree)) (cid : Nat) (cs' : List (Option Tree)) (sub : Tree),
    Tree.detachHere cs cid = some (cs', sub) → OkL leafView nodeView good inv srvs cs →
    OkL leafView nodeView good inv srvs cs' ∧ ∀ tc, some tc ∈ cs' → some tc ∈ cs
  | [], _, _, _, h, _ => by simp [Tree.detachHere] at h
  | none :: r, cid, cs', sub, h, hc => by
    simp only [OkL] at hc
    simp only [Tree.detachHere] at h
    split at h
    · cases h
    · rename_i r' sub' heq
      simp only [Option.some.injEq, Prod.mk.injEq] at h
      obtain ⟨rfl, rfl⟩ := h
      obtain ⟨h1, h2⟩ := detachHere_ok r cid r' sub' heq hc
      refine ⟨by simp only [OkL]; exact h1, ?_⟩
      intro tc htc
      rcases List.mem_cons.mp htc with e | htc'
      · cases e
      · exact List.mem_cons_of_mem _ (h2 tc htc')
  | some t :: r, cid, cs', sub, h, hc => by
    simp only [OkL] at hc
    simp only [Tree.detachHere] at h
    split at h
    · simp only [Option.some.injEq, Prod.mk.injEq] at h
      obtain ⟨rfl, rfl⟩ := h
      refine ⟨by simp only [OkL]; exact hc.2, ?_⟩
      intro tc htc
      rcases List.mem_cons.mp htc with e | htc'
      · cases e
      · exact List.mem_cons_of_mem _ htc'
    · split at h
      · cases h
      · rename_i r' sub' heq
        simp only [Option.some.injEq, Prod.mk.injEq] at h
        obtain ⟨rfl, rfl⟩ := h
        obtain ⟨h1, h2⟩ := detachHere_ok r cid r' sub' heq hc.2
        refine ⟨by simp only [OkL]; exact ⟨hc.1, h1⟩, ?_⟩
        intro tc htc
        rcases List.mem_cons.mp htc with e | htc'
        · rw [e]; exact List.mem_cons_self
        · exact List.mem_cons_of_mem _ (h2 tc htc')

mutual
/-- Removing a child keeps every cover. -/
theorem detach_ok : ∀ (t : Tree) (cid : Nat) (t' : Tree) (pid : Nat) (sub : Tree),
    t.detach cid = some (t', pid, sub) → Ok leafView nodeView good inv srvs t →
    Ok leafView nodeView good inv srvs t' ∧ view leafView nodeView srvs t' = view leafView nodeView srvs t
  | .leaf _, _, _, _, _, h, _ => by simp [Tree.detach] at h
  | .node b cs, cid, t', pid, sub, h, hc => by
    simp only [Ok] at hc
    simp only [Tree.detach] at h
    split at h
    · rename_i cs' sub' heq
      simp only [Option.some.injEq, Prod.mk.injEq] at h
      obtain ⟨rfl, rfl, rfl⟩ := h
      obtain ⟨h1, h2⟩ := detachHere_ok leafView nodeView good inv srvs cs cid cs' sub' heq hc.2.2
      exact ⟨by simp only [Ok]; exact ⟨hc.1, fun tc htc => hc.2.1 tc (h2 tc htc), h1⟩, rfl⟩
    · split at h
      · cases h
      · rename_i cs' pid' sub' heq
        simp only [Option.some.injEq, Prod.mk.injEq] at h
        obtain ⟨rfl, rfl, rfl⟩ := h
        obtain ⟨h1, h2⟩ := detachL_ok cs cid cs' pid' sub' heq hc.2.2
        have hk : KidsOk leafView nodeView good srvs b cs' := by
          intro tc htc
          obtain ⟨tc0, h3, h4⟩ := h2 tc htc
          rw [h4]; exact hc.2.1 tc0 h3
        exact ⟨by simp only [Ok]; exact ⟨hc.1, hk, h1⟩, rfl⟩
theorem detachL_ok : ∀ (cs : List (Option Tree)) (cid : Nat) (cs' : List (Option Tree)) (pid : Nat) (sub : Tree),
    Tree.detachL cs cid = some (cs', pid, sub) → OkL leafView nodeView good inv srvs cs →
    OkL leafView nodeView good inv srvs cs' ∧ ∀ tc, some tc ∈ cs' → ∃ tc0, some tc0 ∈ cs ∧
      view leafView nodeView srvs tc = view leafView nodeView srvs tc0
  | [], _, _, _, _, h, _ => by simp [Tree.detachL] at h
  | none :: r, cid, cs', pid, sub, h, hc => by
    simp only [OkL] at hc
    simp only [Tree.detachL] at h
    split at h
    · cases h
    · rename_i r' pid' sub' heq
      simp only [Option.some.injEq, Prod.mk.injEq] at h
      obtain ⟨rfl, rfl, rfl⟩ := h
      obtain ⟨h1, h2⟩ := detachL_ok r cid r' pid' sub' heq hc
      refine ⟨by simp only [OkL]; exact h1, ?_⟩
      intro tc htc
      rcases List.mem_cons.mp htc with e | htc'
      · cases e
      · obtain ⟨tc0, h3, h4⟩ := h2 tc htc'
        exact ⟨tc0, List.mem_cons_of_mem _ h3, h4⟩
  | some t :: r, cid, cs', pid, sub, h, hc => by
    simp only [OkL] at hc
    simp only [Tree.detachL] at h
    split at h
    · rename_i t1 pid' sub' heq
      simp only [Option.some.injEq, Prod.mk.injEq] at h
      obtain ⟨rfl, rfl, rfl⟩ := h
      obtain ⟨h1, hv⟩ := detach_ok t cid t1 pid' sub' heq hc.1
      refine ⟨by simp only [OkL]; exact ⟨h1, hc.2⟩, ?_⟩
      intro tc htc
      rcases List.mem_cons.mp htc with e | htc'
      · simp only [Option.some.injEq] at e; subst e
        exact ⟨t, List.mem_cons_self, hv⟩
      · exact ⟨tc, List.mem_cons_of_mem _ htc', rfl⟩
    · split at h
      · cases h
      · rename_i r' pid' sub' heq
        simp only [Option.some.injEq, Prod.mk.injEq] at h
        obtain ⟨rfl, rfl, rfl⟩ := h
        obtain ⟨h1, h2⟩ := detachL_ok r cid r' pid' sub' heq hc.2
        refine ⟨by simp only [OkL]; exact ⟨hc.1, h1⟩, ?_⟩
        intro tc htc
        rcases List.mem_cons.mp htc with e | htc'
        · simp only [Option.some.injEq] at e; subst e
          exact ⟨tc, List.mem_cons_self, rfl⟩
        · obtain ⟨tc0, h3, h4⟩ := h2 tc htc'
          exact ⟨tc0, List.mem_cons_of_mem _ h3, h4⟩
end
end AttachDetach

variable (step : Bkt → List (Option Tree) → M → Bkt × M) (srvs srvs' : List Srv) (incl : Bool)
-- The per-bucket step re-establishes cover and invariant and emits a message obeying the contract.
variable (pre : Bkt → List (Option Tree) → M → Prop)
variable (hid : ∀ (b : Bkt) (cs : List (Option Tree)) (m : M), (step b cs m).1.id = b.id)
-- `onPath`: the bucket is a strict ancestor of the target (one child changed and obeys the contract);
-- otherwise it is the target itself of an `incl` propagation and `pre` holds.
variable (hstep : ∀ (b : Bkt) (cs : List (Option Tree)) (m : M) (onPath : Bool), inv b →
    (b.id :: Tree.namesL cs).Nodup → (onPath = false → pre b cs m) →
    (onPath = true → ∃ t, some t ∈ cs ∧ ∃ ov, good b ov ∧ msgIn m ov (view leafView nodeView srvs' t)) →
    (∀ t, some t ∈ cs → good b (view leafView nodeView srvs' t) ∨
      ∃ ov, good b ov ∧ msgIn m ov (view leafView nodeView srvs' t)) →
    inv (step b cs m).1 ∧ KidsOk leafView nodeView good srvs' (step b cs m).1 cs ∧
    msgIn (step b cs m).2 (nodeView b) (nodeView (step b cs m).1))
include hstep hid

mutual
theorem bubble_ok : ∀ (t : Tree) (target : Nat) (m : M) (t' : Tree) (m' : M),
    t.names.Nodup → t.bubble step incl target m = some (t', m') → Ok leafView nodeView good inv srvs t →
    (∀ k ∈ t.leaves, k ≠ target → SameRec leafView srvs srvs' k) →
    (incl = false → ∀ tt, t.find? target = some tt →
      msgIn m (view leafView nodeView srvs tt) (view leafView nodeView srvs' tt)) →
    (incl = true → (∀ k ∈ t.leaves, SameRec leafView srvs srvs' k) ∧ (∀ s, t.find? target ≠ some (.leaf s)) ∧
      ∀ b cs, t.find? target = some (.node b cs) → pre b cs m) →
    Ok leafView nodeView good inv srvs' t' ∧
      msgIn m' (view leafView nodeView srvs t) (view leafView nodeView srvs' t')
  | .leaf s, target, m, t', m', _, h, _, _, hcon, hincl => by
    simp only [Tree.bubble] at h
    split at h
    · rename_i e
      simp only [Option.some.injEq, Prod.mk.injEq] at h
      obtain ⟨rfl, rfl⟩ := h
      refine ⟨by simp only [Ok], ?_⟩
      cases incl with
      | false => exact hcon rfl _ (by simp [Tree.find?, e])
      | true => exact absurd (by simp [Tree.find?, e]) ((hincl rfl).2.1 s)
    · cases h
  | .node b cs, target, m, t', m', hnd0, h, hc, hag, hcon, hincl => by
    have hnd := hnd0
    simp only [Tree.names, List.nodup_cons] at hnd
    simp only [Ok] at hc
    obtain ⟨hnn, hkids, hcl⟩ := hc
    simp only [Tree.leaves] at hag hincl
    simp only [Tree.bubble] at h
    split at h
    · rename_i hbt
      have hleafne : ∀ k ∈ Tree.leavesL cs, k ≠ target := by
        intro k hk e
        exact hnd.1 (by rw [hbt, ← e]; exact leavesL_sub_namesL cs k hk)
      split at h
      · rename_i hi
        simp only [Option.some.injEq, Prod.mk.injEq] at h
        obtain ⟨rfl, rfl⟩ := h
        have hsame := (hincl hi).1
        have hk' : KidsOk leafView nodeView good srvs' b cs := kidsOk_congr leafView nodeView good hsame hkids
        obtain ⟨r1, r2, r3⟩ := hstep b cs m false hnn (by simpa [Tree.names] using hnd0)
          (fun _ => (hincl hi).2.2 b cs (by simp [Tree.find?, hbt])) (fun e => by cases e)
          (fun t ht => Or.inl (hk' t ht))
        exact ⟨by simp only [Ok]; exact ⟨r1, r2, okL_congr leafView nodeView good inv cs hsame hcl⟩, r3⟩
      · rename_i hi
        have hi' : incl = false := by cases incl <;> simp_all
        simp only [Option.some.injEq, Prod.mk.injEq] at h
        obtain ⟨rfl, rfl⟩ := h
        have hsame : ∀ k ∈ Tree.leavesL cs, SameRec leafView srvs srvs' k := fun k hk => hag k hk (hleafne k hk)
        refine ⟨by simp only [Ok]; exact ⟨hnn, kidsOk_congr leafView nodeView good hsame hkids,
          okL_congr leafView nodeView good inv cs hsame hcl⟩, ?_⟩
        exact hcon hi' _ (by simp [Tree.find?, hbt])
    · rename_i hbt
      split at h
      · cases h
      · rename_i cs' m1 heq
        simp only [Option.some.injEq, Prod.mk.injEq] at h
        obtain ⟨rfl, rfl⟩ := h
        have hfind : Tree.find? (.node b cs) target = Tree.findL? cs target := by simp [Tree.find?, hbt]
        obtain ⟨hcl', hstp, tcB, tcB0, hB1, hB2, hB3⟩ := bubbleL_ok cs target m cs' m1 hnd.2 heq hcl hag
          (fun hi tt htt => hcon hi tt (by rw [hfind]; exact htt))
          (fun hi => ⟨(hincl hi).1, fun s hs => (hincl hi).2.1 s (by rw [hfind]; exact hs),
            fun b0 cs0 h0 => (hincl hi).2.2 b0 cs0 (by rw [hfind]; exact h0)⟩)
        have hnames : Tree.namesL cs' = Tree.namesL cs := bubbleL_names step incl hid cs target m cs' m1 heq
        obtain ⟨r1, r2, r3⟩ := hstep b cs' m1 true hnn (by rw [hnames]; simpa [Tree.names] using hnd0)
          (fun e => by cases e)
          (fun _ => ⟨tcB, hB1, view leafView nodeView srvs tcB0, hkids tcB0 hB2, hB3⟩) (by
          intro tc htc
          obtain ⟨tc0, htc0, hcase⟩ := hstp tc htc
          rcases hcase with e | e
          · left; rw [e]; exact hkids tc0 htc0
          · right; exact ⟨view leafView nodeView srvs tc0, hkids tc0 htc0, e⟩)
        exact ⟨by simp only [Ok]; exact ⟨r1, r2, hcl'⟩, r3⟩
theorem bubbleL_ok : ∀ (cs : List (Option Tree)) (target : Nat) (m : M) (cs' : List (Option Tree)) (m' : M),
    (Tree.namesL cs).Nodup → Tree.bubbleL step incl cs target m = some (cs', m') →
    OkL leafView nodeView good inv srvs cs →
    (∀ k ∈ Tree.leavesL cs, k ≠ target → SameRec leafView srvs srvs' k) →
    (incl = false → ∀ tt, Tree.findL? cs target = some tt →
      msgIn m (view leafView nodeView srvs tt) (view leafView nodeView srvs' tt)) →
    (incl = true → (∀ k ∈ Tree.leavesL cs, SameRec leafView srvs srvs' k) ∧
      (∀ s, Tree.findL? cs target ≠ some (.leaf s)) ∧
      ∀ b cs0, Tree.findL? cs target = some (.node b cs0) → pre b cs0 m) →
    OkL leafView nodeView good inv srvs' cs' ∧ KidsStep leafView nodeView msgIn srvs srvs' m' cs cs' ∧
      ∃ tc tc0, some tc ∈ cs' ∧ some tc0 ∈ cs ∧
        msgIn m' (view leafView nodeView srvs tc0) (view leafView nodeView srvs' tc)
  | [], _, _, _, _, _, h, _, _, _, _ => by simp [Tree.bubbleL] at h
  | none :: r, target, m, cs', m', hnd, h, hc, hag, hcon, hincl => by
    simp only [Tree.namesL] at hnd
    simp only [OkL] at hc
    simp only [Tree.leavesL] at hag hincl
    simp only [Tree.findL?] at hcon hincl
    simp only [Tree.bubbleL] at h
    split at h
    · cases h
    · rename_i r' m1 heq
      simp only [Option.some.injEq, Prod.mk.injEq] at h
      obtain ⟨rfl, rfl⟩ := h
      obtain ⟨h1, h2, tcB, tcB0, hB1, hB2, hB3⟩ := bubbleL_ok r target m r' m1 hnd heq hc hag hcon hincl
      refine ⟨by simp only [OkL]; exact h1, ?_, tcB, tcB0, List.mem_cons_of_mem _ hB1, List.mem_cons_of_mem _ hB2, hB3⟩
      intro tc htc
      rcases List.mem_cons.mp htc with e | htc
      · cases e
      · obtain ⟨tc0, h3, h4⟩ := h2 tc htc
        exact ⟨tc0, List.mem_cons_of_mem _ h3, h4⟩
  | some t :: r, target, m, cs', m', hnd, h, hc, hag, hcon, hincl => by
    simp only [Tree.namesL] at hnd
    have hnd' := List.nodup_append.mp hnd
    simp only [OkL] at hc
    simp only [Tree.leavesL, List.mem_append] at hag hincl
    simp only [Tree.bubbleL] at h
    -- views of untouched siblings
    have sib_view : ∀ (l : List (Option Tree)), (∀ k ∈ Tree.leavesL l, SameRec leafView srvs srvs' k) →
        ∀ tc, some tc ∈ l → view leafView nodeView srvs' tc = view leafView nodeView srvs tc := by
      intro l hl tc htc
      exact view_congr leafView nodeView tc (fun s e => by subst e; exact hl s (leaf_mem_leavesL l s htc))
    split at h
    · rename_i t1 m1 heq
      simp only [Option.some.injEq, Prod.mk.injEq] at h
      obtain ⟨rfl, rfl⟩ := h
      have htin : target ∈ t.names := bubble_mem _ _ heq
      have hrsame : ∀ k ∈ Tree.leavesL r, SameRec leafView srvs srvs' k := by
        intro k hk
        refine hag k (Or.inr hk) ?_
        intro e
        exact hnd'.2.2 _ htin _ (leavesL_sub_namesL r k hk) e.symm
      have hfind : ∀ tt, t.find? target = some tt → Tree.findL? (some t :: r) target = some tt := by
        intro tt htt; simp [Tree.findL?, htt]
      obtain ⟨h1, h2⟩ := bubble_ok t target m t1 m1 hnd'.1 heq hc.1 (fun k hk => hag k (Or.inl hk))
        (fun hi tt htt => hcon hi tt (hfind tt htt))
        (fun hi => ⟨fun k hk => (hincl hi).1 k (Or.inl hk), fun s hs => (hincl hi).2.1 s (hfind _ hs),
          fun b0 cs0 h0 => (hincl hi).2.2 b0 cs0 (hfind _ h0)⟩)
      refine ⟨by simp only [OkL]; exact ⟨h1, okL_congr leafView nodeView good inv r hrsame hc.2⟩, ?_,
        t1, t, List.mem_cons_self, List.mem_cons_self, h2⟩
      intro tc htc
      rcases List.mem_cons.mp htc with e | htc
      · simp only [Option.some.injEq] at e; subst e
        exact ⟨t, List.mem_cons_self, Or.inr h2⟩
      · exact ⟨tc, List.mem_cons_of_mem _ htc, Or.inl (sib_view r hrsame tc htc)⟩
    · rename_i hnone
      split at h
      · cases h
      · rename_i r' m1 heq
        simp only [Option.some.injEq, Prod.mk.injEq] at h
        obtain ⟨rfl, rfl⟩ := h
        have htnot : target ∉ t.names := bubble_none _ _ hnone
        have hfn : t.find? target = none := find?_none t target htnot
        have hfind : Tree.findL? (some t :: r) target = Tree.findL? r target := by simp [Tree.findL?, hfn]
        have htsame : ∀ k ∈ t.leaves, SameRec leafView srvs srvs' k := by
          intro k hk
          refine hag k (Or.inl hk) ?_
          intro e; exact htnot (e ▸ leaves_sub_names t k hk)
        obtain ⟨h1, h2, tcB, tcB0, hB1, hB2, hB3⟩ := bubbleL_ok r target m r' m1 hnd'.2.1 heq hc.2 (fun k hk => hag k (Or.inr hk))
          (fun hi tt htt => hcon hi tt (by rw [hfind]; exact htt))
          (fun hi => ⟨fun k hk => (hincl hi).1 k (Or.inr hk), fun s hs => (hincl hi).2.1 s (by rw [hfind]; exact hs),
            fun b0 cs0 h0 => (hincl hi).2.2 b0 cs0 (by rw [hfind]; exact h0)⟩)
        refine ⟨by simp only [OkL]; exact ⟨ok_congr leafView nodeView good inv t htsame hc.1, h1⟩, ?_,
          tcB, tcB0, List.mem_cons_of_mem _ hB1, List.mem_cons_of_mem _ hB2, hB3⟩
        intro tc htc
        rcases List.mem_cons.mp htc with e | htc
        · simp only [Option.some.injEq] at e; subst e
          refine ⟨tc, List.mem_cons_self, Or.inl ?_⟩
          exact view_congr leafView nodeView tc (fun s e => by subst e; exact htsame s (by simp [Tree.leaves]))
        · obtain ⟨tc0, h3, h4⟩ := h2 tc htc
          exact ⟨tc0, List.mem_cons_of_mem _ h3, h4⟩
end

end
end Agg

end TmVerif.Sched
