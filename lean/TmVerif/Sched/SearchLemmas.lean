/-
  `Bucket.put` search: a server it returns is up and passed the `Server.put` checks.
-/
import TmVerif.Sched.Reach

namespace TmVerif.Sched

theorem walk_found (res : List (Option (Tree × Option Nat))) (first : Nat) :
    ∀ (fuel : Nat) (cs : List (Option Tree)) (idx cur : Nat) (isFirst : Bool) (sid : Nat),
      (walk res first fuel cs idx cur isFirst).2.2 = some sid →
      ∃ (i : Nat) (t' : Tree), res[i]? = some (some (t', some sid)) := by
  intro fuel
  induction fuel with
  | zero => intro cs idx cur isFirst sid h; simp [walk] at h
  | succ n ih =>
    intro cs idx cur isFirst sid h
    simp only [walk] at h
    split at h
    · simp at h
    · split at h
      · rename_i t' s0 heq
        simp only [Option.some.injEq] at h
        subst h
        exact ⟨cur, t', heq⟩
      · split at h
        · exact ih _ _ _ _ _ h
        · simp at h
      · split at h
        · exact ih _ _ _ _ _ h
        · simp at h

theorem searchL_get (ctx : PutCtx) (anc : List Bkt) :
    ∀ (cs : List (Option Tree)) (i : Nat) (r : Tree × Option Nat),
      (searchL ctx anc cs)[i]? = some (some r) → ∃ t, cs[i]? = some (some t) ∧ r = search ctx anc t := by
  intro cs
  induction cs with
  | nil => intro i r h; simp [searchL] at h
  | cons c rest ih =>
    intro i r h
    cases c with
    | none =>
      simp only [searchL] at h
      cases i with
      | zero => simp at h
      | succ j =>
        simp only [List.getElem?_cons_succ] at h ⊢
        exact ih j r h
    | some t =>
      simp only [searchL] at h
      cases i with
      | zero =>
        simp only [List.getElem?_cons_zero, Option.some.injEq] at h ⊢
        exact ⟨t, rfl, h.symm⟩
      | succ j =>
        simp only [List.getElem?_cons_succ] at h ⊢
        exact ih j r h

/-- Size of a tree (for well-founded induction on children found by index). -/
theorem sizeOf_child_lt (b : Bkt) (cs : List (Option Tree)) (i : Nat) (t : Tree) (h : cs[i]? = some (some t)) :
    sizeOf t < sizeOf (Tree.node b cs) := by
  have hm : some t ∈ cs := List.mem_of_getElem? h
  have h1 : sizeOf (some t) < sizeOf cs := List.sizeOf_lt_of_mem hm
  have h2 : sizeOf t < sizeOf (some t) := by simp
  have h3 : sizeOf cs < sizeOf (Tree.node b cs) := by simp; omega
  omega

/-- A server returned by the search is in the server table, up, and passed `srvCheck` (for the
    ancestors collected on the way down). -/
theorem search_found (ctx : PutCtx) : ∀ (t : Tree) (anc : List Bkt) (sid : Nat),
    (search ctx anc t).2 = some sid →
    ∃ s anc', ctx.srvs.find? (fun s => s.id = sid) = some s ∧ s.state = .up ∧ srvCheck ctx s anc' = true := by
  intro t
  induction t using WellFounded.induction (measure (fun t : Tree => sizeOf t)).wf with
  | _ t ih =>
    intro anc sid h
    cases t with
    | leaf l =>
      simp only [search] at h
      split at h
      · rename_i s hs
        simp only at h
        split at h
        · rename_i hc
          simp only [Option.some.injEq] at h
          subst h
          simp only [Bool.and_eq_true, decide_eq_true_eq] at hc
          exact ⟨s, anc, hs, hc.1, hc.2⟩
        · cases h
      · simp at h
    | node b cs =>
      simp only [search] at h
      split at h
      · simp at h
      · split at h
        · simp at h
        · rename_i f idx hsug
          simp only at h
          obtain ⟨i, t', hres⟩ := walk_found _ _ _ _ _ _ _ _ h
          obtain ⟨tc, htc, hr⟩ := searchL_get ctx (anc ++ [b]) cs i (t', some sid) hres
          have hlt := sizeOf_child_lt b cs i tc htc
          have : (search ctx (anc ++ [b]) tc).2 = some sid := by rw [← hr]
          exact ih tc hlt (anc ++ [b]) sid this

end TmVerif.Sched
