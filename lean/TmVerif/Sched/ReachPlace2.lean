/-
  `_find_placements`: what processing one queue entry may do (`PlaceOk`), and the labelled
  chains of the placement loop and of `Cell.schedule`.
-/
import TmVerif.Sched.ReachPlace
import TmVerif.Sched.SearchLemmas

namespace TmVerif.Sched

/-- What may happen while the queue entry of app `a0` (its record when its turn starts) is
    processed; `unpl` = its rank is `_UNPLACED_RANK`; `after` = the apps behind it in the queue. -/
def PlaceOk (a0 : App) (unpl : Bool) (after : List Nat) (c : Cell) : Lab → Prop
  | .put a sid l0 _ => a = a0.id ∧ a0.blacklisted = false ∧ unpl = false ∧
      (l0 = false → ∃ s, c.srv? sid = some s ∧ s.state = .up) ∧
      (l0 = true → (∃ x e, c.app? a = some x ∧ x.evFrom = some (sid, e)) ∨
                   (a0.renew = true ∧ a0.server = some sid))
  | .remove sid a =>
      (a = a0.id ∧ a0.blacklisted = false ∧ a0.server = some sid ∧
        (unpl = true ∨ (a0.renew = true ∧ ∃ s, c.srv? sid = some s ∧ lifetimeOk (c.putCtx a0) s = false))) ∨
      (a ≠ a0.id ∧ a ∈ after ∧ a0.blacklisted = false ∧ unpl = false ∧
        ∃ x s, c.app? a = some x ∧ x.evFrom = some (sid, x.expiry) ∧ x.server = some sid ∧
          c.srv? sid = some s ∧ s.state = .up)
  | .release a => a = a0.id ∧ a0.blacklisted = false ∧ ∃ x, c.app? a = some x ∧ x.server = none
  | .acquire a _ => a = a0.id ∧ a0.blacklisted = false ∧ unpl = false ∧ ∃ x, c.app? a = some x ∧ x.server = none
  | .appMeta a => a = a0.id ∧ a0.blacklisted = false ∧ unpl = false
  | .setRenew a b => a = a0.id ∧ a0.blacklisted = false ∧ unpl = false ∧ (b = true → a0.renew = true)
  | .ghost a v => a ≠ a0.id ∧ a ∈ after ∧ a0.blacklisted = false ∧ unpl = false ∧
      ∃ x sid s, c.app? a = some x ∧ x.server = some sid ∧ c.srv? sid = some s ∧ s.state = .up ∧
        v = some (sid, x.expiry)
  | .tree => True
  | _ => False

theorem PlaceOk.mono_after {a0 : App} {unpl : Bool} {l1 l2 : List Nat} (hsub : ∀ x ∈ l1, x ∈ l2)
    (c : Cell) (lab : Lab) (h : PlaceOk a0 unpl l1 c lab) : PlaceOk a0 unpl l2 c lab := by
  cases lab <;> simp only [PlaceOk] at h ⊢ <;> try exact h
  · rcases h with h | ⟨h1, h2, h3⟩
    · exact Or.inl h
    · exact Or.inr ⟨h1, hsub _ h2, h3⟩
  · exact ⟨h.1, hsub _ h.2.1, h.2.2⟩

/-- Labels that cannot change any identity. -/
def NoIdLab : Lab → Prop
  | .put _ _ _ _ => True
  | .remove _ _ => True
  | .ghost _ _ => True
  | .tree => True
  | _ => False

theorem unplacedBranch_lreach {c c' : Cell} {a : App} {after : List Nat} (ha : c.app? a.id = some a)
    (hbl : a.blacklisted = false) (h : unplacedBranch c a = .ok c') : LReach (PlaceOk a true after) c c' := by
  simp only [unplacedBranch] at h
  split at h
  · rename_i sid hsv
    split at h
    · simp only [throw_bind, throw_ne_ok] at h
    · split at h
      · simp only [throw_bind, throw_ne_ok] at h
      · simp only [bind_ok] at h
        obtain ⟨c1, h1, h2⟩ := h
        obtain ⟨a1, _, ha1⟩ := serverRemove_app_self h1
        exact (LReach.single (.remove h1) (Or.inl ⟨rfl, hbl, hsv, Or.inl rfl⟩)).step (.release h2)
          ⟨rfl, hbl, _, ha1, rfl⟩
  · rename_i hsv
    simp only [bind_ok, pure_ok] at h
    obtain ⟨c1, rfl, h2⟩ := h
    exact LReach.single (.release h2) ⟨rfl, hbl, a, ha, hsv⟩

/-- `serverRenew` either extends the expiry or changes nothing. -/
theorem serverRenew_fail {c c' : Cell} {aid sid : Nat} (h : serverRenew c aid sid = .ok (c', false)) :
    c' = c ∧ ∃ a s, c.app? aid = some a ∧ c.srv? sid = some s ∧ lifetimeOk (c.putCtx a) s = false := by
  simp only [serverRenew, bind_ok, orAbort_ok] at h
  obtain ⟨a, ha, s, hs, h⟩ := h
  split at h
  · simp only [pure_ok, Prod.mk.injEq] at h; obtain ⟨_, hb⟩ := h; cases hb
  · rename_i hl
    simp only [pure_ok, Prod.mk.injEq] at h
    exact ⟨h.1.symm, a, s, ha, hs, by simpa using hl⟩

theorem renewStep_lreach {c c' : Cell} {a : App} {r} {after : List Nat} (ha : c.app? a.id = some a)
    (hbl : a.blacklisted = false) (h : renewStep c a = .ok (c', r)) :
    LReach (PlaceOk a false after) c c' ∧
    (∀ sid e, r = some (sid, e) → a.renew = true ∧ a.server = some sid ∧ e = a.expiry) := by
  simp only [renewStep] at h
  split at h
  · rename_i hrn
    simp only [bind_ok, orAbort_ok] at h
    obtain ⟨sid, hsid, h⟩ := h
    split at h
    · simp only [throw_ne_ok] at h
    · split at h
      · simp only [throw_ne_ok] at h
      · simp only [bind_ok] at h
        obtain ⟨⟨c1, ok⟩, hr, h⟩ := h
        have r1 : LReach (PlaceOk a false after) c c1 :=
          (serverRenew_lreach hr).mono (fun _ l hl => by subst hl; exact ⟨rfl, hbl, rfl⟩)
        split at h
        · simp only [pure_ok, Prod.mk.injEq] at h
          obtain ⟨rfl, rfl⟩ := h
          exact ⟨r1, by intro _ _ e; cases e⟩
        · rename_i hok
          have hok' : ok = false := by simpa using hok
          subst hok'
          simp only [bind_ok, pure_ok, Prod.mk.injEq] at h
          obtain ⟨c2, h2, rfl, rfl⟩ := h
          obtain ⟨rfl, a1, s, ha1, hs, hl⟩ := serverRenew_fail hr
          rw [ha] at ha1; cases ha1
          refine ⟨r1.step (.remove h2) (Or.inl ⟨rfl, hbl, hsid, Or.inr ⟨hrn, s, hs, hl⟩⟩), ?_⟩
          intro sid' e' he
          simp only [Option.some.injEq, Prod.mk.injEq] at he
          exact ⟨hrn, by rw [← he.1]; exact hsid, he.2.symm⟩
  · simp only [pure_ok, Prod.mk.injEq] at h
    obtain ⟨rfl, rfl⟩ := h
    exact ⟨.refl, by intro _ _ e; cases e⟩

theorem restoreEvicted_lreach {c c' : Cell} {a0 : App} {aid : Nat} {b : Bool} {after : List Nat}
    (hid : a0.id = aid) (hbl : a0.blacklisted = false) (h : restoreEvicted c aid = .ok (c', b)) :
    LReach (PlaceOk a0 false after) c c' := by
  simp only [restoreEvicted, bind_ok, orAbort_ok] at h
  obtain ⟨a2, ha2, h⟩ := h
  split at h
  · rename_i from_ exp hev
    split at h
    · simp only [throw_ne_ok] at h
    · simp only [bind_ok, orAbort_ok] at h
      obtain ⟨⟨c3, rc⟩, hr, a3, ha3, h⟩ := h
      have r2 : LReach (PlaceOk a0 false after) c c3 :=
        serverRestore_lreachP hr ⟨hid.symm, hbl, rfl, (by intro e; cases e), fun _ => Or.inl ⟨a2, exp, ha2, hev⟩⟩
          (fun _ => ⟨hid.symm, hbl, rfl⟩)
      cases rc with
      | true =>
        simp only [↓reduceIte, pure_ok, Prod.mk.injEq] at h
        obtain ⟨rfl, _⟩ := h
        exact r2.step (setMeta_lprim ha3 rfl rfl rfl rfl rfl rfl rfl rfl rfl rfl rfl rfl rfl rfl rfl rfl (Or.inr rfl)) ⟨hid.symm, hbl, rfl⟩
      | false =>
        simp only [Bool.false_eq_true, ↓reduceIte, pure_ok, Prod.mk.injEq] at h
        obtain ⟨rfl, _⟩ := h
        exact r2.step (setMeta_lprim ha3 rfl rfl rfl rfl rfl rfl rfl rfl rfl rfl rfl rfl rfl rfl rfl rfl (Or.inr rfl)) ⟨hid.symm, hbl, rfl⟩
  · simp only [pure_ok, Prod.mk.injEq] at h
    obtain ⟨rfl, _⟩ := h; exact .refl

/-- A failed restore leaves the app's `server` field as it was. -/
theorem restoreEvicted_false_server {c c' : Cell} {aid : Nat} (h : restoreEvicted c aid = .ok (c', false)) :
    ∀ a', c'.app? aid = some a' → ∃ a, c.app? aid = some a ∧ a'.server = a.server := by
  simp only [restoreEvicted, bind_ok, orAbort_ok] at h
  obtain ⟨a2, ha2, h⟩ := h
  split at h
  · split at h
    · simp only [throw_ne_ok] at h
    · simp only [bind_ok, orAbort_ok] at h
      obtain ⟨⟨c3, rc⟩, hr, a3, ha3, h⟩ := h
      cases rc with
      | true => simp only [↓reduceIte, pure_ok, Prod.mk.injEq] at h; obtain ⟨_, hb⟩ := h; cases hb
      | false =>
        simp only [Bool.false_eq_true, ↓reduceIte, pure_ok, Prod.mk.injEq] at h
        obtain ⟨rfl, _⟩ := h
        simp only [serverRestore, bind_ok, orAbort_ok, pure_ok] at hr
        obtain ⟨a, ha, ⟨c1, rc1⟩, hput, a1, ha1, hr⟩ := hr
        simp only [Prod.mk.injEq] at hr
        obtain ⟨rfl, rfl⟩ := hr
        rcases serverPut_shape hput with ⟨_, rfl⟩ | ⟨hb, _⟩
        · intro a' ha'
          have ha1' : c1.app? aid = some a1 := ha1
          have h1 : a3.server = a1.server := by
            have h3 := ha3
            rw [app?_setApp, ha1'] at h3
            simp only [Option.map_some, Option.some.injEq] at h3
            rw [← h3]; split <;> rfl
          have h3 : a'.server = a3.server := by
            rw [app?_setApp, ha3] at ha'
            simp only [Option.map_some, Option.some.injEq] at ha'
            rw [← ha']; split <;> rfl
          exact ⟨a1, ha1', by rw [h3, h1]⟩
        · cases hb
  · simp only [pure_ok, Prod.mk.injEq] at h
    obtain ⟨rfl, _⟩ := h
    intro a' ha'; exact ⟨a', ha', rfl⟩

theorem acquire_server {c c' : Cell} {aid : Nat} {ch ch' : List Nat} {b : Bool}
    (h : acquireIdentity c aid ch = .ok (c', b, ch')) :
    ∀ a', c'.app? aid = some a' → ∃ a, c.app? aid = some a ∧ a'.server = a.server := by
  simp only [acquireIdentity, bind_ok, orAbort_ok] at h
  obtain ⟨a, ha, h⟩ := h
  split at h
  · simp only [pure_ok, Prod.mk.injEq] at h
    obtain ⟨rfl, _⟩ := h; intro a' ha'; exact ⟨a', ha', rfl⟩
  · split at h
    · simp only [pure_ok, Prod.mk.injEq] at h
      obtain ⟨rfl, _⟩ := h; intro a' ha'; exact ⟨a', ha', rfl⟩
    · simp only [bind_ok, orAbort_ok] at h
      obtain ⟨grp, _, h⟩ := h
      split at h
      · simp only [pure_ok, Prod.mk.injEq] at h
        obtain ⟨rfl, _⟩ := h; intro a' ha'; exact ⟨a', ha', rfl⟩
      · split at h
        · simp only [throw_ne_ok] at h
        · rename_i k rest
          split at h
          · simp only [throw_bind, throw_ne_ok] at h
          · simp only [pure_ok, Prod.mk.injEq] at h
            obtain ⟨rfl, _⟩ := h
            intro a' ha'
            have hid : a.id = aid := app?_id ha
            have e1 : ({ a with identity := some k } : App).id = aid := hid
            have : (c.setGrp { grp with avail := grp.avail.filter (· ≠ k) }).app? aid = some a := ha
            rw [← e1] at ha'
            rw [app?_setApp_self (a := a) (by rw [e1]; exact this)] at ha'
            cases ha'
            exact ⟨a, ha, rfl⟩

theorem cellPut_lreach2 {c c' : Cell} {a0 : App} {aid : Nat} {b : Bool} {after : List Nat}
    (hid : a0.id = aid) (hbl : a0.blacklisted = false) (h : cellPut c aid = .ok (c', b)) :
    LReach (fun c lab => PlaceOk a0 false after c lab ∧ NoIdLab lab) c c' := by
  simp only [cellPut, bind_ok, orAbort_ok] at h
  obtain ⟨a, ha, h⟩ := h
  split at h
  · simp only [pure_ok, Prod.mk.injEq] at h
    obtain ⟨rfl, _⟩ := h
    exact LReach.single (.tree (search_skel _ _ _) (search_curOk _ _ _)) ⟨trivial, trivial⟩
  · rename_i sid hfound
    simp only [bind_ok] at h
    obtain ⟨⟨c2, rc⟩, hput, h⟩ := h
    split at h
    · simp only [throw_bind, throw_ne_ok] at h
    · simp only [pure_ok, Prod.mk.injEq] at h
      obtain ⟨h1, _⟩ := h
      subst h1
      obtain ⟨s, _, hs, hup, _⟩ := search_found (c.putCtx a) c.tree [] sid hfound
      exact (LReach.single (.tree (search_skel _ _ _) (search_curOk _ _ _)) ⟨trivial, trivial⟩).step (.put hput)
        ⟨⟨hid.symm, hbl, rfl, fun _ => ⟨s, hs, hup⟩, (by intro e; cases e)⟩, trivial⟩

theorem cellPut_lreach {c c' : Cell} {a0 : App} {aid : Nat} {b : Bool} {after : List Nat}
    (hid : a0.id = aid) (hbl : a0.blacklisted = false) (h : cellPut c aid = .ok (c', b)) :
    LReach (PlaceOk a0 false after) c c' :=
  (cellPut_lreach2 hid hbl h).mono (fun _ _ h => h.1)

/-- `Cell.put` succeeds exactly when the app ends up placed. -/
theorem cellPut_placed {c c' : Cell} {aid : Nat} (h : cellPut c aid = .ok (c', true)) :
    ∃ a' sid, c'.app? aid = some a' ∧ a'.server = some sid := by
  simp only [cellPut, bind_ok, orAbort_ok] at h
  obtain ⟨a, ha, h⟩ := h
  split at h
  · simp only [pure_ok, Prod.mk.injEq] at h; obtain ⟨_, hb⟩ := h; cases hb
  · rename_i sid _
    simp only [bind_ok] at h
    obtain ⟨⟨c2, rc⟩, hput, h⟩ := h
    split at h
    · simp only [throw_bind, throw_ne_ok] at h
    · rename_i hrc
      simp only [pure_ok, Prod.mk.injEq] at h
      obtain ⟨h1, _⟩ := h
      subst h1
      have hrc' : rc = true := by simpa using hrc
      subst hrc'
      rcases serverPut_shape hput with ⟨hb, _⟩ | ⟨_, a1, s1, anc, ha1, _, _, _, _, _, happs, _⟩
      · cases hb
      · generalize hrec : putRec _ a1 sid false = rec at happs
        have hid1 : rec.id = aid := by rw [← hrec]; exact (app?_id ha1 : a1.id = aid)
        have hsv1 : rec.server = some sid := by rw [← hrec]; rfl
        refine ⟨rec, sid, ?_, hsv1⟩
        rw [← hid1]; exact app?_upd_self happs (by rw [hid1]; exact ha1)

/-- The eviction loop touches the app being placed and victims that sit between it and the end of
    the queue, on servers that are up. -/
theorem evictLoop_lreach2 {a0 : App} {aid : Nat} (hid : a0.id = aid) (hbl : a0.blacklisted = false) :
    ∀ (l : List Nat) (c c' : Cell), evictLoop aid l c = .ok c' →
      LReach (fun c lab => PlaceOk a0 false (l.takeWhile (· ≠ aid)) c lab ∧ NoIdLab lab) c c' := by
  intro l
  induction l with
  | nil =>
    intro c c' h
    simp only [evictLoop, pure_ok] at h
    subst h; exact .refl
  | cons e rest ih =>
    intro c c' h
    simp only [evictLoop] at h
    split at h
    · simp only [pure_ok] at h; subst h; exact .refl
    · rename_i hne
      have htw : (e :: rest).takeWhile (· ≠ aid) = e :: rest.takeWhile (· ≠ aid) := by
        simp [hne]
      rw [htw]
      have mono := fun c1 c2 (r : LReach (fun c lab => PlaceOk a0 false (rest.takeWhile (· ≠ aid)) c lab ∧ NoIdLab lab) c1 c2) =>
        r.mono (Q := fun c lab => PlaceOk a0 false (e :: rest.takeWhile (· ≠ aid)) c lab ∧ NoIdLab lab)
          (fun c lab h => And.intro (PlaceOk.mono_after (l2 := e :: rest.takeWhile (· ≠ aid)) (fun x hx => List.mem_cons_of_mem _ hx) c lab h.1) h.2)
      simp only [bind_ok, orAbort_ok] at h
      obtain ⟨ea, hea, h⟩ := h
      split at h
      · exact mono _ _ (ih _ _ h)
      · rename_i sid hsv
        simp only [bind_ok, orAbort_ok] at h
        obtain ⟨s, hs, h⟩ := h
        split at h
        · exact mono _ _ (ih _ _ h)
        · rename_i hup
          have hup' : s.state = .up := by simpa using hup
          simp only [bind_ok] at h
          obtain ⟨c1, h1, ⟨c2, rc⟩, h2, h⟩ := h
          have hne' : e ≠ a0.id := by rw [hid]; exact hne
          have hmem : e ∈ e :: rest.takeWhile (· ≠ aid) := List.mem_cons_self
          have g := ghost_lprim hea (some (sid, ea.expiry))
          have r0 : LReach (fun c lab => PlaceOk a0 false (e :: rest.takeWhile (· ≠ aid)) c lab ∧ NoIdLab lab) c
              (c.setApp { ea with evFrom := some (sid, ea.expiry) }) :=
            LReach.single g ⟨⟨hne', hmem, hbl, rfl, ea, sid, s, hea, hsv, hs, hup', rfl⟩, trivial⟩
          have hea' : (c.setApp { ea with evFrom := some (sid, ea.expiry) }).app? e =
              some { ea with evFrom := some (sid, ea.expiry) } := by
            have hide : e = ea.id := (app?_id hea).symm
            rw [hide]
            exact app?_setApp_self (c := c) (a' := { ea with evFrom := some (sid, ea.expiry) })
              (a := ea) (by show c.app? ea.id = some ea; rw [← hide]; exact hea)
          have r1 := r0.step (.remove h1) ⟨Or.inr ⟨hne', hmem, hbl, rfl,
            { ea with evFrom := some (sid, ea.expiry) }, s, hea', rfl, hsv, hs, hup'⟩, trivial⟩
          obtain ⟨av, sv, _, hsv0, _, _, hsrvs, _⟩ := serverRemove_shape h1
          have hsv0' : c.srv? sid = some sv := hsv0
          rw [hs] at hsv0'; cases hsv0'
          have hs1 : c1.srv? sid = some (removeSrv s av) := by
            rw [srv?_of_srvs hsrvs]
            have : (c.setApp { ea with evFrom := some (sid, ea.expiry) }).srv? sid = some s := hs
            rw [this]; simp [removeSrv, srv?_id hs]
          have r2 := r1.step (.put h2) ⟨⟨hid.symm, hbl, rfl, fun _ => ⟨_, hs1, hup'⟩, (by intro e; cases e)⟩, trivial⟩
          split at h
          · simp only [pure_ok] at h; subst h; exact r2
          · exact r2.trans (mono _ _ (ih _ _ h))

theorem evictLoop_lreach {a0 : App} {aid : Nat} (hid : a0.id = aid) (hbl : a0.blacklisted = false)
    (l : List Nat) (c c' : Cell) (h : evictLoop aid l c = .ok c') :
    LReach (PlaceOk a0 false (l.takeWhile (· ≠ aid))) c c' :=
  (evictLoop_lreach2 hid hbl l c c' h).mono (fun _ _ h => h.1)

theorem tryPlace_lreach {revq : List Nat} {st st' : PState} {a0 : App} {aid : Nat} {restore}
    (hid : a0.id = aid) (hbl : a0.blacklisted = false)
    (hres : ∀ sid e, restore = some (sid, e) → a0.renew = true ∧ a0.server = some sid)
    (h : tryPlace revq st aid restore = .ok st') :
    LReach (PlaceOk a0 false (revq.takeWhile (· ≠ aid))) st.cell st'.cell := by
  simp only [tryPlace, bind_ok, orAbort_ok] at h
  obtain ⟨a2, _, ⟨c3, placed⟩, hput, c4, hev, a4, ha4, h⟩ := h
  have r1 := cellPut_lreach (after := revq.takeWhile (· ≠ aid)) hid hbl hput
  have r2 : LReach (PlaceOk a0 false (revq.takeWhile (· ≠ aid))) c3 c4 := by
    split at hev
    · simp only [pure_ok] at hev; subst hev; exact .refl
    · exact evictLoop_lreach hid hbl _ _ _ hev
  have r12 := r1.trans r2
  split at h
  · simp only [pure_ok] at h; subst h; exact r12
  · rename_i hns
    have hnone : a4.server = none := by
      cases hsv : a4.server with
      | none => rfl
      | some x => simp [hsv] at hns
    split at h
    · rename_i sid exp
      simp only [bind_ok, orAbort_ok, pure_ok] at h
      obtain ⟨⟨c5, rc⟩, hr, a5, ha5, rfl⟩ := h
      have hl := hres sid exp rfl
      have r3 : LReach (PlaceOk a0 false (revq.takeWhile (· ≠ aid))) c4 c5 :=
        serverRestore_lreachP hr ⟨hid.symm, hbl, rfl, (by intro e; cases e), fun _ => Or.inr hl⟩
          (fun _ => ⟨hid.symm, hbl, rfl⟩)
      exact (r12.trans r3).step (setRenew_lprim ha5 true) ⟨hid.symm, hbl, rfl, fun _ => hl.1⟩
    · simp only [bind_ok, pure_ok] at h
      obtain ⟨c5, hrel, rfl⟩ := h
      exact r12.step (.release hrel) ⟨hid.symm, hbl, a4, ha4, hnone⟩

theorem afterAcquire_lreach {revq : List Nat} {st st' : PState} {a0 : App} {aid : Nat} {restore}
    (hid : a0.id = aid) (hbl : a0.blacklisted = false)
    (hres : ∀ sid e, restore = some (sid, e) → a0.renew = true ∧ a0.server = some sid)
    (hnone : ∀ a, st.cell.app? aid = some a → a.server = none)
    (h : afterAcquire revq st aid restore = .ok st') :
    LReach (PlaceOk a0 false (revq.takeWhile (· ≠ aid))) st.cell st'.cell := by
  simp only [afterAcquire, bind_ok] at h
  obtain ⟨⟨c1, done⟩, hre, h⟩ := h
  have r1 := restoreEvicted_lreach (after := revq.takeWhile (· ≠ aid)) hid hbl hre
  split at h
  · simp only [pure_ok] at h; subst h; exact r1
  · rename_i hdone
    have hdone' : done = false := by simpa using hdone
    subst hdone'
    simp only [bind_ok, orAbort_ok] at h
    obtain ⟨a2, ha2, h⟩ := h
    have ha2none : a2.server = none := by
      obtain ⟨a, ha, e⟩ := restoreEvicted_false_server hre a2 ha2
      rw [e]; exact hnone a ha
    split at h
    · simp only [bind_ok, pure_ok] at h
      obtain ⟨c3, hrel, rfl⟩ := h
      exact r1.step (.release hrel) ⟨hid.symm, hbl, a2, ha2, ha2none⟩
    · split at h
      · simp only [bind_ok, pure_ok] at h
        obtain ⟨c3, hrel, rfl⟩ := h
        exact r1.step (.release hrel) ⟨hid.symm, hbl, a2, ha2, ha2none⟩
      · exact r1.trans (tryPlace_lreach hid hbl hres h)

/-- Processing one queue entry. -/
theorem placeOne_lreach {revq : List Nat} {st st' : PState} {q : Nat × Bool} {a0 : App}
    (ha0 : st.cell.app? q.1 = some a0) (h : placeOne revq st q = .ok st') :
    LReach (PlaceOk a0 q.2 (revq.takeWhile (· ≠ q.1))) st.cell st'.cell := by
  simp only [placeOne, bind_ok, orAbort_ok] at h
  obtain ⟨a, ha, h⟩ := h
  rw [ha0] at ha; cases ha
  have hid := app?_id ha0
  split at h
  · simp only [pure_ok] at h; subst h; exact .refl
  · rename_i hbl
    have hbl' : a0.blacklisted = false := by simpa using hbl
    split at h
    · rename_i hq
      simp only [bind_ok, pure_ok] at h
      obtain ⟨c2, h2, rfl⟩ := h
      rw [hq]
      exact unplacedBranch_lreach (by rw [hid]; exact ha0) hbl' h2
    · rename_i hq
      have hq' : q.2 = false := by simpa using hq
      rw [hq']
      simp only [bind_ok, orAbort_ok] at h
      obtain ⟨⟨c1, restore⟩, hrn, a1, ha1, h⟩ := h
      obtain ⟨r1, hres⟩ := renewStep_lreach (after := revq.takeWhile (· ≠ q.1))
        (by rw [hid]; exact ha0) hbl' hrn
      have hres' : ∀ sid e, restore = some (sid, e) → a0.renew = true ∧ a0.server = some sid :=
        fun sid e he => ⟨(hres sid e he).1, (hres sid e he).2.1⟩
      have r2 : LReach (PlaceOk a0 false (revq.takeWhile (· ≠ q.1))) st.cell (c1.setApp { a1 with renew := false }) :=
        r1.step (setRenew_lprim ha1 false) ⟨hid.symm, hbl', rfl, by intro e; cases e⟩
      have hid1 : a1.id = q.1 := app?_id ha1
      have hself : (c1.setApp { a1 with renew := false }).app? q.1 = some { a1 with renew := false } := by
        have e1 : ({ a1 with renew := false } : App).id = q.1 := hid1
        rw [← e1]; exact app?_setApp_self (a := a1) (by rw [e1]; exact ha1)
      split at h
      · split at h
        · simp only [throw_ne_ok] at h
        · split at h
          · simp only [throw_ne_ok] at h
          · simp only [pure_ok] at h; subst h; exact r2
      · rename_i hsvn
        simp only [bind_ok] at h
        obtain ⟨⟨c2, got, ch⟩, hacq, h⟩ := h
        have r3 : LReach (PlaceOk a0 false (revq.takeWhile (· ≠ q.1))) st.cell c2 :=
          r2.step (.acquire hacq) ⟨hid.symm, hbl', rfl, _, hself, hsvn⟩
        split at h
        · simp only [pure_ok] at h; subst h; exact r3
        · refine r3.trans (afterAcquire_lreach hid hbl' hres' ?_ h)
          intro a ha
          obtain ⟨a', ha', e⟩ := acquire_server hacq a ha
          rw [hself] at ha'; cases ha'
          rw [e]; exact hsvn

end TmVerif.Sched
