/-
  C08, remaining clauses: a blacklisted app is never placed after a cycle; a server that is not up
  receives no new app.
-/
import TmVerif.Sched.CycleInv

namespace TmVerif.Sched

/-! ### app ids never change -/

theorem lprim_ids {c c' : Cell} {lab : Lab} (hp : LPrim lab c c') :
    c'.apps.map (·.id) = c.apps.map (·.id) := by
  have upd : ∀ (c0 : Cell) (a' : App), (c0.setApp a').apps.map (·.id) = c0.apps.map (·.id) := by
    intro c0 a'; simp only [Cell.setApp]; exact map_upd_keys (·.id) c0.apps a'
  cases hp with
  | put h =>
    rcases serverPut_shape h with ⟨_, e⟩ | ⟨_, a, s, anc, _, _, _, _, _, _, happs, _⟩
    · rw [e]
    · rw [happs]; exact map_upd_keys (·.id) c.apps _
  | remove h =>
    obtain ⟨a, s, _, _, _, happs, _⟩ := serverRemove_shape h
    rw [happs]; exact map_upd_keys (·.id) c.apps _
  | release h =>
    simp only [releaseIdentity, bind_ok, orAbort_ok] at h
    obtain ⟨a, ha, h⟩ := h
    split at h
    · simp only [bind_ok, orAbort_ok, pure_ok] at h
      obtain ⟨grp, _, rfl⟩ := h
      exact upd _ _
    · simp only [pure_ok] at h; subst h; rfl
  | acquire h =>
    simp only [acquireIdentity, bind_ok, orAbort_ok] at h
    obtain ⟨a, ha, h⟩ := h
    split at h
    · simp only [pure_ok, Prod.mk.injEq] at h; obtain ⟨rfl, _⟩ := h; rfl
    · split at h
      · simp only [pure_ok, Prod.mk.injEq] at h; obtain ⟨rfl, _⟩ := h; rfl
      · simp only [bind_ok, orAbort_ok] at h
        obtain ⟨grp, _, h⟩ := h
        split at h
        · simp only [pure_ok, Prod.mk.injEq] at h; obtain ⟨rfl, _⟩ := h; rfl
        · split at h
          · simp only [throw_ne_ok] at h
          · split at h
            · simp only [throw_bind, throw_ne_ok] at h
            · simp only [pure_ok, Prod.mk.injEq] at h
              obtain ⟨rfl, _⟩ := h
              exact upd _ _
  | appMeta => exact upd _ _
  | setRenew => exact upd _ _
  | ghost => exact upd _ _
  | dropDangling => exact upd _ _
  | forgetIdentity => exact upd _ _
  | tree => rfl
  | clearEv =>
    simp only [List.map_map]
    rfl

theorem reach_ids {c c' : Cell} (h : Reach c c') : c'.apps.map (·.id) = c.apps.map (·.id) := by
  induction h with
  | refl => rfl
  | step _ p ih => obtain ⟨lab, p⟩ := p; rw [lprim_ids p, ih]

theorem app?_some_of_mem {c : Cell} {a : App} (ha : a ∈ c.apps) : ∃ b, c.app? a.id = some b := by
  unfold Cell.app?
  cases h : c.apps.find? (fun x => x.id = a.id) with
  | some b => exact ⟨b, rfl⟩
  | none =>
    have := List.find?_eq_none.mp h a ha
    simp at this

/-! ### fold establishing a per-app fact -/

theorem foldlM_establish {Q : Cell → Nat → Prop} {P : Cell → Lab → Prop} (f : Cell → Nat → M Cell)
    (hreach : ∀ c x c', f c x = .ok c' → LReach P c c')
    (hstable : ∀ c c' lab y, Q c y → P c lab → LPrim lab c c' → Q c' y)
    (hest : ∀ c x c', f c x = .ok c' → Q c' x) :
    ∀ (l : List Nat) (c c' : Cell), l.foldlM f c = .ok c' → ∀ x ∈ l, Q c' x := by
  intro l
  induction l with
  | nil => intro c c' _ x hx; cases hx
  | cons y ys ih =>
    intro c c' h x hx
    simp only [List.foldlM, bind_ok] at h
    obtain ⟨c1, h1, h2⟩ := h
    rcases List.mem_cons.mp hx with rfl | hx
    · have r : LReach P c1 c' := foldlM_lreach _ _ (fun c0 z c0' _ hz => hreach c0 z c0' hz) _ _ h2
      exact r.induct (fun _ _ _ hq hp lp => hstable _ _ _ _ hq hp lp) (hest _ _ _ h1)
    · exact ih c1 c' h2 x hx

/-! ### blacklisted apps -/

/-- A blacklisted app is not placed. -/
def BlOk (c : Cell) (x : Nat) : Prop := ∀ a, c.app? x = some a → a.blacklisted = true → a.server = none

theorem blOk_preOk {c c' : Cell} {lab : Lab} {x : Nat} (hq : BlOk c x) (hok : PreOk c lab) (hp : LPrim lab c c') :
    BlOk c' x := by
  intro a' ha' hbl
  obtain ⟨a, ha, hcase⟩ := lprim_server hp x a' ha'
  obtain ⟨a2, ha2, hst⟩ := app?_stat_of (sameStatic_lprim hp) ha'
  rw [ha] at ha2; cases ha2
  have ebl : a'.blacklisted = a.blacklisted := congrArg AppStat.blacklisted hst
  rcases hcase with e | e | ⟨sid, l0, hl, _, _⟩
  · rw [e]; exact hq a ha (by rw [← ebl]; exact hbl)
  · exact e
  · subst hl; simp only [PreOk] at hok

theorem handleBlacklisted_est {c c' : Cell} {x : Nat} (h : handleBlacklisted c x = .ok c') : BlOk c' x := by
  simp only [handleBlacklisted, bind_ok, orAbort_ok] at h
  obtain ⟨a, ha, h⟩ := h
  split at h
  · rename_i hnb
    simp only [pure_ok] at h; subst h
    intro a1 ha1 hbl
    rw [ha] at ha1; cases ha1
    simp [hbl] at hnb
  · split at h
    · simp only [bind_ok] at h
      obtain ⟨c1, h1, h2⟩ := h
      obtain ⟨a0, _, ha0⟩ := serverRemove_app_self h1
      intro a' ha' _
      obtain ⟨b, hb, hcase⟩ := lprim_server (.release h2) x a' ha'
      rw [ha0] at hb; cases hb
      rcases hcase with e | e | ⟨sid, l0, hl, _, _⟩
      · rw [e]; rfl
      · exact e
      · cases hl
    · rename_i hsv
      intro a' ha' _
      obtain ⟨b, hb, hcase⟩ := lprim_server (.release h) x a' ha'
      rw [ha] at hb; cases hb
      rcases hcase with e | e | ⟨sid, l0, hl, _, _⟩
      · rw [e]; exact hsv
      · exact e
      · cases hl

/-- After the pre-passes no blacklisted app is placed. -/
theorem prePasses_blOk {c c' : Cell} (hc : InvCap c) (h : prePasses c = .ok c') :
    ∀ a ∈ c'.apps, a.blacklisted = true → a.server = none := by
  have hall := h
  simp only [prePasses, bind_ok] at h
  obtain ⟨c1, h1, c2, h2, c3, h3, h4⟩ := h
  have est : ∀ x ∈ c.apps.map (·.id), BlOk c3 x :=
    foldlM_establish (Q := BlOk) (P := PreOk) handleBlacklisted (fun _ _ _ hx => handleBlacklisted_lreach hx)
      (fun _ _ _ _ hq hp lp => blOk_preOk hq hp lp) (fun _ _ _ hx => handleBlacklisted_est hx) _ _ _ h3
  have r4 : LReach PreOk c3 c' := foldlM_lreach _ _ (fun _ _ _ _ hx => fixInvalidIdentity_lreach hx) _ _ h4
  have ids : c'.apps.map (·.id) = c.apps.map (·.id) := reach_ids (prePasses_reach hall)
  intro a ha hbl
  have hmem : a.id ∈ c.apps.map (·.id) := by rw [← ids]; exact List.mem_map_of_mem ha
  have hq : BlOk c' a.id := r4.induct (fun _ _ _ hq hp lp => blOk_preOk hq hp lp) (est a.id hmem)
  have hc' : InvCap c' := invCap_reach hc (prePasses_reach hall)
  have : c'.app? a.id = some a := by
    unfold Cell.app?
    exact find?_key_unique (·.id) c'.apps hc'.appIds a ha
  exact hq a this hbl

theorem blAll_cycle {qs : List (List (Nat × Bool))} {c c' : Cell} (h : Cycle qs c c')
    (h0 : ∀ x, BlOk c x) : ∀ x, BlOk c' x := by
  refine cycle_inv (Ipre := fun c => ∀ x, BlOk c x) (I := fun c => ∀ x, BlOk c x) ?_ (fun _ h => h) ?_ h h0
  · intro c hb x a' ha' hbl
    obtain ⟨a, ha, hcase⟩ := lprim_server (.clearEv (c := c)) x a' ha'
    obtain ⟨a2, ha2, hst⟩ := app?_stat_of (sameStatic_lprim (.clearEv (c := c))) ha'
    rw [ha] at ha2; cases ha2
    have ebl : a'.blacklisted = a.blacklisted := congrArg AppStat.blacklisted hst
    rcases hcase with e | e | ⟨sid, l0, hl, _, _⟩
    · rw [e]; exact hb x a ha (by rw [← ebl]; exact hbl)
    · exact e
    · cases hl
  · intro ct q a0 after c c' lab ha0 _ hs hb hok hp x a' ha' hbl
    obtain ⟨a, ha, hcase⟩ := lprim_server hp x a' ha'
    obtain ⟨a2, ha2, hst⟩ := app?_stat_of (sameStatic_lprim hp) ha'
    rw [ha] at ha2; cases ha2
    have ebl : a'.blacklisted = a.blacklisted := congrArg AppStat.blacklisted hst
    rcases hcase with e | e | ⟨sid, l0, hl, _, _⟩
    · rw [e]; exact hb x a ha (by rw [← ebl]; exact hbl)
    · exact e
    · subst hl
      simp only [PlaceOk] at hok
      obtain ⟨hx, hnb, _⟩ := hok
      -- x is the app whose turn it is; it is not blacklisted (static since the turn started)
      exfalso
      obtain ⟨at_, hat, hst2⟩ := app?_stat_of hs ha
      have : q.1 = x := by rw [← app?_id ha0]; exact hx.symm
      rw [← this, ha0] at hat; cases hat
      have : a.blacklisted = a0.blacklisted := congrArg AppStat.blacklisted hst2
      rw [ebl, this, hnb] at hbl; cases hbl

end TmVerif.Sched

namespace TmVerif.Sched

/-! ### a server that is not up receives no new app -/

/-- Every app on `sid` was already there at the start of the cycle. -/
def OnlyOld (c0 : Cell) (sid : Nat) (c : Cell) : Prop :=
  ∀ y ai, c.app? y = some ai → ai.server = some sid → ∃ a, c0.app? y = some a ∧ a.server = some sid

theorem onlyOld_schedule {c0 c' : Cell} {qs ch} {sid : Nat} {s : Srv} (hc : InvCap c0)
    (hs : c0.srv? sid = some s) (hnu : s.state ≠ .up) (h : schedule c0 qs ch = .ok c') :
    OnlyOld c0 sid c' := by
  obtain ⟨c1, hpre, hcy⟩ := schedule_cycle hc h
  have notUp : ∀ c, SameStatic c0 c → ∀ s', c.srv? sid = some s' → s'.state ≠ .up := by
    intro c hst s' hs'
    obtain ⟨s0, hs0, est⟩ := srv?_stat_of hst hs'
    rw [hs] at hs0; cases hs0
    have : s'.state = s.state := congrArg SrvStat.state est
    rw [this]; exact hnu
  -- pre-passes: nothing is placed
  have h1 : SameStatic c0 c1 ∧ OnlyOld c0 sid c1 := by
    refine lreach_inv (I := fun c => OnlyOld c0 sid c) ?_ hpre ?_ |> fun r => ⟨sameStatic_lreach hpre, r⟩
    · intro c c' lab _ hi hok hp y ai' hai' hsv
      obtain ⟨a, ha, hcase⟩ := lprim_server hp y ai' hai'
      rcases hcase with e | e | ⟨sid', l0, hl, _, _⟩
      · exact hi y a ha (by rw [← e]; exact hsv)
      · rw [e] at hsv; cases hsv
      · subst hl; simp only [PreOk] at hok
    · intro y ai hai hsv; exact ⟨ai, hai, hsv⟩
  -- placement phase
  have h2 := cycle_inv (Ipre := fun c => SameStatic c0 c ∧ OnlyOld c0 sid c)
    (I := fun c => (SameStatic c0 c ∧ OnlyOld c0 sid c) ∧ GhostOk c) ?_ (fun _ h => h.1) ?_ hcy h1
  · exact h2.2
  · intro c ⟨hst, hold⟩
    refine ⟨⟨hst.trans (sameStatic_lprim (.clearEv (c := c))), ?_⟩, ghostOk_clear c⟩
    intro y ai' hai' hsv
    obtain ⟨a, ha, hcase⟩ := lprim_server (.clearEv (c := c)) y ai' hai'
    rcases hcase with e | e | ⟨sid', l0, hl, _, _⟩
    · exact hold y a ha (by rw [← e]; exact hsv)
    · rw [e] at hsv; cases hsv
    · cases hl
  · intro ct q a0 after c c' lab ha0 hict _ hi hok hp
    obtain ⟨⟨hst, hold⟩, hg⟩ := hi
    refine ⟨⟨hst.trans (sameStatic_lprim hp), ?_⟩, ghostOk_step hg hok hp⟩
    intro y ai' hai' hsv
    obtain ⟨a, ha, hcase⟩ := lprim_server hp y ai' hai'
    rcases hcase with e | e | ⟨sid', l0, hl, hnone, hnew⟩
    · exact hold y a ha (by rw [← e]; exact hsv)
    · rw [e] at hsv; cases hsv
    · subst hl
      rw [hnew] at hsv
      have hsid : sid' = sid := Option.some.inj hsv
      subst hsid
      simp only [PlaceOk] at hok
      obtain ⟨hy, _, _, hfalse, htrue⟩ := hok
      cases l0 with
      | false =>
        obtain ⟨s', hs', hup⟩ := hfalse rfl
        exact absurd hup (notUp c hst s' hs')
      | true =>
        rcases htrue rfl with ⟨x0, e0, hx0, hev⟩ | ⟨_, hsv0⟩
        · obtain ⟨s', hs', hup⟩ := hg y x0 sid' e0 hx0 hev
          exact absurd hup (notUp c hst s' hs')
        · -- renew-restore: the app sat on `sid` when its turn started
          have hq1 : q.1 = y := by rw [← app?_id ha0]; exact hy.symm
          rw [hq1] at ha0
          exact hict.1.2 y a0 ha0 hsv0

end TmVerif.Sched

namespace TmVerif.Sched

theorem schedule_parts {c c' qs ch} (h : schedule c qs ch = .ok c') :
    ∃ c1, prePasses c = .ok c1 ∧ Cycle qs c1 c' := by
  simp only [schedule, bind_ok] at h
  obtain ⟨c1, hpre, ⟨c2, rest⟩, hf, h⟩ := h
  refine ⟨c1, hpre, ?_⟩
  have := partitions_cycle _ _ _ hf
  split at h
  · simp only [throw_bind, throw_ne_ok] at h
  · simp only [pure_ok] at h; subst h; exact this

/-- After a cycle no blacklisted app is placed. -/
theorem blacklisted_schedule {c c' : Cell} {qs ch} (hc : InvCap c) (h : schedule c qs ch = .ok c') :
    ∀ a ∈ c'.apps, a.blacklisted = true → a.server = none := by
  obtain ⟨c1, hpre, hcy⟩ := schedule_parts h
  have h1 := prePasses_blOk hc hpre
  have h1' : ∀ x, BlOk c1 x := fun x a ha hbl => h1 a (app?_mem ha) hbl
  have h2 := blAll_cycle hcy h1'
  have hc' : InvCap c' := invCap_reach hc (schedule_reach h)
  intro a ha hbl
  have : c'.app? a.id = some a := by
    unfold Cell.app?
    exact find?_key_unique (·.id) c'.apps hc'.appIds a ha
  exact h2 a.id a this hbl

end TmVerif.Sched
