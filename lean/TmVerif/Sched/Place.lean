/-
  Scheduler model — server primitives, identities, the pre-passes and `_find_placements`.
  Python `assert` / KeyError become `Except.error` (Abort); property theorems are about
  completed (`.ok`) runs.
-/
import TmVerif.Sched.Tree

namespace TmVerif.Sched

abbrev M := Except String

def orAbort {α} (o : Option α) (msg : String) : M α :=
  match o with
  | some a => .ok a
  | none => .error msg

def Cell.putCtx (c : Cell) (a : App) : PutCtx :=
  { srvs := c.srvs, app := a, traits := c.appTraits a, label := (c.allocInfo a.alloc).label, now := c.now }

/-- The app record `Server.put` sees: `restore` sets `lease = 0` around the call. -/
def putApp (a : App) (lease0 : Bool) : App := if lease0 then { a with lease := 0 } else a

/-- `Server.put(app)`.  `lease0` = called from `restore` (lease temporarily 0). -/
def serverPut (c : Cell) (aid sid : Nat) (lease0 : Bool) : M (Cell × Bool) := do
  let a ← orAbort (c.app? aid) "put: unknown app"
  let s ← orAbort (c.srv? sid) "put: unknown server"
  if s.apps.contains aid then throw "assert app.name not in self.apps"
  -- MODEL-ONLY assertion (the code has none): every caller puts an app that is not placed.
  -- The correspondence run shows the real code never reaches `put` with a placed app.
  if a.server.isSome then throw "model-assert: app.server is None in Server.put"
  let anc ← orAbort (c.tree.path sid) "put: server not in tree"
  let ap := putApp a lease0
  if !srvCheck (c.putCtx ap) s anc then return (c, false)
  let s' := { s with free := s.free - a.demand, apps := s.apps ++ [aid], aff := cadd s.aff a.aff 1 }
  let a' := { a with server := some sid,
                     expiry := match a.expiry with
                       | some e => some e
                       | none => some (c.now + ap.lease) }
  let c1 := (c.setSrv s').setApp a'
  let t1 ← orAbort (treeAff c1.tree sid false [(a.aff, 1)] 1) "put: tree"
  let t2 ← orAbort (treeCap c1.srvs t1 sid false (.down (some s.free))) "put: tree"
  return ({ c1 with tree := t2 }, true)

/-- `Server.restore(app, placement_expiry)`. -/
def serverRestore (c : Cell) (aid sid : Nat) (exp : Option Int) : M (Cell × Bool) := do
  let a ← orAbort (c.app? aid) "restore: unknown app"
  let pe := match exp with
    | some e => some e
    | none => a.expiry
  let (c1, rc) ← serverPut c aid sid true
  let a1 ← orAbort (c1.app? aid) "restore: unknown app"
  return (c1.setApp { a1 with expiry := pe }, rc)

/-- `Server.remove(app_name)`. -/
def serverRemove (c : Cell) (sid aid : Nat) : M Cell := do
  let s ← orAbort (c.srv? sid) "remove: unknown server"
  if !s.apps.contains aid then throw "assert app_name in self.apps"
  let a ← orAbort (c.app? aid) "remove: unknown app"
  let s' := { s with free := s.free + a.demand, apps := s.apps.filter (· ≠ aid), aff := cadd s.aff a.aff (-1) }
  let a' := { a with server := none, evicted := true, unschedule := false, expiry := none }
  let c1 := (c.setSrv s').setApp a'
  let t1 ← orAbort (treeAff c1.tree sid false [(a.aff, 1)] (-1)) "remove: tree"
  let t2 ← orAbort (treeCap c1.srvs t1 sid false (.up s'.free)) "remove: tree"
  return { c1 with tree := t2 }

/-- `Server.remove_all()`. -/
def serverRemoveAll (c : Cell) (sid : Nat) : M Cell := do
  let s ← orAbort (c.srv? sid) "remove_all: unknown server"
  s.apps.foldlM (fun c aid => serverRemove c sid aid) c

/-- `Server.renew(app)`. -/
def serverRenew (c : Cell) (aid sid : Nat) : M (Cell × Bool) := do
  let a ← orAbort (c.app? aid) "renew: unknown app"
  let s ← orAbort (c.srv? sid) "renew: unknown server"
  if lifetimeOk (c.putCtx a) s then
    return (c.setApp { a with expiry := some (c.now + a.lease) }, true)
  else return (c, false)

/-! ### identities -/

def listAdd (l : List Nat) (k : Nat) : List Nat := if l.contains k then l else l ++ [k]

/-- `Application.release_identity`. -/
def releaseIdentity (c : Cell) (aid : Nat) : M Cell := do
  let a ← orAbort (c.app? aid) "release: unknown app"
  match a.group, a.identity with
  | some g, some k =>
    let grp ← orAbort (c.grp? g) "release: unknown group"
    let grp' := if k < grp.count then { grp with avail := listAdd grp.avail k } else grp
    return (c.setGrp grp').setApp { a with identity := none }
  | _, _ => return c

/-- `Application.acquire_identity`; `choices` are the values `set.pop()` returned in the real run. -/
def acquireIdentity (c : Cell) (aid : Nat) (choices : List Nat) : M (Cell × Bool × List Nat) := do
  let a ← orAbort (c.app? aid) "acquire: unknown app"
  match a.group with
  | none => return (c, true, choices)
  | some g =>
    if a.identity.isSome then return (c, true, choices)
    let grp ← orAbort (c.grp? g) "acquire: unknown group"
    if grp.avail.isEmpty then return (c, false, choices)
    match choices with
    | [] => throw "acquire: no recorded choice"
    | k :: rest =>
      if !grp.avail.contains k then throw "acquire: choice not available"
      return ((c.setGrp { grp with avail := grp.avail.filter (· ≠ k) }).setApp { a with identity := some k },
              true, rest)

def App.hasIdentity (a : App) : Bool := a.group.isNone || a.identity.isSome

/-! ### pre-passes of `Cell.schedule` -/

/-- `_fix_invalid_placements` for one app. -/
def fixInvalidPlacement (c : Cell) (aid : Nat) : M Cell := do
  let a ← orAbort (c.app? aid) "fix: unknown app"
  match a.server with
  | none => return c
  | some sid =>
    match c.srv? sid with
    | none =>
      let c1 := c.setApp { a with server := none, evicted := true }
      releaseIdentity c1 aid
    | some s =>
      let want := c.appTraits a
      if s.label ≠ (c.allocInfo a.alloc).label || (want != 0 && !hasTraits s.traits want) then
        let c1 ← serverRemove c sid aid
        releaseIdentity c1 aid
      else return c

/-- Sub-list of the ids satisfying a (possibly aborting) test. -/
def selectM (p : Nat → M Bool) : List Nat → M (List Nat)
  | [] => pure []
  | x :: xs => do
    let b ← p x
    let r ← selectM p xs
    pure (if b then x :: r else r)

/-- `expires_at` of an app on a down server. -/
def expiresAt (s : Srv) (a : App) : Int :=
  match a.retention with
  | none => 0
  | some r => s.since + r

/-- `expires_at <= time.time()`. -/
def expiredOn (c : Cell) (s : Srv) (a : App) : Bool := decide (expiresAt s a ≤ c.now)

/-- Which apps `_handle_inactive_servers` moves off server `s`. -/
def toMoveOf (c : Cell) (s : Srv) : M (List Nat) :=
  match s.state with
  | .up => pure []
  | .down => selectM (fun aid => do
      let a ← orAbort (c.app? aid) "inactive: unknown app"
      pure (expiredOn c s a)) s.apps
  | .frozen => selectM (fun aid => do
      let a ← orAbort (c.app? aid) "inactive: unknown app"
      pure a.unschedule) s.apps

/-- `server.remove(app.name); app.release_identity()` -/
def removeRelease (sid : Nat) (c : Cell) (aid : Nat) : M Cell := do
  let c1 ← serverRemove c sid aid
  releaseIdentity c1 aid

/-- `_handle_inactive_servers` for one server. -/
def handleInactive (c : Cell) (sid : Nat) : M Cell := do
  let s ← orAbort (c.srv? sid) "inactive: unknown server"
  let toMove ← toMoveOf c s
  toMove.foldlM (removeRelease sid) c

/-- `_handle_blacklisted_apps` for one app. -/
def handleBlacklisted (c : Cell) (aid : Nat) : M Cell := do
  let a ← orAbort (c.app? aid) "blacklist: unknown app"
  if !a.blacklisted then return c
  else match a.server with
    | some sid =>
      let c1 ← serverRemove c sid aid
      releaseIdentity c1 aid
    | none => releaseIdentity c aid

/-- `_fix_invalid_identities` for one app. -/
def fixInvalidIdentity (c : Cell) (aid : Nat) : M Cell := do
  let a ← orAbort (c.app? aid) "fixid: unknown app"
  match a.identity, a.group with
  | some k, some g =>
    let grp ← orAbort (c.grp? g) "fixid: unknown group"
    if k ≥ grp.count then
      let c1 := c.setApp { a with identity := none }
      match a.server with
      | some sid => serverRemove c1 sid aid
      | none => return c1
    else return c
  | _, _ => return c

def prePasses (c : Cell) : M Cell := do
  let ids := c.apps.map (·.id)
  let c ← ids.foldlM fixInvalidPlacement c
  let c ← c.tree.leaves.foldlM handleInactive c
  let c ← ids.foldlM handleBlacklisted c
  ids.foldlM fixInvalidIdentity c

/-! ### `_find_placements` -/

/-- Key of `PlacementFeasibilityTracker` (shape + own traits + per-level limits). -/
structure TKey where
  aff : Nat
  lease : Int
  allocKey : Nat
  traits : Nat
  limits : List (Nat × Nat)
  deriving DecidableEq, Repr

def Cell.tkey (c : Cell) (a : App) : TKey :=
  { aff := a.aff, lease := a.lease, allocKey := (c.allocInfo a.alloc).key,
    traits := c.appTraits a, limits := a.limits }

structure PState where
  cell    : Cell
  tracker : List (TKey × Vec)
  choices : List Nat
  deriving Repr

def trackerFeasible (tr : List (TKey × Vec)) (k : TKey) (demand : Vec) : Bool :=
  match tr.find? (fun p => p.1 = k) with
  | some (_, rec) => !(demand.allGe rec)
  | none => true

def trackerAdjust (tr : List (TKey × Vec)) (k : TKey) (demand : Vec) : List (TKey × Vec) :=
  match tr.find? (fun p => p.1 = k) with
  | none => tr ++ [(k, demand)]
  | some (_, rec) => if demand.allLe rec then tr.map (fun p => if p.1 = k then (k, demand) else p) else tr

/-- `Cell.put(app)` = `Bucket.put` on the root, then the commit on the server found. -/
def cellPut (c : Cell) (aid : Nat) : M (Cell × Bool) := do
  let a ← orAbort (c.app? aid) "cellput: unknown app"
  let (t', r) := search (c.putCtx a) [] c.tree
  let c1 := { c with tree := t' }
  match r with
  | none => return (c1, false)
  | some sid =>
    let (c2, rc) ← serverPut c1 aid sid false
    if !rc then throw "cellput: search and put disagree"
    return (c2, true)

/-- The eviction loop: scan the reversed queue down to `aid`.  `evicted[evicted_app] = (server,
    placement_expiry)` is kept in the victim's ghost field `evFrom`. -/
def evictLoop (aid : Nat) : List Nat → Cell → M Cell
  | [], c => return c
  | e :: rest, c =>
    if e = aid then return c
    else do
      let ea ← orAbort (c.app? e) "evict: unknown app"
      match ea.server with
      | none => evictLoop aid rest c
      | some sid =>
        let s ← orAbort (c.srv? sid) "assert evicted_app.server in servers"
        if s.state ≠ .up then evictLoop aid rest c
        else
          let c0 := c.setApp { ea with evFrom := some (sid, ea.expiry) }
          let c1 ← serverRemove c0 sid e
          let (c2, rc) ← serverPut c1 aid sid false
          if rc then return c2 else evictLoop aid rest c2

/-- `final_rank == _UNPLACED_RANK`: drop the placement (if any) and the identity. -/
def unplacedBranch (c : Cell) (a : App) : M Cell := do
  let c1 ← match a.server with
    | some sid =>
      if (c.srv? sid).isNone then throw "assert app.server in servers"
      else if !a.hasIdentity then throw "assert app.has_identity()"
      else serverRemove c sid a.id
    | none => pure c
  releaseIdentity c1 a.id

/-- `if app.renew:` block; returns the saved placement when the renewal failed. -/
def renewStep (c : Cell) (a : App) : M (Cell × Option (Nat × Option Int)) := do
  if a.renew then
    let sid ← orAbort a.server "assert app.server"
    if !a.hasIdentity then throw "assert app.has_identity()"
    else if (c.srv? sid).isNone then throw "assert app.server in servers"
    else
      let (c', ok) ← serverRenew c a.id sid
      if ok then pure (c', none)
      else
        let c'' ← serverRemove c' sid a.id
        pure (c'', some (sid, a.expiry))
  else pure (c, none)

/-- `if app in evicted:` block: try to go back to the server the app was evicted from.
    (`del evicted[app]` is done after the restore here; the order of ghost bookkeeping is immaterial.) -/
def restoreEvicted (c : Cell) (aid : Nat) : M (Cell × Bool) := do
  let a2 ← orAbort (c.app? aid) "place: unknown app"
  match a2.evFrom with
  | some (from_, exp) =>
    if !a2.hasIdentity then throw "assert app.has_identity()"
    else
      let (c3, rc) ← serverRestore c aid from_ exp
      let a3 ← orAbort (c3.app? aid) "place: unknown app"
      if rc then pure (c3.setApp { a3 with evFrom := none, evicted := false }, true)
      else pure (c3.setApp { a3 with evFrom := none }, false)
  | none => pure (c, false)

/-- `self.put(app)`, the eviction loop, and the "Placement failed" epilogue. -/
def tryPlace (revq : List Nat) (st : PState) (aid : Nat) (restore : Option (Nat × Option Int)) : M PState := do
  let a2 ← orAbort (st.cell.app? aid) "place: unknown app"
  let key := st.cell.tkey a2
  let (c3, placed) ← cellPut st.cell aid
  let c4 ← (if placed then pure c3 else evictLoop aid revq c3)
  let a4 ← orAbort (c4.app? aid) "place: unknown app"
  if a4.server.isSome then return { st with cell := c4 }
  else match restore with
    | some (sid, exp) =>
      let (c5, _) ← serverRestore c4 aid sid exp
      let a5 ← orAbort (c5.app? aid) "place: unknown app"
      return { st with cell := c5.setApp { a5 with renew := true } }
    | none =>
      let c5 ← releaseIdentity c4 aid
      return { st with cell := c5, tracker := trackerAdjust st.tracker key a2.demand }

/-- After a successful `acquire_identity`. -/
def afterAcquire (revq : List Nat) (st : PState) (aid : Nat) (restore : Option (Nat × Option Int)) : M PState := do
  let (c1, done) ← restoreEvicted st.cell aid
  let st := { st with cell := c1 }
  if done then return st
  else
    let a2 ← orAbort (st.cell.app? aid) "place: unknown app"
    if a2.schedOnce && a2.evicted then
      let c3 ← releaseIdentity st.cell aid
      return { st with cell := c3 }
    else if !trackerFeasible st.tracker (st.cell.tkey a2) a2.demand then
      let c3 ← releaseIdentity st.cell aid
      return { st with cell := c3 }
    else tryPlace revq st aid restore

/-- Body of the `for app in queue` loop. `unplaced` = `final_rank == _UNPLACED_RANK`. -/
def placeOne (revq : List Nat) (st : PState) (q : Nat × Bool) : M PState := do
  let aid := q.1
  let a ← orAbort (st.cell.app? aid) "place: unknown app"
  if a.blacklisted then return st
  else if q.2 then
    let c2 ← unplacedBranch st.cell a
    return { st with cell := c2 }
  else
    let (c1, restore) ← renewStep st.cell a
    let a1 ← orAbort (c1.app? aid) "place: unknown app"
    let c1 := c1.setApp { a1 with renew := false }
    match a1.server with
    | some sid =>
      if (c1.srv? sid).isNone then throw "assert app.server in servers"
      else if !a1.hasIdentity then throw "assert app.has_identity()"
      else return { st with cell := c1 }
    | none =>
      let (c2, got, ch) ← acquireIdentity c1 aid st.choices
      let st := { st with cell := c2, choices := ch }
      if !got then return st
      else afterAcquire revq st aid restore

/-- `_find_placements(queue, servers)`. -/
def findPlacements (c : Cell) (queue : List (Nat × Bool)) (choices : List Nat) : M (Cell × List Nat) := do
  let revq := (queue.map (·.1)).reverse
  -- the `evicted` dict is local to this call
  let c := { c with apps := c.apps.map (fun a => { a with evFrom := none }) }
  let st ← queue.foldlM (placeOne revq) { cell := c, tracker := [], choices := choices }
  return (st.cell, st.choices)

/-- `Cell.schedule()` with the per-partition queues (in `partitions` dict order) and the
    `set.pop()` choices recorded from the real run. -/
def schedule (c : Cell) (queues : List (List (Nat × Bool))) (choices : List Nat) : M Cell := do
  let c ← prePasses c
  let (c, rest) ← queues.foldlM (fun (p : Cell × List Nat) q => findPlacements p.1 q p.2) (c, choices)
  if !rest.isEmpty then throw "unused identity choices"
  return c

end TmVerif.Sched
