/-
  C07 — the key step: an instance that was evicted during this cycle goes back to its server when
  its turn comes, provided every instance is still where it was at the start of the loop, or nowhere.
-/
import TmVerif.Sched.DisplaceShape
import TmVerif.Sched.Track

namespace TmVerif.Sched

/-- "Every instance is where it was in `c0`, or nowhere." -/
def Clean (c0 c : Cell) : Prop :=
  ∀ q b0 b, c0.app? q = some b0 → c.app? q = some b → b.server = b0.server ∨ b.server = none

theorem clean_shrunk {c0 c : Cell} (h0 : InvCap c0) (hreach : Reach c0 c) (hclean : Clean c0 c) :
    TmVerif.Forall2 Shrunk c0.apps c.apps := by
  have hstat := sameStatic_reach hreach
  refine forall2_of_lookup Shrunk c0.apps c.apps (reach_appIds hreach) h0.appIds ?_
  intro x a0 a ha0 ha
  have ha0' : c0.app? x = some a0 := ha0
  have ha' : c.app? x = some a := ha
  obtain ⟨b0, hb0, est⟩ := app?_stat_of hstat ha'
  rw [ha0'] at hb0; cases hb0
  exact ⟨congrArg AppStat.id est, congrArg AppStat.aff est, congrArg AppStat.demand est, hclean x a0 a ha0' ha'⟩

theorem limitAt_congr {a b : App} (h : a.limits = b.limits) (lvl : Nat) : a.limitAt lvl = b.limitAt lvl := by
  unfold App.limitAt; rw [h]

theorem underLimit_of_lt {a : App} {lvl : Nat} {cur : Int}
    (h : ∀ l, a.limitAt lvl = some l → cur < (l : Int)) : a.underLimit lvl cur = true := by
  unfold App.underLimit
  cases hl : a.limitAt lvl with
  | none => rfl
  | some l => simpa using h l hl

/-- `Server.put` on the old server with the lease waived succeeds. -/
theorem restore_ok {c0 c c' : Cell} {x S : Nat} {a0 a : App} {s0 : Srv} {b : Bool}
    (h0 : AffAll c0) (hreach : Reach c0 c)
    (ha0 : c0.app? x = some a0) (hs0 : c0.srv? S = some s0) (hsv0 : a0.server = some S)
    (hlab : s0.label = (c0.allocInfo a0.alloc).label) (htr : hasTraits s0.traits (c0.appTraits a0) = true)
    (hclean : Clean c0 c) (ha : c.app? x = some a) (hnone : a.server = none)
    (h : serverPut c x S true = .ok (c', b)) : b = true := by
  have hall := affAll_reach h0 hreach
  have hstat := sameStatic_reach hreach
  have hsh := clean_shrunk h0.cap hreach hclean
  obtain ⟨a0', ha0', esta⟩ := app?_stat_of hstat ha
  rw [ha0] at ha0'; cases ha0'
  have eaff : a.aff = a0.aff := congrArg AppStat.aff esta
  have edem : a.demand = a0.demand := congrArg AppStat.demand esta
  have elim : a.limits = a0.limits := congrArg AppStat.limits esta
  have ealloc : a.alloc = a0.alloc := congrArg AppStat.alloc esta
  have etr : a.traits = a0.traits := congrArg AppStat.traits esta
  have eid : a.id = a0.id := congrArg AppStat.id esta
  simp only [serverPut, bind_ok, orAbort_ok] at h
  obtain ⟨a1, ha1, s, hs, h⟩ := h
  rw [ha] at ha1; cases ha1
  obtain ⟨s0', hs0', ests⟩ := srv?_stat_of hstat hs
  rw [hs0] at hs0'; cases hs0'
  have esid : s.id = S := srv?_id hs
  have es0id : s0.id = S := srv?_id hs0
  split at h
  · simp only [throw_bind, throw_ne_ok] at h
  · split at h
    · simp only [throw_bind, throw_ne_ok] at h
    · simp only [bind_ok, orAbort_ok] at h
      obtain ⟨anc, hanc, h⟩ := h
      -- the checks of `Server.put` all pass
      have ham0 : a0 ∈ c0.apps := app?_mem ha0
      have ham : a ∈ c.apps := app?_mem ha
      have hsm0 : s0 ∈ c0.srvs := srv?_mem hs0
      have hsm : s ∈ c.srvs := srv?_mem hs
      have hcntlt : ∀ ls : List Nat, S ∈ ls → cnt c.apps ls a0.aff + 1 ≤ cnt c0.apps ls a0.aff :=
        fun ls hin => cnt_shrunk_lt hsh h0.cap.appIds ham0 ham eid hsv0 hnone ls hin
      have hchk : srvCheck (c.putCtx (putApp a true)) s anc = true := by
        have eapp : (c.putCtx (putApp a true)).app = putApp a true := rfl
        have eaff' : (putApp a true).aff = a.aff := rfl
        have edem' : (putApp a true).demand = a.demand := rfl
        have elim' : (putApp a true).limits = a.limits := rfl
        simp only [srvCheck, Bool.and_eq_true, decide_eq_true_eq, List.all_eq_true, Bool.not_eq_true']
        refine ⟨⟨⟨⟨⟨?_, ?_⟩, ?_⟩, ?_⟩, ?_⟩, ?_⟩
        · -- lifetime: the lease is waived
          have : (c.putCtx (putApp a true)).app.lease = 0 := rfl
          simp [lifetimeOk, this]
        · -- partition label
          have e1 : s.label = s0.label := congrArg SrvStat.label ests
          show s.label = (c.allocInfo (putApp a true).alloc).label
          have e2 : (putApp a true).alloc = a.alloc := rfl
          rw [e1, hlab, e2, ealloc]
          unfold Cell.allocInfo; rw [hstat.allocs]
        · -- traits
          have e1 : s.traits = s0.traits := congrArg SrvStat.traits ests
          show hasTraits s.traits (c.appTraits (putApp a true)) = true
          have e2 : c.appTraits (putApp a true) = c0.appTraits a0 := by
            unfold Cell.appTraits Cell.allocInfo
            have : (putApp a true).traits = a.traits := rfl
            have e3 : (putApp a true).alloc = a.alloc := rfl
            rw [this, e3, etr, ealloc, hstat.allocs]
          rw [e1, e2]; exact htr
        · -- server-level affinity limit
          rw [eapp, eaff']
          apply underLimit_of_lt
          intro l hl
          have hl0 : a0.limitAt SERVER_LEVEL = some l := by
            rw [← limitAt_congr (a := putApp a true) (b := a0) (by rw [elim', elim])]; exact hl
          have hold := h0.lim.srv s0 hsm0 a0 ham0 (by rw [hsv0, es0id]) l hl0
          rw [h0.aff.srv s0 hsm0 a0.aff, es0id] at hold
          rw [hall.aff.srv s hsm a.aff, esid, eaff]
          have := hcntlt [S] (by simp)
          omega
        · -- capacity
          rw [eapp, edem', edem]
          obtain ⟨_, hf⟩ := hall.cap.free s hsm
          obtain ⟨hnn, hf0⟩ := h0.cap.free s0 hsm0
          have einit : s.init = s0.init := congrArg SrvStat.init ests
          have hroom := used_shrunk_room hsh h0.cap.appIds h0.cap.demand ham0 ham eid hsv0 hnone
          rw [esid] at hf
          rw [es0id] at hf0
          have hm := congrArg Vec.m hf
          have hcc := congrArg Vec.c hf
          have hd := congrArg Vec.d hf
          have hm0 := congrArg Vec.m hf0
          have hcc0 := congrArg Vec.c hf0
          have hd0 := congrArg Vec.d hf0
          have hi := einit
          unfold Vec.le Vec.nonneg at *
          simp only [Vec.add_m, Vec.add_c, Vec.add_d] at hm hcc hd hm0 hcc0 hd0 hroom
          have i1 := congrArg Vec.m hi
          have i2 := congrArg Vec.c hi
          have i3 := congrArg Vec.d hi
          simp only [Vec.anyGt, Bool.or_eq_false_iff, decide_eq_false_iff_not]
          omega
        · -- affinity limits on every ancestor
          intro bk hbk
          rw [eapp, eaff']
          apply underLimit_of_lt
          intro l hl
          obtain ⟨v, hv, hvb, hvn⟩ := path_sound c.tree S anc hanc bk hbk
          have hvl : S ∈ v.leaves := by
            have := names_iff_leaves hall.tree hsm hv
            rw [esid] at this
            simp only [List.contains_eq_mem] at this
            have hdec : decide (S ∈ v.names) = true := by simpa using hvn
            rw [this] at hdec
            simpa using hdec
          obtain ⟨v0, hv0, _, f2, f3, _⟩ := (reach_treeShape h0.tree.names hreach).1 v hv
          have hl0 : a0.limitAt v0.b.level = some l := by
            rw [← f3, hvb, ← limitAt_congr (a := putApp a true) (b := a0) (by rw [elim', elim])]; exact hl
          have hon : onSrv a0 v0.leaves = true := by
            unfold onSrv; rw [hsv0]; simp only [List.contains_eq_mem, decide_eq_true_eq]; rw [← f2]; exact hvl
          have hold := h0.lim.bkt v0 hv0 a0 ham0 hon l hl0
          rw [h0.aff.bkt v0 hv0 a0.aff] at hold
          rw [← hvb, hall.aff.bkt v hv a.aff, eaff]
          have := hcntlt v.leaves hvl
          rw [f2] at this ⊢
          omega
      rw [hchk] at h
      simp only [Bool.not_true, Bool.false_eq_true, ↓reduceIte, bind_ok, orAbort_ok, pure_ok, Prod.mk.injEq] at h
      obtain ⟨_, _, _, _, _, hb⟩ := h
      exact hb.symm

end TmVerif.Sched
