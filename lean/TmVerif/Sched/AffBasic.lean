/-
  Counters and counting lemmas used by the affinity invariant (C04).
-/
import TmVerif.Sched.InvCap

namespace TmVerif.Sched

/-! ### `collections.Counter` -/

theorem cget_cadd (l : Counter) (k : Nat) (d : Int) (k' : Nat) :
    cget (cadd l k d) k' = cget l k' + (if k = k' then d else 0) := by
  induction l with
  | nil => simp [cadd, cget]
  | cons p t ih =>
    obtain ⟨k0, v⟩ := p
    simp only [cadd]
    by_cases h0 : k0 = k
    · simp only [h0, ↓reduceIte, cget]
      by_cases h1 : k = k' <;> simp [h1]
    · simp only [h0, ↓reduceIte, cget]
      by_cases h1 : k0 = k'
      · have : k ≠ k' := fun e => h0 (h1.trans e.symm)
        simp [h1, this]
      · simp [h1, ih]

theorem cadd_keys (l : Counter) (k : Nat) (d : Int) :
    (cadd l k d).map (·.1) = if k ∈ l.map (·.1) then l.map (·.1) else l.map (·.1) ++ [k] := by
  induction l with
  | nil => simp [cadd]
  | cons p t ih =>
    obtain ⟨k0, v⟩ := p
    simp only [cadd]
    by_cases h0 : k0 = k
    · simp [h0]
    · simp only [h0, ↓reduceIte, List.map_cons, ih, List.mem_cons]
      have : ¬ k = k0 := fun e => h0 e.symm
      by_cases h1 : k ∈ t.map (·.1) <;> simp [h1, this]

theorem cadd_keys_nodup (l : Counter) (k : Nat) (d : Int) (h : (l.map (·.1)).Nodup) :
    ((cadd l k d).map (·.1)).Nodup := by
  rw [cadd_keys]
  split
  · exact h
  · rename_i hk
    rw [List.nodup_append]
    refine ⟨h, by simp, ?_⟩
    intro a ha b hb
    simp only [List.mem_singleton] at hb
    subst hb
    intro e; subst e; exact hk ha

/-- Sum of the entries of a counter list under key `k`. -/
def csum : Counter → Nat → Int
  | [], _ => 0
  | (k', v) :: t, k => (if k' = k then v else 0) + csum t k

theorem csum_notin (l : Counter) (k : Nat) (h : k ∉ l.map (·.1)) : csum l k = 0 := by
  induction l with
  | nil => rfl
  | cons p t ih =>
    obtain ⟨k0, v⟩ := p
    simp only [List.map_cons, List.mem_cons, not_or] at h
    have : ¬ k0 = k := fun e => h.1 e.symm
    simp [csum, this, ih h.2]

theorem csum_eq_cget (l : Counter) (k : Nat) (h : (l.map (·.1)).Nodup) : csum l k = cget l k := by
  induction l with
  | nil => rfl
  | cons p t ih =>
    obtain ⟨k0, v⟩ := p
    simp only [List.map_cons, List.nodup_cons] at h
    simp only [csum, cget]
    by_cases h0 : k0 = k
    · subst h0; simp [csum_notin t k0 h.1]
    · simp [h0, ih h.2]

theorem cget_caddAll (o : Counter) (sign : Int) : ∀ (l : Counter) (k : Nat),
    cget (caddAll l o sign) k = cget l k + sign * csum o k := by
  induction o with
  | nil => intro l k; simp [caddAll, csum]
  | cons p t ih =>
    intro l k
    obtain ⟨k0, v⟩ := p
    have : caddAll l ((k0, v) :: t) sign = caddAll (cadd l k0 (sign * v)) t sign := rfl
    rw [this, ih, cget_cadd]
    simp only [csum]
    by_cases h0 : k0 = k
    · simp only [h0, ↓reduceIte]; rw [Int.mul_add]; omega
    · simp only [h0, ↓reduceIte, Int.zero_add]; omega

theorem caddAll_nil (l : Counter) (sign : Int) : caddAll l [] sign = l := rfl

theorem caddAll_one (l : Counter) (k : Nat) (sign : Int) : caddAll l [(k, 1)] sign = cadd l k sign := by
  simp [caddAll]

/-! ### counting placed apps -/

/-- Is the app placed on one of the servers `ls`? -/
def onSrv (a : App) (ls : List Nat) : Bool :=
  match a.server with
  | some s => ls.contains s
  | none => false

/-- Number of apps of affinity `k` placed on one of the servers `ls`. -/
def cnt (apps : List App) (ls : List Nat) (k : Nat) : Nat :=
  apps.countP (fun a => a.aff == k && onSrv a ls)

theorem countP_upd (apps : List App) (hnd : (apps.map (·.id)).Nodup) (a a' : App) (ha : a ∈ apps)
    (hid : a'.id = a.id) (p : App → Bool) :
    (updApp apps a').countP p + (if p a then 1 else 0) = apps.countP p + (if p a' then 1 else 0) := by
  unfold updApp
  simp only [hid]
  induction apps with
  | nil => cases ha
  | cons x t ih =>
    simp only [List.map_cons, List.nodup_cons] at hnd
    rcases List.mem_cons.mp ha with rfl | hat
    · have htail : t.map (fun y => if y.id = a.id then a' else y) = t := by
        have hall : ∀ y ∈ t, (fun y => if y.id = a.id then a' else y) y = id y := by
          intro y hy
          have : y.id ≠ a.id := by
            intro e; apply hnd.1; rw [← e]; exact List.mem_map_of_mem hy
          simp [this]
        rw [List.map_congr_left hall, List.map_id]
      simp only [List.map_cons, ↓reduceIte, htail, List.countP_cons]
      omega
    · have hne : x.id ≠ a.id := by
        intro e; apply hnd.1; rw [e]; exact List.mem_map_of_mem hat
      rw [List.map_cons, if_neg hne, List.countP_cons, List.countP_cons]
      have := ih hnd.2 hat
      omega

/-- `cnt` after replacing `a` by `a'` (same id). -/
theorem cnt_upd {apps : List App} (hnd : (apps.map (·.id)).Nodup) {a a' : App} (ha : a ∈ apps)
    (hid : a'.id = a.id) (ls : List Nat) (k : Nat) :
    cnt (updApp apps a') ls k + (if (a.aff == k && onSrv a ls) then 1 else 0)
      = cnt apps ls k + (if (a'.aff == k && onSrv a' ls) then 1 else 0) :=
  countP_upd apps hnd a a' ha hid _

theorem cnt_upd_same {apps : List App} (hnd : (apps.map (·.id)).Nodup) {a a' : App} (ha : a ∈ apps)
    (hid : a'.id = a.id) (haff : a'.aff = a.aff) (hsv : a'.server = a.server) (ls : List Nat) (k : Nat) :
    cnt (updApp apps a') ls k = cnt apps ls k := by
  have := cnt_upd hnd ha hid ls k
  have e : onSrv a' ls = onSrv a ls := by unfold onSrv; rw [hsv]
  rw [haff, e] at this
  omega

theorem cnt_map_same (apps : List App) (f : App → App) (haff : ∀ a, (f a).aff = a.aff)
    (hsv : ∀ a, (f a).server = a.server) (ls : List Nat) (k : Nat) :
    cnt (apps.map f) ls k = cnt apps ls k := by
  unfold cnt
  rw [List.countP_map]
  congr 1
  funext a
  simp [Function.comp, onSrv, haff, hsv]

theorem cnt_append (l1 l2 : List App) (ls : List Nat) (k : Nat) :
    cnt (l1 ++ l2) ls k = cnt l1 ls k + cnt l2 ls k := by
  unfold cnt; exact List.countP_append

/-- Apps that are not placed on `ls` can be dropped. -/
theorem cnt_filter (apps : List App) (q : App → Bool) (ls : List Nat) (k : Nat)
    (h : ∀ a ∈ apps, q a = false → onSrv a ls = false) : cnt (apps.filter q) ls k = cnt apps ls k := by
  unfold cnt
  rw [List.countP_filter]
  apply List.countP_congr
  intro a ha
  by_cases hq : q a = true
  · simp [hq]
  · have hq' : q a = false := by simpa using hq
    simp [hq', h a ha hq']

/-- `cnt` only depends on which servers are in the list. -/
theorem cnt_congr_mem (apps : List App) (ls ls' : List Nat) (k : Nat) (h : ∀ x, x ∈ ls ↔ x ∈ ls') :
    cnt apps ls k = cnt apps ls' k := by
  unfold cnt
  apply List.countP_congr
  intro a _
  have : onSrv a ls = onSrv a ls' := by
    unfold onSrv
    cases a.server with
    | none => rfl
    | some s =>
      simp only [List.contains_eq_mem]
      exact decide_eq_decide.mpr (h s)
  rw [this]

/-- Adding servers on which no app is placed does not change the count. -/
theorem cnt_add_empty (apps : List App) (ls ex ls' : List Nat) (k : Nat)
    (hmem : ∀ x, x ∈ ls' ↔ x ∈ ls ∨ x ∈ ex) (hno : ∀ a ∈ apps, ∀ s ∈ ex, a.server ≠ some s) :
    cnt apps ls' k = cnt apps ls k := by
  unfold cnt
  apply List.countP_congr
  intro a ha
  have : onSrv a ls' = onSrv a ls := by
    unfold onSrv
    cases hs : a.server with
    | none => rfl
    | some s =>
      simp only [List.contains_eq_mem]
      apply decide_eq_decide.mpr
      rw [hmem]
      constructor
      · rintro (h | h)
        · exact h
        · exact absurd hs (hno a ha s h)
      · exact Or.inl
  rw [this]

end TmVerif.Sched
