/-
  Keyed-list update lemmas (lists of records with unique `id`s updated by `map`).
-/
import TmVerif.Sched.Ops

namespace TmVerif.Sched

/-! ### keyed-list update lemmas -/

theorem mem_map_upd {α} (f : α → Nat) (l : List α) (v x : α) :
    x ∈ l.map (fun y => if f y = f v then v else y) ↔
      (x ∈ l ∧ f x ≠ f v) ∨ (x = v ∧ ∃ y ∈ l, f y = f v) := by
  simp only [List.mem_map]
  constructor
  · rintro ⟨y, hy, rfl⟩
    by_cases h : f y = f v
    · right; simp only [h, ↓reduceIte]; exact ⟨trivial, y, hy, h⟩
    · left; simp only [h, ↓reduceIte]; exact ⟨hy, h⟩
  · rintro (⟨hx, hne⟩ | ⟨rfl, y, hy, h⟩)
    · exact ⟨x, hx, by simp [hne]⟩
    · exact ⟨y, hy, by simp [h]⟩

theorem map_upd_keys {α} (f : α → Nat) (l : List α) (v : α) :
    (l.map (fun y => if f y = f v then v else y)).map f = l.map f := by
  rw [List.map_map]
  apply List.map_congr_left
  intro y _
  simp only [Function.comp]
  split <;> simp_all

theorem find?_key_unique {α} (f : α → Nat) (l : List α) (h : (l.map f).Nodup) (x : α) (hx : x ∈ l) :
    l.find? (fun y => f y = f x) = some x := by
  induction l with
  | nil => cases hx
  | cons a t ih =>
    simp only [List.map_cons, List.nodup_cons] at h
    rcases List.mem_cons.mp hx with rfl | hx
    · simp
    · have hne : f a ≠ f x := by
        intro e; apply h.1; rw [e]; exact List.mem_map_of_mem hx
      simp only [List.find?_cons, hne, decide_false]
      exact ih h.2 hx

theorem key_unique {α} (f : α → Nat) (l : List α) (h : (l.map f).Nodup) (x y : α) (hx : x ∈ l) (hy : y ∈ l)
    (e : f x = f y) : x = y := by
  have h1 := find?_key_unique f l h x hx
  have h2 := find?_key_unique f l h y hy
  rw [e] at h1
  rw [h1] at h2
  exact Option.some.inj h2

abbrev updApp (apps : List App) (a' : App) : List App := apps.map (fun x => if x.id = a'.id then a' else x)
abbrev updSrv (srvs : List Srv) (s' : Srv) : List Srv := srvs.map (fun x => if x.id = s'.id then s' else x)

theorem mem_updApp {apps : List App} {a' x : App} :
    x ∈ updApp apps a' ↔ (x ∈ apps ∧ x.id ≠ a'.id) ∨ (x = a' ∧ ∃ y ∈ apps, y.id = a'.id) :=
  mem_map_upd (·.id) apps a' x

theorem mem_updSrv {srvs : List Srv} {s' x : Srv} :
    x ∈ updSrv srvs s' ↔ (x ∈ srvs ∧ x.id ≠ s'.id) ∨ (x = s' ∧ ∃ y ∈ srvs, y.id = s'.id) :=
  mem_map_upd (·.id) srvs s' x


abbrev updGrp (gs : List Grp) (g' : Grp) : List Grp := gs.map (fun x => if x.id = g'.id then g' else x)

theorem mem_updGrp {gs : List Grp} {g' x : Grp} :
    x ∈ updGrp gs g' ↔ (x ∈ gs ∧ x.id ≠ g'.id) ∨ (x = g' ∧ ∃ y ∈ gs, y.id = g'.id) :=
  mem_map_upd (·.id) gs g' x

/-- Looking a key up after an update = updating what the lookup found. -/
theorem find?_map_upd {α} (f : α → Nat) (l : List α) (v : α) (k : Nat) :
    (l.map (fun y => if f y = f v then v else y)).find? (fun y => f y = k) =
      (l.find? (fun y => f y = k)).map (fun y => if f y = f v then v else y) := by
  induction l with
  | nil => rfl
  | cons a t ih =>
    simp only [List.map_cons, List.find?_cons]
    by_cases ha : f a = f v
    · simp only [ha, ↓reduceIte]
      by_cases hk : f v = k
      · simp [hk, ha]
      · simp only [hk, decide_false]; exact ih
    · simp only [ha, ↓reduceIte]
      by_cases hk : f a = k
      · subst hk; simp [ha]
      · simp only [hk, decide_false]; exact ih

theorem app?_setApp (c : Cell) (a' : App) (k : Nat) :
    (c.setApp a').app? k = (c.app? k).map (fun y => if y.id = a'.id then a' else y) := by
  unfold Cell.app? Cell.setApp
  exact find?_map_upd (·.id) c.apps a' k

theorem app?_setApp_ne {c : Cell} {a' : App} {k : Nat} (h : k ≠ a'.id) : (c.setApp a').app? k = c.app? k := by
  rw [app?_setApp]
  cases hk : c.app? k with
  | none => rfl
  | some y =>
    have : y.id = k := by
      unfold Cell.app? at hk; have := List.find?_some hk; simpa using this
    simp [this, h]

theorem app?_setApp_self {c : Cell} {a a' : App} (h : c.app? a'.id = some a) : (c.setApp a').app? a'.id = some a' := by
  rw [app?_setApp, h]
  have : a.id = a'.id := by
    unfold Cell.app? at h; have := List.find?_some h; simpa using this
  simp [this]

/-- After `setApp x`, the record found for any key is either `x` or what was found before. -/
theorem setApp_cases {c : Cell} {a a' x : App} {y : Nat} (ha : c.app? y = some a)
    (hx : (c.setApp x).app? y = some a') : a' = x ∨ a' = a := by
  rw [app?_setApp, ha] at hx
  simp only [Option.map_some, Option.some.injEq] at hx
  rw [← hx]
  split
  · exact Or.inl rfl
  · exact Or.inr rfl

theorem setApp_cases' {c c0 : Cell} {a a' x : App} {y : Nat} (happs : c0.apps = c.apps) (ha : c.app? y = some a)
    (hx : (c0.setApp x).app? y = some a') : a' = x ∨ a' = a := by
  have ha0 : c0.app? y = some a := by unfold Cell.app?; rw [happs]; exact ha
  exact setApp_cases ha0 hx

/-- Looking up the key of the record just written finds that record. -/
theorem setApp_self' {c c0 : Cell} {a a' x : App} {y : Nat} (happs : c0.apps = c.apps) (ha : c.app? y = some a)
    (hid : x.id = y) (hx : (c0.setApp x).app? y = some a') : a' = x := by
  have ha0 : c0.app? y = some a := by unfold Cell.app?; rw [happs]; exact ha
  rw [app?_setApp, ha0] at hx
  simp only [Option.map_some, Option.some.injEq] at hx
  have : a.id = x.id := by
    have h1 : a.id = y := by
      unfold Cell.app? at ha; have := List.find?_some ha; simpa using this
    rw [h1, hid]
  rw [if_pos this] at hx
  exact hx.symm

theorem srv?_setSrv (c : Cell) (s' : Srv) (k : Nat) :
    (c.setSrv s').srv? k = (c.srv? k).map (fun y => if y.id = s'.id then s' else y) := by
  unfold Cell.srv? Cell.setSrv
  exact find?_map_upd (·.id) c.srvs s' k

theorem grp?_setGrp (c : Cell) (g' : Grp) (k : Nat) :
    (c.setGrp g').grp? k = (c.grp? k).map (fun y => if y.id = g'.id then g' else y) := by
  unfold Cell.grp? Cell.setGrp
  exact find?_map_upd (·.id) c.groups g' k

end TmVerif.Sched
