/-
  C02 — the free-capacity aggregate of every bucket bounds the free capacity of every up child
  (`Bucket.adjust_capacity_up` / `adjust_capacity_down`), hence of every up server below it.
  This file: the per-bucket step.
-/
import TmVerif.Sched.InvAffOps

namespace TmVerif.Sched

namespace Vec
theorem le_refl' (a : Vec) : a.le a := ⟨Int.le_refl _, Int.le_refl _, Int.le_refl _⟩
theorem le_trans' {a b c : Vec} (h1 : a.le b) (h2 : b.le c) : a.le c :=
  ⟨Int.le_trans h1.1 h2.1, Int.le_trans h1.2.1 h2.2.1, Int.le_trans h1.2.2 h2.2.2⟩
theorem le_vmax_left (a b : Vec) : a.le (a.vmax b) := by
  unfold Vec.le Vec.vmax; simp only; omega
theorem le_vmax_right (a b : Vec) : b.le (a.vmax b) := by
  unfold Vec.le Vec.vmax; simp only; omega
theorem vmax_le {a b c : Vec} (h1 : a.le c) (h2 : b.le c) : (a.vmax b).le c := by
  unfold Vec.le Vec.vmax at *; simp only; omega
theorem zero_nonneg : Vec.zero.nonneg := by unfold Vec.nonneg Vec.zero; simp
theorem nonneg_of_le {a b : Vec} (h : a.nonneg) (hle : a.le b) : b.nonneg := by
  unfold Vec.nonneg Vec.le at *; omega
theorem nonneg_iff_zero_le (a : Vec) : a.nonneg ↔ Vec.zero.le a := by
  unfold Vec.nonneg Vec.le Vec.zero; simp
end Vec

/-- Every counted child (an up server, or any bucket) is bounded by `f`. -/
def KidsLe (srvs : List Srv) (f : Vec) (cs : List (Option Tree)) : Prop :=
  ∀ t, some t ∈ cs → (childView srvs t).1 = true → (childView srvs t).2.le f

def upFold (srvs : List Srv) (acc : Vec) (c : Option Tree) : Vec :=
  match c with
  | none => acc
  | some t => let v := childView srvs t; if v.1 then acc.vmax v.2 else acc

theorem maxUpFree_eq (srvs : List Srv) (cs : List (Option Tree)) :
    maxUpFree srvs cs = cs.foldl (upFold srvs) Vec.zero := rfl

theorem foldl_upFold_ge (srvs : List Srv) : ∀ (cs : List (Option Tree)) (acc : Vec),
    acc.le (cs.foldl (upFold srvs) acc)
  | [], acc => Vec.le_refl' acc
  | c :: r, acc => by
    simp only [List.foldl_cons]
    refine Vec.le_trans' ?_ (foldl_upFold_ge srvs r _)
    unfold upFold
    cases c with
    | none => exact Vec.le_refl' _
    | some t =>
      simp only
      split
      · exact Vec.le_vmax_left _ _
      · exact Vec.le_refl' _

theorem foldl_upFold_bound (srvs : List Srv) : ∀ (cs : List (Option Tree)) (acc : Vec),
    KidsLe srvs (cs.foldl (upFold srvs) acc) cs
  | [], _ => by intro t ht; cases ht
  | c :: r, acc => by
    intro t ht hup
    simp only [List.foldl_cons]
    rcases List.mem_cons.mp ht with e | ht
    · subst e
      refine Vec.le_trans' ?_ (foldl_upFold_ge srvs r _)
      simp only [upFold, hup, ↓reduceIte]
      exact Vec.le_vmax_right _ _
    · exact foldl_upFold_bound srvs r _ t ht hup

theorem foldl_upFold_le (srvs : List Srv) (f : Vec) : ∀ (cs : List (Option Tree)) (acc : Vec),
    acc.le f → KidsLe srvs f cs → (cs.foldl (upFold srvs) acc).le f
  | [], acc, h, _ => h
  | c :: r, acc, h, hk => by
    simp only [List.foldl_cons]
    refine foldl_upFold_le srvs f r _ ?_ (fun t ht => hk t (List.mem_cons_of_mem _ ht))
    unfold upFold
    cases c with
    | none => exact h
    | some t =>
      simp only
      split
      · rename_i hup
        exact Vec.vmax_le h (hk t List.mem_cons_self hup)
      · exact h

theorem maxUpFree_bound (srvs : List Srv) (cs : List (Option Tree)) : KidsLe srvs (maxUpFree srvs cs) cs :=
  foldl_upFold_bound srvs cs Vec.zero

theorem maxUpFree_nonneg (srvs : List Srv) (cs : List (Option Tree)) : (maxUpFree srvs cs).nonneg :=
  (Vec.nonneg_iff_zero_le _).mpr (foldl_upFold_ge srvs cs Vec.zero)

theorem maxUpFree_le (srvs : List Srv) (cs : List (Option Tree)) {f : Vec} (hf : f.nonneg) (hk : KidsLe srvs f cs) :
    (maxUpFree srvs cs).le f :=
  foldl_upFold_le srvs f cs Vec.zero ((Vec.nonneg_iff_zero_le _).mp hf) hk

theorem kidsLe_mono {srvs : List Srv} {f g : Vec} {cs : List (Option Tree)} (h : KidsLe srvs f cs) (hfg : f.le g) :
    KidsLe srvs g cs := fun t ht hup => Vec.le_trans' (h t ht hup) hfg

/-- What a message tells the parent about the child it comes from: `ov` / `nv` are the child's view
    before / after. -/
def MsgIn (m : CapMsg) (ov nv : Bool × Vec) : Prop :=
  match m with
  | .stop => nv = ov
  | .up v => nv.1 = true → nv.2.le v
  | .down _ => nv.1 = true → ov.1 = true ∧ nv.2.le ov.2

/-- **One bucket.**  `b` bounded its children before; now all children but one are as they were and the
    changed one obeys the message's contract (or, `changed = none`, nothing but possibly a removal
    happened).  After `capStep` the bucket bounds all its children again, its aggregate is still
    non-negative, and the message it sends obeys the contract for the bucket itself. -/
theorem capStep_ok (srvs : List Srv) (b : Bkt) (cs : List (Option Tree)) (m : CapMsg)
    (hnn : b.free.nonneg)
    (hkids : ∀ t, some t ∈ cs → (childView srvs t).1 = true →
      (childView srvs t).2.le b.free ∨
      ∃ ov : Bool × Vec, (ov.1 = true → ov.2.le b.free) ∧ MsgIn m ov (childView srvs t)) :
    (capStep srvs b cs m).1.free.nonneg ∧ KidsLe srvs (capStep srvs b cs m).1.free cs ∧
    MsgIn (capStep srvs b cs m).2 (true, b.free) (true, (capStep srvs b cs m).1.free) := by
  cases m with
  | stop =>
    refine ⟨hnn, ?_, rfl⟩
    intro t ht hup
    rcases hkids t ht hup with h | ⟨ov, hov, hm⟩
    · exact h
    · simp only [MsgIn] at hm
      rw [hm] at hup ⊢
      exact hov hup
  | up v =>
    simp only [capStep]
    refine ⟨Vec.nonneg_of_le hnn (Vec.le_vmax_left _ _), ?_, ?_⟩
    · intro t ht hup
      rcases hkids t ht hup with h | ⟨ov, _, hm⟩
      · exact Vec.le_trans' h (Vec.le_vmax_left _ _)
      · exact Vec.le_trans' (hm hup) (Vec.le_vmax_right _ _)
    · intro _; exact Vec.le_refl' _
  | down prev =>
    -- in every branch the children were bounded by the old aggregate
    have hold : KidsLe srvs b.free cs := by
      intro t ht hup
      rcases hkids t ht hup with h | ⟨ov, hov, hm⟩
      · exact h
      · obtain ⟨hou, hle⟩ := hm hup
        exact Vec.le_trans' hle (hov hou)
    have hrecomp : ∀ (r : Bkt × CapMsg),
        r = (if (maxUpFree srvs cs).anyLt b.free then
              ({ b with free := maxUpFree srvs cs }, CapMsg.down (some b.free)) else (b, CapMsg.stop)) →
        r.1.free.nonneg ∧ KidsLe srvs r.1.free cs ∧ MsgIn r.2 (true, b.free) (true, r.1.free) := by
      intro r hr
      by_cases hlt : (maxUpFree srvs cs).anyLt b.free = true
      · rw [if_pos hlt] at hr; subst hr
        refine ⟨maxUpFree_nonneg srvs cs, maxUpFree_bound srvs cs, ?_⟩
        intro _; exact ⟨rfl, maxUpFree_le srvs cs hnn hold⟩
      · rw [if_neg hlt] at hr; subst hr
        exact ⟨hnn, hold, rfl⟩
    simp only [capStep]
    by_cases hempty : bucketEmpty cs = true
    · simp only [hempty, ↓reduceIte]
      refine ⟨Vec.zero_nonneg, ?_, ?_⟩
      · intro t ht _
        exfalso
        simp only [bucketEmpty, List.all_eq_true] at hempty
        have := hempty _ ht
        simp at this
      · intro _; exact ⟨rfl, (Vec.nonneg_iff_zero_le _).mp hnn⟩
    · simp only [hempty, Bool.false_eq_true, ↓reduceIte]
      cases prev with
      | none =>
        simp only [Bool.false_eq_true, ↓reduceIte]
        exact hrecomp _ rfl
      | some p =>
        simp only
        by_cases hskip : p.allLt b.free = true
        · simp only [hskip, ↓reduceIte]
          exact ⟨hnn, hold, rfl⟩
        · simp only [hskip, Bool.false_eq_true, ↓reduceIte]
          exact hrecomp _ rfl

end TmVerif.Sched
