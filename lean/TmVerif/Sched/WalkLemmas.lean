/-
  C02 — the `while True` loop of `Bucket.put` visits every child (in the spread strategy's cyclic
  order, starting at the cursor) before it gives up: if the search of some child finds a server, so
  does the loop.
-/
import TmVerif.Sched.Tree

namespace TmVerif.Sched

/-- Index `i` holds a child (not a hole left by `remove_node`). -/
def NH (cs : List (Option Tree)) (i : Nat) : Prop := ∃ t, cs[i]? = some (some t)

/-- Cyclic distance from cursor position `idx` (`idx = len` means "wrap to 0") forward to index `k`. -/
def cd (len idx k : Nat) : Nat := if idx ≤ k then k - idx else k + len - idx

theorem nh_lt {cs : List (Option Tree)} {i : Nat} (h : NH cs i) : i < cs.length := by
  obtain ⟨t, ht⟩ := h
  exact (List.getElem?_eq_some_iff.mp ht).1

/-- `suggest` returns the first child at or after the cursor, in cyclic order. -/
theorem suggest_next (cs : List (Option Tree)) : ∀ (fuel idx k : Nat), idx ≤ cs.length → NH cs k →
    cd cs.length idx k < fuel →
    ∃ j, suggest cs idx fuel = (some j, j + 1) ∧ NH cs j ∧ cd cs.length idx j ≤ cd cs.length idx k := by
  intro fuel
  induction fuel with
  | zero => intro idx k _ _ h; omega
  | succ n ih =>
    intro idx k hidx hk hfuel
    have hklt := nh_lt hk
    simp only [suggest]
    by_cases hwrap : idx = cs.length
    · -- wrap to 0
      simp only [hwrap, ↓reduceIte]
      cases h0 : cs[0]? with
      | none =>
        exfalso
        have : cs.length = 0 := by
          cases cs with
          | nil => rfl
          | cons a t => simp at h0
        omega
      | some c0 =>
        cases c0 with
        | some t0 =>
          refine ⟨0, rfl, ⟨t0, h0⟩, ?_⟩
          unfold cd; split <;> split <;> omega
        | none =>
          simp only
          have hk0 : k ≠ 0 := by
            intro e; subst e
            obtain ⟨t, ht⟩ := hk
            rw [h0] at ht; cases ht
          have hcd : cd cs.length 1 k < n := by
            unfold cd at hfuel ⊢
            rw [hwrap] at hfuel
            split at hfuel <;> split <;> omega
          obtain ⟨j, hj, hnh, hle⟩ := ih 1 k (by omega) hk hcd
          refine ⟨j, hj, hnh, ?_⟩
          have hjlt := nh_lt hnh
          unfold cd at hle ⊢
          split at hle <;> split at hle <;> split <;> split <;> omega
    · simp only [hwrap, ↓reduceIte]
      have hidx' : idx < cs.length := by omega
      cases hi : cs[idx]? with
      | none =>
        exfalso
        have := List.getElem?_eq_none_iff.mp hi
        omega
      | some ci =>
        cases ci with
        | some ti =>
          refine ⟨idx, rfl, ⟨ti, hi⟩, ?_⟩
          unfold cd; split <;> split <;> omega
        | none =>
          simp only
          have hki : k ≠ idx := by
            intro e; subst e
            obtain ⟨t, ht⟩ := hk
            rw [hi] at ht; cases ht
          have hcd : cd cs.length (idx + 1) k < n := by
            unfold cd at hfuel ⊢
            split at hfuel <;> split <;> omega
          obtain ⟨j, hj, hnh, hle⟩ := ih (idx + 1) k (by omega) hk hcd
          refine ⟨j, hj, hnh, ?_⟩
          have hjlt := nh_lt hnh
          unfold cd at hle ⊢
          split at hle <;> split at hle <;> split <;> split <;> omega

/-- `suggest` only looks at which positions hold a child. -/
theorem suggest_congr (cs cs' : List (Option Tree)) (hlen : cs'.length = cs.length)
    (hnh : ∀ i : Nat, (∃ t, cs'[i]? = some (some t)) ↔ (∃ t, cs[i]? = some (some t))) :
    ∀ (fuel idx : Nat), suggest cs' idx fuel = suggest cs idx fuel := by
  intro fuel
  induction fuel with
  | zero => intro idx; rfl
  | succ n ih =>
    intro idx
    simp only [suggest, hlen]
    generalize hi : (if idx = cs.length then 0 else idx) = i
    have h1 := hnh i
    cases h' : cs'[i]? with
    | none =>
      cases h : cs[i]? with
      | none => simp only; exact ih _
      | some c =>
        exfalso
        have l1 := List.getElem?_eq_none_iff.mp h'
        have l2 := (List.getElem?_eq_some_iff.mp h).1
        omega
    | some c' =>
      cases h : cs[i]? with
      | none =>
        exfalso
        have l1 := List.getElem?_eq_none_iff.mp h
        have l2 := (List.getElem?_eq_some_iff.mp h').1
        omega
      | some c =>
        cases c' with
        | some t' =>
          have : ∃ t, cs[i]? = some (some t) := h1.mp ⟨t', h'⟩
          obtain ⟨t, ht⟩ := this
          rw [h] at ht; cases ht
          rfl
        | none =>
          cases c with
          | none => simp only; exact ih _
          | some t =>
            exfalso
            obtain ⟨t', ht'⟩ := h1.mpr ⟨t, h⟩
            rw [h'] at ht'; cases ht'

theorem nh_set {cs : List (Option Tree)} {cur : Nat} {t' : Tree} (hc : NH cs cur) (i : Nat) :
    NH (cs.set cur (some t')) i ↔ NH cs i := by
  unfold NH
  by_cases e : i = cur
  · subst e
    have hlt := nh_lt hc
    constructor
    · intro _; exact hc
    · intro _; exact ⟨t', by simp [List.getElem?_set, hlt]⟩
  · have : (cs.set cur (some t'))[i]? = cs[i]? := by
      rw [List.getElem?_set]; simp [Ne.symm e]
    rw [this]

theorem cd_lt (len idx k : Nat) (hk : k < len) (hidx : idx ≤ len) : cd len idx k < len := by
  unfold cd; split <;> omega

theorem pos_step (len first cur k j : Nat) (hf : first < len) (hc : cur < len) (hk : k < len) (hj : j < len)
    (hlt : cd len first cur < cd len first k) (hjle : cd len (cur + 1) j ≤ cd len (cur + 1) k) :
    cd len first cur < cd len first j ∧ cd len first j ≤ cd len first k := by
  unfold cd at *
  by_cases h1 : first ≤ cur <;> by_cases h2 : first ≤ k <;> by_cases h3 : first ≤ j <;>
    by_cases h4 : cur + 1 ≤ j <;> by_cases h5 : cur + 1 ≤ k <;>
    simp only [h1, h2, h3, h4, h5, ↓reduceIte] at hlt hjle ⊢ <;> omega

/-- **The loop finds a server whenever some child's search does.** -/
theorem walk_complete (res : List (Option (Tree × Option Nat))) (first : Nat) (cs0 : List (Option Tree)) (k : Nat)
    (hk : ∃ t' sid, res[k]? = some (some (t', some sid))) (hknh : NH cs0 k) (hfirst : first < cs0.length) :
    ∀ (fuel : Nat) (cs : List (Option Tree)) (idx cur : Nat) (isFirst : Bool),
      cs.length = cs0.length → (∀ i, NH cs i ↔ NH cs0 i) → NH cs0 cur → idx = cur + 1 →
      (isFirst = true → cur = first) → (isFirst = false → 0 < cd cs0.length first cur) →
      cd cs0.length first cur ≤ cd cs0.length first k →
      cd cs0.length first k - cd cs0.length first cur < fuel →
      (walk res first fuel cs idx cur isFirst).2.2 ≠ none := by
  intro fuel
  induction fuel with
  | zero => intro cs idx cur isFirst _ _ _ _ _ _ _ h; omega
  | succ n ih =>
    intro cs idx cur isFirst hlen hnh hcur hidx hf1 hf2 hle hfuel
    have hklt := nh_lt hknh
    have hcurlt := nh_lt hcur
    simp only [walk]
    -- the stop test does not fire
    have hstop : (!isFirst && decide (cur = first)) = false := by
      cases isFirst with
      | true => rfl
      | false =>
        have := hf2 rfl
        have hne : cur ≠ first := by
          intro e; subst e
          unfold cd at this; simp at this
        simp [hne]
    rw [hstop]
    simp only [Bool.false_eq_true, ↓reduceIte]
    -- what a non-finding visit of `cur` leads to
    have next : ∀ (cs' : List (Option Tree)), cs'.length = cs0.length → (∀ i, NH cs' i ↔ NH cs0 i) →
        k ≠ cur →
        (match suggest cs' idx cs'.length with
          | (some nx, idx') => walk res first n cs' idx' nx false
          | (none, idx') => (cs', idx', none)).2.2 ≠ none := by
      intro cs' hlen' hnh' hkc
      have hcongr := suggest_congr cs0 cs' hlen' (fun i => hnh' i) cs'.length idx
      rw [hcongr, hlen']
      obtain ⟨j, hj, hjnh, hjle⟩ := suggest_next cs0 cs0.length idx k (by omega) hknh
        (cd_lt _ _ _ hklt (by omega))
      rw [hj]
      simp only
      have hjlt := nh_lt hjnh
      -- positions relative to `first`
      have hpos : cd cs0.length first cur < cd cs0.length first j ∧ cd cs0.length first j ≤ cd cs0.length first k := by
        subst hidx
        have hlt : cd cs0.length first cur < cd cs0.length first k := by
          have : cd cs0.length first cur ≠ cd cs0.length first k := by
            intro e
            apply hkc
            unfold cd at e
            by_cases h1 : first ≤ cur <;> by_cases h2 : first ≤ k <;>
              simp only [h1, h2, ↓reduceIte] at e <;> omega
          omega
        exact pos_step cs0.length first cur k j hfirst hcurlt hklt hjlt hlt hjle
      exact ih cs' (j + 1) j false hlen' hnh' hjnh rfl (by intro e; cases e) (fun _ => by omega) hpos.2 (by omega)
    split
    · rename_i t' sid heq
      simp
    · rename_i t' heq
      have hkc : k ≠ cur := by
        intro e; subst e
        obtain ⟨t2, s2, h2⟩ := hk
        rw [heq] at h2; cases h2
      have hcs_cur : NH cs cur := (hnh cur).mpr hcur
      exact next (cs.set cur (some t')) (by simp [hlen]) (fun i => (nh_set hcs_cur i).trans (hnh i)) hkc
    · rename_i hother1 hother2
      have hkc : k ≠ cur := by
        intro e; subst e
        obtain ⟨t2, s2, h2⟩ := hk
        exact hother1 t2 s2 h2
      exact next cs hlen hnh hkc

end TmVerif.Sched
