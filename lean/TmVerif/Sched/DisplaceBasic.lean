/-
  C07 — basics: comparing two states of one cycle whose placements only shrank
  ("every instance is where it was, or nowhere"): counts and used capacity can only drop.
-/
import TmVerif.Sched.InvAffOps
import TmVerif.Sched.Const

namespace TmVerif.Sched

/-! ### aligned app lists -/

/-- Two app lists with the same ids in the same order, related pointwise. -/
theorem forall2_of_lookup (R : App → App → Prop) : ∀ (l0 l : List App),
    l.map (·.id) = l0.map (·.id) → (l0.map (·.id)).Nodup →
    (∀ x a0 a, l0.find? (fun y => y.id = x) = some a0 → l.find? (fun y => y.id = x) = some a → R a0 a) →
    TmVerif.Forall2 R l0 l
  | [], [], _, _, _ => .nil
  | [], _ :: _, h, _, _ => by simp at h
  | _ :: _, [], h, _, _ => by simp at h
  | a0 :: t0, a :: t, hids, hnd, hR => by
    simp only [List.map_cons, List.cons.injEq] at hids
    simp only [List.map_cons, List.nodup_cons] at hnd
    refine .cons ?_ (forall2_of_lookup R t0 t hids.2 hnd.2 ?_)
    · exact hR a0.id a0 a (by simp) (by simp [hids.1])
    · intro x b0 b hb0 hb
      have hx0 : b0.id = x := by simpa using List.find?_some hb0
      have hmem : b0 ∈ t0 := List.mem_of_find?_eq_some hb0
      have hne0 : a0.id ≠ x := by
        intro e; apply hnd.1; rw [e, ← hx0]; exact List.mem_map_of_mem hmem
      have hne : a.id ≠ x := by rw [hids.1]; exact hne0
      exact hR x b0 b (by simp [hne0, hb0]) (by simp [hne, hb])

/-- "Where it was, or nowhere", with the static data that matter for counting. -/
def Shrunk (a0 a : App) : Prop :=
  a.id = a0.id ∧ a.aff = a0.aff ∧ a.demand = a0.demand ∧ (a.server = a0.server ∨ a.server = none)

theorem shrunk_ids {l0 l : List App} (h : TmVerif.Forall2 Shrunk l0 l) : l.map (·.id) = l0.map (·.id) := by
  induction h with
  | nil => rfl
  | cons hr _ ih => simp [hr.1, ih]

theorem cnt_shrunk {l0 l : List App} (h : TmVerif.Forall2 Shrunk l0 l) (ls : List Nat) (k : Nat) :
    cnt l ls k ≤ cnt l0 ls k := by
  unfold cnt
  induction h with
  | nil => exact Nat.le_refl _
  | @cons a0 a t0 t hr _ ih =>
    simp only [List.countP_cons]
    obtain ⟨_, haff, _, hsv⟩ := hr
    have : (if (a.aff == k && onSrv a ls) = true then 1 else 0) ≤ (if (a0.aff == k && onSrv a0 ls) = true then 1 else 0) := by
      rcases hsv with e | e
      · have : onSrv a ls = onSrv a0 ls := by unfold onSrv; rw [e]
        rw [haff, this]; exact Nat.le_refl _
      · have : onSrv a ls = false := by unfold onSrv; rw [e]
        rw [this]; simp
    omega

/-- …strictly, for the affinity and any server list containing the server of an app that lost its
    placement. -/
theorem cnt_shrunk_lt {l0 l : List App} (h : TmVerif.Forall2 Shrunk l0 l) (hnd : (l0.map (·.id)).Nodup)
    {x0 x : App} (hx0 : x0 ∈ l0) (hx : x ∈ l) (hid : x.id = x0.id) {sid : Nat} (hs0 : x0.server = some sid)
    (hs : x.server = none) (ls : List Nat) (hin : sid ∈ ls) :
    cnt l ls x0.aff + 1 ≤ cnt l0 ls x0.aff := by
  unfold cnt
  induction h with
  | nil => cases hx0
  | @cons a0 a t0 t hr hrest ih =>
    simp only [List.map_cons, List.nodup_cons] at hnd
    simp only [List.countP_cons]
    obtain ⟨hida, haff, _, hsv⟩ := hr
    have hmono := cnt_shrunk hrest ls x0.aff
    unfold cnt at hmono
    have hle : (if (a.aff == x0.aff && onSrv a ls) = true then 1 else 0) ≤
        (if (a0.aff == x0.aff && onSrv a0 ls) = true then 1 else 0) := by
      rcases hsv with e | e
      · have : onSrv a ls = onSrv a0 ls := by unfold onSrv; rw [e]
        rw [haff, this]; exact Nat.le_refl _
      · have : onSrv a ls = false := by unfold onSrv; rw [e]
        rw [this]; simp
    rcases List.mem_cons.mp hx0 with e0 | hx0t
    · -- the head is x0: then the head of l is x
      subst e0
      have hxa : x = a := by
        rcases List.mem_cons.mp hx with e | hxt
        · exact e
        · exfalso
          -- x ∈ t has the id of the head, contradicting Nodup (ids of t = ids of t0)
          have hids : t.map (·.id) = t0.map (·.id) := shrunk_ids hrest
          apply hnd.1
          rw [← hid, ← hids]; exact List.mem_map_of_mem hxt
      subst hxa
      have h1 : onSrv x ls = false := by unfold onSrv; rw [hs]
      have h2 : onSrv x0 ls = true := by unfold onSrv; rw [hs0]; simpa using hin
      simp only [h1, h2, Bool.and_false, Bool.false_eq_true, ↓reduceIte, beq_self_eq_true, Bool.and_true]
      omega
    · have hxt : x ∈ t := by
        rcases List.mem_cons.mp hx with e | hxt
        · exfalso
          subst e
          apply hnd.1
          rw [← hida, hid]; exact List.mem_map_of_mem hx0t
        · exact hxt
      have := ih hnd.2 hx0t hxt
      omega

theorem used_shrunk {l0 l : List App} (h : TmVerif.Forall2 Shrunk l0 l)
    (hdem : ∀ a ∈ l0, a.demand.nonneg) (sid : Nat) :
    (used l sid).le (used l0 sid) := by
  induction h with
  | nil => exact ⟨Int.le_refl _, Int.le_refl _, Int.le_refl _⟩
  | @cons a0 a t0 t hr _ ih =>
    obtain ⟨_, _, hd, hsv⟩ := hr
    have ih' := ih (fun b hb => hdem b (List.mem_cons_of_mem _ hb))
    have hn := hdem a0 List.mem_cons_self
    simp only [used_cons]
    unfold Vec.le Vec.nonneg at *
    rcases hsv with e | e
    · rw [e, hd]
      split
      · simp only [Vec.add_m, Vec.add_c, Vec.add_d]; omega
      · exact ih'
    · rw [e]
      simp only [reduceCtorEq, ↓reduceIte]
      split
      · simp only [Vec.add_m, Vec.add_c, Vec.add_d]; omega
      · exact ih'

/-- …with room for the demand of an app that lost its placement on `sid`. -/
theorem used_shrunk_room {l0 l : List App} (h : TmVerif.Forall2 Shrunk l0 l) (hnd : (l0.map (·.id)).Nodup)
    (hdem : ∀ a ∈ l0, a.demand.nonneg)
    {x0 x : App} (hx0 : x0 ∈ l0) (hx : x ∈ l) (hid : x.id = x0.id) {sid : Nat} (hs0 : x0.server = some sid)
    (hs : x.server = none) :
    (used l sid + x0.demand).le (used l0 sid) := by
  induction h with
  | nil => cases hx0
  | @cons a0 a t0 t hr hrest ih =>
    simp only [List.map_cons, List.nodup_cons] at hnd
    obtain ⟨hida, _, hd, hsv⟩ := hr
    have hdem' : ∀ b ∈ t0, b.demand.nonneg := fun b hb => hdem b (List.mem_cons_of_mem _ hb)
    have hn := hdem a0 List.mem_cons_self
    have hmono := used_shrunk hrest hdem' sid
    simp only [used_cons]
    rcases List.mem_cons.mp hx0 with e0 | hx0t
    · subst e0
      have hxa : x = a := by
        rcases List.mem_cons.mp hx with e | hxt
        · exact e
        · exfalso
          have hids : t.map (·.id) = t0.map (·.id) := shrunk_ids hrest
          apply hnd.1
          rw [← hid, ← hids]; exact List.mem_map_of_mem hxt
      subst hxa
      rw [hs, hs0]
      simp only [reduceCtorEq, ↓reduceIte]
      unfold Vec.le at *
      simp only [Vec.add_m, Vec.add_c, Vec.add_d]
      omega
    · have hxt : x ∈ t := by
        rcases List.mem_cons.mp hx with e | hxt
        · exfalso
          subst e
          apply hnd.1
          rw [← hida, hid]; exact List.mem_map_of_mem hx0t
        · exact hxt
      have ih' := ih hnd.2 hdem' hx0t hxt
      unfold Vec.le Vec.nonneg at *
      rcases hsv with e | e
      · rw [e, hd]
        split
        · simp only [Vec.add_m, Vec.add_c, Vec.add_d] at ih' ⊢; omega
        · exact ih'
      · rw [e]
        simp only [reduceCtorEq, ↓reduceIte]
        split
        · simp only [Vec.add_m, Vec.add_c, Vec.add_d] at ih' ⊢; omega
        · exact ih'

end TmVerif.Sched
