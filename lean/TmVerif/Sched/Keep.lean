/-
  C08: an app on a server that is not up, and that none of the stated exceptions applies to,
  is never touched by a cycle.
-/
import TmVerif.Sched.Track

namespace TmVerif.Sched

/-- Hypotheses about app `x` (record `a` at cycle start `c0`) on server `sid` (record `s`). -/
structure KeepHyp (c0 : Cell) (x : Nat) (a : App) (sid : Nat) (s : Srv) : Prop where
  app : c0.app? x = some a
  srv : c0.srv? sid = some s
  on : a.server = some sid
  notBl : a.blacklisted = false
  notRenew : a.renew = false
  hasId : a.hasIdentity = true
  idValid : ∀ k g grp, a.identity = some k → a.group = some g → c0.grp? g = some grp → k < grp.count
  labelOk : s.label = (c0.allocInfo a.alloc).label
  traitsOk : c0.appTraits a = 0 ∨ hasTraits s.traits (c0.appTraits a) = true
  stay : (s.state = .down → c0.now < expiresAt s a) ∧ (s.state = .frozen → a.unschedule = false)

/-- The loop invariant: `x` still sits on `sid` with the fields the exceptions look at unchanged. -/
def Keep (c0 : Cell) (x : Nat) (a : App) (sid : Nat) (ci : Cell) : Prop :=
  SameStatic c0 ci ∧ InvCap ci ∧
  ∃ ai, ci.app? x = some ai ∧ ai.server = some sid ∧ ai.identity = a.identity ∧
    ai.unschedule = a.unschedule ∧ ai.renew = false

/-- What the steps of a cycle may be, as far as `x` is concerned. -/
def StepOk (x sid : Nat) (nu : Prop) (ci : Cell) (lab : Lab) : Prop :=
  PreOk ci lab ∨ lab = .clearEv ∨
  nu ∧ ∃ a0 unpl after, PlaceOk a0 unpl after ci lab ∧
    (a0.id = x → a0.server = some sid ∧ a0.renew = false ∧ unpl = false)

theorem allocInfo_same {c c' : Cell} (h : c'.allocs = c.allocs) (al : Nat) : c'.allocInfo al = c.allocInfo al := by
  unfold Cell.allocInfo; rw [h]

theorem no_just {c0 ci : Cell} {x : Nat} {a ai : App} {sid : Nat} {s s0 : Srv} (hh : KeepHyp c0 x a sid s)
    (hs : SameStatic c0 ci) (hstat : ai.stat = a.stat) (hidn : ai.identity = a.identity)
    (hun : ai.unschedule = a.unschedule) (hs0 : s0.stat = s.stat) : ¬ RemovalJustified ci ai s0 := by
  have e_bl : ai.blacklisted = a.blacklisted := congrArg AppStat.blacklisted hstat
  have e_ret : ai.retention = a.retention := congrArg AppStat.retention hstat
  have e_grp : ai.group = a.group := congrArg AppStat.group hstat
  have e_tr : ai.traits = a.traits := congrArg AppStat.traits hstat
  have e_al : ai.alloc = a.alloc := congrArg AppStat.alloc hstat
  have e_lab : s0.label = s.label := congrArg SrvStat.label hs0
  have e_str : s0.traits = s.traits := congrArg SrvStat.traits hs0
  have e_st : s0.state = s.state := congrArg SrvStat.state hs0
  have e_si : s0.since = s.since := congrArg SrvStat.since hs0
  have e_ai : ci.allocInfo ai.alloc = c0.allocInfo a.alloc := by rw [e_al]; exact allocInfo_same hs.allocs _
  have e_at : ci.appTraits ai = c0.appTraits a := by unfold Cell.appTraits; rw [e_tr, e_ai]
  have e_exp : expiresAt s0 ai = expiresAt s a := by unfold expiresAt; rw [e_ret, e_si]
  have e_hid : ai.hasIdentity = a.hasIdentity := by unfold App.hasIdentity; rw [e_grp, hidn]
  intro hj
  rcases hj with hm | ⟨hd, he⟩ | ⟨hf, hu⟩ | hb | hi
  · rcases hm with hl | ⟨hne, hf⟩
    · apply hl; rw [e_lab, e_ai]; exact hh.labelOk
    · rw [e_at] at hne hf; rw [e_str] at hf
      rcases hh.traitsOk with h0 | h1
      · exact hne h0
      · rw [h1] at hf; cases hf
  · rw [e_st] at hd; rw [e_exp, hs.now] at he
    have := hh.stay.1 hd
    omega
  · rw [e_st] at hf; rw [hun] at hu
    have := hh.stay.2 hf
    rw [this] at hu; cases hu
  · rw [e_bl, hh.notBl] at hb; cases hb
  · rw [e_hid, hh.hasId] at hi; cases hi

/-- One step preserves `Keep`. -/
theorem keep_step {c0 ci ci' : Cell} {x : Nat} {a : App} {sid : Nat} {s : Srv} {lab : Lab}
    (hh : KeepHyp c0 x a sid s) (hk : Keep c0 x a sid ci) (hok : StepOk x sid (s.state ≠ .up) ci lab)
    (hp : LPrim lab ci ci') : Keep c0 x a sid ci' := by
  obtain ⟨hs, hc, ai, hai, hsv, hidn, hun, hrn⟩ := hk
  have hs' : SameStatic c0 ci' := hs.trans (sameStatic_lprim hp)
  have hc' : InvCap ci' := invCap_lprim hc hp
  obtain ⟨a_, ha_, hstat⟩ := app?_stat_of hs hai
  rw [hh.app] at ha_; cases ha_
  obtain ⟨s0, hs0, hs0stat⟩ := srv?_stat_to hs hh.srv
  have hup0 : s.state ≠ .up → s0.state ≠ .up := by
    intro hnu
    have : s0.state = s.state := congrArg SrvStat.state hs0stat
    rw [this]; exact hnu
  -- untouched case
  by_cases ht' : lab.target ≠ some x
  · have ht := ht'
    obtain ⟨ai', hai'⟩ : ∃ ai', ci'.app? x = some ai' := by
      obtain ⟨a', ha', _⟩ := app?_stat_to (sameStatic_lprim hp) hai
      exact ⟨a', ha'⟩
    obtain ⟨b, hb, e1, e2, e3, e4, _, _⟩ := lprim_untargeted hp ht ai' hai'
    rw [hai] at hb; cases hb
    exact ⟨hs', hc', ai', hai', by rw [e1]; exact hsv, by rw [e2]; exact hidn, by rw [e3]; exact hun,
      by rw [e4]; exact hrn⟩
  -- the label targets x: go through the possibilities
  have ht : lab.target = some x := Decidable.of_not_not ht'
  have unchanged : ci' = ci → Keep c0 x a sid ci' := by
    intro e; subst e; exact ⟨hs, hc, ai, hai, hsv, hidn, hun, hrn⟩
  cases hp with
  | put h =>
    rename_i aid sid' l0 b
    have hx : aid = x := by simpa [Lab.target] using ht
    subst hx
    rcases serverPut_shape h with ⟨_, e⟩ | ⟨_, a1, s1, anc, ha1, _, hnone, _⟩
    · exact unchanged e
    · rw [hai] at ha1; cases ha1; rw [hsv] at hnone; cases hnone
  | remove h =>
    rename_i sid' aid
    have hx : aid = x := by simpa [Lab.target] using ht
    subst hx
    exfalso
    obtain ⟨a1, s1, ha1, hs1, hin, _⟩ := serverRemove_shape h
    rw [hai] at ha1; cases ha1
    -- by the views, sid' = sid
    obtain ⟨b, hb, hbid, hbs⟩ := (hc.views s1 (srv?_mem hs1) aid).mp hin
    have : b = ai := key_unique (·.id) ci.apps hc.appIds b ai hb (app?_mem hai) (by rw [hbid, app?_id hai])
    subst this
    rw [hsv] at hbs
    have hsid : sid = s1.id := Option.some.inj hbs
    have hsid' : sid' = sid := by rw [hsid, srv?_id hs1]
    subst hsid'
    rw [hs0] at hs1; cases hs1
    rcases hok with hpre | hce | ⟨hnu, a0, unpl, after, hpl, hturn⟩
    · simp only [PreOk] at hpre
      obtain ⟨x0, sx, hx0, hsx, hj⟩ := hpre
      rw [hai] at hx0; cases hx0
      rw [hs0] at hsx; cases hsx
      exact no_just hh hs hstat hidn hun hs0stat hj
    · cases hce
    · simp only [PlaceOk] at hpl
      rcases hpl with ⟨e, _, _, hcase⟩ | ⟨_, _, _, _, x0, sx, _, _, _, hsx, hupx⟩
      · obtain ⟨_, hrn0, hun0⟩ := hturn e.symm
        rcases hcase with hu | ⟨hr, _⟩
        · rw [hun0] at hu; cases hu
        · rw [hrn0] at hr; cases hr
      · rw [hs0] at hsx; cases hsx; exact hup0 hnu hupx
  | release h =>
    rename_i aid
    have hx : aid = x := by simpa [Lab.target] using ht
    subst hx
    exfalso
    rcases hok with hpre | hce | ⟨hnu, a0, unpl, after, hpl, _⟩
    · simp only [PreOk] at hpre
      obtain ⟨x0, hx0, hn⟩ := hpre
      rw [hai] at hx0; cases hx0; rw [hsv] at hn; cases hn
    · cases hce
    · simp only [PlaceOk] at hpl
      obtain ⟨_, _, x0, hx0, hn⟩ := hpl
      rw [hai] at hx0; cases hx0; rw [hsv] at hn; cases hn
  | acquire h =>
    rename_i aid ch b ch'
    have hx : aid = x := by simpa [Lab.target] using ht
    subst hx
    exfalso
    rcases hok with hpre | hce | ⟨hnu, a0, unpl, after, hpl, _⟩
    · simp only [PreOk] at hpre
    · cases hce
    · simp only [PlaceOk] at hpl
      obtain ⟨_, _, _, x0, hx0, hn⟩ := hpl
      rw [hai] at hx0; cases hx0; rw [hsv] at hn; cases hn
  | @appMeta _ a1 a1' ha hid hsv' hidn' _ _ _ _ _ _ _ _ _ _ _ hun' hrn' _ =>
    have hx : a1.id = x := by simpa [Lab.target] using ht
    rw [hx] at ha
    rw [hai] at ha; cases ha
    refine ⟨hs', hc', a1', ?_, by rw [hsv']; exact hsv, by rw [hidn']; exact hidn, by rw [hun']; exact hun,
      by rw [hrn']; exact hrn⟩
    have : a1'.id = x := by rw [hid]; exact hx
    rw [← this]; exact app?_setApp_self (a := ai) (by rw [this]; exact hai)
  | setRenew ha =>
    rename_i a1 b
    have hx : a1.id = x := by simpa [Lab.target] using ht
    rw [hx] at ha
    rw [hai] at ha; cases ha
    have hb : b = false := by
      rcases hok with hpre | hce | ⟨hnu, a0, unpl, after, hpl, hturn⟩
      · simp only [PreOk] at hpre
      · cases hce
      · simp only [PlaceOk] at hpl
        obtain ⟨e, _, _, himp⟩ := hpl
        obtain ⟨_, hrn0, _⟩ := hturn (by rw [← e]; exact hx)
        cases b with
        | false => rfl
        | true => have := himp rfl; rw [hrn0] at this; cases this
    subst hb
    refine ⟨hs', hc', { ai with renew := false }, ?_, hsv, hidn, hun, rfl⟩
    have : ({ ai with renew := false } : App).id = x := hx
    rw [← this]; exact app?_setApp_self (a := ai) (by rw [this]; exact hai)
  | ghost ha =>
    rename_i a1 v
    have hx : a1.id = x := by simpa [Lab.target] using ht
    exfalso
    rcases hok with hpre | hce | ⟨hnu, a0, unpl, after, hpl, _⟩
    · simp only [PreOk] at hpre
    · cases hce
    · simp only [PlaceOk] at hpl
      obtain ⟨_, _, _, _, x0, sidx, sx, hx0, hsvx, hsx, hupx, _⟩ := hpl
      rw [hx, hai] at hx0; cases hx0
      rw [hsv] at hsvx; cases hsvx
      rw [hs0] at hsx; cases hsx; exact hup0 hnu hupx
  | dropDangling ha hon hgone =>
    rename_i a1 sid'
    have hx : a1.id = x := by simpa [Lab.target] using ht
    exfalso
    rw [hx, hai] at ha; cases ha
    rw [hsv] at hon; cases hon
    rw [hs0] at hgone; cases hgone
  | forgetIdentity ha hk hg hgrp hge =>
    rename_i a1 k g grp
    have hx : a1.id = x := by simpa [Lab.target] using ht
    exfalso
    rw [hx, hai] at ha; cases ha
    have e_grp : ai.group = a.group := congrArg AppStat.group hstat
    have hcount := hs.grp g
    rw [hgrp] at hcount
    cases hg0 : c0.grp? g with
    | none => rw [hg0] at hcount; cases hcount
    | some grp0 =>
      rw [hg0] at hcount
      have hcnt : grp.count = grp0.count := Option.some.inj hcount
      have := hh.idValid k g grp0 (by rw [← hidn]; exact hk) (by rw [← e_grp]; exact hg) hg0
      omega
  | tree => simp [Lab.target] at ht
  | clearEv => simp [Lab.target] at ht

end TmVerif.Sched

namespace TmVerif.Sched

theorem keep_prepass {c0 c1 : Cell} {x : Nat} {a : App} {sid : Nat} {s : Srv} (hh : KeepHyp c0 x a sid s)
    {ci : Cell} (hk : Keep c0 x a sid ci) (h : LReach PreOk ci c1) : Keep c0 x a sid c1 :=
  h.induct (fun _ _ _ hk hp lp => keep_step hh hk (Or.inl hp) lp) hk

theorem keep_loop {c0 : Cell} {x : Nat} {a : App} {sid : Nat} {s : Srv} (hh : KeepHyp c0 x a sid s)
    {revq : List Nat} {qs : List (Nat × Bool)} {ci cj : Cell} (hl : Loop revq qs ci cj)
    (hnu : s.state ≠ .up) (hq : ∀ q ∈ qs, q.1 = x → q.2 = false) (hk : Keep c0 x a sid ci) : Keep c0 x a sid cj := by
  induction hl with
  | nil => exact hk
  | @cons q qs' c c1 c2 a0 ha0 hchain _ _ ih =>
    have hturn : a0.id = x → a0.server = some sid ∧ a0.renew = false ∧ q.2 = false := by
      intro e
      obtain ⟨_, _, ai, hai, hsv, _, _, hrn⟩ := hk
      have hq1 : q.1 = x := by rw [← app?_id ha0]; exact e
      rw [hq1, hai] at ha0; cases ha0
      exact ⟨hsv, hrn, hq q List.mem_cons_self hq1⟩
    have hk1 : Keep c0 x a sid c1 :=
      hchain.induct (fun _ _ _ hk hp lp => keep_step hh hk (Or.inr (Or.inr ⟨hnu, a0, q.2, _, hp, hturn⟩)) lp) hk
    exact ih (fun q' hq' => hq q' (List.mem_cons_of_mem _ hq')) hk1

theorem keep_cycle {c0 : Cell} {x : Nat} {a : App} {sid : Nat} {s : Srv} (hh : KeepHyp c0 x a sid s)
    {qs : List (List (Nat × Bool))} {ci cj : Cell} (hcy : Cycle qs ci cj)
    (hnu : s.state ≠ .up) (hq : ∀ q ∈ qs, ∀ e ∈ q, e.1 = x → e.2 = false) (hk : Keep c0 x a sid ci) : Keep c0 x a sid cj := by
  induction hcy with
  | nil => exact hk
  | @cons q qs' c c1 c2 hl _ ih =>
    have hk0 : Keep c0 x a sid (clearGhost c) := keep_step hh hk (Or.inr (Or.inl rfl)) .clearEv
    exact ih (fun q' hq' => hq q' (List.mem_cons_of_mem _ hq'))
      (keep_loop hh hl hnu (hq q List.mem_cons_self) hk0)

/-- **Core of C08.** An app on a server that is not up — not blacklisted, not over its cap, holding a
    valid identity, eligible for the server, no renewal pending, and (down) inside its retention
    window or (frozen) not marked for unscheduling — is still on that server after the cycle. -/
theorem keep_schedule {c0 c' : Cell} {qs ch} {x : Nat} {a : App} {sid : Nat} {s : Srv}
    (hc : InvCap c0) (hh : KeepHyp c0 x a sid s) (hnu : s.state ≠ .up)
    (hq : ∀ q ∈ qs, ∀ e ∈ q, e.1 = x → e.2 = false)
    (h : schedule c0 qs ch = .ok c') : ∃ a', c'.app? x = some a' ∧ a'.server = some sid := by
  obtain ⟨c1, hpre, hcy⟩ := schedule_cycle hc h
  have hk0 : Keep c0 x a sid c0 := ⟨.refl _, hc, a, hh.app, hh.on, rfl, rfl, hh.notRenew⟩
  obtain ⟨_, _, ai, hai, hsv, _⟩ := keep_cycle hh hcy hnu hq (keep_prepass hh hk0 hpre)
  exact ⟨ai, hai, hsv⟩

end TmVerif.Sched
