/-
  Scheduler model — data types (treadmill/scheduler/__init__.py).
  Core Lean only.  Identifiers are `Nat` (the harness interns names); times are `Int`
  (the harness runs the real code under an integer virtual clock).
-/
namespace TmVerif.Sched

/-- Resource vector in `loader.resources` order: memory, cpu, disk (DIMENSION_COUNT = 3). -/
structure Vec where
  m : Int
  c : Int
  d : Int
  deriving DecidableEq, Repr, Inhabited

namespace Vec
def zero : Vec := ⟨0, 0, 0⟩
def add (a b : Vec) : Vec := ⟨a.m + b.m, a.c + b.c, a.d + b.d⟩
def sub (a b : Vec) : Vec := ⟨a.m - b.m, a.c - b.c, a.d - b.d⟩
def vmax (a b : Vec) : Vec := ⟨max a.m b.m, max a.c b.c, max a.d b.d⟩
/-- `_any_gt(left, right)` -/
def anyGt (a b : Vec) : Bool := decide (a.m > b.m) || decide (a.c > b.c) || decide (a.d > b.d)
/-- `_any_lt(left, right)` -/
def anyLt (a b : Vec) : Bool := decide (a.m < b.m) || decide (a.c < b.c) || decide (a.d < b.d)
/-- `_all_lt(left, right)` -/
def allLt (a b : Vec) : Bool := decide (a.m < b.m) && decide (a.c < b.c) && decide (a.d < b.d)
/-- `_all_le(left, right)` -/
def allLe (a b : Vec) : Bool := decide (a.m ≤ b.m) && decide (a.c ≤ b.c) && decide (a.d ≤ b.d)
/-- `_all_ge(left, right)` -/
def allGe (a b : Vec) : Bool := allLe b a
/-- componentwise `0 ≤ v` -/
def nonneg (a : Vec) : Prop := 0 ≤ a.m ∧ 0 ≤ a.c ∧ 0 ≤ a.d
def le (a b : Vec) : Prop := a.m ≤ b.m ∧ a.c ≤ b.c ∧ a.d ≤ b.d
instance : Add Vec := ⟨add⟩
instance : Sub Vec := ⟨sub⟩
end Vec

inductive SState | up | down | frozen
  deriving DecidableEq, Repr, Inhabited

/-- `collections.Counter` restricted to what the scheduler uses. -/
abbrev Counter := List (Nat × Int)

def cget (l : Counter) (k : Nat) : Int :=
  match l with
  | [] => 0
  | (k', v) :: t => if k' = k then v else cget t k

def cadd (l : Counter) (k : Nat) (d : Int) : Counter :=
  match l with
  | [] => [(k, d)]
  | (k', v) :: t => if k' = k then (k', v + d) :: t else (k', v) :: cadd t k d

/-- `Counter.update(other)` / `Counter.subtract(other)` with sign. -/
def caddAll (l : Counter) (o : Counter) (sign : Int) : Counter :=
  o.foldl (fun acc kv => cadd acc kv.1 (sign * kv.2)) l

/-- Level id of servers (`Server.level == 'server'`); the harness interns 'server' as 0. -/
def SERVER_LEVEL : Nat := 0

structure App where
  id        : Nat
  prio      : Int
  demand    : Vec
  aff       : Nat                 -- affinity name
  limits    : List (Nat × Nat)    -- explicit affinity limits by level id (absent = unlimited)
  retention : Option Int          -- data_retention_timeout (None = expire immediately)
  lease     : Int
  group     : Option Nat          -- identity group name
  identity  : Option Nat
  schedOnce : Bool
  evicted   : Bool
  unschedule : Bool
  renew     : Bool
  blacklisted : Bool
  expiry    : Option Int          -- placement_expiry
  traits    : Nat                 -- own traits (`_traits`)
  server    : Option Nat
  alloc     : Nat                 -- allocation object id
  /-- GHOST (not part of `Application`): the entry of the `evicted` dict local to
      `_find_placements`, kept per app: (server evicted from, placement_expiry at eviction). -/
  evFrom    : Option (Nat × Option Int) := none
  deriving DecidableEq, Repr, Inhabited

def App.limitAt (a : App) (lvl : Nat) : Option Nat :=
  (a.limits.find? (fun p => p.1 = lvl)).map (·.2)

/-- `count < app.affinity.limits[level]` (missing limit = +inf). -/
def App.underLimit (a : App) (lvl : Nat) (count : Int) : Bool :=
  match a.limitAt lvl with
  | none => true
  | some l => decide (count < (l : Int))

structure Srv where
  id    : Nat
  init  : Vec
  free  : Vec
  apps  : List Nat           -- `Server.apps` keys in insertion order
  label : Nat                -- partition label (labels = {label})
  traits : Nat
  validUntil : Int
  state : SState
  since : Int
  aff   : Counter            -- server-level affinity counters
  deriving DecidableEq, Repr, Inhabited

/-- What the scheduler reads from an app's `Allocation` object. -/
structure AllocInfo where
  label  : Nat
  traits : Nat
  key    : Nat               -- interned frozen `Allocation.constraints` (tracker shape)
  deriving DecidableEq, Repr, Inhabited

structure Grp where
  id    : Nat
  count : Nat
  avail : List Nat
  deriving DecidableEq, Repr, Inhabited

structure Bkt where
  id     : Nat
  level  : Nat
  free   : Vec
  selfTraits : Nat
  childTraits : List (Nat × Nat)     -- child name ↦ traits (TraitSet.children_traits)
  labels : List Nat
  aff    : Counter
  cursors : List (Nat × Nat)         -- affinity ↦ SpreadStrategy.current_idx
  deriving DecidableEq, Repr, Inhabited

def Bkt.traits (b : Bkt) : Nat := b.childTraits.foldl (fun acc p => acc ||| p.2) b.selfTraits

/-- Topology: leaves are server ids (server records live in `Cell.srvs`); `none` children are the
    holes `remove_node` leaves behind (spread cursors index into them). -/
inductive Tree where
  | leaf (sid : Nat)
  | node (b : Bkt) (cs : List (Option Tree))
  deriving Repr, Inhabited

structure Cell where
  tree   : Tree
  srvs   : List Srv
  apps   : List App                   -- `Cell.apps` in insertion order
  allocs : List (Nat × AllocInfo)
  groups : List Grp
  now    : Int
  deriving Repr, Inhabited

def Cell.srv? (c : Cell) (sid : Nat) : Option Srv := c.srvs.find? (fun s => s.id = sid)
def Cell.app? (c : Cell) (aid : Nat) : Option App := c.apps.find? (fun a => a.id = aid)
def Cell.grp? (c : Cell) (gid : Nat) : Option Grp := c.groups.find? (fun g => g.id = gid)
def Cell.allocInfo (c : Cell) (al : Nat) : AllocInfo :=
  ((c.allocs.find? (fun p => p.1 = al)).map (·.2)).getD ⟨0, 0, 0⟩

def Cell.setSrv (c : Cell) (s : Srv) : Cell :=
  { c with srvs := c.srvs.map (fun x => if x.id = s.id then s else x) }
def Cell.setApp (c : Cell) (a : App) : Cell :=
  { c with apps := c.apps.map (fun x => if x.id = a.id then a else x) }
def Cell.setGrp (c : Cell) (g : Grp) : Cell :=
  { c with groups := c.groups.map (fun x => if x.id = g.id then g else x) }

/-- `app.traits` property: own traits | allocation traits. -/
def Cell.appTraits (c : Cell) (a : App) : Nat := a.traits ||| (c.allocInfo a.alloc).traits

/-- Empty cell: the root bucket is the `Cell` itself (level id given by the harness). -/
def Cell.init (rootId cellLevel : Nat) : Cell :=
  { tree := .node { id := rootId, level := cellLevel, free := Vec.zero, selfTraits := 0,
                    childTraits := [], labels := [], aff := [], cursors := [] } [],
    srvs := [], apps := [], allocs := [], groups := [], now := 0 }

end TmVerif.Sched
