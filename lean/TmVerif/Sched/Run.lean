/- Generic "invariant over op lists" lemma. -/
import TmVerif.Sched.Ops
import TmVerif.Sched.Reach

namespace TmVerif.Sched

/-- The (state-dependent) guards `G` hold before every operation of the run. -/
def GuardsHoldWith (G : Cell → Op → Prop) : Cell → List Op → Prop
  | _, [] => True
  | c, op :: ops => G c op ∧ ∀ c', step c op = .ok c' → GuardsHoldWith G c' ops

theorem runOps_inv {Inv : Cell → Prop} {G : Cell → Op → Prop}
    (hstep : ∀ c c' op, Inv c → G c op → step c op = .ok c' → Inv c') :
    ∀ (ops : List Op) (c c' : Cell), Inv c → GuardsHoldWith G c ops → runOps c ops = .ok c' → Inv c' := by
  intro ops
  induction ops with
  | nil => intro c c' hc _ h; simp only [runOps, pure_ok] at h; subst h; exact hc
  | cons op ops ih =>
    intro c c' hc hg h
    simp only [runOps, bind_ok] at h
    obtain ⟨c1, h1, h2⟩ := h
    exact ih c1 c' (hstep c c1 op hc hg.1 h1) (hg.2 c1 h1) h2

end TmVerif.Sched
