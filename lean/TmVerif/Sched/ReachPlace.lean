/-
  The composite operations of a scheduling cycle only move along labelled primitive chains, with
  precise knowledge of what each step may touch (see `PreOk`, `PlaceOk`).
-/
import TmVerif.Sched.InvCapPrim

namespace TmVerif.Sched

theorem setMeta_lprim {c : Cell} {aid : Nat} {a a' : App} (ha : c.app? aid = some a)
    (h1 : a'.id = a.id) (h2 : a'.server = a.server) (h3 : a'.identity = a.identity)
    (h4 : a'.group = a.group) (h5 : a'.demand = a.demand) (h6 : a'.aff = a.aff) (h7 : a'.limits = a.limits)
    (h8 : a'.traits = a.traits) (h9 : a'.alloc = a.alloc) (h10 : a'.lease = a.lease)
    (h11 : a'.blacklisted = a.blacklisted) (h12 : a'.schedOnce = a.schedOnce)
    (h13 : a'.retention = a.retention) (h14 : a'.prio = a.prio) (h15 : a'.unschedule = a.unschedule)
    (h16 : a'.renew = a.renew) (h17 : a'.evFrom = a.evFrom ∨ a'.evFrom = none) :
    LPrim (.appMeta aid) c (c.setApp a') := by
  have hid := app?_id ha
  subst hid
  exact .appMeta ha h1 h2 h3 h4 h5 h6 h7 h8 h9 h10 h11 h12 h13 h14 h15 h16 h17

theorem setRenew_lprim {c : Cell} {aid : Nat} {a : App} (ha : c.app? aid = some a) (b : Bool) :
    LPrim (.setRenew aid b) c (c.setApp { a with renew := b }) := by
  have hid := app?_id ha
  subst hid
  exact .setRenew ha

theorem ghost_lprim {c : Cell} {aid : Nat} {a : App} (ha : c.app? aid = some a) (v) :
    LPrim (.ghost aid v) c (c.setApp { a with evFrom := v }) := by
  have hid := app?_id ha
  subst hid
  exact .ghost ha

/-! ### servers' bulk operations -/

theorem serverRemoveAll_lreach {c c' sid} (h : serverRemoveAll c sid = .ok c') :
    LReach (fun _ lab => ∃ a, lab = .remove sid a) c c' := by
  simp only [serverRemoveAll, bind_ok, orAbort_ok] at h
  obtain ⟨s, _, h⟩ := h
  exact foldlM_lreach _ _ (fun _ x _ _ hx => LReach.single (.remove hx) ⟨x, rfl⟩) _ _ h

/-- `Server.restore`: a `put` with lease 0 followed by fixing the expiry. -/
theorem serverRestore_lreach {c c' aid sid exp b} (h : serverRestore c aid sid exp = .ok (c', b)) :
    LReach (fun _ lab => lab = .put aid sid true b ∨ lab = .appMeta aid) c c' := by
  simp only [serverRestore, bind_ok, orAbort_ok, pure_ok] at h
  obtain ⟨a, _, ⟨c1, rc⟩, hput, a1, ha1, h⟩ := h
  simp only [Prod.mk.injEq] at h
  obtain ⟨rfl, rfl⟩ := h
  exact (LReach.single (.put hput) (Or.inl rfl)).step
    (setMeta_lprim ha1 rfl rfl rfl rfl rfl rfl rfl rfl rfl rfl rfl rfl rfl rfl rfl rfl (Or.inl rfl)) (Or.inr rfl)

/-- `Server.restore` for a caller-chosen label predicate. -/
theorem serverRestore_lreachP {P : Cell → Lab → Prop} {c c' aid sid exp b}
    (h : serverRestore c aid sid exp = .ok (c', b))
    (hput : P c (.put aid sid true b)) (hmeta : ∀ c1, P c1 (.appMeta aid)) : LReach P c c' := by
  simp only [serverRestore, bind_ok, orAbort_ok, pure_ok] at h
  obtain ⟨a, _, ⟨c1, rc⟩, hput', a1, ha1, h⟩ := h
  simp only [Prod.mk.injEq] at h
  obtain ⟨rfl, rfl⟩ := h
  exact (LReach.single (.put hput') hput).step
    (setMeta_lprim ha1 rfl rfl rfl rfl rfl rfl rfl rfl rfl rfl rfl rfl rfl rfl rfl rfl (Or.inl rfl)) (hmeta _)

theorem serverRenew_lreach {c c' aid sid b} (h : serverRenew c aid sid = .ok (c', b)) :
    LReach (fun _ lab => lab = .appMeta aid) c c' := by
  simp only [serverRenew, bind_ok, orAbort_ok] at h
  obtain ⟨a, ha, s, _, h⟩ := h
  split at h
  · simp only [pure_ok, Prod.mk.injEq] at h
    obtain ⟨rfl, _⟩ := h
    exact LReach.single (setMeta_lprim ha rfl rfl rfl rfl rfl rfl rfl rfl rfl rfl rfl rfl rfl rfl rfl rfl (Or.inl rfl)) rfl
  · simp only [pure_ok, Prod.mk.injEq] at h
    obtain ⟨rfl, _⟩ := h
    exact .refl

/-! ### pre-passes -/

/-- Why a pre-pass may take app `x` off server `s`. -/
def RemovalJustified (c : Cell) (x : App) (s : Srv) : Prop :=
  (s.label ≠ (c.allocInfo x.alloc).label ∨ (c.appTraits x ≠ 0 ∧ hasTraits s.traits (c.appTraits x) = false)) ∨
  (s.state = .down ∧ expiresAt s x ≤ c.now) ∨
  (s.state = .frozen ∧ x.unschedule = true) ∨
  x.blacklisted = true ∨
  x.hasIdentity = false

/-- What the pre-passes of `Cell.schedule` may do. -/
def PreOk (c : Cell) : Lab → Prop
  | .dropDangling _ => True
  | .forgetIdentity _ => True
  | .release a => ∃ x, c.app? a = some x ∧ x.server = none
  | .remove sid a => ∃ x s, c.app? a = some x ∧ c.srv? sid = some s ∧ RemovalJustified c x s
  | _ => False


theorem release_after_remove {c c1 c2 : Cell} {sid aid : Nat} (h1 : serverRemove c sid aid = .ok c1)
    (h2 : releaseIdentity c1 aid = .ok c2) (hj : ∃ x s, c.app? aid = some x ∧ c.srv? sid = some s ∧ RemovalJustified c x s) :
    LReach PreOk c c2 := by
  obtain ⟨a, _, ha1⟩ := serverRemove_app_self h1
  exact (LReach.single (.remove h1) hj).step (.release h2) ⟨_, ha1, rfl⟩

theorem fixInvalidPlacement_lreach {c c' aid} (h : fixInvalidPlacement c aid = .ok c') : LReach PreOk c c' := by
  simp only [fixInvalidPlacement, bind_ok, orAbort_ok] at h
  obtain ⟨a, ha, h⟩ := h
  have hid := app?_id ha
  split at h
  · simp only [pure_ok] at h; subst h; exact .refl
  · rename_i sid hsrv
    split at h
    · rename_i hnone
      subst hid
      refine (LReach.single (.dropDangling ha hsrv hnone) trivial).step (.release h) ?_
      exact ⟨_, app?_setApp_self (a' := { a with server := none, evicted := true }) ha, rfl⟩
    · rename_i s hs
      split at h
      · rename_i hcond
        simp only [bind_ok] at h
        obtain ⟨c1, h1, h2⟩ := h
        refine release_after_remove h1 h2 ⟨a, s, ha, hs, Or.inl ?_⟩
        simp only [Bool.or_eq_true, decide_eq_true_eq, Bool.and_eq_true, bne_iff_ne, ne_eq,
          Bool.not_eq_true'] at hcond
        exact hcond
      · simp only [pure_ok] at h; subst h; exact .refl

/-- `selectM` returns a sub-list all of whose members passed the test. -/
theorem selectM_ok (p : Nat → M Bool) : ∀ (l r : List Nat), selectM p l = .ok r →
    List.Sublist r l ∧ ∀ x ∈ r, p x = .ok true := by
  intro l
  induction l with
  | nil => intro r h; simp only [selectM, pure_ok] at h; subst h; exact ⟨List.Sublist.refl _, by intro x hx; cases hx⟩
  | cons y ys ih =>
    intro r h
    simp only [selectM, bind_ok, pure_ok] at h
    obtain ⟨b, hb, r', hr', rfl⟩ := h
    obtain ⟨hsub, hall⟩ := ih r' hr'
    cases b with
    | true =>
      refine ⟨by simpa using hsub.cons₂ y, ?_⟩
      intro x hx
      simp only [↓reduceIte, List.mem_cons] at hx
      rcases hx with rfl | hx
      · exact hb
      · exact hall x hx
    | false => exact ⟨by simpa using hsub.cons y, by simpa using hall⟩

/-- Removing/releasing *other* apps leaves an app's record and every server's state untouched. -/
theorem removeRelease_frame {c c' : Cell} {sid aid : Nat} (h : removeRelease sid c aid = .ok c') :
    (∀ x, x ≠ aid → c'.app? x = c.app? x) ∧
    (∀ k s', c'.srv? k = some s' → ∃ s0, c.srv? k = some s0 ∧ s'.state = s0.state ∧ s'.since = s0.since ∧
        s'.label = s0.label ∧ s'.traits = s0.traits) ∧
    c'.now = c.now ∧ c'.allocs = c.allocs := by
  simp only [removeRelease, bind_ok] at h
  obtain ⟨c1, h1, h2⟩ := h
  have rel : (∀ x, x ≠ aid → c'.app? x = c1.app? x) ∧ c'.srvs = c1.srvs ∧ c'.now = c1.now ∧ c'.allocs = c1.allocs := by
    simp only [releaseIdentity, bind_ok, orAbort_ok] at h2
    obtain ⟨a, ha, h2⟩ := h2
    split at h2
    · simp only [bind_ok, orAbort_ok, pure_ok] at h2
      obtain ⟨grp, _, rfl⟩ := h2
      refine ⟨?_, rfl, rfl, rfl⟩
      intro x hx
      have : x ≠ ({ a with identity := none } : App).id := by show x ≠ a.id; rw [app?_id ha]; exact hx
      rw [app?_setApp_ne this]; rfl
    · simp only [pure_ok] at h2; subst h2; exact ⟨fun _ _ => rfl, rfl, rfl, rfl⟩
  obtain ⟨_, _, _, _, _, _, _, _, hallocs, hnow⟩ := serverRemove_shape h1
  refine ⟨fun x hx => by rw [rel.1 x hx, serverRemove_app_ne h1 hx], ?_, by rw [rel.2.2.1, hnow], by rw [rel.2.2.2, hallocs]⟩
  intro k s' hs'
  have : c1.srv? k = some s' := by unfold Cell.srv? at hs' ⊢; rw [← rel.2.1]; exact hs'
  obtain ⟨s0, h0, _, hl, ht, hst, hsi, _, _⟩ := serverRemove_srv h1 s' this
  exact ⟨s0, h0, hst, hsi, hl, ht⟩

theorem handleInactive_lreach {c c' sid} (hc : InvCap c) (h : handleInactive c sid = .ok c') :
    LReach PreOk c c' := by
  simp only [handleInactive, bind_ok, orAbort_ok] at h
  obtain ⟨s, hs, toMove, hmv, h⟩ := h
  -- every member of toMove is justified in the *initial* state, and toMove has no duplicates
  have hjust : toMove.Nodup ∧ ∀ aid ∈ toMove, ∃ x, c.app? aid = some x ∧
      ((s.state = .down ∧ expiredOn c s x = true) ∨ (s.state = .frozen ∧ x.unschedule = true)) := by
    unfold toMoveOf at hmv
    split at hmv
    · simp only [pure_ok] at hmv; subst hmv; exact ⟨List.nodup_nil, by intro a ha; cases ha⟩
    · rename_i hst
      obtain ⟨hsub, hall⟩ := selectM_ok _ _ _ hmv
      refine ⟨hsub.nodup (hc.sapps s (srv?_mem hs)), ?_⟩
      intro aid ha
      have := hall aid ha
      simp only [bind_ok, orAbort_ok, pure_ok] at this
      obtain ⟨x, hx, he⟩ := this
      exact ⟨x, hx, Or.inl ⟨hst, he⟩⟩
    · rename_i hst
      obtain ⟨hsub, hall⟩ := selectM_ok _ _ _ hmv
      refine ⟨hsub.nodup (hc.sapps s (srv?_mem hs)), ?_⟩
      intro aid ha
      have := hall aid ha
      simp only [bind_ok, orAbort_ok, pure_ok] at this
      obtain ⟨x, hx, he⟩ := this
      exact ⟨x, hx, Or.inr ⟨hst, he⟩⟩
  -- fold with the frame facts as loop invariant
  have key : ∀ (l : List Nat) (c1 c2 : Cell), l.Nodup →
      (∀ aid ∈ l, ∃ x, c1.app? aid = some x ∧
        ((s.state = .down ∧ expiredOn c s x = true) ∨ (s.state = .frozen ∧ x.unschedule = true))) →
      (∃ s1, c1.srv? sid = some s1 ∧ s1.state = s.state ∧ s1.since = s.since) → c1.now = c.now →
      l.foldlM (removeRelease sid) c1 = .ok c2 → LReach PreOk c1 c2 := by
    intro l
    induction l with
    | nil => intro c1 c2 _ _ _ _ h; simp [List.foldlM, pure_ok] at h; subst h; exact .refl
    | cons aid rest ih =>
      intro c1 c2 hnd hj hsrv hnow h
      simp only [List.foldlM, bind_ok] at h
      obtain ⟨c1', hstep, hrest⟩ := h
      obtain ⟨x, hx, hcase⟩ := hj aid List.mem_cons_self
      obtain ⟨s1, hs1, hst1, hsi1⟩ := hsrv
      have hfr := removeRelease_frame hstep
      simp only [removeRelease, bind_ok] at hstep
      obtain ⟨cm, h1, h2⟩ := hstep
      have hjst : RemovalJustified c1 x s1 := by
        rcases hcase with ⟨hd, he⟩ | ⟨hf, hu⟩
        · right; left
          refine ⟨by rw [hst1]; exact hd, ?_⟩
          unfold expiredOn at he
          have he' : expiresAt s x ≤ c.now := by simpa using he
          have : expiresAt s1 x = expiresAt s x := by unfold expiresAt; rw [hsi1]
          rw [this, hnow]; exact he'
        · right; right; left
          exact ⟨by rw [hst1]; exact hf, hu⟩
      have r1 : LReach PreOk c1 c1' := release_after_remove h1 h2 ⟨x, s1, hx, hs1, hjst⟩
      have hnd' := List.nodup_cons.mp hnd
      refine r1.trans (ih c1' c2 hnd'.2 ?_ ?_ (by rw [hfr.2.2.1, hnow]) hrest)
      · intro b hb
        obtain ⟨y, hy, hcy⟩ := hj b (List.mem_cons_of_mem _ hb)
        have hne : b ≠ aid := by intro e; subst e; exact hnd'.1 hb
        exact ⟨y, by rw [hfr.1 b hne]; exact hy, hcy⟩
      · -- the server is still there with the same state
        have hsh := serverRemove_shape h1
        obtain ⟨a0, s0, _, hs0, _, _, hsrvs, _⟩ := hsh
        have hcm : ∃ sm, cm.srv? sid = some sm ∧ sm.state = s1.state ∧ sm.since = s1.since := by
          rw [srv?_of_srvs hsrvs, hs1]
          refine ⟨_, rfl, ?_⟩
          rw [hs1] at hs0; cases hs0
          simp only [removeSrv]
          split <;> exact ⟨rfl, rfl⟩
        obtain ⟨sm, hsm, e1, e2⟩ := hcm
        have hsame : c1'.srvs = cm.srvs := by
          simp only [releaseIdentity, bind_ok, orAbort_ok] at h2
          obtain ⟨a, _, h2⟩ := h2
          split at h2
          · simp only [bind_ok, orAbort_ok, pure_ok] at h2
            obtain ⟨grp, _, rfl⟩ := h2; rfl
          · simp only [pure_ok] at h2; subst h2; rfl
        refine ⟨sm, ?_, by rw [e1, hst1], by rw [e2, hsi1]⟩
        unfold Cell.srv? at hsm ⊢; rw [hsame]; exact hsm
  exact key toMove c c' hjust.1 hjust.2 ⟨s, hs, rfl, rfl⟩ rfl h

theorem handleBlacklisted_lreach {c c' aid} (h : handleBlacklisted c aid = .ok c') : LReach PreOk c c' := by
  simp only [handleBlacklisted, bind_ok, orAbort_ok] at h
  obtain ⟨a, ha, h⟩ := h
  split at h
  · simp only [pure_ok] at h; subst h; exact .refl
  · rename_i hbl
    have hbl' : a.blacklisted = true := by simpa using hbl
    split at h
    · rename_i sid hsv
      simp only [bind_ok] at h
      obtain ⟨c1, h1, h2⟩ := h
      obtain ⟨a0, s0, ha0, hs0, _⟩ := serverRemove_shape h1
      rw [ha] at ha0; cases ha0
      exact release_after_remove h1 h2 ⟨a, s0, ha, hs0, Or.inr (Or.inr (Or.inr (Or.inl hbl')))⟩
    · rename_i hsv
      exact LReach.single (.release h) ⟨a, ha, hsv⟩

theorem fixInvalidIdentity_lreach {c c' aid} (h : fixInvalidIdentity c aid = .ok c') : LReach PreOk c c' := by
  simp only [fixInvalidIdentity, bind_ok, orAbort_ok] at h
  obtain ⟨a, ha, h⟩ := h
  have hid := app?_id ha
  subst hid
  split at h
  · rename_i k g hk hg
    simp only [bind_ok, orAbort_ok] at h
    obtain ⟨grp, hgrp, h⟩ := h
    split at h
    · rename_i hge
      have hp : LPrim (.forgetIdentity a.id) c (c.setApp { a with identity := none }) :=
        .forgetIdentity ha hk hg hgrp hge
      split at h
      · rename_i sid hsv
        obtain ⟨a0, s0, ha0, hs0, _⟩ := serverRemove_shape h
        have ha' := app?_setApp_self (a' := { a with identity := none }) ha
        have : a0 = { a with identity := none } := by
          have : ({ a with identity := none } : App).id = a.id := rfl
          rw [this] at ha'; rw [ha'] at ha0; exact (Option.some.inj ha0).symm
        subst this
        have hs0' : (c.setApp { a with identity := none }).srv? sid = some s0 := hs0
        refine (LReach.single hp trivial).step (.remove h) ⟨_, s0, ha0, hs0', ?_⟩
        right; right; right; right
        simp [App.hasIdentity, hg]
      · simp only [pure_ok] at h; subst h; exact LReach.single hp trivial
    · simp only [pure_ok] at h; subst h; exact .refl
  · simp only [pure_ok] at h; subst h; exact .refl

/-- The pre-passes only move along `PreOk` chains (and so preserve `InvCap`). -/
theorem prePasses_lreach {c c'} (hc : InvCap c) (h : prePasses c = .ok c') : LReach PreOk c c' := by
  simp only [prePasses, bind_ok] at h
  obtain ⟨c1, h1, c2, h2, c3, h3, h4⟩ := h
  have r1 : LReach PreOk c c1 := foldlM_lreach _ _ (fun _ _ _ _ hx => fixInvalidPlacement_lreach hx) _ _ h1
  have hc1 := invCap_lreach hc r1
  -- the second pass needs InvCap at every step: fold with the invariant
  have r2 : LReach PreOk c1 c2 := by
    have key : ∀ (l : List Nat) (a b : Cell), InvCap a → l.foldlM handleInactive a = .ok b → LReach PreOk a b := by
      intro l
      induction l with
      | nil => intro a b _ h; simp [List.foldlM, pure_ok] at h; subst h; exact .refl
      | cons x xs ih =>
        intro a b ha h
        simp only [List.foldlM, bind_ok] at h
        obtain ⟨a1, hx, hrest⟩ := h
        have r := handleInactive_lreach ha hx
        exact r.trans (ih a1 b (invCap_lreach ha r) hrest)
    exact key _ _ _ hc1 h2
  have r3 : LReach PreOk c2 c3 := foldlM_lreach _ _ (fun _ _ _ _ hx => handleBlacklisted_lreach hx) _ _ h3
  have r4 : LReach PreOk c3 c' := foldlM_lreach _ _ (fun _ _ _ _ hx => fixInvalidIdentity_lreach hx) _ _ h4
  exact ((r1.trans r2).trans r3).trans r4

end TmVerif.Sched
