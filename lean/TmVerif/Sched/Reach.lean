/-
  Every state change made by a scheduling cycle is a sequence of a few *primitive* transitions.
  `Prim c c'` lists them (each is "a successful run of one primitive function"); `Reach` is the
  reflexive-transitive closure.  The lemmas here show that the pre-passes, the eviction loop,
  `_find_placements` and `Cell.schedule` only ever move along `Reach` — independently of any
  particular invariant — so each invariant needs to be proved for the primitives only.
-/
import TmVerif.Sched.Ops

namespace TmVerif.Sched

/-! ### `Except` plumbing -/

theorem bind_ok {α β} {f : M α} {g : α → M β} {b : β} :
    (f >>= g) = .ok b ↔ ∃ a, f = .ok a ∧ g a = .ok b := by
  cases f with
  | error e => simp [bind, Except.bind]
  | ok a => simp [bind, Except.bind]

theorem pure_ok {α} {a b : α} : (pure a : M α) = .ok b ↔ a = b := by
  simp [pure, Except.pure]

theorem orAbort_ok {α} {o : Option α} {msg : String} {a : α} : orAbort o msg = .ok a ↔ o = some a := by
  cases o <;> simp [orAbort]

theorem throw_ok {α} {msg : String} {a : α} : (throw msg : M α) = .ok a ↔ False := by
  constructor
  · intro h; cases h
  · intro h; cases h

theorem throw_bind {α β} (msg : String) (f : α → M β) : ((throw msg : M α) >>= f) = throw msg := rfl
theorem throw_map {α β} (msg : String) (f : α → β) : (f <$> (throw msg : M α)) = throw msg := rfl
theorem throw_ne_ok {α} {msg : String} {a : α} : ((throw msg : M α) = .ok a) = False := by
  apply propext; constructor
  · intro h; cases h
  · intro h; cases h

/-! ### primitive transitions -/

/-- The primitive state changes of the scheduler. -/
inductive Prim : Cell → Cell → Prop
  | put {c c' aid sid l0 b} : serverPut c aid sid l0 = .ok (c', b) → Prim c c'
  | remove {c c' sid aid} : serverRemove c sid aid = .ok c' → Prim c c'
  | release {c c' aid} : releaseIdentity c aid = .ok c' → Prim c c'
  | acquire {c c' aid ch b ch'} : acquireIdentity c aid ch = .ok (c', b, ch') → Prim c c'
  /-- change of an app's bookkeeping flags / expiry (placement, identity, demand untouched) -/
  | appMeta {c a a'} : c.app? a.id = some a → a'.id = a.id → a'.server = a.server →
      a'.identity = a.identity → a'.group = a.group → a'.demand = a.demand → a'.aff = a.aff →
      a'.limits = a.limits → a'.traits = a.traits → a'.alloc = a.alloc → a'.lease = a.lease →
      a'.blacklisted = a.blacklisted → a'.schedOnce = a.schedOnce → a'.retention = a.retention →
      a'.prio = a.prio →
      Prim c (c.setApp a')
  /-- `_fix_invalid_placements`: the app's server no longer exists -/
  | dropDangling {c a sid} : c.app? a.id = some a → a.server = some sid → c.srv? sid = none →
      Prim c (c.setApp { a with server := none, evicted := true })
  /-- `_fix_invalid_identities`: the identity is out of range and simply forgotten -/
  | forgetIdentity {c a k g grp} : c.app? a.id = some a → a.identity = some k → a.group = some g →
      c.grp? g = some grp → k ≥ grp.count →
      Prim c (c.setApp { a with identity := none })
  /-- spread cursors advanced by a search -/
  | tree {c t} : Prim c { c with tree := t }

/-- Reflexive-transitive closure. -/
inductive Reach : Cell → Cell → Prop
  | refl {c} : Reach c c
  | step {c c' c''} : Reach c c' → Prim c' c'' → Reach c c''

theorem Reach.trans {a b c : Cell} (h1 : Reach a b) (h2 : Reach b c) : Reach a c := by
  induction h2 with
  | refl => exact h1
  | step _ p ih => exact .step ih p

theorem Reach.single {a b : Cell} (p : Prim a b) : Reach a b := .step .refl p

/-- An invariant preserved by every primitive is preserved along `Reach`. -/
theorem Reach.induct {P : Cell → Prop} (hp : ∀ c c', P c → Prim c c' → P c') {c c' : Cell}
    (h : Reach c c') (h0 : P c) : P c' := by
  induction h with
  | refl => exact h0
  | step _ p ih => exact hp _ _ ih p

theorem foldlM_reach {α} (f : Cell → α → M Cell) (hf : ∀ c x c', f c x = .ok c' → Reach c c') :
    ∀ (l : List α) (c c' : Cell), l.foldlM f c = .ok c' → Reach c c' := by
  intro l
  induction l with
  | nil => intro c c' h; simp [List.foldlM, pure_ok] at h; subst h; exact .refl
  | cons x xs ih =>
    intro c c' h
    simp only [List.foldlM, bind_ok] at h
    obtain ⟨c1, h1, h2⟩ := h
    exact (hf _ _ _ h1).trans (ih _ _ h2)

/-! ### the composite operations only move along `Reach` -/

theorem serverRemoveAll_reach {c c' sid} (h : serverRemoveAll c sid = .ok c') : Reach c c' := by
  simp only [serverRemoveAll, bind_ok, orAbort_ok] at h
  obtain ⟨s, _, h⟩ := h
  exact foldlM_reach _ (fun _ _ _ hx => Reach.single (.remove hx)) _ _ _ h

theorem serverRestore_reach {c c' aid sid exp b} (h : serverRestore c aid sid exp = .ok (c', b)) :
    Reach c c' := by
  simp only [serverRestore, bind_ok, orAbort_ok, pure_ok] at h
  obtain ⟨a, _, ⟨c1, rc⟩, hput, a1, ha1, h⟩ := h
  simp only [Prod.mk.injEq] at h
  obtain ⟨rfl, _⟩ := h
  refine (Reach.single (.put hput)).step ?_
  have hid : a1.id = aid := by
    unfold Cell.app? at ha1
    have := List.find?_some ha1
    simpa using this
  exact .appMeta (a := a1) (by rw [hid]; exact ha1) rfl rfl rfl rfl rfl rfl rfl rfl rfl rfl rfl rfl rfl rfl

theorem serverRenew_reach {c c' aid sid b} (h : serverRenew c aid sid = .ok (c', b)) : Reach c c' := by
  simp only [serverRenew, bind_ok, orAbort_ok] at h
  obtain ⟨a, ha, s, _, h⟩ := h
  have hid : a.id = aid := by
    unfold Cell.app? at ha
    have := List.find?_some ha
    simpa using this
  split at h
  · simp only [pure_ok, Prod.mk.injEq] at h
    obtain ⟨rfl, _⟩ := h
    exact Reach.single (.appMeta (a := a) (by rw [hid]; exact ha) rfl rfl rfl rfl rfl rfl rfl rfl rfl rfl rfl rfl rfl rfl)
  · simp only [pure_ok, Prod.mk.injEq] at h
    obtain ⟨rfl, _⟩ := h
    exact .refl


theorem app?_id {c : Cell} {aid : Nat} {a : App} (h : c.app? aid = some a) : a.id = aid := by
  unfold Cell.app? at h
  have := List.find?_some h
  simpa using this

theorem app?_mem {c : Cell} {aid : Nat} {a : App} (h : c.app? aid = some a) : a ∈ c.apps := by
  unfold Cell.app? at h
  exact List.mem_of_find?_eq_some h

theorem srv?_id {c : Cell} {sid : Nat} {s : Srv} (h : c.srv? sid = some s) : s.id = sid := by
  unfold Cell.srv? at h
  have := List.find?_some h
  simpa using this

theorem srv?_mem {c : Cell} {sid : Nat} {s : Srv} (h : c.srv? sid = some s) : s ∈ c.srvs := by
  unfold Cell.srv? at h
  exact List.mem_of_find?_eq_some h

theorem fixInvalidPlacement_reach {c c' aid} (h : fixInvalidPlacement c aid = .ok c') : Reach c c' := by
  simp only [fixInvalidPlacement, bind_ok, orAbort_ok] at h
  obtain ⟨a, ha, h⟩ := h
  have hid := app?_id ha
  split at h
  · simp only [pure_ok] at h; subst h; exact .refl
  · rename_i sid hsrv
    split at h
    · rename_i hnone
      refine (Reach.single (.dropDangling (a := a) (by rw [hid]; exact ha) hsrv hnone)).step ?_
      exact .release h
    · rename_i s hs
      split at h
      · simp only [bind_ok] at h
        obtain ⟨c1, h1, h2⟩ := h
        exact (Reach.single (.remove h1)).step (.release h2)
      · simp only [pure_ok] at h; subst h; exact .refl

theorem removeRelease_reach (sid : Nat) :
    ∀ (l : List Nat) (c c' : Cell),
      l.foldlM (fun c aid => do let c1 ← serverRemove c sid aid; releaseIdentity c1 aid) c = .ok c' →
      Reach c c' := by
  apply foldlM_reach
  intro c x c' h
  simp only [bind_ok] at h
  obtain ⟨c1, h1, h2⟩ := h
  exact (Reach.single (.remove h1)).step (.release h2)

theorem handleInactive_reach {c c' sid} (h : handleInactive c sid = .ok c') : Reach c c' := by
  simp only [handleInactive, bind_ok, orAbort_ok] at h
  obtain ⟨s, _, h⟩ := h
  split at h <;> simp only [bind_ok, pure_ok] at h <;> obtain ⟨l, _, h⟩ := h <;>
    exact removeRelease_reach sid l c c' h

theorem handleBlacklisted_reach {c c' aid} (h : handleBlacklisted c aid = .ok c') : Reach c c' := by
  simp only [handleBlacklisted, bind_ok, orAbort_ok] at h
  obtain ⟨a, _, h⟩ := h
  split at h
  · simp only [pure_ok] at h; subst h; exact .refl
  · split at h
    · simp only [bind_ok] at h
      obtain ⟨c1, h1, h2⟩ := h
      exact (Reach.single (.remove h1)).step (.release h2)
    · exact Reach.single (.release h)

theorem fixInvalidIdentity_reach {c c' aid} (h : fixInvalidIdentity c aid = .ok c') : Reach c c' := by
  simp only [fixInvalidIdentity, bind_ok, orAbort_ok] at h
  obtain ⟨a, ha, h⟩ := h
  have hid := app?_id ha
  split at h
  · rename_i k g hk hg
    simp only [bind_ok, orAbort_ok] at h
    obtain ⟨grp, hgrp, h⟩ := h
    split at h
    · rename_i hge
      have hp : Prim c (c.setApp { a with identity := none }) :=
        .forgetIdentity (a := a) (by rw [hid]; exact ha) hk hg hgrp hge
      split at h
      · exact (Reach.single hp).step (.remove h)
      · simp only [pure_ok] at h; subst h; exact Reach.single hp
    · simp only [pure_ok] at h; subst h; exact .refl
  · simp only [pure_ok] at h; subst h; exact .refl

theorem prePasses_reach {c c'} (h : prePasses c = .ok c') : Reach c c' := by
  simp only [prePasses, bind_ok] at h
  obtain ⟨c1, h1, c2, h2, c3, h3, h4⟩ := h
  exact ((foldlM_reach _ (fun _ _ _ hx => fixInvalidPlacement_reach hx) _ _ _ h1).trans
    (foldlM_reach _ (fun _ _ _ hx => handleInactive_reach hx) _ _ _ h2)).trans
    ((foldlM_reach _ (fun _ _ _ hx => handleBlacklisted_reach hx) _ _ _ h3).trans
    (foldlM_reach _ (fun _ _ _ hx => fixInvalidIdentity_reach hx) _ _ _ h4))

theorem cellPut_reach {c c' aid b} (h : cellPut c aid = .ok (c', b)) : Reach c c' := by
  simp only [cellPut, bind_ok, orAbort_ok] at h
  obtain ⟨a, _, h⟩ := h
  split at h
  · simp only [pure_ok, Prod.mk.injEq] at h
    obtain ⟨rfl, _⟩ := h
    exact Reach.single .tree
  · simp only [bind_ok] at h
    obtain ⟨⟨c2, rc⟩, hput, h⟩ := h
    split at h
    · simp only [throw_bind, throw_ne_ok] at h
    · simp only [pure_ok, Prod.mk.injEq] at h
      obtain ⟨h1, _⟩ := h
      subst h1
      exact (Reach.single .tree).step (.put hput)

theorem evictLoop_reach (aid : Nat) :
    ∀ (l : List Nat) (c : Cell) (ev) (c' : Cell) (ev'), evictLoop aid l c ev = .ok (c', ev') → Reach c c' := by
  intro l
  induction l with
  | nil =>
    intro c ev c' ev' h
    simp only [evictLoop, pure_ok, Prod.mk.injEq] at h
    obtain ⟨rfl, _⟩ := h; exact .refl
  | cons e rest ih =>
    intro c ev c' ev' h
    simp only [evictLoop] at h
    split at h
    · simp only [pure_ok, Prod.mk.injEq] at h
      obtain ⟨rfl, _⟩ := h; exact .refl
    · simp only [bind_ok, orAbort_ok] at h
      obtain ⟨ea, _, h⟩ := h
      split at h
      · exact ih _ _ _ _ h
      · simp only [bind_ok, orAbort_ok] at h
        obtain ⟨s, _, h⟩ := h
        split at h
        · exact ih _ _ _ _ h
        · simp only [bind_ok] at h
          obtain ⟨c1, h1, ⟨c2, rc⟩, h2, h⟩ := h
          have r12 : Reach c c2 := (Reach.single (.remove h1)).step (.put h2)
          split at h
          · simp only [pure_ok, Prod.mk.injEq] at h
            obtain ⟨rfl, _⟩ := h; exact r12
          · exact r12.trans (ih _ _ _ _ h)


theorem unplacedBranch_reach {c c' a} (h : unplacedBranch c a = .ok c') : Reach c c' := by
  simp only [unplacedBranch] at h
  split at h
  · split at h
    · simp only [throw_bind, throw_ne_ok] at h
    · split at h
      · simp only [throw_bind, throw_ne_ok] at h
      · simp only [bind_ok] at h
        obtain ⟨c1, h1, h2⟩ := h
        exact (Reach.single (.remove h1)).step (.release h2)
  · simp only [bind_ok, pure_ok] at h
    obtain ⟨c1, rfl, h2⟩ := h
    exact Reach.single (.release h2)

theorem renewStep_reach {c c' a r} (h : renewStep c a = .ok (c', r)) : Reach c c' := by
  simp only [renewStep] at h
  split at h
  · simp only [bind_ok, orAbort_ok] at h
    obtain ⟨sid, _, h⟩ := h
    split at h
    · simp only [throw_ne_ok] at h
    · split at h
      · simp only [throw_ne_ok] at h
      · simp only [bind_ok] at h
        obtain ⟨⟨c1, ok⟩, hr, h⟩ := h
        have r1 := serverRenew_reach hr
        split at h
        · simp only [pure_ok, Prod.mk.injEq] at h
          obtain ⟨rfl, _⟩ := h; exact r1
        · simp only [bind_ok, pure_ok, Prod.mk.injEq] at h
          obtain ⟨c2, h2, rfl, _⟩ := h
          exact r1.step (.remove h2)
  · simp only [pure_ok, Prod.mk.injEq] at h
    obtain ⟨rfl, _⟩ := h; exact .refl

theorem setFlag_prim {c : Cell} {aid : Nat} {a a' : App} (ha : c.app? aid = some a)
    (h1 : a'.id = a.id) (h2 : a'.server = a.server) (h3 : a'.identity = a.identity)
    (h4 : a'.group = a.group) (h5 : a'.demand = a.demand) (h6 : a'.aff = a.aff) (h7 : a'.limits = a.limits)
    (h8 : a'.traits = a.traits) (h9 : a'.alloc = a.alloc) (h10 : a'.lease = a.lease)
    (h11 : a'.blacklisted = a.blacklisted) (h12 : a'.schedOnce = a.schedOnce)
    (h13 : a'.retention = a.retention) (h14 : a'.prio = a.prio) : Prim c (c.setApp a') :=
  .appMeta (a := a) (by rw [app?_id ha]; exact ha) h1 h2 h3 h4 h5 h6 h7 h8 h9 h10 h11 h12 h13 h14

theorem restoreEvicted_reach {st st' aid b} (h : restoreEvicted st aid = .ok (st', b)) :
    Reach st.cell st'.cell := by
  simp only [restoreEvicted] at h
  split at h
  · simp only [bind_ok, orAbort_ok] at h
    obtain ⟨a2, _, h⟩ := h
    split at h
    · simp only [throw_ne_ok] at h
    · simp only [bind_ok] at h
      obtain ⟨⟨c3, rc⟩, hr, h⟩ := h
      have r1 := serverRestore_reach hr
      split at h
      · simp only [bind_ok, orAbort_ok, pure_ok, Prod.mk.injEq] at h
        obtain ⟨a3, ha3, rfl, _⟩ := h
        exact r1.step (setFlag_prim ha3 rfl rfl rfl rfl rfl rfl rfl rfl rfl rfl rfl rfl rfl rfl)
      · simp only [pure_ok, Prod.mk.injEq] at h
        obtain ⟨rfl, _⟩ := h; exact r1
  · simp only [pure_ok, Prod.mk.injEq] at h
    obtain ⟨rfl, _⟩ := h; exact .refl

theorem tryPlace_reach {revq st st' aid restore} (h : tryPlace revq st aid restore = .ok st') :
    Reach st.cell st'.cell := by
  simp only [tryPlace, bind_ok, orAbort_ok] at h
  obtain ⟨a2, _, ⟨c3, placed⟩, hput, ⟨c4, ev⟩, hev, a4, _, h⟩ := h
  have r1 := cellPut_reach hput
  have r2 : Reach c3 c4 := by
    split at hev
    · simp only [pure_ok, Prod.mk.injEq] at hev
      obtain ⟨rfl, _⟩ := hev; exact .refl
    · exact evictLoop_reach _ _ _ _ _ _ hev
  have r12 := r1.trans r2
  split at h
  · simp only [pure_ok] at h; subst h; exact r12
  · split at h
    · simp only [bind_ok, orAbort_ok, pure_ok] at h
      obtain ⟨⟨c5, rc⟩, hr, a5, ha5, rfl⟩ := h
      exact (r12.trans (serverRestore_reach hr)).step
        (setFlag_prim ha5 rfl rfl rfl rfl rfl rfl rfl rfl rfl rfl rfl rfl rfl rfl)
    · simp only [bind_ok, pure_ok] at h
      obtain ⟨c5, hrel, rfl⟩ := h
      exact r12.step (.release hrel)

theorem afterAcquire_reach {revq st st' aid restore} (h : afterAcquire revq st aid restore = .ok st') :
    Reach st.cell st'.cell := by
  simp only [afterAcquire, bind_ok] at h
  obtain ⟨⟨st1, done⟩, hre, h⟩ := h
  have r1 := restoreEvicted_reach hre
  split at h
  · simp only [pure_ok] at h; subst h; exact r1
  · simp only [bind_ok, orAbort_ok] at h
    obtain ⟨a2, _, h⟩ := h
    split at h
    · simp only [bind_ok, pure_ok] at h
      obtain ⟨c3, hrel, rfl⟩ := h
      exact r1.step (.release hrel)
    · split at h
      · simp only [bind_ok, pure_ok] at h
        obtain ⟨c3, hrel, rfl⟩ := h
        exact r1.step (.release hrel)
      · exact r1.trans (tryPlace_reach h)

theorem placeOne_reach {revq st st' q} (h : placeOne revq st q = .ok st') : Reach st.cell st'.cell := by
  simp only [placeOne, bind_ok, orAbort_ok] at h
  obtain ⟨a, _, h⟩ := h
  split at h
  · simp only [pure_ok] at h; subst h; exact .refl
  · split at h
    · simp only [bind_ok, pure_ok] at h
      obtain ⟨c2, h2, rfl⟩ := h
      exact unplacedBranch_reach h2
    · simp only [bind_ok, orAbort_ok] at h
      obtain ⟨⟨c1, restore⟩, hrn, a1, ha1, h⟩ := h
      have r1 := renewStep_reach hrn
      have r2 : Reach st.cell (c1.setApp { a1 with renew := false }) :=
        r1.step (setFlag_prim ha1 rfl rfl rfl rfl rfl rfl rfl rfl rfl rfl rfl rfl rfl rfl)
      split at h
      · split at h
        · simp only [throw_ne_ok] at h
        · split at h
          · simp only [throw_ne_ok] at h
          · simp only [pure_ok] at h; subst h; exact r2
      · simp only [bind_ok] at h
        obtain ⟨⟨c2, got, ch⟩, hacq, h⟩ := h
        have r3 : Reach st.cell c2 := r2.step (.acquire hacq)
        split at h
        · simp only [pure_ok] at h; subst h; exact r3
        · exact r3.trans (afterAcquire_reach h)

theorem findPlacements_reach {c c' q ch ch'} (h : findPlacements c q ch = .ok (c', ch')) : Reach c c' := by
  simp only [findPlacements, bind_ok, pure_ok, Prod.mk.injEq] at h
  obtain ⟨st, hf, rfl, _⟩ := h
  have : ∀ (l : List (Nat × Bool)) (s s' : PState),
      l.foldlM (placeOne (q.map (·.1)).reverse) s = .ok s' → Reach s.cell s'.cell := by
    intro l
    induction l with
    | nil => intro s s' h; simp [List.foldlM, pure_ok] at h; subst h; exact .refl
    | cons x xs ih =>
      intro s s' h
      simp only [List.foldlM, bind_ok] at h
      obtain ⟨s1, h1, h2⟩ := h
      exact (placeOne_reach h1).trans (ih _ _ h2)
  exact this _ _ _ hf

theorem schedule_reach {c c' qs ch} (h : schedule c qs ch = .ok c') : Reach c c' := by
  simp only [schedule, bind_ok] at h
  obtain ⟨c1, hpre, ⟨c2, rest⟩, hf, h⟩ := h
  have r1 := prePasses_reach hpre
  have : ∀ (l : List (List (Nat × Bool))) (p p' : Cell × List Nat),
      l.foldlM (fun (p : Cell × List Nat) q => findPlacements p.1 q p.2) p = .ok p' → Reach p.1 p'.1 := by
    intro l
    induction l with
    | nil => intro p p' h; simp [List.foldlM, pure_ok] at h; subst h; exact .refl
    | cons x xs ih =>
      intro p p' h
      simp only [List.foldlM, bind_ok] at h
      obtain ⟨⟨c3, ch3⟩, h1, h2⟩ := h
      exact (findPlacements_reach h1).trans (ih _ _ h2)
  have r2 := this _ _ _ hf
  split at h
  · simp only [throw_bind, throw_ne_ok] at h
  · simp only [pure_ok, bind_ok] at h
    obtain ⟨_, _, rfl⟩ := h
    exact r1.trans r2

end TmVerif.Sched
