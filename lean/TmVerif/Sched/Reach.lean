/-
  Every state change made by a scheduling cycle is a sequence of a few *primitive* transitions.
  `LPrim lab c c'` lists them with a label saying which app (and server) is touched; `LReach P`
  is a chain of primitives each of whose (pre-state, label) satisfies `P` — `P` records what the
  caller knows at that point (e.g. "the victim's server is up", "the app is the one being
  placed").  `Prim`/`Reach` forget the labels.  The lemmas in this file and in `ReachPlace.lean`
  show that the pre-passes, the eviction loop, `_find_placements` and `Cell.schedule` only move
  along such chains — independently of any particular invariant — so each invariant is proved
  for the primitives only.
-/
import TmVerif.Sched.Upd
import TmVerif.Sched.Skel
import TmVerif.Sched.CurOk

namespace TmVerif.Sched

/-! ### `Except` plumbing -/

theorem bind_ok {α β} {f : M α} {g : α → M β} {b : β} :
    (f >>= g) = .ok b ↔ ∃ a, f = .ok a ∧ g a = .ok b := by
  cases f with
  | error e => simp [bind, Except.bind]
  | ok a => simp [bind, Except.bind]

theorem pure_ok {α} {a b : α} : (pure a : M α) = .ok b ↔ a = b := by
  simp [pure, Except.pure]

theorem orAbort_ok {α} {o : Option α} {msg : String} {a : α} : orAbort o msg = .ok a ↔ o = some a := by
  cases o <;> simp [orAbort]

theorem throw_bind {α β} (msg : String) (f : α → M β) : ((throw msg : M α) >>= f) = throw msg := rfl
theorem throw_map {α β} (msg : String) (f : α → β) : (f <$> (throw msg : M α)) = throw msg := rfl
theorem throw_ne_ok {α} {msg : String} {a : α} : ((throw msg : M α) = .ok a) = False := by
  apply propext; constructor
  · intro h; cases h
  · intro h; cases h

/-! ### lookups -/

theorem app?_id {c : Cell} {aid : Nat} {a : App} (h : c.app? aid = some a) : a.id = aid := by
  unfold Cell.app? at h
  have := List.find?_some h
  simpa using this

theorem app?_mem {c : Cell} {aid : Nat} {a : App} (h : c.app? aid = some a) : a ∈ c.apps := by
  unfold Cell.app? at h
  exact List.mem_of_find?_eq_some h

theorem srv?_id {c : Cell} {sid : Nat} {s : Srv} (h : c.srv? sid = some s) : s.id = sid := by
  unfold Cell.srv? at h
  have := List.find?_some h
  simpa using this

theorem srv?_mem {c : Cell} {sid : Nat} {s : Srv} (h : c.srv? sid = some s) : s ∈ c.srvs := by
  unfold Cell.srv? at h
  exact List.mem_of_find?_eq_some h

/-! ### labelled primitive transitions -/

inductive Lab
  | put (aid sid : Nat) (l0 ok : Bool)
  | remove (sid aid : Nat)
  | release (aid : Nat)
  | acquire (aid : Nat) (ok : Bool)
  /-- bookkeeping flags / expiry of an app (placement, identity, static data untouched) -/
  | appMeta (aid : Nat)
  /-- the `renew` flag of an app -/
  | setRenew (aid : Nat) (b : Bool)
  /-- ghost `evicted`-dict entry of an app -/
  | ghost (aid : Nat) (v : Option (Nat × Option Int))
  | dropDangling (aid : Nat)
  | forgetIdentity (aid : Nat)
  | tree
  | clearEv
  deriving Repr, DecidableEq

/-- The app a label touches. -/
def Lab.target : Lab → Option Nat
  | .put a _ _ _ => some a
  | .remove _ a => some a
  | .release a => some a
  | .acquire a _ => some a
  | .appMeta a => some a
  | .setRenew a _ => some a
  | .ghost a _ => some a
  | .dropDangling a => some a
  | .forgetIdentity a => some a
  | .tree => none
  | .clearEv => none

/-- The primitive state changes of the scheduler, labelled. -/
inductive LPrim : Lab → Cell → Cell → Prop
  | put {c c' aid sid l0 b} : serverPut c aid sid l0 = .ok (c', b) → LPrim (.put aid sid l0 b) c c'
  | remove {c c' sid aid} : serverRemove c sid aid = .ok c' → LPrim (.remove sid aid) c c'
  | release {c c' aid} : releaseIdentity c aid = .ok c' → LPrim (.release aid) c c'
  | acquire {c c' aid ch b ch'} : acquireIdentity c aid ch = .ok (c', b, ch') → LPrim (.acquire aid b) c c'
  | appMeta {c a a'} : c.app? a.id = some a → a'.id = a.id → a'.server = a.server →
      a'.identity = a.identity → a'.group = a.group → a'.demand = a.demand → a'.aff = a.aff →
      a'.limits = a.limits → a'.traits = a.traits → a'.alloc = a.alloc → a'.lease = a.lease →
      a'.blacklisted = a.blacklisted → a'.schedOnce = a.schedOnce → a'.retention = a.retention →
      a'.prio = a.prio → a'.unschedule = a.unschedule → a'.renew = a.renew →
      (a'.evFrom = a.evFrom ∨ a'.evFrom = none) →
      LPrim (.appMeta a.id) c (c.setApp a')
  | setRenew {c a b} : c.app? a.id = some a → LPrim (.setRenew a.id b) c (c.setApp { a with renew := b })
  | ghost {c a v} : c.app? a.id = some a → LPrim (.ghost a.id v) c (c.setApp { a with evFrom := v })
  | dropDangling {c a sid} : c.app? a.id = some a → a.server = some sid → c.srv? sid = none →
      LPrim (.dropDangling a.id) c (c.setApp { a with server := none, evicted := true })
  | forgetIdentity {c a k g grp} : c.app? a.id = some a → a.identity = some k → a.group = some g →
      c.grp? g = some grp → k ≥ grp.count →
      LPrim (.forgetIdentity a.id) c (c.setApp { a with identity := none })
  /-- spread cursors only (the `Bucket.put` search) -/
  | tree {c t} : t.skel = c.tree.skel → (CurOk c.tree → CurOk t) → LPrim .tree c { c with tree := t }
  | clearEv {c} : LPrim .clearEv c { c with apps := c.apps.map (fun a => { a with evFrom := none }) }

/-- Unlabelled primitive. -/
def Prim (c c' : Cell) : Prop := ∃ lab, LPrim lab c c'

/-- Chains of primitives whose (pre-state, label) pairs satisfy `P`. -/
inductive LReach (P : Cell → Lab → Prop) : Cell → Cell → Prop
  | refl {c} : LReach P c c
  | step {c c' c'' lab} : LReach P c c' → LPrim lab c' c'' → P c' lab → LReach P c c''

/-- Reflexive-transitive closure of `Prim`. -/
inductive Reach : Cell → Cell → Prop
  | refl {c} : Reach c c
  | step {c c' c''} : Reach c c' → Prim c' c'' → Reach c c''

theorem LReach.trans {P} {a b c : Cell} (h1 : LReach P a b) (h2 : LReach P b c) : LReach P a c := by
  induction h2 with
  | refl => exact h1
  | step _ p hp ih => exact .step ih p hp

theorem LReach.single {P} {a b : Cell} {lab} (p : LPrim lab a b) (hp : P a lab) : LReach P a b :=
  .step .refl p hp

theorem LReach.mono {P Q : Cell → Lab → Prop} (hpq : ∀ c l, P c l → Q c l) {a b : Cell}
    (h : LReach P a b) : LReach Q a b := by
  induction h with
  | refl => exact .refl
  | step _ p hp ih => exact .step ih p (hpq _ _ hp)

theorem LReach.toReach {P} {a b : Cell} (h : LReach P a b) : Reach a b := by
  induction h with
  | refl => exact .refl
  | step _ p _ ih => exact .step ih ⟨_, p⟩

theorem Reach.trans {a b c : Cell} (h1 : Reach a b) (h2 : Reach b c) : Reach a c := by
  induction h2 with
  | refl => exact h1
  | step _ p ih => exact .step ih p

theorem Reach.single {a b : Cell} (p : Prim a b) : Reach a b := .step .refl p

/-- An invariant preserved by every primitive is preserved along `Reach`. -/
theorem Reach.induct {P : Cell → Prop} (hp : ∀ c c', P c → Prim c c' → P c') {c c' : Cell}
    (h : Reach c c') (h0 : P c) : P c' := by
  induction h with
  | refl => exact h0
  | step _ p ih => exact hp _ _ ih p

/-- An invariant preserved by every primitive whose label satisfies `P`. -/
theorem LReach.induct {P : Cell → Lab → Prop} {I : Cell → Prop}
    (hp : ∀ c c' lab, I c → P c lab → LPrim lab c c' → I c') {c c' : Cell}
    (h : LReach P c c') (h0 : I c) : I c' := by
  induction h with
  | refl => exact h0
  | step _ p hpl ih => exact hp _ _ _ ih hpl p

theorem foldlM_lreach {α} {P : Cell → Lab → Prop} (f : Cell → α → M Cell) (l : List α)
    (hf : ∀ c x c', x ∈ l → f c x = .ok c' → LReach P c c') :
    ∀ (c c' : Cell), l.foldlM f c = .ok c' → LReach P c c' := by
  induction l with
  | nil => intro c c' h; simp [List.foldlM, pure_ok] at h; subst h; exact .refl
  | cons x xs ih =>
    intro c c' h
    simp only [List.foldlM, bind_ok] at h
    obtain ⟨c1, h1, h2⟩ := h
    exact (hf _ _ _ List.mem_cons_self h1).trans
      (ih (fun c y c' hy => hf c y c' (List.mem_cons_of_mem _ hy)) _ _ h2)

/-- Anything goes. -/
def AnyLab : Cell → Lab → Prop := fun _ _ => True

end TmVerif.Sched
