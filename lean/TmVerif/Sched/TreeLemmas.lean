/-
  Tree lemmas: upward propagation never changes the shape of the tree (its leaves).
-/
import TmVerif.Sched.Reach

namespace TmVerif.Sched

mutual
theorem bubble_leaves {μ} (step : Bkt → List (Option Tree) → μ → Bkt × μ) (incl : Bool) :
    ∀ (t : Tree) (target : Nat) (m : μ) (t' : Tree) (m' : μ),
      t.bubble step incl target m = some (t', m') → t'.leaves = t.leaves
  | .leaf s, target, m, t', m', h => by
    simp only [Tree.bubble] at h
    split at h
    · simp only [Option.some.injEq, Prod.mk.injEq] at h; rw [← h.1]
    · cases h
  | .node b cs, target, m, t', m', h => by
    simp only [Tree.bubble] at h
    split at h
    · split at h
      · simp only [Option.some.injEq, Prod.mk.injEq] at h; rw [← h.1]; simp only [Tree.leaves]
      · simp only [Option.some.injEq, Prod.mk.injEq] at h; rw [← h.1]
    · split at h
      · cases h
      · rename_i cs' m1 heq
        simp only [Option.some.injEq, Prod.mk.injEq] at h
        rw [← h.1]
        simp only [Tree.leaves]
        exact bubbleL_leaves step incl cs target m cs' m1 heq
theorem bubbleL_leaves {μ} (step : Bkt → List (Option Tree) → μ → Bkt × μ) (incl : Bool) :
    ∀ (cs : List (Option Tree)) (target : Nat) (m : μ) (cs' : List (Option Tree)) (m' : μ),
      Tree.bubbleL step incl cs target m = some (cs', m') → Tree.leavesL cs' = Tree.leavesL cs
  | [], _, _, _, _, h => by simp [Tree.bubbleL] at h
  | none :: r, target, m, cs', m', h => by
    simp only [Tree.bubbleL] at h
    split at h
    · cases h
    · rename_i r' m1 heq
      simp only [Option.some.injEq, Prod.mk.injEq] at h
      rw [← h.1]
      simp only [Tree.leavesL]
      exact bubbleL_leaves step incl r target m r' m1 heq
  | some t :: r, target, m, cs', m', h => by
    simp only [Tree.bubbleL] at h
    split at h
    · rename_i t1 m1 heq
      simp only [Option.some.injEq, Prod.mk.injEq] at h
      rw [← h.1]
      simp only [Tree.leavesL]
      rw [bubble_leaves step incl t target m t1 m1 heq]
    · split at h
      · cases h
      · rename_i r' m1 heq
        simp only [Option.some.injEq, Prod.mk.injEq] at h
        rw [← h.1]
        simp only [Tree.leavesL]
        rw [bubbleL_leaves step incl r target m r' m1 heq]
end

theorem treeAff_leaves {t t' : Tree} {target : Nat} {incl : Bool} {delta : Counter} {sign : Int}
    (h : treeAff t target incl delta sign = some t') : t'.leaves = t.leaves := by
  unfold treeAff at h
  cases hb : t.bubble (affStep delta sign) incl target () with
  | none => rw [hb] at h; cases h
  | some r =>
    rw [hb] at h
    simp only [Option.map_some, Option.some.injEq] at h
    rw [← h]
    exact bubble_leaves _ _ _ _ _ r.1 r.2 hb

theorem treeCap_leaves {srvs : List Srv} {t t' : Tree} {target : Nat} {incl : Bool} {m : CapMsg}
    (h : treeCap srvs t target incl m = some t') : t'.leaves = t.leaves := by
  unfold treeCap at h
  cases hb : t.bubble (capStep srvs) incl target m with
  | none => rw [hb] at h; cases h
  | some r =>
    rw [hb] at h
    simp only [Option.map_some, Option.some.injEq] at h
    rw [← h]
    exact bubble_leaves _ _ _ _ _ r.1 r.2 hb

theorem serverRemove_leaves {c c' : Cell} {sid aid : Nat} (h : serverRemove c sid aid = .ok c') :
    c'.tree.leaves = c.tree.leaves := by
  simp only [serverRemove, bind_ok, orAbort_ok] at h
  obtain ⟨s, hs, h⟩ := h
  split at h
  · simp only [throw_bind, throw_ne_ok] at h
  · simp only [bind_ok, pure_ok, orAbort_ok] at h
    obtain ⟨a, ha, t1, h1, t2, h2, rfl⟩ := h
    simp only
    rw [treeCap_leaves h2, treeAff_leaves h1]; rfl

theorem serverPut_leaves {c c' : Cell} {aid sid : Nat} {l0 b : Bool} (h : serverPut c aid sid l0 = .ok (c', b)) :
    c'.tree.leaves = c.tree.leaves := by
  simp only [serverPut, bind_ok, orAbort_ok] at h
  obtain ⟨a, ha, s, hs, h⟩ := h
  split at h
  · simp only [throw_bind, throw_ne_ok] at h
  · split at h
    · simp only [throw_bind, throw_ne_ok] at h
    · simp only [bind_ok, orAbort_ok] at h
      obtain ⟨anc, _, h⟩ := h
      split at h
      · simp only [pure_ok, Prod.mk.injEq] at h
        obtain ⟨rfl, _⟩ := h; rfl
      · simp only [bind_ok, pure_ok, orAbort_ok, Prod.mk.injEq] at h
        obtain ⟨t1, h1, t2, h2, rfl, _⟩ := h
        simp only
        rw [treeCap_leaves h2, treeAff_leaves h1]; rfl

end TmVerif.Sched
