/-
  InvCap — capacity accounting and the two placement views (C01).
-/
import TmVerif.Sched.Shape

namespace TmVerif.Sched

/-! ### Vec arithmetic -/
namespace Vec
@[simp] theorem add_m (a b : Vec) : (a + b).m = a.m + b.m := rfl
@[simp] theorem add_c (a b : Vec) : (a + b).c = a.c + b.c := rfl
@[simp] theorem add_d (a b : Vec) : (a + b).d = a.d + b.d := rfl
@[simp] theorem sub_m (a b : Vec) : (a - b).m = a.m - b.m := rfl
@[simp] theorem sub_c (a b : Vec) : (a - b).c = a.c - b.c := rfl
@[simp] theorem sub_d (a b : Vec) : (a - b).d = a.d - b.d := rfl
@[simp] theorem zero_m : Vec.zero.m = 0 := rfl
@[simp] theorem zero_c : Vec.zero.c = 0 := rfl
@[simp] theorem zero_d : Vec.zero.d = 0 := rfl
theorem ext' {a b : Vec} (h1 : a.m = b.m) (h2 : a.c = b.c) (h3 : a.d = b.d) : a = b := by
  cases a; cases b; simp_all
theorem not_anyGt {a b : Vec} (h : a.anyGt b = false) : a.m ≤ b.m ∧ a.c ≤ b.c ∧ a.d ≤ b.d := by
  simp only [anyGt, Bool.or_eq_false_iff, decide_eq_false_iff_not] at h
  omega
end Vec

/-! ### the invariant -/

/-- Summed demand of the apps whose `server` field names `sid`. -/
def used (apps : List App) (sid : Nat) : Vec :=
  apps.foldr (fun a acc => if a.server = some sid then a.demand + acc else acc) Vec.zero

structure Core (srvs : List Srv) (apps : List App) : Prop where
  srvIds : (srvs.map (·.id)).Nodup
  appIds : (apps.map (·.id)).Nodup
  demand : ∀ a ∈ apps, a.demand.nonneg
  free   : ∀ s ∈ srvs, s.free.nonneg ∧ s.free + used apps s.id = s.init
  views  : ∀ s ∈ srvs, ∀ aid, aid ∈ s.apps ↔ ∃ a ∈ apps, a.id = aid ∧ a.server = some s.id
  sapps  : ∀ s ∈ srvs, s.apps.Nodup

/-- **InvCap**: on every server free capacity is non-negative and equals declared capacity minus
    the summed demand of the apps placed there; the instance→server and server→instance views agree
    exactly; ids are unique. -/
def InvCap (c : Cell) : Prop := Core c.srvs c.apps

@[simp] theorem used_nil (sid : Nat) : used [] sid = Vec.zero := rfl
theorem used_cons (a : App) (t : List App) (sid : Nat) :
    used (a :: t) sid = if a.server = some sid then a.demand + used t sid else used t sid := rfl

/-- Replacing app `a` (unique id) by `a'` with the same id and demand changes `used` only through
    the server fields. -/
theorem used_upd (apps : List App) (hnd : (apps.map (·.id)).Nodup) (a a' : App) (ha : a ∈ apps)
    (hid : a'.id = a.id) (hd : a'.demand = a.demand) (sid : Nat) :
    used (apps.map (fun x => if x.id = a'.id then a' else x)) sid + (if a.server = some sid then a.demand else Vec.zero)
      = used apps sid + (if a'.server = some sid then a.demand else Vec.zero) := by
  simp only [hid]
  induction apps with
  | nil => cases ha
  | cons x t ih =>
    simp only [List.map_cons, List.nodup_cons] at hnd
    rcases List.mem_cons.mp ha with rfl | hat
    · -- x = a : the tail does not contain the id
      have htail : t.map (fun y => if y.id = a.id then a' else y) = t := by
        have hall : ∀ y ∈ t, (fun y => if y.id = a.id then a' else y) y = id y := by
          intro y hy
          have : y.id ≠ a.id := by
            intro e; apply hnd.1; rw [← e]; exact List.mem_map_of_mem hy
          simp [this]
        rw [List.map_congr_left hall, List.map_id]
      simp only [List.map_cons, ↓reduceIte, htail, used_cons, hd]
      apply Vec.ext' <;> (split <;> split <;> simp <;> omega)
    · have hne : x.id ≠ a.id := by
        intro e; apply hnd.1; rw [e]; exact List.mem_map_of_mem hat
      rw [List.map_cons, if_neg hne, used_cons, used_cons]
      have := ih hnd.2 hat
      have hm := congrArg Vec.m this
      have hc := congrArg Vec.c this
      have hdd := congrArg Vec.d this
      apply Vec.ext' <;> (by_cases hx : x.server = some sid <;> simp only [hx, ↓reduceIte, Vec.add_m, Vec.add_c, Vec.add_d] at hm hc hdd ⊢ <;> omega)


/-- used after replacing `a` by `a'` (same id, same demand). -/
theorem used_updApp {apps : List App} (hnd : (apps.map (·.id)).Nodup) {a a' : App} (ha : a ∈ apps)
    (hid : a'.id = a.id) (hd : a'.demand = a.demand) (sid : Nat) :
    used (updApp apps a') sid + (if a.server = some sid then a.demand else Vec.zero)
      = used apps sid + (if a'.server = some sid then a.demand else Vec.zero) :=
  used_upd apps hnd a a' ha hid hd sid

/-- Changing an app's record without touching id, server or demand preserves `Core`. -/
theorem core_appSame {srvs : List Srv} {apps : List App} (hc : Core srvs apps) {a a' : App} (ha : a ∈ apps)
    (hid : a'.id = a.id) (hsv : a'.server = a.server) (hd : a'.demand = a.demand) :
    Core srvs (updApp apps a') := by
  have hu : ∀ sid, used (updApp apps a') sid = used apps sid := by
    intro sid
    have := used_updApp hc.appIds ha hid hd sid
    rw [hsv] at this
    have hm := congrArg Vec.m this
    have hcc := congrArg Vec.c this
    have hdd := congrArg Vec.d this
    apply Vec.ext' <;> simp at hm hcc hdd ⊢ <;> omega
  refine ⟨hc.srvIds, ?_, ?_, ?_, ?_, hc.sapps⟩
  · unfold updApp; rw [map_upd_keys (·.id) apps a']; exact hc.appIds
  · intro x hx
    rcases mem_updApp.mp hx with ⟨hx, _⟩ | ⟨rfl, _⟩
    · exact hc.demand x hx
    · rw [hd]; exact hc.demand a ha
  · intro s hs
    rw [hu]; exact hc.free s hs
  · intro s hs aid
    rw [hc.views s hs aid]
    constructor
    · rintro ⟨b, hb, hbid, hbs⟩
      by_cases e : b.id = a'.id
      · have : b = a := key_unique (·.id) apps hc.appIds b a hb ha (by rw [e, hid])
        subst this
        exact ⟨a', mem_updApp.mpr (Or.inr ⟨rfl, b, hb, e⟩), by rw [hid, ← hbid], by rw [hsv]; exact hbs⟩
      · exact ⟨b, mem_updApp.mpr (Or.inl ⟨hb, e⟩), hbid, hbs⟩
    · rintro ⟨b, hb, hbid, hbs⟩
      rcases mem_updApp.mp hb with ⟨hb, _⟩ | ⟨rfl, _⟩
      · exact ⟨b, hb, hbid, hbs⟩
      · exact ⟨a, ha, by rw [← hid]; exact hbid, by rw [← hsv]; exact hbs⟩

/-- `Server.put` bookkeeping. -/
theorem core_put {srvs : List Srv} {apps : List App} (hc : Core srvs apps) {s s' : Srv} (hs : s ∈ srvs)
    {a a' : App} (ha : a ∈ apps) (hnone : a.server = none)
    (hfit : a.demand.m ≤ s.free.m ∧ a.demand.c ≤ s.free.c ∧ a.demand.d ≤ s.free.d)
    (hsid : s'.id = s.id) (hsinit : s'.init = s.init) (hsfree : s'.free = s.free - a.demand)
    (hsapps : s'.apps = s.apps ++ [a.id])
    (haid : a'.id = a.id) (had : a'.demand = a.demand) (hasv : a'.server = some s.id) :
    Core (updSrv srvs s') (updApp apps a') := by
  have hnotin : a.id ∉ s.apps := by
    intro h
    obtain ⟨b, hb, hbid, hbs⟩ := (hc.views s hs a.id).mp h
    have : b = a := key_unique (·.id) apps hc.appIds b a hb ha hbid
    subst this; rw [hnone] at hbs; cases hbs
  have hu : ∀ sid, used (updApp apps a') sid = used apps sid + (if sid = s.id then a.demand else Vec.zero) := by
    intro sid
    have := used_updApp hc.appIds ha haid had sid
    rw [hnone, hasv] at this
    have hm := congrArg Vec.m this
    have hcc := congrArg Vec.c this
    have hdd := congrArg Vec.d this
    by_cases e : sid = s.id
    · subst e; apply Vec.ext' <;> simp at hm hcc hdd ⊢ <;> omega
    · have e' : ¬ (s.id = sid) := fun h => e h.symm
      apply Vec.ext' <;> simp [e, e'] at hm hcc hdd ⊢ <;> omega
  refine ⟨?_, ?_, ?_, ?_, ?_, ?_⟩
  · unfold updSrv; rw [map_upd_keys (·.id) srvs s']; exact hc.srvIds
  · unfold updApp; rw [map_upd_keys (·.id) apps a']; exact hc.appIds
  · intro x hx
    rcases mem_updApp.mp hx with ⟨hx, _⟩ | ⟨rfl, _⟩
    · exact hc.demand x hx
    · rw [had]; exact hc.demand a ha
  · intro x hx
    rcases mem_updSrv.mp hx with ⟨hx, hne⟩ | ⟨rfl, _⟩
    · rw [hu]
      have hne' : x.id ≠ s.id := by rw [← hsid]; exact hne
      obtain ⟨h1, h2⟩ := hc.free x hx
      refine ⟨h1, ?_⟩
      rw [← h2]; apply Vec.ext' <;> simp [hne']
    · obtain ⟨⟨n1, n2, n3⟩, h2⟩ := hc.free s hs
      have hm := congrArg Vec.m h2
      have hcc := congrArg Vec.c h2
      have hdd := congrArg Vec.d h2
      rw [hu, hsid, hsinit, hsfree]
      refine ⟨⟨by simp; omega, by simp; omega, by simp; omega⟩, ?_⟩
      apply Vec.ext' <;> simp at hm hcc hdd ⊢ <;> omega
  · intro x hx aid
    rcases mem_updSrv.mp hx with ⟨hx, hne⟩ | ⟨rfl, _⟩
    · have hne' : x.id ≠ s.id := by rw [← hsid]; exact hne
      rw [hc.views x hx aid]
      constructor
      · rintro ⟨b, hb, hbid, hbs⟩
        have : b.id ≠ a'.id := by
          intro e
          have : b = a := key_unique (·.id) apps hc.appIds b a hb ha (by rw [e, haid])
          subst this; rw [hnone] at hbs; cases hbs
        exact ⟨b, mem_updApp.mpr (Or.inl ⟨hb, this⟩), hbid, hbs⟩
      · rintro ⟨b, hb, hbid, hbs⟩
        rcases mem_updApp.mp hb with ⟨hb, _⟩ | ⟨rfl, _⟩
        · exact ⟨b, hb, hbid, hbs⟩
        · rw [hasv] at hbs; exact absurd (Option.some.inj hbs).symm hne'
    · rw [hsapps, hsid, List.mem_append, List.mem_singleton]
      constructor
      · rintro (h | rfl)
        · obtain ⟨b, hb, hbid, hbs⟩ := (hc.views s hs aid).mp h
          have : b.id ≠ a'.id := by
            intro e
            have : b = a := key_unique (·.id) apps hc.appIds b a hb ha (by rw [e, haid])
            subst this; rw [hnone] at hbs; cases hbs
          exact ⟨b, mem_updApp.mpr (Or.inl ⟨hb, this⟩), hbid, hbs⟩
        · exact ⟨a', mem_updApp.mpr (Or.inr ⟨rfl, a, ha, haid.symm⟩), haid, hasv⟩
      · rintro ⟨b, hb, hbid, hbs⟩
        rcases mem_updApp.mp hb with ⟨hb, _⟩ | ⟨rfl, _⟩
        · exact Or.inl ((hc.views s hs aid).mpr ⟨b, hb, hbid, hbs⟩)
        · exact Or.inr (by rw [← hbid, haid])
  · intro x hx
    rcases mem_updSrv.mp hx with ⟨hx, _⟩ | ⟨rfl, _⟩
    · exact hc.sapps x hx
    · rw [hsapps, List.nodup_append]
      refine ⟨hc.sapps s hs, by simp, ?_⟩
      intro y hy z hz
      simp only [List.mem_singleton] at hz
      subst hz
      intro e; subst e; exact hnotin hy


/-- `Server.remove` bookkeeping. -/
theorem core_remove {srvs : List Srv} {apps : List App} (hc : Core srvs apps) {s s' : Srv} (hs : s ∈ srvs)
    {a a' : App} (ha : a ∈ apps) (hon : a.server = some s.id)
    (hsid : s'.id = s.id) (hsinit : s'.init = s.init) (hsfree : s'.free = s.free + a.demand)
    (hsapps : s'.apps = s.apps.filter (· ≠ a.id))
    (haid : a'.id = a.id) (had : a'.demand = a.demand) (hasv : a'.server = none) :
    Core (updSrv srvs s') (updApp apps a') := by
  have hu : ∀ sid, used (updApp apps a') sid + (if sid = s.id then a.demand else Vec.zero) = used apps sid := by
    intro sid
    have := used_updApp hc.appIds ha haid had sid
    rw [hon, hasv] at this
    have hm := congrArg Vec.m this
    have hcc := congrArg Vec.c this
    have hdd := congrArg Vec.d this
    by_cases e : sid = s.id
    · subst e; apply Vec.ext' <;> simp at hm hcc hdd ⊢ <;> omega
    · have e' : ¬ (s.id = sid) := fun h => e h.symm
      apply Vec.ext' <;> simp [e, e'] at hm hcc hdd ⊢ <;> omega
  refine ⟨?_, ?_, ?_, ?_, ?_, ?_⟩
  · unfold updSrv; rw [map_upd_keys (·.id) srvs s']; exact hc.srvIds
  · unfold updApp; rw [map_upd_keys (·.id) apps a']; exact hc.appIds
  · intro x hx
    rcases mem_updApp.mp hx with ⟨hx, _⟩ | ⟨rfl, _⟩
    · exact hc.demand x hx
    · rw [had]; exact hc.demand a ha
  · intro x hx
    rcases mem_updSrv.mp hx with ⟨hx, hne⟩ | ⟨rfl, _⟩
    · have hne' : x.id ≠ s.id := by rw [← hsid]; exact hne
      obtain ⟨h1, h2⟩ := hc.free x hx
      refine ⟨h1, ?_⟩
      have := hu x.id
      simp only [hne', ↓reduceIte] at this
      rw [← h2, ← this]; apply Vec.ext' <;> simp
    · obtain ⟨⟨n1, n2, n3⟩, h2⟩ := hc.free s hs
      obtain ⟨d1, d2, d3⟩ := hc.demand a ha
      have hm := congrArg Vec.m h2
      have hcc := congrArg Vec.c h2
      have hdd := congrArg Vec.d h2
      have hus := hu s.id
      simp only [↓reduceIte] at hus
      have um := congrArg Vec.m hus
      have uc := congrArg Vec.c hus
      have ud := congrArg Vec.d hus
      rw [hsid, hsinit, hsfree]
      refine ⟨⟨by simp; omega, by simp; omega, by simp; omega⟩, ?_⟩
      apply Vec.ext' <;> simp at hm hcc hdd um uc ud ⊢ <;> omega
  · intro x hx aid
    rcases mem_updSrv.mp hx with ⟨hx, hne⟩ | ⟨rfl, _⟩
    · have hne' : x.id ≠ s.id := by rw [← hsid]; exact hne
      rw [hc.views x hx aid]
      constructor
      · rintro ⟨b, hb, hbid, hbs⟩
        have : b.id ≠ a'.id := by
          intro e
          have : b = a := key_unique (·.id) apps hc.appIds b a hb ha (by rw [e, haid])
          subst this; rw [hon] at hbs; exact hne' (Option.some.inj hbs).symm
        exact ⟨b, mem_updApp.mpr (Or.inl ⟨hb, this⟩), hbid, hbs⟩
      · rintro ⟨b, hb, hbid, hbs⟩
        rcases mem_updApp.mp hb with ⟨hb, _⟩ | ⟨rfl, _⟩
        · exact ⟨b, hb, hbid, hbs⟩
        · rw [hasv] at hbs; cases hbs
    · rw [hsapps, hsid, List.mem_filter]
      constructor
      · rintro ⟨h, hne⟩
        obtain ⟨b, hb, hbid, hbs⟩ := (hc.views s hs aid).mp h
        have : b.id ≠ a'.id := by
          rw [haid, hbid]; simpa using hne
        exact ⟨b, mem_updApp.mpr (Or.inl ⟨hb, this⟩), hbid, hbs⟩
      · rintro ⟨b, hb, hbid, hbs⟩
        rcases mem_updApp.mp hb with ⟨hb, hne⟩ | ⟨rfl, _⟩
        · refine ⟨(hc.views s hs aid).mpr ⟨b, hb, hbid, hbs⟩, ?_⟩
          rw [haid, hbid] at hne; simpa using hne
        · rw [hasv] at hbs; cases hbs
  · intro x hx
    rcases mem_updSrv.mp hx with ⟨hx, _⟩ | ⟨rfl, _⟩
    · exact hc.sapps x hx
    · rw [hsapps]; exact (hc.sapps s hs).filter _

/-- `_fix_invalid_placements`: forgetting a placement on a server that no longer exists. -/
theorem core_dropDangling {srvs : List Srv} {apps : List App} (hc : Core srvs apps) {a a' : App} (ha : a ∈ apps)
    {sid : Nat} (hon : a.server = some sid) (hgone : ∀ s ∈ srvs, s.id ≠ sid)
    (haid : a'.id = a.id) (had : a'.demand = a.demand) (hasv : a'.server = none) :
    Core srvs (updApp apps a') := by
  have hu : ∀ s ∈ srvs, used (updApp apps a') s.id = used apps s.id := by
    intro s hs
    have := used_updApp hc.appIds ha haid had s.id
    rw [hon, hasv] at this
    have hne : ¬ (sid = s.id) := fun e => hgone s hs e.symm
    have hm := congrArg Vec.m this
    have hcc := congrArg Vec.c this
    have hdd := congrArg Vec.d this
    apply Vec.ext' <;> simp [hne] at hm hcc hdd ⊢ <;> omega
  refine ⟨hc.srvIds, ?_, ?_, ?_, ?_, hc.sapps⟩
  · unfold updApp; rw [map_upd_keys (·.id) apps a']; exact hc.appIds
  · intro x hx
    rcases mem_updApp.mp hx with ⟨hx, _⟩ | ⟨rfl, _⟩
    · exact hc.demand x hx
    · rw [had]; exact hc.demand a ha
  · intro s hs; rw [hu s hs]; exact hc.free s hs
  · intro s hs aid
    rw [hc.views s hs aid]
    constructor
    · rintro ⟨b, hb, hbid, hbs⟩
      have : b.id ≠ a'.id := by
        intro e
        have : b = a := key_unique (·.id) apps hc.appIds b a hb ha (by rw [e, haid])
        subst this; rw [hon] at hbs; exact hgone s hs (Option.some.inj hbs).symm
      exact ⟨b, mem_updApp.mpr (Or.inl ⟨hb, this⟩), hbid, hbs⟩
    · rintro ⟨b, hb, hbid, hbs⟩
      rcases mem_updApp.mp hb with ⟨hb, _⟩ | ⟨rfl, _⟩
      · exact ⟨b, hb, hbid, hbs⟩
      · rw [hasv] at hbs; cases hbs



theorem used_map (apps : List App) (f : App → App) (hsv : ∀ a, (f a).server = a.server)
    (hd : ∀ a, (f a).demand = a.demand) (sid : Nat) : used (apps.map f) sid = used apps sid := by
  induction apps with
  | nil => rfl
  | cons x t ih => simp only [List.map_cons, used_cons, hsv, hd, ih]

/-- Mapping every app through a function that keeps id, server and demand. -/
theorem core_mapSame {srvs : List Srv} {apps : List App} (hc : Core srvs apps) (f : App → App)
    (hid : ∀ a, (f a).id = a.id) (hsv : ∀ a, (f a).server = a.server) (hd : ∀ a, (f a).demand = a.demand) :
    Core srvs (apps.map f) := by
  refine ⟨hc.srvIds, ?_, ?_, ?_, ?_, hc.sapps⟩
  · rw [List.map_map]
    have : ((fun x => x.id) ∘ f) = (fun x : App => x.id) := by funext a; exact hid a
    rw [this]; exact hc.appIds
  · intro x hx
    obtain ⟨y, hy, rfl⟩ := List.mem_map.mp hx
    rw [hd]; exact hc.demand y hy
  · intro s hs; rw [used_map apps f hsv hd]; exact hc.free s hs
  · intro s hs aid
    rw [hc.views s hs aid]
    constructor
    · rintro ⟨b, hb, h1, h2⟩
      exact ⟨f b, List.mem_map_of_mem hb, by rw [hid]; exact h1, by rw [hsv]; exact h2⟩
    · rintro ⟨b, hb, h1, h2⟩
      obtain ⟨y, hy, rfl⟩ := List.mem_map.mp hb
      exact ⟨y, hy, by rw [← hid]; exact h1, by rw [← hsv]; exact h2⟩

end TmVerif.Sched
