/-
  C07 — a running instance is displaced only for an instance ahead of it in the queue.
  Loop-level argument over `_find_placements`.
-/
import TmVerif.Sched.DisplaceRestore
import TmVerif.Sched.Settled3

namespace TmVerif.Sched

/-! ### apps an entry's chain does not touch -/

/-- Whole-record stability of an app no label targets. -/
theorem lprim_untargeted_eq {c c' : Cell} {lab : Lab} (hp : LPrim lab c c') {x : Nat} (hx : lab.target ≠ some x)
    (hne : lab ≠ .clearEv) : c'.app? x = c.app? x := by
  cases hp with
  | put h =>
    rename_i aid sid l0 b
    exact serverPut_app_ne h (by intro e; exact hx (by simp [Lab.target, e]))
  | remove h =>
    rename_i sid aid
    exact serverRemove_app_ne h (by intro e; exact hx (by simp [Lab.target, e]))
  | release h =>
    rename_i aid
    have hne : x ≠ aid := by intro e; exact hx (by simp [Lab.target, e])
    simp only [releaseIdentity, bind_ok, orAbort_ok] at h
    obtain ⟨a, ha, h⟩ := h
    split at h
    · simp only [bind_ok, orAbort_ok, pure_ok] at h
      obtain ⟨grp, _, rfl⟩ := h
      rw [app?_setApp_ne (by show x ≠ a.id; rw [app?_id ha]; exact hne)]; rfl
    · simp only [pure_ok] at h; subst h; rfl
  | acquire h =>
    rename_i aid ch b ch'
    have hne : x ≠ aid := by intro e; exact hx (by simp [Lab.target, e])
    simp only [acquireIdentity, bind_ok, orAbort_ok] at h
    obtain ⟨a, ha, h⟩ := h
    split at h
    · simp only [pure_ok, Prod.mk.injEq] at h
      obtain ⟨rfl, _⟩ := h; rfl
    · split at h
      · simp only [pure_ok, Prod.mk.injEq] at h
        obtain ⟨rfl, _⟩ := h; rfl
      · simp only [bind_ok, orAbort_ok] at h
        obtain ⟨grp, _, h⟩ := h
        split at h
        · simp only [pure_ok, Prod.mk.injEq] at h
          obtain ⟨rfl, _⟩ := h; rfl
        · split at h
          · simp only [throw_ne_ok] at h
          · split at h
            · simp only [throw_bind, throw_ne_ok] at h
            · simp only [pure_ok, Prod.mk.injEq] at h
              obtain ⟨rfl, _⟩ := h
              rw [app?_setApp_ne (by show x ≠ a.id; rw [app?_id ha]; exact hne)]; rfl
  | appMeta ha hid _ _ _ _ _ _ _ _ _ _ _ _ _ _ _ _ =>
    refine app?_setApp_ne ?_
    intro e; exact hx (by simp [Lab.target, e, hid])
  | setRenew ha =>
    refine app?_setApp_ne ?_
    intro e; exact hx (by simp [Lab.target, e])
  | ghost ha =>
    refine app?_setApp_ne ?_
    intro e; exact hx (by simp [Lab.target, e])
  | dropDangling ha _ _ =>
    refine app?_setApp_ne ?_
    intro e; exact hx (by simp [Lab.target, e])
  | forgetIdentity ha _ _ _ _ =>
    refine app?_setApp_ne ?_
    intro e; exact hx (by simp [Lab.target, e])
  | tree => rfl
  | clearEv => exact absurd rfl hne

theorem placeOk_not_clear {a0 : App} {unpl : Bool} {after : List Nat} {c : Cell} {lab : Lab}
    (h : PlaceOk a0 unpl after c lab) : lab ≠ .clearEv := by
  intro e; subst e; exact h

/-- An app that is neither the entry's own nor behind it in the queue is untouched by the entry. -/
theorem entry_untouched {a0 : App} {unpl : Bool} {after : List Nat} {c c1 : Cell}
    (h : LReach (PlaceOk a0 unpl after) c c1) {y : Nat} (hy : y ≠ a0.id) (hya : y ∉ after) :
    c1.app? y = c.app? y := by
  induction h with
  | refl => rfl
  | step _ p hp ih =>
    rw [← ih]
    refine lprim_untargeted_eq p ?_ (placeOk_not_clear hp)
    intro ht
    rcases placeOk_target hp y ht with e | e
    · exact hy e
    · exact hya e

/-- Apps other than the entry's own only keep or lose their server while the entry is processed. -/
theorem entry_servers_ne {a0 : App} {unpl : Bool} {after : List Nat} {c c1 : Cell}
    (h : LReach (PlaceOk a0 unpl after) c c1) {y : Nat} (hy : y ≠ a0.id) :
    ∀ b1, c1.app? y = some b1 → ∃ b, c.app? y = some b ∧ (b1.server = b.server ∨ b1.server = none) := by
  induction h with
  | refl => intro b1 h1; exact ⟨b1, h1, Or.inl rfl⟩
  | @step c' c'' lab _ p hp ih =>
    intro b2 h2
    obtain ⟨b1, h1, hcase⟩ := lprim_server p y b2 h2
    obtain ⟨b, hb, hprev⟩ := ih b1 h1
    refine ⟨b, hb, ?_⟩
    rcases hcase with e | e | ⟨sid, l0, hl, _, _⟩
    · rcases hprev with e' | e'
      · exact Or.inl (e.trans e')
      · exact Or.inr (e.trans e')
    · exact Or.inr e
    · exfalso
      subst hl
      simp only [PlaceOk] at hp
      exact hy hp.1

/-! ### the status of `x` while it waits for its turn -/

/-- `x` still sits on `S`, or was evicted from `S` in this loop and has its `evicted` entry; it
    holds its identity and asks for no renewal. -/
def XWait (c : Cell) (x S : Nat) : Prop :=
  ∃ a, c.app? x = some a ∧ a.renew = false ∧ a.hasIdentity = true ∧
    (a.server = some S ∨ (a.server = none ∧ ∃ e, a.evFrom = some (S, e)))

theorem xwait_step {a0 : App} {unpl : Bool} {after : List Nat} {c c' : Cell} {lab : Lab} {x S : Nat}
    (hok : PlaceOk a0 unpl after c lab) (hp : LPrim lab c c') (hx : x ≠ a0.id) (hw : XWait c x S) :
    XWait c' x S := by
  obtain ⟨a, ha, hnr, hid, hsv⟩ := hw
  by_cases ht : lab.target = some x
  · -- the label targets x: an eviction (`remove`) or its bookkeeping (`ghost`)
    cases hp with
    | @remove _ _ sid aid h =>
      have e : aid = x := by simpa [Lab.target] using ht
      subst e
      simp only [PlaceOk] at hok
      rcases hok with h1 | ⟨_, _, _, _, x0, s, hx0, hev, hsv0, _, _⟩
      · exact absurd h1.1 hx
      · rw [ha] at hx0; cases hx0
        obtain ⟨a1, ha1, ha1'⟩ := serverRemove_app_self h
        rw [ha] at ha1; cases ha1
        have hsid : sid = S := by
          rcases hsv with e | ⟨e, _⟩
          · rw [hsv0] at e; exact Option.some.inj e
          · rw [hsv0] at e; cases e
        subst hsid
        refine ⟨removeRec a, ha1', hnr, ?_, Or.inr ⟨rfl, _, hev⟩⟩
        exact hid
    | @ghost _ a1 v ha1 =>
      have e : a1.id = x := by simpa [Lab.target] using ht
      rw [e, ha] at ha1; cases ha1
      simp only [PlaceOk] at hok
      obtain ⟨_, _, _, _, x0, sid, s, hx0, hsv0, _, _, hv⟩ := hok
      rw [e, ha] at hx0; cases hx0
      have hS : a.server = some S := by
        rcases hsv with e' | ⟨e', _⟩
        · exact e'
        · rw [hsv0] at e'; cases e'
      refine ⟨{ a with evFrom := v }, ?_, hnr, hid, Or.inl hS⟩
      rw [← e]; exact app?_setApp_self (by rw [e]; exact ha)
    | @put _ _ aid sid l0 b h =>
      have e : aid = x := by simpa [Lab.target] using ht
      subst e; simp only [PlaceOk] at hok; exact absurd hok.1 hx
    | @release _ _ aid h =>
      have e : aid = x := by simpa [Lab.target] using ht
      subst e; simp only [PlaceOk] at hok; exact absurd hok.1 hx
    | @acquire _ _ aid ch b ch' h =>
      have e : aid = x := by simpa [Lab.target] using ht
      subst e; simp only [PlaceOk] at hok; exact absurd hok.1 hx
    | @appMeta _ a1 a1' ha1 hid1 =>
      have e : a1.id = x := by simpa [Lab.target] using ht
      simp only [PlaceOk] at hok; exact absurd (e.symm.trans hok.1) hx
    | @setRenew _ a1 b ha1 =>
      have e : a1.id = x := by simpa [Lab.target] using ht
      simp only [PlaceOk] at hok; exact absurd (e.symm.trans hok.1) hx
    | dropDangling _ _ _ => simp only [PlaceOk] at hok
    | forgetIdentity _ _ _ _ _ => simp only [PlaceOk] at hok
    | tree _ _ => simp [Lab.target] at ht
    | clearEv => simp [Lab.target] at ht
  · have := lprim_untargeted_eq hp ht (placeOk_not_clear hok)
    exact ⟨a, by rw [this]; exact ha, hnr, hid, hsv⟩

theorem xwait_entry {a0 : App} {unpl : Bool} {after : List Nat} {c c1 : Cell} {x S : Nat}
    (h : LReach (PlaceOk a0 unpl after) c c1) (hx : x ≠ a0.id) (hw : XWait c x S) : XWait c1 x S := by
  induction h with
  | refl => exact hw
  | step _ p hp ih => exact xwait_step hp p hx ih

/-! ### `x`'s own turn -/

theorem acquire_has {c c' : Cell} {aid : Nat} {ch ch' : List Nat} {got : Bool} {a : App}
    (ha : c.app? aid = some a) (hid : a.hasIdentity = true)
    (h : acquireIdentity c aid ch = .ok (c', got, ch')) : c' = c ∧ got = true := by
  simp only [acquireIdentity, bind_ok, orAbort_ok] at h
  obtain ⟨a1, ha1, h⟩ := h
  rw [ha] at ha1; cases ha1
  split at h
  · simp only [pure_ok, Prod.mk.injEq] at h
    exact ⟨h.1.symm, h.2.1.symm⟩
  · rename_i g hg
    split at h
    · simp only [pure_ok, Prod.mk.injEq] at h
      exact ⟨h.1.symm, h.2.1.symm⟩
    · rename_i hnone
      exfalso
      simp only [App.hasIdentity, hg, Option.isNone_some, Bool.false_or] at hid
      exact hnone hid

/-- What protects `x`: placed on the up server `S` of its partition with the traits it wants, not
    blacklisted — all facts about the state `c0` at the start of the loop. -/
structure Protected (c0 : Cell) (x S : Nat) : Prop where
  app : ∃ a0 s0, c0.app? x = some a0 ∧ c0.srv? S = some s0 ∧ a0.server = some S ∧
    a0.blacklisted = false ∧ s0.label = (c0.allocInfo a0.alloc).label ∧
    hasTraits s0.traits (c0.appTraits a0) = true

/-- `x`'s turn in a clean state: it stays on `S`, or is put back on `S`. -/
theorem x_entry {c0 c : Cell} {x S : Nat} {revq : List Nat} {st st' : PState}
    (h0 : AffAll c0) (hreach : Reach c0 c) (hprot : Protected c0 x S) (hclean : Clean c0 c)
    (hw : XWait c x S) (hst : st.cell = c) (h : placeOne revq st (x, false) = .ok st') :
    ∃ a', st'.cell.app? x = some a' ∧ a'.server = some S := by
  obtain ⟨a0, s0, ha0, hs0, hsv0, hbl0, hlab, htr⟩ := hprot.app
  obtain ⟨a, ha, hnr, hid, hsv⟩ := hw
  have hstat := sameStatic_reach hreach
  obtain ⟨a0', ha0', esta⟩ := app?_stat_of hstat ha
  rw [ha0] at ha0'; cases ha0'
  have hbl : a.blacklisted = false := by
    have : a.blacklisted = a0.blacklisted := congrArg AppStat.blacklisted esta
    rw [this]; exact hbl0
  have haid : a.id = x := app?_id ha
  subst hst
  simp only [placeOne, bind_ok, orAbort_ok] at h
  obtain ⟨a1, ha1, h⟩ := h
  rw [ha] at ha1; cases ha1
  simp only [hbl, Bool.false_eq_true, ↓reduceIte, bind_ok, orAbort_ok] at h
  obtain ⟨⟨c1, restore⟩, hren, a1, ha1, h⟩ := h
  obtain ⟨rfl, rfl⟩ := renewStep_noop hnr hren
  simp only at ha1 h
  rw [ha] at ha1; cases ha1
  -- the record after `app.renew = False`, kept opaque
  generalize har : ({ a with renew := false } : App) = ar at h
  have arid : ar.id = x := by rw [← har]; exact haid
  have arsv : ar.server = a.server := by rw [← har]
  have arev : ar.evFrom = a.evFrom := by rw [← har]
  have arhas : ar.hasIdentity = true := by rw [← har]; exact hid
  have hc1 : (st.cell.setApp ar).app? x = some ar := by
    have := app?_setApp_self (c := st.cell) (a := a) (a' := ar) (by rw [arid]; exact ha)
    rw [arid] at this; exact this
  rcases hsv with hS | ⟨hnone, e, hev⟩
  · -- still on S
    rw [hS] at h
    simp only at h
    split at h
    · simp only [throw_ne_ok] at h
    · split at h
      · simp only [throw_ne_ok] at h
      · simp only [pure_ok] at h
        subst h
        exact ⟨ar, hc1, by rw [arsv]; exact hS⟩
  · -- evicted from S earlier in this loop
    rw [hnone] at h
    simp only [bind_ok] at h
    obtain ⟨⟨c2, got, ch⟩, hacq, h⟩ := h
    obtain ⟨rfl, rfl⟩ := acquire_has hc1 arhas hacq
    simp only [Bool.not_true, Bool.false_eq_true, ↓reduceIte] at h
    simp only [afterAcquire, bind_ok] at h
    obtain ⟨⟨c3, done⟩, hrest, h⟩ := h
    -- the restore succeeds
    have hreach1 : Reach c0 (st.cell.setApp ar) := by
      rw [← har]
      exact hreach.trans (Reach.single ⟨_, LPrim.setRenew (b := false) (by rw [haid]; exact ha)⟩)
    have hclean1 : Clean c0 (st.cell.setApp ar) := by
      intro q b0 b hb0 hb
      rw [app?_setApp] at hb
      cases hq : st.cell.app? q with
      | none => rw [hq] at hb; cases hb
      | some bq =>
        rw [hq] at hb
        simp only [Option.map_some, Option.some.injEq] at hb
        have hcl := hclean q b0 bq hb0 hq
        rw [← hb]
        split
        · rename_i e'
          have hqx : q = x := by rw [← app?_id hq, e']; exact arid
          subst hqx
          rw [ha] at hq; cases hq
          rw [arsv]; exact hcl
        · exact hcl
    simp only [restoreEvicted, bind_ok, orAbort_ok] at hrest
    obtain ⟨a2, ha2, hrest⟩ := hrest
    rw [hc1] at ha2; cases ha2
    rw [arev, hev] at hrest
    simp only at hrest
    split at hrest
    · simp only [throw_ne_ok] at hrest
    · simp only [bind_ok, orAbort_ok] at hrest
      obtain ⟨⟨c4, rc⟩, hr, a3, ha3, hrest⟩ := hrest
      -- unfold `Server.restore`
      have hr' := hr
      simp only [serverRestore, bind_ok, orAbort_ok, pure_ok] at hr'
      obtain ⟨ar', _, ⟨c5, rc5⟩, hput, a5, ha5, hr'⟩ := hr'
      simp only [Prod.mk.injEq] at hr'
      obtain ⟨rfl, rfl⟩ := hr'
      have hrc : rc5 = true :=
        restore_ok h0 hreach1 ha0 hs0 hsv0 hlab htr hclean1 hc1 (by rw [arsv]; exact hnone) hput
      subst hrc
      simp only [↓reduceIte, pure_ok, Prod.mk.injEq] at hrest
      obtain ⟨rfl, rfl⟩ := hrest
      simp only [↓reduceIte, pure_ok] at h
      subst h
      -- where x ends up: the put set `server := S`; the two `setApp`s that follow keep it
      rcases serverPut_shape hput with ⟨hb, _⟩ | ⟨_, ap, sp, anc, hap, _, _, _, _, _, happs, _⟩
      · cases hb
      · rw [hc1] at hap; cases hap
        have h5 : c5.app? x = some (putRec (st.cell.setApp ar) ar S true) := by
          rw [app?_of_apps happs, hc1]
          simp [putRec, arid]
        rw [h5] at ha5; cases ha5
        have h3 := ha3
        rw [app?_setApp, h5] at h3
        simp only [Option.map_some, Option.some.injEq] at h3
        have hsv3 : a3.server = some S := by rw [← h3]; split <;> simp [putRec]
        have hid3 : a3.id = x := by rw [← h3]; split <;> simp [putRec, arid]
        refine ⟨{ a3 with evFrom := none, evicted := false }, ?_, hsv3⟩
        rw [app?_setApp, ha3]
        simp only [Option.map_some, ↓reduceIte]

/-! ### the loop -/

/-- `y` is strictly ahead of `x` in the list: some prefix contains `y` but not `x`. -/
def AheadOf (x : Nat) (l : List Nat) (y : Nat) : Prop := ∃ l1 l2, l = l1 ++ l2 ∧ y ∈ l1 ∧ x ∉ l1

theorem AheadOf.append {x y : Nat} {l : List Nat} (h : AheadOf x l y) (l3 : List Nat) : AheadOf x (l ++ l3) y := by
  obtain ⟨l1, l2, e, h1, h2⟩ := h
  exact ⟨l1, l2 ++ l3, by rw [e, List.append_assoc], h1, h2⟩

/-- `y` ended up on a server it was not on at the start of the loop. -/
def MovedTo (c0 c : Cell) (y : Nat) : Prop :=
  ∃ b0 b t, c0.app? y = some b0 ∧ c.app? y = some b ∧ b.server = some t ∧ b0.server ≠ some t

/-- The three situations the loop can be in with respect to `x`, after the entries `done`. -/
def DispInv (c0 : Cell) (x S : Nat) (done : List Nat) (c : Cell) : Prop :=
  (∃ y, AheadOf x done y ∧ MovedTo c0 c y) ∨
  (x ∈ done ∧ ∃ a, c.app? x = some a ∧ a.server = some S) ∨
  (x ∉ done ∧ Clean c0 c ∧ XWait c x S)

theorem loop_displace {c0 : Cell} {x S : Nat} {full : List (Nat × Bool)} (h0 : AffAll c0)
    (hprot : Protected c0 x S) (hnd : (full.map (·.1)).Nodup) (hx : (x, false) ∈ full) :
    ∀ {rest : List (Nat × Bool)} {c c' : Cell}, Loop (full.map (·.1)).reverse rest c c' →
    ∀ done, full = done ++ rest → Reach c0 c → DispInv c0 x S (done.map (·.1)) c →
    DispInv c0 x S (full.map (·.1)) c' := by
  intro rest c c' hl
  induction hl with
  | nil =>
    intro done hfull _ hinv
    rw [hfull, List.append_nil]; exact hinv
  | @cons q rest c c1 c2 a0 ha0 hchain hrest hplace ih =>
    intro done hfull hreach hinv
    have hfull' : full = (done ++ [q]) ++ rest := by rw [hfull]; simp
    have hreach1 : Reach c0 c1 := hreach.trans hchain.toReach
    -- positions
    have hids : full.map (·.1) = done.map (·.1) ++ q.1 :: rest.map (·.1) := by rw [hfull]; simp
    have hnd' := hnd
    rw [hids] at hnd'
    have hsplit := List.nodup_append.mp hnd'
    have hqrest : q.1 ∉ rest.map (·.1) := (List.nodup_cons.mp hsplit.2.1).1
    have hqdone : q.1 ∉ done.map (·.1) := fun hm => hsplit.2.2 _ hm _ List.mem_cons_self rfl
    have hafter : ∀ y ∈ ((full.map (·.1)).reverse).takeWhile (· ≠ q.1), y ∈ rest.map (·.1) :=
      (afterOk_of_nodup full hnd done (q :: rest) hfull).1
    have hdone_not_after : ∀ y ∈ done.map (·.1), y ∉ ((full.map (·.1)).reverse).takeWhile (· ≠ q.1) := by
      intro y hy hin
      exact hsplit.2.2 _ hy _ (List.mem_cons_of_mem _ (hafter y hin)) rfl
    have hid0 : a0.id = q.1 := app?_id ha0
    apply ih (done ++ [q]) hfull' hreach1
    simp only [List.map_append, List.map_cons, List.map_nil]
    rcases hinv with ⟨y, hahead, hmoved⟩ | ⟨hxd, a, ha, hsv⟩ | ⟨hxd, hclean, hw⟩
    · -- a witness ahead of x exists already: it is not touched any more
      left
      obtain ⟨l1, l2, e, h1, h2⟩ := hahead
      have hyd : y ∈ done.map (·.1) := by rw [e]; exact List.mem_append_left _ h1
      have heq : c1.app? y = c.app? y :=
        entry_untouched hchain (by rw [hid0]; intro e'; exact hqdone (e' ▸ hyd)) (hdone_not_after y hyd)
      obtain ⟨b0, b, t, hb0, hb, hbt, hne⟩ := hmoved
      exact ⟨y, AheadOf.append ⟨l1, l2, e, h1, h2⟩ _, b0, b, t, hb0, by rw [heq]; exact hb, hbt, hne⟩
    · -- x had its turn and is on S: not touched any more
      right; left
      have heq : c1.app? x = c.app? x :=
        entry_untouched hchain (by rw [hid0]; intro e'; exact hqdone (e' ▸ hxd)) (hdone_not_after x hxd)
      exact ⟨List.mem_append_left _ hxd, a, by rw [heq]; exact ha, hsv⟩
    · by_cases hqx : q.1 = x
      · -- x's own turn
        right; left
        have hq : q = (x, false) := by
          -- ids are unique, so the entry with id x is (x, false)
          have hq_mem : q ∈ full := by rw [hfull]; simp
          have : ∀ (l : List (Nat × Bool)), (l.map (·.1)).Nodup → q ∈ l → (x, false) ∈ l → q.1 = x → q = (x, false) := by
            intro l
            induction l with
            | nil => intro _ h; cases h
            | cons z t iht =>
              intro hn h1 h2 e
              simp only [List.map_cons, List.nodup_cons] at hn
              rcases List.mem_cons.mp h1 with rfl | h1
              · rcases List.mem_cons.mp h2 with e2 | h2
                · exact e2.symm
                · exfalso; apply hn.1; rw [e]; exact List.mem_map_of_mem (f := (·.1)) h2
              · rcases List.mem_cons.mp h2 with e2 | h2
                · exfalso; apply hn.1; rw [← e2]; simp only; rw [← e]; exact List.mem_map_of_mem (f := (·.1)) h1
                · exact iht hn.2 h1 h2 e
          exact this full hnd hq_mem hx hqx
        obtain ⟨st, st', e1, e2, hpl⟩ := hplace
        rw [hq] at hpl
        obtain ⟨a', ha', hsv'⟩ := x_entry h0 hreach hprot hclean hw e1 hpl
        refine ⟨?_, a', by rw [← e2]; exact ha', hsv'⟩
        rw [hqx]; simp
      · -- another entry, ahead of x
        have hxne : x ≠ a0.id := by rw [hid0]; exact fun e => hqx e.symm
        have hw1 : XWait c1 x S := xwait_entry hchain hxne hw
        have hxd' : x ∉ done.map (·.1) ++ [q.1] := by
          simp only [List.mem_append, List.mem_singleton, not_or]
          exact ⟨hxd, fun e => hqx e.symm⟩
        -- did the entry's own app end on a server it was not on at the start?
        have hstat := sameStatic_reach hreach
        obtain ⟨b0, hb0, _⟩ := app?_stat_of hstat ha0
        obtain ⟨b1, hb1, _⟩ := app?_stat_to (sameStatic_lreach hchain) ha0
        by_cases hmv : ∃ t, b1.server = some t ∧ b0.server ≠ some t
        · left
          obtain ⟨t, ht1, ht2⟩ := hmv
          refine ⟨q.1, ⟨done.map (·.1) ++ [q.1], [], by simp, by simp, hxd'⟩, b0, b1, t, hb0, hb1, ht1, ht2⟩
        · right; right
          refine ⟨hxd', ?_, hw1⟩
          intro y d0 d1 hd0 hd1
          by_cases hy : y = q.1
          · subst hy
            rw [hb0] at hd0; cases hd0
            rw [hb1] at hd1; cases hd1
            cases hs : b1.server with
            | none => exact Or.inr rfl
            | some t =>
              left
              by_cases e : b0.server = some t
              · exact e.symm
              · exact absurd ⟨t, hs, e⟩ hmv
          · obtain ⟨d, hd, hcase⟩ := entry_servers_ne hchain (by rw [hid0]; exact hy) d1 hd1
            rcases hcase with e | e
            · rcases hclean y d0 d hd0 hd with e' | e'
              · exact Or.inl (e.trans e')
              · exact Or.inr (e.trans e')
            · exact Or.inr e

/-- **C07, one `_find_placements` call** (as the loop it runs, from the state `c0` in which the call
    starts).  Let `x` be placed on the up server `S` of its partition, not blacklisted, not over its
    cap (`(x, false)` is in the queue), holding its identity and asking for no renewal.  Then after the
    loop `x` is still on `S`, unless some instance strictly ahead of `x` in the queue ended on a server
    it was not on when the loop started. -/
theorem queue_displace {c0 c' : Cell} {x S : Nat} {queue : List (Nat × Bool)}
    (h0 : AffAll c0) (hprot : Protected c0 x S) (hnd : (queue.map (·.1)).Nodup) (hx : (x, false) ∈ queue)
    (hw : ∃ a, c0.app? x = some a ∧ a.renew = false ∧ a.hasIdentity = true)
    (hloop : Loop (queue.map (·.1)).reverse queue (clearGhost c0) c') :
    (∃ a', c'.app? x = some a' ∧ a'.server = some S) ∨
    ∃ y, AheadOf x (queue.map (·.1)) y ∧ MovedTo c0 c' y := by
  -- the state after `evicted = dict()`
  have hclr : Reach c0 (clearGhost c0) := Reach.single ⟨_, LPrim.clearEv⟩
  have hlook : ∀ y, (clearGhost c0).app? y = (c0.app? y).map (fun a => { a with evFrom := none }) := by
    intro y
    unfold Cell.app? clearGhost
    exact find?_map_id c0.apps (fun a : App => { a with evFrom := none }) (fun _ => rfl) y
  have h0' : AffAll (clearGhost c0) := affAll_reach h0 hclr
  obtain ⟨a0, s0, ha0, hs0, hsv0, hbl0, hlab, htr⟩ := hprot.app
  have hprot' : Protected (clearGhost c0) x S := by
    refine ⟨{ a0 with evFrom := none }, s0, by rw [hlook, ha0]; rfl, hs0, hsv0, hbl0, hlab, htr⟩
  obtain ⟨a, ha, hnr, hid⟩ := hw
  rw [ha0] at ha; cases ha
  have hinit : DispInv (clearGhost c0) x S (([] : List (Nat × Bool)).map (·.1)) (clearGhost c0) := by
    right; right
    refine ⟨by simp, fun q b0 b hb0 hb => by rw [hb0] at hb; cases hb; exact Or.inl rfl, ?_⟩
    exact ⟨{ a0 with evFrom := none }, by rw [hlook, ha0]; rfl, hnr, hid, Or.inl hsv0⟩
  have hres := loop_displace h0' hprot' hnd hx hloop [] (by simp) Reach.refl hinit
  have hxin : x ∈ queue.map (·.1) := List.mem_map_of_mem (f := (·.1)) hx
  rcases hres with ⟨y, hahead, b0, b, t, hb0, hb, hbt, hne⟩ | ⟨_, a', ha', hsv'⟩ | ⟨hnot, _⟩
  · right
    rw [hlook] at hb0
    cases hy : c0.app? y with
    | none => rw [hy] at hb0; cases hb0
    | some d0 =>
      rw [hy] at hb0
      simp only [Option.map_some, Option.some.injEq] at hb0
      refine ⟨y, hahead, d0, b, t, hy, hb, hbt, ?_⟩
      rw [← hb0] at hne; exact hne
  · exact Or.inl ⟨a', ha', hsv'⟩
  · exact absurd hxin hnot

theorem findPlacements_displace {c0 c' : Cell} {x S : Nat} {queue : List (Nat × Bool)} {ch ch' : List Nat}
    (h0 : AffAll c0) (hprot : Protected c0 x S) (hnd : (queue.map (·.1)).Nodup) (hx : (x, false) ∈ queue)
    (hw : ∃ a, c0.app? x = some a ∧ a.renew = false ∧ a.hasIdentity = true)
    (h : findPlacements c0 queue ch = .ok (c', ch')) :
    (∃ a', c'.app? x = some a' ∧ a'.server = some S) ∨
    ∃ y, AheadOf x (queue.map (·.1)) y ∧ MovedTo c0 c' y :=
  queue_displace h0 hprot hnd hx hw (findPlacements_loop h)

/-! ### partitions whose queue does not contain the app -/

/-- A loop over a queue that does not contain `y` leaves `y`'s placement, identity and renewal flag alone. -/
theorem loop_untouched {revq : List Nat} {qs : List (Nat × Bool)} {c c' : Cell} (hl : Loop revq qs c c')
    {y : Nat} (hr : y ∉ revq) (hq : y ∉ qs.map (·.1)) :
    ∀ a', c'.app? y = some a' → ∃ a, c.app? y = some a ∧ a'.server = a.server ∧ a'.identity = a.identity ∧
      a'.renew = a.renew := by
  induction hl with
  | nil => intro a' ha'; exact ⟨a', ha', rfl, rfl, rfl⟩
  | @cons q rest c c1 c2 a0 ha0 hchain _ _ ih =>
    intro a' ha'
    have hq' : y ∉ rest.map (·.1) := fun hm => hq (by simp [hm])
    obtain ⟨a1, ha1, e1, e2, e3⟩ := ih hq' a' ha'
    have hya0 : y ≠ a0.id := by
      rw [app?_id ha0]; intro e; exact hq (by simp [e])
    have hyaf : y ∉ revq.takeWhile (· ≠ q.1) := fun hm => hr (List.takeWhile_subset _ hm)
    have := entry_untouched hchain hya0 hyaf
    exact ⟨a1, by rw [← this]; exact ha1, e1, e2, e3⟩

/-- Whole partitions processed without `y` in their queue leave `y` alone. -/
theorem cycle_untouched {qss : List (List (Nat × Bool))} {c c' : Cell} (hcy : Cycle qss c c')
    {y : Nat} (hq : ∀ q ∈ qss, y ∉ q.map (·.1)) :
    ∀ a', c'.app? y = some a' → ∃ a, c.app? y = some a ∧ a'.server = a.server ∧ a'.identity = a.identity ∧
      a'.renew = a.renew := by
  induction hcy with
  | nil => intro a' ha'; exact ⟨a', ha', rfl, rfl, rfl⟩
  | @cons q qs c c1 c2 hl _ ih =>
    intro a' ha'
    obtain ⟨a1, ha1, e1, e2, e3⟩ := ih (fun q' hq' => hq q' (List.mem_cons_of_mem _ hq')) a' ha'
    have hyq := hq q List.mem_cons_self
    obtain ⟨a0, ha0, f1, f2, f3⟩ := loop_untouched hl (by simpa using hyq) hyq a1 ha1
    -- undo `evicted = dict()`
    have hlook : (clearGhost c).app? y = (c.app? y).map (fun a => { a with evFrom := none }) := by
      unfold Cell.app? clearGhost
      exact find?_map_id c.apps (fun a : App => { a with evFrom := none }) (fun _ => rfl) y
    rw [hlook] at ha0
    cases hy : c.app? y with
    | none => rw [hy] at ha0; cases ha0
    | some b =>
      rw [hy] at ha0
      simp only [Option.map_some, Option.some.injEq] at ha0
      refine ⟨b, rfl, ?_, ?_, ?_⟩
      · rw [e1, f1, ← ha0]
      · rw [e2, f2, ← ha0]
      · rw [e3, f3, ← ha0]

theorem Cycle.split : ∀ {qa qb : List (List (Nat × Bool))} {c c' : Cell}, Cycle (qa ++ qb) c c' →
    ∃ cm, Cycle qa c cm ∧ Cycle qb cm c' := by
  intro qa
  induction qa with
  | nil => intro qb c c' h; exact ⟨c, .nil, h⟩
  | cons q qa ih =>
    intro qb c c' h
    cases h with
    | cons hl hrest =>
      obtain ⟨cm, h1, h2⟩ := ih hrest
      exact ⟨cm, .cons hl h1, h2⟩

end TmVerif.Sched
