/-
  C03 (assignment): an app whose server after the cycle differs from the one it had when the cycle
  started was put on a server that is up and that outlives the app's lease.
-/
import TmVerif.Sched.Cons

namespace TmVerif.Sched

/-- Server `sid` is up and (if the app asked for a lease) not due for reboot before the lease ends. -/
def GoodFor (c0 ci : Cell) (sid : Nat) (ai : App) : Prop :=
  ∃ s, ci.srv? sid = some s ∧ s.state = .up ∧ (ai.lease = 0 ∨ c0.now + ai.lease < s.validUntil)

def StartOrGood (c0 ci : Cell) (y sid : Nat) (ai : App) : Prop :=
  (∃ a, c0.app? y = some a ∧ a.server = some sid) ∨ GoodFor c0 ci sid ai

theorem startOrGood_mono {c0 ci ci' : Cell} {y sid : Nat} {ai ai' : App} (hs : SameStatic ci ci')
    (hst : ai'.stat = ai.stat) (h : StartOrGood c0 ci y sid ai) : StartOrGood c0 ci' y sid ai' := by
  rcases h with h | ⟨s, hs0, hup, hl⟩
  · exact Or.inl h
  · obtain ⟨s', hs', est⟩ := srv?_stat_to hs hs0
    have e1 : s'.state = s.state := congrArg SrvStat.state est
    have e2 : s'.validUntil = s.validUntil := congrArg SrvStat.validUntil est
    have e3 : ai'.lease = ai.lease := congrArg AppStat.lease hst
    exact Or.inr ⟨s', hs', by rw [e1]; exact hup, by rw [e2, e3]; exact hl⟩

def AssignOk (c0 ci : Cell) : Prop :=
  ∀ y ai sid, ci.app? y = some ai → ai.server = some sid → StartOrGood c0 ci y sid ai

def GhostA (c0 ci : Cell) : Prop :=
  ∀ y ai sid e, ci.app? y = some ai → ai.evFrom = some (sid, e) → StartOrGood c0 ci y sid ai

/-- A step that places nothing new keeps `AssignOk`. -/
theorem assignOk_noput {c0 c c' : Cell} {lab : Lab} (ha : AssignOk c0 c)
    (hnp : ∀ x s l0, lab ≠ .put x s l0 true) (hp : LPrim lab c c') : AssignOk c0 c' := by
  intro y ai' sid hai' hsv
  have hs := sameStatic_lprim hp
  obtain ⟨a, hya, hcase⟩ := lprim_server hp y ai' hai'
  obtain ⟨a2, ha2, hst⟩ := app?_stat_of hs hai'
  rw [hya] at ha2; cases ha2
  rcases hcase with e | e | ⟨sid', l0, hl, _, _⟩
  · exact startOrGood_mono hs hst (ha y a sid hya (by rw [← e]; exact hsv))
  · rw [e] at hsv; cases hsv
  · exact absurd hl (hnp _ _ _)

theorem assign_schedule {c0 c' : Cell} {qs ch} (hc : InvCap c0) (h : schedule c0 qs ch = .ok c') :
    AssignOk c0 c' := by
  obtain ⟨c1, hpre, hcy⟩ := schedule_cycle hc h
  have h0 : AssignOk c0 c0 := fun y ai sid hai hsv => Or.inl ⟨ai, hai, hsv⟩
  have h1 : SameStatic c0 c1 ∧ AssignOk c0 c1 :=
    ⟨sameStatic_lreach hpre,
     hpre.induct (fun _ _ _ hi hok lp => assignOk_noput hi (fun x s l0 e => by subst e; simp only [PreOk] at hok) lp) h0⟩
  have h2 := cycle_inv (Ipre := fun ci => SameStatic c0 ci ∧ AssignOk c0 ci)
    (I := fun ci => (SameStatic c0 ci ∧ AssignOk c0 ci) ∧ GhostA c0 ci) ?_ (fun _ h => h.1) ?_ hcy h1
  · exact h2.2
  · intro ci ⟨hst, hao⟩
    refine ⟨⟨hst.trans (sameStatic_lprim (.clearEv (c := ci))),
      assignOk_noput hao (by intro _ _ _ e; cases e) (.clearEv (c := ci))⟩, ?_⟩
    intro y ai sid e hai hev
    exfalso
    have : (clearGhost ci).app? y = (ci.app? y).map (fun a => { a with evFrom := none }) := by
      unfold Cell.app? clearGhost
      exact find?_map_id ci.apps (fun a : App => { a with evFrom := none }) (fun _ => rfl) y
    rw [this] at hai
    cases hh : ci.app? y with
    | none => rw [hh] at hai; cases hai
    | some a =>
      rw [hh] at hai
      simp only [Option.map_some, Option.some.injEq] at hai
      rw [← hai] at hev; cases hev
  · intro ct q a0 after ci ci' lab ha0 hict hsct hi hok hp
    obtain ⟨⟨hst, hao⟩, hga⟩ := hi
    have hs := sameStatic_lprim hp
    refine ⟨⟨hst.trans hs, ?_⟩, ?_⟩
    · -- AssignOk
      intro y ai' sid hai' hsv
      obtain ⟨a, hya, hcase⟩ := lprim_server hp y ai' hai'
      obtain ⟨a2, ha2, hstat⟩ := app?_stat_of hs hai'
      rw [hya] at ha2; cases ha2
      rcases hcase with e | e | ⟨sid', l0, hl, hnone, hnew⟩
      · exact startOrGood_mono hs hstat (hao y a sid hya (by rw [← e]; exact hsv))
      · rw [e] at hsv; cases hsv
      · subst hl
        rw [hnew] at hsv
        have hsid : sid' = sid := Option.some.inj hsv
        subst hsid
        have hok' := hok
        simp only [PlaceOk] at hok'
        obtain ⟨hy, _, _, hfalse, htrue⟩ := hok'
        cases l0 with
        | false =>
          obtain ⟨s', hs', hup⟩ := hfalse rfl
          -- lifetime was checked by Server.put
          cases hp with
          | put hput =>
            rcases serverPut_shape hput with ⟨hb, _⟩ | ⟨_, a1, s1, anc, ha1, hs1, _, _, _, hchk, _, _⟩
            · cases hb
            · rw [hya] at ha1; cases ha1
              rw [hs'] at hs1; cases hs1
              unfold srvCheck at hchk
              simp only [Bool.and_eq_true] at hchk
              obtain ⟨⟨⟨⟨⟨hlt, _⟩, _⟩, _⟩, _⟩, _⟩ := hchk
              have hlt' : a.lease = 0 ∨ ci.now + a.lease < s'.validUntil := by
                unfold lifetimeOk at hlt
                simp only [Bool.or_eq_true, beq_iff_eq, decide_eq_true_eq] at hlt
                exact hlt
              have hg : GoodFor c0 ci sid' a := ⟨s', hs', hup, by rw [← hst.now]; exact hlt'⟩
              exact startOrGood_mono hs hstat (Or.inr hg)
        | true =>
          rcases htrue rfl with ⟨x0, e0, hx0, hev⟩ | ⟨_, hsv0⟩
          · rw [hya] at hx0; cases hx0
            exact startOrGood_mono hs hstat (hga y a sid' e0 hya hev)
          · have hq1 : q.1 = y := by rw [← app?_id ha0]; exact hy.symm
            rw [hq1] at ha0
            have hturn := hict.1.2 y a0 sid' ha0 hsv0
            obtain ⟨a3, ha3, hst3⟩ := app?_stat_of hsct hya
            rw [ha0] at ha3; cases ha3
            exact startOrGood_mono hs hstat (startOrGood_mono hsct hst3 hturn)
    · -- GhostA
      intro y ai' sid e hai' hev
      obtain ⟨a, hya, hcase⟩ := lprim_evFrom hp y ai' hai'
      obtain ⟨a2, ha2, hstat⟩ := app?_stat_of hs hai'
      rw [hya] at ha2; cases ha2
      rcases hcase with e1 | e1 | ⟨v, hl, e1⟩
      · exact startOrGood_mono hs hstat (hga y a sid e hya (by rw [← e1]; exact hev))
      · rw [e1] at hev; cases hev
      · subst hl
        simp only [PlaceOk] at hok
        obtain ⟨_, _, _, _, x0, sidx, sx, hx0, hsvx, _, _, hv⟩ := hok
        rw [hya] at hx0; cases hx0
        rw [e1, hv] at hev
        simp only [Option.some.injEq, Prod.mk.injEq] at hev
        have e3 : sidx = sid := hev.1
        subst e3
        exact startOrGood_mono hs hstat (hao y a sidx hya hsvx)

end TmVerif.Sched
