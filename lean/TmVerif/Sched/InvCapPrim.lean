import TmVerif.Sched.InvCap

namespace TmVerif.Sched

theorem invCap_put {c c' : Cell} {aid sid : Nat} {l0 b : Bool} (hc : InvCap c)
    (h : serverPut c aid sid l0 = .ok (c', b)) : InvCap c' := by
  simp only [serverPut, bind_ok, orAbort_ok] at h
  obtain ⟨a, ha, s, hs, h⟩ := h
  split at h
  · simp only [throw_bind, throw_ne_ok] at h
  · split at h
    · simp only [throw_bind, throw_ne_ok] at h
    · rename_i hnot
      simp only [bind_ok, orAbort_ok] at h
      obtain ⟨anc, _, h⟩ := h
      split at h
      · simp only [pure_ok, Prod.mk.injEq] at h
        obtain ⟨rfl, _⟩ := h; exact hc
      · rename_i hchk
        simp only [bind_ok, pure_ok, orAbort_ok, Prod.mk.injEq] at h
        obtain ⟨t1, _, t2, _, rfl, _⟩ := h
        have hnone : a.server = none := by
          cases hsv : a.server with
          | none => rfl
          | some x => simp [hsv] at hnot
        have hchk' : srvCheck (c.putCtx (putApp a l0)) s anc = true := by
          simpa using hchk
        have hfit : (a.demand.anyGt s.free) = false := by
          unfold srvCheck at hchk'
          simp only [Bool.and_eq_true, Bool.not_eq_true'] at hchk'
          have := hchk'.1.2
          cases l0 <;> simpa [Cell.putCtx, putApp] using this
        have := core_put (s' := { s with free := s.free - a.demand, apps := s.apps ++ [aid], aff := cadd s.aff a.aff 1 })
          (a' := { a with server := some sid, expiry := match a.expiry with
                       | some e => some e
                       | none => some (c.now + (putApp a l0).lease) })
          hc (srv?_mem hs) (app?_mem ha) hnone (Vec.not_anyGt hfit) rfl rfl rfl
          (by simp [app?_id ha]) rfl rfl (by simp [srv?_id hs])
        exact this

theorem invCap_remove {c c' : Cell} {sid aid : Nat} (hc : InvCap c)
    (h : serverRemove c sid aid = .ok c') : InvCap c' := by
  simp only [serverRemove, bind_ok, orAbort_ok] at h
  obtain ⟨s, hs, h⟩ := h
  split at h
  · simp only [throw_bind, throw_ne_ok] at h
  · rename_i hin
    simp only [bind_ok, pure_ok, orAbort_ok] at h
    obtain ⟨a, ha, t1, _, t2, _, rfl⟩ := h
    have hmem : aid ∈ s.apps := by simpa using hin
    obtain ⟨b, hb, hbid, hbs⟩ := (hc.views s (srv?_mem hs) aid).mp hmem
    have hba : b = a := key_unique (·.id) c.apps hc.appIds b a hb (app?_mem ha) (by rw [hbid, app?_id ha])
    subst hba
    have := core_remove (s' := { s with free := s.free + b.demand, apps := s.apps.filter (· ≠ aid), aff := cadd s.aff b.aff (-1) })
      (a' := { b with server := none, evicted := true, unschedule := false, expiry := none })
      hc (srv?_mem hs) hb hbs rfl rfl rfl (by simp [hbid]) rfl rfl rfl
    exact this

theorem invCap_appSame {c : Cell} {a a' : App} (hc : InvCap c) (ha : c.app? a.id = some a)
    (hid : a'.id = a.id) (hsv : a'.server = a.server) (hd : a'.demand = a.demand) : InvCap (c.setApp a') :=
  core_appSame hc (app?_mem ha) hid hsv hd

theorem invCap_release {c c' : Cell} {aid : Nat} (hc : InvCap c) (h : releaseIdentity c aid = .ok c') : InvCap c' := by
  simp only [releaseIdentity, bind_ok, orAbort_ok] at h
  obtain ⟨a, ha, h⟩ := h
  split at h
  · simp only [bind_ok, orAbort_ok, pure_ok] at h
    obtain ⟨grp, _, rfl⟩ := h
    have ha' : c.app? a.id = some a := by rw [app?_id ha]; exact ha
    exact core_appSame (a' := { a with identity := none }) hc (app?_mem ha') rfl rfl rfl
  · simp only [pure_ok] at h; subst h; exact hc

theorem invCap_acquire {c c' : Cell} {aid : Nat} {ch ch' : List Nat} {b : Bool} (hc : InvCap c)
    (h : acquireIdentity c aid ch = .ok (c', b, ch')) : InvCap c' := by
  simp only [acquireIdentity, bind_ok, orAbort_ok] at h
  obtain ⟨a, ha, h⟩ := h
  split at h
  · simp only [pure_ok, Prod.mk.injEq] at h
    obtain ⟨rfl, _⟩ := h; exact hc
  · split at h
    · simp only [pure_ok, Prod.mk.injEq] at h
      obtain ⟨rfl, _⟩ := h; exact hc
    · simp only [bind_ok, orAbort_ok] at h
      obtain ⟨grp, _, h⟩ := h
      split at h
      · simp only [pure_ok, Prod.mk.injEq] at h
        obtain ⟨rfl, _⟩ := h; exact hc
      · split at h
        · simp only [throw_ne_ok] at h
        · rename_i k rest
          split at h
          · simp only [throw_bind, throw_ne_ok] at h
          · simp only [pure_ok, Prod.mk.injEq] at h
            obtain ⟨rfl, _⟩ := h
            exact core_appSame (a' := { a with identity := some k }) hc (app?_mem ha) rfl rfl rfl

theorem invCap_dropDangling {c : Cell} {a : App} {sid : Nat} (hc : InvCap c) (ha : c.app? a.id = some a)
    (hon : a.server = some sid) (hgone : c.srv? sid = none) :
    InvCap (c.setApp { a with server := none, evicted := true }) := by
  refine core_dropDangling (a' := { a with server := none, evicted := true }) hc (app?_mem ha) hon ?_ rfl rfl rfl
  intro s hs e
  unfold Cell.srv? at hgone
  have := List.find?_eq_none.mp hgone s hs
  simp [e] at this

/-- Every (labelled) primitive transition preserves `InvCap`. -/
theorem invCap_lprim {c c' : Cell} {lab : Lab} (hc : InvCap c) (hp : LPrim lab c c') : InvCap c' := by
  cases hp with
  | put h => exact invCap_put hc h
  | remove h => exact invCap_remove hc h
  | release h => exact invCap_release hc h
  | acquire h => exact invCap_acquire hc h
  | appMeta ha hid hsv _ _ hd _ _ _ _ _ _ _ _ _ _ _ _ => exact invCap_appSame hc ha hid hsv hd
  | setRenew ha => exact invCap_appSame hc ha rfl rfl rfl
  | ghost ha => exact invCap_appSame hc ha rfl rfl rfl
  | dropDangling ha hon hgone => exact invCap_dropDangling hc ha hon hgone
  | forgetIdentity ha _ _ _ _ => exact invCap_appSame hc ha rfl rfl rfl
  | tree => exact hc
  | clearEv => exact core_mapSame hc _ (fun _ => rfl) (fun _ => rfl) (fun _ => rfl)

theorem invCap_prim {c c' : Cell} (hc : InvCap c) (hp : Prim c c') : InvCap c' := by
  obtain ⟨lab, hp⟩ := hp
  exact invCap_lprim hc hp

theorem invCap_reach {c c' : Cell} (hc : InvCap c) (h : Reach c c') : InvCap c' :=
  h.induct (fun _ _ hc hp => invCap_prim hc hp) hc

theorem invCap_lreach {P} {c c' : Cell} (hc : InvCap c) (h : LReach P c c') : InvCap c' :=
  invCap_reach hc h.toReach

end TmVerif.Sched
