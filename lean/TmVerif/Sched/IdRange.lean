/-
  C05: after a cycle every held identity is below its group's count.
-/
import TmVerif.Sched.Assign
import TmVerif.Sched.InvIdOps

namespace TmVerif.Sched

/-- The identity held by `y` (if any) is below the count of its group. -/
def IdInRange (c : Cell) (y : Nat) : Prop :=
  ∀ a k g grp, c.app? y = some a → a.identity = some k → a.group = some g → c.grp? g = some grp → k < grp.count

/-- How any primitive changes the `identity` field of any app: kept, dropped, or freshly acquired
    from the group's offered identities. -/
theorem lprim_identity {c c' : Cell} {lab : Lab} (hp : LPrim lab c c') (y : Nat) :
    ∀ a', c'.app? y = some a' → ∃ a, c.app? y = some a ∧
      (a'.identity = a.identity ∨ a'.identity = none ∨
        ∃ k g grp b, lab = .acquire y b ∧ a'.identity = some k ∧ a.group = some g ∧ c.grp? g = some grp ∧ k ∈ grp.avail) := by
  intro a' ha'
  by_cases ht : lab.target ≠ some y
  · obtain ⟨a, ha, _, e, _⟩ := lprim_untargeted hp ht a' ha'
    exact ⟨a, ha, Or.inl e⟩
  · have ht : lab.target = some y := Decidable.of_not_not ht
    obtain ⟨a, ha, _⟩ := app?_stat_of (sameStatic_lprim hp) ha'
    refine ⟨a, ha, ?_⟩
    cases hp with
    | @put _ _ aid sid l0 b h =>
      rcases serverPut_shape h with ⟨_, e⟩ | ⟨_, a1, s1, anc, ha1, _, _, _, _, _, happs, _⟩
      · subst e; rw [ha] at ha'; cases ha'; exact Or.inl rfl
      · rw [app?_of_apps happs, ha] at ha'
        simp only [Option.map_some, Option.some.injEq] at ha'
        rw [← ha']
        split
        · rename_i e
          have : y = aid := by rw [← app?_id ha, e]; exact (app?_id ha1 : a1.id = aid)
          subst this; rw [ha] at ha1; cases ha1; exact Or.inl rfl
        · exact Or.inl rfl
    | @remove _ _ sid aid h =>
      obtain ⟨a1, s1, ha1, _, _, happs, _⟩ := serverRemove_shape h
      rw [app?_of_apps happs, ha] at ha'
      simp only [Option.map_some, Option.some.injEq] at ha'
      rw [← ha']
      split
      · rename_i e
        have : y = aid := by rw [← app?_id ha, e]; exact (app?_id ha1 : a1.id = aid)
        subst this; rw [ha] at ha1; cases ha1; exact Or.inl rfl
      · exact Or.inl rfl
    | @release _ _ aid h =>
      simp only [releaseIdentity, bind_ok, orAbort_ok] at h
      obtain ⟨a1, ha1, h⟩ := h
      split at h
      · simp only [bind_ok, orAbort_ok, pure_ok] at h
        obtain ⟨grp, _, rfl⟩ := h
        rcases setApp_cases' (c := c) rfl ha ha' with e | e
        · rw [e]; exact Or.inr (Or.inl rfl)
        · rw [e]; exact Or.inl rfl
      · simp only [pure_ok] at h; subst h; rw [ha] at ha'; cases ha'; exact Or.inl rfl
    | @acquire _ _ aid ch b ch' h =>
      have hx : aid = y := by simpa [Lab.target] using ht
      subst hx
      simp only [acquireIdentity, bind_ok, orAbort_ok] at h
      obtain ⟨a1, ha1, h⟩ := h
      rw [ha] at ha1; cases ha1
      split at h
      · simp only [pure_ok, Prod.mk.injEq] at h
        obtain ⟨rfl, _⟩ := h; rw [ha] at ha'; cases ha'; exact Or.inl rfl
      · rename_i g hg
        split at h
        · simp only [pure_ok, Prod.mk.injEq] at h
          obtain ⟨rfl, _⟩ := h; rw [ha] at ha'; cases ha'; exact Or.inl rfl
        · simp only [bind_ok, orAbort_ok] at h
          obtain ⟨grp, hgrp, h⟩ := h
          split at h
          · simp only [pure_ok, Prod.mk.injEq] at h
            obtain ⟨rfl, _⟩ := h; rw [ha] at ha'; cases ha'; exact Or.inl rfl
          · split at h
            · simp only [throw_ne_ok] at h
            · rename_i k rest
              split at h
              · simp only [throw_bind, throw_ne_ok] at h
              · rename_i hin
                simp only [pure_ok, Prod.mk.injEq] at h
                obtain ⟨rfl, _⟩ := h
                rcases setApp_cases' (c := c) rfl ha ha' with e | e
                · rw [e]; exact Or.inr (Or.inr ⟨k, g, grp, _, rfl, rfl, hg, hgrp, by simpa using hin⟩)
                · rw [e]; exact Or.inl rfl
    | @appMeta _ a1 a1' ha1 hid _ hidn =>
      rcases setApp_cases ha ha' with e | e
      · have hy : y = a1.id := by
          have h1 := app?_id ha'; rw [e, hid] at h1; exact h1.symm
        subst hy; rw [ha] at ha1; cases ha1; rw [e]; exact Or.inl hidn
      · rw [e]; exact Or.inl rfl
    | @setRenew _ a1 b ha1 =>
      rcases setApp_cases ha ha' with e | e
      · have hy : y = a1.id := by
          have h1 := app?_id ha'; rw [e] at h1; exact h1.symm
        subst hy; rw [ha] at ha1; cases ha1; rw [e]; exact Or.inl rfl
      · rw [e]; exact Or.inl rfl
    | @ghost _ a1 v ha1 =>
      rcases setApp_cases ha ha' with e | e
      · have hy : y = a1.id := by
          have h1 := app?_id ha'; rw [e] at h1; exact h1.symm
        subst hy; rw [ha] at ha1; cases ha1; rw [e]; exact Or.inl rfl
      · rw [e]; exact Or.inl rfl
    | @dropDangling _ a1 sid ha1 =>
      rcases setApp_cases ha ha' with e | e
      · have hy : y = a1.id := by
          have h1 := app?_id ha'; rw [e] at h1; exact h1.symm
        subst hy; rw [ha] at ha1; cases ha1; rw [e]; exact Or.inl rfl
      · rw [e]; exact Or.inl rfl
    | @forgetIdentity _ a1 k g grp ha1 =>
      rcases setApp_cases ha ha' with e | e
      · rw [e]; exact Or.inr (Or.inl rfl)
      · rw [e]; exact Or.inl rfl
    | tree => simp [Lab.target] at ht
    | clearEv => simp [Lab.target] at ht

/-- `IdInRange` survives every primitive, given that offered identities are in range (InvId). -/
theorem idInRange_lprim {c c' : Cell} {lab : Lab} {y : Nat} (hi : InvId c) (hq : IdInRange c y)
    (hp : LPrim lab c c') : IdInRange c' y := by
  intro a' k g grp' ha' hk hg hgrp'
  have hs := sameStatic_lprim hp
  obtain ⟨a, ha, hcase⟩ := lprim_identity hp y a' ha'
  obtain ⟨a2, ha2, hst⟩ := app?_stat_of hs ha'
  rw [ha] at ha2; cases ha2
  have e_g : a'.group = a.group := congrArg AppStat.group hst
  -- the group's count is static
  have hcnt := hs.grp g
  rw [hgrp'] at hcnt
  cases hg0 : c.grp? g with
  | none => rw [hg0] at hcnt; cases hcnt
  | some grp =>
    rw [hg0] at hcnt
    have ecnt : grp'.count = grp.count := Option.some.inj hcnt
    rw [ecnt]
    rcases hcase with e | e | ⟨k2, g2, grp2, _, _, e1, e2, e3, e4⟩
    · exact hq a k g grp ha (by rw [← e]; exact hk) (by rw [← e_g]; exact hg) hg0
    · rw [e] at hk; cases hk
    · rw [e1] at hk
      have : k2 = k := Option.some.inj hk
      subst this
      rw [e_g, e2] at hg
      have : g2 = g := Option.some.inj hg
      subst this
      rw [hg0] at e3; cases e3
      exact hi.availRange grp (grp?_mem hg0) k2 e4

theorem fixInvalidIdentity_est {c c' : Cell} {y : Nat} (h : fixInvalidIdentity c y = .ok c') : IdInRange c' y := by
  simp only [fixInvalidIdentity, bind_ok, orAbort_ok] at h
  obtain ⟨a, ha, h⟩ := h
  split at h
  · rename_i k g hk hg
    simp only [bind_ok, orAbort_ok] at h
    obtain ⟨grp, hgrp, h⟩ := h
    split at h
    · -- identity forgotten (and the placement dropped)
      have hnone : ∀ a', (c.setApp { a with identity := none }).app? y = some a' → a'.identity = none := by
        intro a' ha'
        rw [app?_setApp, ha] at ha'
        simp at ha'
        rw [← ha']
      split at h
      · intro a' k' g' grp' ha' hk' _ _
        obtain ⟨b, hb, hcase⟩ := lprim_identity (.remove h) y a' ha'
        have hbn := hnone b hb
        rcases hcase with e | e | ⟨k2, g2, grp2, _, hl, _⟩
        · rw [e, hbn] at hk'; cases hk'
        · rw [e] at hk'; cases hk'
        · cases hl
      · simp only [pure_ok] at h; subst h
        intro a' k' g' grp' ha' hk' _ _
        rw [hnone a' ha'] at hk'; cases hk'
    · rename_i hlt
      simp only [pure_ok] at h; subst h
      intro a' k' g' grp' ha' hk' hg' hgrp'
      rw [ha] at ha'; cases ha'
      rw [hk] at hk'; rw [hg] at hg'
      have : k = k' := Option.some.inj hk'
      subst this
      have : g = g' := Option.some.inj hg'
      subst this
      rw [hgrp] at hgrp'; cases hgrp'
      omega
  · rename_i hno
    simp only [pure_ok] at h; subst h
    intro a' k' g' grp' ha' hk' hg' _
    rw [ha] at ha'; cases ha'
    exact absurd hg' (hno k' g' hk')

/-- After a cycle every held identity is below its group's count. -/
theorem idInRange_schedule {c c' : Cell} {qs ch} (hc : InvCap c) (hi : InvId c) (h : schedule c qs ch = .ok c') :
    ∀ y, IdInRange c' y := by
  obtain ⟨c1, hpre, hcy⟩ := schedule_parts h
  have hall := hpre
  simp only [prePasses, bind_ok] at hpre
  obtain ⟨ca, h1, cb, h2, cc, h3, h4⟩ := hpre
  have r1 : LReach PreOk c ca := foldlM_lreach _ _ (fun _ _ _ _ hx => fixInvalidPlacement_lreach hx) _ _ h1
  have hca := invCap_lreach hc r1
  have r2 : LReach PreOk ca cb := handleInactive_fold_lreach _ ca cb hca h2
  have r3 : LReach PreOk cb cc := foldlM_lreach _ _ (fun _ _ _ _ hx => handleBlacklisted_lreach hx) _ _ h3
  have hicc : InvId cc := invId_reach hi ((r1.trans r2).trans r3).toReach
  -- fold 4 establishes the fact for every app; InvId is carried along to use `availRange`
  have key : ∀ (l : List Nat) (a b : Cell), InvId a → l.foldlM fixInvalidIdentity a = .ok b →
      ∀ x ∈ l, IdInRange b x := by
    intro l
    induction l with
    | nil => intro a b _ _ x hx; cases hx
    | cons y ys ih =>
      intro a b hia hfold x hx
      simp only [List.foldlM, bind_ok] at hfold
      obtain ⟨a1, hy, hrest⟩ := hfold
      have ry := fixInvalidIdentity_lreach hy
      have hia1 : InvId a1 := invId_reach hia ry.toReach
      rcases List.mem_cons.mp hx with rfl | hx
      · have rrest : LReach PreOk a1 b := foldlM_lreach _ _ (fun _ _ _ _ hz => fixInvalidIdentity_lreach hz) _ _ hrest
        have : InvId b ∧ IdInRange b x := by
          refine rrest.induct (I := fun ci => InvId ci ∧ IdInRange ci x) ?_ ⟨hia1, fixInvalidIdentity_est hy⟩
          intro ci ci' lab ⟨hii, hqq⟩ _ lp
          exact ⟨invId_lprim hii lp, idInRange_lprim hii hqq lp⟩
        exact this.2
      · exact ih a1 b hia1 hrest x hx
  have est := key _ cc c1 hicc h4
  have hi1 : InvId c1 := invId_reach hi (prePasses_reach hall)
  intro y
  by_cases hy : y ∈ c.apps.map (·.id)
  · have : InvId c' ∧ IdInRange c' y := by
      refine hcy.toReach.induct (P := fun ci => InvId ci ∧ IdInRange ci y) ?_ ⟨hi1, est y hy⟩
      intro ci ci' ⟨hii, hqq⟩ hp
      obtain ⟨lab, lp⟩ := hp
      exact ⟨invId_lprim hii lp, idInRange_lprim hii hqq lp⟩
    exact this.2
  · intro a k g grp ha _ _ _
    exfalso
    have ids : c'.apps.map (·.id) = c.apps.map (·.id) := reach_ids (schedule_reach h)
    apply hy
    rw [← ids]
    have := List.mem_map_of_mem (f := (·.id)) (app?_mem ha)
    rw [app?_id ha] at this; exact this

end TmVerif.Sched
