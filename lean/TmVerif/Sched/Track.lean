/-
  Tracking one app through primitive transitions: how its `server` field can change.
-/
import TmVerif.Sched.Const

namespace TmVerif.Sched

/-- Induction along a labelled chain with the start cell's static data available. -/
theorem lreach_inv {P : Cell → Lab → Prop} {I : Cell → Prop} {c0 c' : Cell}
    (hstep : ∀ c c' lab, SameStatic c0 c → I c → P c lab → LPrim lab c c' → I c')
    (h : LReach P c0 c') (h0 : I c0) : I c' := by
  have : SameStatic c0 c' ∧ I c' := by
    induction h with
    | refl => exact ⟨.refl _, h0⟩
    | step _ p hp ih => exact ⟨ih.1.trans (sameStatic_lprim p), hstep _ _ _ ih.1 ih.2 hp p⟩
  exact this.2

theorem app?_stat_of {c c' : Cell} (h : SameStatic c c') {x : Nat} {a' : App} (ha' : c'.app? x = some a') :
    ∃ a, c.app? x = some a ∧ a'.stat = a.stat := by
  have := h.app x
  rw [ha'] at this
  cases hx : c.app? x with
  | none => rw [hx] at this; cases this
  | some a => rw [hx] at this; exact ⟨a, rfl, Option.some.inj this⟩

theorem app?_stat_to {c c' : Cell} (h : SameStatic c c') {x : Nat} {a : App} (ha : c.app? x = some a) :
    ∃ a', c'.app? x = some a' ∧ a'.stat = a.stat := by
  have := h.app x
  rw [ha] at this
  cases hx : c'.app? x with
  | none => rw [hx] at this; cases this
  | some a' => rw [hx] at this; exact ⟨a', rfl, Option.some.inj this⟩

theorem srv?_stat_to {c c' : Cell} (h : SameStatic c c') {k : Nat} {s : Srv} (hs : c.srv? k = some s) :
    ∃ s', c'.srv? k = some s' ∧ s'.stat = s.stat := by
  have := h.srv k
  rw [hs] at this
  cases hx : c'.srv? k with
  | none => rw [hx] at this; cases this
  | some s' => rw [hx] at this; exact ⟨s', rfl, Option.some.inj this⟩

theorem srv?_stat_of {c c' : Cell} (h : SameStatic c c') {k : Nat} {s' : Srv} (hs : c'.srv? k = some s') :
    ∃ s, c.srv? k = some s ∧ s'.stat = s.stat := by
  have := h.srv k
  rw [hs] at this
  cases hx : c.srv? k with
  | none => rw [hx] at this; cases this
  | some s => rw [hx] at this; exact ⟨s, rfl, Option.some.inj this⟩

/-- How one primitive changes the `server`, `identity`, `unschedule`, `renew` fields of app `x`:
    unchanged unless the label targets `x`. -/
theorem lprim_untargeted {c c' : Cell} {lab : Lab} (hp : LPrim lab c c') {x : Nat} (hx : lab.target ≠ some x) :
    ∀ a', c'.app? x = some a' → ∃ a, c.app? x = some a ∧ a'.server = a.server ∧ a'.identity = a.identity ∧
      a'.unschedule = a.unschedule ∧ a'.renew = a.renew ∧ a'.expiry = a.expiry ∧ a'.evicted = a.evicted := by
  have keep : c'.app? x = c.app? x → ∀ a', c'.app? x = some a' → ∃ a, c.app? x = some a ∧ a'.server = a.server ∧
      a'.identity = a.identity ∧ a'.unschedule = a.unschedule ∧ a'.renew = a.renew ∧ a'.expiry = a.expiry ∧
      a'.evicted = a.evicted := by
    intro e a' ha'; exact ⟨a', by rw [← e]; exact ha', rfl, rfl, rfl, rfl, rfl, rfl⟩
  cases hp with
  | put h =>
    rename_i aid sid l0 b
    exact keep (serverPut_app_ne h (by intro e; exact hx (by simp [Lab.target, e])))
  | remove h =>
    rename_i sid aid
    exact keep (serverRemove_app_ne h (by intro e; exact hx (by simp [Lab.target, e])))
  | release h =>
    rename_i aid
    have hne : x ≠ aid := by intro e; exact hx (by simp [Lab.target, e])
    simp only [releaseIdentity, bind_ok, orAbort_ok] at h
    obtain ⟨a, ha, h⟩ := h
    split at h
    · simp only [bind_ok, orAbort_ok, pure_ok] at h
      obtain ⟨grp, _, rfl⟩ := h
      refine keep ?_
      rw [app?_setApp_ne (by show x ≠ a.id; rw [app?_id ha]; exact hne)]; rfl
    · simp only [pure_ok] at h; subst h; exact keep rfl
  | acquire h =>
    rename_i aid ch b ch'
    have hne : x ≠ aid := by intro e; exact hx (by simp [Lab.target, e])
    simp only [acquireIdentity, bind_ok, orAbort_ok] at h
    obtain ⟨a, ha, h⟩ := h
    split at h
    · simp only [pure_ok, Prod.mk.injEq] at h
      obtain ⟨rfl, _⟩ := h; exact keep rfl
    · split at h
      · simp only [pure_ok, Prod.mk.injEq] at h
        obtain ⟨rfl, _⟩ := h; exact keep rfl
      · simp only [bind_ok, orAbort_ok] at h
        obtain ⟨grp, _, h⟩ := h
        split at h
        · simp only [pure_ok, Prod.mk.injEq] at h
          obtain ⟨rfl, _⟩ := h; exact keep rfl
        · split at h
          · simp only [throw_ne_ok] at h
          · split at h
            · simp only [throw_bind, throw_ne_ok] at h
            · simp only [pure_ok, Prod.mk.injEq] at h
              obtain ⟨rfl, _⟩ := h
              refine keep ?_
              rw [app?_setApp_ne (by show x ≠ a.id; rw [app?_id ha]; exact hne)]; rfl
  | appMeta ha hid _ _ _ _ _ _ _ _ _ _ _ _ _ _ _ _ =>
    refine keep (app?_setApp_ne ?_)
    intro e; exact hx (by simp [Lab.target, e, hid])
  | setRenew ha =>
    refine keep (app?_setApp_ne ?_)
    intro e; exact hx (by simp [Lab.target, e])
  | ghost ha =>
    refine keep (app?_setApp_ne ?_)
    intro e; exact hx (by simp [Lab.target, e])
  | dropDangling ha _ _ =>
    refine keep (app?_setApp_ne ?_)
    intro e; exact hx (by simp [Lab.target, e])
  | forgetIdentity ha _ _ _ _ =>
    refine keep (app?_setApp_ne ?_)
    intro e; exact hx (by simp [Lab.target, e])
  | tree => exact keep rfl
  | clearEv =>
    intro a' ha'
    have : ({ c with apps := c.apps.map (fun a => { a with evFrom := none }) } : Cell).app? x =
        (c.app? x).map (fun a => { a with evFrom := none }) := by
      unfold Cell.app?; exact find?_map_id c.apps (fun a : App => { a with evFrom := none }) (fun _ => rfl) x
    rw [this] at ha'
    cases hx' : c.app? x with
    | none => rw [hx'] at ha'; cases ha'
    | some a =>
      rw [hx'] at ha'
      simp only [Option.map_some, Option.some.injEq] at ha'
      subst ha'
      exact ⟨a, rfl, rfl, rfl, rfl, rfl, rfl, rfl⟩

end TmVerif.Sched

namespace TmVerif.Sched

theorem acquire_server_any {c c' : Cell} {aid : Nat} {ch ch' : List Nat} {b : Bool}
    (h : acquireIdentity c aid ch = .ok (c', b, ch')) :
    ∀ a', c'.app? aid = some a' → ∃ a, c.app? aid = some a ∧ a'.server = a.server :=
  acquire_server h

/-- How any primitive changes the `server` field of any app: kept, cleared, or set by a successful
    `put` of that app (which was unplaced). -/
theorem lprim_server {c c' : Cell} {lab : Lab} (hp : LPrim lab c c') (y : Nat) :
    ∀ a', c'.app? y = some a' → ∃ a, c.app? y = some a ∧
      (a'.server = a.server ∨ a'.server = none ∨
        ∃ sid l0, lab = .put y sid l0 true ∧ a.server = none ∧ a'.server = some sid) := by
  by_cases ht : lab.target ≠ some y
  · intro a' ha'
    obtain ⟨a, ha, e, _⟩ := lprim_untargeted hp ht a' ha'
    exact ⟨a, ha, Or.inl e⟩
  · have ht : lab.target = some y := Decidable.of_not_not ht
    intro a' ha'
    obtain ⟨a, ha, _⟩ := app?_stat_of (sameStatic_lprim hp) ha'
    refine ⟨a, ha, ?_⟩
    cases hp with
    | @put _ _ aid sid l0 b h =>
      have hx : aid = y := by simpa [Lab.target] using ht
      subst hx
      rcases serverPut_shape h with ⟨_, e⟩ | ⟨hb, a1, s1, anc, ha1, _, hnone, _, _, _, happs, _⟩
      · subst e; rw [ha] at ha'; cases ha'; exact Or.inl rfl
      · rw [ha] at ha1; cases ha1
        have hid : (putRec c a sid l0).id = aid := (app?_id ha : a.id = aid)
        have := app?_upd_self happs (a := a) (by rw [hid]; exact ha)
        rw [hid, ha'] at this; cases this
        exact Or.inr (Or.inr ⟨sid, l0, by rw [hb], hnone, rfl⟩)
    | @remove _ _ sid aid h =>
      have hx : aid = y := by simpa [Lab.target] using ht
      subst hx
      obtain ⟨a1, ha1, ha1'⟩ := serverRemove_app_self h
      rw [ha'] at ha1'; cases ha1'
      exact Or.inr (Or.inl rfl)
    | @release _ _ aid h =>
      have hx : aid = y := by simpa [Lab.target] using ht
      subst hx
      simp only [releaseIdentity, bind_ok, orAbort_ok] at h
      obtain ⟨a1, ha1, h⟩ := h
      rw [ha] at ha1; cases ha1
      split at h
      · simp only [bind_ok, orAbort_ok, pure_ok] at h
        obtain ⟨grp, _, rfl⟩ := h
        rcases setApp_cases' (c := c) rfl ha ha' with e | e <;> (rw [e]; exact Or.inl rfl)
      · simp only [pure_ok] at h; subst h; rw [ha] at ha'; cases ha'; exact Or.inl rfl
    | @acquire _ _ aid ch b ch' h =>
      have hx : aid = y := by simpa [Lab.target] using ht
      subst hx
      obtain ⟨a0, ha0, e⟩ := acquire_server_any h a' ha'
      rw [ha] at ha0; cases ha0; exact Or.inl e
    | @appMeta _ a1 a1' ha1 hid hsv =>
      have hx : a1.id = y := by simpa [Lab.target] using ht
      rw [hx, ha] at ha1; cases ha1
      rcases setApp_cases ha ha' with e | e
      · rw [e]; exact Or.inl hsv
      · rw [e]; exact Or.inl rfl
    | @setRenew _ a1 b ha1 =>
      have hx : a1.id = y := by simpa [Lab.target] using ht
      rw [hx, ha] at ha1; cases ha1
      rcases setApp_cases ha ha' with e | e <;> (rw [e]; exact Or.inl rfl)
    | @ghost _ a1 v ha1 =>
      have hx : a1.id = y := by simpa [Lab.target] using ht
      rw [hx, ha] at ha1; cases ha1
      rcases setApp_cases ha ha' with e | e <;> (rw [e]; exact Or.inl rfl)
    | @dropDangling _ a1 sid ha1 =>
      have hx : a1.id = y := by simpa [Lab.target] using ht
      rw [hx, ha] at ha1; cases ha1
      rcases setApp_cases ha ha' with e | e
      · rw [e]; exact Or.inr (Or.inl rfl)
      · rw [e]; exact Or.inl rfl
    | @forgetIdentity _ a1 k g grp ha1 =>
      have hx : a1.id = y := by simpa [Lab.target] using ht
      rw [hx, ha] at ha1; cases ha1
      rcases setApp_cases ha ha' with e | e <;> (rw [e]; exact Or.inl rfl)
    | tree => simp [Lab.target] at ht
    | clearEv => simp [Lab.target] at ht

end TmVerif.Sched
