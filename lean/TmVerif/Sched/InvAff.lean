/-
  C04 — the per-node affinity counters equal the true counts of placed instances, for every bucket
  and every server, and never exceed the limit the instances declare for that level.
  This file: the invariants and their preservation by the primitive transitions.
-/
import TmVerif.Sched.ViewsOps
import TmVerif.Sched.ViewsSkel
import TmVerif.Sched.AffBasic
import TmVerif.Sched.InvCapPrim

namespace TmVerif.Sched

/-! ### what `Server.put` / `Server.remove` do to the tree -/

theorem serverPut_tree {c c' : Cell} {aid sid : Nat} {l0 : Bool}
    (h : serverPut c aid sid l0 = .ok (c', true)) :
    ∃ a t1, c.app? aid = some a ∧ treeAff c.tree sid false [(a.aff, 1)] 1 = some t1 ∧
      ∃ m, treeCap c'.srvs t1 sid false m = some c'.tree := by
  simp only [serverPut, bind_ok, orAbort_ok] at h
  obtain ⟨a, ha, s, hs, h⟩ := h
  split at h
  · simp only [throw_bind, throw_ne_ok] at h
  · split at h
    · simp only [throw_bind, throw_ne_ok] at h
    · simp only [bind_ok, orAbort_ok] at h
      obtain ⟨anc, hanc, h⟩ := h
      split at h
      · simp only [pure_ok, Prod.mk.injEq] at h
        exact absurd h.2 (by simp)
      · simp only [bind_ok, pure_ok, orAbort_ok, Prod.mk.injEq] at h
        obtain ⟨t1, h1, t2, h2, rfl, _⟩ := h
        exact ⟨a, t1, ha, h1, _, h2⟩

theorem serverRemove_tree {c c' : Cell} {sid aid : Nat} (h : serverRemove c sid aid = .ok c') :
    ∃ a t1, c.app? aid = some a ∧ treeAff c.tree sid false [(a.aff, 1)] (-1) = some t1 ∧
      ∃ m, treeCap c'.srvs t1 sid false m = some c'.tree := by
  simp only [serverRemove, bind_ok, orAbort_ok] at h
  obtain ⟨s, hs, h⟩ := h
  split at h
  · simp only [throw_bind, throw_ne_ok] at h
  · simp only [bind_ok, pure_ok, orAbort_ok] at h
    obtain ⟨a, ha, t1, h1, t2, h2, rfl⟩ := h
    exact ⟨a, t1, ha, h1, _, h2⟩

/-! ### steps of the four upward propagations keep id, level and (except `affStep`) the counters -/

theorem capStep_keep (srvs : List Srv) (b : Bkt) (cs : List (Option Tree)) (m : CapMsg) :
    (capStep srvs b cs m).1.id = b.id ∧ (capStep srvs b cs m).1.level = b.level ∧
    (capStep srvs b cs m).1.aff = b.aff := by
  cases m with
  | stop => exact ⟨rfl, rfl, rfl⟩
  | up v => exact ⟨rfl, rfl, rfl⟩
  | down prev =>
    refine ⟨?_, ?_, ?_⟩ <;> simp only [capStep] <;> (repeat' split) <;> rfl

theorem traitStep_keep (b : Bkt) (cs : List (Option Tree)) (m : TraitMsg) :
    (traitStep b cs m).1.id = b.id ∧ (traitStep b cs m).1.level = b.level ∧ (traitStep b cs m).1.aff = b.aff := by
  cases m <;> exact ⟨rfl, rfl, rfl⟩

theorem labelStep_keep (b : Bkt) (cs : List (Option Tree)) (m : List Nat) :
    (labelStep b cs m).1.id = b.id ∧ (labelStep b cs m).1.level = b.level ∧ (labelStep b cs m).1.aff = b.aff :=
  ⟨rfl, rfl, rfl⟩

/-- Same id, level and counters. -/
def SameAff (b b' : Bkt) : Prop := b'.id = b.id ∧ b'.level = b.level ∧ b'.aff = b.aff

theorem SameAff.rfl' (b : Bkt) : SameAff b b := ⟨rfl, rfl, rfl⟩

theorem treeCap_views {srvs : List Srv} {t t' : Tree} {target : Nat} {incl : Bool} {m : CapMsg}
    (h : treeCap srvs t target incl m = some t') :
    t'.names = t.names ∧ t'.leaves = t.leaves ∧ ViewsRel SameAff t.views t'.views := by
  unfold treeCap at h
  cases hb : t.bubble (capStep srvs) incl target m with
  | none => rw [hb] at h; cases h
  | some r =>
    rw [hb] at h
    simp only [Option.map_some, Option.some.injEq] at h
    subst h
    exact ⟨bubble_names _ _ (fun b cs m => (capStep_keep srvs b cs m).1) _ _ _ r.1 r.2 hb,
      bubble_leaves _ _ _ _ _ r.1 r.2 hb,
      bubble_viewsRel _ _ SameAff SameAff.rfl' (fun b cs m => capStep_keep srvs b cs m)
        (fun b cs m => (capStep_keep srvs b cs m).1) _ _ _ r.1 r.2 hb⟩

theorem treeTraits_views {t t' : Tree} {target : Nat} {incl : Bool} {m : TraitMsg}
    (h : treeTraits t target incl m = some t') :
    t'.names = t.names ∧ t'.leaves = t.leaves ∧ ViewsRel SameAff t.views t'.views := by
  unfold treeTraits at h
  cases hb : t.bubble traitStep incl target m with
  | none => rw [hb] at h; cases h
  | some r =>
    rw [hb] at h
    simp only [Option.map_some, Option.some.injEq] at h
    subst h
    exact ⟨bubble_names _ _ (fun b cs m => (traitStep_keep b cs m).1) _ _ _ r.1 r.2 hb,
      bubble_leaves _ _ _ _ _ r.1 r.2 hb,
      bubble_viewsRel _ _ SameAff SameAff.rfl' (fun b cs m => traitStep_keep b cs m)
        (fun b cs m => (traitStep_keep b cs m).1) _ _ _ r.1 r.2 hb⟩

theorem treeLabels_views {t t' : Tree} {target : Nat} {incl : Bool} {m : List Nat}
    (h : treeLabels t target incl m = some t') :
    t'.names = t.names ∧ t'.leaves = t.leaves ∧ ViewsRel SameAff t.views t'.views := by
  unfold treeLabels at h
  cases hb : t.bubble labelStep incl target m with
  | none => rw [hb] at h; cases h
  | some r =>
    rw [hb] at h
    simp only [Option.map_some, Option.some.injEq] at h
    subst h
    exact ⟨bubble_names _ _ (fun b cs m => (labelStep_keep b cs m).1) _ _ _ r.1 r.2 hb,
      bubble_leaves _ _ _ _ _ r.1 r.2 hb,
      bubble_viewsRel _ _ SameAff SameAff.rfl' (fun b cs m => labelStep_keep b cs m)
        (fun b cs m => (labelStep_keep b cs m).1) _ _ _ r.1 r.2 hb⟩

/-- The counter update of `affStep`. -/
def affUpd (delta : Counter) (sign : Int) (b : Bkt) : Bkt := { b with aff := caddAll b.aff delta sign }

theorem treeAff_views {t t' : Tree} {target : Nat} {incl : Bool} {delta : Counter} {sign : Int}
    (hnd : t.names.Nodup) (h : treeAff t target incl delta sign = some t') :
    t'.names = t.names ∧ t'.leaves = t.leaves ∧ target ∈ t.names ∧
    t'.views = t.views.map (NView.upd (affUpd delta sign) incl target) := by
  unfold treeAff at h
  cases hb : t.bubble (affStep delta sign) incl target () with
  | none => rw [hb] at h; cases h
  | some r =>
    rw [hb] at h
    simp only [Option.map_some, Option.some.injEq] at h
    subst h
    refine ⟨bubble_names _ _ (fun b cs m => rfl) _ _ _ r.1 r.2 hb, bubble_leaves _ _ _ _ _ r.1 r.2 hb,
      bubble_mem _ _ hb, ?_⟩
    exact bubble_views_upd (affUpd delta sign) incl (fun b => rfl) t target r.1 r.2 hnd hb

/-! ### the invariants -/

/-- The tree and the server table agree and names are unique. -/
structure TreeOk (c : Cell) : Prop where
  names  : c.tree.names.Nodup
  leaves : ∀ sid, sid ∈ c.tree.leaves ↔ ∃ s ∈ c.srvs, s.id = sid

/-- **The counters are the true counts.** -/
structure InvAff (c : Cell) : Prop where
  bkt  : ∀ v ∈ c.tree.views, ∀ k, cget v.b.aff k = (cnt c.apps v.leaves k : Int)
  srv  : ∀ s ∈ c.srvs, ∀ k, cget s.aff k = (cnt c.apps [s.id] k : Int)
  keys : ∀ s ∈ c.srvs, (s.aff.map (·.1)).Nodup

/-- Instances of one affinity share their limits. -/
def SharedLim (apps : List App) : Prop := ∀ a ∈ apps, ∀ b ∈ apps, a.aff = b.aff → a.limits = b.limits

/-- **No counter exceeds the limit declared for its level by an instance placed below it.** -/
structure InvLim (c : Cell) : Prop where
  bkt : ∀ v ∈ c.tree.views, ∀ a ∈ c.apps, onSrv a v.leaves = true → ∀ l, a.limitAt v.b.level = some l →
          cget v.b.aff a.aff ≤ (l : Int)
  srv : ∀ s ∈ c.srvs, ∀ a ∈ c.apps, a.server = some s.id → ∀ l, a.limitAt SERVER_LEVEL = some l →
          cget s.aff a.aff ≤ (l : Int)

/-- Everything C04 needs, bundled. -/
structure AffAll (c : Cell) : Prop where
  cap  : InvCap c
  tree : TreeOk c
  aff  : InvAff c
  lim  : InvLim c
  shared : SharedLim c.apps

end TmVerif.Sched
