/-
  Scheduler model — the operations the loader / master perform on a `Cell` between cycles.
-/
import TmVerif.Sched.Place

namespace TmVerif.Sched

/-- `parent.add_node(child)` effects above the attached child: traits, affinity counters, labels,
    capacity (valid_until is not modelled: it is never read for placement on buckets). -/
def addNodeEffects (c : Cell) (childId : Nat) (traits : Nat) (aff : Counter) (labels : List Nat)
    (free : Vec) : M Cell := do
  let t ← orAbort (treeTraits c.tree childId false (.set childId traits)) "add_node: tree"
  let t ← orAbort (treeAff t childId false aff 1) "add_node: tree"
  let t ← orAbort (treeLabels t childId false labels) "add_node: tree"
  let t ← orAbort (treeCap c.srvs t childId false (.up free)) "add_node: tree"
  return { c with tree := t }

def nameTaken (c : Cell) (nid : Nat) : Bool :=
  c.tree.leaves.contains nid || c.tree.buckets.any (fun b => b.id = nid)

/-- `Bucket(name, level=level)`; `parent.add_node(bucket)` (an empty bucket). -/
def addBucket (c : Cell) (bid pid level : Nat) : M Cell := do
  if nameTaken c bid then throw "assert node.name not in self.children_by_name"
  let b : Bkt := { id := bid, level := level, free := Vec.zero, selfTraits := 0, childTraits := [],
                   labels := [], aff := [], cursors := [] }
  let t ← orAbort (Tree.attach (.node b []) c.tree pid) "add_bucket: no parent"
  addNodeEffects { c with tree := t } bid 0 [] [] Vec.zero

/-- `Server(name, capacity, valid_until, traits, label)`; `parent.add_node(server)`. -/
def addServer (c : Cell) (sid pid : Nat) (cap : Vec) (label traits : Nat) (validUntil : Int) : M Cell := do
  if nameTaken c sid then throw "assert node.name not in self.children_by_name"
  -- MODEL-ONLY assertion, implied by the previous one as long as tree leaves = server table
  if (c.srv? sid).isSome then throw "model-assert: server table and tree leaves agree"
  let s : Srv := { id := sid, init := cap, free := cap, apps := [], label := label, traits := traits,
                   validUntil := validUntil, state := .up, since := c.now, aff := [] }
  let t ← orAbort (Tree.attach (.leaf sid) c.tree pid) "add_server: no parent"
  addNodeEffects { c with tree := t, srvs := c.srvs ++ [s] } sid traits [] [label] cap

/-- `parent.remove_node(server)` (the server keeps whatever apps it has: `detach`). -/
def detachServer (c : Cell) (sid : Nat) : M Cell := do
  let s ← orAbort (c.srv? sid) "remove_node: unknown server"
  let (t, pid, _) ← orAbort (c.tree.detach sid) "remove_node: not in tree"
  let srvs' := c.srvs.filter (fun x => x.id ≠ sid)
  let t ← orAbort (treeTraits t pid true (.erase sid)) "remove_node: tree"
  let t ← orAbort (treeAff t pid true s.aff (-1)) "remove_node: tree"
  let t ← orAbort (treeCap srvs' t pid true (.down (some s.free))) "remove_node: tree"
  return { c with tree := t, srvs := srvs' }

/-- `Loader.remove_server`: `server.remove_all()` then `parent.remove_node(server)`. -/
def removeServer (c : Cell) (sid : Nat) : M Cell := do
  let c ← serverRemoveAll c sid
  detachServer c sid

/-- `Server.set_state(state, since)`. -/
def setState (c : Cell) (sid : Nat) (st : SState) (since : Int) : M Cell := do
  let s ← orAbort (c.srv? sid) "set_state: unknown server"
  if s.state = st then return c
  let s' := { s with state := st, since := since }
  let c1 := c.setSrv s'
  let msg := match st with
    | .up => CapMsg.up s.free
    | _ => CapMsg.down (some s.free)
  let t ← orAbort (treeCap c1.srvs c1.tree sid false msg) "set_state: tree"
  return { c1 with tree := t }

def setValidUntil (c : Cell) (sid : Nat) (v : Int) : M Cell := do
  let s ← orAbort (c.srv? sid) "valid_until: unknown server"
  return c.setSrv { s with validUntil := v }

def ensureGroup (c : Cell) (g : Nat) : Cell :=
  if (c.grp? g).isSome then c else { c with groups := c.groups ++ [{ id := g, count := 0, avail := [] }] }

/-- `Cell.add_app(allocation, app)` for a new app object. -/
def addApp (c : Cell) (a : App) : M Cell := do
  if (c.app? a.id).isSome then throw "add_app: app exists (use updateApp)"
  let c := match a.group with
    | some g => ensureGroup c g
    | none => c
  return { c with apps := c.apps ++ [a] }

/-- `Loader.load_app` for an app already in the cell: priority / retention / blacklist are
    refreshed and `Cell.add_app` moves it to the (possibly different) allocation. -/
def updateApp (c : Cell) (aid al : Nat) (prio : Int) (ret : Option Int) (bl : Bool) : M Cell := do
  let a ← orAbort (c.app? aid) "update_app: unknown app"
  let c := match a.group with
    | some g => ensureGroup c g
    | none => c
  return c.setApp { a with alloc := al, prio := prio, retention := ret, blacklisted := bl }

/-- `Cell.remove_app(appname)`. -/
def removeApp (c : Cell) (aid : Nat) : M Cell := do
  match c.app? aid with
  | none => return c
  | some a =>
    let c1 ← match a.server with
      | some sid => if (c.srv? sid).isSome then serverRemove c sid aid else pure c
      | none => pure c
    let c2 ← releaseIdentity c1 aid
    return { c2 with apps := c2.apps.filter (fun x => x.id ≠ aid) }

def range (lo hi : Nat) : List Nat := (List.range hi).filter (fun k => lo ≤ k)

/-- `IdentityGroup.adjust(count)`. -/
def Grp.adjust (g : Grp) (count : Nat) : Grp :=
  if count ≥ g.count then
    let r := range g.count count
    -- symmetric difference
    { g with count := count,
             avail := g.avail.filter (fun k => !r.contains k) ++ r.filter (fun k => !g.avail.contains k) }
  else { g with count := count, avail := g.avail.filter (fun k => !(count ≤ k && k < g.count)) }

/-- `Cell.configure_identity_group(name, count)` (with the held-identity discard). -/
def configureGroup (c : Cell) (gid count : Nat) : Cell :=
  match c.grp? gid with
  | none => { c with groups := c.groups ++ [{ id := gid, count := count, avail := range 0 count }] }
  | some g =>
    let g1 := g.adjust count
    let held := c.apps.filterMap (fun a => if a.group = some gid then a.identity else none)
    c.setGrp { g1 with avail := g1.avail.filter (fun k => !held.contains k) }

/-- `Cell.remove_identity_group(name)`. -/
def removeGroup (c : Cell) (gid : Nat) : Cell :=
  match c.grp? gid with
  | none => c
  | some g =>
    if c.apps.any (fun a => a.group = some gid) then c.setGrp (g.adjust 0)
    else { c with groups := c.groups.filter (fun x => x.id ≠ gid) }

/-- `Application.force_set_identity`. -/
def forceIdentity (c : Cell) (aid : Nat) (k : Nat) : M Cell := do
  let a ← orAbort (c.app? aid) "force: unknown app"
  let g ← orAbort a.group "assert self.identity_group_ref"
  let grp ← orAbort (c.grp? g) "assert self.identity_group_ref"
  return (c.setGrp { grp with avail := grp.avail.filter (· ≠ k) }).setApp { a with identity := some k }

def setAlloc (c : Cell) (al : Nat) (info : AllocInfo) : Cell :=
  if c.allocs.any (fun p => p.1 = al)
  then { c with allocs := c.allocs.map (fun p => if p.1 = al then (al, info) else p) }
  else { c with allocs := c.allocs ++ [(al, info)] }

/-- Operations of a scheduler-level history. -/
inductive Op
  | addBucket (bid pid level : Nat)
  | addServer (sid pid : Nat) (cap : Vec) (label traits : Nat) (validUntil : Int)
  | removeServer (sid : Nat)
  | detachServer (sid : Nat)
  | setState (sid : Nat) (st : SState) (since : Int)
  | setValidUntil (sid : Nat) (v : Int)
  | addApp (a : App)
  | removeApp (aid : Nat)
  | setAlloc (al : Nat) (info : AllocInfo)
  | configureGroup (gid count : Nat)
  | removeGroup (gid : Nat)
  | forceIdentity (aid k : Nat)
  | serverPut (aid sid : Nat)
  | serverRestore (aid sid : Nat) (exp : Option Int)
  | serverRemoveAll (sid : Nat)
  | updateApp (aid al : Nat) (prio : Int) (ret : Option Int) (bl : Bool)
  | setPrio (aid : Nat) (p : Int)
  | setBlacklisted (aid : Nat) (b : Bool)
  | setUnschedule (aid : Nat) (b : Bool)
  | setRenew (aid : Nat) (b : Bool)
  | tick (now : Int)
  | schedule (queues : List (List (Nat × Bool))) (choices : List Nat)

def step (c : Cell) : Op → M Cell
  | .addBucket b p l => addBucket c b p l
  | .addServer s p cap l t v => addServer c s p cap l t v
  | .removeServer s => removeServer c s
  | .detachServer s => detachServer c s
  | .setState s st since => setState c s st since
  | .setValidUntil s v => setValidUntil c s v
  | .addApp a => addApp c a
  | .updateApp a al p r b => updateApp c a al p r b
  | .removeApp a => removeApp c a
  | .setAlloc al i => pure (setAlloc c al i)
  | .configureGroup g n => pure (configureGroup c g n)
  | .removeGroup g => pure (removeGroup c g)
  | .forceIdentity a k => forceIdentity c a k
  | .serverPut a s => do let r ← serverPut c a s false; pure r.1
  | .serverRestore a s e => do let r ← serverRestore c a s e; pure r.1
  | .serverRemoveAll s => serverRemoveAll c s
  | .setPrio a p => do
      let x ← orAbort (c.app? a) "prio: unknown app"
      pure (c.setApp { x with prio := p })
  | .setBlacklisted a b => do
      let x ← orAbort (c.app? a) "flags: unknown app"
      pure (c.setApp { x with blacklisted := b })
  | .setUnschedule a b => do
      let x ← orAbort (c.app? a) "flags: unknown app"
      pure (c.setApp { x with unschedule := b })
  | .setRenew a b => do
      let x ← orAbort (c.app? a) "flags: unknown app"
      pure (c.setApp { x with renew := b })
  | .tick now => pure { c with now := now }
  | .schedule qs ch => schedule c qs ch

/-- Executable version of the operation guards `OpOk` (see InvCapOps.lean). -/
def OpOkB (c : Cell) : Op → Bool
  | .addServer sid _ cap _ _ _ =>
    decide (0 ≤ cap.m) && decide (0 ≤ cap.c) && decide (0 ≤ cap.d) && c.apps.all (fun a => a.server != some sid)
  | .addApp a =>
    decide (0 ≤ a.demand.m) && decide (0 ≤ a.demand.c) && decide (0 ≤ a.demand.d) && a.server.isNone
  | _ => true

/-- Executable guard for C04: instances of one affinity share their limits (`LimOk`, InvAffOps.lean). -/
def LimOkB (c : Cell) : Op → Bool
  | .addApp a => c.apps.all (fun x => x.aff != a.aff || decide (x.limits = a.limits))
  | _ => true

def runOps (c : Cell) : List Op → M Cell
  | [] => pure c
  | op :: ops => do let c' ← step c op; runOps c' ops

end TmVerif.Sched
