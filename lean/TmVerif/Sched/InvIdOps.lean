/-
  InvId under the operations of a scheduler-level history; every app's group exists.
-/
import TmVerif.Sched.InvId

namespace TmVerif.Sched

/-- Every app's identity group has an entry in the cell (`identity_group_ref` is never dangling). -/
def HasGroup (c : Cell) : Prop := ∀ a ∈ c.apps, ∀ g, a.group = some g → ∃ grp ∈ c.groups, grp.id = g

theorem hasGroup_of {c c' : Cell} (ha : ∀ x ∈ c'.apps, ∃ y ∈ c.apps, y.group = x.group)
    (hg : c'.groups.map (·.id) = c.groups.map (·.id)) (h : HasGroup c) : HasGroup c' := by
  intro x hx g hgx
  obtain ⟨y, hy, e⟩ := ha x hx
  obtain ⟨grp, hgrp, hid⟩ := h y hy g (by rw [e]; exact hgx)
  have : g ∈ c'.groups.map (·.id) := by rw [hg]; exact List.mem_map.mpr ⟨grp, hgrp, hid⟩
  obtain ⟨grp', hgrp', hid'⟩ := List.mem_map.mp this
  exact ⟨grp', hgrp', hid'⟩

theorem updApp_group_back {apps : List App} {a a' : App} (ha : a ∈ apps) (hg : a'.group = a.group) :
    ∀ x ∈ updApp apps a', ∃ y ∈ apps, y.group = x.group := by
  intro x hx
  rcases mem_updApp.mp hx with ⟨hx, _⟩ | ⟨rfl, _⟩
  · exact ⟨x, hx, rfl⟩
  · exact ⟨a, ha, hg.symm⟩

theorem hasGroup_lprim {c c' : Cell} {lab : Lab} (hc : HasGroup c) (hp : LPrim lab c c') : HasGroup c' := by
  cases hp with
  | put h =>
    rcases serverPut_shape h with ⟨_, rfl⟩ | ⟨_, a, s, anc, ha, _, _, _, _, _, happs, _, hgrps, _, _⟩
    · exact hc
    · exact hasGroup_of (by rw [happs]; exact updApp_group_back (app?_mem ha) rfl) (by rw [hgrps]) hc
  | remove h =>
    obtain ⟨a, s, ha, _, _, happs, _, hgrps, _, _⟩ := serverRemove_shape h
    exact hasGroup_of (by rw [happs]; exact updApp_group_back (app?_mem ha) rfl) (by rw [hgrps]) hc
  | release h =>
    simp only [releaseIdentity, bind_ok, orAbort_ok] at h
    obtain ⟨a, ha, h⟩ := h
    split at h
    · simp only [bind_ok, orAbort_ok, pure_ok] at h
      obtain ⟨grp, _, rfl⟩ := h
      refine hasGroup_of (c := c) (updApp_group_back (a' := { a with identity := none }) (app?_mem ha) rfl) ?_ hc
      simp only [Cell.setApp, Cell.setGrp]
      rw [map_upd_keys (·.id) c.groups _]
    · simp only [pure_ok] at h; subst h; exact hc
  | acquire h =>
    simp only [acquireIdentity, bind_ok, orAbort_ok] at h
    obtain ⟨a, ha, h⟩ := h
    split at h
    · simp only [pure_ok, Prod.mk.injEq] at h
      obtain ⟨rfl, _⟩ := h; exact hc
    · split at h
      · simp only [pure_ok, Prod.mk.injEq] at h
        obtain ⟨rfl, _⟩ := h; exact hc
      · simp only [bind_ok, orAbort_ok] at h
        obtain ⟨grp, _, h⟩ := h
        split at h
        · simp only [pure_ok, Prod.mk.injEq] at h
          obtain ⟨rfl, _⟩ := h; exact hc
        · split at h
          · simp only [throw_ne_ok] at h
          · rename_i k rest
            split at h
            · simp only [throw_bind, throw_ne_ok] at h
            · simp only [pure_ok, Prod.mk.injEq] at h
              obtain ⟨rfl, _⟩ := h
              refine hasGroup_of (c := c) (updApp_group_back (a' := { a with identity := some k }) (app?_mem ha) rfl) ?_ hc
              simp only [Cell.setApp, Cell.setGrp]
              exact map_upd_keys (·.id) c.groups { grp with avail := grp.avail.filter (· ≠ k) }
  | appMeta ha _ _ _ hg =>
    exact hasGroup_of (c := c) (updApp_group_back (app?_mem ha) hg) rfl hc
  | ghost ha =>
    exact hasGroup_of (c := c) (updApp_group_back (app?_mem ha) rfl) rfl hc
  | setRenew ha =>
    exact hasGroup_of (c := c) (updApp_group_back (app?_mem ha) rfl) rfl hc
  | dropDangling ha _ _ =>
    exact hasGroup_of (c := c) (updApp_group_back (app?_mem ha) rfl) rfl hc
  | forgetIdentity ha _ _ _ _ =>
    exact hasGroup_of (c := c) (updApp_group_back (app?_mem ha) rfl) rfl hc
  | tree => exact hasGroup_of (c := c) (fun x hx => ⟨x, hx, rfl⟩) rfl hc
  | clearEv =>
    refine hasGroup_of (c := c) ?_ rfl hc
    intro x hx
    obtain ⟨y, hy, rfl⟩ := List.mem_map.mp hx
    exact ⟨y, hy, rfl⟩

theorem hasGroup_prim {c c' : Cell} (hc : HasGroup c) (hp : Prim c c') : HasGroup c' := by
  obtain ⟨lab, hp⟩ := hp
  exact hasGroup_lprim hc hp

theorem hasGroup_reach {c c' : Cell} (hc : HasGroup c) (h : Reach c c') : HasGroup c' :=
  h.induct (fun _ _ hc hp => hasGroup_prim hc hp) hc


theorem mem_range' {lo hi k : Nat} : k ∈ range lo hi ↔ lo ≤ k ∧ k < hi := by
  simp [range, List.mem_filter, List.mem_range, and_comm]

theorem range_nodup (lo hi : Nat) : (range lo hi).Nodup := (List.nodup_range (n := hi)).filter _

/-- `IdentityGroup.adjust` keeps the offered set duplicate-free and below the new count, provided
    it was below the old count. -/
theorem adjust_ok {g : Grp} (count : Nat) (hnd : g.avail.Nodup) (hr : ∀ k ∈ g.avail, k < g.count) :
    (g.adjust count).id = g.id ∧ (g.adjust count).count = count ∧ (g.adjust count).avail.Nodup ∧
    (∀ k ∈ (g.adjust count).avail, k < count) := by
  unfold Grp.adjust
  split
  · rename_i hge
    refine ⟨rfl, rfl, ?_, ?_⟩
    · simp only
      rw [List.nodup_append]
      refine ⟨hnd.filter _, (range_nodup _ _).filter _, ?_⟩
      intro a ha b hb e
      subst e
      have h1 := (List.mem_filter.mp ha).2
      have h2 := (List.mem_filter.mp hb).1
      simp only [Bool.not_eq_eq_eq_not, Bool.not_true, List.contains_eq_mem, decide_eq_false_iff_not] at h1
      exact h1 h2
    · intro k hk
      simp only [List.mem_append, List.mem_filter] at hk
      rcases hk with ⟨hk, _⟩ | ⟨hk, _⟩
      · exact Nat.lt_of_lt_of_le (hr k hk) hge
      · exact (mem_range'.mp hk).2
  · rename_i hlt
    refine ⟨rfl, rfl, hnd.filter _, ?_⟩
    intro k hk
    simp only [List.mem_filter, Bool.not_eq_eq_eq_not, Bool.not_true, Bool.and_eq_false_imp,
      decide_eq_true_eq, decide_eq_false_iff_not] at hk
    have := hr k hk.1
    have h2 := hk.2
    omega

/-- Guards of the identity-related operations (what the loader guarantees). -/
def OpOkId (c : Cell) : Op → Prop
  | .addApp a => a.identity = none
  | .forceIdentity aid k => ∀ a, c.app? aid = some a → ∀ b ∈ c.apps, b.id ≠ aid → b.group = a.group →
      b.identity ≠ some k
  | _ => True

/-- The conjunction proved for every reachable state. -/
def InvId2 (c : Cell) : Prop := InvId c ∧ HasGroup c

theorem invId2_reach {c c' : Cell} (hc : InvId2 c) (h : Reach c c') : InvId2 c' :=
  ⟨invId_reach hc.1 h, hasGroup_reach hc.2 h⟩

theorem invId2_apps_groups {c c' : Cell} (ha : c'.apps = c.apps) (hg : c'.groups = c.groups) (h : InvId2 c) :
    InvId2 c' :=
  ⟨invId_congr ha hg h.1, hasGroup_of (fun x hx => ⟨x, by rw [← ha]; exact hx, rfl⟩) (by rw [hg]) h.2⟩

theorem invId2_appSame {c : Cell} {a a' : App} (h : InvId2 c) (ha : c.app? a.id = some a)
    (hid : a'.id = a.id) (hg : a'.group = a.group) (hi : a'.identity = a.identity) : InvId2 (c.setApp a') :=
  ⟨invId_appSame h.1 (app?_mem ha) hid hg hi,
   hasGroup_of (c := c) (updApp_group_back (a' := a') (app?_mem ha) hg) rfl h.2⟩

/-- Appending a fresh group with an arbitrary duplicate-free in-range offer. -/
theorem invId2_addGroup {c : Cell} (h : InvId2 c) (g : Grp) (hfresh : ∀ x ∈ c.groups, x.id ≠ g.id)
    (hnd : g.avail.Nodup) (hr : ∀ k ∈ g.avail, k < g.count) :
    InvId2 { c with groups := c.groups ++ [g] } := by
  obtain ⟨⟨h1, h2, h3, h4, h5, h6⟩, hg⟩ := h
  have noapp : ∀ a ∈ c.apps, a.group ≠ some g.id := by
    intro a ha e
    obtain ⟨grp, hgrp, hid⟩ := hg a ha g.id e
    exact hfresh grp hgrp hid
  refine ⟨⟨h1, ?_, h3, ?_, ?_, ?_⟩, ?_⟩
  · simp only [List.map_append, List.map_cons, List.map_nil]
    rw [List.nodup_append]
    refine ⟨h2, by simp, ?_⟩
    intro a ha b hb
    simp only [List.mem_singleton] at hb; subst hb
    obtain ⟨x, hx, rfl⟩ := List.mem_map.mp ha
    exact hfresh x hx
  · intro a ha grp hgrp k ga ia
    rcases List.mem_append.mp hgrp with hgrp | hgrp
    · exact h4 a ha grp hgrp k ga ia
    · simp only [List.mem_singleton] at hgrp; subst hgrp; exact absurd ga (noapp a ha)
  · intro grp hgrp
    rcases List.mem_append.mp hgrp with hgrp | hgrp
    · exact h5 grp hgrp
    · simp only [List.mem_singleton] at hgrp; subst hgrp; exact hnd
  · intro grp hgrp
    rcases List.mem_append.mp hgrp with hgrp | hgrp
    · exact h6 grp hgrp
    · simp only [List.mem_singleton] at hgrp; subst hgrp; exact hr
  · intro a ha gid hga
    obtain ⟨grp, hgrp, hid⟩ := hg a ha gid hga
    exact ⟨grp, List.mem_append_left _ hgrp, hid⟩

theorem invId2_ensureGroup {c : Cell} (h : InvId2 c) (g : Nat) : InvId2 (ensureGroup c g) := by
  unfold ensureGroup
  split
  · exact h
  · rename_i hno
    refine invId2_addGroup h { id := g, count := 0, avail := [] } ?_ List.nodup_nil (by intro k hk; cases hk)
    intro x hx e
    apply hno
    have : c.groups.find? (fun y => y.id = g) = some x := by
      simpa [e] using find?_key_unique (·.id) c.groups h.1.grpIds x hx
    simp [Cell.grp?, this]

/-- Replacing a group by one with the same id whose offer is duplicate-free, in range and disjoint
    from what the group's apps hold. -/
theorem invId2_setGrp {c : Cell} (h : InvId2 c) {grp grp' : Grp} (hgrp : grp ∈ c.groups) (hid : grp'.id = grp.id)
    (hnd : grp'.avail.Nodup) (hr : ∀ k ∈ grp'.avail, k < grp'.count)
    (hdisj : ∀ a ∈ c.apps, ∀ k, a.group = some grp.id → a.identity = some k → k ∉ grp'.avail) :
    InvId2 (c.setGrp grp') := by
  obtain ⟨⟨h1, h2, h3, h4, h5, h6⟩, hg⟩ := h
  refine ⟨⟨h1, ?_, h3, ?_, ?_, ?_⟩, ?_⟩
  · simp only [Cell.setGrp]; rw [map_upd_keys (·.id) c.groups grp']; exact h2
  · intro a ha G hG k ga ia
    rcases (mem_updGrp (g' := grp')).mp hG with ⟨hG, _⟩ | ⟨e, _⟩
    · exact h4 a ha G hG k ga ia
    · rw [e, hid] at ga; rw [e]; exact hdisj a ha k ga ia
  · intro G hG
    rcases (mem_updGrp (g' := grp')).mp hG with ⟨hG, _⟩ | ⟨e, _⟩
    · exact h5 G hG
    · rw [e]; exact hnd
  · intro G hG
    rcases (mem_updGrp (g' := grp')).mp hG with ⟨hG, _⟩ | ⟨e, _⟩
    · exact h6 G hG
    · rw [e]; exact hr
  · refine hasGroup_of (c := c) (fun x hx => ⟨x, hx, rfl⟩) ?_ hg
    simp only [Cell.setGrp]; exact map_upd_keys (·.id) c.groups grp'


theorem addNodeEffects_frame {c c' : Cell} {cid tr aff ls fr} (h : addNodeEffects c cid tr aff ls fr = .ok c') :
    c'.apps = c.apps ∧ c'.groups = c.groups := by
  simp only [addNodeEffects, bind_ok, orAbort_ok, pure_ok] at h
  obtain ⟨_, _, _, _, _, _, _, _, rfl⟩ := h
  exact ⟨rfl, rfl⟩

theorem invId2_dropApp {c : Cell} (h : InvId2 c) (aid : Nat) :
    InvId2 { c with apps := c.apps.filter (fun x => x.id ≠ aid) } := by
  obtain ⟨⟨h1, h2, h3, h4, h5, h6⟩, hg⟩ := h
  refine ⟨⟨(List.filter_sublist.map _).nodup h1, h2, ?_, ?_, h5, h6⟩, ?_⟩
  · intro a ha b hb; exact h3 a (List.mem_filter.mp ha).1 b (List.mem_filter.mp hb).1
  · intro a ha; exact h4 a (List.mem_filter.mp ha).1
  · intro a ha; exact hg a (List.mem_filter.mp ha).1

theorem invId2_addApp {c : Cell} (h : InvId2 c) (a : App) (hfresh : ∀ x ∈ c.apps, x.id ≠ a.id)
    (hnone : a.identity = none) (hgrp : ∀ g, a.group = some g → ∃ grp ∈ c.groups, grp.id = g) :
    InvId2 { c with apps := c.apps ++ [a] } := by
  obtain ⟨⟨h1, h2, h3, h4, h5, h6⟩, hg⟩ := h
  refine ⟨⟨?_, h2, ?_, ?_, h5, h6⟩, ?_⟩
  · simp only [List.map_append, List.map_cons, List.map_nil]
    rw [List.nodup_append]
    refine ⟨h1, by simp, ?_⟩
    intro x hx b hb
    simp only [List.mem_singleton] at hb; subst hb
    obtain ⟨y, hy, rfl⟩ := List.mem_map.mp hx
    exact hfresh y hy
  · intro x hx y hy g k gx gy ix iy
    rcases List.mem_append.mp hx with hx | hx
    · rcases List.mem_append.mp hy with hy | hy
      · exact h3 x hx y hy g k gx gy ix iy
      · simp only [List.mem_singleton] at hy; subst hy; rw [hnone] at iy; cases iy
    · simp only [List.mem_singleton] at hx; subst hx; rw [hnone] at ix; cases ix
  · intro x hx grp hgrp' k gx ix
    rcases List.mem_append.mp hx with hx | hx
    · exact h4 x hx grp hgrp' k gx ix
    · simp only [List.mem_singleton] at hx; subst hx; rw [hnone] at ix; cases ix
  · intro x hx g gx
    rcases List.mem_append.mp hx with hx | hx
    · exact hg x hx g gx
    · simp only [List.mem_singleton] at hx; subst hx; exact hgrp g gx

theorem ensureGroup_has (c : Cell) (g : Nat) : ∃ grp ∈ (ensureGroup c g).groups, grp.id = g := by
  unfold ensureGroup
  split
  · rename_i h
    obtain ⟨grp, hgrp⟩ := Option.isSome_iff_exists.mp h
    exact ⟨grp, grp?_mem hgrp, grp?_id hgrp⟩
  · exact ⟨_, List.mem_append_right _ (List.mem_singleton.mpr rfl), rfl⟩

theorem invId2_step {c c' : Cell} {op : Op} (hc : InvId2 c) (hok : OpOkId c op) (h : step c op = .ok c') :
    InvId2 c' := by
  cases op with
  | addBucket b p l =>
    simp only [step, addBucket] at h
    split at h
    · simp only [throw_bind, throw_ne_ok] at h
    · simp only [bind_ok, orAbort_ok] at h
      obtain ⟨t, _, h⟩ := h
      have := addNodeEffects_frame h
      exact invId2_apps_groups (c := c) this.1 this.2 hc
  | addServer sid pid cap label traits vu =>
    simp only [step, addServer] at h
    split at h
    · simp only [throw_bind, throw_ne_ok] at h
    · split at h
      · simp only [throw_bind, throw_ne_ok] at h
      · simp only [bind_ok, orAbort_ok] at h
        obtain ⟨t, _, h⟩ := h
        have := addNodeEffects_frame h
        exact invId2_apps_groups (c := c) this.1 this.2 hc
  | removeServer sid =>
    simp only [step, removeServer, bind_ok] at h
    obtain ⟨c1, h1, h2⟩ := h
    have hc1 := invId2_reach hc (serverRemoveAll_reach h1)
    simp only [detachServer, bind_ok, orAbort_ok, pure_ok] at h2
    obtain ⟨s, _, ⟨t, pid, sub⟩, _, t1, _, t2, _, t3, _, rfl⟩ := h2
    exact invId2_apps_groups (c := c1) rfl rfl hc1
  | detachServer sid =>
    simp only [step, detachServer, bind_ok, orAbort_ok, pure_ok] at h
    obtain ⟨s, _, ⟨t, pid, sub⟩, _, t1, _, t2, _, t3, _, rfl⟩ := h
    exact invId2_apps_groups (c := c) rfl rfl hc
  | setState sid st since =>
    simp only [step, setState, bind_ok, orAbort_ok] at h
    obtain ⟨s, hs, h⟩ := h
    split at h
    · simp only [pure_ok] at h; subst h; exact hc
    · simp only [bind_ok, orAbort_ok, pure_ok] at h
      obtain ⟨t, _, rfl⟩ := h
      exact invId2_apps_groups (c := c) rfl rfl hc
  | setValidUntil sid v =>
    simp only [step, setValidUntil, bind_ok, orAbort_ok, pure_ok] at h
    obtain ⟨s, hs, rfl⟩ := h
    exact invId2_apps_groups (c := c) rfl rfl hc
  | addApp a =>
    simp only [step, addApp] at h
    split at h
    · simp only [throw_bind, throw_ne_ok] at h
    · rename_i hfresh
      simp only [pure_ok] at h
      subst h
      have hfr : ∀ (c0 : Cell), c0.apps = c.apps → ∀ x ∈ c0.apps, x.id ≠ a.id := by
        intro c0 e x hx e2
        apply hfresh
        rw [e] at hx
        have : c.apps.find? (fun y => y.id = a.id) = some x := by
          simpa [e2] using find?_key_unique (·.id) c.apps hc.1.appIds x hx
        simp [Cell.app?, this]
      cases hg : a.group with
      | none =>
        simp only
        exact invId2_addApp hc a (hfr c rfl) hok (by intro g e; rw [hg] at e; cases e)
      | some g =>
        simp only
        refine invId2_addApp (invId2_ensureGroup hc g) a (hfr _ (ensureGroup_apps c g)) hok ?_
        intro g' e
        rw [hg] at e
        have := Option.some.inj e; subst this
        exact ensureGroup_has c g
  | updateApp aid al prio ret bl =>
    simp only [step, updateApp, bind_ok, orAbort_ok, pure_ok] at h
    obtain ⟨a, ha, rfl⟩ := h
    have ha' : c.app? a.id = some a := by rw [app?_id ha]; exact ha
    cases hg : a.group with
    | none => exact invId2_appSame hc ha' rfl (by rw [hg]) rfl
    | some g =>
      simp only
      have ha'' : (ensureGroup c g).app? a.id = some a := by
        unfold Cell.app?; rw [ensureGroup_apps]; exact ha'
      exact invId2_appSame (invId2_ensureGroup hc g) ha'' rfl (by rw [hg]) rfl
  | removeApp aid =>
    simp only [step, removeApp] at h
    split at h
    · simp only [pure_ok] at h; subst h; exact hc
    · rename_i a ha
      have tail : ∀ c1 : Cell, InvId2 c1 → ∀ c2, releaseIdentity c1 aid = .ok c2 →
          InvId2 { c2 with apps := c2.apps.filter (fun x => x.id ≠ aid) } := by
        intro c1 hc1 c2 h2
        exact invId2_dropApp (invId2_reach hc1 (Reach.single ⟨_, .release h2⟩)) aid
      split at h
      · split at h
        · simp only [bind_ok, pure_ok] at h
          obtain ⟨c1, h1, c2, h2, rfl⟩ := h
          exact tail c1 (invId2_reach hc (Reach.single ⟨_, .remove h1⟩)) c2 h2
        · simp only [bind_ok, pure_ok] at h
          obtain ⟨c1, rfl, c2, h2, rfl⟩ := h
          exact tail c hc c2 h2
      · simp only [bind_ok, pure_ok] at h
        obtain ⟨c1, rfl, c2, h2, rfl⟩ := h
        exact tail c hc c2 h2
  | setAlloc al info =>
    simp only [step, pure_ok] at h; subst h
    unfold setAlloc; split <;> exact invId2_apps_groups (c := c) rfl rfl hc
  | configureGroup g n =>
    simp only [step, pure_ok] at h; subst h
    unfold configureGroup
    split
    · rename_i hno
      refine invId2_addGroup hc { id := g, count := n, avail := range 0 n } ?_ (range_nodup 0 n)
        (fun k hk => (mem_range'.mp hk).2)
      intro x hx e
      have : c.groups.find? (fun y => y.id = g) = some x := by
        simpa [e] using find?_key_unique (·.id) c.groups hc.1.grpIds x hx
      simp [Cell.grp?, this] at hno
    · rename_i grp hgrp
      have hm := grp?_mem hgrp
      have hid := grp?_id hgrp
      obtain ⟨a1, a2, a3, a4⟩ := adjust_ok n (hc.1.availNodup grp hm) (hc.1.availRange grp hm)
      refine invId2_setGrp hc hm (by simp only; exact a1) (a3.filter _) ?_ ?_
      · intro k hk; simp only at hk ⊢
        rw [a2]; exact a4 k (List.mem_filter.mp hk).1
      · intro a ha k ga ia hin
        simp only [List.mem_filter, Bool.not_eq_eq_eq_not, Bool.not_true, List.contains_eq_mem,
          decide_eq_false_iff_not] at hin
        apply hin.2
        simp only [List.mem_filterMap]
        exact ⟨a, ha, by rw [ga, hid]; simp [ia]⟩
  | removeGroup g =>
    simp only [step, pure_ok] at h; subst h
    unfold removeGroup
    split
    · exact hc
    · rename_i grp hgrp
      have hm := grp?_mem hgrp
      have hid := grp?_id hgrp
      split
      · obtain ⟨a1, a2, a3, a4⟩ := adjust_ok 0 (hc.1.availNodup grp hm) (hc.1.availRange grp hm)
        refine invId2_setGrp hc hm a1 a3 (by rw [a2]; exact a4) ?_
        intro a ha k _ _ hin
        have := a4 k hin
        omega
      · rename_i hnot
        obtain ⟨⟨h1, h2, h3, h4, h5, h6⟩, hg⟩ := hc
        refine ⟨⟨h1, (List.filter_sublist.map _).nodup h2, h3, ?_, ?_, ?_⟩, ?_⟩
        · intro a ha G hG; exact h4 a ha G (List.mem_filter.mp hG).1
        · intro G hG; exact h5 G (List.mem_filter.mp hG).1
        · intro G hG; exact h6 G (List.mem_filter.mp hG).1
        · intro a ha g' ga
          obtain ⟨G, hG, hGid⟩ := hg a ha g' ga
          refine ⟨G, List.mem_filter.mpr ⟨hG, ?_⟩, hGid⟩
          simp only [ne_eq, decide_not, Bool.not_eq_eq_eq_not, Bool.not_true, decide_eq_false_iff_not]
          intro e
          apply hnot
          simp only [List.any_eq_true, decide_eq_true_eq]
          exact ⟨a, ha, by rw [ga, ← hGid, e]⟩
  | forceIdentity aid k =>
    simp only [step, forceIdentity, bind_ok, orAbort_ok, pure_ok] at h
    obtain ⟨a, ha, g, hg, grp, hgrp, rfl⟩ := h
    have hm := grp?_mem hgrp
    have hid := grp?_id hgrp
    have ham := app?_mem ha
    have haid := app?_id ha
    have hguard := hok a ha
    -- group first
    have h1 : InvId2 (c.setGrp { grp with avail := grp.avail.filter (· ≠ k) }) := by
      refine invId2_setGrp hc hm rfl ((hc.1.availNodup grp hm).filter _) ?_ ?_
      · intro x hx; exact hc.1.availRange grp hm x (List.mem_filter.mp hx).1
      · intro b hb x gb ib hin
        exact hc.1.disj b hb grp hm x gb ib (List.mem_filter.mp hin).1
    obtain ⟨⟨i1, i2, i3, i4, i5, i6⟩, ig⟩ := h1
    have hids : (((c.setGrp { grp with avail := grp.avail.filter (· ≠ k) }).setApp { a with identity := some k }).apps.map (·.id)).Nodup := by
      show ((updApp c.apps { a with identity := some k }).map (·.id)).Nodup
      unfold updApp; rw [map_upd_keys (·.id) c.apps _]; exact hc.1.appIds
    refine ⟨⟨hids, i2, ?_, ?_, i5, i6⟩, ?_⟩
    · intro x hx y hy g0 k0 gx gy ix iy
      rcases (mem_updApp (a' := { a with identity := some k })).mp hx with ⟨hx0, hxne⟩ | ⟨rfl, _⟩
      · rcases (mem_updApp (a' := { a with identity := some k })).mp hy with ⟨hy0, _⟩ | ⟨rfl, _⟩
        · exact hc.1.uniq x hx0 y hy0 g0 k0 gx gy ix iy
        · exfalso
          simp only at gy iy
          have hk0 : k = k0 := Option.some.inj iy
          subst hk0
          exact hguard x hx0 (by rw [← haid]; exact hxne) (by rw [gx, gy]) ix
      · rcases (mem_updApp (a' := { a with identity := some k })).mp hy with ⟨hy0, hyne⟩ | ⟨rfl, _⟩
        · exfalso
          simp only at gx ix
          have hk0 : k = k0 := Option.some.inj ix
          subst hk0
          exact hguard y hy0 (by rw [← haid]; exact hyne) (by rw [gy, gx]) iy
        · rfl
    · intro x hx G hG k0 gx ix
      rcases (mem_updApp (a' := { a with identity := some k })).mp hx with ⟨hx0, _⟩ | ⟨rfl, _⟩
      · exact i4 x hx0 G hG k0 gx ix
      · simp only at gx ix
        have hk0 : k = k0 := Option.some.inj ix
        subst hk0
        rcases (mem_updGrp (g' := { grp with avail := grp.avail.filter (· ≠ k) })).mp hG with ⟨hG0, hGne⟩ | ⟨e, _⟩
        · exfalso
          rw [hg] at gx
          exact hGne (by simp only; rw [hid]; exact (Option.some.inj gx).symm)
        · rw [e]; simp [List.mem_filter]
    · exact hasGroup_of (c := c.setGrp { grp with avail := grp.avail.filter (· ≠ k) })
        (updApp_group_back (a' := { a with identity := some k }) ham rfl) rfl ig
  | serverPut aid sid =>
    simp only [step, bind_ok, pure_ok] at h
    obtain ⟨⟨c1, b⟩, h1, rfl⟩ := h
    exact invId2_reach hc (Reach.single ⟨_, .put h1⟩)
  | serverRestore aid sid e =>
    simp only [step, bind_ok, pure_ok] at h
    obtain ⟨⟨c1, b⟩, h1, rfl⟩ := h
    exact invId2_reach hc (serverRestore_reach h1)
  | serverRemoveAll sid => exact invId2_reach hc (serverRemoveAll_reach h)
  | setPrio aid p =>
    simp only [step, bind_ok, orAbort_ok, pure_ok] at h
    obtain ⟨a, ha, rfl⟩ := h
    exact invId2_appSame (a := a) (a' := { a with prio := p }) hc (by rw [app?_id ha]; exact ha) rfl rfl rfl
  | setBlacklisted aid b =>
    simp only [step, bind_ok, orAbort_ok, pure_ok] at h
    obtain ⟨a, ha, rfl⟩ := h
    exact invId2_appSame (a := a) (a' := { a with blacklisted := b }) hc (by rw [app?_id ha]; exact ha) rfl rfl rfl
  | setUnschedule aid b =>
    simp only [step, bind_ok, orAbort_ok, pure_ok] at h
    obtain ⟨a, ha, rfl⟩ := h
    exact invId2_appSame (a := a) (a' := { a with unschedule := b }) hc (by rw [app?_id ha]; exact ha) rfl rfl rfl
  | setRenew aid b =>
    simp only [step, bind_ok, orAbort_ok, pure_ok] at h
    obtain ⟨a, ha, rfl⟩ := h
    exact invId2_appSame (a := a) (a' := { a with renew := b }) hc (by rw [app?_id ha]; exact ha) rfl rfl rfl
  | tick now => simp only [step, pure_ok] at h; subst h; exact invId2_apps_groups (c := c) rfl rfl hc
  | schedule qs ch => exact invId2_reach hc (schedule_reach h)

end TmVerif.Sched
