/-
  The skeleton determines the views up to cursors.
-/
import TmVerif.Sched.Views

namespace TmVerif.Sched

mutual
theorem skel_names : ∀ (t : Tree), t.skel.names = t.names
  | .leaf _ => by simp [Tree.skel]
  | .node b cs => by simp only [Tree.skel, Tree.names, Bkt.noCur]; rw [skelL_names cs]
theorem skelL_names : ∀ (cs : List (Option Tree)), Tree.namesL (Tree.skelL cs) = Tree.namesL cs
  | [] => by simp [Tree.skelL]
  | none :: r => by simp only [Tree.skelL, Tree.namesL]; exact skelL_names r
  | some t :: r => by simp only [Tree.skelL, Tree.namesL]; rw [skel_names t, skelL_names r]
end

mutual
theorem skel_leaves : ∀ (t : Tree), t.skel.leaves = t.leaves
  | .leaf _ => by simp [Tree.skel]
  | .node b cs => by simp only [Tree.skel, Tree.leaves]; rw [skelL_leaves cs]
theorem skelL_leaves : ∀ (cs : List (Option Tree)), Tree.leavesL (Tree.skelL cs) = Tree.leavesL cs
  | [] => by simp [Tree.skelL]
  | none :: r => by simp only [Tree.skelL, Tree.leavesL]; exact skelL_leaves r
  | some t :: r => by simp only [Tree.skelL, Tree.leavesL]; rw [skel_leaves t, skelL_leaves r]
end

def NView.noCur (v : NView) : NView := { v with b := v.b.noCur }

mutual
theorem skel_views : ∀ (t : Tree), t.skel.views = t.views.map NView.noCur
  | .leaf _ => by simp [Tree.skel, Tree.views]
  | .node b cs => by
    simp only [Tree.skel, Tree.views, List.map_cons]
    rw [skelL_views cs, skelL_names cs, skelL_leaves cs]; rfl
theorem skelL_views : ∀ (cs : List (Option Tree)), Tree.viewsL (Tree.skelL cs) = (Tree.viewsL cs).map NView.noCur
  | [] => by simp [Tree.skelL, Tree.viewsL]
  | none :: r => by simp only [Tree.skelL, Tree.viewsL]; exact skelL_views r
  | some t :: r => by simp only [Tree.skelL, Tree.viewsL, List.map_append]; rw [skel_views t, skelL_views r]
end

theorem forall2_of_map_eq {α β} (f : α → β) : ∀ (l l' : List α), l.map f = l'.map f →
    TmVerif.Forall2 (fun a a' => f a = f a') l l'
  | [], [], _ => .nil
  | [], _ :: _, h => by simp at h
  | _ :: _, [], h => by simp at h
  | a :: l, a' :: l', h => by
    simp only [List.map_cons, List.cons.injEq] at h
    exact .cons h.1 (forall2_of_map_eq f l l' h.2)

/-- Trees with the same skeleton have the same views up to cursors. -/
theorem views_of_skel {t t' : Tree} (h : t'.skel = t.skel) :
    t'.names = t.names ∧ t'.leaves = t.leaves ∧ ViewsRel (fun b b' => b'.noCur = b.noCur) t.views t'.views := by
  refine ⟨by rw [← skel_names t', h, skel_names], by rw [← skel_leaves t', h, skel_leaves], ?_⟩
  have : t.views.map NView.noCur = t'.views.map NView.noCur := by rw [← skel_views, ← skel_views, h]
  refine (forall2_of_map_eq NView.noCur _ _ this).imp ?_
  intro v v' e
  have e1 : v.noCur.b = v'.noCur.b := congrArg NView.b e
  have e2 : v.noCur.names = v'.noCur.names := congrArg NView.names e
  have e3 : v.noCur.leaves = v'.noCur.leaves := congrArg NView.leaves e
  exact ⟨e1.symm, e2.symm, e3.symm⟩

end TmVerif.Sched
