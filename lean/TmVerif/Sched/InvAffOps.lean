/-
  C04 — every operation of a scheduler-level history preserves the affinity invariants.
-/
import TmVerif.Sched.InvAffPrim
import TmVerif.Sched.InvCapOps

namespace TmVerif.Sched

/-- Guard for C04: instances of one affinity share their limits. -/
def LimOk (c : Cell) : Op → Prop
  | .addApp a => ∀ x ∈ c.apps, x.aff = a.aff → x.limits = a.limits
  | _ => True

@[simp] theorem ensureGroup_tree (c : Cell) (g : Nat) : (ensureGroup c g).tree = c.tree := by
  unfold ensureGroup; split <;> rfl

/-- `AffAll` only looks at the tree, the server table and the apps. -/
theorem affAll_ext {c c' : Cell} (hc : AffAll c) (ht : c'.tree = c.tree) (hs : c'.srvs = c.srvs)
    (ha : c'.apps = c.apps) : AffAll c' := by
  obtain ⟨h1, ⟨h2, h3⟩, ⟨h4, h5, h6⟩, ⟨h7, h8⟩, h9⟩ := hc
  refine ⟨?_, ⟨?_, ?_⟩, ⟨?_, ?_, ?_⟩, ⟨?_, ?_⟩, ?_⟩
  · unfold InvCap at h1 ⊢; rw [hs, ha]; exact h1
  · rw [ht]; exact h2
  · rw [ht, hs]; exact h3
  · rw [ht, ha]; exact h4
  · rw [hs, ha]; exact h5
  · rw [hs]; exact h6
  · rw [ht, ha]; exact h7
  · rw [hs, ha]; exact h8
  · rw [ha]; exact h9

theorem cnt_nil (apps : List App) (k : Nat) : cnt apps [] k = 0 := by
  unfold cnt
  rw [List.countP_eq_zero]
  intro a _
  simp [onSrv]
  cases a.server <;> simp

/-- Servers on which no app is placed can be added to / dropped from the list. -/
theorem cnt_sub_empty (apps : List App) (ls ex ls' : List Nat) (k : Nat)
    (h1 : ∀ x ∈ ls, x ∈ ls') (h2 : ∀ x ∈ ls', x ∈ ls ∨ x ∈ ex) (hno : ∀ a ∈ apps, ∀ s ∈ ex, a.server ≠ some s) :
    cnt apps ls' k = cnt apps ls k := by
  unfold cnt
  apply List.countP_congr
  intro a ha
  have : onSrv a ls' = onSrv a ls := by
    unfold onSrv
    cases hs : a.server with
    | none => rfl
    | some s =>
      simp only [List.contains_eq_mem]
      apply decide_eq_decide.mpr
      constructor
      · intro h
        rcases h2 s h with h | h
        · exact h
        · exact absurd hs (hno a ha s h)
      · exact h1 s
  rw [this]

/-! ### `add_node` effects with an empty counter delta -/

theorem affStep_nil_keep (sign : Int) (b : Bkt) (cs : List (Option Tree)) (u : Unit) :
    SameAff b (affStep [] sign b cs u).1 := ⟨rfl, rfl, rfl⟩

theorem treeAff_nil_views {t t' : Tree} {target : Nat} {incl : Bool} {sign : Int}
    (h : treeAff t target incl [] sign = some t') :
    t'.names = t.names ∧ t'.leaves = t.leaves ∧ ViewsRel SameAff t.views t'.views := by
  unfold treeAff at h
  cases hb : t.bubble (affStep [] sign) incl target () with
  | none => rw [hb] at h; cases h
  | some r =>
    rw [hb] at h
    simp only [Option.map_some, Option.some.injEq] at h
    subst h
    exact ⟨bubble_names _ _ (fun b cs m => rfl) _ _ _ r.1 r.2 hb,
      bubble_leaves _ _ _ _ _ r.1 r.2 hb,
      bubble_viewsRel _ _ SameAff SameAff.rfl' (fun b cs m => affStep_nil_keep sign b cs m)
        (fun b cs m => rfl) _ _ _ r.1 r.2 hb⟩

/-- What survives of a view through same-counter propagations. -/
def KeepView (v v' : NView) : Prop :=
  v'.names = v.names ∧ v'.leaves = v.leaves ∧ v'.b.id = v.b.id ∧ v'.b.level = v.b.level ∧ v'.b.aff = v.b.aff

theorem keepView_of_rel {l l' : List NView} (h : ViewsRel SameAff l l') :
    ∀ v' ∈ l', ∃ v ∈ l, KeepView v v' := by
  intro v' hv'
  obtain ⟨v, hv, hs, hn, hl⟩ := h.mem_right v' hv'
  exact ⟨v, hv, hn, hl, hs.1, hs.2.1, hs.2.2⟩

theorem KeepView.trans {a b c : NView} (h1 : KeepView a b) (h2 : KeepView b c) : KeepView a c :=
  ⟨h2.1.trans h1.1, h2.2.1.trans h1.2.1, h2.2.2.1.trans h1.2.2.1, h2.2.2.2.1.trans h1.2.2.2.1,
   h2.2.2.2.2.trans h1.2.2.2.2⟩

theorem addNodeEffects_nil_views {c c' : Cell} {cid tr : Nat} {ls : List Nat} {fr : Vec}
    (h : addNodeEffects c cid tr [] ls fr = .ok c') :
    c'.srvs = c.srvs ∧ c'.apps = c.apps ∧ c'.tree.names = c.tree.names ∧ c'.tree.leaves = c.tree.leaves ∧
    ∀ v' ∈ c'.tree.views, ∃ v ∈ c.tree.views, KeepView v v' := by
  simp only [addNodeEffects, bind_ok, orAbort_ok, pure_ok] at h
  obtain ⟨t1, h1, t2, h2, t3, h3, t4, h4, rfl⟩ := h
  obtain ⟨a1, a2, a3⟩ := treeTraits_views h1
  obtain ⟨b1, b2, b3⟩ := treeAff_nil_views h2
  obtain ⟨c1, c2, c3⟩ := treeLabels_views h3
  obtain ⟨d1, d2, d3⟩ := treeCap_views h4
  refine ⟨rfl, rfl, by simp only; rw [d1, c1, b1, a1], by simp only; rw [d2, c2, b2, a2], ?_⟩
  intro v' hv'
  obtain ⟨v3, hv3, k3⟩ := keepView_of_rel d3 v' hv'
  obtain ⟨v2, hv2, k2⟩ := keepView_of_rel c3 v3 hv3
  obtain ⟨v1, hv1, k1⟩ := keepView_of_rel b3 v2 hv2
  obtain ⟨v0, hv0, k0⟩ := keepView_of_rel a3 v1 hv1
  exact ⟨v0, hv0, ((k0.trans k1).trans k2).trans k3⟩

/-- `nameTaken` is membership in `names`. -/
theorem nameTaken_iff (c : Cell) (nid : Nat) : nameTaken c nid = true ↔ nid ∈ c.tree.names := by
  unfold nameTaken
  rw [names_iff]
  simp only [Bool.or_eq_true, List.contains_eq_mem, decide_eq_true_eq, List.any_eq_true]

/-- Attaching a fresh subtree on whose servers no app is placed, followed by `add_node` effects with
    an empty counter delta: the invariants survive, provided the new subtree's own views and the
    new server-table rows are consistent. -/
theorem affAll_attach {c c' : Cell} {child t : Tree} {pid cid tr : Nat} {ls : List Nat} {fr : Vec} {srvs' : List Srv}
    (hc : AffAll c) (hcap : InvCap c') (hatt : Tree.attach child c.tree pid = some t)
    (hfresh : ∀ x ∈ child.names, x ∉ c.tree.names) (hcn : child.names.Nodup)
    (hno : ∀ a ∈ c.apps, ∀ s ∈ child.leaves, a.server ≠ some s)
    (hcv : ∀ v ∈ child.views, v.b.aff = [] ∧ ∀ x ∈ v.leaves, x ∈ child.leaves)
    (hsrv : ∀ s' ∈ srvs', s' ∈ c.srvs ∨ (s'.id ∈ child.leaves ∧ s'.aff = []))
    (hids : ∀ x, (∃ s ∈ srvs', s.id = x) ↔ (∃ s ∈ c.srvs, s.id = x) ∨ x ∈ child.leaves)
    (h : addNodeEffects { c with tree := t, srvs := srvs' } cid tr [] ls fr = .ok c') : AffAll c' := by
  obtain ⟨e1, e2, e3, e4, e5⟩ := addNodeEffects_nil_views h
  simp only at e1 e2 e3 e4 e5
  obtain ⟨_, p2, p3, p4⟩ := attach_spec child c.tree pid t hc.tree.names hatt
  have hnd : t.names.Nodup := by
    rw [p2.nodup_iff, List.nodup_append]
    exact ⟨hc.tree.names, hcn, fun a ha b hb e => hfresh b hb (e ▸ ha)⟩
  have hzero : ∀ (lst : List Nat), (∀ x ∈ lst, x ∈ child.leaves) → ∀ k, cnt c.apps lst k = 0 := by
    intro lst hl k
    rw [← cnt_nil c.apps k]
    exact cnt_sub_empty c.apps [] child.leaves lst k (fun _ h => by cases h) (fun x hx => Or.inr (hl x hx)) hno
  -- every new view is a child view or an old view with servers of the child added
  have hview : ∀ v' ∈ c'.tree.views, ∀ k,
      (cget v'.b.aff k = (cnt c.apps v'.leaves k : Int)) ∧
      (∀ a ∈ c.apps, onSrv a v'.leaves = true → ∃ v ∈ c.tree.views, onSrv a v.leaves = true ∧
         v'.b.level = v.b.level ∧ v'.b.aff = v.b.aff) := by
    intro v' hv' k
    obtain ⟨v1, hv1, k1⟩ := e5 v' hv'
    rcases p4 v1 hv1 with hcv1 | ⟨v, hv, hb, hr⟩
    · obtain ⟨ha0, hl0⟩ := hcv v1 hcv1
      have hl' : ∀ x ∈ v'.leaves, x ∈ child.leaves := by rw [k1.2.1]; exact hl0
      refine ⟨by rw [k1.2.2.2.2, ha0, hzero v'.leaves hl' k]; rfl, ?_⟩
      intro a ha hon
      exfalso
      unfold onSrv at hon
      cases hs : a.server with
      | none => rw [hs] at hon; cases hon
      | some s =>
        rw [hs] at hon
        exact hno a ha s (hl' s (by simpa using hon)) hs
    · have hsub : (∀ x ∈ v.leaves, x ∈ v'.leaves) ∧ (∀ x ∈ v'.leaves, x ∈ v.leaves ∨ x ∈ child.leaves) := by
        rw [k1.2.1]
        rcases hr with ⟨_, _, hp⟩ | ⟨_, _, he⟩
        · exact ⟨fun x hx => hp.mem_iff.mpr (List.mem_append_left _ hx),
            fun x hx => List.mem_append.mp (hp.mem_iff.mp hx)⟩
        · rw [he]; exact ⟨fun _ h => h, fun _ h => Or.inl h⟩
      have hcnt := cnt_sub_empty c.apps v.leaves child.leaves v'.leaves k hsub.1 hsub.2 hno
      refine ⟨by rw [k1.2.2.2.2, hb, hcnt]; exact hc.aff.bkt v hv k, ?_⟩
      intro a ha hon
      refine ⟨v, hv, ?_, by rw [k1.2.2.2.1, hb], by rw [k1.2.2.2.2, hb]⟩
      unfold onSrv at hon ⊢
      cases hs : a.server with
      | none => rw [hs] at hon; cases hon
      | some s =>
        rw [hs] at hon
        simp only [List.contains_eq_mem, decide_eq_true_eq] at hon ⊢
        rcases hsub.2 s hon with h | h
        · exact h
        · exact absurd hs (hno a ha s h)
  refine ⟨hcap, ⟨by rw [e3]; exact hnd, ?_⟩, ⟨?_, ?_, ?_⟩, ⟨?_, ?_⟩, by rw [e2]; exact hc.shared⟩
  · intro x
    rw [e4, p3.mem_iff, List.mem_append, hc.tree.leaves, e1, hids]
  · intro v' hv' k
    rw [e2]; exact (hview v' hv' k).1
  · intro s' hs' k
    rw [e1] at hs'
    rw [e2]
    rcases hsrv s' hs' with h0 | ⟨h0, h1⟩
    · exact hc.aff.srv s' h0 k
    · rw [h1, hzero [s'.id] (by intro x hx; simp only [List.mem_singleton] at hx; rw [hx]; exact h0) k]; rfl
  · intro s' hs'
    rw [e1] at hs'
    rcases hsrv s' hs' with h0 | ⟨_, h1⟩
    · exact hc.aff.keys s' h0
    · rw [h1]; exact List.nodup_nil
  · intro v' hv' a ha hon l hl
    rw [e2] at ha
    obtain ⟨v, hv, hon', hlvl, haff⟩ := (hview v' hv' 0).2 a ha hon
    rw [haff]; rw [hlvl] at hl
    exact hc.lim.bkt v hv a ha hon' l hl
  · intro s' hs' a ha hsv l hl
    rw [e1] at hs'
    rw [e2] at ha
    rcases hsrv s' hs' with h0 | ⟨h0, _⟩
    · exact hc.lim.srv s' h0 a ha hsv l hl
    · exact absurd hsv (hno a ha _ h0)

/-! ### `remove_node(server)` -/

theorem cnt_split (apps : List App) (ls l1 : List Nat) (sid k : Nat)
    (hmem : ∀ x, x ∈ ls ↔ x ∈ l1 ∨ x = sid) (hnot : sid ∉ l1) :
    cnt apps ls k = cnt apps l1 k + cnt apps [sid] k := by
  unfold cnt
  induction apps with
  | nil => rfl
  | cons a t ih =>
    simp only [List.countP_cons, ih]
    have : (if (a.aff == k && onSrv a ls) = true then 1 else 0) =
        (if (a.aff == k && onSrv a l1) = true then 1 else 0) + (if (a.aff == k && onSrv a [sid]) = true then 1 else 0) := by
      unfold onSrv
      cases hs : a.server with
      | none => simp
      | some x =>
        simp only [List.contains_eq_mem, List.mem_singleton]
        by_cases hk : (a.aff == k) = true
        · simp only [hk, Bool.true_and, decide_eq_true_eq]
          by_cases h1 : x ∈ l1
          · have : x ≠ sid := fun e => hnot (e ▸ h1)
            simp [h1, this, (hmem x).mpr (Or.inl h1)]
          · by_cases h2 : x = sid
            · subst h2
              simp [hnot, (hmem x).mpr (Or.inr rfl)]
            · have : x ∉ ls := fun h => by rcases (hmem x).mp h with h | h; exact h1 h; exact h2 h
              simp [h1, h2, this]
        · simp [hk]
    omega

theorem affAll_detach {c c' : Cell} {sid : Nat} (hc : AffAll c) (h : detachServer c sid = .ok c') : AffAll c' := by
  have hcap := invCap_detach hc.cap h
  simp only [detachServer, bind_ok, orAbort_ok, pure_ok] at h
  obtain ⟨s, hs, ⟨t, pid, sub⟩, hdet, t1, h1, t2, h2, t3, h3, rfl⟩ := h
  simp only at h1 h2 h3
  have hsm := srv?_mem hs
  have hsid := srv?_id hs
  obtain ⟨d1, d2, d3, d4, d5⟩ := detach_spec c.tree sid t pid sub hc.tree.names hdet
  have hleaf : sid ∈ c.tree.leaves := (hc.tree.leaves sid).mpr ⟨s, hsm, hsid⟩
  have hndall : (t.names ++ sub.names).Nodup := d2.nodup_iff.mp hc.tree.names
  have hnd' := List.nodup_append.mp hndall
  -- the detached node is the server leaf
  have hsub : sub.names = [sid] ∧ sub.leaves = [sid] := by
    cases sub with
    | leaf x => simp only [Tree.id] at d1; subst d1; exact ⟨rfl, rfl⟩
    | node b cs =>
      exfalso
      simp only [Tree.id] at d1
      have hin : sid ∈ t.leaves ++ (Tree.node b cs).leaves := d3.mem_iff.mp hleaf
      have hsn : sid ∈ (Tree.node b cs).names := by simp [Tree.names, d1]
      rcases List.mem_append.mp hin with h | h
      · exact hnd'.2.2 _ (leaves_sub_names t _ h) _ hsn rfl
      · simp only [Tree.leaves] at h
        have := hnd'.2.1
        simp only [Tree.names, List.nodup_cons] at this
        exact this.1 (d1 ▸ leavesL_sub_namesL cs _ h)
  rw [hsub.1] at d2 d5
  rw [hsub.2] at d3 d5
  have hlnd : (t.leaves ++ [sid]).Nodup := d3.nodup_iff.mp (leaves_nodup hc.tree.names)
  have hsidnot : sid ∉ t.leaves := by
    intro hm
    exact (List.nodup_append.mp hlnd).2.2 _ hm _ (List.mem_singleton.mpr rfl) rfl
  obtain ⟨a1, a2, a3⟩ := treeTraits_views h1
  have hnd1 : t1.names.Nodup := by rw [a1]; exact hnd'.1
  obtain ⟨b1, b2, _, b4⟩ := treeAff_views hnd1 h2
  obtain ⟨c1, c2, c3⟩ := treeCap_views h3
  -- provenance of every view of the final tree
  have hview : ∀ v' ∈ t3.views, ∃ v ∈ c.tree.views, v'.b.level = v.b.level ∧
      (∀ x ∈ v'.leaves, x ∈ v.leaves) ∧
      ∀ k, cget v'.b.aff k = (cnt c.apps v'.leaves k : Int) ∧ cget v'.b.aff k ≤ cget v.b.aff k := by
    intro v' hv'
    obtain ⟨v2, hv2, k2⟩ := keepView_of_rel c3 v' hv'
    rw [b4, List.mem_map] at hv2
    obtain ⟨v1, hv1, rfl⟩ := hv2
    obtain ⟨v0, hv0, k0⟩ := keepView_of_rel a3 v1 hv1
    obtain ⟨v, hv, hb, hr⟩ := d5 v0 hv0
    have habove : v1.above true pid = v0.above true pid := by
      unfold NView.above; rw [k0.1, k0.2.2.1]
    have hsrvcnt : ∀ k, csum s.aff k = (cnt c.apps [sid] k : Int) := by
      intro k
      rw [csum_eq_cget _ _ (hc.aff.keys s hsm), hc.aff.srv s hsm k, hsid]
    unfold NView.upd at k2
    rcases hr with ⟨hab, _, hp⟩ | ⟨hab, _, he⟩
    · rw [habove, hab] at k2
      simp only [↓reduceIte] at k2
      have hl' : v'.leaves = v0.leaves := by rw [k2.2.1, k0.2.1]
      have hmem : ∀ x, x ∈ v.leaves ↔ x ∈ v0.leaves ∨ x = sid := by
        intro x; rw [hp.mem_iff]; simp
      have hnot : sid ∉ v0.leaves := fun hm => hsidnot (views_leaves_sub t v0 hv0 _ hm)
      refine ⟨v, hv, by rw [k2.2.2.2.1]; simp only [affUpd]; rw [k0.2.2.2.1, hb], ?_, ?_⟩
      · rw [hl']; intro x hx; exact (hmem x).mpr (Or.inl hx)
      · intro k
        have hsplit := cnt_split c.apps v.leaves v0.leaves sid k hmem hnot
        have hold := hc.aff.bkt v hv k
        rw [k2.2.2.2.2, hl']
        simp only [affUpd]
        rw [cget_caddAll, k0.2.2.2.2, hb, hsrvcnt k]
        omega
    · rw [habove, hab] at k2
      simp only [Bool.false_eq_true, ↓reduceIte] at k2
      have hl' : v'.leaves = v.leaves := by rw [k2.2.1, k0.2.1, he]
      refine ⟨v, hv, by rw [k2.2.2.2.1, k0.2.2.2.1, hb], by rw [hl']; exact fun _ h => h, ?_⟩
      intro k
      rw [k2.2.2.2.2, k0.2.2.2.2, hb, hl']
      exact ⟨hc.aff.bkt v hv k, Int.le_refl _⟩
  refine ⟨hcap, ⟨?_, ?_⟩, ⟨?_, ?_, ?_⟩, ⟨?_, ?_⟩, hc.shared⟩
  · show t3.names.Nodup
    rw [c1, b1]; exact hnd1
  · intro x
    show x ∈ t3.leaves ↔ _
    rw [c2, b2, a2]
    simp only [List.mem_filter, decide_eq_true_eq]
    constructor
    · intro hx
      have : x ∈ c.tree.leaves := d3.mem_iff.mpr (List.mem_append_left _ hx)
      obtain ⟨y, hy, rfl⟩ := (hc.tree.leaves x).mp this
      exact ⟨y, ⟨hy, fun e => hsidnot (e ▸ hx)⟩, rfl⟩
    · rintro ⟨y, ⟨hy, hne⟩, rfl⟩
      have : y.id ∈ c.tree.leaves := (hc.tree.leaves y.id).mpr ⟨y, hy, rfl⟩
      rcases List.mem_append.mp (d3.mem_iff.mp this) with h | h
      · exact h
      · exact absurd (List.mem_singleton.mp h) hne
  · intro v' hv' k
    obtain ⟨v, _, _, _, hk⟩ := hview v' hv'
    exact (hk k).1
  · intro x hx k
    simp only [List.mem_filter] at hx
    exact hc.aff.srv x hx.1 k
  · intro x hx
    simp only [List.mem_filter] at hx
    exact hc.aff.keys x hx.1
  · intro v' hv' a ha hon l hl
    obtain ⟨v, hv, hlvl, hsubl, hk⟩ := hview v' hv'
    have hon' : onSrv a v.leaves = true := by
      unfold onSrv at hon ⊢
      cases hsv : a.server with
      | none => rw [hsv] at hon; cases hon
      | some x =>
        rw [hsv] at hon
        simp only [List.contains_eq_mem, decide_eq_true_eq] at hon ⊢
        exact hsubl x hon
    have := hc.lim.bkt v hv a ha hon' l (by rw [← hlvl]; exact hl)
    exact Int.le_trans (hk a.aff).2 this
  · intro x hx a ha hsv l hl
    simp only [List.mem_filter] at hx
    exact hc.lim.srv x hx.1 a ha hsv l hl

/-! ### every operation -/

theorem affAll_step {c c' : Cell} {op : Op} (hc : AffAll c) (hok : OpOk c op) (hlim : LimOk c op)
    (h : step c op = .ok c') : AffAll c' := by
  have hcap := invCap_step hc.cap hok h
  cases op with
  | addBucket bid pid level =>
    simp only [step, addBucket] at h
    split at h
    · simp only [throw_bind, throw_ne_ok] at h
    · rename_i hfree
      simp only [bind_ok, orAbort_ok] at h
      obtain ⟨t, hatt, h⟩ := h
      have hnot : bid ∉ c.tree.names := fun hm => hfree ((nameTaken_iff c bid).mpr hm)
      refine affAll_attach (child := .node _ []) (srvs' := c.srvs) hc hcap hatt ?_ ?_ ?_ ?_ ?_ ?_ h
      · intro x hx; simp only [Tree.names, Tree.namesL, List.mem_singleton] at hx; subst hx; exact hnot
      · simp [Tree.names, Tree.namesL]
      · intro a _ s hs; simp [Tree.leaves, Tree.leavesL] at hs
      · intro v hv
        simp only [Tree.views, Tree.viewsL, List.mem_singleton] at hv
        subst hv
        exact ⟨rfl, fun x hx => by simp [Tree.leavesL] at hx⟩
      · intro s' hs'; exact Or.inl hs'
      · intro x; simp [Tree.leaves, Tree.leavesL]
  | addServer sid pid cap label traits vu =>
    simp only [step, addServer] at h
    split at h
    · simp only [throw_bind, throw_ne_ok] at h
    · rename_i hfree
      split at h
      · simp only [throw_bind, throw_ne_ok] at h
      · simp only [bind_ok, orAbort_ok] at h
        obtain ⟨t, hatt, h⟩ := h
        have hnot : sid ∉ c.tree.names := fun hm => hfree ((nameTaken_iff c sid).mpr hm)
        refine affAll_attach (child := .leaf sid) hc hcap hatt ?_ ?_ ?_ ?_ ?_ ?_ h
        · intro x hx; simp only [Tree.names, List.mem_singleton] at hx; subst hx; exact hnot
        · simp [Tree.names]
        · intro a ha s hs; simp only [Tree.leaves, List.mem_singleton] at hs; subst hs; exact hok.2 a ha
        · intro v hv; simp [Tree.views] at hv
        · intro s' hs'
          rcases List.mem_append.mp hs' with h0 | h0
          · exact Or.inl h0
          · simp only [List.mem_singleton] at h0; subst h0
            exact Or.inr ⟨by simp [Tree.leaves], rfl⟩
        · intro x
          simp only [List.mem_append, List.mem_singleton, Tree.leaves]
          constructor
          · rintro ⟨y, hy | hy, rfl⟩
            · exact Or.inl ⟨y, hy, rfl⟩
            · subst hy; exact Or.inr rfl
          · rintro (⟨y, hy, rfl⟩ | rfl)
            · exact ⟨y, Or.inl hy, rfl⟩
            · exact ⟨_, Or.inr rfl, rfl⟩
  | removeServer sid =>
    simp only [step, removeServer, bind_ok] at h
    obtain ⟨c1, h1, h2⟩ := h
    exact affAll_detach (affAll_reach hc (serverRemoveAll_reach h1)) h2
  | detachServer sid => exact affAll_detach hc h
  | setState sid st since =>
    simp only [step, setState, bind_ok, orAbort_ok] at h
    obtain ⟨s, hs, h⟩ := h
    split at h
    · simp only [pure_ok] at h; subst h; exact hc
    · simp only [bind_ok, orAbort_ok, pure_ok] at h
      obtain ⟨t, ht, rfl⟩ := h
      obtain ⟨e1, e2, e3⟩ := treeCap_views ht
      refine affAll_congr hc hcap e1 e2 ?_ ?_ ?_ (fun _ _ _ => rfl) (fun x hx => ⟨x, hx, rfl, rfl, Or.inl rfl⟩)
      · intro v' hv'
        obtain ⟨v, hv, k⟩ := keepView_of_rel e3 v' hv'
        exact ⟨v, hv, k.2.1, k.2.2.2.1, k.2.2.2.2⟩
      · intro s' hs'
        rcases mem_updSrv.mp hs' with ⟨h0, _⟩ | ⟨rfl, _⟩
        · exact ⟨s', h0, rfl, rfl⟩
        · exact ⟨s, srv?_mem hs, rfl, rfl⟩
      · intro x; exact srvIds_upd (s' := { s with state := st, since := since }) (srv?_mem hs) rfl x
  | setValidUntil sid v =>
    simp only [step, setValidUntil, bind_ok, orAbort_ok, pure_ok] at h
    obtain ⟨s, hs, rfl⟩ := h
    refine affAll_congr hc hcap rfl rfl (fun v' hv' => ⟨v', hv', rfl, rfl, rfl⟩) ?_ ?_ (fun _ _ _ => rfl)
      (fun x hx => ⟨x, hx, rfl, rfl, Or.inl rfl⟩)
    · intro s' hs'
      rcases mem_updSrv.mp hs' with ⟨h0, _⟩ | ⟨rfl, _⟩
      · exact ⟨s', h0, rfl, rfl⟩
      · exact ⟨s, srv?_mem hs, rfl, rfl⟩
    · intro x; exact srvIds_upd (s' := { s with validUntil := v }) (srv?_mem hs) rfl x
  | addApp a =>
    simp only [step, addApp] at h
    split at h
    · simp only [throw_bind, throw_ne_ok] at h
    · simp only [pure_ok] at h
      subst h
      have hzero : ∀ ls k, cnt [a] ls k = 0 := by
        intro ls k; simp [cnt, onSrv, hok.2]
      have hg : ∀ c0 : Cell, c0.tree = c.tree → c0.srvs = c.srvs → c0.apps = c.apps →
          InvCap { c0 with apps := c0.apps ++ [a] } → AffAll { c0 with apps := c0.apps ++ [a] } := by
        intro c0 e1 e2 e3 hcap0
        refine affAll_congr0 hc hcap0 (by simp only; rw [e1]) (by simp only; rw [e1]) ?_ ?_ ?_ ?_ ?_ ?_
        · intro v' hv'; simp only [e1] at hv'; exact ⟨v', hv', rfl, rfl, rfl⟩
        · intro s' hs'; simp only [e2] at hs'; exact ⟨s', hs', rfl, rfl⟩
        · intro x; simp only [e2]
        · intro ls _ k; simp only [e3, cnt_append, hzero, Nat.add_zero]
        · intro x hx y hy hxy
          simp only [e3, List.mem_append, List.mem_singleton] at hx hy
          rcases hx with hx | rfl <;> rcases hy with hy | rfl
          · exact hc.shared x hx y hy hxy
          · exact hlim x hx hxy
          · exact (hlim y hy hxy.symm).symm
          · rfl
        · intro x hx
          simp only [e3, List.mem_append, List.mem_singleton] at hx
          rcases hx with hx | rfl
          · exact Or.inr ⟨x, hx, rfl, rfl, rfl⟩
          · exact Or.inl hok.2
      cases hgp : a.group with
      | none => simp only [hgp] at hcap ⊢; exact hg c rfl rfl rfl hcap
      | some g =>
        simp only [hgp] at hcap ⊢
        exact hg (ensureGroup c g) (by unfold ensureGroup; split <;> rfl) (by simp) (by simp) hcap
  | updateApp aid al prio ret bl =>
    simp only [step, updateApp, bind_ok, orAbort_ok, pure_ok] at h
    obtain ⟨a, ha, rfl⟩ := h
    have hg : ∀ c0 : Cell, c0.tree = c.tree → c0.srvs = c.srvs → c0.apps = c.apps →
        InvCap (c0.setApp { a with alloc := al, prio := prio, retention := ret, blacklisted := bl }) →
        AffAll (c0.setApp { a with alloc := al, prio := prio, retention := ret, blacklisted := bl }) := by
      intro c0 e1 e2 e3 hcap0
      exact affAll_appSame (a' := { a with alloc := al, prio := prio, retention := ret, blacklisted := bl })
        hc hcap0 (app?_mem ha) rfl rfl rfl rfl e1 e2 (by simp only [Cell.setApp, e3])
    exact hg _ (by cases a.group <;> simp) (by cases a.group <;> simp) (by cases a.group <;> simp) hcap
  | removeApp aid =>
    simp only [step, removeApp] at h
    split at h
    · simp only [pure_ok] at h; subst h; exact hc
    · rename_i a ha
      -- common tail: release + filter, given that the app is on no existing server
      have tail : ∀ c1 : Cell, AffAll c1 →
          (∀ x ∈ c1.apps, x.id = aid → ∀ s ∈ c1.srvs, x.server ≠ some s.id) →
          ∀ c2, releaseIdentity c1 aid = .ok c2 →
          InvCap { c2 with apps := c2.apps.filter (fun x => x.id ≠ aid) } →
          AffAll { c2 with apps := c2.apps.filter (fun x => x.id ≠ aid) } := by
        intro c1 hc1 hfree c2 h2 hcap2
        have hc2 : AffAll c2 := affAll_release hc1 h2
        have hkeep : (∀ x ∈ c2.apps, x.id = aid → ∀ s ∈ c2.srvs, x.server ≠ some s.id) := by
          simp only [releaseIdentity, bind_ok, orAbort_ok] at h2
          obtain ⟨a3, ha3, h2⟩ := h2
          split at h2
          · simp only [bind_ok, orAbort_ok, pure_ok] at h2
            obtain ⟨grp, _, rfl⟩ := h2
            intro x hx hxid s hs hcontra
            simp only [Cell.setApp, Cell.setGrp] at hx hs
            rcases (mem_updApp (a' := { a3 with identity := none })).mp hx with ⟨hx, _⟩ | ⟨rfl, _⟩
            · exact hfree x hx hxid s hs hcontra
            · exact hfree a3 (app?_mem ha3) (app?_id ha3) s hs hcontra
          · simp only [pure_ok] at h2; subst h2; exact hfree
        refine affAll_congr hc2 hcap2 rfl rfl (fun v' hv' => ⟨v', hv', rfl, rfl, rfl⟩)
          (fun s' hs' => ⟨s', hs', rfl, rfl⟩) (fun _ => Iff.rfl) ?_ ?_
        · intro ls hls k
          apply cnt_filter
          intro x hx hq
          have hxid : x.id = aid := by simpa using hq
          unfold onSrv
          cases hsv : x.server with
          | none => rfl
          | some sid =>
            simp only [List.contains_eq_mem, decide_eq_false_iff_not]
            intro hm
            obtain ⟨s, hs, hsid⟩ := (hc2.tree.leaves sid).mp (hls sid hm)
            exact hkeep x hx hxid s hs (by rw [hsv, hsid])
        · intro x hx
          simp only [List.mem_filter] at hx
          exact ⟨x, hx.1, rfl, rfl, Or.inl rfl⟩
      split at h
      · rename_i sid hsv
        split at h
        · simp only [bind_ok, pure_ok] at h
          obtain ⟨c1, h1, c2, h2, rfl⟩ := h
          refine tail c1 (affAll_remove hc h1) ?_ c2 h2 hcap
          simp only [serverRemove, bind_ok, orAbort_ok] at h1
          obtain ⟨s, hs, h1⟩ := h1
          split at h1
          · simp only [throw_bind, throw_ne_ok] at h1
          · simp only [bind_ok, orAbort_ok, pure_ok] at h1
            obtain ⟨a2, ha2, t1, _, t2, _, rfl⟩ := h1
            intro x hx hxid s0 _ hcontra
            simp only [Cell.setApp, Cell.setSrv] at hx
            rcases (mem_updApp (a' := { a2 with server := none, evicted := true, unschedule := false, expiry := none })).mp hx with ⟨_, hne⟩ | ⟨rfl, _⟩
            · exact hne (by simp [hxid, app?_id ha2])
            · simp at hcontra
        · rename_i hex
          simp only [bind_ok, pure_ok] at h
          obtain ⟨c1, rfl, c2, h2, rfl⟩ := h
          refine tail c hc ?_ c2 h2 hcap
          intro x hx hxid s hs hcontra
          have hxa : x = a := key_unique (·.id) c.apps hc.cap.appIds x a hx (app?_mem ha) (by rw [hxid, app?_id ha])
          subst hxa
          rw [hsv] at hcontra
          have hsid : s.id = sid := (Option.some.inj hcontra).symm
          apply hex
          have : c.srvs.find? (fun y => y.id = sid) = some s := by
            simpa [hsid] using find?_key_unique (·.id) c.srvs hc.cap.srvIds s hs
          simp [Cell.srv?, this]
      · rename_i hsv
        simp only [bind_ok, pure_ok] at h
        obtain ⟨c1, rfl, c2, h2, rfl⟩ := h
        refine tail c hc ?_ c2 h2 hcap
        intro x hx hxid s hs hcontra
        have hxa : x = a := key_unique (·.id) c.apps hc.cap.appIds x a hx (app?_mem ha) (by rw [hxid, app?_id ha])
        subst hxa
        rw [hsv] at hcontra; cases hcontra
  | setAlloc al info =>
    simp only [step, pure_ok] at h; subst h
    unfold setAlloc; split <;> exact affAll_ext hc rfl rfl rfl
  | configureGroup g n =>
    simp only [step, pure_ok] at h; subst h
    unfold configureGroup; split <;> exact affAll_ext hc rfl rfl rfl
  | removeGroup g =>
    simp only [step, pure_ok] at h; subst h
    unfold removeGroup; split
    · exact hc
    · split <;> exact affAll_ext hc rfl rfl rfl
  | forceIdentity aid k =>
    simp only [step, forceIdentity, bind_ok, orAbort_ok, pure_ok] at h
    obtain ⟨a, ha, g, _, grp, _, rfl⟩ := h
    exact affAll_appSame (a' := { a with identity := some k }) hc hcap (app?_mem ha) rfl rfl rfl rfl rfl rfl rfl
  | serverPut aid sid =>
    simp only [step, bind_ok, pure_ok] at h
    obtain ⟨⟨c1, b⟩, h1, rfl⟩ := h
    exact affAll_put hc h1
  | serverRestore aid sid e =>
    simp only [step, bind_ok, pure_ok] at h
    obtain ⟨⟨c1, b⟩, h1, rfl⟩ := h
    exact affAll_reach hc (serverRestore_reach h1)
  | serverRemoveAll sid => exact affAll_reach hc (serverRemoveAll_reach h)
  | setPrio aid p =>
    simp only [step, bind_ok, orAbort_ok, pure_ok] at h
    obtain ⟨a, ha, rfl⟩ := h
    exact affAll_appSame (a' := { a with prio := p }) hc hcap (app?_mem ha) rfl rfl rfl rfl rfl rfl rfl
  | setBlacklisted aid b =>
    simp only [step, bind_ok, orAbort_ok, pure_ok] at h
    obtain ⟨a, ha, rfl⟩ := h
    exact affAll_appSame (a' := { a with blacklisted := b }) hc hcap (app?_mem ha) rfl rfl rfl rfl rfl rfl rfl
  | setUnschedule aid b =>
    simp only [step, bind_ok, orAbort_ok, pure_ok] at h
    obtain ⟨a, ha, rfl⟩ := h
    exact affAll_appSame (a' := { a with unschedule := b }) hc hcap (app?_mem ha) rfl rfl rfl rfl rfl rfl rfl
  | setRenew aid b =>
    simp only [step, bind_ok, orAbort_ok, pure_ok] at h
    obtain ⟨a, ha, rfl⟩ := h
    exact affAll_appSame (a' := { a with renew := b }) hc hcap (app?_mem ha) rfl rfl rfl rfl rfl rfl rfl
  | tick now => simp only [step, pure_ok] at h; subst h; exact affAll_ext hc rfl rfl rfl
  | schedule qs ch => exact affAll_reach hc (schedule_reach h)

/-- The C04 guards hold along a run. -/
def LimGuards : Cell → List Op → Prop
  | _, [] => True
  | c, op :: ops => LimOk c op ∧ ∀ c', step c op = .ok c' → LimGuards c' ops

theorem affAll_runOps : ∀ (ops : List Op) (c c' : Cell), AffAll c → GuardsHold c ops → LimGuards c ops →
    runOps c ops = .ok c' → AffAll c' := by
  intro ops
  induction ops with
  | nil => intro c c' hc _ _ h; simp only [runOps, pure_ok] at h; subst h; exact hc
  | cons op ops ih =>
    intro c c' hc hg hl h
    simp only [runOps, bind_ok] at h
    obtain ⟨c1, h1, h2⟩ := h
    exact ih c1 c' (affAll_step hc hg.1 hl.1 h1) (hg.2 c1 h1) (hl.2 c1 h1) h2

theorem affAll_init (r l : Nat) : AffAll (Cell.init r l) := by
  refine ⟨invCap_init r l, ⟨by simp [Cell.init, Tree.names, Tree.namesL], ?_⟩, ⟨?_, ?_, ?_⟩, ⟨?_, ?_⟩, ?_⟩
  · intro sid; simp [Cell.init, Tree.leaves, Tree.leavesL]
  · intro v hv k
    simp only [Cell.init, Tree.views, Tree.viewsL, List.mem_singleton] at hv
    subst hv
    simp [Cell.init, cget, cnt]
  · intro s hs; simp [Cell.init] at hs
  · intro s hs; simp [Cell.init] at hs
  · intro v _ a ha; simp [Cell.init] at ha
  · intro s hs; simp [Cell.init] at hs
  · intro a ha; simp [Cell.init] at ha

theorem LimOkB_sound {c : Cell} {op : Op} (h : LimOkB c op = true) : LimOk c op := by
  cases op <;> simp only [LimOk] <;> try trivial
  simp only [LimOkB, List.all_eq_true, Bool.or_eq_true, bne_iff_ne, ne_eq, decide_eq_true_eq] at h
  intro x hx e
  rcases h x hx with h | h
  · exact absurd e h
  · exact h

def limGuardsB : Cell → List Op → Bool
  | _, [] => true
  | c, op :: ops => LimOkB c op && (match step c op with
      | .ok c' => limGuardsB c' ops
      | .error _ => true)

theorem limGuardsB_sound : ∀ (ops : List Op) (c : Cell), limGuardsB c ops = true → LimGuards c ops := by
  intro ops
  induction ops with
  | nil => intro c _; trivial
  | cons op ops ih =>
    intro c h
    simp only [limGuardsB, Bool.and_eq_true] at h
    refine ⟨LimOkB_sound h.1, ?_⟩
    intro c' hc'
    have h2 := h.2
    rw [hc'] at h2
    exact ih c' h2

end TmVerif.Sched
