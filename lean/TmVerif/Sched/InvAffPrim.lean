/-
  C04 — every primitive transition of the scheduler preserves the affinity invariants.
-/
import TmVerif.Sched.InvAff

namespace TmVerif.Sched

/-- Views after `increment/decrement_affinity` + capacity adjustment from server `sid`. -/
theorem affcap_views {srvs : List Srv} {t t1 t2 : Tree} {sid k : Nat} {d : Int} {m : CapMsg}
    (hnd : t.names.Nodup) (h1 : treeAff t sid false [(k, 1)] d = some t1)
    (h2 : treeCap srvs t1 sid false m = some t2) :
    t2.names = t.names ∧ t2.leaves = t.leaves ∧
    ∀ v' ∈ t2.views, ∃ v ∈ t.views, v'.names = v.names ∧ v'.leaves = v.leaves ∧ v'.b.level = v.b.level ∧
      v'.b.id = v.b.id ∧ v'.b.aff = if v.names.contains sid then cadd v.b.aff k d else v.b.aff := by
  obtain ⟨a1, a2, _, a4⟩ := treeAff_views hnd h1
  obtain ⟨b1, b2, b3⟩ := treeCap_views h2
  refine ⟨b1.trans a1, b2.trans a2, ?_⟩
  intro v' hv'
  obtain ⟨v1, hv1, hsame, hn, hl⟩ := b3.mem_right v' hv'
  rw [a4, List.mem_map] at hv1
  obtain ⟨v, hv, rfl⟩ := hv1
  refine ⟨v, hv, ?_⟩
  unfold NView.upd NView.above at hsame hn hl
  simp only [Bool.false_and, Bool.or_false] at hsame hn hl
  by_cases hc : v.names.contains sid = true
  · simp only [hc, ↓reduceIte] at hsame hn hl ⊢
    exact ⟨hn, hl, hsame.2.1, hsame.1, by rw [hsame.2.2]; simp [affUpd, caddAll_one]⟩
  · simp only [hc, Bool.false_eq_true, ↓reduceIte] at hsame hn hl ⊢
    exact ⟨hn, hl, hsame.2.1, hsame.1, hsame.2.2⟩

theorem srvIds_upd {srvs : List Srv} {s s' : Srv} (hs : s ∈ srvs) (hid : s'.id = s.id) (x : Nat) :
    (∃ y ∈ updSrv srvs s', y.id = x) ↔ ∃ y ∈ srvs, y.id = x := by
  constructor
  · rintro ⟨y, hy, rfl⟩
    rcases mem_updSrv.mp hy with ⟨hy, _⟩ | ⟨rfl, _⟩
    · exact ⟨y, hy, rfl⟩
    · exact ⟨s, hs, hid.symm⟩
  · rintro ⟨y, hy, rfl⟩
    by_cases e : y.id = s'.id
    · exact ⟨s', mem_updSrv.mpr (Or.inr ⟨rfl, y, hy, e⟩), e.symm⟩
    · exact ⟨y, mem_updSrv.mpr (Or.inl ⟨hy, e⟩), rfl⟩

/-- In a well-formed tree, a server id is among a view's names iff it is among its leaves. -/
theorem names_iff_leaves {c : Cell} (ht : TreeOk c) {s : Srv} (hs : s ∈ c.srvs) {v : NView} (hv : v ∈ c.tree.views) :
    v.names.contains s.id = v.leaves.contains s.id := by
  simp only [List.contains_eq_mem]
  apply decide_eq_decide.mpr
  constructor
  · intro h
    exact views_leaf_names c.tree ht.names v hv _ h ((ht.leaves s.id).mpr ⟨s, hs, rfl⟩)
  · intro h
    exact (views_inside c.tree v hv).2.2 _ h

/-- Shared core of `put` and `remove`: app `a` becomes `a'`, server `s` becomes `s'` with counter
    `cadd s.aff a.aff d`, the tree is adjusted by `d` from `s` upwards, and the placement of the app on
    any server list changes by `d` exactly when the list contains `s`. -/
theorem affAll_shift {c c' : Cell} {a a' : App} {s s' : Srv} {t1 : Tree} {d : Int} {m : CapMsg}
    (hc : AffAll c) (ha : a ∈ c.apps) (hs : s ∈ c.srvs)
    (hid : a'.id = a.id) (haff : a'.aff = a.aff) (hlim : a'.limits = a.limits)
    (hsid : s'.id = s.id) (hsaff : s'.aff = cadd s.aff a.aff d)
    (happs : c'.apps = updApp c.apps a') (hsrvs : c'.srvs = updSrv c.srvs s')
    (h1 : treeAff c.tree s.id false [(a.aff, 1)] d = some t1)
    (h2 : treeCap c'.srvs t1 s.id false m = some c'.tree)
    (hcount : ∀ ls : List Nat, ((if onSrv a' ls then 1 else 0 : Int) - (if onSrv a ls then 1 else 0))
        = if ls.contains s.id then d else 0)
    (hcap : InvCap c')
    (hcheck : d = 1 → ∀ l lvl cur, ((lvl = SERVER_LEVEL ∧ cur = cget s.aff a.aff) ∨
        ∃ v ∈ c.tree.views, v.names.contains s.id = true ∧ lvl = v.b.level ∧ cur = cget v.b.aff a.aff) →
        a.limitAt lvl = some l → cur < (l : Int))
    (hd : d = 1 ∨ d = -1) (hplaced : d = -1 → a'.server = none) (hun : d = 1 → a.server = none) :
    AffAll c' := by
  obtain ⟨hn, hl, hviews⟩ := affcap_views hc.tree.names h1 h2
  have hcnt : ∀ ls k, (cnt c'.apps ls k : Int) = cnt c.apps ls k + (if a.aff = k ∧ ls.contains s.id then d else 0) := by
    intro ls k
    have h0 := cnt_upd hc.cap.appIds ha hid ls k
    rw [← happs, haff] at h0
    have h3 := hcount ls
    by_cases hk : a.aff = k
    · simp only [hk, beq_self_eq_true, Bool.true_and, true_and] at h0 ⊢
      split at h3 <;> split at h3 <;> split at h3 <;> simp_all <;> omega
    · have : (a.aff == k) = false := by simpa using hk
      simp only [this, Bool.false_and, Bool.false_eq_true, ↓reduceIte, Nat.add_zero, hk, false_and] at h0 ⊢
      omega
  have hshared : SharedLim c'.apps := by
    intro x hx y hy hxy
    have orig : ∀ z ∈ c'.apps, ∃ z0 ∈ c.apps, z.aff = z0.aff ∧ z.limits = z0.limits := by
      intro z hz
      rw [happs] at hz
      rcases mem_updApp.mp hz with ⟨hz, _⟩ | ⟨rfl, _⟩
      · exact ⟨z, hz, rfl, rfl⟩
      · exact ⟨a, ha, haff, hlim⟩
    obtain ⟨x0, hx0, e1, e2⟩ := orig x hx
    obtain ⟨y0, hy0, e3, e4⟩ := orig y hy
    rw [e2, e4]
    exact hc.shared x0 hx0 y0 hy0 (by rw [← e1, ← e3]; exact hxy)
  refine ⟨hcap, ⟨by rw [hn]; exact hc.tree.names, ?_⟩, ⟨?_, ?_, ?_⟩, ⟨?_, ?_⟩, hshared⟩
  · intro x
    rw [hl, hc.tree.leaves, hsrvs]
    exact (srvIds_upd hs hsid x).symm
  · -- bucket counters
    intro v' hv' k
    obtain ⟨v, hv, _, hvl, _, _, hvaff⟩ := hviews v' hv'
    rw [hvl, hcnt, hvaff, ← hc.aff.bkt v hv k, names_iff_leaves hc.tree hs hv]
    by_cases hin : v.leaves.contains s.id = true
    · simp only [hin, ↓reduceIte, cget_cadd, and_true]
    · simp only [hin, Bool.false_eq_true, ↓reduceIte, and_false, Int.add_zero]
  · -- server counters
    intro x hx k
    rw [hsrvs] at hx
    rcases mem_updSrv.mp hx with ⟨hx, hne⟩ | ⟨rfl, _⟩
    · rw [hcnt, hc.aff.srv x hx k]
      have : ¬ (s.id = x.id) := fun e => hne (by rw [hsid]; exact e.symm)
      simp [this]
    · rw [hcnt, hsaff, cget_cadd, hc.aff.srv s hs k, hsid]
      simp
  · intro x hx
    rw [hsrvs] at hx
    rcases mem_updSrv.mp hx with ⟨hx, _⟩ | ⟨rfl, _⟩
    · exact hc.aff.keys x hx
    · rw [hsaff]; exact cadd_keys_nodup _ _ _ (hc.aff.keys s hs)
  · -- bucket limits
    intro v' hv' x hx hon l hlx
    obtain ⟨v, hv, _, hvl, hlvl, _, hvaff⟩ := hviews v' hv'
    rw [hvl] at hon
    rw [hlvl] at hlx
    rw [hvaff]
    -- the original record of x
    have hx' := hx
    rw [happs] at hx'
    by_cases hupd : v.names.contains s.id = true ∧ x.aff = a.aff
    · obtain ⟨hin, hxa⟩ := hupd
      simp only [hin, ↓reduceIte, cget_cadd, hxa]
      rcases hd with rfl | rfl
      · -- put: the check guarantees head-room
        have hxl : x.limits = a.limits := by
          have ha' : a' ∈ c'.apps := by rw [happs]; exact mem_updApp.mpr (Or.inr ⟨rfl, a, ha, hid.symm⟩)
          rw [← hlim]; exact hshared x hx a' ha' (by rw [hxa, haff])
        have hla : a.limitAt v.b.level = some l := by unfold App.limitAt at hlx ⊢; rw [← hxl]; exact hlx
        have := hcheck rfl l v.b.level (cget v.b.aff a.aff) (Or.inr ⟨v, hv, hin, rfl, rfl⟩) hla
        simp; omega
      · -- remove: the count only drops
        rcases mem_updApp.mp hx' with ⟨hx0, hne⟩ | ⟨rfl, _⟩
        · have := hc.lim.bkt v hv x hx0 hon l hlx
          rw [hxa] at this
          simp; omega
        · have := hplaced rfl
          simp [onSrv, this] at hon
    · have hsame : (if v.names.contains s.id = true then cadd v.b.aff a.aff d else v.b.aff) = v.b.aff ∨
          cget (if v.names.contains s.id = true then cadd v.b.aff a.aff d else v.b.aff) x.aff = cget v.b.aff x.aff := by
        by_cases hin : v.names.contains s.id = true
        · right
          have : x.aff ≠ a.aff := fun e => hupd ⟨hin, e⟩
          simp only [hin, ↓reduceIte, cget_cadd]
          have : ¬ a.aff = x.aff := fun e => this e.symm
          simp [this]
        · left; rw [if_neg hin]
      have hval : cget (if v.names.contains s.id = true then cadd v.b.aff a.aff d else v.b.aff) x.aff = cget v.b.aff x.aff := by
        rcases hsame with e | e
        · rw [e]
        · exact e
      rw [hval]
      rcases mem_updApp.mp hx' with ⟨hx0, hne⟩ | ⟨rfl, _⟩
      · exact hc.lim.bkt v hv x hx0 hon l hlx
      · -- x is the updated record: either removed (not placed) or put below an updated view
        rcases hd with rfl | rfl
        · exfalso
          have h3 := hcount v.leaves
          have hoff : onSrv a v.leaves = false := by simp [onSrv, hun rfl]
          rw [hon, hoff] at h3
          have hin : v.leaves.contains s.id = true := by
            by_cases hin : v.leaves.contains s.id = true
            · exact hin
            · exfalso; apply hin; simp only [List.contains_eq_mem, decide_eq_true_eq]
              by_cases hm : s.id ∈ v.leaves
              · exact hm
              · simp [hm] at h3
          rw [← names_iff_leaves hc.tree hs hv] at hin
          exact hupd ⟨hin, haff⟩
        · have := hplaced rfl
          simp [onSrv, this] at hon
  · -- server limits
    intro x hx y hy hys l hly
    rw [hsrvs] at hx
    have hy' := hy
    rw [happs] at hy'
    rcases mem_updSrv.mp hx with ⟨hx0, hne⟩ | ⟨rfl, _⟩
    · -- another server: nothing changed for it
      rcases mem_updApp.mp hy' with ⟨hy0, _⟩ | ⟨rfl, _⟩
      · exact hc.lim.srv x hx0 y hy0 hys l hly
      · exfalso
        have h3 := hcount [x.id]
        have e1 : onSrv y [x.id] = true := by simp [onSrv, hys]
        have e2 : ([x.id].contains s.id) = false := by
          simp only [List.contains_eq_mem, List.mem_singleton, decide_eq_false_iff_not]
          intro e; exact hne (by rw [hsid]; exact e.symm)
        rw [e1, e2] at h3
        rcases hd with rfl | rfl
        · have hoff : onSrv a [x.id] = false := by simp [onSrv, hun rfl]
          rw [hoff] at h3; simp at h3
        · have := hplaced rfl
          rw [this] at hys; cases hys
    · rw [hsaff, cget_cadd]
      rw [hsid] at hys
      by_cases hya : y.aff = a.aff
      · simp only [hya, ↓reduceIte]
        rcases hd with rfl | rfl
        · have hyl : y.limits = a.limits := by
            have ha' : a' ∈ c'.apps := by rw [happs]; exact mem_updApp.mpr (Or.inr ⟨rfl, a, ha, hid.symm⟩)
            rw [← hlim]; exact hshared y hy a' ha' (by rw [hya, haff])
          have hla : a.limitAt SERVER_LEVEL = some l := by unfold App.limitAt at hly ⊢; rw [← hyl]; exact hly
          have := hcheck rfl l SERVER_LEVEL (cget s.aff a.aff) (Or.inl ⟨rfl, rfl⟩) hla
          omega
        · rcases mem_updApp.mp hy' with ⟨hy0, _⟩ | ⟨rfl, _⟩
          · have := hc.lim.srv s hs y hy0 hys l hly
            rw [hya] at this
            omega
          · have := hplaced rfl
            rw [this] at hys; cases hys
      · have : ¬ a.aff = y.aff := fun e => hya e.symm
        simp only [this, ↓reduceIte, Int.add_zero]
        rcases mem_updApp.mp hy' with ⟨hy0, _⟩ | ⟨rfl, _⟩
        · exact hc.lim.srv s hs y hy0 hys l hly
        · exact absurd haff hya

/-! ### put / remove -/

theorem limitAt_putApp (a : App) (l0 : Bool) (lvl : Nat) : (putApp a l0).limitAt lvl = a.limitAt lvl := by
  unfold putApp; split <;> rfl

theorem underLimit_lt {a : App} {lvl l : Nat} {cur : Int} (h : a.underLimit lvl cur = true)
    (hl : a.limitAt lvl = some l) : cur < (l : Int) := by
  unfold App.underLimit at h
  rw [hl] at h
  simpa using h

theorem affAll_put {c c' : Cell} {aid sid : Nat} {l0 b : Bool} (hc : AffAll c)
    (h : serverPut c aid sid l0 = .ok (c', b)) : AffAll c' := by
  have hcap' := invCap_put hc.cap h
  rcases serverPut_shape h with ⟨_, rfl⟩ | ⟨rfl, a, s, anc, ha, hs, hnone, hnotin, hanc, hchk, happs, hsrvs, _, _, _⟩
  · exact hc
  · obtain ⟨a2, t1, ha2, h1, m, h2⟩ := serverPut_tree h
    rw [ha] at ha2; cases ha2
    have hsid : s.id = sid := srv?_id hs
    subst hsid
    refine affAll_shift (a := a) (a' := putRec c a s.id l0) (s := s) (s' := putSrv s a) (d := 1) hc
      (app?_mem ha) (srv?_mem hs) rfl rfl rfl rfl rfl happs hsrvs h1 h2 ?_ hcap' ?_ (Or.inl rfl)
      (by intro e; cases e) (fun _ => hnone)
    · intro ls
      simp [onSrv, hnone, putRec]
    · intro _ l lvl cur hwhere hl
      simp only [srvCheck, Bool.and_eq_true, List.all_eq_true] at hchk
      rcases hwhere with ⟨rfl, rfl⟩ | ⟨v, hv, hin, rfl, rfl⟩
      · have := hchk.1.1.2
        refine underLimit_lt (a := putApp a l0) ?_ (by rw [limitAt_putApp]; exact hl)
        have e : (c.putCtx (putApp a l0)).app = putApp a l0 := rfl
        rw [e] at this
        have e2 : (putApp a l0).aff = a.aff := by unfold putApp; split <;> rfl
        rw [e2] at this
        exact this
      · have hmem : v.b ∈ anc := path_covers c.tree s.id anc hc.tree.names hanc v hv (by simpa using hin)
        have := hchk.2 v.b hmem
        refine underLimit_lt (a := putApp a l0) ?_ (by rw [limitAt_putApp]; exact hl)
        have e : (c.putCtx (putApp a l0)).app = putApp a l0 := rfl
        rw [e] at this
        have e2 : (putApp a l0).aff = a.aff := by unfold putApp; split <;> rfl
        rw [e2] at this
        exact this

theorem affAll_remove {c c' : Cell} {sid aid : Nat} (hc : AffAll c)
    (h : serverRemove c sid aid = .ok c') : AffAll c' := by
  have hcap' := invCap_remove hc.cap h
  obtain ⟨a, s, ha, hs, hin, happs, hsrvs, _, _, _⟩ := serverRemove_shape h
  obtain ⟨a2, t1, ha2, h1, m, h2⟩ := serverRemove_tree h
  rw [ha] at ha2; cases ha2
  have hsid : s.id = sid := srv?_id hs
  subst hsid
  -- the two views agree: the app's server field names this server
  obtain ⟨b, hb, hbid, hbs⟩ := (hc.cap.views s (srv?_mem hs) aid).mp hin
  have hba : b = a := key_unique (·.id) c.apps hc.cap.appIds b a hb (app?_mem ha) (by rw [hbid, app?_id ha])
  subst hba
  refine affAll_shift (a := b) (a' := removeRec b) (s := s) (s' := removeSrv s b) (d := -1) hc
    (app?_mem ha) (srv?_mem hs) rfl rfl rfl rfl rfl happs hsrvs h1 h2 ?_ hcap' (by intro e; cases e) (Or.inr rfl)
    (fun _ => rfl) (by intro e; cases e)
  intro ls
  simp only [onSrv, hbs, removeRec, List.contains_eq_mem, decide_eq_true_eq]
  by_cases hm : s.id ∈ ls <;> simp [hm]

/-! ### changes that do not touch placements or counters -/

theorem affAll_congr0 {c c' : Cell} (hc : AffAll c) (hcap : InvCap c')
    (hn : c'.tree.names = c.tree.names) (hl : c'.tree.leaves = c.tree.leaves)
    (hv : ∀ v' ∈ c'.tree.views, ∃ v ∈ c.tree.views, v'.leaves = v.leaves ∧ v'.b.level = v.b.level ∧ v'.b.aff = v.b.aff)
    (hsrvs : ∀ s' ∈ c'.srvs, ∃ s ∈ c.srvs, s'.id = s.id ∧ s'.aff = s.aff)
    (hids : ∀ x, (∃ s ∈ c'.srvs, s.id = x) ↔ ∃ s ∈ c.srvs, s.id = x)
    (hcnt : ∀ ls : List Nat, (∀ x ∈ ls, x ∈ c.tree.leaves) → ∀ k, cnt c'.apps ls k = cnt c.apps ls k)
    (hshared : SharedLim c'.apps)
    (horig : ∀ x ∈ c'.apps, x.server = none ∨ ∃ x0 ∈ c.apps, x.aff = x0.aff ∧ x.limits = x0.limits ∧
      x.server = x0.server) : AffAll c' := by
  have hleafS : ∀ s ∈ c.srvs, ∀ x ∈ [s.id], x ∈ c.tree.leaves := by
    intro s hs x hx
    simp only [List.mem_singleton] at hx
    subst hx
    exact (hc.tree.leaves s.id).mpr ⟨s, hs, rfl⟩
  refine ⟨hcap, ⟨by rw [hn]; exact hc.tree.names, ?_⟩, ⟨?_, ?_, ?_⟩, ⟨?_, ?_⟩, ?_⟩
  · intro x; rw [hl, hc.tree.leaves, hids]
  · intro v' hv' k
    obtain ⟨v, hv0, e1, _, e3⟩ := hv v' hv'
    rw [e1, e3, hcnt v.leaves (views_leaves_sub c.tree v hv0) k]
    exact hc.aff.bkt v hv0 k
  · intro s' hs' k
    obtain ⟨s, hs, e1, e2⟩ := hsrvs s' hs'
    rw [e1, e2, hcnt [s.id] (hleafS s hs) k]
    exact hc.aff.srv s hs k
  · intro s' hs'
    obtain ⟨s, hs, _, e2⟩ := hsrvs s' hs'
    rw [e2]; exact hc.aff.keys s hs
  · intro v' hv' x hx hon l hlx
    obtain ⟨v, hv0, e1, e2, e3⟩ := hv v' hv'
    have hsome : x.server ≠ none := by intro f3; simp [onSrv, f3] at hon
    obtain ⟨x0, hx0, f1, f2, hsv⟩ := (horig x hx).resolve_left hsome
    rw [e3, f1]
    refine hc.lim.bkt v hv0 x0 hx0 ?_ l ?_
    · rw [← e1]; unfold onSrv at hon ⊢; rw [← hsv]; exact hon
    · rw [← e2]; unfold App.limitAt at hlx ⊢; rw [← f2]; exact hlx
  · intro s' hs' x hx hxs l hlx
    obtain ⟨s, hs, e1, e2⟩ := hsrvs s' hs'
    have hsome : x.server ≠ none := by intro f3; rw [f3] at hxs; cases hxs
    obtain ⟨x0, hx0, f1, f2, hsv⟩ := (horig x hx).resolve_left hsome
    rw [e2, f1]
    refine hc.lim.srv s hs x0 hx0 (by rw [← hsv, hxs, e1]) l ?_
    unfold App.limitAt at hlx ⊢; rw [← f2]; exact hlx
  · exact hshared

theorem affAll_congr {c c' : Cell} (hc : AffAll c) (hcap : InvCap c')
    (hn : c'.tree.names = c.tree.names) (hl : c'.tree.leaves = c.tree.leaves)
    (hv : ∀ v' ∈ c'.tree.views, ∃ v ∈ c.tree.views, v'.leaves = v.leaves ∧ v'.b.level = v.b.level ∧ v'.b.aff = v.b.aff)
    (hsrvs : ∀ s' ∈ c'.srvs, ∃ s ∈ c.srvs, s'.id = s.id ∧ s'.aff = s.aff)
    (hids : ∀ x, (∃ s ∈ c'.srvs, s.id = x) ↔ ∃ s ∈ c.srvs, s.id = x)
    (hcnt : ∀ ls : List Nat, (∀ x ∈ ls, x ∈ c.tree.leaves) → ∀ k, cnt c'.apps ls k = cnt c.apps ls k)
    (horig : ∀ x ∈ c'.apps, ∃ x0 ∈ c.apps, x.aff = x0.aff ∧ x.limits = x0.limits ∧
      (x.server = x0.server ∨ x.server = none)) : AffAll c' := by
  refine affAll_congr0 hc hcap hn hl hv hsrvs hids hcnt ?_ ?_
  · intro x hx y hy hxy
    obtain ⟨x0, hx0, f1, f2, _⟩ := horig x hx
    obtain ⟨y0, hy0, g1, g2, _⟩ := horig y hy
    rw [f2, g2]
    exact hc.shared x0 hx0 y0 hy0 (by rw [← f1, ← g1]; exact hxy)
  · intro x hx
    obtain ⟨x0, hx0, f1, f2, f3⟩ := horig x hx
    rcases f3 with f3 | f3
    · exact Or.inr ⟨x0, hx0, f1, f2, f3⟩
    · exact Or.inl f3

/-- Replacing one app record without touching affinity, limits or placement. -/
theorem affAll_appSame {c c' : Cell} (hc : AffAll c) (hcap : InvCap c') {a a' : App} (ha : a ∈ c.apps)
    (hid : a'.id = a.id) (haff : a'.aff = a.aff) (hlim : a'.limits = a.limits) (hsv : a'.server = a.server)
    (htree : c'.tree = c.tree) (hsrvs : c'.srvs = c.srvs) (happs : c'.apps = updApp c.apps a') : AffAll c' := by
  refine affAll_congr hc hcap (by rw [htree]) (by rw [htree]) ?_ ?_ (by intro x; rw [hsrvs]) ?_ ?_
  · intro v' hv'; rw [htree] at hv'; exact ⟨v', hv', rfl, rfl, rfl⟩
  · intro s' hs'; rw [hsrvs] at hs'; exact ⟨s', hs', rfl, rfl⟩
  · intro ls _ k; rw [happs]; exact cnt_upd_same hc.cap.appIds ha hid haff hsv ls k
  · intro x hx
    rw [happs] at hx
    rcases mem_updApp.mp hx with ⟨hx, _⟩ | ⟨rfl, _⟩
    · exact ⟨x, hx, rfl, rfl, Or.inl rfl⟩
    · exact ⟨a, ha, haff, hlim, Or.inl hsv⟩

theorem affAll_setApp {c : Cell} (hc : AffAll c) {a a' : App} (ha : c.app? a.id = some a)
    (hid : a'.id = a.id) (haff : a'.aff = a.aff) (hlim : a'.limits = a.limits) (hsv : a'.server = a.server)
    (hd : a'.demand = a.demand) : AffAll (c.setApp a') :=
  affAll_appSame hc (invCap_appSame hc.cap ha hid hsv hd) (app?_mem ha) hid haff hlim hsv rfl rfl rfl

theorem affAll_release {c c' : Cell} {aid : Nat} (hc : AffAll c) (h : releaseIdentity c aid = .ok c') : AffAll c' := by
  have hcap := invCap_release hc.cap h
  simp only [releaseIdentity, bind_ok, orAbort_ok] at h
  obtain ⟨a, ha, h⟩ := h
  split at h
  · simp only [bind_ok, orAbort_ok, pure_ok] at h
    obtain ⟨grp, _, rfl⟩ := h
    exact affAll_appSame (a' := { a with identity := none }) hc hcap (app?_mem ha) rfl rfl rfl rfl rfl rfl rfl
  · simp only [pure_ok] at h; subst h; exact hc

theorem affAll_acquire {c c' : Cell} {aid : Nat} {ch ch' : List Nat} {b : Bool} (hc : AffAll c)
    (h : acquireIdentity c aid ch = .ok (c', b, ch')) : AffAll c' := by
  have hcap := invCap_acquire hc.cap h
  simp only [acquireIdentity, bind_ok, orAbort_ok] at h
  obtain ⟨a, ha, h⟩ := h
  split at h
  · simp only [pure_ok, Prod.mk.injEq] at h; obtain ⟨rfl, _⟩ := h; exact hc
  · split at h
    · simp only [pure_ok, Prod.mk.injEq] at h; obtain ⟨rfl, _⟩ := h; exact hc
    · simp only [bind_ok, orAbort_ok] at h
      obtain ⟨grp, _, h⟩ := h
      split at h
      · simp only [pure_ok, Prod.mk.injEq] at h; obtain ⟨rfl, _⟩ := h; exact hc
      · split at h
        · simp only [throw_ne_ok] at h
        · split at h
          · simp only [throw_bind, throw_ne_ok] at h
          · simp only [pure_ok, Prod.mk.injEq] at h
            obtain ⟨rfl, _⟩ := h
            exact affAll_appSame (a' := { a with identity := some _ }) hc hcap (app?_mem ha) rfl rfl rfl rfl rfl rfl rfl

/-- Every (labelled) primitive transition preserves the C04 invariants. -/
theorem affAll_lprim {c c' : Cell} {lab : Lab} (hc : AffAll c) (hp : LPrim lab c c') : AffAll c' := by
  cases hp with
  | put h => exact affAll_put hc h
  | remove h => exact affAll_remove hc h
  | release h => exact affAll_release hc h
  | acquire h => exact affAll_acquire hc h
  | appMeta ha hid hsv _ _ hd haff hlim _ _ _ _ _ _ _ _ _ _ => exact affAll_setApp hc ha hid haff hlim hsv hd
  | setRenew ha => exact affAll_setApp hc ha rfl rfl rfl rfl rfl
  | ghost ha => exact affAll_setApp hc ha rfl rfl rfl rfl rfl
  | forgetIdentity ha _ _ _ _ => exact affAll_setApp hc ha rfl rfl rfl rfl rfl
  | @dropDangling _ a sid ha hon hgone =>
    have hcap := invCap_dropDangling hc.cap ha hon hgone
    refine affAll_congr hc hcap rfl rfl (fun v' hv' => ⟨v', hv', rfl, rfl, rfl⟩)
      (fun s' hs' => ⟨s', hs', rfl, rfl⟩) (fun _ => Iff.rfl) ?_ ?_
    · intro ls hls k
      have h0 := cnt_upd hc.cap.appIds (app?_mem ha) (a' := { a with server := none, evicted := true }) rfl ls k
      have hoff : onSrv a ls = false := by
        simp only [onSrv, hon, List.contains_eq_mem, decide_eq_false_iff_not]
        intro hm
        obtain ⟨s, hs, hsid⟩ := (hc.tree.leaves sid).mp (hls sid hm)
        unfold Cell.srv? at hgone
        have := List.find?_eq_none.mp hgone s hs
        simp [hsid] at this
      rw [hoff] at h0
      simp only [Bool.and_false, Bool.false_eq_true, ↓reduceIte, onSrv] at h0
      exact h0
    · intro x hx
      rcases mem_updApp.mp hx with ⟨hx, _⟩ | ⟨rfl, _⟩
      · exact ⟨x, hx, rfl, rfl, Or.inl rfl⟩
      · exact ⟨a, app?_mem ha, rfl, rfl, Or.inr rfl⟩
  | @tree _ t hsk _ =>
    obtain ⟨e1, e2, e3⟩ := views_of_skel hsk
    refine affAll_congr hc hc.cap e1 e2 ?_ (fun s' hs' => ⟨s', hs', rfl, rfl⟩) (fun _ => Iff.rfl)
      (fun _ _ _ => rfl) (fun x hx => ⟨x, hx, rfl, rfl, Or.inl rfl⟩)
    intro v' hv'
    obtain ⟨v, hv, hb, _, hl⟩ := e3.mem_right v' hv'
    refine ⟨v, hv, hl, ?_, ?_⟩
    · have := congrArg Bkt.level hb; exact this
    · have := congrArg Bkt.aff hb; exact this
  | clearEv =>
    have hcap : InvCap { c with apps := c.apps.map (fun a => { a with evFrom := none }) } :=
      core_mapSame hc.cap _ (fun _ => rfl) (fun _ => rfl) (fun _ => rfl)
    refine affAll_congr hc hcap rfl rfl (fun v' hv' => ⟨v', hv', rfl, rfl, rfl⟩)
      (fun s' hs' => ⟨s', hs', rfl, rfl⟩) (fun _ => Iff.rfl) ?_ ?_
    · intro ls _ k
      exact cnt_map_same c.apps (fun a => { a with evFrom := none }) (fun _ => rfl) (fun _ => rfl) ls k
    · intro x hx
      simp only [List.mem_map] at hx
      obtain ⟨x0, hx0, rfl⟩ := hx
      exact ⟨x0, hx0, rfl, rfl, Or.inl rfl⟩

theorem affAll_reach {c c' : Cell} (hc : AffAll c) (h : Reach c c') : AffAll c' :=
  h.induct (fun _ _ hc hp => by obtain ⟨lab, hp⟩ := hp; exact affAll_lprim hc hp) hc

end TmVerif.Sched
