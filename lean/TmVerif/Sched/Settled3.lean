/-
  C05, end-of-cycle clauses, part 3: loop, cycle, pre-passes, and the final statement.
-/
import TmVerif.Sched.Settled2

namespace TmVerif.Sched

theorem takeWhile_stop {α} (p : α → Bool) (l r : List α) (x : α) (hl : ∀ y ∈ l, p y = true) (hx : p x = false) :
    (l ++ x :: r).takeWhile p = l := by
  induction l with
  | nil => simp [List.takeWhile, hx]
  | cons a t ih =>
    have ha : p a = true := hl a List.mem_cons_self
    simp only [List.cons_append, List.takeWhile_cons, ha, ↓reduceIte]
    rw [ih (fun y hy => hl y (List.mem_cons_of_mem _ hy))]

/-- For every entry of the remaining queue, the apps scanned by the eviction loop lie behind it. -/
def AfterOk (revq : List Nat) : List (Nat × Bool) → Prop
  | [] => True
  | q :: rest => (∀ y ∈ revq.takeWhile (· ≠ q.1), y ∈ rest.map (·.1)) ∧ AfterOk revq rest

theorem afterOk_of_nodup (full : List (Nat × Bool)) (hnd : (full.map (·.1)).Nodup) :
    ∀ (l1 l2 : List (Nat × Bool)), full = l1 ++ l2 → AfterOk (full.map (·.1)).reverse l2 := by
  intro l1 l2
  induction l2 generalizing l1 with
  | nil => intro _; trivial
  | cons q rest ih =>
    intro hfull
    refine ⟨?_, ih (l1 ++ [q]) (by rw [hfull]; simp)⟩
    intro y hy
    have hrev : (full.map (·.1)).reverse = (rest.map (·.1)).reverse ++ q.1 :: (l1.map (·.1)).reverse := by
      rw [hfull]; simp
    rw [hrev] at hy
    have hq : q.1 ∉ rest.map (·.1) := by
      rw [hfull] at hnd
      simp only [List.map_append, List.map_cons] at hnd
      have := (List.nodup_append.mp hnd).2.1
      exact (List.nodup_cons.mp this).1
    rw [takeWhile_stop (fun x => decide (x ≠ q.1)) _ _ q.1
      (by intro z hz; simp only [decide_eq_true_eq]; intro e; exact hq (by rw [← e]; exact List.mem_reverse.mp hz))
      (by simp)] at hy
    exact List.mem_reverse.mp hy

theorem settledRec_of_waiting {a : App} (h : a.blacklisted = true → a.server = none ∧ (a.group.isSome = true → a.identity = none))
    (hbl : a.blacklisted = true) : SettledRec a := by
  obtain ⟨h1, h2⟩ := h hbl
  exact ⟨fun hs => (by rw [h1] at hs; cases hs), fun _ hg => h2 hg⟩

/-- The loop over one queue settles every app of the queue and disturbs no settled app outside. -/
theorem loop_settled {revq : List Nat} {qs : List (Nat × Bool)} {c c' : Cell} (hl : Loop revq qs c c') :
    AfterOk revq qs → (qs.map (·.1)).Nodup →
    ∀ (P : Nat → Prop), (∀ y, P y → y ∉ qs.map (·.1)) → (∀ y, P y → Settled c y) → (∀ y, Waiting c y) →
    (∀ y, (P y ∨ y ∈ qs.map (·.1)) → Settled c' y) ∧ (∀ y, Waiting c' y) := by
  induction hl with
  | nil =>
    intro _ _ P _ hS hW
    refine ⟨fun y hy => ?_, hW⟩
    rcases hy with h | h
    · exact hS y h
    · cases h
  | @cons q rest c c1 c2 a0 ha0 hchain _ hplace ih =>
    intro hok hnd P hP hS hW
    have hnd' : q.1 ∉ rest.map (·.1) ∧ (rest.map (·.1)).Nodup := by
      rw [List.map_cons] at hnd; exact List.nodup_cons.mp hnd
    -- Waiting through the chain
    have hW1 : ∀ y, Waiting c1 y := by
      have := lreach_inv (I := fun ci => ∀ y, Waiting ci y)
        (fun ci ci' lab hs hi hp lp y => waiting_step ha0 (hW q.1) hs (hi y) hp lp) hchain hW
      exact this
    -- settled apps outside are untouched
    have hS1 : ∀ y, P y → Settled c1 y := by
      intro y hy
      have hyq : y ≠ q.1 := by intro e; exact hP y hy (by rw [e]; simp)
      have hya : y ∉ revq.takeWhile (· ≠ q.1) := by
        intro hin; exact hP y hy (List.mem_cons_of_mem _ (hok.1 y hin))
      refine hchain.induct (I := fun ci => Settled ci y) ?_ (hS y hy)
      intro ci ci' lab hs hp lp
      refine settled_untargeted hs lp ?_
      intro ht
      rcases placeOk_target hp y ht with e | e
      · exact hyq (by rw [e, app?_id ha0])
      · exact hya e
    -- the entry's own app
    have hSq : Settled c1 q.1 := by
      obtain ⟨st, st', e1, e2, hpl⟩ := hplace
      have ha0' : st.cell.app? q.1 = some a0 := by rw [e1]; exact ha0
      have hw := hW q.1 a0 ha0
      have := placeOne_settled ha0' hw.1 (settledRec_of_waiting hw.2) hpl
      rw [e2] at this; exact this
    -- rest of the queue
    have := ih hok.2 hnd'.2 (fun y => P y ∨ y = q.1)
      (by
        intro y hy
        rcases hy with h | h
        · intro hin; exact hP y h (List.mem_cons_of_mem _ hin)
        · rw [h]; exact hnd'.1)
      (by
        intro y hy
        rcases hy with h | h
        · exact hS1 y h
        · rw [h]; exact hSq)
      hW1
    refine ⟨?_, this.2⟩
    intro y hy
    rcases hy with h | h
    · exact this.1 y (Or.inl (Or.inl h))
    · rw [List.map_cons] at h
      rcases List.mem_cons.mp h with e | e
      · exact this.1 y (Or.inl (Or.inr e))
      · exact this.1 y (Or.inr e)

theorem clear_settled {c : Cell} {y : Nat} (h : Settled c y) : Settled (clearGhost c) y :=
  settled_untargeted h (.clearEv (c := c)) (by simp [Lab.target])

theorem clear_waiting {c : Cell} {y : Nat} (h : Waiting c y) : Waiting (clearGhost c) y := by
  intro a' ha'
  obtain ⟨a, ha, e1, e2, _, e4, _⟩ := lprim_untargeted (.clearEv (c := c)) (by simp [Lab.target]) a' ha'
  obtain ⟨a2, ha2, hst⟩ := app?_stat_of (sameStatic_lprim (.clearEv (c := c))) ha'
  rw [ha] at ha2; cases ha2
  have e_bl : a'.blacklisted = a.blacklisted := congrArg AppStat.blacklisted hst
  have e_grp : a'.group = a.group := congrArg AppStat.group hst
  obtain ⟨h1, h2⟩ := h a ha
  refine ⟨by rw [e4]; exact h1, fun hbl => ?_⟩
  obtain ⟨h3, h4⟩ := h2 (by rw [← e_bl]; exact hbl)
  exact ⟨by rw [e1]; exact h3, fun hg => by rw [e2]; exact h4 (by rw [← e_grp]; exact hg)⟩

/-- All partitions' queues. -/
theorem cycle_settled {qss : List (List (Nat × Bool))} {c c' : Cell} (hcy : Cycle qss c c') :
    (qss.flatten.map (·.1)).Nodup →
    ∀ (P : Nat → Prop), (∀ y, P y → y ∉ qss.flatten.map (·.1)) → (∀ y, P y → Settled c y) → (∀ y, Waiting c y) →
    (∀ y, (P y ∨ y ∈ qss.flatten.map (·.1)) → Settled c' y) ∧ (∀ y, Waiting c' y) := by
  induction hcy with
  | nil =>
    intro _ P _ hS hW
    refine ⟨fun y hy => ?_, hW⟩
    rcases hy with h | h
    · exact hS y h
    · simp at h
  | @cons q qss' c c1 c2 hl _ ih =>
    intro hnd P hP hS hW
    simp only [List.flatten_cons, List.map_append] at hnd hP
    have hnd2 := List.nodup_append.mp hnd
    have hloop := loop_settled hl (afterOk_of_nodup q hnd2.1 [] q rfl) hnd2.1 P
      (fun y hy hin => hP y hy (List.mem_append_left _ hin))
      (fun y hy => clear_settled (hS y hy)) (fun y => clear_waiting (hW y))
    have := ih hnd2.2.1 (fun y => P y ∨ y ∈ q.map (·.1))
      (by
        intro y hy hin
        rcases hy with h | h
        · exact hP y h (List.mem_append_right _ hin)
        · exact hnd2.2.2 y h y hin rfl)
      (fun y hy => hloop.1 y hy) hloop.2
    refine ⟨?_, this.2⟩
    intro y hy
    simp only [List.flatten_cons, List.map_append, List.mem_append] at hy
    rcases hy with h | h | h
    · exact this.1 y (Or.inl (Or.inl h))
    · exact this.1 y (Or.inl (Or.inr h))
    · exact this.1 y (Or.inr h)

end TmVerif.Sched

namespace TmVerif.Sched

/-- A blacklisted app is unplaced and holds nothing. -/
def BlQuiet (c : Cell) (y : Nat) : Prop :=
  ∀ a, c.app? y = some a → a.blacklisted = true → a.server = none ∧ (a.group.isSome = true → a.identity = none)

theorem blQuiet_preOk {c c' : Cell} {lab : Lab} {y : Nat} (hq : BlQuiet c y) (hok : PreOk c lab)
    (hp : LPrim lab c c') : BlQuiet c' y := by
  intro a' ha' hbl'
  obtain ⟨a, ha, hcase⟩ := lprim_server hp y a' ha'
  obtain ⟨a2, ha2, hst⟩ := app?_stat_of (sameStatic_lprim hp) ha'
  rw [ha] at ha2; cases ha2
  have e_bl : a'.blacklisted = a.blacklisted := congrArg AppStat.blacklisted hst
  have e_grp : a'.group = a.group := congrArg AppStat.group hst
  obtain ⟨h1, h2⟩ := hq a ha (by rw [← e_bl]; exact hbl')
  obtain ⟨a3, ha3, hid⟩ := lprim_identity hp y a' ha'
  rw [ha] at ha3; cases ha3
  refine ⟨?_, fun hg => ?_⟩
  · rcases hcase with e | e | ⟨sid, l0, hl, _, _⟩
    · rw [e]; exact h1
    · exact e
    · subst hl; simp only [PreOk] at hok
  · rcases hid with e | e | ⟨k, g, grp, b, hl, _⟩
    · rw [e]; exact h2 (by rw [← e_grp]; exact hg)
    · exact e
    · subst hl; simp only [PreOk] at hok

theorem handleBlacklisted_quiet {c c' : Cell} {x : Nat} (h : handleBlacklisted c x = .ok c') : BlQuiet c' x := by
  simp only [handleBlacklisted, bind_ok, orAbort_ok] at h
  obtain ⟨a, ha, h⟩ := h
  split at h
  · rename_i hnb
    simp only [pure_ok] at h; subst h
    intro a1 ha1 hbl
    rw [ha] at ha1; cases ha1
    simp [hbl] at hnb
  · split at h
    · simp only [bind_ok] at h
      obtain ⟨c1, h1, h2⟩ := h
      obtain ⟨a0, _, ha0⟩ := serverRemove_app_self h1
      intro a' ha' _
      obtain ⟨b, hb, e1, _, e3⟩ := release_post h2 a' ha'
      rw [ha0] at hb; cases hb
      exact ⟨by rw [e1]; rfl, e3⟩
    · rename_i hsv
      intro a' ha' _
      obtain ⟨b, hb, e1, _, e3⟩ := release_post h a' ha'
      rw [ha] at hb; cases hb
      exact ⟨by rw [e1]; exact hsv, e3⟩

/-- After the pre-passes every app is `Waiting` (given that no renewal was pending). -/
theorem prePasses_waiting {c c1 : Cell} (hc : InvCap c) (hnr : ∀ a ∈ c.apps, a.renew = false)
    (h : prePasses c = .ok c1) : ∀ y, Waiting c1 y := by
  have hall := h
  have hchain := prePasses_lreach hc h
  simp only [prePasses, bind_ok] at h
  obtain ⟨ca, h1, cb, h2, cc, h3, h4⟩ := h
  -- blacklisted apps
  have est : ∀ x ∈ c.apps.map (·.id), BlQuiet cc x :=
    foldlM_establish (Q := BlQuiet) (P := PreOk) handleBlacklisted (fun _ _ _ hx => handleBlacklisted_lreach hx)
      (fun _ _ _ _ hq hp lp => blQuiet_preOk hq hp lp) (fun _ _ _ hx => handleBlacklisted_quiet hx) _ _ _ h3
  have r4 : LReach PreOk cc c1 := foldlM_lreach _ _ (fun _ _ _ _ hx => fixInvalidIdentity_lreach hx) _ _ h4
  have ids : c1.apps.map (·.id) = c.apps.map (·.id) := reach_ids (prePasses_reach hall)
  -- renew flags never change in the pre-passes
  have hrenew : ∀ y a', c1.app? y = some a' → a'.renew = false := by
    intro y
    refine hchain.induct (I := fun ci => ∀ a', ci.app? y = some a' → a'.renew = false) ?_ ?_
    · intro ci ci' lab hi hok lp a' ha'
      obtain ⟨a, ha, hcase⟩ := lprim_renew lp y a' ha'
      rcases hcase with e | ⟨b, hl, _⟩
      · rw [e]; exact hi a ha
      · subst hl; simp only [PreOk] at hok
    · intro a' ha'; exact hnr a' (app?_mem ha')
  intro y a' ha'
  refine ⟨hrenew y a' ha', ?_⟩
  have hmem : y ∈ c.apps.map (·.id) := by
    rw [← ids]
    have := List.mem_map_of_mem (f := (·.id)) (app?_mem ha')
    rw [app?_id ha'] at this; exact this
  have hq : BlQuiet c1 y := r4.induct (fun _ _ _ hq hp lp => blQuiet_preOk hq hp lp) (est y hmem)
  exact hq a' ha'

/-- **End-of-cycle identity clauses.** If no renewal is pending and the queues list every app
    exactly once, then after the cycle every app is settled: a placed app of a group holds an
    identity, and an unplaced app holds none. -/
theorem settled_schedule {c c' : Cell} {qs ch} (hc : InvCap c) (hnr : ∀ a ∈ c.apps, a.renew = false)
    (hnd : (qs.flatten.map (·.1)).Nodup) (hcover : ∀ a ∈ c.apps, a.id ∈ qs.flatten.map (·.1))
    (h : schedule c qs ch = .ok c') : ∀ a ∈ c'.apps, SettledRec a := by
  obtain ⟨c1, hpre, hcy⟩ := schedule_parts h
  have hW := prePasses_waiting hc hnr hpre
  have hres := cycle_settled hcy hnd (fun _ => False) (fun _ h => h.elim) (fun _ h => h.elim) hW
  have hc' : InvCap c' := invCap_reach hc (schedule_reach h)
  have ids : c'.apps.map (·.id) = c.apps.map (·.id) := reach_ids (schedule_reach h)
  intro a ha
  have hlook : c'.app? a.id = some a := by
    unfold Cell.app?; exact find?_key_unique (·.id) c'.apps hc'.appIds a ha
  have hin : a.id ∈ c.apps.map (·.id) := by rw [← ids]; exact List.mem_map_of_mem ha
  obtain ⟨a0, ha0, hid0⟩ := List.mem_map.mp hin
  have := hcover a0 ha0
  rw [hid0] at this
  exact hres.1 a.id (Or.inr this) a hlook

end TmVerif.Sched
