import TmVerif.Traits.Model

namespace TmVerif.Traits

/-! ### the dict -/

theorem lookup_set_self (c : Code) (n e : Nat) : lookup (set c n e) n = some e := by
  induction c with
  | nil => simp [set, lookup]
  | cons a t ih =>
    obtain ⟨k, w⟩ := a
    by_cases h : k = n <;> simp [set, lookup, h, ih]

theorem lookup_set_ne (c : Code) (n m e : Nat) (h : m ≠ n) : lookup (set c n e) m = lookup c m := by
  induction c with
  | nil => simp [set, lookup, Ne.symm h]
  | cons a t ih =>
    obtain ⟨k, w⟩ := a
    by_cases hk : k = n
    · subst hk; simp [set, lookup, Ne.symm h]
    · by_cases hm : k = m
      · subst hm; simp [set, lookup, hk]
      · simp [set, lookup, hk, hm, ih]

theorem le_foldl_max (l : Code) (m : Nat) : m ≤ l.foldl (fun m p => max m p.2) m := by
  induction l generalizing m with
  | nil => exact Nat.le_refl _
  | cons a t ih => exact Nat.le_trans (Nat.le_max_left _ _) (ih _)

theorem lookup_le_foldl (l : Code) (m n e : Nat) (h : lookup l n = some e) :
    e ≤ l.foldl (fun m p => max m p.2) m := by
  induction l generalizing m with
  | nil => simp [lookup] at h
  | cons a t ih =>
    obtain ⟨k, w⟩ := a
    simp only [lookup] at h
    split at h
    · cases h; exact Nat.le_trans (Nat.le_max_right _ _) (le_foldl_max t _)
    · exact ih _ h

theorem lookup_le_maxExp (c : Code) (n e : Nat) (h : lookup c n = some e) : e ≤ maxExp c :=
  lookup_le_foldl c 0 n e h

/-- Exponents are injective on names, bounded by `next`, and `'invalid'` has exponent 0. -/
structure Inv (st : St) : Prop where
  inj : ∀ n m e, lookup st.code n = some e → lookup st.code m = some e → n = m
  bound : ∀ n e, lookup st.code n = some e → e ≤ st.next
  invalid : lookup st.code INVALID = some 0

theorem inv_encStep (u a : Bool) (st : St) (t : Nat) (h : Inv st) : Inv (encStep u a st t) := by
  unfold encStep
  split
  · exact ⟨h.inj, h.bound, h.invalid⟩
  · rename_i hnone
    cases a
    · simp only [Bool.false_eq_true, if_false]
      split
      · split <;> exact ⟨h.inj, h.bound, h.invalid⟩
      · exact h
    · simp only [if_true]
      have hti : t ≠ INVALID := by
        intro e; rw [e, h.invalid] at hnone; cases hnone
      refine ⟨?_, ?_, ?_⟩
      · intro n m e hn hm
        simp only at hn hm
        by_cases hnt : n = t <;> by_cases hmt : m = t
        · rw [hnt, hmt]
        · subst hnt
          rw [lookup_set_self] at hn; cases hn
          rw [lookup_set_ne _ _ _ _ hmt] at hm
          have := h.bound m _ hm; omega
        · subst hmt
          rw [lookup_set_self] at hm; cases hm
          rw [lookup_set_ne _ _ _ _ hnt] at hn
          have := h.bound n _ hn; omega
        · rw [lookup_set_ne _ _ _ _ hnt] at hn
          rw [lookup_set_ne _ _ _ _ hmt] at hm
          exact h.inj n m e hn hm
      · intro n e hn
        simp only at hn ⊢
        by_cases hnt : n = t
        · subst hnt; rw [lookup_set_self] at hn; cases hn; exact Nat.le_refl _
        · rw [lookup_set_ne _ _ _ _ hnt] at hn
          have := h.bound n e hn; omega
      · simp only
        rw [lookup_set_ne _ _ _ _ (Ne.symm hti)]; exact h.invalid

theorem inv_encRun (u a : Bool) (st : St) (ts : List Nat) (h : Inv st) : Inv (encRun u a st ts) := by
  induction ts generalizing st with
  | nil => exact h
  | cons t r ih => exact ih _ (inv_encStep u a st t h)

/-- The code only grows: a name that had a bit keeps it. -/
theorem lookup_encStep (u a : Bool) (st : St) (t n e : Nat) (h : lookup st.code n = some e) :
    lookup (encStep u a st t).code n = some e := by
  unfold encStep
  split
  · exact h
  · rename_i hnone
    cases a
    · simp only [Bool.false_eq_true, if_false]
      split
      · split <;> exact h
      · exact h
    · simp only [if_true]
      have : n ≠ t := by intro e'; subst e'; rw [h] at hnone; cases hnone
      rw [lookup_set_ne _ _ _ _ this]; exact h

theorem lookup_encRun (u a : Bool) (st : St) (ts : List Nat) (n e : Nat) (h : lookup st.code n = some e) :
    lookup (encRun u a st ts).code n = some e := by
  induction ts generalizing st with
  | nil => exact h
  | cons t r ih => exact ih _ (lookup_encStep u a st t n e h)

/-- Without `add_new` the code is returned as it was. -/
theorem code_encRun_noadd (u : Bool) (st : St) (ts : List Nat) : (encRun u false st ts).code = st.code := by
  induction ts generalizing st with
  | nil => rfl
  | cons t r ih =>
    simp only [encRun, List.foldl_cons] at ih ⊢
    rw [ih]
    unfold encStep
    split
    · rfl
    · simp only [Bool.false_eq_true, if_false]
      split
      · split <;> rfl
      · rfl

/-! ### bits of the result -/

theorem testBit_or_pow (m e k : Nat) : (m ||| 2 ^ e).testBit k = (m.testBit k || decide (e = k)) := by
  rw [Nat.testBit_or, Nat.testBit_two_pow]

/-- With `add_new`: bit `k` of the mask is set iff it was set before or `k` is (in the final code) the bit of
    one of the listed names; and every listed name has a bit afterwards. -/
theorem bits_encRun_add (st : St) (ts : List Nat) (k : Nat) :
    ((encRun false true st ts).result.testBit k = true ↔
      (st.result.testBit k = true ∨ ∃ t ∈ ts, lookup (encRun false true st ts).code t = some k)) ∧
    ∀ t ∈ ts, ∃ e, lookup (encRun false true st ts).code t = some e := by
  induction ts generalizing st with
  | nil => simp [encRun]
  | cons t r ih =>
    have hrun : encRun false true st (t :: r) = encRun false true (encStep false true st t) r := rfl
    rw [hrun]
    obtain ⟨ih1, ih2⟩ := ih (encStep false true st t)
    -- what the step did for `t`
    have hstep : ∃ e, lookup (encStep false true st t).code t = some e ∧
        ∀ j, (encStep false true st t).result.testBit j = (st.result.testBit j || decide (e = j)) := by
      unfold encStep
      cases hl : lookup st.code t with
      | some e => exact ⟨e, hl, fun j => testBit_or_pow _ _ _⟩
      | none =>
        simp only [if_true]
        exact ⟨st.next + 1, lookup_set_self _ _ _, fun j => testBit_or_pow _ _ _⟩
    obtain ⟨e, he, hbits⟩ := hstep
    have hfin := lookup_encRun false true _ r t e he
    refine ⟨?_, ?_⟩
    · rw [ih1, hbits k]
      constructor
      · rintro (h | ⟨x, hx, hlx⟩)
        · simp only [Bool.or_eq_true, decide_eq_true_eq] at h
          rcases h with h | h
          · exact Or.inl h
          · subst h; exact Or.inr ⟨t, by simp, hfin⟩
        · exact Or.inr ⟨x, by simp [hx], hlx⟩
      · rintro (h | ⟨x, hx, hlx⟩)
        · left; simp [h]
        · simp only [List.mem_cons] at hx
          rcases hx with rfl | hx
          · left
            rw [hfin] at hlx; cases hlx
            simp
          · exact Or.inr ⟨x, hx, hlx⟩
    · intro x hx
      simp only [List.mem_cons] at hx
      rcases hx with rfl | hx
      · exact ⟨e, hfin⟩
      · exact ih2 x hx

/-- With `use_invalid` and without `add_new`: bit `k` is set iff it was set before, or it is the bit of a
    listed known name, or it is the `'invalid'` bit and some listed name is unknown. -/
theorem bits_encRun_inv (st : St) (ts : List Nat) (k e0 : Nat) (h0 : lookup st.code INVALID = some e0) :
    (encRun true false st ts).result.testBit k = true ↔
      (st.result.testBit k = true ∨ (∃ t ∈ ts, lookup st.code t = some k) ∨
       (k = e0 ∧ ∃ t ∈ ts, lookup st.code t = none)) := by
  induction ts generalizing st with
  | nil => simp [encRun]
  | cons t r ih =>
    have hrun : encRun true false st (t :: r) = encRun true false (encStep true false st t) r := rfl
    have hcode : (encStep true false st t).code = st.code := by
      have := code_encRun_noadd true st [t]
      simpa [encRun] using this
    rw [hrun, ih (encStep true false st t) (by rw [hcode]; exact h0), hcode]
    have hbits : ∀ j, (encStep true false st t).result.testBit j =
        (st.result.testBit j || (match lookup st.code t with | some e => decide (e = j) | none => decide (e0 = j))) := by
      intro j
      unfold encStep
      cases hl : lookup st.code t with
      | some e => exact testBit_or_pow _ _ _
      | none =>
        simp only [Bool.false_eq_true, if_false, if_true, h0]
        exact testBit_or_pow _ _ _
    rw [hbits k]
    cases hl : lookup st.code t with
    | some e =>
      simp only [Bool.or_eq_true, decide_eq_true_eq, List.mem_cons, exists_eq_or_imp, hl,
        Option.some.injEq, reduceCtorEq, false_or]
      constructor
      · rintro ((h | h) | h | h)
        · exact Or.inl h
        · exact Or.inr (Or.inl (Or.inl h))
        · exact Or.inr (Or.inl (Or.inr h))
        · exact Or.inr (Or.inr h)
      · rintro (h | (h | h) | h)
        · exact Or.inl (Or.inl h)
        · exact Or.inl (Or.inr h)
        · exact Or.inr (Or.inl h)
        · exact Or.inr (Or.inr h)
    | none =>
      simp only [Bool.or_eq_true, decide_eq_true_eq, List.mem_cons, exists_eq_or_imp, hl,
        reduceCtorEq, false_or, true_or, and_true]
      constructor
      · rintro ((h | h) | h | h)
        · exact Or.inl h
        · exact Or.inr (Or.inr h.symm)
        · exact Or.inr (Or.inl h)
        · exact Or.inr (Or.inr h.1)
      · rintro (h | h | h)
        · exact Or.inl (Or.inl h)
        · exact Or.inr (Or.inl h)
        · exact Or.inl (Or.inr h.symm)

theorem has_iff (own wanted : Nat) :
    has own wanted = true ↔ ∀ k, wanted.testBit k = true → own.testBit k = true := by
  unfold has
  rw [beq_iff_eq]
  constructor
  · intro h k hk
    have := congrArg (fun x => x.testBit k) h
    simp only [Nat.testBit_and, hk, Bool.and_true] at this
    exact this
  · intro h
    apply Nat.eq_of_testBit_eq
    intro i
    rw [Nat.testBit_and]
    cases hw : wanted.testBit i
    · simp
    · simp [h i hw]

end TmVerif.Traits
