/-
  Model of `treadmill.traits.create_code` / `encode` and of `TraitSet.has` (C03): how trait NAMES become
  the bit masks the placement feasibility test compares.

  A code is the Python dict `{name: value}` in insertion order; names are interned to naturals by the
  harness, name 0 is the reserved `'invalid'`.  Values are kept as EXPONENTS (`value = 2^e`): `<< 1` is
  `+ 1`, `max(values)` is the maximal exponent.  That every value is a power of two is therefore built into
  the model; that the code really produces these values is what the per-call correspondence compares (the
  driver prints `2^e`).
-/
namespace TmVerif.Traits

abbrev Code := List (Nat × Nat)

def INVALID : Nat := 0

def lookup (c : Code) (n : Nat) : Option Nat :=
  match c with
  | [] => none
  | (k, v) :: t => if k = n then some v else lookup t n

/-- `code[n] = e` (an existing key keeps its position). -/
def set (c : Code) (n e : Nat) : Code :=
  match c with
  | [] => [(n, e)]
  | (k, w) :: t => if k = n then (k, e) :: t else (k, w) :: set t n e

/-- exponent of `max(code.values(), default=1)`. -/
def maxExp (c : Code) : Nat := c.foldl (fun m p => max m p.2) 0

/-- `create_code(traits)`: `'invalid'` is 1, the listed traits get 2, 4, 8, … in order. -/
def createCode (traits : List Nat) : Code :=
  (traits.foldl (fun (acc : Nat × Code) t => (acc.1 + 1, set acc.2 t (acc.1 + 1))) (0, [(INVALID, 0)])).2

structure St where
  result : Nat
  next : Nat        -- exponent of `next_code`
  code : Code

/-- One iteration of the loop of `encode`. -/
def encStep (useInvalid addNew : Bool) (st : St) (t : Nat) : St :=
  match lookup st.code t with
  | some e => { st with result := st.result ||| 2 ^ e }
  | none =>
    if addNew then
      { result := st.result ||| 2 ^ (st.next + 1), next := st.next + 1, code := set st.code t (st.next + 1) }
    else if useInvalid then
      match lookup st.code INVALID with
      | some e => { st with result := st.result ||| 2 ^ e }
      | none => st                                   -- (KeyError in Python: a code always holds 'invalid')
    else st

def encRun (useInvalid addNew : Bool) (st : St) (traits : List Nat) : St :=
  traits.foldl (encStep useInvalid addNew) st

/-- `encode(code, traits, use_invalid, add_new)` → `(mask, code)`. -/
def encode (c : Code) (traits : List Nat) (useInvalid addNew : Bool) : Nat × Code :=
  let st := encRun useInvalid addNew { result := 0, next := maxExp c, code := c } traits
  (st.result, st.code)

/-- `TraitSet.has(traits)` for a server (no children): `(own & traits) == traits`. -/
def has (own wanted : Nat) : Bool := own &&& wanted == wanted

end TmVerif.Traits
