/-
  Lemmas about the cellsync model (`TmVerif.CellSync`): directories as finite maps (`Dir.get`),
  `put` / `putAll` / `delAll`, the dict fill of `_sync_collection`, `str.split` and `rsplit`.
-/
import TmVerif.Reserve.CellSync

namespace TmVerif.CellSync

/-! ### directories -/

theorem get_append (d e : Dir) (n : Str) :
    Dir.get (d ++ e) n = match Dir.get d n with | some v => some v | none => Dir.get e n := by
  induction d with
  | nil => simp [Dir.get]
  | cons h t ih =>
    obtain ⟨k, v⟩ := h
    simp only [List.cons_append, Dir.get]
    split
    · rfl
    · exact ih

theorem get_setAll (d : Dir) (n p m : Str) :
    Dir.get (d.setAll n p) m = if n = m then (Dir.get d m).map (fun _ => p) else Dir.get d m := by
  induction d with
  | nil => simp [Dir.setAll, Dir.get]
  | cons h t ih =>
    obtain ⟨k, v⟩ := h
    simp only [Dir.setAll, List.map_cons] at ih ⊢
    by_cases hk : k = n
    · subst hk
      simp only [if_true, Dir.get]
      by_cases hm : k = m
      · simp [hm]
      · simp only [if_neg hm]; rw [ih]; simp [hm]
    · simp only [if_neg hk, Dir.get]
      by_cases hm : k = m
      · subst hm
        have : ¬ n = k := fun h => hk h.symm
        simp [this]
      · simp only [if_neg hm]; rw [ih]

theorem get_del (d : Dir) (n m : Str) :
    Dir.get (d.del n) m = if n = m then none else Dir.get d m := by
  induction d with
  | nil => simp [Dir.del, Dir.get]
  | cons h t ih =>
    obtain ⟨k, v⟩ := h
    simp only [Dir.del, List.filter_cons] at ih ⊢
    by_cases hk : k = n
    · subst hk
      simp only [ne_eq, not_true_eq_false, decide_false, Bool.false_eq_true, if_false, Dir.get]
      rw [ih]
      by_cases hm : k = m <;> simp [hm]
    · simp only [ne_eq, hk, not_false_eq_true, decide_true, if_true, Dir.get]
      rw [ih]
      by_cases hm : k = m
      · subst hm
        have : ¬ n = k := fun h => hk h.symm
        simp [this]
      · simp [hm]

theorem get_delAll (ns : List Str) (d : Dir) (m : Str) :
    Dir.get (delAll d ns) m = if m ∈ ns then none else Dir.get d m := by
  induction ns generalizing d with
  | nil => simp [delAll]
  | cons n t ih =>
    simp only [delAll, List.foldl_cons] at ih ⊢
    rw [ih, get_del]
    by_cases h1 : m ∈ t
    · simp [h1]
    · by_cases h2 : n = m
      · subst h2; simp
      · have : ¬ m = n := fun h => h2 h.symm
        simp [h1, h2, this]

theorem mem_names_iff (d : Dir) (n : Str) : n ∈ d.names ↔ (Dir.get d n).isSome = true := by
  induction d with
  | nil => simp [Dir.names, Dir.get]
  | cons h t ih =>
    obtain ⟨k, v⟩ := h
    simp only [Dir.names, List.map_cons, List.mem_cons, Dir.get] at ih ⊢
    by_cases hk : k = n
    · subst hk; simp
    · have : ¬ n = k := fun h => hk h.symm
      simp [hk, this, ih]

theorem get_none_of_not_mem {d : Dir} {n : Str} (h : n ∉ d.names) : Dir.get d n = none := by
  rw [mem_names_iff] at h
  cases hg : Dir.get d n with
  | none => rfl
  | some _ => rw [hg] at h; simp at h

theorem mem_extras (d : Dir) (keep : List Str) (n : Str) :
    n ∈ extras d keep ↔ n ∈ d.names ∧ n ∉ keep := by
  simp [extras, List.mem_filter]

/-! ### `put` -/

theorem get_put (d : Dir) (n p m : Str) :
    Dir.get (put d n p).2 m = if n = m then some p else Dir.get d m := by
  unfold put
  cases hg : Dir.get d n with
  | none =>
    simp only [get_append, Dir.get]
    by_cases hm : n = m
    · subst hm; simp [hg]
    · simp only [if_neg hm]
      cases Dir.get d m <;> rfl
  | some c =>
    by_cases hc : c = p
    · subst hc
      simp only [if_true]
      by_cases hm : n = m
      · subst hm; simp [hg]
      · simp [hm]
    · simp only [if_neg hc, get_setAll]
      by_cases hm : n = m
      · subst hm; simp [hg]
      · simp [hm]

theorem names_setAll (d : Dir) (n p : Str) : (d.setAll n p).names = d.names := by
  simp only [Dir.names, Dir.setAll, List.map_map]
  apply List.map_congr_left
  intro e _
  simp only [Function.comp]
  split <;> rfl

theorem names_put (d : Dir) (n p : Str) :
    (put d n p).2.names = if n ∈ d.names then d.names else d.names ++ [n] := by
  unfold put
  cases hg : Dir.get d n with
  | none =>
    have : n ∉ d.names := by rw [mem_names_iff, hg]; simp
    simp only [Dir.names] at this ⊢
    simp [this]
  | some c =>
    have : n ∈ d.names := by rw [mem_names_iff, hg]; rfl
    simp only [if_pos this]
    split
    · rfl
    · exact names_setAll d n p

/-- the value of the LAST entry with that name. -/
def lastGet : List (Str × Str) → Str → Option Str
  | [], _ => none
  | (k, v) :: t, n =>
    match lastGet t n with
    | some x => some x
    | none => if k = n then some v else none

theorem get_putAll (es : List (Str × Str)) (d : Dir) (m : Str) :
    Dir.get (putAll es d).2 m = match lastGet es m with | some x => some x | none => Dir.get d m := by
  induction es generalizing d with
  | nil => simp [putAll, lastGet]
  | cons e t ih =>
    obtain ⟨n, p⟩ := e
    simp only [putAll, lastGet]
    rw [ih, get_put]
    cases lastGet t m with
    | some x => rfl
    | none =>
      by_cases hm : n = m <;> simp [hm]

theorem lastGet_none_of_not_mem {es : List (Str × Str)} {m : Str} (h : m ∉ es.map (·.1)) :
    lastGet es m = none := by
  induction es with
  | nil => rfl
  | cons e t ih =>
    obtain ⟨n, p⟩ := e
    simp only [List.map_cons, List.mem_cons, not_or] at h
    have hn : ¬ n = m := fun e => h.1 e.symm
    simp [lastGet, ih h.2, hn]

theorem lastGet_isSome_mem {es : List (Str × Str)} {m : Str} {x : Str} (h : lastGet es m = some x) :
    m ∈ es.map (·.1) := by
  by_cases hm : m ∈ es.map (·.1)
  · exact hm
  · rw [lastGet_none_of_not_mem hm] at h; cases h

/-- with distinct names, an entry is the last one of its name. -/
theorem lastGet_of_mem {es : List (Str × Str)} (hnd : (es.map (·.1)).Nodup) {n p : Str}
    (h : (n, p) ∈ es) : lastGet es n = some p := by
  induction es with
  | nil => cases h
  | cons e t ih =>
    obtain ⟨k, v⟩ := e
    simp only [List.map_cons, List.nodup_cons] at hnd
    rcases List.mem_cons.mp h with h | h
    · cases h
      simp [lastGet, lastGet_none_of_not_mem hnd.1]
    · simp [lastGet, ih hnd.2 h]

/-- nothing is written when every entry is already there. -/
theorem putAll_noop (es : List (Str × Str)) (d : Dir)
    (h : ∀ n p, (n, p) ∈ es → Dir.get d n = some p) : putAll es d = ([], d) := by
  induction es with
  | nil => rfl
  | cons e t ih =>
    obtain ⟨n, p⟩ := e
    have h1 := h n p List.mem_cons_self
    have hp : put d n p = (none, d) := by simp [put, h1]
    simp only [putAll, hp]
    rw [ih (fun n p hm => h n p (List.mem_cons_of_mem _ hm))]
    rfl

/-- what one `zkutils.put(check_content=True)` writes, given what the node held. -/
def writeFor (cur : Option Str) (n p : Str) : Option Write :=
  match cur with
  | none => some (.create n p)
  | some c => if c = p then none else some (.set n p)

theorem put_fst (d : Dir) (n p : Str) : (put d n p).1 = writeFor (Dir.get d n) n p := by
  unfold put writeFor
  cases Dir.get d n with
  | none => rfl
  | some c => by_cases hc : c = p <;> simp [hc]

theorem filterMap_congr' {α β} {f g : α → Option β} {l : List α} (h : ∀ x ∈ l, f x = g x) :
    l.filterMap f = l.filterMap g := by
  induction l with
  | nil => rfl
  | cons a t ih =>
    simp only [List.filterMap_cons, h a List.mem_cons_self,
      ih (fun x hx => h x (List.mem_cons_of_mem _ hx))]

/-- with distinct names every put sees the node as the directory had it at the start. -/
theorem putAll_writes (es : List (Str × Str)) (hnd : (es.map (·.1)).Nodup) (d : Dir) :
    (putAll es d).1 = es.filterMap (fun e => writeFor (Dir.get d e.1) e.1 e.2) := by
  induction es generalizing d with
  | nil => rfl
  | cons e t ih =>
    obtain ⟨n, p⟩ := e
    simp only [List.map_cons, List.nodup_cons] at hnd
    simp only [putAll, List.filterMap_cons, put_fst]
    rw [ih hnd.2]
    have hrest : t.filterMap (fun e => writeFor (Dir.get (put d n p).2 e.1) e.1 e.2) =
        t.filterMap (fun e => writeFor (Dir.get d e.1) e.1 e.2) := by
      apply filterMap_congr'
      intro e he
      have : ¬ n = e.1 := fun h => hnd.1 (h ▸ List.mem_map_of_mem he)
      rw [get_put, if_neg this]
    rw [hrest]
    cases writeFor (Dir.get d n) n p <;> rfl

theorem nodup_del (d : Dir) (n : Str) (h : d.names.Nodup) : (d.del n).names.Nodup := by
  simp only [Dir.names, Dir.del] at h ⊢
  exact (List.Sublist.map _ List.filter_sublist).nodup h

theorem nodup_delAll (ns : List Str) (d : Dir) (h : d.names.Nodup) : (delAll d ns).names.Nodup := by
  induction ns generalizing d with
  | nil => exact h
  | cons n t ih => exact ih _ (nodup_del d n h)

theorem nodup_put (d : Dir) (n p : Str) (h : d.names.Nodup) : (put d n p).2.names.Nodup := by
  rw [names_put]
  split
  · exact h
  · rename_i hn
    rw [List.nodup_append]
    exact ⟨h, by simp, by intro a ha b hb; simp at hb; subst hb; exact fun e => hn (e ▸ ha)⟩

theorem nodup_putAll (es : List (Str × Str)) (d : Dir) (h : d.names.Nodup) :
    (putAll es d).2.names.Nodup := by
  induction es generalizing d with
  | nil => exact h
  | cons e t ih => exact ih _ (nodup_put d e.1 e.2 h)

/-! ### the dict `to_sync` -/

theorem get_dictSet (d : Dir) (k v m : Str) :
    Dir.get (dictSet d k v) m = if k = m then some v else Dir.get d m := by
  induction d with
  | nil => simp [dictSet, Dir.get]
  | cons h t ih =>
    obtain ⟨k', v'⟩ := h
    simp only [dictSet]
    by_cases hk : k' = k
    · subst hk
      simp only [if_true, Dir.get]
      by_cases hm : k' = m <;> simp [hm]
    · simp only [if_neg hk, Dir.get, ih]
      by_cases hm : k' = m
      · subst hm
        have : ¬ k = k' := fun h => hk h.symm
        simp [this]
      · simp [hm]

theorem names_dictSet (d : Dir) (k v : Str) :
    (dictSet d k v).map (·.1) = if k ∈ d.map (·.1) then d.map (·.1) else d.map (·.1) ++ [k] := by
  induction d with
  | nil => simp [dictSet]
  | cons h t ih =>
    obtain ⟨k', v'⟩ := h
    simp only [dictSet]
    by_cases hk : k' = k
    · subst hk; simp
    · have : ¬ k = k' := fun h => hk h.symm
      simp only [if_neg hk, List.map_cons, ih, List.mem_cons, this, false_or]
      split <;> simp

theorem nodup_dictSet (d : Dir) (k v : Str) (h : (d.map (·.1)).Nodup) :
    ((dictSet d k v).map (·.1)).Nodup := by
  rw [names_dictSet]
  split
  · exact h
  · rename_i hn
    rw [List.nodup_append]
    exact ⟨h, by simp, by intro a ha b hb; simp at hb; subst hb; exact fun e => hn (e ▸ ha)⟩

/-- the entries `_sync_collection` considers: those `match` accepts, with their payload. -/
def matchedEntries (ents : List Entity) : List (Str × Str) :=
  (ents.filter (·.matched)).map (fun e => (e.id, renderDict e.fields))

theorem toSync_fold (ents : List Entity) (d : Dir) (m : Str) :
    Dir.get (ents.foldl (fun d e => if e.matched then dictSet d e.id (renderDict e.fields) else d) d) m =
      match lastGet (matchedEntries ents) m with | some x => some x | none => Dir.get d m := by
  induction ents generalizing d with
  | nil => simp [matchedEntries, lastGet]
  | cons e t ih =>
    simp only [List.foldl_cons]
    rw [ih]
    by_cases hm : e.matched = true
    · simp only [hm, if_true, matchedEntries, List.filter_cons, List.map_cons, lastGet] at ih ⊢
      cases lastGet (List.map (fun e => (e.id, renderDict e.fields)) (List.filter (·.matched) t)) m with
      | some x => rfl
      | none => simp only [get_dictSet]; by_cases h : e.id = m <;> simp [h]
    · simp only [hm, matchedEntries, List.filter_cons] at ih ⊢
      rfl

theorem toSync_get (ents : List Entity) (m : Str) :
    Dir.get (toSync ents) m = lastGet (matchedEntries ents) m := by
  unfold toSync
  rw [toSync_fold]
  cases lastGet (matchedEntries ents) m <;> rfl

theorem toSync_nodup (ents : List Entity) : ((toSync ents).map (·.1)).Nodup := by
  unfold toSync
  suffices h : ∀ d : Dir, (d.map (·.1)).Nodup →
      ((ents.foldl (fun d e => if e.matched then dictSet d e.id (renderDict e.fields) else d) d).map (·.1)).Nodup
    from h [] List.nodup_nil
  induction ents with
  | nil => exact fun d h => h
  | cons e t ih =>
    intro d h
    simp only [List.foldl_cons]
    apply ih
    split
    · exact nodup_dictSet d _ _ h
    · exact h

/-- for a list with distinct names `Dir.get` (first) and `lastGet` (last) agree. -/
theorem get_eq_lastGet (es : List (Str × Str)) (hnd : (es.map (·.1)).Nodup) (m : Str) :
    Dir.get es m = lastGet es m := by
  induction es with
  | nil => rfl
  | cons e t ih =>
    obtain ⟨k, v⟩ := e
    simp only [List.map_cons, List.nodup_cons] at hnd
    simp only [Dir.get, lastGet, ← ih hnd.2]
    by_cases hk : k = m
    · subst hk
      have : Dir.get t k = none := get_none_of_not_mem hnd.1
      simp [this]
    · simp only [if_neg hk]
      cases Dir.get t m <;> rfl

end TmVerif.CellSync
