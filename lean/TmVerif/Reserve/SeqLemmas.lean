/-
  The invariant behind C19 (sequence): every (cell, partition) is within its capacity and every
  per-trait limit, and it is preserved by storing a reservation that `Fits`.
-/
import TmVerif.Reserve.SchemaLemmas

namespace TmVerif.Reserve
open TmVerif.Units TmVerif.ExtReserve

/-- componentwise integer arithmetic on `Vec` -/
macro "vec_arith" : tactic =>
  `(tactic| (simp only [Vec.le_def, Vec.ext_iff, Vec.add_cpu, Vec.add_disk, Vec.add_mem, Vec.sub_cpu,
      Vec.sub_disk, Vec.sub_mem, Vec.zero_cpu, Vec.zero_disk, Vec.zero_mem] at *; omega))

theorem Vec.add_assoc (a b c : Vec) : a + b + c = a + (b + c) := by vec_arith
theorem Vec.add_comm (a b : Vec) : a + b = b + a := by vec_arith
theorem Vec.add_zero (a : Vec) : a + Vec.zero = a := by vec_arith
theorem Vec.zero_add (a : Vec) : Vec.zero + a = a := by vec_arith

/-- reservations of a (cell, partition) -/
def inP (cell p : Name) (r : Resv) : Bool := decide (r.cell = cell) && decide (r.part = p)
/-- … that carry trait `t` -/
def inPT (cell p t : Name) (r : Resv) : Bool := inP cell p r && decide (t ∈ r.traits)

/-- what the reservations selected by `P` use -/
def used (s : List Resv) (P : Resv → Bool) : Vec := vsum ((s.filter P).map Resv.vec)

/-- contribution of one reservation to `used · P` -/
def contrib (P : Resv → Bool) (m : Resv) : Vec := if P m then m.vec else Vec.zero

theorem used_nil (P : Resv → Bool) : used [] P = Vec.zero := rfl

theorem used_cons (r : Resv) (t : List Resv) (P : Resv → Bool) :
    used (r :: t) P = contrib P r + used t P := by
  unfold used contrib
  by_cases h : P r = true
  · simp [h]
  · simp [h, Vec.zero_add]

theorem used_append_one (s : List Resv) (m : Resv) (P : Resv → Bool) :
    used (s ++ [m]) P = used s P + contrib P m := by
  induction s with
  | nil => rw [List.nil_append, used_cons, used_nil, Vec.add_zero, Vec.zero_add]
  | cons r t ih => rw [List.cons_append, used_cons, ih, used_cons, Vec.add_assoc]

theorem filter_ne_id_of_not_mem (t : List Resv) (id : Name × Name) (P : Resv → Bool)
    (h : id ∉ t.map Resv.id) :
    t.filter (fun r => P r && decide (r.id ≠ id)) = t.filter P := by
  apply List.filter_congr
  intro r hr
  have : r.id ≠ id := fun e => h (e ▸ List.mem_map_of_mem hr)
  simp [this]

theorem repl_of_not_mem (t : List Resv) (id : Name × Name) (m : Resv) (h : id ∉ t.map Resv.id) :
    repl t id m = t := by
  unfold repl
  conv => rhs; rw [← List.map_id t]
  apply List.map_congr_left
  intro r hr
  have : r.id ≠ id := fun e => h (e ▸ List.mem_map_of_mem hr)
  simp [this]

/-- After replacing the record with identity `id` by `m`: the rest, plus `m`. -/
theorem used_repl (s : List Resv) (id : Name × Name) (m : Resv) (P : Resv → Bool)
    (hnd : (s.map Resv.id).Nodup) (old : Resv) (hold : old ∈ s) (hid : old.id = id) :
    used (repl s id m) P = used s (fun r => P r && decide (r.id ≠ id)) + contrib P m := by
  induction s with
  | nil => cases hold
  | cons r t ih =>
    simp only [List.map_cons, List.nodup_cons] at hnd
    by_cases hr : r.id = id
    · have hno : id ∉ t.map Resv.id := hr ▸ hnd.1
      have h1 : repl (r :: t) id m = m :: t := by
        have := repl_of_not_mem t id m hno
        simp only [repl] at this ⊢
        simp [hr, this]
      rw [h1, used_cons, used_cons]
      have h2 : contrib (fun r => P r && decide (r.id ≠ id)) r = Vec.zero := by simp [contrib, hr]
      have h3 : used t (fun r => P r && decide (r.id ≠ id)) = used t P := by
        unfold used; rw [filter_ne_id_of_not_mem t id P hno]
      rw [h2, h3, Vec.zero_add, Vec.add_comm]
    · have hold' : old ∈ t := by
        rcases List.mem_cons.mp hold with e | h
        · exact absurd (e ▸ hid) hr
        · exact h
      have h1 : repl (r :: t) id m = r :: repl t id m := by simp [repl, hr]
      rw [h1, used_cons, ih hnd.2 hold', used_cons]
      have h2 : contrib (fun r => P r && decide (r.id ≠ id)) r = contrib P r := by simp [contrib, hr]
      rw [h2, Vec.add_assoc]

/-- The same decomposition of the store before the replacement. -/
theorem used_split (s : List Resv) (id : Name × Name) (P : Resv → Bool)
    (hnd : (s.map Resv.id).Nodup) (old : Resv) (hold : old ∈ s) (hid : old.id = id) :
    used s P = used s (fun r => P r && decide (r.id ≠ id)) + contrib P old := by
  induction s with
  | nil => cases hold
  | cons r t ih =>
    simp only [List.map_cons, List.nodup_cons] at hnd
    by_cases hr : r.id = id
    · have hno : id ∉ t.map Resv.id := hr ▸ hnd.1
      have hro : old = r := by
        rcases List.mem_cons.mp hold with e | h
        · exact e
        · exact absurd (hid ▸ List.mem_map_of_mem h) hno
      subst hro
      rw [used_cons, used_cons]
      have h2 : contrib (fun r => P r && decide (r.id ≠ id)) old = Vec.zero := by simp [contrib, hr]
      have h3 : used t (fun r => P r && decide (r.id ≠ id)) = used t P := by
        unfold used; rw [filter_ne_id_of_not_mem t id P hno]
      rw [h2, h3, Vec.zero_add, Vec.add_comm]
    · have hold' : old ∈ t := by
        rcases List.mem_cons.mp hold with e | h
        · exact absurd (e ▸ hid) hr
        · exact h
      rw [used_cons, ih hnd.2 hold', used_cons]
      have h2 : contrib (fun r => P r && decide (r.id ≠ id)) r = contrib P r := by simp [contrib, hr]
      rw [h2, Vec.add_assoc]

/-! ### `others` in terms of `inP` -/

theorem others_eq_filter (s : List Resv) (cell p alloc : Name) :
    others s cell p alloc = s.filter (fun r => inP cell p r && decide (r.id ≠ (alloc, cell))) := by
  unfold others
  apply List.filter_congr
  intro r _
  simp only [inP, Resv.id, ne_eq, Prod.mk.injEq, not_and]
  by_cases hc : r.cell = cell <;> by_cases hp : r.part = p <;> by_cases ha : r.alloc = alloc <;>
    simp [hc, hp, ha]

theorem others_trait_eq_filter (s : List Resv) (cell p alloc t : Name) :
    (others s cell p alloc).filter (fun r => t ∈ r.traits) =
      s.filter (fun r => inPT cell p t r && decide (r.id ≠ (alloc, cell))) := by
  rw [others_eq_filter, List.filter_filter]
  apply List.filter_congr
  intro r _
  simp only [inPT]
  cases inP cell p r <;> cases decide (r.id ≠ (alloc, cell)) <;> cases decide (t ∈ r.traits) <;> rfl

/-! ### well-formed partitions, the invariant -/

/-- A partition object whose capacity and limits are well-formed non-negative quantities and
    whose limit traits are distinct (the admin CLI replaces the limit of a trait). -/
structure PartObjWF (po : PartObj) : Prop where
  vec : ∃ v, po.vec? = .ok v ∧ Vec.zero ≤ v
  limits : ∀ l ∈ po.limits, ∃ v, l.vec? = .ok v ∧ Vec.zero ≤ v
  ltraits : (po.limits.map (·.trait)).Nodup

def PartsWF (parts : List Part) : Prop :=
  ∀ q ∈ parts, PartObjWF ⟨q.cpu, q.disk, q.mem, q.limits⟩

theorem zeroPart_vec : zeroPart.vec? = .ok Vec.zero := by decide

theorem zeroPart_wf : PartObjWF zeroPart :=
  ⟨⟨Vec.zero, zeroPart_vec, by decide⟩, (by intro l hl; cases hl), List.nodup_nil⟩

theorem partitionGet_wf {parts : List Part} (h : PartsWF parts) (p cell : Name) :
    PartObjWF (partitionGet parts (some p) cell) := by
  unfold partitionGet
  simp only []
  split
  · rename_i q hq
    exact h q (List.mem_of_find?_eq_some hq)
  · exact zeroPart_wf

/-- **Invariant**: identities are unique, every stored reservation is a well-formed non-negative
    quantity with a duplicate-free trait list, and every (cell, partition) is within its
    capacity and within each of its per-trait limits. -/
structure Inv (parts : List Part) (s : List Resv) : Prop where
  ids : (s.map Resv.id).Nodup
  wf : ∀ r ∈ s, ∃ v, r.vec? = .ok v ∧ Vec.zero ≤ v
  traits : ∀ r ∈ s, r.traits.Nodup
  cap : ∀ cell p, used s (inP cell p) ≤ (partitionGet parts (some p) cell).vec
  lim : ∀ cell p, ∀ l ∈ (partitionGet parts (some p) cell).limits,
          used s (inPT cell p l.trait) ≤ l.vec

theorem inv_nil {parts : List Part} (h : PartsWF parts) : Inv parts [] := by
  refine ⟨List.nodup_nil, (by intro r hr; cases hr), (by intro r hr; cases hr), ?_, ?_⟩
  · intro cell p
    obtain ⟨v, hv, h0⟩ := (partitionGet_wf h p cell).vec
    rw [used_nil, PartObj.vec_of_ok hv]; exact h0
  · intro cell p l hl
    obtain ⟨v, hv, h0⟩ := (partitionGet_wf h p cell).limits l hl
    rw [used_nil, Limit.vec_of_ok hv]; exact h0

theorem wfCheck_of_inv {parts : List Part} {s : List Resv} (hp : PartsWF parts) (hi : Inv parts s)
    (cell p alloc : Name) : WFCheck parts s cell p alloc := by
  have hpo := partitionGet_wf hp p cell
  refine ⟨?_, ?_, hpo.ltraits, ?_, ?_⟩
  · obtain ⟨v, hv, _⟩ := hpo.vec; exact ⟨v, hv⟩
  · intro l hl; obtain ⟨v, hv, _⟩ := hpo.limits l hl; exact ⟨v, hv⟩
  · intro r hr; obtain ⟨v, hv, _⟩ := hi.wf r (mem_others.mp hr).1; exact ⟨v, hv⟩
  · intro r hr; exact hi.traits r (mem_others.mp hr).1

theorem contrib_nonneg {s : List Resv} {parts : List Part} (hi : Inv parts s) (P : Resv → Bool)
    (r : Resv) (hr : r ∈ s) : Vec.zero ≤ contrib P r := by
  unfold contrib
  split
  · obtain ⟨v, hv, h0⟩ := hi.wf r hr
    rw [Resv.vec_of_ok hv]; exact h0
  · vec_arith

/-- `Fits` restated with `used`. -/
theorem fits_used {parts : List Part} {s : List Resv} {cell p alloc : Name} {traits : List Name}
    {v : Vec} (h : Fits parts s cell p alloc traits v) :
    v + used s (fun r => inP cell p r && decide (r.id ≠ (alloc, cell))) ≤
        (partitionGet parts (some p) cell).vec ∧
    ∀ l ∈ (partitionGet parts (some p) cell).limits, l.trait ∈ traits →
      v + used s (fun r => inPT cell p l.trait r && decide (r.id ≠ (alloc, cell))) ≤ l.vec := by
  obtain ⟨h1, h2⟩ := h
  unfold FitsOverall at h1
  rw [others_eq_filter] at h1
  refine ⟨h1, ?_⟩
  intro l hl ht
  have := h2 l hl ht
  unfold FitsTrait at this
  rw [others_trait_eq_filter] at this
  exact this

/-- Storing a new reservation that fits keeps the invariant. -/
theorem inv_append {parts : List Part} {s : List Resv} (hi : Inv parts s) (m : Resv) (v : Vec)
    (hid : m.id ∉ s.map Resv.id) (hv : m.vec? = .ok v) (h0 : Vec.zero ≤ v) (htr : m.traits.Nodup)
    (hfit : Fits parts s m.cell m.part m.alloc m.traits v) : Inv parts (s ++ [m]) := by
  obtain ⟨f1, f2⟩ := fits_used hfit
  have hmv : m.vec = v := Resv.vec_of_ok hv
  have hids : (m.alloc, m.cell) ∉ s.map Resv.id := hid
  refine ⟨?_, ?_, ?_, ?_, ?_⟩
  · rw [List.map_append, List.nodup_append]
    refine ⟨hi.ids, by simp, ?_⟩
    intro a ha b hb
    simp only [List.map_cons, List.map_nil, List.mem_singleton] at hb
    subst hb
    intro e; subst e; exact hid ha
  · intro r hr
    rcases List.mem_append.mp hr with h | h
    · exact hi.wf r h
    · simp only [List.mem_singleton] at h; subst h; exact ⟨v, hv, h0⟩
  · intro r hr
    rcases List.mem_append.mp hr with h | h
    · exact hi.traits r h
    · simp only [List.mem_singleton] at h; subst h; exact htr
  · intro cell p
    rw [used_append_one]
    unfold contrib
    split
    · rename_i hP
      simp only [inP, Bool.and_eq_true, decide_eq_true_eq] at hP
      obtain ⟨rfl, rfl⟩ := hP
      unfold used at f1
      rw [filter_ne_id_of_not_mem s _ _ hids] at f1
      have := hi.cap m.cell m.part
      unfold used at this ⊢
      rw [hmv]
      vec_arith
    · have := hi.cap cell p
      vec_arith
  · intro cell p l hl
    rw [used_append_one]
    unfold contrib
    split
    · rename_i hP
      simp only [inPT, inP, Bool.and_eq_true, decide_eq_true_eq] at hP
      obtain ⟨⟨rfl, rfl⟩, ht⟩ := hP
      have f := f2 l hl ht
      unfold used at f
      rw [filter_ne_id_of_not_mem s _ _ hids] at f
      unfold used
      rw [hmv]
      vec_arith
    · have := hi.lim cell p l hl
      vec_arith

/-- Replacing a stored reservation by one (same identity) that fits keeps the invariant. -/
theorem inv_repl {parts : List Part} {s : List Resv} (hi : Inv parts s) (old m : Resv) (v : Vec)
    (hold : old ∈ s) (hid : old.id = m.id) (hv : m.vec? = .ok v) (h0 : Vec.zero ≤ v)
    (htr : m.traits.Nodup) (hfit : Fits parts s m.cell m.part m.alloc m.traits v) :
    Inv parts (repl s m.id m) := by
  obtain ⟨f1, f2⟩ := fits_used hfit
  have hmv : m.vec = v := Resv.vec_of_ok hv
  have hmid : m.id = (m.alloc, m.cell) := rfl
  have hmem : ∀ r ∈ repl s m.id m, r = m ∨ r ∈ s := by
    intro r hr
    simp only [repl, List.mem_map] at hr
    obtain ⟨x, hx, rfl⟩ := hr
    by_cases h : x.id = m.id
    · left; simp [h]
    · right; simp [h, hx]
  refine ⟨?_, ?_, ?_, ?_, ?_⟩
  · have : (repl s m.id m).map Resv.id = s.map Resv.id := by
      simp only [repl, List.map_map]
      apply List.map_congr_left
      intro r _
      by_cases h : r.id = m.id <;> simp [h]
    rw [this]; exact hi.ids
  · intro r hr
    rcases hmem r hr with rfl | h
    · exact ⟨v, hv, h0⟩
    · exact hi.wf r h
  · intro r hr
    rcases hmem r hr with rfl | h
    · exact htr
    · exact hi.traits r h
  · intro cell p
    rw [used_repl s m.id m _ hi.ids old hold hid]
    have hsplit := used_split s m.id (inP cell p) hi.ids old hold hid
    have hold0 := contrib_nonneg hi (inP cell p) old hold
    have hcap := hi.cap cell p
    unfold contrib at ⊢
    split
    · rename_i hP
      simp only [inP, Bool.and_eq_true, decide_eq_true_eq] at hP
      obtain ⟨rfl, rfl⟩ := hP
      rw [hmv, hmid]
      vec_arith
    · rw [hsplit] at hcap
      vec_arith
  · intro cell p l hl
    rw [used_repl s m.id m _ hi.ids old hold hid]
    have hsplit := used_split s m.id (inPT cell p l.trait) hi.ids old hold hid
    have hold0 := contrib_nonneg hi (inPT cell p l.trait) old hold
    have hlim := hi.lim cell p l hl
    unfold contrib at ⊢
    split
    · rename_i hP
      simp only [inPT, inP, Bool.and_eq_true, decide_eq_true_eq] at hP
      obtain ⟨⟨rfl, rfl⟩, ht⟩ := hP
      have f := f2 l hl ht
      rw [hmv, hmid]
      vec_arith
    · rw [hsplit] at hlim
      vec_arith

end TmVerif.Reserve
