/-
  Executable model of `treadmill/cellsync.py`: how what the reservation API accepted (LDAP:
  partitions with limits and reboot schedules, cell allocations with assignments, servers, traits)
  is carried into ZooKeeper, where the scheduler loads it.

  Strings are `List Char` (the driver converts).  A ZooKeeper directory is an association list
  `name ↦ content` (content = the bytes of the node, always ASCII: `zkutils._payload` is
  `json.dumps(data, sort_keys=True)` with `ensure_ascii`).  Values of LDAP attributes that cellsync only
  copies travel as *JSON fragments* (the text `json.dumps` prints for that value); everything
  cellsync computes itself (the `_id` / `name` strings, the parsed reboot schedule, the filtered
  assignment list, the sorted dict / list layout) is rendered by the model, so that "the node is up to
  date" is, as in `zkutils.put(check_content=True)`, equality of the serialised bytes.

  Modelled line by line: `_sync_collection`, `sync_partitions`, `_check_assignments`,
  `sync_allocations`, `sync_servers`, `sync_traits`; `zkutils.put` (create, else compare, else set),
  `zkutils.ensure_deleted`, `zkutils.ensure_exists`, `zkutils._payload`;
  `masterapi.update_allocations` / `create_event`; `utils.reboot_schedule` (with the exact `int()` of
  `TmVerif.Units`).  `sync_server_topology` is in CellSyncTopo.lean; `sync_appgroups`' lookup databases
  are not modelled.
-/
import TmVerif.Units.Model
import TmVerif.Gen.ExtCellsync

namespace TmVerif.CellSync
open TmVerif.Units (pyInt)

abbrev Str := List Char

/-! ### ZooKeeper directory -/

/-- children of one znode: name ↦ content. -/
abbrev Dir := List (Str × Str)

def Dir.get : Dir → Str → Option Str
  | [], _ => none
  | (k, v) :: t, n => if k = n then some v else Dir.get t n

def Dir.names (d : Dir) : List Str := d.map (·.1)

/-- `zkutils.ensure_deleted(zkclient, path)` of a child (recursive: whatever is below goes too). -/
def Dir.del (d : Dir) (n : Str) : Dir := d.filter (fun e => decide (e.1 ≠ n))

/-- `zkclient.set(path, payload)`. -/
def Dir.setAll (d : Dir) (n p : Str) : Dir := d.map (fun e => if e.1 = n then (e.1, p) else e)

inductive Write
  | mkdir                      -- `ensure_path` created the directory itself
  | del (n : Str)
  | create (n p : Str)
  | set (n p : Str)
  | event (n : Str)            -- sequence node under /events
  deriving DecidableEq, Repr

/-- `zkutils.put(zkclient, path, data, check_content=True)`: create; if the node exists, read it and
    leave it alone when the bytes are equal, else set. -/
def put (d : Dir) (n p : Str) : Option Write × Dir :=
  match d.get n with
  | none => (some (.create n p), d ++ [(n, p)])
  | some c => if c = p then (none, d) else (some (.set n p), d.setAll n p)

/-- the loop `for ... : zkutils.put(...)`. -/
def putAll : List (Str × Str) → Dir → List Write × Dir
  | [], d => ([], d)
  | (n, p) :: es, d =>
    let r := put d n p
    let r2 := putAll es r.2
    (r.1.toList ++ r2.1, r2.2)

/-- `set(in_zk) - set(names)` (in directory order; Python's order is that of a set). -/
def extras (d : Dir) (keep : List Str) : List Str := d.names.filter (fun n => decide (n ∉ keep))

def delAll (d : Dir) (ns : List Str) : Dir := ns.foldl Dir.del d

/-- delete the extras, then put every entry in list order. -/
def syncCore (inZk : Dir) (es : List (Str × Str)) : List Write × Dir :=
  let dels := extras inZk (es.map (·.1))
  let r := putAll es (delAll inZk dels)
  (dels.map .del ++ r.1, r.2)

/-- with `zkclient.ensure_path(zkpath)` in front (`none` = the directory does not exist). -/
def syncDir (zk : Option Dir) (es : List (Str × Str)) : List Write × Dir :=
  match zk with
  | none => let r := syncCore [] es; (.mkdir :: r.1, r.2)
  | some d => syncCore d es

/-! ### JSON text as `json.dumps(sort_keys=True)` prints it -/

def hexDigit (n : Nat) : Char := if n < 10 then Char.ofNat (48 + n) else Char.ofNat (87 + n)

def hex4 (n : Nat) : Str :=
  [hexDigit (n / 4096 % 16), hexDigit (n / 256 % 16), hexDigit (n / 16 % 16), hexDigit (n % 16)]

/-- `ESCAPE_ASCII` of the json module for one character. -/
def jsonEsc (c : Char) : Str :=
  let n := c.toNat
  if c = '"' then ['\\', '"'] else if c = '\\' then ['\\', '\\']
  else if n = 10 then ['\\', 'n'] else if n = 13 then ['\\', 'r'] else if n = 9 then ['\\', 't']
  else if n = 8 then ['\\', 'b'] else if n = 12 then ['\\', 'f']
  else if 32 ≤ n ∧ n ≤ 126 then [c]
  else if n < 65536 then '\\' :: 'u' :: hex4 n
  else
    let v := n - 65536
    ('\\' :: 'u' :: hex4 (55296 + v / 1024)) ++ ('\\' :: 'u' :: hex4 (56320 + v % 1024))

def jsonStr (s : Str) : Str := '"' :: (s.flatMap jsonEsc ++ ['"'])

/-- a dict whose values are JSON fragments (insertion ordered, keys unique). -/
abbrev Dict := List (Str × Str)

def dictSet {α} (d : List (Str × α)) (k : Str) (v : α) : List (Str × α) :=
  match d with
  | [] => [(k, v)]
  | (k', v') :: t => if k' = k then (k', v) :: t else (k', v') :: dictSet t k v

def dictHas {α} (d : List (Str × α)) (k : Str) : Bool := d.any (fun e => decide (e.1 = k))

/-- `a < b` on `str` (code point order). -/
def strLt : Str → Str → Bool
  | _, [] => false
  | [], _ :: _ => true
  | a :: as, b :: bs => if a.toNat < b.toNat then true else if b.toNat < a.toNat then false else strLt as bs

def insertKV (e : Str × Str) : Dict → Dict
  | [] => [e]
  | h :: t => if strLt e.1 h.1 then e :: h :: t else h :: insertKV e t

def sortDict (d : Dict) : Dict := d.foldr insertKV []

def joinWith (sep : Str) : List Str → Str
  | [] => []
  | [a] => a
  | a :: b :: t => a ++ sep ++ joinWith sep (b :: t)

def renderList (l : List Str) : Str := '[' :: (joinWith [',', ' '] l ++ [']'])

def renderDict (d : Dict) : Str :=
  '{' :: (joinWith [',', ' '] ((sortDict d).map (fun e => jsonStr e.1 ++ [':', ' '] ++ e.2)) ++ ['}'])

/-! ### `_sync_collection` -/

structure Entity where
  id : Str
  /-- what `match(entity)` answers (`True` when no `match` is given). -/
  matched : Bool
  /-- the entity without `_id` (it is popped). -/
  fields : Dict
  deriving Repr, DecidableEq

/-- `to_sync`: a dict filled in list order — a repeated `_id` keeps its first position and gets the
    last value. -/
def toSync (ents : List Entity) : List (Str × Str) :=
  ents.foldl (fun d e => if e.matched then dictSet d e.id (renderDict e.fields) else d) []

def syncCollection (zk : Option Dir) (ents : List Entity) : List Write × Dir :=
  syncDir zk (toSync ents)

/-! ### `utils.reboot_schedule` -/

/-- `str.split(c)` for a one-character separator. -/
def splitOn (c : Char) : Str → List Str
  | [] => [[]]
  | x :: xs =>
    if x = c then [] :: splitOn c xs
    else match splitOn c xs with
      | h :: t => (x :: h) :: t
      | [] => [[x]]

def dayNames : List Str := ExtCellsync.days.map String.toList

/-- `days.index(x)`; `none` = ValueError. -/
def dayIndex (x : Str) : Option Nat :=
  let i := dayNames.idxOf x
  if i < dayNames.length then some i else none

abbrev Tod := Nat × Nat × Nat

/-- `parse_tod`; `none` = ValueError (from `int`, from the unpacking or from a bound). -/
def parseTod (tod : Str) : Option Tod :=
  match (splitOn ':' tod).mapM pyInt with
  | some [h, m, s] =>
    if 0 ≤ h ∧ h ≤ (ExtCellsync.maxH : Int) ∧ 0 ≤ m ∧ m ≤ (ExtCellsync.maxM : Int) ∧
       0 ≤ s ∧ s ≤ (ExtCellsync.maxS : Int)
    then some (h.toNat, m.toNat, s.toNat) else none
  | _ => none

/-- `parse_entry`. -/
def parseEntry (entry : Str) : Option (Nat × Tod) :=
  if entry ∈ dayNames then (dayIndex entry).map (fun i => (i, ExtCellsync.defaultTod))
  else match splitOn '/' entry with
    | [day, tod] =>
      match dayIndex day with
      | none => none
      | some i => (parseTod tod).map (fun t => (i, t))
    | _ => none

def schedSet (d : List (Nat × Tod)) (k : Nat) (v : Tod) : List (Nat × Tod) :=
  match d with
  | [] => [(k, v)]
  | (k', v') :: t => if k' = k then (k', v) :: t else (k', v') :: schedSet t k v

def schedGet : List (Nat × Tod) → Nat → Option Tod
  | [], _ => none
  | (k, v) :: t, n => if k = n then some v else schedGet t n

/-- `utils.reboot_schedule(value)`: weekday ↦ (h, m, s), a dict in insertion order;
    `none` = ValueError. -/
def rebootSchedule (value : Str) : Option (List (Nat × Tod)) :=
  ((splitOn ',' value).mapM parseEntry).map (fun es => es.foldl (fun d e => schedSet d e.1 e.2) [])

def natStr (n : Nat) : Str := (toString n).toList

/-- JSON of the parsed schedule: int keys sorted, then printed as strings; tuples as lists. -/
def renderSched (r : List (Nat × Tod)) : Str :=
  '{' :: (joinWith [',', ' '] ((List.range dayNames.length).filterMap (fun d =>
    (schedGet r d).map (fun t => jsonStr (natStr d) ++ [':', ' '] ++
      renderList [natStr t.1, natStr t.2.1, natStr t.2.2]))) ++ ['}'])

/-! ### `sync_partitions` -/

structure Partition where
  id : Str
  /-- the `reboot-schedule` attribute (`none` = key absent). -/
  sched : Option Str
  /-- every other key, as JSON fragments. -/
  fields : Dict
  deriving Repr, DecidableEq

def kId : Str := "_id".toList
def kSched : Str := "reboot-schedule".toList
def kName : Str := "name".toList
def kAssignments : Str := "assignments".toList

/-- the dict that is written for a partition: `_id` stays in it; the schedule string is replaced by
    what `utils.reboot_schedule` returns, or dropped on ValueError. -/
def partDict (p : Partition) : Dict :=
  let base := dictSet p.fields kId (jsonStr p.id)
  match p.sched with
  | none => base
  | some s =>
    match rebootSchedule s with
    | some r => dictSet base kSched (renderSched r)
    | none => base

def partEntry (p : Partition) : Str × Str := (p.id, renderDict (partDict p))

def syncPartitions (zk : Option Dir) (parts : List Partition) : List Write × Dir :=
  syncDir zk (parts.map partEntry)

/-! ### `sync_allocations` -/

inductive Asg
  | absent
  | null
  | list (l : List Dict)
  deriving Repr, DecidableEq

structure Alloc where
  id : Str
  asg : Asg
  /-- every other key (cpu, memory, disk, partition, traits, rank, ...), as JSON fragments. -/
  fields : Dict
  deriving Repr, DecidableEq

/-- `_id.rsplit('/', 1)`; `none` = the unpacking raises ValueError (no `/`). -/
def rsplit1 (s : Str) : Option (Str × Str) :=
  let r := s.reverse
  match r.dropWhile (· ≠ '/') with
  | [] => none
  | _ :: pre => some (pre.reverse, (r.takeWhile (· ≠ '/')).reverse)

def asgKeys : List Str := ExtCellsync.assignmentKeys.map String.toList

/-- the test of `_check_assignments`. -/
def wfAsg (a : Dict) : Bool := asgKeys.all (dictHas a)

/-- the dict appended to `filtered` for one allocation. -/
def outAlloc (a : Alloc) : Option Dict :=
  match rsplit1 a.id with
  | none => none
  | some (name, _) =>
    let d := dictSet (dictSet a.fields kId (jsonStr a.id)) kName (jsonStr name)
    some (match a.asg with
      | .absent => d
      | .null => dictSet d kAssignments "null".toList
      | .list l => dictSet d kAssignments (renderList ((l.filter wfAsg).map renderDict)))

/-- `/allocations`, and the event queue `update_allocations` posts to. -/
structure AllocZk where
  node : Option Str
  events : List Str
  seq : Nat
  deriving Repr, DecidableEq

def pad10 (n : Nat) : Str :=
  let s := natStr n
  List.replicate (10 - s.length) '0' ++ s

def eventName (seq : Nat) : Str := ExtCellsync.allocEventPrefix.toList ++ pad10 seq

def postEvent (zk : AllocZk) (node : Str) : AllocZk :=
  { node := some node, events := zk.events ++ [eventName zk.seq], seq := zk.seq + 1 }

def allocPayload (outs : List Dict) : Str := renderList (outs.map renderDict)

/-- `masterapi.update_allocations`: put with check_content; an event only after a write. -/
def updateAllocations (zk : AllocZk) (payload : Str) : List Write × AllocZk :=
  match zk.node with
  | none => ([.create [] payload, .event (eventName zk.seq)], postEvent zk payload)
  | some c =>
    if c = payload then ([], zk)
    else ([.set [] payload, .event (eventName zk.seq)], postEvent zk payload)

/-- `sync_allocations`; `none` = ValueError before anything is written. -/
def syncAllocations (zk : AllocZk) (allocs : List Alloc) : Option (List Write × AllocZk) :=
  (allocs.mapM outAlloc).map (fun outs => updateAllocations zk (allocPayload outs))

/-! ### `sync_servers`, `sync_traits` (`zkutils.ensure_exists`) -/

/-- argument of `zkutils._payload`. -/
inductive Data
  | none                 -- None ↦ b''
  | str (s : Str)        -- a str is written raw
  | json (frag : Str)    -- anything else: its JSON text
  deriving Repr, DecidableEq

def payloadOf : Data → Str
  | .none => []
  | .str s => s
  | .json f => f

/-- `zkutils.ensure_exists(zkclient, path, data=data)`: create; an existing node is set unless
    `data is None`. -/
def ensureExists (node : Option Str) (data : Data) : List Write × Option Str :=
  match node with
  | none => ([.create [] (payloadOf data)], some (payloadOf data))
  | some c =>
    match data with
    | .none => ([], some c)
    | _ => ([.set [] (payloadOf data)], some (payloadOf data))

def syncServers (node : Option Str) (ids : List Str) : List Write × Option Str :=
  ensureExists node (.json (renderList (ids.map jsonStr)))

def syncTraits (node : Option Str) (traits : Data) : List Write × Option Str :=
  ensureExists node traits

end TmVerif.CellSync
