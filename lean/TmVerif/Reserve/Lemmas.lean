/-
  Lemmas for C19: under well-formedness (every stored string the check reads parses) the
  string-level `checkCapacity` decides exactly the integer inequalities of the statement, and
  fails with `InvalidInputError` only.
-/
import TmVerif.Reserve.Model
import TmVerif.Units.Lemmas

namespace TmVerif.Reserve
open TmVerif.Units TmVerif.ExtReserve

/-! ### `Vec` arithmetic -/

@[simp] theorem Vec.sub_cpu (a b : Vec) : (a - b).cpu = a.cpu - b.cpu := rfl
@[simp] theorem Vec.sub_disk (a b : Vec) : (a - b).disk = a.disk - b.disk := rfl
@[simp] theorem Vec.sub_mem (a b : Vec) : (a - b).mem = a.mem - b.mem := rfl
@[simp] theorem Vec.add_cpu (a b : Vec) : (a + b).cpu = a.cpu + b.cpu := rfl
@[simp] theorem Vec.add_disk (a b : Vec) : (a + b).disk = a.disk + b.disk := rfl
@[simp] theorem Vec.add_mem (a b : Vec) : (a + b).mem = a.mem + b.mem := rfl
@[simp] theorem Vec.zero_cpu : Vec.zero.cpu = 0 := rfl
@[simp] theorem Vec.zero_disk : Vec.zero.disk = 0 := rfl
@[simp] theorem Vec.zero_mem : Vec.zero.mem = 0 := rfl
theorem Vec.le_def (a b : Vec) : a ≤ b ↔ a.cpu ≤ b.cpu ∧ a.disk ≤ b.disk ∧ a.mem ≤ b.mem := Iff.rfl

instance (a b : Vec) : Decidable (a ≤ b) :=
  inferInstanceAs (Decidable (a.cpu ≤ b.cpu ∧ a.disk ≤ b.disk ∧ a.mem ≤ b.mem))

/-- Sum of a list of vectors. -/
def vsum : List Vec → Vec
  | [] => Vec.zero
  | v :: vs => v + vsum vs

@[simp] theorem vsum_nil : vsum [] = Vec.zero := rfl
@[simp] theorem vsum_cons (v : Vec) (vs : List Vec) : vsum (v :: vs) = v + vsum vs := rfl

theorem vsum_append (a b : List Vec) : vsum (a ++ b) = vsum a + vsum b := by
  induction a with
  | nil => ext <;> simp
  | cons v vs ih => rw [List.cons_append, vsum_cons, ih, vsum_cons]; ext <;> simp <;> omega

theorem Vec.sub_add (f v s : Vec) : f - v - s = f - (v + s) := by ext <;> simp <;> omega
theorem Vec.sub_zero (f : Vec) : f - Vec.zero = f := by ext <;> simp

/-- Spec-side reading of a parse result; only used under the well-formedness hypotheses, where
    it is the parsed value. -/
def vecOf : Except Err Vec → Vec
  | .ok v => v
  | .error _ => Vec.zero

def Resv.vec (r : Resv) : Vec := vecOf r.vec?
def Limit.vec (l : Limit) : Vec := vecOf l.vec?
def PartObj.vec (p : PartObj) : Vec := vecOf p.vec?

theorem Resv.vec_of_ok {r : Resv} {v : Vec} (h : r.vec? = .ok v) : r.vec = v := by
  simp [Resv.vec, vecOf, h]
theorem Limit.vec_of_ok {l : Limit} {v : Vec} (h : l.vec? = .ok v) : l.vec = v := by
  simp [Limit.vec, vecOf, h]
theorem PartObj.vec_of_ok {p : PartObj} {v : Vec} (h : p.vec? = .ok v) : p.vec = v := by
  simp [PartObj.vec, vecOf, h]

/-! ### `_calc_free` -/

theorem subAllocs_ok (old : Name × Name) (allocs : List Resv) (f : Vec)
    (hwf : ∀ a ∈ allocs, a.id ≠ old → ∃ v, a.vec? = .ok v) :
    subAllocs old f allocs = .ok (f - vsum ((allocs.filter (fun a => a.id ≠ old)).map Resv.vec)) := by
  induction allocs generalizing f with
  | nil => simp [subAllocs, Vec.sub_zero]
  | cons a as ih =>
    have ih' := fun f => ih f (fun x hx => hwf x (List.mem_cons_of_mem _ hx))
    by_cases hid : a.id = old
    · simp [subAllocs, hid, ih']
    · obtain ⟨v, hv⟩ := hwf a List.mem_cons_self hid
      simp only [subAllocs, if_neg hid, hv, ih']
      simp [hid, Resv.vec_of_ok hv, Vec.sub_add]

/-! ### `_check_limit` -/

/-- The request's three quantities are present and parse to `v`. -/
def CReq.ParsesTo (rq : CReq) (v : Vec) : Prop :=
  ∃ c d m, rq.cpu = some c ∧ rq.disk = some d ∧ rq.mem = some m ∧
    cpuUnits c = .ok v.cpu ∧ sizeToBytes d = .ok v.disk ∧ sizeToBytes m = .ok v.mem

/-- `_check_limit` accepts iff the request is componentwise within `free`; otherwise it raises
    the input error. -/
theorem checkLimit_spec (free : Vec) (rq : CReq) (t : Option Name) (v : Vec) (h : rq.ParsesTo v) :
    (v ≤ free ∧ checkLimit free rq t = .ok ()) ∨
    (¬ v ≤ free ∧ ∃ r, checkLimit free rq t = .error (.invalidInput r t)) := by
  obtain ⟨c, d, m, hc, hd, hm, pc, pd, pm⟩ := h
  simp only [checkLimit, hc, hd, hm, pc, pd, pm, liftPy, Vec.le_def]
  by_cases h1 : v.cpu > free.cpu
  · right; rw [if_pos h1]; exact ⟨by omega, _, rfl⟩
  · rw [if_neg h1]
    by_cases h2 : v.disk > free.disk
    · right; rw [if_pos h2]; exact ⟨by omega, _, rfl⟩
    · rw [if_neg h2]
      by_cases h3 : v.mem > free.mem
      · right; rw [if_pos h3]; exact ⟨by omega, _, rfl⟩
      · left; rw [if_neg h3]; exact ⟨by omega, rfl⟩

/-! ### Python dict keyed by trait -/

theorem dictGet_set_self (k : Name) (v : Vec) (d : Dict) : dictGet k (dictSet k v d) = some v := by
  induction d with
  | nil => simp [dictSet, dictGet]
  | cons p t ih =>
    obtain ⟨k', v'⟩ := p
    by_cases h : k' = k
    · simp [dictSet, dictGet, h]
    · simp [dictSet, dictGet, h, ih]

theorem dictGet_set_other (k k' : Name) (v : Vec) (d : Dict) (h : k' ≠ k) :
    dictGet k' (dictSet k v d) = dictGet k' d := by
  induction d with
  | nil => simp [dictSet, dictGet, Ne.symm h]
  | cons p t ih =>
    obtain ⟨k2, v2⟩ := p
    by_cases h2 : k2 = k
    · subst h2
      simp [dictSet, dictGet, Ne.symm h]
    · by_cases h3 : k2 = k'
      · subst h3
        simp [dictSet, dictGet, h2]
      · simp [dictSet, dictGet, h2, h3, ih]

/-- Pure version of the first loop of `_calc_free_traits`. -/
def initT : List Limit → Dict → Dict
  | [], d => d
  | l :: ls, d => initT ls (dictSet l.trait l.vec d)

theorem initTraits_ok (ls : List Limit) (d : Dict) (hwf : ∀ l ∈ ls, ∃ v, l.vec? = .ok v) :
    initTraits ls d = .ok (initT ls d) := by
  induction ls generalizing d with
  | nil => rfl
  | cons l ls ih =>
    obtain ⟨v, hv⟩ := hwf l List.mem_cons_self
    simp only [initTraits, hv, initT, Limit.vec_of_ok hv]
    exact ih _ (fun x hx => hwf x (List.mem_cons_of_mem _ hx))

theorem dictGet_initT_other (ls : List Limit) (d : Dict) (t : Name) (h : t ∉ ls.map (·.trait)) :
    dictGet t (initT ls d) = dictGet t d := by
  induction ls generalizing d with
  | nil => rfl
  | cons l ls ih =>
    simp only [List.map_cons, List.mem_cons, not_or] at h
    rw [initT, ih _ h.2, dictGet_set_other _ _ _ _ h.1]

theorem dictGet_initT (ls : List Limit) (d : Dict) (hnd : (ls.map (·.trait)).Nodup) (l : Limit)
    (hl : l ∈ ls) : dictGet l.trait (initT ls d) = some l.vec := by
  induction ls generalizing d with
  | nil => cases hl
  | cons x xs ih =>
    simp only [List.map_cons, List.nodup_cons] at hnd
    rcases List.mem_cons.mp hl with rfl | hl
    · rw [initT, dictGet_initT_other _ _ _ hnd.1, dictGet_set_self]
    · exact ih _ hnd.2 hl

/-- Pure version of the per-allocation inner loop. -/
def subT1 (v : Vec) : List Name → Dict → Dict
  | [], d => d
  | t :: ts, d =>
    match dictGet t d with
    | none => subT1 v ts d
    | some f => subT1 v ts (dictSet t (f - v) d)

theorem subTraits1_ok (a : Resv) (v : Vec) (hv : a.vec? = .ok v) (ts : List Name) (d : Dict) :
    subTraits1 a ts d = .ok (subT1 v ts d) := by
  induction ts generalizing d with
  | nil => rfl
  | cons t ts ih =>
    simp only [subTraits1, subT1]
    cases dictGet t d with
    | none => exact ih d
    | some f => simp only [hv]; exact ih _

theorem dictGet_subT1 (v : Vec) (ts : List Name) (hnd : ts.Nodup) (d : Dict) (t : Name) :
    dictGet t (subT1 v ts d) =
      if t ∈ ts then (dictGet t d).map (fun f => f - v) else dictGet t d := by
  induction ts generalizing d with
  | nil => simp [subT1]
  | cons x xs ih =>
    simp only [List.nodup_cons] at hnd
    simp only [subT1]
    cases hx : dictGet x d with
    | none =>
      simp only [ih hnd.2]
      by_cases htx : t = x
      · subst htx; simp [hnd.1, hx]
      · simp [htx]
    | some f =>
      simp only [ih hnd.2]
      by_cases htx : t = x
      · subst htx; simp [hnd.1, dictGet_set_self, hx]
      · simp [htx, dictGet_set_other _ _ _ _ htx]

/-- Pure version of the second loop of `_calc_free_traits`. -/
def subT (old : Name × Name) : List Resv → Dict → Dict
  | [], d => d
  | a :: as, d => if a.id = old then subT old as d else subT old as (subT1 a.vec a.traits d)

theorem subTraits_ok (old : Name × Name) (allocs : List Resv) (d : Dict)
    (hwf : ∀ a ∈ allocs, a.id ≠ old → ∃ v, a.vec? = .ok v) :
    subTraits old allocs d = .ok (subT old allocs d) := by
  induction allocs generalizing d with
  | nil => rfl
  | cons a as ih =>
    have ih' := fun d => ih d (fun x hx => hwf x (List.mem_cons_of_mem _ hx))
    by_cases hid : a.id = old
    · simp [subTraits, subT, hid, ih']
    · obtain ⟨v, hv⟩ := hwf a List.mem_cons_self hid
      simp only [subTraits, subT, if_neg hid, subTraits1_ok a v hv, Resv.vec_of_ok hv, ih']

theorem dictGet_subT (old : Name × Name) (allocs : List Resv) (d : Dict) (t : Name)
    (hnd : ∀ a ∈ allocs, a.id ≠ old → a.traits.Nodup) :
    dictGet t (subT old allocs d) = (dictGet t d).map (fun f =>
      f - vsum ((allocs.filter (fun a => a.id ≠ old ∧ t ∈ a.traits)).map Resv.vec)) := by
  induction allocs generalizing d with
  | nil => simp [subT, Vec.sub_zero]
  | cons a as ih =>
    have ih' := fun d => ih d (fun x hx => hnd x (List.mem_cons_of_mem _ hx))
    by_cases hid : a.id = old
    · simp [subT, hid, ih']
    · simp only [subT, if_neg hid, ih', dictGet_subT1 _ _ (hnd a List.mem_cons_self hid)]
      by_cases ht : t ∈ a.traits
      · cases dictGet t d with
        | none => simp [ht]
        | some f => simp [ht, hid, Vec.sub_add]
      · simp [ht]

/-! ### the trait loop of `_check_capacity` -/

theorem checkTraitLimits_spec (fbt : Dict) (rq : CReq) (v : Vec) (h : rq.ParsesTo v)
    (ls : List Limit) (free : Limit → Vec) (hf : ∀ l ∈ ls, dictGet l.trait fbt = some (free l)) :
    ((∀ l ∈ ls, v ≤ free l) ∧ checkTraitLimits fbt rq ls = .ok ()) ∨
    (¬ (∀ l ∈ ls, v ≤ free l) ∧ ∃ r t, checkTraitLimits fbt rq ls = .error (.invalidInput r t)) := by
  induction ls with
  | nil => left; exact ⟨by simp, rfl⟩
  | cons l ls ih =>
    have hl := hf l List.mem_cons_self
    simp only [checkTraitLimits, hl]
    rcases checkLimit_spec (free l) rq (some l.trait) v h with ⟨hle, hok⟩ | ⟨hnle, r, herr⟩
    · rw [hok]
      rcases ih (fun x hx => hf x (List.mem_cons_of_mem _ hx)) with ⟨hall, hok2⟩ | ⟨hnall, r, t, herr⟩
      · left
        refine ⟨?_, hok2⟩
        intro x hx
        rcases List.mem_cons.mp hx with rfl | hx
        · exact hle
        · exact hall x hx
      · right
        exact ⟨fun hh => hnall (fun x hx => hh x (List.mem_cons_of_mem _ hx)), r, t, herr⟩
    · right
      rw [herr]
      exact ⟨fun hh => hnle (hh l List.mem_cons_self), r, _, rfl⟩

/-! ### `_check_capacity` -/

/-- "All other reservations of the same cell and partition (the one being replaced excluded)". -/
def others (store : List Resv) (cell p alloc : Name) : List Resv :=
  store.filter (fun r => r.cell = cell ∧ r.part = p ∧ r.alloc ≠ alloc)

theorem listAllocs_filter_old (store : List Resv) (cell p alloc : Name) :
    (listAllocs store cell (some p)).filter (fun a => a.id ≠ (alloc, cell)) = others store cell p alloc := by
  simp only [listAllocs, others, List.filter_filter]
  apply List.filter_congr
  intro r _
  simp only [Resv.id, ne_eq, Prod.mk.injEq, not_and]
  by_cases hc : r.cell = cell <;> by_cases hp : r.part = p <;> by_cases ha : r.alloc = alloc <;>
    simp [hc, hp, ha]

theorem listAllocs_filter_old_trait (store : List Resv) (cell p alloc t : Name) :
    (listAllocs store cell (some p)).filter (fun a => a.id ≠ (alloc, cell) ∧ t ∈ a.traits) =
      (others store cell p alloc).filter (fun r => t ∈ r.traits) := by
  simp only [listAllocs, others, List.filter_filter]
  apply List.filter_congr
  intro r _
  simp only [Resv.id, ne_eq, Prod.mk.injEq, not_and]
  by_cases hc : r.cell = cell <;> by_cases hp : r.part = p <;> by_cases ha : r.alloc = alloc <;>
    by_cases ht : t ∈ r.traits <;> simp [hc, hp, ha, ht]

theorem mem_listAllocs {store : List Resv} {cell p : Name} {a : Resv}
    (h : a ∈ listAllocs store cell (some p)) : a ∈ store ∧ a.cell = cell ∧ a.part = p := by
  simp only [listAllocs, List.mem_filter, Bool.and_eq_true, decide_eq_true_eq] at h
  exact ⟨h.1, h.2.1, h.2.2⟩

theorem mem_others {store : List Resv} {cell p alloc : Name} {a : Resv} :
    a ∈ others store cell p alloc ↔ a ∈ store ∧ a.cell = cell ∧ a.part = p ∧ a.alloc ≠ alloc := by
  simp [others, List.mem_filter]

/-- What `_check_capacity` needs to run without a parse error or an ambiguous table:
    the partition object, its limits and every other reservation it reads parse, limit traits
    are distinct and the other reservations' trait lists are duplicate-free. -/
structure WFCheck (parts : List Part) (store : List Resv) (cell p alloc : Name) : Prop where
  part   : ∃ v, (partitionGet parts (some p) cell).vec? = .ok v
  limits : ∀ l ∈ (partitionGet parts (some p) cell).limits, ∃ v, l.vec? = .ok v
  ltraits : ((partitionGet parts (some p) cell).limits.map (·.trait)).Nodup
  resv   : ∀ r ∈ others store cell p alloc, ∃ v, r.vec? = .ok v
  rtraits : ∀ r ∈ others store cell p alloc, r.traits.Nodup

/-- The statement's two conditions, as integer inequalities. -/
def FitsOverall (parts : List Part) (store : List Resv) (cell p alloc : Name) (v : Vec) : Prop :=
  v + vsum ((others store cell p alloc).map Resv.vec) ≤ (partitionGet parts (some p) cell).vec

def FitsTrait (store : List Resv) (cell p alloc : Name) (v : Vec) (l : Limit) : Prop :=
  v + vsum (((others store cell p alloc).filter (fun r => l.trait ∈ r.traits)).map Resv.vec) ≤ l.vec

def Fits (parts : List Part) (store : List Resv) (cell p alloc : Name) (traits : List Name) (v : Vec) : Prop :=
  FitsOverall parts store cell p alloc v ∧
  ∀ l ∈ (partitionGet parts (some p) cell).limits, l.trait ∈ traits → FitsTrait store cell p alloc v l

theorem Vec.le_sub_iff (v f s : Vec) : v ≤ f - s ↔ v + s ≤ f := by
  simp only [Vec.le_def, Vec.sub_cpu, Vec.sub_disk, Vec.sub_mem, Vec.add_cpu, Vec.add_disk, Vec.add_mem]
  omega

/-- Under well-formedness `_check_capacity` decides `Fits`, and its only failure is the input
    error. -/
theorem checkCapacity_spec (parts : List Part) (store : List Resv) (cell alloc p : Name) (rq : CReq)
    (v : Vec) (hp : rq.part = some (some p)) (hv : rq.ParsesTo v)
    (wf : WFCheck parts store cell p alloc) :
    (Fits parts store cell p alloc rq.traitList v ∧ checkCapacity parts store cell alloc rq = .ok ()) ∨
    (¬ Fits parts store cell p alloc rq.traitList v ∧
      ∃ r t, checkCapacity parts store cell alloc rq = .error (.invalidInput r t)) := by
  obtain ⟨pv, hpv⟩ := wf.part
  have hres : ∀ a ∈ listAllocs store cell (some p), a.id ≠ (alloc, cell) → ∃ v, a.vec? = .ok v := by
    intro a ha hid
    obtain ⟨hs, hc, hpp⟩ := mem_listAllocs ha
    apply wf.resv a
    rw [mem_others]
    refine ⟨hs, hc, hpp, ?_⟩
    intro e; apply hid; simp [Resv.id, e, hc]
  have hnd : ∀ a ∈ listAllocs store cell (some p), a.id ≠ (alloc, cell) → a.traits.Nodup := by
    intro a ha hid
    obtain ⟨hs, hc, hpp⟩ := mem_listAllocs ha
    apply wf.rtraits a
    rw [mem_others]
    refine ⟨hs, hc, hpp, ?_⟩
    intro e; apply hid; simp [Resv.id, e, hc]
  simp only [checkCapacity, hp, calcFree, hpv, subAllocs_ok _ _ _ hres, listAllocs_filter_old]
  unfold Fits FitsOverall
  rw [PartObj.vec_of_ok hpv]
  rcases checkLimit_spec (pv - vsum ((others store cell p alloc).map Resv.vec)) rq none v hv with
    ⟨hle, hok⟩ | ⟨hnle, r, herr⟩
  · rw [hok]
    simp only []
    -- the per-trait part
    have hlim : ∀ l ∈ (partitionGet parts (some p) cell).limits.filter (fun l => l.trait ∈ rq.traitList),
        ∃ v, l.vec? = .ok v := fun l hl => wf.limits l (List.mem_filter.mp hl).1
    have hlnd : (((partitionGet parts (some p) cell).limits.filter
        (fun l => l.trait ∈ rq.traitList)).map (·.trait)).Nodup :=
      (List.Sublist.map _ (List.filter_sublist)).nodup wf.ltraits
    simp only [calcFreeTraits, initTraits_ok _ _ hlim, subTraits_ok _ _ _ hres]
    have hget : ∀ l ∈ (partitionGet parts (some p) cell).limits.filter (fun l => l.trait ∈ rq.traitList),
        dictGet l.trait (subT (alloc, cell) (listAllocs store cell (some p))
          (initT ((partitionGet parts (some p) cell).limits.filter (fun l => l.trait ∈ rq.traitList)) [])) =
        some (l.vec - vsum (((others store cell p alloc).filter (fun r => l.trait ∈ r.traits)).map Resv.vec)) := by
      intro l hl
      rw [dictGet_subT _ _ _ _ hnd, dictGet_initT _ _ hlnd l hl, listAllocs_filter_old_trait]
      rfl
    rcases checkTraitLimits_spec _ rq v hv _ _ hget with ⟨hall, hok2⟩ | ⟨hnall, r, t, herr⟩
    · left
      refine ⟨⟨(Vec.le_sub_iff _ _ _).mp hle, ?_⟩, hok2⟩
      intro l hl ht
      exact (Vec.le_sub_iff _ _ _).mp (hall l (List.mem_filter.mpr ⟨hl, by simpa using ht⟩))
    · right
      refine ⟨?_, r, t, herr⟩
      intro hf
      apply hnall
      intro l hl
      obtain ⟨hl1, hl2⟩ := List.mem_filter.mp hl
      exact (Vec.le_sub_iff _ _ _).mpr (hf.2 l hl1 (by simpa using hl2))
  · right
    rw [herr]
    exact ⟨fun hf => hnle ((Vec.le_sub_iff _ _ _).mpr hf.1), r, none, rfl⟩

end TmVerif.Reserve
