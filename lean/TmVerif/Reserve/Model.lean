/-
  Model of the reservation capacity check of `treadmill.api.allocation` (C19):
  `_check_capacity`, `_calc_free`, `_calc_free_traits`, `_check_limit`, `_partition_get`, and the
  `create` / `update` closures of `_ReservationAPI` (schema validation, `rsplit`, default
  partition, default rank, dict merge on update) over an in-memory store that stands for the
  admin backend (`_admin_cell_alloc()`: list/get/create/update; `_admin_partition()`: get).

  Quantities are the strings the code handles (`'10%'`, `'2G'`), parsed by the models of
  `utils.cpu_units` / `utils.size_to_bytes` (`TmVerif.Units`) at exactly the points where the
  code parses them, so that a malformed stored string fails where Python fails.
  Names (cells, partitions, traits, allocations) are character lists.
-/
import TmVerif.Units.Model

namespace TmVerif.Reserve
open TmVerif.Units TmVerif.ExtReserve

abbrev Name := List Char

def ofCodes (l : List Nat) : List Char := l.map Char.ofNat

inductive Rsrc | cpu | disk | memory
  deriving DecidableEq, Repr

/-- What a call can raise. -/
inductive Err
  | invalidInput (r : Rsrc) (trait : Option Name)   -- exc.InvalidInputError('Not enough <r> capacity…')
  | py (e : PyErr)                                   -- ValueError / IndexError from a unit parser
  | keyError                                         -- a missing dict key
  | schema                                           -- jsonschema ValidationError
  | badId                                            -- ValueError: rsrc_id without '/'
  | notFound                                         -- admin NoSuchObjectResult (update of a missing id)
  | alreadyExists                                    -- admin AlreadyExistsResult (create of an existing id)
  deriving DecidableEq, Repr

/-- cpu (BMIPS %), disk (bytes), memory (bytes) — the three independent dimensions. -/
@[ext] structure Vec where
  cpu : Int
  disk : Int
  mem : Int
  deriving DecidableEq, Repr

instance : Sub Vec := ⟨fun a b => ⟨a.cpu - b.cpu, a.disk - b.disk, a.mem - b.mem⟩⟩
instance : Add Vec := ⟨fun a b => ⟨a.cpu + b.cpu, a.disk + b.disk, a.mem + b.mem⟩⟩
instance : LE Vec := ⟨fun a b => a.cpu ≤ b.cpu ∧ a.disk ≤ b.disk ∧ a.mem ≤ b.mem⟩
def Vec.zero : Vec := ⟨0, 0, 0⟩

/-- A stored reservation, as `_admin_cell_alloc().list/get` return it. -/
structure Resv where
  alloc   : Name                 -- '<tenant>/<allocation>'
  cell    : Name
  part    : Name
  cpu     : List Char
  mem     : List Char
  disk    : List Char
  traits  : List Name
  rank    : Option Int
  rankAdj : Option Int
  maxUtil : Option Int
  deriving DecidableEq, Repr

/-- `alloc['_id']` is `'<alloc>/<cell>'`; it is compared with `old_id = '{0}/{1}'.format(allocation, cell)`. -/
def Resv.id (r : Resv) : Name × Name := (r.alloc, r.cell)

structure Limit where
  trait : Name
  cpu   : List Char
  disk  : List Char
  mem   : List Char
  deriving DecidableEq, Repr

structure Part where
  name   : Name
  cell   : Name
  cpu    : List Char
  disk   : List Char
  mem    : List Char
  limits : List Limit
  deriving DecidableEq, Repr

/-- The object `_partition_get` hands to `_check_capacity`. -/
structure PartObj where
  cpu    : List Char
  disk   : List Char
  mem    : List Char
  limits : List Limit
  deriving DecidableEq, Repr

/-- "pretend partition has zero capacity" (strings extracted from the source). -/
def zeroPart : PartObj := ⟨ofCodes zeroCpu, ofCodes zeroDisk, ofCodes zeroMemory, []⟩

/-- `_partition_get(partition, cell)`; a `null` partition names no partition object. -/
def partitionGet (parts : List Part) (p : Option Name) (cell : Name) : PartObj :=
  match p with
  | none => zeroPart
  | some p =>
    match parts.find? (fun q => q.name = p ∧ q.cell = cell) with
    | some q => ⟨q.cpu, q.disk, q.mem, q.limits⟩
    | none => zeroPart

/-- `_admin_cell_alloc().list({'cell': cell, 'partition': partition})`; a `None` attribute is
    not part of the filter. -/
def listAllocs (store : List Resv) (cell : Name) (p : Option Name) : List Resv :=
  store.filter (fun r => decide (r.cell = cell) && (match p with
    | none => true
    | some p => decide (r.part = p)))

/-- The request dict as `_check_capacity` uses it (`none` = key missing). -/
structure CReq where
  cpu    : Option (List Char)
  disk   : Option (List Char)
  mem    : Option (List Char)
  part   : Option (Option Name)      -- `some none` = null
  traits : Option (List Name)
  deriving DecidableEq, Repr

def liftPy {α} : Except PyErr α → Except Err α
  | .ok a => .ok a
  | .error e => .error (.py e)

/-- cpu, disk, memory of one object, parsed in the order the code parses them. -/
def parse3 (cpu disk mem : List Char) : Except Err Vec :=
  match liftPy (cpuUnits cpu) with
  | .error e => .error e
  | .ok c =>
    match liftPy (sizeToBytes disk) with
    | .error e => .error e
    | .ok d =>
      match liftPy (sizeToBytes mem) with
      | .error e => .error e
      | .ok m => .ok ⟨c, d, m⟩

def Resv.vec? (r : Resv) : Except Err Vec := parse3 r.cpu r.disk r.mem
def Limit.vec? (l : Limit) : Except Err Vec := parse3 l.cpu l.disk l.mem
def PartObj.vec? (p : PartObj) : Except Err Vec := parse3 p.cpu p.disk p.mem

/-- the loop of `_calc_free`: subtract every allocation except the one with `old_id`. -/
def subAllocs (old : Name × Name) : Vec → List Resv → Except Err Vec
  | f, [] => .ok f
  | f, a :: as =>
    if a.id = old then subAllocs old f as
    else
      match a.vec? with
      | .error e => .error e
      | .ok v => subAllocs old (f - v) as

/-- `_calc_free(limit, allocs, old_id)` -/
def calcFree (p : PartObj) (allocs : List Resv) (old : Name × Name) : Except Err Vec :=
  match p.vec? with
  | .error e => .error e
  | .ok f => subAllocs old f allocs

/-- `_check_limit(limit, request, extra_info)`: parse and compare cpu, then disk, then memory. -/
def checkLimit (free : Vec) (rq : CReq) (trait : Option Name) : Except Err Unit :=
  match rq.cpu with
  | none => .error .keyError
  | some cpu =>
    match liftPy (cpuUnits cpu) with
    | .error e => .error e
    | .ok c =>
      if c > free.cpu then .error (.invalidInput .cpu trait) else
      match rq.disk with
      | none => .error .keyError
      | some disk =>
        match liftPy (sizeToBytes disk) with
        | .error e => .error e
        | .ok d =>
          if d > free.disk then .error (.invalidInput .disk trait) else
          match rq.mem with
          | none => .error .keyError
          | some mem =>
            match liftPy (sizeToBytes mem) with
            | .error e => .error e
            | .ok m =>
              if m > free.mem then .error (.invalidInput .memory trait) else .ok ()

/-! Python dict keyed by trait. -/
abbrev Dict := List (Name × Vec)

def dictGet (k : Name) : Dict → Option Vec
  | [] => none
  | (k', v) :: t => if k' = k then some v else dictGet k t

def dictSet (k : Name) (v : Vec) : Dict → Dict
  | [] => [(k, v)]
  | (k', v') :: t => if k' = k then (k, v) :: t else (k', v') :: dictSet k v t

/-- first loop of `_calc_free_traits`: `free[limit['trait']] = {...}` -/
def initTraits : List Limit → Dict → Except Err Dict
  | [], d => .ok d
  | l :: ls, d =>
    match l.vec? with
    | .error e => .error e
    | .ok v => initTraits ls (dictSet l.trait v d)

/-- `for trait in alloc['traits']: if trait in free: free[trait] -= alloc` -/
def subTraits1 (a : Resv) : List Name → Dict → Except Err Dict
  | [], d => .ok d
  | t :: ts, d =>
    match dictGet t d with
    | none => subTraits1 a ts d
    | some f =>
      match a.vec? with
      | .error e => .error e
      | .ok v => subTraits1 a ts (dictSet t (f - v) d)

def subTraits (old : Name × Name) : List Resv → Dict → Except Err Dict
  | [], d => .ok d
  | a :: as, d =>
    if a.id = old then subTraits old as d
    else
      match subTraits1 a a.traits d with
      | .error e => .error e
      | .ok d' => subTraits old as d'

/-- `_calc_free_traits(limits, allocs, old_id)` -/
def calcFreeTraits (limits : List Limit) (allocs : List Resv) (old : Name × Name) :
    Except Err Dict :=
  match initTraits limits [] with
  | .error e => .error e
  | .ok d => subTraits old allocs d

/-- `for limit in limits: _check_limit(free_by_trait[limit['trait']], rsrc, ' (trait: …)')` -/
def checkTraitLimits (fbt : Dict) (rq : CReq) : List Limit → Except Err Unit
  | [] => .ok ()
  | l :: ls =>
    match dictGet l.trait fbt with
    | none => .error .keyError
    | some f =>
      match checkLimit f rq (some l.trait) with
      | .error e => .error e
      | .ok () => checkTraitLimits fbt rq ls

/-- `rsrc.get('traits', [])` -/
def CReq.traitList (rq : CReq) : List Name :=
  match rq.traits with
  | some l => l
  | none => []

/-- `_check_capacity(cell, allocation, rsrc)` -/
def checkCapacity (parts : List Part) (store : List Resv) (cell alloc : Name) (rq : CReq) :
    Except Err Unit :=
  match rq.part with
  | none => .error .keyError
  | some p =>
    let allocs := listAllocs store cell p
    let po := partitionGet parts p cell
    match calcFree po allocs (alloc, cell) with
    | .error e => .error e
    | .ok free =>
      match checkLimit free rq none with
      | .error e => .error e
      | .ok () =>
        let limits := po.limits.filter (fun l => l.trait ∈ rq.traitList)
        match calcFreeTraits limits allocs (alloc, cell) with
        | .error e => .error e
        | .ok fbt => checkTraitLimits fbt rq limits

/-! ### Schema (`reservation.json`, `common.json`) -/

/-- A JSON member of the request: missing, `null`, a value of the expected JSON type, or a value
    of another type. -/
inductive Fld (α : Type)
  | absent | null | val (a : α) | bad
  deriving DecidableEq, Repr

def Fld.present {α} : Fld α → Bool
  | .absent => false
  | _ => true

/-- The resource document of a request. -/
structure Rq where
  cpu     : Fld (List Char)
  mem     : Fld (List Char)
  disk    : Fld (List Char)
  part    : Fld Name
  traits  : Fld (List (Option Name))     -- item `none` = not a string
  rank    : Fld Int
  rankAdj : Fld Int
  maxUtil : Fld Int
  extra   : Bool                          -- carries a property outside `resourceProps`
  deriving DecidableEq, Repr

/-- `$` matches at the end of the string and just before a final newline (argument reversed). -/
def dropFinalNewline : List Char → List Char
  | '\n' :: r => r
  | r => r

/-- one or more decimal digits then one allowed character (argument reversed). -/
def matchRev (allowed : List Nat) : List Char → Bool
  | u :: ds => allowed.contains u.toNat && !ds.isEmpty && ds.all isDecimal
  | [] => false

/-- `re.search('^\\d+[<allowed>]$', s)`: one or more decimal digits, one allowed character, end of
    string — where `$` also matches just before a final newline. -/
def matchDigitsThen (allowed : List Nat) (s : List Char) : Bool :=
  matchRev allowed (dropFinalNewline s.reverse)

def matchCpu (s : List Char) : Bool := matchDigitsThen [cpuSuffix] s
def matchBytes (s : List Char) : Bool := matchDigitsThen bytesUnits s

def strOK (m : List Char → Bool) : Fld (List Char) → Bool
  | .absent => true
  | .val s => m s
  | _ => false

def intOK (lo hi : Int) : Fld Int → Bool
  | .absent => true
  | .val i => decide (lo ≤ i ∧ i ≤ hi)
  | _ => false

def Rq.has (rq : Rq) (name : String) : Bool :=
  if name = "cpu" then rq.cpu.present else if name = "memory" then rq.mem.present
  else if name = "disk" then rq.disk.present else if name = "partition" then rq.part.present
  else if name = "traits" then rq.traits.present else if name = "rank" then rq.rank.present
  else if name = "rank_adjustment" then rq.rankAdj.present
  else if name = "max_utilization" then rq.maxUtil.present else false

/-- `allOf [reservation.json#/resource, reservation.json#/verbs/<verb>]` with the verb's
    `required` list. -/
def schemaOK (required : List String) (rq : Rq) : Bool :=
  !rq.extra && strOK matchCpu rq.cpu && strOK matchBytes rq.mem && strOK matchBytes rq.disk &&
  (match rq.part with
    | .absent => true
    | .null => partitionNullable
    | .val p => decide (p.length ≤ partitionMaxLen)
    | .bad => false) &&
  (match rq.traits with
    | .absent => true
    | .val l => l.all (fun t => match t with | some n => decide (n.length ≤ traitMaxLen) | none => false)
    | _ => false) &&
  intOK rankMin rankMax rq.rank && intOK rankAdjMin rankAdjMax rq.rankAdj &&
  intOK maxUtilMin maxUtilMax rq.maxUtil &&
  required.all rq.has

/-! ### The `_ReservationAPI` closures -/

/-- `rsrc_id.rsplit('/', 1)`; `none` when there is no `/` (the unpacking raises ValueError). -/
def splitId (rid : List Char) : Option (Name × Name) :=
  let r := rid.reverse
  match r.dropWhile (· ≠ '/') with
  | [] => none
  | _ :: allocR => some (allocR.reverse, (r.takeWhile (· ≠ '/')).reverse)

def Fld.toOpt {α} : Fld α → Option α
  | .val a => some a
  | _ => none

def traitNames (l : List (Option Name)) : List Name := l.filterMap id

def defaultPart : Name := ofCodes defaultPartition

/-- What `_check_capacity` sees of a (validated) request whose `partition` member is `part`. -/
def Rq.toCReq (rq : Rq) (part : Option (Option Name)) : CReq :=
  { cpu := rq.cpu.toOpt, disk := rq.disk.toOpt, mem := rq.mem.toOpt, part := part,
    traits := match rq.traits with
      | .val l => some (traitNames l)
      | _ => none }

/-- The partition written to the backend: a `null` partition attribute is not stored and reads
    back as the default partition (`CellAllocation.from_entry`). -/
def storedPart : Option Name → Name
  | some p => p
  | none => defaultPart

def findResv (store : List Resv) (id : Name × Name) : Option Resv := store.find? (fun r => r.id = id)

/-- `if 'partition' not in rsrc: rsrc['partition'] = _DEFAULT_PARTITION` (`none` = null). -/
def createPart (rq : Rq) : Option Name :=
  match rq.part with
  | .val p => some p
  | .absent => some defaultPart
  | _ => none

/-- The record `create` hands to the backend (`if 'rank' not in rsrc: rsrc['rank'] = _DEFAULT_RANK`). -/
def newResv (alloc cell : Name) (part : Option Name) (rq : Rq) (cpu mem disk : List Char) : Resv :=
  { alloc, cell, part := storedPart part, cpu, mem, disk,
    traits := (rq.toCReq none).traitList,
    rank := match rq.rank.toOpt with
      | some r => some r
      | none => some (defaultRank : Int),
    rankAdj := rq.rankAdj.toOpt, maxUtil := rq.maxUtil.toOpt }

/-- `_ReservationAPI.create(rsrc_id, rsrc)`; returns the new store. -/
def create (parts : List Part) (store : List Resv) (rid : List Char) (rq : Rq) :
    Except Err (List Resv) :=
  if !schemaOK createRequired rq then .error .schema else
  match splitId rid with
  | none => .error .badId
  | some (alloc, cell) =>
    match checkCapacity parts store cell alloc (rq.toCReq (some (createPart rq))) with
    | .error e => .error e
    | .ok () =>
      match findResv store (alloc, cell) with
      | some _ => .error .alreadyExists
      | none =>
        match rq.cpu.toOpt, rq.mem.toOpt, rq.disk.toOpt with
        | some cpu, some mem, some disk => .ok (store ++ [newResv alloc cell (createPart rq) rq cpu mem disk])
        | _, _, _ => .error .keyError

/-- `cell_alloc.update(rsrc)`: members present in the request replace the stored ones. -/
def merge (old : Resv) (rq : Rq) : Resv :=
  { old with
    cpu := match rq.cpu with | .val s => s | _ => old.cpu,
    mem := match rq.mem with | .val s => s | _ => old.mem,
    disk := match rq.disk with | .val s => s | _ => old.disk,
    part := match rq.part with
      | .val p => p
      | .null => defaultPart
      | _ => old.part,
    traits := match rq.traits with | .val l => traitNames l | _ => old.traits,
    rank := match rq.rank with | .val r => some r | _ => old.rank,
    rankAdj := match rq.rankAdj with | .val r => some r | _ => old.rankAdj,
    maxUtil := match rq.maxUtil with | .val r => some r | _ => old.maxUtil }

/-- What `_check_capacity` sees of the merged dict `cell_alloc` (the stored reservation updated
    with the request): members missing from the request keep their stored values; a `null`
    partition in the request stays `None` in the dict. -/
def mergedCReq (old : Resv) (rq : Rq) : CReq :=
  { cpu := some (merge old rq).cpu, disk := some (merge old rq).disk, mem := some (merge old rq).mem,
    part := some (match rq.part with
      | .val p => some p
      | .null => none
      | _ => some old.part),
    traits := some (merge old rq).traits }

/-- the store after `admin_cell_alloc.update([cell, allocation], cell_alloc)` -/
def repl (store : List Resv) (id : Name × Name) (m : Resv) : List Resv :=
  store.map (fun r => if r.id = id then m else r)

/-- `_ReservationAPI.update(rsrc_id, rsrc)`; returns the new store.  The stored reservation is
    fetched first (a missing id fails there), the request is merged into it, and the capacity
    check runs on the merged reservation — the one that will be stored. -/
def update (parts : List Part) (store : List Resv) (rid : List Char) (rq : Rq) :
    Except Err (List Resv) :=
  if !schemaOK updateRequired rq then .error .schema else
  match splitId rid with
  | none => .error .badId
  | some (alloc, cell) =>
    match findResv store (alloc, cell) with
    | none => .error .notFound
    | some old =>
      match checkCapacity parts store cell alloc (mergedCReq old rq) with
      | .error e => .error e
      | .ok () => .ok (repl store (alloc, cell) (merge old rq))

inductive Verb | create | update
  deriving DecidableEq, Repr

def apply (parts : List Part) (store : List Resv) (v : Verb) (rid : List Char) (rq : Rq) :
    Except Err (List Resv) :=
  match v with
  | .create => create parts store rid rq
  | .update => update parts store rid rq

/-- A request stream: a rejected request leaves the store as it was. -/
def runReqs (parts : List Part) : List Resv → List (Verb × List Char × Rq) → List Resv
  | s, [] => s
  | s, (v, rid, rq) :: rest =>
    match apply parts s v rid rq with
    | .ok s' => runReqs parts s' rest
    | .error _ => runReqs parts s rest

end TmVerif.Reserve
