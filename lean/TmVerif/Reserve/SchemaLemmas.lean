/-
  What the reservation schema guarantees: a string admitted by the cpu / memory / disk patterns
  (any Unicode decimal digits, optional final newline) parses to a natural number, provided it
  is not longer than the interpreter's int-conversion limit.
-/
import TmVerif.Reserve.Lemmas

namespace TmVerif.Reserve
open TmVerif.Units TmVerif.ExtReserve

theorem WithinLimit.mono {a b : Nat} (h : a ≤ b) (hb : WithinLimit b) : WithinLimit a := by
  rcases hb with h0 | hb
  · exact Or.inl h0
  · exact Or.inr (Nat.le_trans h hb)

/-- Shape of a string admitted by `^\d+[<allowed>]$`. -/
theorem matchDigitsThen_spec (allowed : List Nat) (s : List Char)
    (h : matchDigitsThen allowed s = true) :
    ∃ ds u w, s = ds ++ [u] ++ w ∧ ds ≠ [] ∧ (∀ c ∈ ds, isDecimal c = true) ∧
      u.toNat ∈ allowed ∧ (w = [] ∨ w = ['\n']) := by
  have hs : s = s.reverse.reverse := (List.reverse_reverse s).symm
  unfold matchDigitsThen at h
  generalize s.reverse = r0 at h hs
  have key : ∀ (r : List Char) (w : List Char), (w = [] ∨ w = ['\n']) → s = r.reverse ++ w →
      matchRev allowed r = true →
      ∃ ds u w, s = ds ++ [u] ++ w ∧ ds ≠ [] ∧ (∀ c ∈ ds, isDecimal c = true) ∧
        u.toNat ∈ allowed ∧ (w = [] ∨ w = ['\n']) := by
    intro r w hw hsr hm
    cases r with
    | nil => cases hm
    | cons u ds =>
      simp only [matchRev, Bool.and_eq_true, Bool.not_eq_true', List.all_eq_true] at hm
      obtain ⟨⟨h1, h2⟩, h3⟩ := hm
      refine ⟨ds.reverse, u, w, ?_, ?_, ?_, List.contains_iff_mem.mp h1, hw⟩
      · rw [hsr, List.reverse_cons]
      · intro e
        have : ds = [] := by simpa using e
        simp [this] at h2
      · intro c hc
        exact h3 c (List.mem_reverse.mp hc)
  unfold dropFinalNewline at h
  split at h
  · rename_i r
    apply key r ['\n'] (Or.inr rfl) _ h
    rw [hs, List.reverse_cons]
  · apply key r0 [] (Or.inl rfl) _ h
    rw [hs, List.append_nil]

/-- Every unit letter the schema admits has an upper case that is a non-`B`, non-space entry of
    the size-scale table (kernel-checked on the extracted tables). -/
def goodUnit (b : Nat) : Bool :=
  match upperC (Char.ofNat b) with
  | [U] => (scaleOf U).isSome && (U != 'B') && !isPySpace U
  | _ => false

theorem bytesUnits_good : ∀ b ∈ bytesUnits, goodUnit b = true := by decide

theorem newline_ws : ∀ x ∈ ['\n'], upperC x = [x] ∧ isPySpace x = true := by decide

theorem tail_ws {w : List Char} (hw : w = [] ∨ w = ['\n']) :
    ∀ x ∈ w, upperC x = [x] ∧ isPySpace x = true := by
  rcases hw with rfl | rfl
  · intro x hx; cases hx
  · exact newline_ws

theorem length_le_of_shape {ds w : List Char} {u : Char} {s : List Char} (hs : s = ds ++ [u] ++ w) :
    ds.length ≤ s.length := by
  rw [hs]; simp only [List.length_append]; omega

/-- A cpu string the schema admits is a natural number of percent. -/
theorem cpu_of_match (s : List Char) (h : matchCpu s = true) (hl : WithinLimit s.length) :
    ∃ n : Nat, cpuUnits s = .ok (n : Int) := by
  obtain ⟨ds, u, w, hs, hne, hd, hu, hw⟩ := matchDigitsThen_spec _ _ h
  have hu' : u = '%' := by
    apply Char.toNat_inj.mp
    simpa [cpuSuffix] using hu
  subst hu'
  rw [hs]
  exact ⟨_, cpuUnits_dec_percent ds w '%' hne hd (by decide) (tail_ws hw)
    (WithinLimit.mono (length_le_of_shape hs) hl)⟩

/-- A memory / disk string the schema admits is a natural number of bytes. -/
theorem bytes_of_match (s : List Char) (h : matchBytes s = true) (hl : WithinLimit s.length) :
    ∃ n : Nat, sizeToBytes s = .ok (n : Int) := by
  obtain ⟨ds, u, w, hs, hne, hd, hu, hw⟩ := matchDigitsThen_spec _ _ h
  have hg := bytesUnits_good _ hu
  unfold goodUnit at hg
  rw [Char.ofNat_toNat] at hg
  split at hg
  · rename_i U hU
    simp only [Bool.and_eq_true, bne_iff_ne, ne_eq, Bool.not_eq_true', Option.isSome_iff_exists] at hg
    obtain ⟨⟨⟨k, hk⟩, hB⟩, hsp⟩ := hg
    refine ⟨decVal ds 0 * 1024 ^ k, ?_⟩
    rw [hs, sizeToBytes_dec_unit ds w u U k hne hd hU hsp hB hk (tail_ws hw)
      (WithinLimit.mono (length_le_of_shape hs) hl)]
    simp [Int.natCast_mul, Int.natCast_pow]
  · cases hg

/-! ### from a validated request to what `_check_capacity` parses -/

theorem strOK_val {m : List Char → Bool} {f : Fld (List Char)} (h : strOK m f = true)
    (hp : f.present = true) : ∃ s, f = .val s ∧ m s = true := by
  cases f with
  | absent => cases hp
  | null => cases h
  | val s => exact ⟨s, rfl, h⟩
  | bad => cases h

def fldLen : Fld (List Char) → Nat
  | .val s => s.length
  | _ => 0

/-- The three quantity members of a request are strings no longer than the digit limit. -/
def Rq.WithinLimits (rq : Rq) : Prop :=
  WithinLimit (fldLen rq.cpu) ∧ WithinLimit (fldLen rq.mem) ∧ WithinLimit (fldLen rq.disk)

instance (rq : Rq) : Decidable rq.WithinLimits :=
  inferInstanceAs (Decidable (_ ∧ _ ∧ _))

theorem schemaOK_parts {req : List String} {rq : Rq} (h : schemaOK req rq = true) :
    strOK matchCpu rq.cpu = true ∧ strOK matchBytes rq.mem = true ∧ strOK matchBytes rq.disk = true ∧
    req.all rq.has = true := by
  simp only [schemaOK, Bool.and_eq_true] at h
  exact ⟨h.1.1.1.1.1.1.1.1.2, h.1.1.1.1.1.1.1.2, h.1.1.1.1.1.1.2, h.2⟩

/-- Both verbs the closures reference require cpu, memory and disk (checked on the extracted
    `required` lists). -/
theorem required_quantities (req : List String) (hreq : req = createRequired ∨ req = updateRequired)
    (rq : Rq) (h : req.all rq.has = true) :
    rq.cpu.present = true ∧ rq.mem.present = true ∧ rq.disk.present = true := by
  rcases hreq with rfl | rfl
  · simp only [createRequired, List.all_cons, List.all_nil, Bool.and_true, Bool.and_eq_true] at h
    exact ⟨by simpa [Rq.has] using h.2.1, by simpa [Rq.has] using h.1, by simpa [Rq.has] using h.2.2⟩
  · simp only [updateRequired, List.all_cons, List.all_nil, Bool.and_true, Bool.and_eq_true] at h
    exact ⟨by simpa [Rq.has] using h.2.1, by simpa [Rq.has] using h.1, by simpa [Rq.has] using h.2.2.1⟩

/-- The update verb requires `partition`. -/
theorem update_requires_partition (rq : Rq) (h : updateRequired.all rq.has = true) :
    rq.part.present = true := by
  simp only [updateRequired, List.all_cons, List.all_nil, Bool.and_true, Bool.and_eq_true] at h
  simpa [Rq.has] using h.2.2.2

/-- A request admitted by the schema (of either verb) carries three quantity strings that parse
    to non-negative numbers. -/
theorem rq_quantities (req : List String) (hreq : req = createRequired ∨ req = updateRequired)
    (rq : Rq) (h : schemaOK req rq = true) (hl : rq.WithinLimits) :
    ∃ c d m v, rq.cpu = .val c ∧ rq.disk = .val d ∧ rq.mem = .val m ∧
      cpuUnits c = .ok v.cpu ∧ sizeToBytes d = .ok v.disk ∧ sizeToBytes m = .ok v.mem ∧
      Vec.zero ≤ v := by
  obtain ⟨h1, h2, h3, h4⟩ := schemaOK_parts h
  obtain ⟨p1, p2, p3⟩ := required_quantities req hreq rq h4
  obtain ⟨c, hc, mc⟩ := strOK_val h1 p1
  obtain ⟨m, hm, mm⟩ := strOK_val h2 p2
  obtain ⟨d, hd, md⟩ := strOK_val h3 p3
  obtain ⟨nc, hnc⟩ := cpu_of_match c mc (by have := hl.1; rwa [hc] at this)
  obtain ⟨nm, hnm⟩ := bytes_of_match m mm (by have := hl.2.1; rwa [hm] at this)
  obtain ⟨nd, hnd⟩ := bytes_of_match d md (by have := hl.2.2; rwa [hd] at this)
  refine ⟨c, d, m, ⟨nc, nd, nm⟩, hc, hd, hm, hnc, hnd, hnm, ?_⟩
  simp only [Vec.le_def, Vec.zero_cpu, Vec.zero_disk, Vec.zero_mem]
  omega

theorem toCReq_parsesTo {rq : Rq} {c d m : List Char} {v : Vec} (hc : rq.cpu = .val c)
    (hd : rq.disk = .val d) (hm : rq.mem = .val m) (pc : cpuUnits c = .ok v.cpu)
    (pd : sizeToBytes d = .ok v.disk) (pm : sizeToBytes m = .ok v.mem) (part : Option (Option Name)) :
    (rq.toCReq part).ParsesTo v :=
  ⟨c, d, m, by simp [Rq.toCReq, hc, Fld.toOpt], by simp [Rq.toCReq, hd, Fld.toOpt],
    by simp [Rq.toCReq, hm, Fld.toOpt], pc, pd, pm⟩

theorem parse3_of_parts {c d m : List Char} {v : Vec} (hc : cpuUnits c = .ok v.cpu)
    (hd : sizeToBytes d = .ok v.disk) (hm : sizeToBytes m = .ok v.mem) : parse3 c d m = .ok v := by
  simp [parse3, hc, hd, hm, liftPy]

end TmVerif.Reserve
