/-
  Executable model of `cellsync.sync_server_topology` and of the `masterapi` calls it makes
  (`create_bucket`, `cell_insert_bucket`, `create_server`, `list_servers`, `delete_server`,
  `create_event`): the LDAP servers of the cell are placed into `pod:XXXX` / `rack:XXXX` buckets and
  written to `/servers/<name>` with their bucket and their *partition label*; servers ZooKeeper
  still lists but LDAP does not are deleted unless they are present.

  The pod and rack numbers come from an md5 of the server name; they are inputs here (the harness
  records them from the real run).  The order in which the set `zk_servers - ldap_servers` is walked
  is Python's; it is an input too and checked to be a permutation of that set.
  A server node is kept as its bytes together with what `zkutils.get` parses them to.
-/
import TmVerif.Reserve.CellSync

namespace TmVerif.CellSync

structure SrvNode where
  bytes : Str
  /-- the dict `zkutils.get` returns; `none` = a falsy value (empty node, `null`, `{}`). -/
  parsed : Option Dict
  deriving Repr, DecidableEq

structure TopoZk where
  buckets : Dir                      -- /buckets
  cell : List Str                    -- children of /cell
  servers : Option (List (Str × SrvNode))   -- /servers (`none` = missing)
  presence : Option (List Str)       -- children of /server.presence (`none` = missing)
  placement : List Str               -- servers having /placement/<name>
  version : List Str                 -- ... /version/<name>
  versionHist : List Str             -- ... /version.history/<name>
  deriving Repr, DecidableEq

/-- an event node: name and payload. -/
abbrev Ev := Str × Str

structure TopoSt where
  zk : TopoZk
  seq : Nat
  /-- events posted so far by this run, in order. -/
  evs : List Ev
  /-- writes below /buckets, /cell, /servers made so far, in order (`b:`, `c:`, `s:` tagged). -/
  log : List Str
  deriving Repr, DecidableEq

structure SrvIn where
  id : Str
  /-- `server.get('partition')` as a JSON fragment (`null` when absent). -/
  partition : Str
  pod : Nat
  rack : Nat
  deriving Repr, DecidableEq

def hexU (n : Nat) : Char := if n < 10 then Char.ofNat (48 + n) else Char.ofNat (55 + n)

/-- `'{:04X}'.format(n)` for `n < 65536`. -/
def hex4U (n : Nat) : Str :=
  [hexU (n / 4096 % 16), hexU (n / 256 % 16), hexU (n / 16 % 16), hexU (n % 16)]

def podBucket (n : Nat) : Str := "pod:".toList ++ hex4U n
def rackBucket (n : Nat) : Str := "rack:".toList ++ hex4U n

def evName (kind : String) (seq : Nat) : Str := "000-".toList ++ kind.toList ++ ['-'] ++ pad10 seq

def post (s : TopoSt) (kind : String) (payload : Str) : TopoSt :=
  { s with seq := s.seq + 1, evs := s.evs ++ [(evName kind s.seq, payload)] }

def kParent : Str := "parent".toList
def kPartition : Str := "partition".toList
def kTraits : Str := "traits".toList

/-- `masterapi.create_bucket(zk, bucket_id, parent_id)` (`parent` as a JSON fragment). -/
def createBucket (s : TopoSt) (bucket parent : Str) : TopoSt :=
  let payload := renderDict [(kTraits, ['0']), (kParent, parent)]
  let r := put s.zk.buckets bucket payload
  match r.1 with
  | none => s
  | some _ =>
    post { s with zk := { s.zk with buckets := r.2 }, log := s.log ++ ['b' :: ':' :: bucket] } "buckets" []

/-- `masterapi.cell_insert_bucket`. -/
def cellInsert (s : TopoSt) (bucket : Str) : TopoSt :=
  if bucket ∈ s.zk.cell then s
  else post { s with zk := { s.zk with cell := s.zk.cell ++ [bucket] }, log := s.log ++ ['c' :: ':' :: bucket] } "cell" []

def srvGet : List (Str × SrvNode) → Str → Option SrvNode
  | [], _ => none
  | (k, v) :: t, n => if k = n then some v else srvGet t n

def srvSet (l : List (Str × SrvNode)) (n : Str) (v : SrvNode) : List (Str × SrvNode) :=
  match l with
  | [] => [(n, v)]
  | (k, w) :: t => if k = n then (k, v) :: t else (k, w) :: srvSet t n v

/-- `masterapi.create_server(zk, server_id, parent_id, partition)`: make sure the node exists, read it,
    set `parent` and `partition` in what was read, put with check_content, event after a write. -/
def createServer (s : TopoSt) (id parent partition : Str) : TopoSt :=
  let dir := s.zk.servers.getD []
  let old := srvGet dir id
  let cur : SrvNode := old.getD ⟨[], none⟩
  let dir1 := if old.isSome then dir else srvSet dir id cur
  let log1 := if old.isSome then s.log else s.log ++ ['s' :: ':' :: id]
  let data := dictSet (dictSet (cur.parsed.getD []) kParent (jsonStr parent)) kPartition partition
  let payload := renderDict data
  if cur.bytes = payload then
    { s with zk := { s.zk with servers := some dir1 }, log := log1 }
  else
    post { s with zk := { s.zk with servers := some (srvSet dir1 id ⟨payload, some data⟩) },
                  log := log1 ++ ['s' :: ':' :: id] } "servers" (renderList [jsonStr id])

/-- one iteration of the loop over the LDAP servers. -/
def placeServer (s : TopoSt) (x : SrvIn) : TopoSt :=
  let pod := podBucket x.pod
  let rack := rackBucket x.rack
  let s1 := createBucket s pod "null".toList
  let s2 := cellInsert s1 pod
  let s3 := createBucket s2 rack (jsonStr pod)
  createServer s3 x.id rack x.partition

/-- `masterapi.delete_server`. -/
def deleteServer (s : TopoSt) (id : Str) : TopoSt :=
  let rm (l : List Str) := l.filter (fun n => decide (n ≠ id))
  post { s with zk := { s.zk with servers := s.zk.servers.map (fun d => d.filter (fun e => decide (e.1 ≠ id))),
                                  placement := rm s.zk.placement, version := rm s.zk.version,
                                  versionHist := rm s.zk.versionHist },
                log := s.log ++ ['x' :: ':' :: id] } "servers" (renderList [jsonStr id])

inductive TopoOutcome
  | done
  | noNode          -- /servers or /server.presence missing: NoNodeError after the loop
  | badOrder        -- the recorded deletion order is not a permutation of the set
  deriving Repr, DecidableEq

/-- is `a` a permutation of the duplicate-free `b`? -/
def isPermOf (a b : List Str) : Bool :=
  a.length = b.length && a.all (fun x => b.contains x) && b.all (fun x => a.contains x)

/-- `sync_server_topology()`; `order` = the order in which Python walked
    `zk_servers - ldap_servers` restricted to the servers it deleted. -/
def syncServerTopology (zk : TopoZk) (seq : Nat) (servers : List SrvIn) (order : List Str) :
    TopoSt × TopoOutcome :=
  let s := servers.foldl placeServer ⟨zk, seq, [], []⟩
  match s.zk.servers, s.zk.presence with
  | some dir, some pres =>
    let ldap := servers.map (·.id)
    let gone := (dir.map (·.1)).filter (fun n => decide (n ∉ ldap) && decide (n ∉ pres))
    if isPermOf order gone then (order.foldl deleteServer s, .done) else (s, .badOrder)
  | _, _ => (s, .noNode)

end TmVerif.CellSync
