/-
  The `create` / `update` closures in terms of `Fits`: what a schema-valid request returns, and
  that an accepted request preserves the invariant.
-/
import TmVerif.Reserve.SeqLemmas

namespace TmVerif.Reserve
open TmVerif.Units TmVerif.ExtReserve

theorem toCReq_traitList (rq : Rq) (part : Option (Option Name)) :
    (rq.toCReq part).traitList = (rq.toCReq none).traitList := rfl

theorem toCReq_part (rq : Rq) (part : Option (Option Name)) : (rq.toCReq part).part = part := rfl

theorem findResv_none {s : List Resv} {id : Name × Name} (h : findResv s id = none) :
    id ∉ s.map Resv.id := by
  intro hm
  obtain ⟨r, hr, hid⟩ := List.mem_map.mp hm
  have := List.find?_eq_none.mp h r hr
  simp [hid] at this

theorem findResv_some {s : List Resv} {id : Name × Name} {old : Resv} (h : findResv s id = some old) :
    old ∈ s ∧ old.id = id := by
  refine ⟨List.mem_of_find?_eq_some h, ?_⟩
  have := List.find?_some h
  simpa using this

/-- What `create` returns for a request the schema admits, over well-formed stored data. -/
theorem create_spec (parts : List Part) (s : List Resv) (rid : List Char) (rq : Rq)
    (alloc cell p : Name) (hs : schemaOK createRequired rq = true)
    (hid : splitId rid = some (alloc, cell)) (hp : createPart rq = some p) (hl : rq.WithinLimits)
    (wf : WFCheck parts s cell p alloc) :
    ∃ c d m v, rq.cpu = .val c ∧ rq.disk = .val d ∧ rq.mem = .val m ∧ parse3 c d m = .ok v ∧
      Vec.zero ≤ v ∧
      ((Fits parts s cell p alloc (rq.toCReq none).traitList v ∧
          ((findResv s (alloc, cell) = none ∧
              create parts s rid rq = .ok (s ++ [newResv alloc cell (some p) rq c m d])) ∨
           (findResv s (alloc, cell) ≠ none ∧ create parts s rid rq = .error .alreadyExists))) ∨
       (¬ Fits parts s cell p alloc (rq.toCReq none).traitList v ∧
          ∃ r t, create parts s rid rq = .error (.invalidInput r t))) := by
  obtain ⟨c, d, m, v, hc, hd, hm, pc, pd, pm, h0⟩ := rq_quantities _ (Or.inl rfl) rq hs hl
  refine ⟨c, d, m, v, hc, hd, hm, parse3_of_parts pc pd pm, h0, ?_⟩
  have hv := toCReq_parsesTo hc hd hm pc pd pm (some (some p))
  unfold create
  simp only [hs, Bool.not_true, Bool.false_eq_true, if_false, hid, hp]
  rcases checkCapacity_spec parts s cell alloc p (rq.toCReq (some (some p))) v rfl hv wf with
    ⟨hfit, hok⟩ | ⟨hnfit, r, t, herr⟩
  · left
    rw [toCReq_traitList] at hfit
    refine ⟨hfit, ?_⟩
    rw [hok]
    simp only []
    cases hf : findResv s (alloc, cell) with
    | none => left; simp [hc, hd, hm, Fld.toOpt]
    | some o => right; simp
  · right
    rw [toCReq_traitList] at hnfit
    refine ⟨hnfit, r, t, ?_⟩
    rw [herr]

theorem merge_id (old : Resv) (rq : Rq) : (merge old rq).id = old.id := rfl

theorem merge_quantities {old : Resv} {rq : Rq} {c d m : List Char} (hc : rq.cpu = .val c)
    (hd : rq.disk = .val d) (hm : rq.mem = .val m) :
    (merge old rq).cpu = c ∧ (merge old rq).disk = d ∧ (merge old rq).mem = m := by
  simp [merge, hc, hd, hm]

/-- What `update` returns for a request the schema admits, over well-formed stored data: a
    missing id is reported before any check; otherwise the MERGED reservation (stored one
    updated with the request: partition `p` from the request, traits from the request or, when
    the request has none, the stored ones) is what must fit. -/
theorem update_spec (parts : List Part) (s : List Resv) (rid : List Char) (rq : Rq)
    (alloc cell p : Name) (hs : schemaOK updateRequired rq = true)
    (hid : splitId rid = some (alloc, cell)) (hp : rq.part = .val p) (hl : rq.WithinLimits)
    (wf : WFCheck parts s cell p alloc) :
    (findResv s (alloc, cell) = none ∧ update parts s rid rq = .error .notFound) ∨
    ∃ old c d m v, findResv s (alloc, cell) = some old ∧
      rq.cpu = .val c ∧ rq.disk = .val d ∧ rq.mem = .val m ∧ parse3 c d m = .ok v ∧ Vec.zero ≤ v ∧
      ((Fits parts s cell p alloc (merge old rq).traits v ∧
          update parts s rid rq = .ok (repl s (alloc, cell) (merge old rq))) ∨
       (¬ Fits parts s cell p alloc (merge old rq).traits v ∧
          ∃ r t, update parts s rid rq = .error (.invalidInput r t))) := by
  obtain ⟨c, d, m, v, hc, hd, hm, pc, pd, pm, h0⟩ := rq_quantities _ (Or.inr rfl) rq hs hl
  unfold update
  simp only [hs, Bool.not_true, Bool.false_eq_true, if_false, hid]
  cases hf : findResv s (alloc, cell) with
  | none => left; exact ⟨rfl, rfl⟩
  | some old =>
    right
    refine ⟨old, c, d, m, v, rfl, hc, hd, hm, parse3_of_parts pc pd pm, h0, ?_⟩
    obtain ⟨mc, md, mm⟩ := merge_quantities (old := old) hc hd hm
    have hv : (mergedCReq old rq).ParsesTo v :=
      ⟨c, d, m, by simp [mergedCReq, mc], by simp [mergedCReq, md], by simp [mergedCReq, mm], pc, pd, pm⟩
    have hpart : (mergedCReq old rq).part = some (some p) := by simp [mergedCReq, hp]
    have htl : (mergedCReq old rq).traitList = (merge old rq).traits := rfl
    simp only []
    rcases checkCapacity_spec parts s cell alloc p (mergedCReq old rq) v hpart hv wf with
      ⟨hfit, hok⟩ | ⟨hnfit, r, t, herr⟩
    · left
      rw [htl] at hfit
      exact ⟨hfit, by rw [hok]⟩
    · right
      rw [htl] at hnfit
      exact ⟨hnfit, r, t, by rw [herr]⟩

/-! ### accepted requests preserve the invariant -/

/-- Side conditions on a request of a stream (all decidable): the partition is not `null`, the
    quantity strings respect the interpreter's digit limit, and the trait list (if any) has no
    duplicates. -/
def ReqOK (rq : Rq) : Prop :=
  rq.part ≠ .null ∧ rq.WithinLimits ∧ (rq.toCReq none).traitList.Nodup

instance (rq : Rq) : Decidable (ReqOK rq) :=
  inferInstanceAs (Decidable (_ ∧ _ ∧ _))

theorem create_ok_inv {parts : List Part} {s s' : List Resv} {rid : List Char} {rq : Rq}
    (h : create parts s rid rq = .ok s') :
    schemaOK createRequired rq = true ∧ ∃ alloc cell, splitId rid = some (alloc, cell) := by
  unfold create at h
  by_cases hs : schemaOK createRequired rq = true
  · refine ⟨hs, ?_⟩
    cases hid : splitId rid with
    | none => simp [hs, hid] at h
    | some ac => exact ⟨ac.1, ac.2, rfl⟩
  · simp [hs] at h

theorem update_ok_inv {parts : List Part} {s s' : List Resv} {rid : List Char} {rq : Rq}
    (h : update parts s rid rq = .ok s') :
    schemaOK updateRequired rq = true ∧ ∃ alloc cell, splitId rid = some (alloc, cell) := by
  unfold update at h
  by_cases hs : schemaOK updateRequired rq = true
  · refine ⟨hs, ?_⟩
    cases hid : splitId rid with
    | none => simp [hs, hid] at h
    | some ac => exact ⟨ac.1, ac.2, rfl⟩
  · simp [hs] at h

theorem schemaOK_part_not_bad {req : List String} {rq : Rq} (h : schemaOK req rq = true) :
    rq.part ≠ .bad := by
  intro e
  simp [schemaOK, e] at h

theorem create_preserves {parts : List Part} {s s' : List Resv} {rid : List Char} {rq : Rq}
    (hparts : PartsWF parts) (hi : Inv parts s) (hok : ReqOK rq)
    (h : create parts s rid rq = .ok s') : Inv parts s' := by
  obtain ⟨hs, alloc, cell, hid⟩ := create_ok_inv h
  obtain ⟨hnull, hl, htr⟩ := hok
  obtain ⟨p, hp⟩ : ∃ p, createPart rq = some p := by
    have hb := schemaOK_part_not_bad hs
    unfold createPart
    cases hpart : rq.part with
    | absent => exact ⟨_, rfl⟩
    | null => exact absurd hpart hnull
    | val p => exact ⟨p, rfl⟩
    | bad => exact absurd hpart hb
  obtain ⟨c, d, m, v, hc, hd, hm, hv, h0, hcase⟩ :=
    create_spec parts s rid rq alloc cell p hs hid hp hl (wfCheck_of_inv hparts hi cell p alloc)
  rcases hcase with ⟨hfit, ⟨hnone, hres⟩ | ⟨_, hres⟩⟩ | ⟨_, r, t, hres⟩
  · rw [hres] at h
    cases h
    exact inv_append hi (newResv alloc cell (some p) rq c m d) v (findResv_none hnone) hv h0 htr hfit
  · rw [hres] at h; cases h
  · rw [hres] at h; cases h

theorem update_preserves {parts : List Part} {s s' : List Resv} {rid : List Char} {rq : Rq}
    (hparts : PartsWF parts) (hi : Inv parts s) (hok : ReqOK rq)
    (h : update parts s rid rq = .ok s') : Inv parts s' := by
  obtain ⟨hs, alloc, cell, hid⟩ := update_ok_inv h
  obtain ⟨hnull, hl, htr⟩ := hok
  have hpres := update_requires_partition rq (schemaOK_parts hs).2.2.2
  obtain ⟨p, hp⟩ : ∃ p, rq.part = .val p := by
    have hb := schemaOK_part_not_bad hs
    cases hpart : rq.part with
    | absent => simp [hpart, Fld.present] at hpres
    | null => exact absurd hpart hnull
    | val p => exact ⟨p, rfl⟩
    | bad => exact absurd hpart hb
  rcases update_spec parts s rid rq alloc cell p hs hid hp hl (wfCheck_of_inv hparts hi cell p alloc) with
    ⟨_, hres⟩ | ⟨old, c, d, m, v, hfind, hc, hd, hm, hv, h0, hcase⟩
  · rw [hres] at h; cases h
  · obtain ⟨hmem, hoid⟩ := findResv_some hfind
    rcases hcase with ⟨hfit, hres⟩ | ⟨_, r, t, hres⟩
    · rw [hres] at h
      cases h
      have hmid : (merge old rq).id = (alloc, cell) := by rw [merge_id, hoid]
      have hcell : (merge old rq).cell = cell := congrArg Prod.snd hmid
      have halloc : (merge old rq).alloc = alloc := congrArg Prod.fst hmid
      have hpart : (merge old rq).part = p := by simp [merge, hp]
      -- traits of the merged record: the request's (duplicate-free by `ReqOK`) or the stored ones
      have htn : (merge old rq).traits.Nodup := by
        cases ht : rq.traits with
        | val l =>
          have e : (merge old rq).traits = (rq.toCReq none).traitList := by
            simp [merge, ht, Rq.toCReq, CReq.traitList]
          rw [e]; exact htr
        | absent => simp only [merge, ht]; exact hi.traits old hmem
        | null => simp only [merge, ht]; exact hi.traits old hmem
        | bad => simp only [merge, ht]; exact hi.traits old hmem
      obtain ⟨mc, md, mm⟩ := merge_quantities (old := old) hc hd hm
      have hvec : (merge old rq).vec? = .ok v := by
        simp only [Resv.vec?, mc, md, mm]; exact hv
      have := inv_repl hi old (merge old rq) v hmem (by rw [hoid, hmid]) hvec h0 htn
        (by rw [hcell, hpart, halloc]; exact hfit)
      rwa [hmid] at this
    · rw [hres] at h; cases h

theorem runReqs_preserves {parts : List Part} (hparts : PartsWF parts)
    (reqs : List (Verb × List Char × Rq)) (s : List Resv) (hi : Inv parts s)
    (hreq : ∀ q ∈ reqs, ReqOK q.2.2) : Inv parts (runReqs parts s reqs) := by
  induction reqs generalizing s with
  | nil => exact hi
  | cons q rest ih =>
    obtain ⟨v, rid, rq⟩ := q
    have hq : ReqOK rq := hreq (v, rid, rq) List.mem_cons_self
    have hrest := fun x hx => hreq x (List.mem_cons_of_mem _ hx)
    simp only [runReqs]
    cases happ : Reserve.apply parts s v rid rq with
    | error e => exact ih s hi hrest
    | ok s' =>
      apply ih s' _ hrest
      cases v with
      | create => exact create_preserves hparts hi hq happ
      | update => exact update_preserves hparts hi hq happ

end TmVerif.Reserve
