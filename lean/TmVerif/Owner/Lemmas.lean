/- Helper lemmas about the ownership model (C14). -/
import TmVerif.Owner.Model

namespace TmVerif.Owner

/-! ### The link table -/

/-- Keys are unique: a name denotes at most one directory entry. -/
def Uniq (l : Links) : Prop := ∀ k t t', (k, t) ∈ l → (k, t') ∈ l → t = t'

theorem lookup_none {k : Key} {l : Links} (h : lookup k l = none) : ∀ t, (k, t) ∉ l := by
  induction l with
  | nil => intro t ht; cases ht
  | cons e l ih =>
    obtain ⟨k', t'⟩ := e
    intro t ht
    simp only [lookup] at h
    split at h
    · cases h
    · rcases List.mem_cons.mp ht with heq | hmem
      · injection heq with h1 h2; exact absurd h1.symm ‹_›
      · exact ih h t hmem

theorem lookup_some {k : Key} {l : Links} {t : Tgt} (h : lookup k l = some t) : (k, t) ∈ l := by
  induction l with
  | nil => cases h
  | cons e l ih =>
    obtain ⟨k', t'⟩ := e
    simp only [lookup] at h
    split at h
    · rename_i hk; injection h with h; subst hk; subst h; exact List.mem_cons_self
    · exact List.mem_cons_of_mem _ (ih h)

theorem lookup_of_mem {l : Links} (hu : Uniq l) {k : Key} {t : Tgt} (h : (k, t) ∈ l) :
    lookup k l = some t := by
  cases hl : lookup k l with
  | none => exact absurd h (lookup_none hl t)
  | some t' => rw [hu k t t' h (lookup_some hl)]

theorem Uniq.nil : Uniq [] := by intro k t t' h; cases h

theorem Uniq.filter {l : Links} (hu : Uniq l) (p : Key × Tgt → Bool) : Uniq (l.filter p) := by
  intro k t t' h h'
  exact hu k t t' (List.mem_filter.mp h).1 (List.mem_filter.mp h').1

theorem Uniq.append {l : Links} (hu : Uniq l) {k : Key} (hk : lookup k l = none) (t : Tgt) :
    Uniq (l ++ [(k, t)]) := by
  intro k' t1 t2 h1 h2
  have hn := lookup_none hk
  rcases List.mem_append.mp h1 with a1 | a1
  · rcases List.mem_append.mp h2 with a2 | a2
    · exact hu k' t1 t2 a1 a2
    · simp only [List.mem_singleton] at a2; injection a2 with a b; subst a; exact absurd a1 (hn t1)
  · rcases List.mem_append.mp h2 with a2 | a2
    · simp only [List.mem_singleton] at a1; injection a1 with a b; subst a; exact absurd a2 (hn t2)
    · simp only [List.mem_singleton] at a1 a2; injection a1 with _ b; injection a2 with _ b'
      rw [b, b']

theorem mem_erase {k : Key} {l : Links} {e : Key × Tgt} : e ∈ erase k l ↔ e ∈ l ∧ e.1 ≠ k := by
  unfold erase; simp [List.mem_filter]

/-- `claim`: either a new link for `o` is appended under a fresh name, or nothing changes. -/
theorem claim_spec (l : Links) (k : Key) (o : Own) (tol : Own → Bool) :
    ((claim l k o tol).2 = .ok ∧ (claim l k o tol).1 = l ++ [(k, .own o)] ∧ lookup k l = none) ∨
    ((claim l k o tol).1 = l ∧
      ((claim l k o tol).2 = .ok → ∃ o', lookup k l = some (.own o') ∧ tol o' = true)) := by
  unfold claim
  split
  · left; exact ⟨rfl, rfl, by assumption⟩
  · right; exact ⟨rfl, by intro h; cases h⟩
  · split
    · right; exact ⟨rfl, fun _ => ⟨_, by assumption, by assumption⟩⟩
    · right; exact ⟨rfl, by intro h; cases h⟩

/-- `release`: either nothing changes, or the caller owned the name and exactly it is erased. -/
theorem release_spec (l : Links) (k : Key) (o : Own) :
    ((release l k o).1 = l ∧ ((release l k o).2 = .ok → lookup k l ≠ some (.own o))) ∨
    ((release l k o).2 = .ok ∧ (release l k o).1 = erase k l ∧ lookup k l = some (.own o)) := by
  unfold release
  split
  · left; refine ⟨rfl, fun _ => ?_⟩; simp_all
  · left; exact ⟨rfl, by intro h; cases h⟩
  · split
    · right; rename_i o' h heq; subst heq; exact ⟨rfl, rfl, h⟩
    · left; rename_i o' h hne; refine ⟨rfl, fun _ => ?_⟩
      rw [h]; intro hc; injection hc with hc; injection hc with hc; exact hne hc

theorem release_res (l : Links) (k : Key) (o : Own) :
    (release l k o).2 = .ok ∨ ((release l k o).2 = .einval ∧ (release l k o).1 = l) := by
  unfold release
  split
  · left; rfl
  · right; exact ⟨rfl, rfl⟩
  · split <;> (left; rfl)

theorem mem_gc {t : Tbl} {live : List Own} {l : Links} {e : Key × Tgt} :
    e ∈ gc t live l ↔ e ∈ l ∧ ¬ (e.1.tbl = t ∧ ∃ o, e.2 = .own o ∧ o ∉ live) := by
  unfold gc
  rw [List.mem_filter]
  refine and_congr_right (fun _ => ?_)
  obtain ⟨k, tg⟩ := e
  cases tg with
  | file => simp [dangling]
  | own o => simp [dangling]; exact Decidable.imp_iff_not_or.symm

/-! ### Address arithmetic -/

theorem firstFree_spec (occ : Nat → Bool) : ∀ (n a x : Nat), firstFree occ a n = some x →
    a ≤ x ∧ x < a + n ∧ occ x = false := by
  intro n
  induction n with
  | zero => intro a x h; cases h
  | succ n ih =>
    intro a x h
    simp only [firstFree] at h
    split at h
    · obtain ⟨h1, h2, h3⟩ := ih (a + 1) x h
      exact ⟨by omega, by omega, h3⟩
    · injection h with h; subst h
      refine ⟨Nat.le_refl _, by omega, by simpa using ‹¬ occ a = true›⟩

theorem firstFree_min (occ : Nat → Bool) : ∀ (n a x : Nat), firstFree occ a n = some x →
    ∀ y, a ≤ y → y < x → occ y = true := by
  intro n
  induction n with
  | zero => intro a x h; cases h
  | succ n ih =>
    intro a x h y h1 h2
    simp only [firstFree] at h
    split at h
    · rename_i hocc
      by_cases hy : y = a
      · rw [hy]; exact hocc
      · exact ih (a + 1) x h y (by omega) h2
    · injection h with h; omega

theorem firstFree_none (occ : Nat → Bool) : ∀ (n a : Nat), firstFree occ a n = none →
    ∀ y, a ≤ y → y < a + n → occ y = true := by
  intro n
  induction n with
  | zero => intro a _ y h1 h2; omega
  | succ n ih =>
    intro a h y h1 h2
    simp only [firstFree] at h
    split at h
    · rename_i hocc
      by_cases hy : y = a
      · rw [hy]; exact hocc
      · exact ih (a + 1) h y (by omega) (by omega)
    · cases h

/-- `alloc(owner)` walks `hosts()` in ascending order: it returns the first free address, and fails
    only when every host address is taken. -/
theorem vipAllocIn_order (c : Cidr) (mk : Nat → Key) (l : Links) (o : Own) :
    (∀ a, (vipAllocIn c mk l o none).2 = .ip a →
        ∀ y, hostStart c ≤ y → y < a → occupied l mk y = true) ∧
    ((vipAllocIn c mk l o none).2 = .exc →
        ∀ y, hostStart c ≤ y → y < hostStart c + hostCount c → occupied l mk y = true) := by
  unfold vipAllocIn
  simp only
  cases hf : firstFree (occupied l mk) (hostStart c) (hostCount c) with
  | none =>
    refine ⟨fun a h => (by cases h), fun _ => firstFree_none _ _ _ hf⟩
  | some a =>
    refine ⟨fun a' h => ?_, fun h => (by cases h)⟩
    simp only at h
    injection h with h; subst h
    exact firstFree_min _ _ _ _ hf

theorem Cidr.size_pos (c : Cidr) : 0 < c.size := by unfold Cidr.size; exact Nat.two_pow_pos _

/-- Every address `network.hosts()` enumerates is a host address of the network — on the
    32-bit value: same network part, host part neither all-zeros nor all-ones (below /31). -/
theorem host_range (c : Cidr) (hv : c.valid) (a : Nat)
    (h1 : hostStart c ≤ a) (h2 : a < hostStart c + hostCount c) :
    isHost c a = true ∧ a < 2 ^ 32 := by
  obtain ⟨hlen, hbase, htop⟩ := hv
  have hpos := c.size_pos
  -- base = size * q
  obtain ⟨q, hq⟩ : ∃ q, c.base = c.size * q := ⟨c.base / c.size, by
    have := Nat.div_add_mod c.base c.size; omega⟩
  have hsz : 31 ≤ c.len ∨ (c.len ≤ 30 ∧ 4 ≤ c.size) := by
    by_cases h : 31 ≤ c.len
    · left; exact h
    · right; refine ⟨by omega, ?_⟩
      unfold Cidr.size
      have : 2 ≤ 32 - c.len := by omega
      calc 4 = 2 ^ 2 := rfl
        _ ≤ 2 ^ (32 - c.len) := Nat.pow_le_pow_right (by decide) this
  simp only [hostStart, hostCount] at h1 h2
  -- a = base + j with j < size
  have hj : ∃ j, a = c.size * q + j ∧ j < c.size ∧ (31 ≤ c.len ∨ (j ≠ 0 ∧ j ≠ c.size - 1)) := by
    rcases hsz with h | ⟨h, h4⟩
    · simp only [h, ↓reduceIte] at h1 h2
      exact ⟨a - c.base, by omega, by omega, Or.inl h⟩
    · have : ¬ 31 ≤ c.len := by omega
      simp only [this, ↓reduceIte] at h1 h2
      exact ⟨a - c.base, by omega, by omega, Or.inr ⟨by omega, by omega⟩⟩
  obtain ⟨j, ha, hjlt, hjj⟩ := hj
  have hdiv : a / c.size = q := by
    rw [ha, Nat.mul_add_div hpos, Nat.div_eq_of_lt hjlt]; rfl
  have hmod : a % c.size = j := by
    rw [ha, Nat.mul_add_mod, Nat.mod_eq_of_lt hjlt]
  have hbdiv : c.base / c.size = q := by
    rw [hq, Nat.mul_div_cancel_left _ hpos]
  refine ⟨?_, by omega⟩
  unfold isHost inNet
  rw [hdiv, hbdiv, hmod]
  rcases hjj with h | ⟨h0, h1'⟩
  · simp [h]
  · simp [h0, h1']

/-- `inNet` is the range test `network_address ≤ a ≤ broadcast_address`. -/
theorem inNet_iff (c : Cidr) (hv : c.valid) (a : Nat) :
    inNet c a = true ↔ c.base ≤ a ∧ a < c.base + c.size := by
  obtain ⟨_, hbase, _⟩ := hv
  have hpos := c.size_pos
  obtain ⟨q, hq⟩ : ∃ q, c.base = c.size * q := ⟨c.base / c.size, by
    have := Nat.div_add_mod c.base c.size; omega⟩
  have hbdiv : c.base / c.size = q := by rw [hq, Nat.mul_div_cancel_left _ hpos]
  unfold inNet
  rw [hbdiv, beq_iff_eq, Nat.div_eq_iff hpos, hq]
  constructor
  · intro ⟨h1, h2⟩
    have : c.size * q = q * c.size := Nat.mul_comm _ _
    constructor <;> omega
  · intro ⟨h1, h2⟩
    have : c.size * q = q * c.size := Nat.mul_comm _ _
    constructor <;> omega

/-! ### Beliefs and the device table -/

theorem mem_believe {h : Held} {o : Own} {k : Key} {p : Own × Key} :
    p ∈ believe h o k ↔ p ∈ h ∨ p = (o, k) := by
  unfold believe
  split
  · rename_i hc
    have : (o, k) ∈ h := by simpa using hc
    constructor
    · exact Or.inl
    · rintro (h1 | h1)
      · exact h1
      · rw [h1]; exact this
  · simp [List.mem_append]

theorem mem_forget {h : Held} {o : Own} {k : Key} {p : Own × Key} :
    p ∈ forget h o k ↔ p ∈ h ∧ p ≠ (o, k) := by
  unfold forget; simp [List.mem_filter]

theorem mem_forgetOwner {h : Held} {o : Own} {p : Own × Key} :
    p ∈ forgetOwner h o ↔ p ∈ h ∧ p.1 ≠ o := by
  unfold forgetOwner; simp [List.mem_filter]

theorem devLookup_some {o : Own} {l : List (Own × Dev)} {d : Dev} (h : devLookup o l = some d) :
    (o, d) ∈ l := by
  induction l with
  | nil => cases h
  | cons e l ih =>
    obtain ⟨o', d'⟩ := e
    simp only [devLookup] at h
    split at h
    · rename_i ho; injection h with h; subst ho; subst h; exact List.mem_cons_self
    · exact List.mem_cons_of_mem _ (ih h)

theorem devLookup_none {o : Own} {l : List (Own × Dev)} (h : devLookup o l = none) :
    ∀ d, (o, d) ∉ l := by
  induction l with
  | nil => intro d hd; cases hd
  | cons e l ih =>
    obtain ⟨o', d'⟩ := e
    intro d hd
    simp only [devLookup] at h
    split at h
    · cases h
    · rcases List.mem_cons.mp hd with heq | hmem
      · injection heq with h1 h2; exact absurd h1.symm ‹_›
      · exact ih h d hmem

theorem mem_devSet {o : Own} {d : Dev} {l : List (Own × Dev)} {e : Own × Dev}
    (h : e ∈ devSet o d l) : e = (o, d) ∨ (e ∈ l ∧ e.1 ≠ o) := by
  unfold devSet at h
  split at h
  · obtain ⟨x, hx, rfl⟩ := List.mem_map.mp h
    split
    · left; rfl
    · right; exact ⟨hx, by assumption⟩
  · rename_i hn
    rcases List.mem_append.mp h with h | h
    · right
      refine ⟨h, ?_⟩
      intro he
      apply hn
      simp only [List.any_eq_true, beq_iff_eq]
      exact ⟨e, h, he⟩
    · left; simpa using h

theorem devLookup_devSet (o : Own) (d : Dev) (l : List (Own × Dev)) :
    devLookup o (devSet o d l) = some d := by
  unfold devSet
  split
  · rename_i h
    induction l with
    | nil => simp at h
    | cons e l ih =>
      obtain ⟨o', d'⟩ := e
      by_cases ho : o' = o
      · simp [devLookup, ho]
      · have : (l.any fun e => e.1 == o) = true := by
          simp only [List.any_cons, Bool.or_eq_true, beq_iff_eq] at h
          rcases h with h | h
          · exact absurd h ho
          · exact h
        simp only [List.map_cons, ho, ↓reduceIte, devLookup]
        exact ih this
  · induction l with
    | nil => simp [devLookup]
    | cons e l ih =>
      obtain ⟨o', d'⟩ := e
      rename_i h
      have ho : ¬ o' = o := by
        intro he; apply h; simp [he]
      have hl : ¬ (l.any fun e => e.1 == o) = true := by
        intro hc; apply h; simp only [List.any_cons, Bool.or_eq_true]; exact Or.inr hc
      simp only [List.cons_append, devLookup, ho, ↓reduceIte]
      exact ih hl

/-! ### The invariant -/

/-- What holds in every state reachable inside the domain.
    `bel`: what a live owner believes it holds is linked to it; `dev`: every address in the
    service's device table is linked to that device's owner; `dom`: owners are not instance names;
    `vipNet`/`svipHost`/`belHost`: allocated addresses lie in their network. -/
structure Inv (inst : Nat → Bool) (c : Cidr) (s : St) : Prop where
  uniq : Uniq s.links
  bel : ∀ o k, o ∈ s.live → (o, k) ∈ s.held → (k, .own o) ∈ s.links
  dev : ∀ o d a, (o, d) ∈ s.devs → d.ip = some a → (.svip a, .own o) ∈ s.links
  dom : ∀ k o, (k, .own o) ∈ s.links → inst o = false
  vipNet : ∀ o a, (o, .vip a) ∈ s.held → inNet c a = true
  svipHost : ∀ a o, (.svip a, .own o) ∈ s.links → isHost svcCidr a = true
  belHost : ∀ o a, (o, .svip a) ∈ s.held → isHost svcCidr a = true

theorem Inv.init (inst : Nat → Bool) (c : Cidr) : Inv inst c St.init := by
  refine ⟨Uniq.nil, ?_, ?_, ?_, ?_, ?_, ?_⟩ <;> intros <;> simp_all [St.init]

/-- Device entries of `s'` come from entries of `s` with the same owner and address. -/
def DevsFrom (s s' : St) : Prop :=
  ∀ e ∈ s'.devs, ∀ a, e.2.ip = some a → ∃ d, (e.1, d) ∈ s.devs ∧ d.ip = some a

/-- Entries disappear, nothing appears: the invariant survives provided that whoever owned a
    vanished link no longer (as a live owner) believes in it and has no device with it. -/
theorem Inv.shrink {inst c} {s s' : St} (h : Inv inst c s)
    (hsub : ∀ e ∈ s'.links, e ∈ s.links)
    (hlive : ∀ o ∈ s'.live, o ∈ s.live)
    (hheld : ∀ p ∈ s'.held, p ∈ s.held)
    (hdevs : DevsFrom s s')
    (hrem : ∀ k o, (k, .own o) ∈ s.links → (k, .own o) ∉ s'.links →
      (o ∈ s'.live → (o, k) ∉ s'.held) ∧
      (∀ a d, k = .svip a → (o, d) ∈ s'.devs → d.ip ≠ some a)) : Inv inst c s' := by
  refine ⟨?_, ?_, ?_, ?_, ?_, ?_, ?_⟩
  · intro k t t' h1 h2; exact h.uniq k t t' (hsub _ h1) (hsub _ h2)
  · intro o k ho hk
    have hin := h.bel o k (hlive o ho) (hheld _ hk)
    by_cases hc : (k, Tgt.own o) ∈ s'.links
    · exact hc
    · exact absurd hk ((hrem k o hin hc).1 ho)
  · intro o d a hd hip
    obtain ⟨d0, hd0, hip0⟩ := hdevs (o, d) hd a hip
    have hin := h.dev o d0 a hd0 hip0
    by_cases hc : (Key.svip a, Tgt.own o) ∈ s'.links
    · exact hc
    · exact absurd hip ((hrem _ o hin hc).2 a d rfl hd)
  · intro k o hk; exact h.dom k o (hsub _ hk)
  · intro o a hk; exact h.vipNet o a (hheld _ hk)
  · intro a o hk; exact h.svipHost a o (hsub _ hk)
  · intro o a hk; exact h.belHost o a (hheld _ hk)

/-- One entry appears under a fresh name. -/
theorem Inv.grow {inst c} {s s' : St} (h : Inv inst c s) (k : Key) (t : Tgt)
    (hfresh : lookup k s.links = none)
    (hl : s'.links = s.links ++ [(k, t)])
    (hlive : s'.live = s.live)
    (hdomo : ∀ o, t = .own o → inst o = false)
    (hheld : ∀ p ∈ s'.held, p ∈ s.held ∨ (t = .own p.1 ∧ p.2 = k))
    (hdevs : ∀ e ∈ s'.devs, ∀ a, e.2.ip = some a →
      (∃ d, (e.1, d) ∈ s.devs ∧ d.ip = some a) ∨ (t = .own e.1 ∧ k = .svip a))
    (hk1 : ∀ o a, t = .own o → k = .vip a → inNet c a = true)
    (hk2 : ∀ o a, t = .own o → k = .svip a → isHost svcCidr a = true) : Inv inst c s' := by
  have hmem : ∀ e, e ∈ s'.links ↔ e ∈ s.links ∨ e = (k, t) := by
    intro e; rw [hl]; simp [List.mem_append]
  refine ⟨?_, ?_, ?_, ?_, ?_, ?_, ?_⟩
  · rw [hl]; exact h.uniq.append hfresh t
  · intro o k' ho hk
    rw [hlive] at ho
    rcases hheld _ hk with h1 | ⟨h1, h2⟩
    · exact (hmem _).mpr (Or.inl (h.bel o k' ho h1))
    · simp only at h1 h2; rw [h2, ← h1]; exact (hmem _).mpr (Or.inr rfl)
  · intro o d a hd hip
    rcases hdevs (o, d) hd a hip with ⟨d0, hd0, hip0⟩ | ⟨h1, h2⟩
    · exact (hmem _).mpr (Or.inl (h.dev o d0 a hd0 hip0))
    · simp only at h1; rw [← h2, ← h1]; exact (hmem _).mpr (Or.inr rfl)
  · intro k' o hk
    rcases (hmem _).mp hk with h1 | h1
    · exact h.dom k' o h1
    · injection h1 with _ h2; exact hdomo o h2.symm
  · intro o a hk
    rcases hheld _ hk with h1 | ⟨h1, h2⟩
    · exact h.vipNet o a h1
    · exact hk1 o a h1 h2.symm
  · intro a o hk
    rcases (hmem _).mp hk with h1 | h1
    · exact h.svipHost a o h1
    · injection h1 with h2 h3; exact hk2 o a h3.symm h2.symm
  · intro o a hk
    rcases hheld _ hk with h1 | ⟨h1, h2⟩
    · exact h.belHost o a h1
    · exact hk2 o a h1 h2.symm

/-- Links and live owners unchanged; new beliefs / device addresses are backed by links. -/
theorem Inv.same {inst c} {s s' : St} (h : Inv inst c s)
    (hl : s'.links = s.links) (hlive : s'.live = s.live)
    (hheld : ∀ p ∈ s'.held, p ∈ s.held ∨ ((p.2, .own p.1) ∈ s.links ∧
      (∀ a, p.2 = .vip a → inNet c a = true)))
    (hdevs : ∀ e ∈ s'.devs, ∀ a, e.2.ip = some a → (.svip a, .own e.1) ∈ s.links) :
    Inv inst c s' := by
  refine ⟨?_, ?_, ?_, ?_, ?_, ?_, ?_⟩
  · rw [hl]; exact h.uniq
  · intro o k ho hk
    rw [hlive] at ho; rw [hl]
    rcases hheld _ hk with h1 | ⟨h1, _⟩
    · exact h.bel o k ho h1
    · exact h1
  · intro o d a hd hip; rw [hl]; exact hdevs (o, d) hd a hip
  · intro k o hk; rw [hl] at hk; exact h.dom k o hk
  · intro o a hk
    rcases hheld _ hk with h1 | ⟨_, h2⟩
    · exact h.vipNet o a h1
    · exact h2 a rfl
  · intro a o hk; rw [hl] at hk; exact h.svipHost a o hk
  · intro o a hk
    rcases hheld _ hk with h1 | ⟨h1, _⟩
    · exact h.belHost o a h1
    · exact h.svipHost a o h1


theorem lookup_eq_none {k : Key} {l : Links} (h : ∀ t, (k, t) ∉ l) : lookup k l = none := by
  cases hl : lookup k l with
  | none => rfl
  | some t => exact absurd (lookup_some hl) (h t)

theorem DevsFrom.of_eq {s s' : St} (h : s'.devs = s.devs) : DevsFrom s s' := by
  intro e he a ha; rw [h] at he; exact ⟨e.2, he, ha⟩

/-! ### Preservation of the invariant, operation by operation -/

theorem inv_spawn {inst c} {s : St} (h : Inv inst c s) (o : Own) : Inv inst c (spawn s o) := by
  unfold spawn
  split
  · exact h
  · refine ⟨h.uniq, ?_, h.dev, h.dom, ?_, h.svipHost, ?_⟩
    · intro o' k ho' hk
      simp only [List.mem_append, List.mem_singleton] at ho'
      obtain ⟨hk1, hk2⟩ := mem_forgetOwner.mp hk
      rcases ho' with ho' | ho'
      · exact h.bel o' k ho' hk1
      · exact absurd ho' hk2
    · intro o' a hk; exact h.vipNet o' a (mem_forgetOwner.mp hk).1
    · intro o' a hk; exact h.belHost o' a (mem_forgetOwner.mp hk).1

theorem inv_kill {inst c} {s : St} (h : Inv inst c s) (o : Own) : Inv inst c (kill s o) := by
  apply h.shrink
  · intro e he; exact he
  · intro o' ho'; exact (List.mem_filter.mp ho').1
  · intro p hp; exact hp
  · exact DevsFrom.of_eq rfl
  · intro k o' h1 h2; exact absurd h1 h2

theorem inv_addFile {inst c} {s : St} (h : Inv inst c s) (k : Key) (hk : lookup k s.links = none) :
    Inv inst c { s with links := s.links ++ [(k, .file)] } := by
  refine h.grow (s' := { s with links := s.links ++ [(k, .file)] }) k .file hk rfl rfl ?_ ?_ ?_ ?_ ?_
  · intro o ho; cases ho
  · intro p hp; exact Or.inl hp
  · intro e he a ha; exact Or.inl ⟨e.2, he, ha⟩
  · intro o a ho; cases ho
  · intro o a ho; cases ho

theorem inv_touch {inst c} {s : St} (h : Inv inst c s) (k : Key) : Inv inst c (touch s k) := by
  unfold touch
  split
  · exact inv_addFile h k (by assumption)
  · exact h

/-- A successful claim appends a link for the caller, or the name exists with a tolerated owner. -/
theorem inv_claimOp {inst c} {s : St} (h : Inv inst c s) (k : Key) (o : Own) (tol : Own → Bool)
    (ho : inst o = false)
    (hk : k.tbl = .rule ∨ k.tbl = .ep)
    (htol : ∀ o', (k, .own o') ∈ s.links → tol o' = true → o' = o) :
    Inv inst c (claimOp s k o tol).1 := by
  unfold claimOp
  have hs := claim_spec s.links k o tol
  generalize claim s.links k o tol = rr at hs
  obtain ⟨l, res⟩ := rr
  cases res <;> try exact h
  simp only at hs ⊢
  rcases hs with ⟨_, e1, e2⟩ | ⟨e1, e2⟩
  · refine h.grow (s' := { s with links := l, held := believe s.held o k }) k (.own o) e2 e1 rfl ?_ ?_ ?_ ?_ ?_
    · intro o' ho'; injection ho' with ho'; rw [← ho']; exact ho
    · intro p hp
      rcases mem_believe.mp hp with hp | hp
      · exact Or.inl hp
      · right; rw [hp]; exact ⟨rfl, rfl⟩
    · intro e he a ha; exact Or.inl ⟨e.2, he, ha⟩
    · intro o' a _ hka; rw [hka] at hk; simp [Key.tbl] at hk
    · intro o' a _ hka; rw [hka] at hk; simp [Key.tbl] at hk
  · obtain ⟨o', h1, h2⟩ := e2 trivial
    have ho' : o' = o := htol o' (lookup_some h1) h2
    subst ho'
    refine h.same (s' := { s with links := l, held := believe s.held o' k }) e1 rfl ?_ ?_
    · intro p hp
      rcases mem_believe.mp hp with hp | hp
      · exact Or.inl hp
      · right; rw [hp]
        refine ⟨lookup_some h1, ?_⟩
        intro a hka; simp only at hka; rw [hka] at hk; simp [Key.tbl] at hk
    · intro e he a ha; exact h.dev e.1 e.2 a he ha

/-- A release by `o` of a name outside the service's directory. -/
theorem inv_releaseOp {inst c} {s : St} (h : Inv inst c s) (k : Key) (o : Own)
    (hk : k.tbl ≠ .svip) : Inv inst c (releaseOp s k o).1 := by
  unfold releaseOp
  have hs := release_spec s.links k o
  generalize release s.links k o = rr at hs
  obtain ⟨l, res⟩ := rr
  cases res <;> try exact h
  simp only at hs ⊢
  apply h.shrink
  · intro e he
    rcases hs with ⟨h1, _⟩ | ⟨_, h1, _⟩
    · rw [h1] at he; exact he
    · rw [h1] at he; exact (mem_erase.mp he).1
  · intro o' ho'; exact ho'
  · intro p hp; exact (mem_forget.mp hp).1
  · exact DevsFrom.of_eq rfl
  · intro k' o' h1 h2
    rcases hs with ⟨e1, _⟩ | ⟨_, e1, e2⟩
    · simp only at h2; rw [e1] at h2; exact absurd h1 h2
    · simp only at h2
      rw [e1] at h2
      have hk' : k' = k := by
        by_cases hk' : k' = k
        · exact hk'
        · exact absurd (mem_erase.mpr ⟨h1, hk'⟩) h2
      subst hk'
      have := h.uniq _ _ _ h1 (lookup_some e2)
      injection this with this; subst this
      refine ⟨fun _ hc => (mem_forget.mp hc).2 rfl, ?_⟩
      intro a' d hka; rw [hka] at hk; simp [Key.tbl] at hk

/-- Garbage collection of a directory other than the service's. -/
theorem inv_gcOp {inst c} {s : St} (h : Inv inst c s) (t : Tbl) (ht : t ≠ .svip) :
    Inv inst c (gcOp t s) := by
  apply h.shrink
  · intro e he; exact (mem_gc.mp he).1
  · intro o ho; exact ho
  · intro p hp; exact hp
  · exact DevsFrom.of_eq rfl
  · intro k o h1 h2
    have hrm : k.tbl = t ∧ o ∉ s.live := by
      by_cases hc : k.tbl = t ∧ ∃ o', Tgt.own o = .own o' ∧ o' ∉ s.live
      · obtain ⟨hc1, o', hc2, hc3⟩ := hc
        injection hc2 with hc2; subst hc2; exact ⟨hc1, hc3⟩
      · exact absurd (mem_gc.mpr ⟨h1, hc⟩) h2
    refine ⟨fun hl => absurd hl hrm.2, ?_⟩
    intro a d hka; rw [hka] at hrm; exact absurd hrm.1.symm ht

theorem inv_vipInit {inst c} {s : St} (h : Inv inst c s) : Inv inst c (vipInit c s) := by
  apply h.shrink
  · intro e he; exact (List.mem_filter.mp he).1
  · intro o ho; exact ho
  · intro p hp; exact (List.mem_filter.mp hp).1
  · exact DevsFrom.of_eq rfl
  · intro k o h1 h2
    have hw : wiped c k = true := by
      by_cases hc : wiped c k = true
      · exact hc
      · exact absurd (List.mem_filter.mpr ⟨h1, by simpa using hc⟩) h2
    refine ⟨fun _ hc => ?_, ?_⟩
    · have := (List.mem_filter.mp hc).2
      simp [hw] at this
    · intro a d hka; rw [hka] at hw; simp [wiped] at hw

theorem vipAllocIn_spec (c : Cidr) (mk : Nat → Key) (l : Links) (o : Own) (pick : Option Nat) :
    (∃ a, vipAllocIn c mk l o pick = (l ++ [(mk a, .own o)], .ip a) ∧ lookup (mk a) l = none ∧
      ((pick = some a ∧ inNet c a = true) ∨
       (pick = none ∧ hostStart c ≤ a ∧ a < hostStart c + hostCount c))) ∨
    ((vipAllocIn c mk l o pick).1 = l ∧ ∀ a, (vipAllocIn c mk l o pick).2 ≠ .ip a) := by
  unfold vipAllocIn
  cases pick with
  | some a =>
    simp only
    by_cases h1 : inNet c a = true
    · by_cases h2 : occupied l mk a = true
      · right; simp [h1, h2]
      · left
        refine ⟨a, by simp [h1, h2], ?_, Or.inl ⟨rfl, h1⟩⟩
        unfold occupied at h2
        cases hl : lookup (mk a) l with
        | none => rfl
        | some t => simp [hl] at h2
    · right; simp [h1]
  | none =>
    simp only
    cases hf : firstFree (occupied l mk) (hostStart c) (hostCount c) with
    | none => right; simp
    | some a =>
      left
      obtain ⟨h1, h2, h3⟩ := firstFree_spec _ _ _ _ hf
      refine ⟨a, rfl, ?_, Or.inr ⟨trivial, h1, h2⟩⟩
      unfold occupied at h3
      cases hl : lookup (mk a) l with
      | none => rfl
      | some t => simp [hl] at h3

theorem inv_vipAlloc {inst c} {s : St} (h : Inv inst c s) (hv : c.valid) (o : Own) (p : Option Nat)
    (ho : inst o = false) : Inv inst c (vipAlloc c s o p).1 := by
  unfold vipAlloc
  have hs := vipAllocIn_spec c Key.vip s.links o p
  generalize vipAllocIn c Key.vip s.links o p = rr at hs
  obtain ⟨l, res⟩ := rr
  cases res <;> try exact h
  rename_i a
  simp only at hs ⊢
  rcases hs with ⟨a', e1, e2, e3⟩ | ⟨_, e2⟩
  · injection e1 with e1 e1'
    injection e1' with e1'
    subst e1'
    refine h.grow (s' := { s with links := l, held := believe s.held o (.vip a) }) (.vip a) (.own o) e2 e1 rfl
      ?_ ?_ ?_ ?_ ?_
    · intro o' ho'; injection ho' with ho'; rw [← ho']; exact ho
    · intro q hq
      rcases mem_believe.mp hq with hq | hq
      · exact Or.inl hq
      · right; rw [hq]; simp
    · intro e he a0 ha; exact Or.inl ⟨e.2, he, ha⟩
    · intro o' a0 _ hka
      injection hka with hka; subst hka
      rcases e3 with ⟨_, e3⟩ | ⟨_, e3, e4⟩
      · exact e3
      · have := (host_range c hv a e3 e4).1
        unfold isHost at this
        simp only [Bool.and_eq_true] at this
        exact this.1
    · intro o' a0 _ hka; cases hka
  · exact absurd rfl (e2 a)

/-! ### EndpointsMgr -/

theorem inv_epCreate {inst c} {s : St} (h : Inv inst c s) (sp : Spec) (ow : Option Own)
    (hd : ∀ o, ow = some o → inst o = false ∧ inst sp.app = true) :
    Inv inst c (epCreate s sp ow).1 := by
  cases ow with
  | some o =>
    obtain ⟨ho, happ⟩ := hd o rfl
    simp only [epCreate]
    apply inv_claimOp h _ _ _ ho (Or.inr rfl)
    intro o' hin htol
    have : o' = sp.app := by simpa using htol
    have hdm := h.dom _ _ hin
    rw [this, happ] at hdm
    cases hdm
  | none =>
    simp only [epCreate]
    split
    · exact inv_addFile h _ (by assumption)
    · exact h
    · exact inv_spawn h _

theorem unlinkLoop_sub (owner : Option Own) : ∀ (ks : List Key) (l : Links),
    ∀ e ∈ (unlinkLoop owner l ks).1, e ∈ l := by
  intro ks
  induction ks with
  | nil => intro l e he; exact he
  | cons k ks ih =>
    intro l e he
    unfold unlinkLoop at he
    cases owner with
    | none => exact (mem_erase.mp (ih _ e he)).1
    | some o =>
      simp only at he
      split at he
      · exact ih _ e he
      · exact he
      · split at he
        · exact (mem_erase.mp (ih _ e he)).1
        · exact ih _ e he

/-- With an owner, `unlink_all` removes only links of that owner, and only names it was given. -/
theorem unlinkLoop_removed (o : Own) : ∀ (ks : List Key) (l : Links), Uniq l →
    ∀ e ∈ l, e ∉ (unlinkLoop (some o) l ks).1 → e.2 = .own o ∧ e.1 ∈ ks := by
  intro ks
  induction ks with
  | nil => intro l _ e he hn; exact absurd he hn
  | cons k ks ih =>
    intro l hu e he hn
    unfold unlinkLoop at hn
    simp only at hn
    split at hn
    · obtain ⟨h1, h2⟩ := ih l hu e he hn
      exact ⟨h1, List.mem_cons_of_mem _ h2⟩
    · exact absurd he hn
    · rename_i o' hl
      split at hn
      · rename_i heq
        subst heq
        by_cases hk : e.1 = k
        · refine ⟨?_, by rw [hk]; exact List.mem_cons_self⟩
          obtain ⟨k', t'⟩ := e
          simp only at hk; subst hk
          exact hu _ _ _ he (lookup_some hl)
        · obtain ⟨h1, h2⟩ := ih _ (hu.filter _) e (mem_erase.mpr ⟨he, hk⟩) hn
          exact ⟨h1, List.mem_cons_of_mem _ h2⟩
      · obtain ⟨h1, h2⟩ := ih l hu e he hn
        exact ⟨h1, List.mem_cons_of_mem _ h2⟩

theorem inv_epUnlinkAll {inst c} {s : St} (h : Inv inst c s) (app : Nat) (p e : Option Nat) (o : Own)
    (ord : List Key) : Inv inst c (epUnlinkAll s app p e (some o) ord).1 := by
  unfold epUnlinkAll
  simp only
  have hsub := unlinkLoop_sub (some o) (ord.filter (keyMatches app p e)) s.links
  have hrm := unlinkLoop_removed o (ord.filter (keyMatches app p e)) s.links h.uniq
  generalize unlinkLoop (some o) s.links (ord.filter (keyMatches app p e)) = rr at hsub hrm
  obtain ⟨l, r⟩ := rr
  simp only at hsub hrm ⊢
  apply h.shrink
  · exact hsub
  · intro o' ho'; exact ho'
  · intro q hq; exact (List.mem_filter.mp hq).1
  · exact DevsFrom.of_eq rfl
  · intro k o' h1 h2
    simp only at h2
    obtain ⟨e1, e2⟩ := hrm _ h1 h2
    simp only at e1 e2
    injection e1 with e1; subst e1
    have hm : keyMatches app p e k = true := (List.mem_filter.mp e2).2
    refine ⟨fun _ hc => ?_, ?_⟩
    · have hc2 := (List.mem_filter.mp hc).2
      have hnone : lookup k l = none := by
        apply lookup_eq_none
        intro t ht
        have := h.uniq _ _ _ (hsub _ ht) h1
        subst this
        exact h2 ht
      simp [hm, hnone] at hc2
    · intro a d hka; subst hka; simp [keyMatches] at hm

/-! ### NetworkResourceService -/

theorem importOne_ip (d : List (Own × Dev)) (e0 : Key × Tgt) :
    ∀ e ∈ importOne d e0, ∀ a, e.2.ip = some a →
      e0 = (.svip a, .own e.1) ∨ ∃ d0, (e.1, d0) ∈ d ∧ d0.ip = some a := by
  intro e he a ha
  unfold importOne at he
  split at he
  · rename_i a' o'
    split at he
    · rcases mem_devSet he with h1 | ⟨h1, _⟩
      · left; rw [h1] at ha ⊢; simp only at ha ⊢; injection ha with ha; rw [ha]
      · right; exact ⟨e.2, h1, ha⟩
    · rcases mem_devSet he with h1 | ⟨h1, _⟩
      · left; rw [h1] at ha ⊢; simp only at ha ⊢; injection ha with ha; rw [ha]
      · right; exact ⟨e.2, h1, ha⟩
  · right; exact ⟨e.2, he, ha⟩

theorem importVips_ip : ∀ (l : Links) (d : List (Own × Dev)),
    ∀ e ∈ importVips l d, ∀ a, e.2.ip = some a →
      (.svip a, .own e.1) ∈ l ∨ ∃ d0, (e.1, d0) ∈ d ∧ d0.ip = some a := by
  intro l
  induction l with
  | nil => intro d e he a ha; right; exact ⟨e.2, he, ha⟩
  | cons e0 l ih =>
    intro d e he a ha
    unfold importVips at he
    simp only [List.foldl_cons] at he
    rcases ih (importOne d e0) e he a ha with h1 | ⟨d0, h1, h2⟩
    · left; exact List.mem_cons_of_mem _ h1
    · rcases importOne_ip d e0 (e.1, d0) h1 a h2 with h3 | h3
      · left; rw [h3]; exact List.mem_cons_self
      · right; exact h3

theorem bridge_noip (ks : List Own) : ∀ (d : List (Own × Dev)), (∀ e ∈ d, e.2.ip = none) →
    ∀ e ∈ ks.foldl (fun d o => devSet o { ip := none, hasDev := true, env := none, stale := false } d) d,
      e.2.ip = none := by
  induction ks with
  | nil => intro d hd e he; exact hd e he
  | cons k ks ih =>
    intro d hd e he
    simp only [List.foldl_cons] at he
    apply ih _ _ e he
    intro e' he'
    rcases mem_devSet he' with h1 | ⟨h1, _⟩
    · rw [h1]
    · exact hd e' h1

theorem inv_svcRestart {inst c} {s : St} (h : Inv inst c s) : Inv inst c (svcRestart s) := by
  refine h.same (s' := svcRestart s) rfl rfl (fun p hp => Or.inl hp) ?_
  intro e he a ha
  unfold svcRestart at he
  simp only at he
  obtain ⟨e', he', rfl⟩ := List.mem_map.mp he
  simp only at ha ⊢
  rcases importVips_ip _ _ e' he' a ha with h1 | ⟨d0, h1, h2⟩
  · exact h1
  · have := bridge_noip s.kdevs [] (by intro e he; cases he) _ h1
    simp only at this
    rw [this] at h2; cases h2

theorem svcCidr_valid : svcCidr.valid := by decide

theorem svcAddr_spec (s : St) (o : Own) :
    (∃ a, svcAddr s o = .ok (s.links ++ [(.svip a, .own o)],
            devSet o { ip := some a, hasDev := false, env := none, stale := false } s.devs, false, a) ∧
        devLookup o s.devs = none ∧ lookup (.svip a) s.links = none ∧ isHost svcCidr a = true) ∨
    (∃ d a, svcAddr s o = .ok (s.links, s.devs, d.hasDev, a) ∧ devLookup o s.devs = some d ∧ d.ip = some a) ∨
    (∃ r, svcAddr s o = .error r ∧ ∀ a, r ≠ .ip a) := by
  unfold svcAddr
  cases hd : devLookup o s.devs with
  | none =>
    simp only
    have hs := vipAllocIn_spec svcCidr Key.svip s.links o none
    generalize vipAllocIn svcCidr Key.svip s.links o none = rr at hs
    obtain ⟨l, res⟩ := rr
    rcases hs with ⟨a, e1, e2, e3⟩ | ⟨_, e2⟩
    · injection e1 with e1 e1'
      subst e1 e1'
      left
      refine ⟨a, rfl, trivial, e2, ?_⟩
      rcases e3 with ⟨e3, _⟩ | ⟨_, e3, e4⟩
      · cases e3
      · exact (host_range svcCidr svcCidr_valid a e3 e4).1
    · right; right
      cases res <;> first | exact ⟨_, rfl, by intro a h; cases h⟩ | exact absurd rfl (e2 _)
  | some d =>
    simp only
    cases hip : d.ip with
    | none => right; right; exact ⟨_, rfl, by intro a h; cases h⟩
    | some a => right; left; exact ⟨d, a, rfl, rfl, hip⟩

theorem inv_svcCreate {inst c} {s : St} (h : Inv inst c s) (o : Own) (env : Option Bool)
    (ho : inst o = false) : Inv inst c (svcCreate s o env).1 := by
  unfold svcCreate
  cases env with
  | none => exact h
  | some prod =>
    simp only
    rcases svcAddr_spec s o with ⟨a, e1, e2, e3, e4⟩ | ⟨d, a, e1, e2, e3⟩ | ⟨r, e1⟩
    · rw [e1]
      simp only
      have key : ∀ (held : Held) (kd : List Own) (ps ns : List Nat),
          (∀ p ∈ held, p ∈ s.held ∨ p = (o, .svip a)) →
          Inv inst c { s with links := s.links ++ [(.svip a, .own o)],
                              devs := devSet o { ip := some a, hasDev := true, env := some prod, stale := false }
                                (devSet o { ip := some a, hasDev := false, env := none, stale := false } s.devs),
                              kdevs := kd, prodSet := ps, nonprodSet := ns, held := held } := by
        intro held kd ps ns hheld
        refine h.grow (.svip a) (.own o) e3 ?_ ?_ ?_ ?_ ?_ ?_ ?_
        · rfl
        · rfl
        · intro o' ho'; injection ho' with ho'; rw [← ho']; exact ho
        · intro q hq
          rcases hheld q hq with hq | hq
          · exact Or.inl hq
          · right; rw [hq]; simp
        · intro e he a0 ha
          rcases mem_devSet he with h1 | ⟨h1, h2⟩
          · right; rw [h1] at ha ⊢; simp only at ha ⊢; injection ha with ha; rw [ha]; simp
          · rcases mem_devSet h1 with h3 | ⟨h3, _⟩
            · rw [h3] at h2; exact absurd rfl h2
            · exact Or.inl ⟨e.2, h3, ha⟩
        · intro o' a0 _ hka; cases hka
        · intro o' a0 _ hka; injection hka with hka; rw [← hka]; exact e4
      generalize (if prod = true then s.nonprodSet.contains a else s.prodSet.contains a) = clash
      cases clash
      · simp only [Bool.false_eq_true, ↓reduceIte]
        exact key _ _ _ _ (fun p hp => mem_believe.mp hp)
      · simp only [↓reduceIte]
        exact key _ _ _ _ (fun p hp => Or.inl hp)
    · rw [e1]
      simp only
      have hd := devLookup_some e2
      have hlink := h.dev o d a hd e3
      have key : ∀ (held : Held) (kd : List Own) (ps ns : List Nat),
          (∀ p ∈ held, p ∈ s.held ∨ p = (o, .svip a)) →
          Inv inst c { s with links := s.links,
                              devs := devSet o { ip := some a, hasDev := true, env := some prod, stale := false } s.devs,
                              kdevs := kd, prodSet := ps, nonprodSet := ns, held := held } := by
        intro held kd ps ns hheld
        refine h.same ?_ ?_ ?_ ?_
        · rfl
        · rfl
        · intro q hq
          rcases hheld q hq with hq | hq
          · exact Or.inl hq
          · right; rw [hq]; exact ⟨hlink, by intro a0 hka; cases hka⟩
        · intro e he a0 ha
          rcases mem_devSet he with h1 | ⟨h1, _⟩
          · rw [h1] at ha ⊢; simp only at ha ⊢; injection ha with ha; rw [← ha]; exact hlink
          · exact h.dev e.1 e.2 a0 h1 ha
      generalize (if prod = true then s.nonprodSet.contains a else s.prodSet.contains a) = clash
      cases clash
      · simp only [Bool.false_eq_true, ↓reduceIte]
        exact key _ _ _ _ (fun p hp => mem_believe.mp hp)
      · simp only [↓reduceIte]
        exact key _ _ _ _ (fun p hp => Or.inl hp)
    · rw [e1.1]; exact h

/-- A create request whose veth creation fails keeps the invariant: the address it allocated is
    linked to the requester and remembered in the device table. -/
theorem inv_svcCreateCut {inst c} {s : St} (h : Inv inst c s) (o : Own) (env : Option Bool)
    (ho : inst o = false) : Inv inst c (svcCreateCut s o env).1 := by
  unfold svcCreateCut
  cases env with
  | none => exact h
  | some prod =>
    simp only
    rcases svcAddr_spec s o with ⟨a, e1, e2, e3, e4⟩ | ⟨d, a, e1, e2, e3⟩ | ⟨r, e1⟩
    · rw [e1]
      simp only [Bool.false_eq_true, ↓reduceIte]
      refine h.grow (.svip a) (.own o) e3 rfl rfl ?_ ?_ ?_ ?_ ?_
      · intro o' ho'; injection ho' with ho'; rw [← ho']; exact ho
      · intro q hq; exact Or.inl hq
      · intro e he a0 ha
        rcases mem_devSet he with h1 | ⟨h1, _⟩
        · right; rw [h1] at ha ⊢; simp only at ha ⊢; injection ha with ha; rw [ha]; simp
        · exact Or.inl ⟨e.2, h1, ha⟩
      · intro o' a0 _ hka; cases hka
      · intro o' a0 _ hka; injection hka with hka; rw [← hka]; exact e4
    · rw [e1]
      simp only
      cases hd : d.hasDev with
      | true => simpa using inv_svcCreate h o (some prod) ho
      | false => simpa using h
    · rw [e1.1]; exact h

/-- `on_delete_request(o)`: the owner's own release, or (in `synchronize`) of a dead owner. -/
theorem inv_svcDelete {inst c} {s : St} (h : Inv inst c s) (o : Own) (b : Bool)
    (hb : b = true ∨ o ∉ s.live) : Inv inst c (svcDelete s o b).1 := by
  have hheldsub : ∀ p ∈ (if b then s.held.filter (fun p => !(p.1 == o && p.2.tbl == .svip)) else s.held),
      p ∈ s.held := by
    intro p hp; split at hp
    · exact (List.mem_filter.mp hp).1
    · exact hp
  have hdevsub : ∀ (s' : St), s'.devs = devPop o s.devs → DevsFrom s s' := by
    intro s' hs' e he a ha
    rw [hs'] at he
    exact ⟨e.2, (List.mem_filter.mp he).1, ha⟩
  unfold svcDelete
  simp only
  split
  · rename_i a env hl
    have hs := release_spec s.links (.svip a) o
    generalize release s.links (.svip a) o = rr at hs
    obtain ⟨l, res⟩ := rr
    have hnorem : ∀ (s' : St), s'.links = s.links → s'.live = s.live → s'.devs = devPop o s.devs →
        (∀ p ∈ s'.held, p ∈ s.held) → Inv inst c s' := by
      intro s' h1 h2 h3 h4
      apply h.shrink
      · intro e he; rw [h1] at he; exact he
      · intro o' ho'; rw [h2] at ho'; exact ho'
      · exact h4
      · exact hdevsub s' h3
      · intro k o' hin hnin; rw [h1] at hnin; exact absurd hin hnin
    cases res <;> try (simp only; exact hnorem _ rfl rfl rfl (fun p hp => hp))
    simp only at hs ⊢
    rcases hs with ⟨e1, _⟩ | ⟨_, e1, e2⟩
    · exact hnorem _ e1 rfl rfl hheldsub
    · apply h.shrink
      · intro e he; simp only at he; rw [e1] at he; exact (mem_erase.mp he).1
      · intro o' ho'; exact ho'
      · exact hheldsub
      · exact hdevsub _ rfl
      · intro k o' h1 h2
        simp only at h2
        rw [e1] at h2
        have hk' : k = .svip a := by
          by_cases hk' : k = .svip a
          · exact hk'
          · exact absurd (mem_erase.mpr ⟨h1, hk'⟩) h2
        subst hk'
        have := h.uniq _ _ _ h1 (lookup_some e2)
        injection this with this; subst this
        refine ⟨fun hlive hc => ?_, ?_⟩
        · rcases hb with hb | hb
          · subst hb
            simp only [↓reduceIte] at hc
            have := (List.mem_filter.mp hc).2
            simp [Key.tbl] at this
          · exact hb hlive
        · intro a' d _ hd
          simp only [devPop] at hd
          have := (List.mem_filter.mp hd).2
          simp at this
  · apply h.shrink
    · intro e he; exact he
    · intro o' ho'; exact ho'
    · exact hheldsub
    · exact hdevsub _ rfl
    · intro k o' h1 h2; exact absurd h1 h2

theorem svcDelete_frame (s : St) (o : Own) (b : Bool) :
    (svcDelete s o b).1.live = s.live ∧ (svcDelete s o b).1.devs = devPop o s.devs := by
  unfold svcDelete
  simp only
  split
  · split <;> exact ⟨rfl, rfl⟩
  · exact ⟨rfl, rfl⟩

/-- The stale pass of `synchronize` for owners that are gone. -/
theorem inv_expunge {inst c} : ∀ (os : List Own) (s : St), Inv inst c s → (∀ o ∈ os, o ∉ s.live) →
    Inv inst c (expunge os s).1 ∧ (expunge os s).1.live = s.live ∧
    (∀ e ∈ (expunge os s).1.devs, e ∈ s.devs) ∧
    ((expunge os s).2 = .ok → ∀ e ∈ (expunge os s).1.devs, e.1 ∉ os) := by
  intro os
  induction os with
  | nil => intro s h _; exact ⟨h, rfl, fun e he => he, fun _ e _ hc => by cases hc⟩
  | cons o os ih =>
    intro s h hdead
    unfold expunge
    have h1 := inv_svcDelete h o false (Or.inr (hdead o List.mem_cons_self))
    have h2 := svcDelete_frame s o false
    generalize svcDelete s o false = rr at h1 h2
    obtain ⟨s1, r⟩ := rr
    simp only at h1 h2
    obtain ⟨hl, hd⟩ := h2
    have hsub1 : ∀ e ∈ s1.devs, e ∈ s.devs := by
      intro e he; rw [hd] at he; exact (List.mem_filter.mp he).1
    cases r with
    | ok =>
      simp only
      have hdead' : ∀ o' ∈ os, o' ∉ s1.live := by
        intro o' ho'; rw [hl]; exact hdead o' (List.mem_cons_of_mem _ ho')
      obtain ⟨i1, i2, i3, i4⟩ := ih s1 h1 hdead'
      refine ⟨i1, by rw [i2, hl], fun e he => hsub1 e (i3 e he), ?_⟩
      intro hok e he hc
      rcases List.mem_cons.mp hc with hc | hc
      · have := i3 e he
        rw [hd] at this
        have := (List.mem_filter.mp this).2
        simp [hc] at this
      · exact i4 hok e he hc
    | _ => exact ⟨h1, hl, hsub1, fun hc => by cases hc⟩

theorem inv_svcSync {inst c} {s : St} (h : Inv inst c s)
    (hg : s.devs.all (fun e => e.2.stale == !s.live.contains e.1) = true) :
    Inv inst c (svcSync s).1 := by
  have hg' : ∀ e ∈ s.devs, e.2.stale = !s.live.contains e.1 := by
    intro e he
    have := List.all_eq_true.mp hg e he
    simpa using this
  unfold svcSync
  simp only
  have hdead : ∀ o ∈ (s.devs.filter (fun e => e.2.stale)).map (·.1), o ∉ s.live := by
    intro o ho
    obtain ⟨e, he, rfl⟩ := List.mem_map.mp ho
    obtain ⟨he1, he2⟩ := List.mem_filter.mp he
    have := hg' e he1
    rw [he2] at this
    intro hc
    have hcn : s.live.contains e.1 = true := by simpa using hc
    rw [hcn] at this
    simp at this
  have hx := inv_expunge ((s.devs.filter (fun e => e.2.stale)).map (·.1)) s h hdead
  generalize expunge ((s.devs.filter (fun e => e.2.stale)).map (·.1)) s = rr at hx
  obtain ⟨s1, r⟩ := rr
  simp only at hx
  obtain ⟨i1, i2, i3, i4⟩ := hx
  cases r <;> try exact i1
  simp only
  split
  · exact i1
  · apply i1.shrink
    · intro e he; exact (mem_gc.mp he).1
    · intro o ho; exact ho
    · intro p hp; exact hp
    · exact DevsFrom.of_eq rfl
    · intro k o h1 h2
      simp only at h2
      have hrm : k.tbl = .svip ∧ o ∉ s1.live := by
        by_cases hc : k.tbl = .svip ∧ ∃ o', Tgt.own o = .own o' ∧ o' ∉ s1.live
        · obtain ⟨hc1, o', hc2, hc3⟩ := hc
          injection hc2 with hc2; subst hc2; exact ⟨hc1, hc3⟩
        · exact absurd (mem_gc.mpr ⟨h1, hc⟩) h2
      refine ⟨fun hl => absurd hl hrm.2, ?_⟩
      intro a d _ hd
      simp only at hd
      exfalso
      have hin := i3 _ hd
      have hns : d.stale = false := by
        cases hst : d.stale with
        | false => rfl
        | true =>
          exfalso
          apply i4 rfl _ hd
          exact List.mem_map.mpr ⟨(o, d), List.mem_filter.mpr ⟨hin, hst⟩, rfl⟩
      have := hg' _ hin
      simp only [hns] at this
      apply hrm.2
      rw [i2]
      have : s.live.contains o = true := by
        cases hcn : s.live.contains o with
        | true => rfl
        | false => rw [hcn] at this; simp at this
      simpa using this

/-! ### All operations -/

/-- Inside the domain every operation preserves the invariant. -/
theorem inv_svcDeleteCut {inst c} {s : St} (h : Inv inst c s) (o : Own) : Inv inst c (svcDeleteCut s o).1 := by
  unfold svcDeleteCut
  split
  · refine Inv.shrink h (fun e he => he) (fun o' ho' => ho') (fun p hp => (List.mem_filter.mp hp).1) ?_ ?_
    · intro e he a ha
      have hm : e ∈ s.devs := (List.mem_filter.mp he).1
      exact ⟨e.2, hm, ha⟩
    · intro k o' hin hnot
      exact absurd hin hnot
  · exact inv_svcDelete h o true (Or.inl rfl)

theorem inv_step {inst c} (hv : c.valid) {s : St} (h : Inv inst c s) (op : Op)
    (hok : opOk inst s op = true) : Inv inst c (step c s op).1 := by
  cases op with
  | spawn o => exact inv_spawn h o
  | kill o => exact inv_kill h o
  | touch k => exact inv_touch h k
  | vipAlloc o p => exact inv_vipAlloc h hv o p (by simpa [opOk, ownerOk] using hok)
  | vipFree o a => exact inv_releaseOp h _ o (by simp [Key.tbl])
  | vipGc => exact inv_gcOp h .vip (by decide)
  | vipInit => exact inv_vipInit h
  | vipList => exact h
  | ruleCreate r o =>
    refine inv_claimOp h _ o _ (by simpa [opOk, ownerOk] using hok) (Or.inl rfl) ?_
    intro o' _ ht; simpa using ht
  | ruleUnlink r o => exact inv_releaseOp h _ o (by simp [Key.tbl])
  | ruleGc => exact inv_gcOp h .rule (by decide)
  | epCreate sp ow =>
    apply inv_epCreate h sp ow
    intro o ho; subst ho
    simpa [opOk, ownerOk] using hok
  | epUnlink sp ow =>
    cases ow with
    | none => simp [opOk] at hok
    | some o => exact inv_releaseOp h _ o (by simp [Key.tbl])
  | epUnlinkAll app p e ow ord =>
    cases ow with
    | none => simp [opOk] at hok
    | some o => exact inv_epUnlinkAll h app p e o ord
  | epGc => exact inv_gcOp h .ep (by decide)
  | svcRestart => exact inv_svcRestart h
  | svcCreate o env => exact inv_svcCreate h o env (by simpa [opOk, ownerOk] using hok)
  | svcCreateCut o env => exact inv_svcCreateCut h o env (by simpa [opOk, ownerOk] using hok)
  | svcDelete o => exact inv_svcDelete h o true (Or.inl rfl)
  | svcDeleteCut o => exact inv_svcDeleteCut h o
  | svcSync => exact inv_svcSync h (by simpa [opOk] using hok)
  | devGone o => exact ⟨h.uniq, h.bel, h.dev, h.dom, h.vipNet, h.svipHost, h.belHost⟩

theorem inv_run {inst c} (hv : c.valid) : ∀ (ops : List Op) (s : St), Inv inst c s →
    Proto c inst s ops → Inv inst c (run c s ops) := by
  intro ops
  induction ops with
  | nil => intro s h _; exact h
  | cons op ops ih =>
    intro s h hp
    unfold Proto protoB at hp
    simp only [Bool.and_eq_true] at hp
    exact ih _ (inv_step hv h op hp.1) hp.2

/-! ### Key uniqueness needs no domain assumption -/

theorem uniq_claimOp {s : St} (h : Uniq s.links) (k : Key) (o : Own) (tol : Own → Bool) :
    Uniq (claimOp s k o tol).1.links := by
  unfold claimOp
  have hs := claim_spec s.links k o tol
  generalize claim s.links k o tol = rr at hs
  obtain ⟨l, res⟩ := rr
  cases res <;> try exact h
  simp only at hs ⊢
  rcases hs with ⟨_, e1, e2⟩ | ⟨e1, _⟩
  · rw [e1]; exact h.append e2 _
  · rw [e1]; exact h

theorem uniq_releaseOp {s : St} (h : Uniq s.links) (k : Key) (o : Own) :
    Uniq (releaseOp s k o).1.links := by
  unfold releaseOp
  have hs := release_spec s.links k o
  generalize release s.links k o = rr at hs
  obtain ⟨l, res⟩ := rr
  cases res <;> try exact h
  simp only at hs ⊢
  rcases hs with ⟨e1, _⟩ | ⟨_, e1, _⟩
  · rw [e1]; exact h
  · rw [e1]; exact h.filter _

theorem uniq_of_sub {l l' : Links} (h : Uniq l) (hs : ∀ e ∈ l', e ∈ l) : Uniq l' := by
  intro k t t' h1 h2; exact h k t t' (hs _ h1) (hs _ h2)

theorem uniq_vipAllocIn {l : Links} (h : Uniq l) (c : Cidr) (mk : Nat → Key) (o : Own) (p : Option Nat) :
    Uniq (vipAllocIn c mk l o p).1 := by
  rcases vipAllocIn_spec c mk l o p with ⟨a, e1, e2, _⟩ | ⟨e1, _⟩
  · rw [e1]; exact h.append e2 _
  · rw [e1]; exact h

theorem svcDelete_links_sub (s : St) (o : Own) (b : Bool) :
    ∀ e ∈ (svcDelete s o b).1.links, e ∈ s.links := by
  unfold svcDelete
  simp only
  split
  · rename_i a env hl
    have hs := release_spec s.links (.svip a) o
    generalize release s.links (.svip a) o = rr at hs
    obtain ⟨l, res⟩ := rr
    cases res <;> try (intro e he; exact he)
    simp only at hs ⊢
    rcases hs with ⟨e1, _⟩ | ⟨_, e1, _⟩
    · rw [e1]; intro e he; exact he
    · rw [e1]; intro e he; exact (mem_erase.mp he).1
  · intro e he; exact he

theorem expunge_links_sub : ∀ (os : List Own) (s : St),
    ∀ e ∈ (expunge os s).1.links, e ∈ s.links := by
  intro os
  induction os with
  | nil => intro s e he; exact he
  | cons o os ih =>
    intro s e he
    unfold expunge at he
    have h1 := svcDelete_links_sub s o false
    generalize svcDelete s o false = rr at h1 he
    obtain ⟨s1, r⟩ := rr
    cases r with
    | ok => exact h1 e (ih s1 e he)
    | _ => exact h1 e he

theorem svcSync_links_sub (s : St) : ∀ e ∈ (svcSync s).1.links, e ∈ s.links := by
  unfold svcSync
  simp only
  have h1 := expunge_links_sub ((s.devs.filter (fun e => e.2.stale)).map (·.1)) s
  generalize expunge ((s.devs.filter (fun e => e.2.stale)).map (·.1)) s = rr at h1
  obtain ⟨s1, r⟩ := rr
  cases r <;> try exact h1
  simp only
  split
  · exact h1
  · intro e he; exact h1 e (mem_gc.mp he).1

theorem svcCreate_links (s : St) (o : Own) (env : Option Bool) :
    (svcCreate s o env).1.links = s.links ∨
    ∃ a, (svcCreate s o env).1.links = s.links ++ [(.svip a, .own o)] ∧ lookup (.svip a) s.links = none ∧
      devLookup o s.devs = none := by
  unfold svcCreate
  cases env with
  | none => left; rfl
  | some prod =>
    simp only
    rcases svcAddr_spec s o with ⟨a, e1, e2, e3, e4⟩ | ⟨d, a, e1, e2, e3⟩ | ⟨r, e1⟩
    · rw [e1]; right; refine ⟨a, ?_, e3, e2⟩
      simp only
      generalize (if prod = true then s.nonprodSet.contains a else s.prodSet.contains a) = clash
      cases clash <;> rfl
    · rw [e1]; left; simp only
      generalize (if prod = true then s.nonprodSet.contains a else s.prodSet.contains a) = clash
      cases clash <;> rfl
    · rw [e1.1]; left; rfl

theorem svcCreateCut_links (s : St) (o : Own) (env : Option Bool) :
    (svcCreateCut s o env).1.links = s.links ∨
    ∃ a, (svcCreateCut s o env).1.links = s.links ++ [(.svip a, .own o)] ∧ lookup (.svip a) s.links = none ∧
      devLookup o s.devs = none := by
  unfold svcCreateCut
  cases env with
  | none => left; rfl
  | some prod =>
    simp only
    rcases svcAddr_spec s o with ⟨a, e1, e2, e3, e4⟩ | ⟨d, a, e1, e2, e3⟩ | ⟨r, e1⟩
    · rw [e1]; right; exact ⟨a, by simp, e3, e2⟩
    · rw [e1]; simp only
      cases hd : d.hasDev with
      | true =>
        simp only [↓reduceIte]
        rcases svcCreate_links s o (some prod) with e | ⟨a', _, _, e'⟩
        · left; exact e
        · rw [e2] at e'; cases e'
      | false => left; simp
    · rw [e1.1]; left; rfl

/-- **Every** operation (inside the domain or not) keeps names unique. -/
theorem svcDeleteCut_links_sub (s : St) (o : Own) :
    ∀ e ∈ (svcDeleteCut s o).1.links, e ∈ s.links := by
  unfold svcDeleteCut
  split
  · intro e he; exact he
  · exact svcDelete_links_sub s o true

theorem uniq_step (c : Cidr) {s : St} (h : Uniq s.links) (op : Op) : Uniq (step c s op).1.links := by
  cases op with
  | spawn o => simp only [step, spawn]; split <;> exact h
  | kill o => exact h
  | touch k =>
    simp only [step, touch]
    split
    · exact h.append (by assumption) _
    · exact h
  | vipAlloc o p =>
    simp only [step, vipAlloc]
    have := uniq_vipAllocIn h c Key.vip o p
    generalize vipAllocIn c Key.vip s.links o p = rr at this
    obtain ⟨l, res⟩ := rr
    cases res <;> first | exact h | exact this
  | vipFree o a => exact uniq_releaseOp h _ o
  | vipGc => exact h.filter _
  | vipInit => exact h.filter _
  | vipList => exact h
  | ruleCreate r o => exact uniq_claimOp h _ o _
  | ruleUnlink r o => exact uniq_releaseOp h _ o
  | ruleGc => exact h.filter _
  | epCreate sp ow =>
    cases ow with
    | some o => exact uniq_claimOp h _ o _
    | none =>
      simp only [step, epCreate]
      split
      · exact h.append (by assumption) _
      · exact h
      · simp only [spawn]; split <;> exact h
  | epUnlink sp ow =>
    cases ow with
    | some o => exact uniq_releaseOp h _ o
    | none => exact h.filter _
  | epUnlinkAll app p e ow ord =>
    apply uniq_of_sub h
    simp only [step, epUnlinkAll]
    exact unlinkLoop_sub ow _ _
  | epGc => exact h.filter _
  | svcRestart => exact h
  | svcCreate o env =>
    simp only [step]
    rcases svcCreate_links s o env with e | ⟨a, e1, e2, _⟩
    · rw [e]; exact h
    · rw [e1]; exact h.append e2 _
  | svcCreateCut o env =>
    simp only [step]
    rcases svcCreateCut_links s o env with e | ⟨a, e1, e2, _⟩
    · rw [e]; exact h
    · rw [e1]; exact h.append e2 _
  | svcDelete o => exact uniq_of_sub h (svcDelete_links_sub s o true)
  | svcDeleteCut o => exact uniq_of_sub h (svcDeleteCut_links_sub s o)
  | svcSync => exact uniq_of_sub h (svcSync_links_sub s)
  | devGone o => exact h

theorem uniq_run (c : Cidr) : ∀ (ops : List Op) (s : St), Uniq s.links → Uniq (run c s ops).links := by
  intro ops
  induction ops with
  | nil => intro s h; exact h
  | cons op ops ih => intro s h; exact ih _ (uniq_step c h op)

/-! ### Releases: what may disappear -/

/-- Who releases in an operation (the `owner` argument of a release call). -/
def releaser : Op → Option Own
  | .vipFree o _ => some o
  | .ruleUnlink _ o => some o
  | .epUnlink _ (some o) => some o
  | .epUnlinkAll _ _ _ (some o) _ => some o
  | .svcDelete o => some o
  | .svcDeleteCut o => some o
  | _ => none

theorem releaseOp_removed {s : St} (hu : Uniq s.links) (k : Key) (o : Own) :
    ∀ e ∈ s.links, e ∉ (releaseOp s k o).1.links → e = (k, .own o) := by
  intro e he hn
  unfold releaseOp at hn
  have hs := release_spec s.links k o
  generalize release s.links k o = rr at hs hn
  obtain ⟨l, res⟩ := rr
  cases res <;> try exact absurd he hn
  simp only at hs hn
  rcases hs with ⟨e1, _⟩ | ⟨_, e1, e2⟩
  · rw [e1] at hn; exact absurd he hn
  · rw [e1] at hn
    have hk : e.1 = k := by
      by_cases hk : e.1 = k
      · exact hk
      · exact absurd (mem_erase.mpr ⟨he, hk⟩) hn
    obtain ⟨k', t'⟩ := e
    simp only at hk; subst hk
    rw [hu _ _ _ he (lookup_some e2)]

theorem releaseOp_sub (s : St) (k : Key) (o : Own) :
    ∀ e ∈ (releaseOp s k o).1.links, e ∈ s.links := by
  intro e he
  unfold releaseOp at he
  have hs := release_spec s.links k o
  generalize release s.links k o = rr at hs he
  obtain ⟨l, res⟩ := rr
  cases res <;> try exact he
  simp only at hs he
  rcases hs with ⟨e1, _⟩ | ⟨_, e1, _⟩
  · rw [e1] at he; exact he
  · rw [e1] at he; exact (mem_erase.mp he).1

/-- A release that finds the name owned by someone else (or absent) changes nothing. -/
theorem releaseOp_noop (s : St) (k : Key) (o : Own) (h : lookup k s.links ≠ some (.own o)) :
    (releaseOp s k o).1.links = s.links := by
  unfold releaseOp
  have hs := release_spec s.links k o
  generalize release s.links k o = rr at hs
  obtain ⟨l, res⟩ := rr
  cases res <;> try rfl
  simp only at hs ⊢
  rcases hs with ⟨e1, _⟩ | ⟨_, _, e2⟩
  · exact e1
  · exact absurd e2 h

theorem svcDelete_removed {s : St} (hu : Uniq s.links) (o : Own) (b : Bool) :
    ∀ e ∈ s.links, e ∉ (svcDelete s o b).1.links → e.2 = .own o ∧ e.1.tbl = .svip := by
  intro e he hn
  unfold svcDelete at hn
  simp only at hn
  split at hn
  · rename_i a env hl
    have hs := release_spec s.links (.svip a) o
    generalize release s.links (.svip a) o = rr at hs hn
    obtain ⟨l, res⟩ := rr
    cases res <;> try exact absurd he hn
    simp only at hs hn
    rcases hs with ⟨e1, _⟩ | ⟨_, e1, e2⟩
    · rw [e1] at hn; exact absurd he hn
    · rw [e1] at hn
      have hk : e.1 = .svip a := by
        by_cases hk : e.1 = .svip a
        · exact hk
        · exact absurd (mem_erase.mpr ⟨he, hk⟩) hn
      obtain ⟨k', t'⟩ := e
      simp only at hk; subst hk
      exact ⟨hu _ _ _ he (lookup_some e2), rfl⟩
  · exact absurd he hn

theorem expunge_removed : ∀ (os : List Own) (s : St), Uniq s.links →
    ∀ e ∈ s.links, e ∉ (expunge os s).1.links → ∃ o ∈ os, e.2 = .own o ∧ e.1.tbl = .svip := by
  intro os
  induction os with
  | nil => intro s _ e he hn; exact absurd he hn
  | cons o os ih =>
    intro s hu e he hn
    unfold expunge at hn
    have h1 := svcDelete_removed hu o false e he
    have h2 := svcDelete_links_sub s o false
    generalize svcDelete s o false = rr at h1 h2 hn
    obtain ⟨s1, r⟩ := rr
    simp only at h1 h2
    by_cases hin : e ∈ s1.links
    · cases r with
      | ok =>
        obtain ⟨o', ho', h3⟩ := ih s1 (uniq_of_sub hu h2) e hin hn
        exact ⟨o', List.mem_cons_of_mem _ ho', h3⟩
      | _ => exact absurd hin hn
    · exact ⟨o, List.mem_cons_self, h1 hin⟩

/-! ### Repeated requests to the network service -/

theorem svcCreate_known (s : St) (o : Own) (prod : Bool) (d : Dev) (a : Nat)
    (hd : devLookup o s.devs = some d) (hip : d.ip = some a) :
    (svcCreate s o (some prod)).1.links = s.links ∧
    (svcCreate s o (some prod)).2 =
      if (if prod then s.nonprodSet.contains a else s.prodSet.contains a) then .exc else .ip a := by
  unfold svcCreate svcAddr
  simp only [hd, hip]
  generalize (if prod = true then s.nonprodSet.contains a else s.prodSet.contains a) = clash
  cases clash <;> exact ⟨rfl, rfl⟩

theorem svcCreate_ok (s s1 : St) (o : Own) (prod : Bool) (a : Nat)
    (h : svcCreate s o (some prod) = (s1, .ip a)) :
    devLookup o s1.devs = some { ip := some a, hasDev := true, env := some prod, stale := false } ∧
    (if prod then s1.nonprodSet.contains a else s1.prodSet.contains a) = false := by
  unfold svcCreate at h
  simp only at h
  rcases svcAddr_spec s o with ⟨a', e1, e2, e3, e4⟩ | ⟨d, a', e1, e2, e3⟩ | ⟨r, e1⟩
  · rw [e1] at h
    simp only at h
    cases hc : (if prod = true then s.nonprodSet.contains a' else s.prodSet.contains a') with
    | true => rw [hc] at h; simp at h
    | false =>
      rw [hc] at h
      simp only [Bool.false_eq_true, ↓reduceIte] at h
      injection h with h1 h2
      injection h2 with h2
      subst h2; subst h1
      refine ⟨devLookup_devSet _ _ _, ?_⟩
      cases prod <;> simpa using hc
  · rw [e1] at h
    simp only at h
    cases hc : (if prod = true then s.nonprodSet.contains a' else s.prodSet.contains a') with
    | true => rw [hc] at h; simp at h
    | false =>
      rw [hc] at h
      simp only [Bool.false_eq_true, ↓reduceIte] at h
      injection h with h1 h2
      injection h2 with h2
      subst h2; subst h1
      refine ⟨devLookup_devSet _ _ _, ?_⟩
      cases prod <;> simpa using hc
  · rw [e1.1] at h; simp only at h
    injection h with _ h2
    exact absurd h2 (e1.2 a)

end TmVerif.Owner
