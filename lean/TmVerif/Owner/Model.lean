/-
  Model of the node-local ownership databases (C14):

    treadmill/vipfile.py     VipMgr.{alloc,_alloc,free,garbage_collect,initialize,list}
    treadmill/rulefile.py    RuleMgr.{create_rule,unlink_rule,garbage_collect}
    treadmill/endpoints.py   EndpointsMgr.{create_spec,unlink_spec,unlink_all}, garbage_collect
    treadmill/services/network_service.py
                             NetworkResourceService.{initialize,on_create_request,
                                                     on_delete_request,synchronize}

  All four are directories of symbolic links `name -> owner file`.  The model keeps ONE link
  database `links : List (Key × Tgt)`; the key says which directory the name lives in.  The only
  file-system facts used are: `symlink(2)` fails with EEXIST when the name exists (so keys are
  unique), `readlink` of a regular file fails with EINVAL, `stat` of a link whose target is gone
  fails with ENOENT.  `live` is the set of files in the owner directory.  `held` is a ghost
  relation: what each owner BELIEVES it holds, updated when a call made by that owner reports
  success; an owner file that (re)appears is a new incarnation and starts believing nothing.

  Owners, application names, rule file names and the fields of endpoint specs are `Nat`s (the
  harness interns the strings; owners and application names share one id space because
  `create_spec` compares them).  IPv4 addresses are their 32-bit value.
-/
import TmVerif.Gen.ExtOwner

namespace TmVerif.Owner

abbrev Own := Nat

/-- Endpoint spec file name `appname~proto~endpoint~real_port~pid~port`. -/
structure Spec where
  app : Nat
  proto : Nat
  endp : Nat
  rport : Nat
  pid : Nat
  port : Nat
  deriving DecidableEq, Repr

inductive Tbl | vip | svip | rule | ep
  deriving DecidableEq, Repr

/-- A name in one of the four directories. -/
inductive Key
  | vip (a : Nat)      -- VipMgr directory, name = dotted quad of `a`
  | junk (n : Nat)     -- VipMgr directory, a name that is not an IPv4 address
  | svip (a : Nat)     -- `<service>/vips` of the network service
  | rule (r : Nat)     -- RuleMgr directory (interned `chain:...` file name)
  | ep (s : Spec)      -- EndpointsMgr directory
  deriving DecidableEq, Repr

def Key.tbl : Key → Tbl
  | .vip _ => .vip
  | .junk _ => .vip
  | .svip _ => .svip
  | .rule _ => .rule
  | .ep _ => .ep

/-- What a directory entry is: a symlink to `<owner dir>/o`, or a regular file. -/
inductive Tgt
  | own (o : Own)
  | file
  deriving DecidableEq, Repr

abbrev Links := List (Key × Tgt)

/-! ### IPv4 networks: arithmetic on the 32-bit address -/

structure Cidr where
  base : Nat
  len : Nat
  deriving DecidableEq, Repr

def Cidr.size (c : Cidr) : Nat := 2 ^ (32 - c.len)

/-- What `ipaddress.IPv4Network(cidr)` (strict) accepts. -/
def Cidr.valid (c : Cidr) : Prop :=
  c.len ≤ 32 ∧ c.base % c.size = 0 ∧ c.base + c.size ≤ 2 ^ 32

instance (c : Cidr) : Decidable c.valid := by unfold Cidr.valid; exact inferInstance

/-- `IPv4Address(a) in network`: `(a & netmask) == network_address`. -/
def inNet (c : Cidr) (a : Nat) : Bool := a / c.size == c.base / c.size

/-- `a` is one of `network.hosts()`: in the network and, for prefixes shorter than /31, neither
    the network nor the broadcast address. -/
def isHost (c : Cidr) (a : Nat) : Bool :=
  inNet c a && (decide (31 ≤ c.len) || (a % c.size != 0 && a % c.size != c.size - 1))

/-- First address produced by `network.hosts()` (Python 3.12: /31 and /32 yield every address). -/
def hostStart (c : Cidr) : Nat := if 31 ≤ c.len then c.base else c.base + 1
/-- Number of addresses produced by `network.hosts()`. -/
def hostCount (c : Cidr) : Nat := if 31 ≤ c.len then c.size else c.size - 2

/-- `for vip in hosts(): if _alloc(vip): break` — first address of `a, a+1, …` (`n` of them) for
    which `occ` is false. -/
def firstFree (occ : Nat → Bool) : Nat → Nat → Option Nat
  | _, 0 => none
  | a, n + 1 => if occ a then firstFree occ (a + 1) n else some a

/-- The network the network service allocates from (extracted `_TM_CIDR`). -/
def svcCidr : Cidr := { base := ExtOwner.svcCidrBase, len := ExtOwner.svcCidrLen }

/-! ### The link database -/

def lookup (k : Key) : Links → Option Tgt
  | [] => none
  | (k', t) :: l => if k' = k then some t else lookup k l

def erase (k : Key) (l : Links) : Links := l.filter (fun e => e.1 ≠ k)

/-- Outcome of a call as the caller sees it. -/
inductive Res
  | ok
  | ip (a : Nat)                      -- returned address
  | listing (l : List (Nat × Own))    -- `VipMgr.list()`
  | eexist                            -- OSError(EEXIST)
  | einval                            -- OSError(EINVAL): readlink on something that is no link
  | valueError
  | exc                               -- plain `Exception`
  | keyError
  | assertion
  deriving DecidableEq, Repr

/-- `os.symlink` + the EEXIST handler of `create_rule` / `create_spec`: when the name exists the
    call is silently accepted iff `tolerate existing_owner`. -/
def claim (l : Links) (k : Key) (o : Own) (tolerate : Own → Bool) : Links × Res :=
  match lookup k l with
  | none => (l ++ [(k, .own o)], .ok)
  | some .file => (l, .einval)
  | some (.own o') => if tolerate o' then (l, .ok) else (l, .eexist)

/-- `readlink`, compare with the caller, `unlink` — the body shared by `VipMgr.free`,
    `RuleMgr.unlink_rule` and `EndpointsMgr.unlink_spec(owner=…)`. -/
def release (l : Links) (k : Key) (o : Own) : Links × Res :=
  match lookup k l with
  | none => (l, .ok)                   -- ENOENT is logged and swallowed
  | some .file => (l, .einval)
  | some (.own o') => if o' = o then (erase k l, .ok) else (l, .ok)

/-- Is the entry a link whose owner file is gone (`os.stat` raises ENOENT)? -/
def dangling (live : List Own) : Tgt → Bool
  | .own o => !live.contains o
  | .file => false

/-- `garbage_collect` of directory `t`. -/
def gc (t : Tbl) (live : List Own) (l : Links) : Links :=
  l.filter (fun e => !(e.1.tbl == t && dangling live e.2))

/-! ### Beliefs (ghost) -/

abbrev Held := List (Own × Key)

def believe (h : Held) (o : Own) (k : Key) : Held := if h.contains (o, k) then h else h ++ [(o, k)]
def forget (h : Held) (o : Own) (k : Key) : Held := h.filter (fun p => p ≠ (o, k))
def forgetOwner (h : Held) (o : Own) : Held := h.filter (fun p => p.1 ≠ o)

/-! ### State -/

/-- One entry of `NetworkResourceService._devices`. -/
structure Dev where
  ip : Option Nat          -- 'ip'
  hasDev : Bool            -- 'device' key present (the veth pair is known)
  env : Option Bool        -- 'environment': `some true` = an environment of the prod ipset
  stale : Bool
  deriving DecidableEq, Repr

structure St where
  links : Links := []
  live : List Own := []
  held : Held := []
  devs : List (Own × Dev) := []      -- `_devices` in dict (insertion) order
  kdevs : List Own := []             -- veth pairs on the bridge (kernel state; the fake netdev)
  prodSet : List Nat := []           -- ipset SET_PROD_CONTAINERS (the fake iptables)
  nonprodSet : List Nat := []        -- ipset SET_NONPROD_CONTAINERS
  deriving Repr

def St.init : St := {}

def devLookup (o : Own) : List (Own × Dev) → Option Dev
  | [] => none
  | (o', d) :: l => if o' = o then some d else devLookup o l

/-- `d[o] = v` on an insertion-ordered dict (keys are unique: an existing key keeps its place). -/
def devSet (o : Own) (d : Dev) (l : List (Own × Dev)) : List (Own × Dev) :=
  if l.any (fun e => e.1 == o) then l.map (fun e => if e.1 = o then (o, d) else e) else l ++ [(o, d)]

def devPop (o : Own) (l : List (Own × Dev)) : List (Own × Dev) := l.filter (fun e => e.1 ≠ o)

def addIp (a : Nat) (s : List Nat) : List Nat := if s.contains a then s else s ++ [a]
def rmIp (a : Nat) (s : List Nat) : List Nat := s.filter (· ≠ a)

/-! ### Owner directory -/

/-- An owner file appears: a new incarnation that believes nothing. -/
def spawn (s : St) (o : Own) : St :=
  if s.live.contains o then s
  else { s with live := s.live ++ [o], held := forgetOwner s.held o }

def kill (s : St) (o : Own) : St := { s with live := s.live.filter (· ≠ o) }

/-- The harness drops a regular file under a name (malformed stream). -/
def touch (s : St) (k : Key) : St :=
  match lookup k s.links with
  | none => { s with links := s.links ++ [(k, .file)] }
  | some _ => s

/-- A successful `claim` makes the caller believe it holds the name. -/
def claimOp (s : St) (k : Key) (o : Own) (tolerate : Own → Bool) : St × Res :=
  match claim s.links k o tolerate with
  | (l, .ok) => ({ s with links := l, held := believe s.held o k }, .ok)
  | (_, r) => (s, r)

/-- After a `release` that did not raise the caller no longer believes it holds the name. -/
def releaseOp (s : St) (k : Key) (o : Own) : St × Res :=
  match release s.links k o with
  | (l, .ok) => ({ s with links := l, held := forget s.held o k }, .ok)
  | (_, r) => (s, r)

def gcOp (t : Tbl) (s : St) : St := { s with links := gc t s.live s.links }

/-! ### VipMgr -/

def occupied (l : Links) (mk : Nat → Key) (a : Nat) : Bool := (lookup (mk a) l).isSome

/-- `VipMgr.alloc(owner, picked_ip)` on directory `mk` (`Key.vip` or `Key.svip`). -/
def vipAllocIn (c : Cidr) (mk : Nat → Key) (l : Links) (o : Own) (pick : Option Nat) :
    Links × Res :=
  match pick with
  | some a =>
    if !inNet c a then (l, .valueError)
    else if occupied l mk a then (l, .exc)
    else (l ++ [(mk a, .own o)], .ip a)
  | none =>
    match firstFree (occupied l mk) (hostStart c) (hostCount c) with
    | none => (l, .exc)
    | some a => (l ++ [(mk a, .own o)], .ip a)

def vipAlloc (c : Cidr) (s : St) (o : Own) (pick : Option Nat) : St × Res :=
  match vipAllocIn c Key.vip s.links o pick with
  | (l, .ip a) => ({ s with links := l, held := believe s.held o (.vip a) }, .ip a)
  | (_, r) => (s, r)

def vipFree (s : St) (o : Own) (a : Nat) : St × Res := releaseOp s (.vip a) o

def vipGc (s : St) : St := gcOp .vip s

/-- Entries `VipMgr.initialize` unlinks: names that parse as an address inside the network. -/
def wiped (c : Cidr) : Key → Bool
  | .vip a => inNet c a
  | _ => false

def vipInit (c : Cidr) (s : St) : St :=
  { s with links := s.links.filter (fun e => !wiped c e.1),
           held := s.held.filter (fun p => !wiped c p.2) }

def vipList (s : St) : List (Nat × Own) :=
  s.links.filterMap (fun e => match e with
    | (.vip a, .own o) => some (a, o)
    | _ => none)

/-! ### RuleMgr -/

/-- `create_rule`: on EEXIST the call is accepted iff the existing owner is the caller. -/
def ruleCreate (s : St) (r : Nat) (o : Own) : St × Res := claimOp s (.rule r) o (fun o' => o' == o)

def ruleUnlink (s : St) (r : Nat) (o : Own) : St × Res := releaseOp s (.rule r) o

def ruleGc (s : St) : St := gcOp .rule s

/-! ### EndpointsMgr -/

/-- `create_spec`.  With an owner: symlink, and on EEXIST the existing owner's basename is
    compared **with `appname`** (sic).  Without an owner (Windows mode): a regular file is created
    unless `os.path.exists`; `open(…, 'w')` on a dangling link creates the owner file. -/
def epCreate (s : St) (sp : Spec) : Option Own → St × Res
  | some o => claimOp s (.ep sp) o (fun o' => o' == sp.app)
  | none =>
    match lookup (.ep sp) s.links with
    | none => ({ s with links := s.links ++ [(.ep sp, .file)] }, .ok)
    | some .file => (s, .ok)
    | some (.own o) => (spawn s o, .ok)

/-- `unlink_spec`: `if owner:` guards the ownership test; without an owner the name is unlinked. -/
def epUnlink (s : St) (sp : Spec) : Option Own → St × Res
  | some o => releaseOp s (.ep sp) o
  | none => ({ s with links := erase (.ep sp) s.links }, .ok)

/-- The glob `appname~proto|*~endpoint|*~*~*~*`. -/
def Spec.matches (app : Nat) (proto endp : Option Nat) (sp : Spec) : Bool :=
  sp.app == app && proto.all (· == sp.proto) && endp.all (· == sp.endp)

def keyMatches (app : Nat) (proto endp : Option Nat) : Key → Bool
  | .ep sp => sp.matches app proto endp
  | _ => false

/-- The loop of `unlink_all` over the names `glob.glob` returned (`ord`, recorded by the harness:
    the order is the file system's).  Stops with EINVAL at a regular file when an owner is given. -/
def unlinkLoop (owner : Option Own) : Links → List Key → Links × Res
  | l, [] => (l, .ok)
  | l, k :: ks =>
    match owner with
    | none => unlinkLoop owner (erase k l) ks
    | some o =>
      match lookup k l with
      | none => unlinkLoop owner l ks
      | some .file => (l, .einval)
      | some (.own o') => if o' = o then unlinkLoop owner (erase k l) ks else unlinkLoop owner l ks

/-- Is `ord` an admissible glob result: exactly the matching names, each once? -/
def ordOk (l : Links) (app : Nat) (proto endp : Option Nat) (ord : List Key) : Bool :=
  ord.all (fun k => keyMatches app proto endp k && (lookup k l).isSome) &&
  (l.all (fun e => !keyMatches app proto endp e.1 || ord.contains e.1)) &&
  decide ord.Nodup

def epUnlinkAll (s : St) (app : Nat) (proto endp : Option Nat) (owner : Option Own)
    (ord : List Key) : St × Res :=
  let ks := ord.filter (keyMatches app proto endp)
  let (l, r) := unlinkLoop owner s.links ks
  let held := match owner with
    | none => s.held
    | some o =>
      -- a successful call: `o` no longer believes it holds anything matching; a failed one: `o`
      -- stops believing in what it saw disappear
      s.held.filter (fun p => !(p.1 == o && keyMatches app proto endp p.2 &&
                                (r == .ok || (lookup p.2 l).isNone)))
  ({ s with links := l, held }, r)

def epGc (s : St) : St := gcOp .ep s

/-! ### NetworkResourceService -/

/-- One step of `for (ip, resource) in self._vips.list():
    self._devices.setdefault(resource, {})['ip'] = ip` (regular files are skipped by `list`). -/
def importOne (d : List (Own × Dev)) (e : Key × Tgt) : List (Own × Dev) :=
  match e with
  | (.svip a, .own o) =>
    match devLookup o d with
    | some x => devSet o { x with ip := some a } d
    | none => devSet o { ip := some a, hasDev := false, env := none, stale := false } d
  | _ => d

def importVips (l : Links) (d : List (Own × Dev)) : List (Own × Dev) := l.foldl importOne d

/-- A new service object + `initialize()`: the device table is rebuilt from the bridge and the
    vips directory and everything in it is marked stale. -/
def svcRestart (s : St) : St :=
  let fromBridge := s.kdevs.foldl
    (fun d o => devSet o { ip := none, hasDev := true, env := none, stale := false } d) []
  let d := importVips s.links fromBridge
  { s with devs := d.map (fun e => (e.1, { e.2 with stale := true })) }

/-- The address of a request: newly allocated (the owner is the resource link), or re-read from
    the device table (`KeyError` when the device is known from the bridge only).  Returns the new
    link table and device table, whether the veth pair is already known, and the address. -/
def svcAddr (s : St) (o : Own) : Except Res (Links × List (Own × Dev) × Bool × Nat) :=
  match devLookup o s.devs with
  | none =>
    match vipAllocIn svcCidr Key.svip s.links o none with
    | (l, .ip a) =>
      .ok (l, devSet o { ip := some a, hasDev := false, env := none, stale := false } s.devs, false, a)
    | (_, r) => .error r
  | some d =>
    match d.ip with
    | some a => .ok (s.links, s.devs, d.hasDev, a)
    | none => .error .keyError

/-- `on_create_request(rsrc_id, {'environment': env})`; `env = none` is an unknown environment. -/
def svcCreate (s : St) (o : Own) (env : Option Bool) : St × Res :=
  match env with
  | none => (s, .assertion)
  | some prod =>
    match svcAddr s o with
    | .error r => (s, r)
    | .ok (l, devs0, hasDev, a) =>
      let kdevs := if hasDev || s.kdevs.contains o then s.kdevs else s.kdevs ++ [o]
      let devs := devSet o { ip := some a, hasDev := true, env := some prod, stale := false } devs0
      -- `_add_mark_rule`
      let prodSet := if prod then addIp a s.prodSet else s.prodSet
      let nonprodSet := if prod then s.nonprodSet else addIp a s.nonprodSet
      let clash := if prod then s.nonprodSet.contains a else s.prodSet.contains a
      if clash then
        ({ s with links := l, devs, kdevs, prodSet, nonprodSet }, .exc)
      else
        ({ s with links := l, devs, kdevs, prodSet, nonprodSet,
                  held := believe s.held o (.svip a) }, .ip a)

/-- `on_create_request` whose veth creation fails (`netdev.link_add_veth` raising): the address was
    allocated (or re-read) and is remembered in the device table; there is no device, no mark and no
    reply - the request is answered with an error and may be sent again.  When the device is already
    recorded no netdev call is made and the request runs as usual. -/
def svcCreateCut (s : St) (o : Own) (env : Option Bool) : St × Res :=
  match env with
  | none => (s, .assertion)
  | some _ =>
    match svcAddr s o with
    | .error r => (s, r)
    | .ok (l, devs0, hasDev, _) =>
      if hasDev then svcCreate s o env else ({ s with links := l, devs := devs0 }, .exc)

/-- `on_delete_request(rsrc_id)`.  `byOwner`: the call is the owner's own release (its request
    went away) as opposed to the service expunging a stale device in `synchronize`. -/
def svcDelete (s : St) (o : Own) (byOwner : Bool) : St × Res :=
  let kdevs := s.kdevs.filter (· ≠ o)
  let devs := devPop o s.devs
  let held := if byOwner then s.held.filter (fun p => !(p.1 == o && p.2.tbl == .svip)) else s.held
  match (devLookup o s.devs).bind (fun d => d.ip.map (fun a => (a, d.env))) with
  | some (a, env) =>
    let prodSet := if env = some true then rmIp a s.prodSet else s.prodSet
    let nonprodSet := if env = some false then rmIp a s.nonprodSet else s.nonprodSet
    match release s.links (.svip a) o with
    | (l, .ok) => ({ s with links := l, devs, kdevs, prodSet, nonprodSet, held }, .ok)
    | (_, r) => ({ s with devs, kdevs, prodSet, nonprodSet }, r)
  | none => ({ s with devs, kdevs, held }, .ok)

/-- `on_delete_request(rsrc_id)` interrupted by a failure of the mark-rule removal (`ipset` /
    `iptables` call raising): the veth is gone and the device record was popped; the mark, the VIP
    and the owner's claim are still there (a later `synchronize` / retry has to deal with them). -/
def svcDeleteCut (s : St) (o : Own) : St × Res :=
  match (devLookup o s.devs).bind (fun d => d.ip.map (fun a => (a, d.env))) with
  | some (_, some _) =>
    ({ s with devs := devPop o s.devs, kdevs := s.kdevs.filter (· ≠ o),
              -- the owner asked for the release: it no longer relies on the address
              held := s.held.filter (fun p => !(p.1 == o && p.2.tbl == .svip)) }, .exc)
  | _ => svcDelete s o true          -- no mark rule to remove: nothing for the fault to hit

/-- The stale pass of `synchronize` (stops at the first failing delete, like the `for` loop). -/
def expunge : List Own → St → St × Res
  | [], s => (s, .ok)
  | o :: os, s =>
    match svcDelete s o false with
    | (s', .ok) => expunge os s'
    | (s', r) => (s', r)

def svcSync (s : St) : St × Res :=
  let staleOwners := (s.devs.filter (fun e => e.2.stale)).map (·.1)
  match expunge staleOwners s with
  | (s1, .ok) =>
    if s1.devs.any (fun e => e.2.env.isNone) then (s1, .keyError)
    else
      let ipsOf (prod : Bool) := (s1.devs.filter (fun e => e.2.env == some prod)).filterMap (·.2.ip)
      ({ s1 with prodSet := (ipsOf true).foldl (fun acc a => addIp a acc) [],
                 nonprodSet := (ipsOf false).foldl (fun acc a => addIp a acc) [],
                 links := gc .svip s1.live s1.links }, .ok)
  | (s1, r) => (s1, r)

/-! ### Operations -/

inductive Op
  | spawn (o : Own)
  | kill (o : Own)
  | touch (k : Key)
  | vipAlloc (o : Own) (pick : Option Nat)
  | vipFree (o : Own) (a : Nat)
  | vipGc
  | vipInit
  | vipList
  | ruleCreate (r : Nat) (o : Own)
  | ruleUnlink (r : Nat) (o : Own)
  | ruleGc
  | epCreate (sp : Spec) (owner : Option Own)
  | epUnlink (sp : Spec) (owner : Option Own)
  | epUnlinkAll (app : Nat) (proto endp : Option Nat) (owner : Option Own) (ord : List Key)
  | epGc
  | svcRestart
  | svcCreate (o : Own) (env : Option Bool)
  | svcCreateCut (o : Own) (env : Option Bool)
  | svcDelete (o : Own)
  | svcDeleteCut (o : Own)
  | svcSync
  /-- The veth pair of `o` disappears from the bridge (its container died: the kernel destroys the pair with the
      network namespace) while the request - the owner - is still there.  The service's memory is untouched. -/
  | devGone (o : Own)
  deriving Repr

/-- One call.  `c` is the network the stand-alone `VipMgr` was constructed with. -/
def step (c : Cidr) (s : St) : Op → St × Res
  | .spawn o => (spawn s o, .ok)
  | .kill o => (kill s o, .ok)
  | .touch k => (touch s k, .ok)
  | .vipAlloc o p => vipAlloc c s o p
  | .vipFree o a => vipFree s o a
  | .vipGc => (vipGc s, .ok)
  | .vipInit => (vipInit c s, .ok)
  | .vipList => (s, .listing (vipList s))
  | .ruleCreate r o => ruleCreate s r o
  | .ruleUnlink r o => ruleUnlink s r o
  | .ruleGc => (ruleGc s, .ok)
  | .epCreate sp ow => epCreate s sp ow
  | .epUnlink sp ow => epUnlink s sp ow
  | .epUnlinkAll app p e ow ord => epUnlinkAll s app p e ow ord
  | .epGc => (epGc s, .ok)
  | .svcRestart => (svcRestart s, .ok)
  | .svcCreate o env => svcCreate s o env
  | .svcCreateCut o env => svcCreateCut s o env
  | .svcDelete o => svcDelete s o true
  | .svcDeleteCut o => svcDeleteCut s o
  | .devGone o => ({ s with kdevs := s.kdevs.filter (· ≠ o) }, .ok)
  | .svcSync => svcSync s

def run (c : Cidr) (s : St) (ops : List Op) : St := ops.foldl (fun s op => (step c s op).1) s

/-! ### The domain of the property

  `inst n` says that the interned name `n` is an instance name (contains '#'): application names
  of endpoint specs are instance names, owners are container unique names and are not.  The
  service's `synchronize` runs where `_base_service` runs it: after the requests that exist (the
  live owners) have been replayed, i.e. a device is stale iff its owner is gone.  Anonymous
  (`owner=None`) unlinks are the API's unchecked mode and are not releases by an owner. -/

def ownerOk (inst : Nat → Bool) (o : Own) : Bool := !inst o

def opOk (inst : Nat → Bool) (s : St) : Op → Bool
  | .spawn o => ownerOk inst o
  | .kill _ => true
  | .touch _ => true
  | .vipAlloc o _ => ownerOk inst o
  | .vipFree o _ => ownerOk inst o
  | .vipGc => true
  | .vipInit => true
  | .vipList => true
  | .ruleCreate _ o => ownerOk inst o
  | .ruleUnlink _ o => ownerOk inst o
  | .ruleGc => true
  | .epCreate sp (some o) => ownerOk inst o && inst sp.app
  | .epCreate _ none => true
  | .epUnlink _ (some o) => ownerOk inst o
  | .epUnlink _ none => false
  | .epUnlinkAll _ _ _ (some o) _ => ownerOk inst o
  | .epUnlinkAll _ _ _ none _ => false
  | .epGc => true
  | .svcRestart => true
  | .svcCreate o _ => ownerOk inst o
  | .svcCreateCut o _ => ownerOk inst o
  | .svcDelete o => ownerOk inst o
  | .svcDeleteCut o => ownerOk inst o
  | .devGone _ => true
  | .svcSync => s.devs.all (fun e => e.2.stale == !s.live.contains e.1)

/-- A history inside the domain: every operation is admissible in the state it is issued in. -/
def protoB (c : Cidr) (inst : Nat → Bool) : St → List Op → Bool
  | _, [] => true
  | s, op :: ops => opOk inst s op && protoB c inst (step c s op).1 ops

def Proto (c : Cidr) (inst : Nat → Bool) (s : St) (ops : List Op) : Prop := protoB c inst s ops = true

instance (c : Cidr) (inst : Nat → Bool) (s : St) (ops : List Op) : Decidable (Proto c inst s ops) := by
  unfold Proto; exact inferInstance

end TmVerif.Owner
