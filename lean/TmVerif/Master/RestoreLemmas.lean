/-
  Master model — what `Loader.restore_placement(s)` can place: only recorded instances, only under
  the server that holds the record.  Frame lemmas on the model's `server` fields.
-/
import TmVerif.Master.Lemmas
import TmVerif.Sched.Shape

namespace TmVerif.Master
open TmVerif.Sched

/-! ### the `server` field under the scheduler primitives -/

theorem srvOf_of_app? {c c' : Cell} {x : Nat} (h : c'.app? x = c.app? x) : srvOf c' x = srvOf c x := by
  unfold srvOf; rw [h]

theorem serverPut_srvOf {c c' : Cell} {aid sid : Nat} {l0 b : Bool} (h : serverPut c aid sid l0 = .ok (c', b))
    (x : Nat) : srvOf c' x = if x = aid ∧ b = true then some sid else srvOf c x := by
  by_cases hx : x = aid
  · subst hx
    rcases serverPut_shape h with ⟨rfl, rfl⟩ | ⟨rfl, a, s, anc, ha, _, _, _, _, _, happs, _⟩
    · simp
    · have hid : (putRec c a sid l0).id = x := (app?_id ha : a.id = x)
      have := app?_upd_self happs (a := a) (by rw [hid]; exact ha)
      rw [hid] at this
      simp [srvOf, this, putRec]
  · simp only [hx, false_and, ↓reduceIte]
    exact srvOf_of_app? (serverPut_app_ne h hx)

theorem serverRemove_srvOf {c c' : Cell} {sid aid : Nat} (h : serverRemove c sid aid = .ok c') (x : Nat) :
    srvOf c' x = if x = aid then none else srvOf c x := by
  by_cases hx : x = aid
  · subst hx
    obtain ⟨a, _, ha'⟩ := serverRemove_app_self h
    simp [srvOf, ha', removeRec]
  · simp only [hx, ↓reduceIte]
    exact srvOf_of_app? (serverRemove_app_ne h hx)

/-- replacing an app record by one with the same `server` field changes no placement -/
theorem srvOf_setApp_same {c : Cell} {a a' : App} (ha : c.app? a'.id = some a) (hs : a'.server = a.server)
    (x : Nat) : srvOf (c.setApp a') x = srvOf c x := by
  unfold srvOf
  rw [app?_setApp]
  cases hx : c.app? x with
  | none => rfl
  | some y =>
    simp only [Option.map_some, Option.bind_some]
    split
    · rename_i hy
      have h1 : y.id = x := app?_id hx
      have : x = a'.id := by rw [← h1, hy]
      subst this
      rw [ha] at hx
      rw [hs, Option.some.inj hx]
    · rfl

theorem srvOf_setApp_upd {c : Cell} {a : App} (f : App → App) (hf1 : (f a).id = a.id) (hf2 : (f a).server = a.server)
    (ha : c.app? a.id = some a) (x : Nat) : srvOf (c.setApp (f a)) x = srvOf c x :=
  srvOf_setApp_same (a := a) (a' := f a) (by rw [hf1]; exact ha) hf2 x

theorem srvOf_setGrp (c : Cell) (g : Grp) (x : Nat) : srvOf (c.setGrp g) x = srvOf c x := rfl

theorem serverPutAny_srvOf {c c' : Cell} {aid sid : Nat} {l0 b : Bool}
    (h : serverPutAny c aid sid l0 = .ok (c', b)) (x : Nat) (hx : x ≠ aid) : srvOf c' x = srvOf c x := by
  unfold serverPutAny at h
  obtain ⟨a, ha, h⟩ := bind_ok'.mp h
  have ha := orAbort_ok'.mp ha
  split at h
  · rw [serverPut_srvOf h x]; simp [hx]
  · obtain ⟨r, hp, h⟩ := bind_ok'.mp h
    obtain ⟨c1, rc⟩ := r
    split at h
    · simp only [pure, Except.pure] at h
      injection h with h; injection h with h1 h2; subst h1
      rw [serverPut_srvOf hp x]
      simp only [hx, false_and, ↓reduceIte]
      exact srvOf_of_app? (app?_setApp_ne (by show x ≠ a.id; rw [app?_id ha]; exact hx))
    · simp only [pure, Except.pure] at h
      injection h with h; injection h with h1 h2; subst h1; rfl

/-- the instance itself ends up on `sid` or where it was -/
theorem serverPutAny_self {c c' : Cell} {aid sid : Nat} {l0 b : Bool}
    (h : serverPutAny c aid sid l0 = .ok (c', b)) (s : Nat) (hs : srvOf c' aid = some s) :
    srvOf c aid = some s ∨ s = sid := by
  unfold serverPutAny at h
  obtain ⟨a, ha, h⟩ := bind_ok'.mp h
  split at h
  · rw [serverPut_srvOf h aid] at hs
    by_cases hb : b = true
    · simp [hb] at hs; exact Or.inr hs.symm
    · simp [hb] at hs; exact Or.inl hs
  · obtain ⟨r, hp, h⟩ := bind_ok'.mp h
    obtain ⟨c1, rc⟩ := r
    split at h
    · rename_i hrc
      simp only [pure, Except.pure] at h
      injection h with h; injection h with h1 h2; subst h1
      rw [serverPut_srvOf hp aid] at hs
      simp only at hrc
      simp [hrc] at hs; exact Or.inr hs.symm
    · simp only [pure, Except.pure] at h
      injection h with h; injection h with h1 h2; subst h1; exact Or.inl hs

theorem serverRestoreAny_srvOf {c c' : Cell} {aid sid : Nat} {exp : Option Int} {b : Bool}
    (h : serverRestoreAny c aid sid exp = .ok (c', b)) (x s : Nat) (hs : srvOf c' x = some s) :
    srvOf c x = some s ∨ (x = aid ∧ s = sid) := by
  unfold serverRestoreAny at h
  obtain ⟨a, _, h⟩ := bind_ok'.mp h
  obtain ⟨r, hp, h⟩ := bind_ok'.mp h
  obtain ⟨c1, rc⟩ := r
  obtain ⟨a1, ha1, h⟩ := bind_ok'.mp h
  have ha1 := orAbort_ok'.mp ha1
  simp only [pure, Except.pure] at h
  injection h with h; injection h with h1 h2; subst h1
  have hid : a1.id = aid := app?_id ha1
  rw [srvOf_setApp_upd (c := c1) (a := a1) (fun y => { y with expiry := restoreExpiry exp a }) rfl rfl (by rw [hid]; exact ha1)] at hs
  by_cases hx : x = aid
  · subst hx
    rcases serverPutAny_self hp s hs with h' | h'
    · exact Or.inl h'
    · exact Or.inr ⟨rfl, h'⟩
  · rw [serverPutAny_srvOf hp x hx] at hs; exact Or.inl hs

theorem forceIdentity_srvOf {c c' : Cell} {aid k : Nat} (h : forceIdentity c aid k = .ok c') (x : Nat) :
    srvOf c' x = srvOf c x := by
  unfold forceIdentity at h
  obtain ⟨a, ha, h⟩ := bind_ok'.mp h
  obtain ⟨g, _, h⟩ := bind_ok'.mp h
  obtain ⟨grp, _, h⟩ := bind_ok'.mp h
  have ha := orAbort_ok'.mp ha
  simp only [pure, Except.pure] at h
  injection h with h; subst h
  have hid : a.id = aid := app?_id ha
  rw [srvOf_setApp_upd (c := c.setGrp _) (a := a) (fun y => { y with identity := some k }) rfl rfl
    (by show c.app? a.id = some a; rw [hid]; exact ha)]
  rfl

theorem releaseIdentity_srvOf {c c' : Cell} {aid : Nat} (h : releaseIdentity c aid = .ok c') (x : Nat) :
    srvOf c' x = srvOf c x := by
  unfold releaseIdentity at h
  obtain ⟨a, ha, h⟩ := bind_ok'.mp h
  have ha := orAbort_ok'.mp ha
  have hid : a.id = aid := app?_id ha
  split at h
  · obtain ⟨grp, _, h⟩ := bind_ok'.mp h
    simp only [pure, Except.pure] at h
    injection h with h; subst h
    rw [srvOf_setApp_upd (c := c.setGrp _) (a := a) (fun y => { y with identity := none }) rfl rfl
      (by show c.app? a.id = some a; rw [hid]; exact ha)]
    rfl
  · simp only [pure, Except.pure] at h
    injection h with h; subst h; rfl

theorem find?_filter_ne (l : List App) (aid x : Nat) (hx : x ≠ aid) :
    (l.filter (fun y => y.id ≠ aid)).find? (fun a => a.id = x) = l.find? (fun a => a.id = x) := by
  rw [List.find?_filter]
  congr 1
  funext a
  by_cases h : a.id = x
  · simp [h, hx]
  · simp [h]

/-- `Cell.remove_app` places nothing. -/
theorem removeApp_srvOf {c c' : Cell} {aid : Nat} (h : removeApp c aid = .ok c') (x s : Nat)
    (hs : srvOf c' x = some s) : srvOf c x = some s := by
  have tail : ∀ c1 c2 : Cell, (∀ y t, srvOf c1 y = some t → srvOf c y = some t) →
      releaseIdentity c1 aid = .ok c2 →
      srvOf { c2 with apps := c2.apps.filter (fun y => y.id ≠ aid) } x = some s → srvOf c x = some s := by
    intro c1 c2 h1 h2 hs
    by_cases hx : x = aid
    · subst hx
      exfalso
      have hnone : ({ c2 with apps := c2.apps.filter (fun y => y.id ≠ x) } : Cell).app? x = none := by
        unfold Cell.app?
        apply List.find?_eq_none.mpr
        intro a ha
        have := (List.mem_filter.mp ha).2
        simpa using this
      unfold srvOf at hs
      rw [hnone] at hs
      cases hs
    · have e1 : srvOf { c2 with apps := c2.apps.filter (fun y => y.id ≠ aid) } x = srvOf c2 x := by
        unfold srvOf Cell.app?
        simp only
        rw [find?_filter_ne c2.apps aid x hx]
      rw [e1, releaseIdentity_srvOf h2] at hs
      exact h1 x s hs
  simp only [removeApp] at h
  split at h
  · simp only [pure_ok] at h; subst h; exact hs
  · split at h
    · split at h
      · simp only [Sched.bind_ok, pure_ok] at h
        obtain ⟨c1, h1, c2, h2, rfl⟩ := h
        refine tail c1 c2 ?_ h2 hs
        intro y t hy
        rw [serverRemove_srvOf h1 y] at hy
        split at hy
        · cases hy
        · exact hy
      · simp only [Sched.bind_ok, pure_ok] at h
        obtain ⟨c1, rfl, c2, h2, rfl⟩ := h
        exact tail _ c2 (fun _ _ hy => hy) h2 hs
    · simp only [Sched.bind_ok, pure_ok] at h
      obtain ⟨c1, rfl, c2, h2, rfl⟩ := h
      exact tail _ c2 (fun _ _ hy => hy) h2 hs

theorem foldlM_removes (sid : Nat) :
    ∀ (l : List Nat) (c c' : Cell), l.foldlM (fun c aid => serverRemove c sid aid) c = .ok c' →
      ∀ x s, srvOf c' x = some s → srvOf c x = some s := by
  intro l
  induction l with
  | nil =>
    intro c c' h x s hs
    simp only [List.foldlM, pure, Except.pure] at h
    injection h with h; subst h; exact hs
  | cons a t ih =>
    intro c c' h x s hs
    simp only [List.foldlM] at h
    obtain ⟨c1, h1, h⟩ := bind_ok'.mp h
    have := ih c1 c' h x s hs
    rw [serverRemove_srvOf h1 x] at this
    split at this
    · cases this
    · exact this

theorem serverRemoveAll_srvOf {c c' : Cell} {sid : Nat} (h : serverRemoveAll c sid = .ok c') (x s : Nat)
    (hs : srvOf c' x = some s) : srvOf c x = some s := by
  unfold serverRemoveAll at h
  obtain ⟨sv, _, h⟩ := bind_ok'.mp h
  exact foldlM_removes sid sv.apps c c' h x s hs

/-! ### `restore_placement` -/

/-- The restore path never creates a record: a write is no put, or it republishes the record of
    `sid` it is restoring (`_record_placement` after the put branch). -/
def NoPut (w : Write) : Prop := ∀ s a i n e, w ≠ .putRec s a i n e

/-- Every `putRec` of the write addresses a key of `st` under server `sid`. -/
def PutsOn (st : Store) (sid : Nat) (w : Write) : Prop :=
  ∀ s a i n e, w = .putRec s a i n e → s = sid ∧ HasKey st sid a

theorem NoPut.within {st : Store} {sid : Nat} {w : Write} (h : NoPut w) : PutsOn st sid w :=
  fun s a i n e he => absurd he (h s a i n e)

theorem restoreFail_spec {c1 : Cell} {a : App} {sid : Nat} {now : Int} {rs rs' : RState}
    (h : restoreFail c1 a sid now rs = .ok rs') :
    (∀ x s, srvOf rs'.cell x = some s → srvOf c1 x = some s) ∧
    (∀ w ∈ rs'.writes, w ∈ rs.writes ∨ NoPut w) := by
  unfold restoreFail at h
  split at h
  · obtain ⟨c2, h2, h⟩ := bind_ok'.mp h
    simp only [pure, Except.pure] at h
    injection h with h; subst h
    refine ⟨fun x s hs => removeApp_srvOf h2 x s hs, ?_⟩
    intro w hw
    simp only [List.mem_append, List.mem_cons, List.not_mem_nil, or_false] at hw
    rcases hw with (hw | rfl | rfl | rfl) | hw
    · exact Or.inl hw
    · exact Or.inr (fun _ _ _ _ _ e => nomatch e)
    · exact Or.inr (fun _ _ _ _ _ e => nomatch e)
    · exact Or.inr (fun _ _ _ _ _ e => nomatch e)
    · split at hw
      · simp only [List.mem_singleton] at hw; subst hw
        exact Or.inr (fun _ _ _ _ _ e => nomatch e)
      · cases hw
  · simp only [pure, Except.pure] at h
    injection h with h; subst h
    refine ⟨fun x s hs => hs, ?_⟩
    intro w hw
    simp only [List.mem_append, List.mem_singleton] at hw
    rcases hw with hw | rfl
    · exact Or.inl hw
    · exact Or.inr (fun _ _ _ _ _ e => nomatch e)

theorem mem_recordIfChanged {c2 : Cell} {sid aid : Nat} {r : PRec} {w : Write}
    (h : w ∈ recordIfChanged c2 sid aid r) : ∃ i n e, w = .putRec sid aid i n e := by
  unfold recordIfChanged at h
  split at h
  · split at h
    · cases h
    · simp only [List.mem_singleton] at h; exact ⟨_, _, _, h⟩
  · cases h

theorem restoreDone_spec {c1 : Cell} {sid aid : Nat} {ri : Bool} {r : PRec} {rs rs' : RState}
    (h : restoreDone c1 sid aid ri r rs = .ok rs') :
    (∀ x, srvOf rs'.cell x = srvOf c1 x) ∧
    (∀ w ∈ rs'.writes, w ∈ rs.writes ∨ ∃ i n e, w = .putRec sid aid i n e) := by
  unfold restoreDone at h
  obtain ⟨c2, h2, h⟩ := bind_ok'.mp h
  simp only [pure, Except.pure] at h
  injection h with h; subst h
  refine ⟨?_, ?_⟩
  · intro x
    split at h2
    · exact forceIdentity_srvOf h2 x
    · simp only [pure, Except.pure] at h2; injection h2 with h2; subst h2; rfl
  · intro w hw
    rcases List.mem_append.mp hw with hw | hw
    · exact Or.inl hw
    · exact Or.inr (mem_recordIfChanged hw)

theorem restoreAttempt_spec {c c1 : Cell} {a : App} {sid : Nat} {fresh ok : Bool} {r : PRec}
    (h : restoreAttempt c a sid fresh r = .ok (c1, ok)) (x s : Nat) (hs : srvOf c1 x = some s) :
    srvOf c x = some s ∨ (x = a.id ∧ s = sid) := by
  unfold restoreAttempt at h
  split at h
  · exact serverRestoreAny_srvOf h x s hs
  · split at h
    · simp only [pure, Except.pure] at h
      injection h with h; injection h with h1 h2; subst h1; exact Or.inl hs
    · by_cases hx : x = a.id
      · subst hx
        rcases serverPutAny_self h s hs with h' | h'
        · exact Or.inl h'
        · exact Or.inr ⟨rfl, h'⟩
      · rw [serverPutAny_srvOf h x hx] at hs; exact Or.inl hs

/-- One iteration places at most the instance it handles, and only if the store records it there. -/
theorem restoreOne_spec {st : Store} {sid : Nat} {ri : Bool} {rs rs' : RState} {aid : Nat}
    (h : restoreOne st sid ri rs aid = .ok rs') :
    (∀ x s, srvOf rs'.cell x = some s → srvOf rs.cell x = some s ∨ (x = aid ∧ s = sid ∧ HasKey st sid aid)) ∧
    (∀ w ∈ rs'.writes, w ∈ rs.writes ∨ PutsOn st sid w) := by
  unfold restoreOne at h
  split at h
  · simp only [pure, Except.pure] at h
    injection h with h; subst h
    refine ⟨fun x s hs => Or.inl hs, ?_⟩
    intro w hw
    simp only [List.mem_append, List.mem_singleton] at hw
    rcases hw with hw | rfl
    · exact Or.inl hw
    · exact Or.inr (fun _ _ _ _ _ e => nomatch e)
  · rename_i a ha
    have hid : a.id = aid := app?_id ha
    split at h
    · simp only [pure, Except.pure] at h
      injection h with h; subst h
      exact ⟨fun x s hs => Or.inl hs, fun w hw => Or.inl hw⟩
    · rename_i r hr
      have hkey : HasKey st sid aid := by
        unfold Store.rec? at hr
        have hm := List.mem_of_find?_eq_some hr
        have hp := List.find?_some hr
        simp only [decide_eq_true_eq] at hp
        exact ⟨r, hm, hp.1, hp.2⟩
      obtain ⟨t, hatt, h⟩ := bind_ok'.mp h
      obtain ⟨c1, ok⟩ := t
      have hatt' := fun x s hs => restoreAttempt_spec hatt x s hs
      split at h
      · obtain ⟨h1, h2⟩ := restoreFail_spec h
        refine ⟨?_, fun w hw => (h2 w hw).imp id NoPut.within⟩
        intro x s hs
        rcases hatt' x s (h1 x s hs) with h' | ⟨rfl, rfl⟩
        · exact Or.inl h'
        · exact Or.inr ⟨hid, rfl, hkey⟩
      · obtain ⟨h1, h2⟩ := restoreDone_spec h
        refine ⟨?_, ?_⟩
        · intro x s hs
          rw [h1 x] at hs
          rcases hatt' x s hs with h' | ⟨rfl, rfl⟩
          · exact Or.inl h'
          · exact Or.inr ⟨hid, rfl, hkey⟩
        · intro w hw
          rcases h2 w hw with h' | ⟨i, n, e, rfl⟩
          · exact Or.inl h'
          · right
            intro s' a' i' n' e' he
            injection he with e1 e2
            subst e1 e2
            exact ⟨rfl, hkey⟩

theorem restoreLoop_spec {st : Store} {sid : Nat} {ri : Bool} :
    ∀ (l : List Nat) (rs rs' : RState), l.foldlM (restoreOne st sid ri) rs = .ok rs' →
      (∀ x s, srvOf rs'.cell x = some s → srvOf rs.cell x = some s ∨ (s = sid ∧ HasKey st sid x)) ∧
      (∀ w ∈ rs'.writes, w ∈ rs.writes ∨ PutsOn st sid w) := by
  intro l
  induction l with
  | nil =>
    intro rs rs' h
    simp only [List.foldlM, pure, Except.pure] at h
    injection h with h; subst h
    exact ⟨fun x s hs => Or.inl hs, fun w hw => Or.inl hw⟩
  | cons a t ih =>
    intro rs rs' h
    simp only [List.foldlM] at h
    obtain ⟨rs1, h1, h⟩ := bind_ok'.mp h
    obtain ⟨i1, i2⟩ := ih rs1 rs' h
    obtain ⟨o1, o2⟩ := restoreOne_spec h1
    refine ⟨?_, ?_⟩
    · intro x s hs
      rcases i1 x s hs with h' | h'
      · rcases o1 x s h' with h'' | ⟨rfl, rfl, hk⟩
        · exact Or.inl h''
        · exact Or.inr ⟨rfl, hk⟩
      · exact Or.inr h'
    · intro w hw
      rcases i2 w hw with h' | h'
      · exact o2 w h'
      · exact Or.inr h'

/-- `Loader.restore_placement(sid)` places only instances recorded under `sid`, on `sid`, and never
    creates a record (it may republish an existing one). -/
theorem restorePlacement_spec {c c' : Cell} {st : Store} {sid : Nat} {ri : Bool} {ws : List Write} {restored : List Nat}
    (h : restorePlacement c st sid ri = .ok (c', ws, restored)) :
    (∀ x s, srvOf c' x = some s → srvOf c x = some s ∨ (s = sid ∧ HasKey st sid x)) ∧ (∀ w ∈ ws, PutsOn st sid w) := by
  unfold restorePlacement at h
  split at h
  · cases h
  · obtain ⟨c1, h1, h⟩ := bind_ok'.mp h
    obtain ⟨rs, h2, h⟩ := bind_ok'.mp h
    simp only [pure, Except.pure] at h
    injection h with h; injection h with e1 e2; injection e2 with e2 e3
    subst e1 e2 e3
    obtain ⟨l1, l2⟩ := restoreLoop_spec _ _ _ h2
    refine ⟨?_, ?_⟩
    · intro x s hs
      rcases l1 x s hs with h' | h'
      · exact Or.inl (serverRemoveAll_srvOf h1 x s h')
      · exact Or.inr h'
    · intro w hw
      rcases l2 w hw with h' | h'
      · cases h'
      · exact h'

end TmVerif.Master

namespace TmVerif.Master
open TmVerif.Sched

/-! ### what a successful restore leaves in the model -/

theorem app?_setGrp (c : Cell) (g : Grp) (x : Nat) : (c.setGrp g).app? x = c.app? x := rfl

theorem serverPutAny_app_ne {c c' : Cell} {aid sid : Nat} {l0 b : Bool}
    (h : serverPutAny c aid sid l0 = .ok (c', b)) {x : Nat} (hx : x ≠ aid) : c'.app? x = c.app? x := by
  unfold serverPutAny at h
  obtain ⟨a, ha, h⟩ := bind_ok'.mp h
  have ha := orAbort_ok'.mp ha
  split at h
  · exact serverPut_app_ne h hx
  · obtain ⟨r, hp, h⟩ := bind_ok'.mp h
    obtain ⟨c1, rc⟩ := r
    split at h
    · simp only [pure, Except.pure] at h
      injection h with h; injection h with h1 h2; subst h1
      rw [serverPut_app_ne hp hx]
      exact app?_setApp_ne (by show x ≠ a.id; rw [app?_id ha]; exact hx)
    · simp only [pure, Except.pure] at h
      injection h with h; injection h with h1 h2; subst h1; rfl

theorem serverPutAny_true {c c' : Cell} {aid sid : Nat} {l0 : Bool}
    (h : serverPutAny c aid sid l0 = .ok (c', true)) : srvOf c' aid = some sid := by
  unfold serverPutAny at h
  obtain ⟨a, ha, h⟩ := bind_ok'.mp h
  split at h
  · rw [serverPut_srvOf h aid]; simp
  · obtain ⟨r, hp, h⟩ := bind_ok'.mp h
    obtain ⟨c1, rc⟩ := r
    split at h
    · rename_i hrc
      simp only [pure, Except.pure] at h
      injection h with h; injection h with h1 h2; subst h1
      simp only at hrc
      rw [serverPut_srvOf hp aid]; simp [hrc]
    · simp only [pure, Except.pure] at h
      injection h with h; injection h with h1 h2; cases h2

theorem serverRestoreAny_app_ne {c c' : Cell} {aid sid : Nat} {exp : Option Int} {b : Bool}
    (h : serverRestoreAny c aid sid exp = .ok (c', b)) {x : Nat} (hx : x ≠ aid) : c'.app? x = c.app? x := by
  unfold serverRestoreAny at h
  obtain ⟨a, _, h⟩ := bind_ok'.mp h
  obtain ⟨r, hp, h⟩ := bind_ok'.mp h
  obtain ⟨c1, rc⟩ := r
  obtain ⟨a1, ha1, h⟩ := bind_ok'.mp h
  have ha1 := orAbort_ok'.mp ha1
  simp only [pure, Except.pure] at h
  injection h with h; injection h with h1 h2; subst h1
  rw [app?_setApp_ne (by show x ≠ a1.id; rw [app?_id ha1]; exact hx)]
  exact serverPutAny_app_ne hp hx

/-- after a successful `Server.restore` the instance is on `sid` with the expiry asked for -/
theorem serverRestoreAny_true {c c' : Cell} {aid sid : Nat} {exp : Option Int}
    (h : serverRestoreAny c aid sid exp = .ok (c', true)) :
    ∃ a a', c.app? aid = some a ∧ c'.app? aid = some a' ∧ a'.server = some sid ∧ a'.expiry = restoreExpiry exp a := by
  unfold serverRestoreAny at h
  obtain ⟨a, ha, h⟩ := bind_ok'.mp h
  obtain ⟨r, hp, h⟩ := bind_ok'.mp h
  obtain ⟨c1, rc⟩ := r
  obtain ⟨a1, ha1, h⟩ := bind_ok'.mp h
  have ha := orAbort_ok'.mp ha
  have ha1 := orAbort_ok'.mp ha1
  simp only [pure, Except.pure] at h
  injection h with h; injection h with h1 h2
  have h2 : rc = true := h2
  subst h2; subst h1
  have hid : a1.id = aid := app?_id ha1
  have hsrv := serverPutAny_true hp
  unfold srvOf at hsrv
  rw [ha1] at hsrv
  simp only [Option.bind_some] at hsrv
  refine ⟨a, { a1 with expiry := restoreExpiry exp a }, ha, ?_, hsrv, rfl⟩
  have := app?_setApp_self (c := c1) (a := a1) (a' := { a1 with expiry := restoreExpiry exp a })
    (by show c1.app? a1.id = some a1; rw [hid]; exact ha1)
  rw [← hid]; exact this

theorem forceIdentity_app_ne {c c' : Cell} {aid k : Nat} (h : forceIdentity c aid k = .ok c') {x : Nat}
    (hx : x ≠ aid) : c'.app? x = c.app? x := by
  unfold forceIdentity at h
  obtain ⟨a, ha, h⟩ := bind_ok'.mp h
  obtain ⟨g, _, h⟩ := bind_ok'.mp h
  obtain ⟨grp, _, h⟩ := bind_ok'.mp h
  have ha := orAbort_ok'.mp ha
  simp only [pure, Except.pure] at h
  injection h with h; subst h
  rw [app?_setApp_ne (by show x ≠ a.id; rw [app?_id ha]; exact hx)]
  rfl

theorem forceIdentity_self {c c' : Cell} {aid k : Nat} (h : forceIdentity c aid k = .ok c') :
    ∃ a, c.app? aid = some a ∧ c'.app? aid = some { a with identity := some k } := by
  unfold forceIdentity at h
  obtain ⟨a, ha, h⟩ := bind_ok'.mp h
  obtain ⟨g, _, h⟩ := bind_ok'.mp h
  obtain ⟨grp, _, h⟩ := bind_ok'.mp h
  have ha := orAbort_ok'.mp ha
  simp only [pure, Except.pure] at h
  injection h with h; subst h
  have hid : a.id = aid := app?_id ha
  refine ⟨a, ha, ?_⟩
  have := app?_setApp_self (c := c.setGrp { grp with avail := grp.avail.filter (· ≠ k) }) (a := a)
    (a' := { a with identity := some k }) (by show c.app? a.id = some a; rw [hid]; exact ha)
  rw [← hid]; exact this

theorem releaseIdentity_app_ne {c c' : Cell} {aid : Nat} (h : releaseIdentity c aid = .ok c') {x : Nat}
    (hx : x ≠ aid) : c'.app? x = c.app? x := by
  unfold releaseIdentity at h
  obtain ⟨a, ha, h⟩ := bind_ok'.mp h
  have ha := orAbort_ok'.mp ha
  split at h
  · obtain ⟨grp, _, h⟩ := bind_ok'.mp h
    simp only [pure, Except.pure] at h
    injection h with h; subst h
    rw [app?_setApp_ne (by show x ≠ a.id; rw [app?_id ha]; exact hx)]
    rfl
  · simp only [pure, Except.pure] at h
    injection h with h; subst h; rfl

theorem removeApp_app_ne {c c' : Cell} {aid : Nat} (h : removeApp c aid = .ok c') {x : Nat} (hx : x ≠ aid) :
    c'.app? x = c.app? x := by
  have tail : ∀ c1 c2 : Cell, c1.app? x = c.app? x → releaseIdentity c1 aid = .ok c2 →
      ({ c2 with apps := c2.apps.filter (fun y => y.id ≠ aid) } : Cell).app? x = c.app? x := by
    intro c1 c2 h1 h2
    have e1 : ({ c2 with apps := c2.apps.filter (fun y => y.id ≠ aid) } : Cell).app? x = c2.app? x := by
      unfold Cell.app?
      simp only
      rw [find?_filter_ne c2.apps aid x hx]
    rw [e1, releaseIdentity_app_ne h2 hx, h1]
  simp only [removeApp] at h
  split at h
  · simp only [pure_ok] at h; subst h; rfl
  · split at h
    · split at h
      · simp only [Sched.bind_ok, pure_ok] at h
        obtain ⟨c1, h1, c2, h2, rfl⟩ := h
        exact tail c1 c2 (serverRemove_app_ne h1 hx) h2
      · simp only [Sched.bind_ok, pure_ok] at h
        obtain ⟨c1, rfl, c2, h2, rfl⟩ := h
        exact tail _ c2 rfl h2
    · simp only [Sched.bind_ok, pure_ok] at h
      obtain ⟨c1, rfl, c2, h2, rfl⟩ := h
      exact tail _ c2 rfl h2

/-- The instance is placed on `sid` with the record's expiry and identity (where the record has them). -/
def RestoredAs (c : Cell) (sid aid : Nat) (r : PRec) : Prop :=
  ∃ a, c.app? aid = some a ∧ a.server = some sid ∧ (∀ e, r.expires = some e → a.expiry = some e) ∧
    (∀ k, r.identity = some k → a.identity = some k)

theorem restoreOne_app_ne {st : Store} {sid : Nat} {ri : Bool} {rs rs' : RState} {aid : Nat}
    (h : restoreOne st sid ri rs aid = .ok rs') {x : Nat} (hx : x ≠ aid) : rs'.cell.app? x = rs.cell.app? x := by
  unfold restoreOne at h
  split at h
  · simp only [pure, Except.pure] at h; injection h with h; subst h; rfl
  · rename_i a ha
    have hid : a.id = aid := app?_id ha
    split at h
    · simp only [pure, Except.pure] at h; injection h with h; subst h; rfl
    · obtain ⟨t, hatt, h⟩ := bind_ok'.mp h
      obtain ⟨c1, ok⟩ := t
      have h1 : c1.app? x = rs.cell.app? x := by
        unfold restoreAttempt at hatt
        split at hatt
        · exact serverRestoreAny_app_ne hatt (by rw [hid]; exact hx)
        · split at hatt
          · simp only [pure, Except.pure] at hatt
            injection hatt with hatt; injection hatt with e1 e2; subst e1; rfl
          · exact serverPutAny_app_ne hatt (by rw [hid]; exact hx)
      split at h
      · unfold restoreFail at h
        split at h
        · obtain ⟨c2, h2, h⟩ := bind_ok'.mp h
          simp only [pure, Except.pure] at h; injection h with h; subst h
          show c2.app? x = _
          rw [removeApp_app_ne h2 (by rw [hid]; exact hx), h1]
        · simp only [pure, Except.pure] at h; injection h with h; subst h; exact h1
      · unfold restoreDone at h
        obtain ⟨c2, h2, h⟩ := bind_ok'.mp h
        simp only [pure, Except.pure] at h; injection h with h; subst h
        show c2.app? x = _
        split at h2
        · rw [forceIdentity_app_ne h2 hx, h1]
        · simp only [pure, Except.pure] at h2; injection h2 with h2; subst h2; exact h1

theorem restoreOne_self {st : Store} {sid : Nat} {rs rs' : RState} {aid : Nat}
    (h : restoreOne st sid true rs aid = .ok rs') :
    rs'.restored = rs.restored ∨
    (rs'.restored = rs.restored ++ [aid] ∧
      ∀ r, st.rec? sid aid = some r → presenceFresh st sid r = true → RestoredAs rs'.cell sid aid r) := by
  unfold restoreOne at h
  split at h
  · simp only [pure, Except.pure] at h; injection h with h; subst h; exact Or.inl rfl
  · rename_i a ha
    have hid : a.id = aid := app?_id ha
    split at h
    · simp only [pure, Except.pure] at h; injection h with h; subst h; exact Or.inl rfl
    · rename_i r0 hr0
      obtain ⟨t, hatt, h⟩ := bind_ok'.mp h
      obtain ⟨c1, ok⟩ := t
      split at h
      · left
        unfold restoreFail at h
        split at h
        · obtain ⟨c2, _, h⟩ := bind_ok'.mp h
          simp only [pure, Except.pure] at h; injection h with h; subst h; rfl
        · simp only [pure, Except.pure] at h; injection h with h; subst h; rfl
      · rename_i hok
        have hok : ok = true := by simpa using hok
        subst hok
        right
        unfold restoreDone at h
        obtain ⟨c2, h2, h⟩ := bind_ok'.mp h
        simp only [pure, Except.pure] at h; injection h with h; subst h
        refine ⟨rfl, ?_⟩
        intro r hr hfresh
        rw [hr0] at hr; cases hr
        unfold restoreAttempt at hatt
        rw [if_pos hfresh, hid] at hatt
        obtain ⟨a0, a1, _, ha1, hsrv, hexp⟩ := serverRestoreAny_true hatt
        show RestoredAs c2 sid aid r0
        split at h2
        · rename_i k hk1 hk
          obtain ⟨a2, ha2, hc2⟩ := forceIdentity_self h2
          rw [ha1] at ha2; cases ha2
          refine ⟨_, hc2, hsrv, ?_, ?_⟩
          · intro e he; show a1.expiry = some e; rw [hexp, he]; rfl
          · intro k' hk'; rw [hk] at hk'; cases hk'; rfl
        · rename_i hnot
          simp only [pure, Except.pure] at h2; injection h2 with h2; subst h2
          refine ⟨a1, ha1, hsrv, ?_, ?_⟩
          · intro e he; rw [hexp, he]; rfl
          · intro k hk
            exfalso
            exact hnot k rfl hk

theorem restoreLoop_restored {st : Store} {sid : Nat} :
    ∀ (l : List Nat) (rs rs' : RState), l.Nodup → l.foldlM (restoreOne st sid true) rs = .ok rs' →
      (∀ x, x ∉ l → rs'.cell.app? x = rs.cell.app? x) ∧
      (∀ aid ∈ rs'.restored, aid ∈ rs.restored ∨
        (aid ∈ l ∧ ∀ r, st.rec? sid aid = some r → presenceFresh st sid r = true → RestoredAs rs'.cell sid aid r)) := by
  intro l
  induction l with
  | nil =>
    intro rs rs' _ h
    simp only [List.foldlM, pure, Except.pure] at h
    injection h with h; subst h
    exact ⟨fun _ _ => rfl, fun aid ha => Or.inl ha⟩
  | cons a t ih =>
    intro rs rs' hnd h
    simp only [List.foldlM] at h
    obtain ⟨rs1, h1, h⟩ := bind_ok'.mp h
    have hnd' := List.nodup_cons.mp hnd
    obtain ⟨f1, g1⟩ := ih rs1 rs' hnd'.2 h
    refine ⟨?_, ?_⟩
    · intro x hx
      simp only [List.mem_cons, not_or] at hx
      rw [f1 x hx.2, restoreOne_app_ne h1 hx.1]
    · intro aid haid
      rcases g1 aid haid with h' | ⟨hin, hgood⟩
      · rcases restoreOne_self h1 with e | ⟨e, hgood⟩
        · rw [e] at h'; exact Or.inl h'
        · rw [e] at h'
          rcases List.mem_append.mp h' with h'' | h''
          · exact Or.inl h''
          · simp only [List.mem_singleton] at h''; subst h''
            right
            refine ⟨List.mem_cons_self, ?_⟩
            intro r hr hf
            obtain ⟨x, hx, rest⟩ := hgood r hr hf
            exact ⟨x, by rw [f1 aid hnd'.1]; exact hx, rest⟩
      · exact Or.inr ⟨List.mem_cons_of_mem _ hin, hgood⟩

end TmVerif.Master
