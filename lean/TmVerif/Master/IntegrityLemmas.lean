/-
  Master model — `Loader.check_placement_integrity` on a store that agrees with the model:
  it repairs nothing and none of its `assert`s fails.
-/
import TmVerif.Master.InitLemmas
import TmVerif.Sched.Upd

namespace TmVerif.Master
open TmVerif.Sched

/-- the keys `check_placement_integrity` visits, in its order -/
def visitKeys (st : Store) : List (Nat × Nat) :=
  st.servers.flatMap (fun sid => (st.appsOn sid).map (fun a => (sid, a)))

theorem checkIntegrity_fold (c : Cell) (st : Store) (is0 : IState) :
    st.servers.foldl (fun is sid => (st.appsOn sid).foldl (integrityVisit c sid) is) is0 =
      (visitKeys st).foldl (fun is k => integrityVisit c k.1 is k.2) is0 := by
  unfold visitKeys
  rw [List.foldl_flatMap]
  congr 1
  funext is sid
  rw [List.foldl_map]

theorem mem_visitKeys {st : Store} {sid a : Nat} :
    (sid, a) ∈ visitKeys st ↔ sid ∈ st.servers ∧ HasKey st sid a := by
  unfold visitKeys
  simp only [List.mem_flatMap, List.mem_map, Prod.mk.injEq]
  constructor
  · rintro ⟨s, hs, x, hx, rfl, rfl⟩
    exact ⟨hs, mem_appsOn.mp hx⟩
  · rintro ⟨hs, hk⟩
    exact ⟨sid, hs, a, mem_appsOn.mpr hk, rfl, rfl⟩

/-- Visiting keys whose instances are all new: nothing is written, nothing fails, each key is noted. -/
theorem visit_fresh (c : Cell) :
    ∀ (l : List (Nat × Nat)) (is : IState), is.failed = none → is.writes = [] →
      (l.map (·.2)).Nodup → (∀ k ∈ l, ∀ p ∈ is.app2server, p.1 ≠ k.2) →
      let is' := l.foldl (fun is k => integrityVisit c k.1 is k.2) is
      is'.failed = none ∧ is'.writes = [] ∧ is'.app2server = is.app2server ++ l.map (fun k => (k.2, k.1)) := by
  intro l
  induction l with
  | nil => intro is h1 h2 _ _; simp [h1, h2]
  | cons k t ih =>
    intro is h1 h2 hnd hnew
    simp only [List.foldl_cons]
    have hnd' : k.2 ∉ t.map (·.2) ∧ (t.map (·.2)).Nodup := List.nodup_cons.mp (by rw [List.map_cons] at hnd; exact hnd)
    have hfind : is.app2server.find? (fun p => p.1 = k.2) = none := by
      apply List.find?_eq_none.mpr
      intro p hp
      simpa using hnew k List.mem_cons_self p hp
    have hstep : integrityVisit c k.1 is k.2 = { is with app2server := is.app2server ++ [(k.2, k.1)] } := by
      unfold integrityVisit
      simp [h1, hfind]
    rw [hstep]
    have := ih { is with app2server := is.app2server ++ [(k.2, k.1)] } h1 h2 hnd'.2 (by
      intro k' hk' p hp
      rcases List.mem_append.mp hp with hp | hp
      · exact hnew k' (List.mem_cons_of_mem _ hk') p hp
      · simp only [List.mem_singleton] at hp; subst hp
        intro e
        apply hnd'.1
        simp only at e
        rw [e]
        exact List.mem_map.mpr ⟨k', hk', rfl⟩)
    simp only [List.map_cons, List.append_assoc, List.singleton_append] at this ⊢
    exact this

/-- What `get_children` guarantees and the tree structure of the store. -/
structure StoreWF (st : Store) : Prop where
  servers : st.servers.Nodup
  listing : ∀ sid, (st.appsOn sid).Nodup
  parent : ∀ r ∈ st.recs, st.hasNode r.srv = true

theorem visitKeys_apps_nodup {c : Cell} {st : Store} (hwf : StoreWF st) (hag : AgreeWhere c st) :
    ((visitKeys st).map (·.2)).Nodup := by
  unfold visitKeys
  have hfun : ∀ s₁ s₂ a, HasKey st s₁ a → HasKey st s₂ a → s₁ = s₂ := by
    intro s₁ s₂ a h₁ h₂
    have p₁ := placedOn_iff.mp ((hag s₁ a).mp h₁)
    have p₂ := placedOn_iff.mp ((hag s₂ a).mp h₂)
    rw [p₁] at p₂; exact Option.some.inj p₂
  have key : ∀ (l : List Nat), l.Nodup →
      ((l.flatMap (fun sid => (st.appsOn sid).map (fun a => (sid, a)))).map (·.2)).Nodup := by
    intro l
    induction l with
    | nil => intro _; simp
    | cons s t ih =>
      intro hnd
      have hnd' := List.nodup_cons.mp hnd
      simp only [List.flatMap_cons, List.map_append, List.map_map]
      rw [List.nodup_append]
      refine ⟨?_, ih hnd'.2, ?_⟩
      · have : ((fun x : Nat × Nat => x.2) ∘ fun a => (s, a)) = id := by funext a; rfl
        rw [this, List.map_id]; exact hwf.listing s
      · intro a ha b hb e
        subst e
        simp only [List.mem_map, Function.comp] at ha
        obtain ⟨x, hx, rfl⟩ := ha
        simp only [List.mem_map, List.mem_flatMap] at hb
        obtain ⟨⟨s', a'⟩, ⟨s'', hs'', y, hy, heq⟩, rfl⟩ := hb
        simp only [Prod.mk.injEq] at heq
        obtain ⟨rfl, rfl⟩ := heq
        have := hfun s s'' y (mem_appsOn.mp hx) (mem_appsOn.mp hy)
        subst this
        exact hnd'.1 hs''
  exact key st.servers hwf.servers

theorem find?_of_nodup_fst {l : List (Nat × Nat)} (hnd : (l.map (·.1)).Nodup) {p : Nat × Nat} (hp : p ∈ l) :
    l.find? (fun q => q.1 = p.1) = some p := by
  induction l with
  | nil => cases hp
  | cons q t ih =>
    have hnd' : q.1 ∉ t.map (·.1) ∧ (t.map (·.1)).Nodup := List.nodup_cons.mp (by rw [List.map_cons] at hnd; exact hnd)
    rcases List.mem_cons.mp hp with rfl | hp
    · simp [List.find?_cons]
    · have hne : q.1 ≠ p.1 := by
        intro e; apply hnd'.1; rw [e]; exact List.mem_map.mpr ⟨p, hp, rfl⟩
      simp only [List.find?_cons, hne, decide_false]
      exact ih hnd'.2 hp

end TmVerif.Master
