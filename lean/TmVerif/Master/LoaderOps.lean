/-
  The loader's event handlers as SEQUENCES OF CALLS into the cell and the store (loader.py, master.py).

  Until now the master engine only RECORDED the calls `load_server`, `remove_server`, `reload_server`,
  `adjust_server_state`, `set_server_valid_until`, `adjust_presence`, `load_app`, `load_identity_groups` and
  `_handle_apps_blacklist_event` make into the real `Cell` (one `Sched.Op` line per call)
  and into the modelled part of the store (`w …` lines), and the Lean model followed them.  Here each
  handler is a function from (the decoded stored record(s) it reads, the part of the loader's tables it
  looks at, the choices the code leaves to objects that are not modelled) to the LIST of calls it makes,
  in order.  An `LCall` mirrors one recorded harness line 1:1.

  Inputs that are recorded choices, not derived (the model checks they are allowed where there is
  something to check): the reboot bucket `Partition.add` picks (`validUntil`), the iteration order of the
  Python sets in `adjust_presence`.

  Domain: server records carry a `parent` key (`assert 'parent' in data`), instance names are
  `<proid>.<app>#<id>`.

  Tied to the code per call by the master engine (`fops <handler> …` lines: inputs captured at the call
  boundary of the real method, the recorded call list is the expected output).
-/
import TmVerif.Master.Model
import TmVerif.Master.SrvState
import TmVerif.Master.LoaderDecode

namespace TmVerif.LoaderOps
open TmVerif.Sched TmVerif.Master TmVerif.LoaderDecode

deriving instance DecidableEq for TmVerif.Sched.Op

/-- One call a handler makes, as the harness records it. -/
inductive LCall
  /-- a call into the real `Cell` / `Server` / `Bucket` (`server`, `detach`, `removeall`, `state`,
      `validuntil`, `app`, `updapp`, `bl`, `idg`, `rmidg`, `bucket` lines) -/
  | cell (op : Op)
  /-- a storage write to a modelled path (`w mk:` / `w pP:` / `w dR:` lines) -/
  | write (w : Write)
  /-- `Loader.restore_placement(server, restore_identity)` (modelled: `Master.restorePlacement`) -/
  | restoreOne (sid : Nat) (restoreIdentity : Bool)
  /-- `Master.remove_app(app)` (modelled: `Master.removeAppW`) -/
  | masterRemoveApp (aid : Nat)
  deriving DecidableEq

/-- The calls that are cell operations. -/
def LCall.op? : LCall → Option Op
  | .cell op => some op
  | _ => none

def cellOps (l : List LCall) : List Op := l.filterMap LCall.op?

def conv : SrvState.S → SState
  | .up => .up | .down => .down | .frozen => .frozen

/-! ### `Loader.adjust_server_state` -/

structure AdjIn where
  cur : SrvState.Srv        -- the in-memory pair before the call
  stored : SrvState.Rec     -- data of /placement/<server>
  present : Bool            -- /server.presence/<server> exists
  now : Int

/-- The `set_state` call(s) after the stored state was put back: down without presence; up with presence
    unless the server is frozen. -/
def adjustSecond (sid : Nat) (i : AdjIn) : List LCall :=
  let r := i.stored.getD (.down, i.now)
  let s1 := i.cur.set r.1 r.2
  if !i.present then [.cell (.setState sid .down i.now)]
  else if s1.state ≠ .frozen then [.cell (.setState sid .up i.now)] else []

/-- `_record_server_state`, if `adjust` says a record is written. -/
def recordCalls (sid : Nat) (o : SrvState.Rec) : List LCall :=
  (o.map (fun p => LCall.write (.putState sid (some (conv p.1, p.2))))).toList

/-- `adjust_server_state` on a loaded server: `server.set_state(stored state, stored since)`, the
    presence adjustment, and `_record_server_state` if the state is not the stored one. -/
def adjustCalls (sid : Nat) (i : AdjIn) : List LCall :=
  let r := i.stored.getD (.down, i.now)
  [.cell (.setState sid (conv r.1) r.2)] ++ adjustSecond sid i ++
  recordCalls sid (SrvState.adjust i.cur i.stored i.present i.now).2

/-! ### `Loader.set_server_valid_until` -/

/-- Without presence node: nothing (`ObjectNotFoundError`).  Otherwise the server is put into one reboot
    bucket of its partition, whose timestamp `v` becomes its `valid_until` (which bucket: recorded). -/
def validUntilCalls (sid : Nat) (present : Bool) (v : Int) : List LCall :=
  if present then [.cell (.setValidUntil sid v)] else []

/-! ### `Loader.load_server` -/

/-- What /servers/<name> decodes to (`create_server`: `resources`, `serverLabel`, `traits.encode`), and
    whether `data['parent']` names a loaded bucket (`attrs.parent` is that bucket). -/
structure SrvRec where
  attrs : SrvAttrs
  parentLoaded : Bool

structure LoadIn where
  srec : Option SrvRec      -- none: no node (`ObjectNotFoundError`) or no data
  nodeExists : Bool         -- /placement/<server> exists
  prec : SrvState.Rec       -- its data
  present : Bool
  now : Int
  validUntil : Int          -- recorded choice of the reboot bucket (read only if `present`)

def vecOf (c : Int × Int × Int) : Vec := ⟨c.1, c.2.1, c.2.2⟩

/-- `load_server`: nothing without record or with an unknown parent bucket; otherwise the new server
    object is attached below the record's parent, /placement/<server> is created if missing, the state is
    adjusted (the fresh object is `up` since now) and the valid-until set. -/
def loadCalls (sid : Nat) (i : LoadIn) : List LCall :=
  match i.srec with
  | none => []
  | some r =>
    if !r.parentLoaded then [] else
    [.cell (.addServer sid r.attrs.parent (vecOf r.attrs.cap) r.attrs.label r.attrs.traits 0)] ++
    (if i.nodeExists then [] else [.write (.mkNode sid)]) ++
    adjustCalls sid { cur := SrvState.Srv.fresh i.now, stored := i.prec, present := i.present, now := i.now } ++
    validUntilCalls sid i.present i.validUntil

/-- Is the server in `Loader.servers` after `load_server` on a server that was not? -/
def loadLoads (i : LoadIn) : Bool :=
  match i.srec with
  | some r => r.parentLoaded
  | none => false

/-! ### `Loader.remove_server` -/

/-- Not loaded: nothing.  Otherwise every instance is taken off (`server.remove_all()`) BEFORE the node is
    detached (`parent.remove_node(server)`). -/
def removeCalls (sid : Nat) (loaded : Bool) : List LCall :=
  if loaded then [.cell (.serverRemoveAll sid), .cell (.detachServer sid)] else []

/-! ### `Loader.reload_server` -/

/-- `_delete_placements`: `backend.delete` of every instance that was on the server; a delete of a node
    that does not exist is no write. -/
def deleteCalls (sid : Nat) (placed : List (Nat × Bool)) : List LCall :=
  placed.filterMap (fun p => if p.2 then some (.write (.delRec sid p.1)) else none)

structure ReloadIn where
  cur : Option SrvAttrs         -- the loaded server (none: never loaded)
  placed : List (Nat × Bool)    -- `list(current_server.apps)`, and whether /placement/<server>/<app> exists
  load : LoadIn

/-- `reload_server`.  `none` = the `assert data['parent'] in self.buckets` fails (the master dies). -/
def reloadCalls (sid : Nat) (i : ReloadIn) : Option (List LCall) :=
  match reloadDecision i.cur (i.load.srec.map (·.attrs)) with
  | .loadNew => some (loadCalls sid i.load)
  | .removed => some (removeCalls sid true ++ deleteCalls sid i.placed)
  | d =>
    if (i.load.srec.map (·.parentLoaded)) = some false then none else
    match d with
    | .same => some []
    | _ => some (removeCalls sid true ++ loadCalls sid i.load ++
                 (if i.placed.isEmpty then [] else [.restoreOne sid false]))

/-! ### `Loader.adjust_presence` -/

/-- The sub-handler calls `adjust_presence` makes, with the inputs each of them found. -/
inductive Sub
  | adjust (sid : Nat) (i : AdjIn)
  | reload (sid : Nat) (i : ReloadIn)
  | validUntil (sid : Nat) (present : Bool) (v : Int)

/-- leading `adjust_server_state` calls: the servers that went away -/
def eatDown : List Sub → List (Nat × AdjIn) × List Sub
  | .adjust s a :: rest => let r := eatDown rest; ((s, a) :: r.1, r.2)
  | l => ([], l)

/-- then `reload_server; adjust_server_state; set_server_valid_until` per server that came back -/
def eatUp : List Sub → Option (List (Nat × ReloadIn × AdjIn × Bool × Int))
  | [] => some []
  | .reload s r :: .adjust s2 a :: .validUntil s3 p v :: rest =>
    if s = s2 ∧ s2 = s3 then (eatUp rest).map ((s, r, a, p, v) :: ·) else none
  | _ => none

def isPermOf (a b : List Nat) : Bool := a.length = b.length && a.all b.contains && b.all a.contains

/-- `adjust_presence`: `servers` = `Loader.servers` as `(name, state)`, `present` = the presence set, `subs` =
    the sub-handler calls in the order made (the two loops iterate Python sets: the order within each is
    recorded; the model checks it is an order of `SrvState.presencePlan`).  `none`: the calls made are not
    those of the plan, or a reload hit its assertion. -/
def presenceCalls (servers : List (Nat × SrvState.S)) (present : Nat → Bool) (subs : List Sub) :
    Option (List LCall) :=
  let plan := SrvState.presencePlan servers present
  let d := eatDown subs
  match eatUp d.2 with
  | none => none
  | some ups =>
    if !(isPermOf (d.1.map (·.1)) plan.1 && isPermOf (ups.map (·.1)) plan.2) then none else
    match ups.mapM (fun u => (reloadCalls u.1 u.2.1).map
            (· ++ adjustCalls u.1 u.2.2.1 ++ validUntilCalls u.1 u.2.2.2.1 u.2.2.2.2)) with
    | none => none
    | some l => some ((d.1.map (fun p => adjustCalls p.1 p.2)).flatten ++ l.flatten)

/-! ### `Loader.load_app` -/

/-- What /scheduled/<instance> decodes to. -/
structure Manifest where
  prio : Option Int             -- `priority`, if the key is there
  demand : Vec
  aff : Nat                     -- interned `affinity`
  limits : List (Nat × Nat)
  group : Option Nat
  schedOnce : Bool
  retention : Option Int        -- `_get_data_retention` (seconds: `LoaderDecode.appRetention`)
  lease : Int                   -- `_get_lease` (`LoaderDecode.appLease`)
  traits : Nat                  -- `traits.encode(…, use_invalid=True)`

/-- One entry of `Loader.assignments[_alloc_key(name)]`: does its pattern match the instance name, its
    priority, its allocation. -/
structure Assign where
  isMatch : Bool
  prio : Int
  alloc : Nat

/-- `find_assignment`: the FIRST matching assignment, else the default one (priority 1, the proid's
    allocation under `_default/_default`). -/
def findAssignment (asg : List Assign) (dflt : Nat) : Int × Nat :=
  match asg.find? (·.isMatch) with
  | some a => (a.prio, a.alloc)
  | none => (1, dflt)

/-- `load_app`.  `m = none`: no manifest (any more) — `self.remove_app(appname)`, which is
    `Master.remove_app`.  `inCell`: the instance is in `cell.apps`.  `blMatches`: per entry of
    `apps_blacklist`, does it match the instance's base name. -/
def loadAppCalls (aid : Nat) (m : Option Manifest) (inCell : Bool) (asg : List Assign) (dflt : Nat)
    (blMatches : List Bool) : List LCall :=
  match m with
  | none => [.masterRemoveApp aid]
  | some m =>
    let pa := findAssignment asg dflt
    let prio := appPriority pa.1 m.prio
    let bl := blMatches.any id
    if inCell then [.cell (.updateApp aid pa.2 prio m.retention bl)]
    else
      [.cell (.addApp { id := aid, prio := prio, demand := m.demand, aff := m.aff, limits := m.limits,
                        retention := m.retention, lease := m.lease, group := m.group, identity := none,
                        schedOnce := m.schedOnce, evicted := false, unschedule := false, renew := false,
                        blacklisted := false, expiry := none, traits := m.traits, server := none,
                        alloc := pa.2 })] ++
      (if bl then [.cell (.setBlacklisted aid true)] else [])

/-! ### `Loader.load_identity_groups` -/

/-- `load_identity_groups`: first the groups of the cell that are no longer stored are removed, then every
    stored group with data is configured (`LoaderDecode.groupPlan`; both loops iterate sets: listed by id). -/
def identityGroupCalls (existing : List Nat) (stored : List (Nat × Option (Option Nat))) : List LCall :=
  let p := groupPlan existing stored
  p.1.map (fun g => .cell (.removeGroup g)) ++ p.2.map (fun q => .cell (.configureGroup q.1 q.2))

/-! ### `Master._handle_apps_blacklist_event` -/

/-- `load_apps_blacklist`, then the loop over `cell.apps`: EVERY instance of the cell gets the flag "some entry
    of the NEW list matches its base name" (plain attribute writes, no call: the harness reports the flags the
    instances have after the event).  `apps` = `cell.apps` as (instance, per entry of the new list: does it
    match). -/
def blacklistFlags (apps : List (Nat × List Bool)) : List (Nat × Bool) :=
  apps.map (fun a => (a.1, a.2.any id))

end TmVerif.LoaderOps
