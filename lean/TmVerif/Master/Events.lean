/-
  Master event plumbing (recorded only by the master engine until now):

    Master.process_events      which event nodes are handled, in which order, which are deleted   `eventPlan`
    Master.process_scheduled   which instances are removed / loaded for a new /scheduled listing    `scheduledPlan`
    Master._handle_servers_event  which servers are reloaded                                         `serversPlan`

  Event nodes are `<prio>-<resource>-<seq>`; Python sorts the tuples `(prio, seq, resource)` of STRINGS.
-/
namespace TmVerif.Events

/-- `re.match(r'\d+\-\w+\-\d+$', name)` given the three dash-separated parts: all digits, word characters
    (the harness only produces `[a-z_]` resources), all digits; `none` for any other shape. -/
def parseEvent (name : List Char) : Option (List Char × List Char × List Char) :=
  let isDigits (l : List Char) : Bool := !l.isEmpty && l.all Char.isDigit
  let isWord (l : List Char) : Bool := !l.isEmpty && l.all (fun c => c.isAlphanum || c = '_')
  let p1 := name.takeWhile (· ≠ '-')
  let r1 := (name.dropWhile (· ≠ '-')).drop 1
  let p2 := r1.takeWhile (· ≠ '-')
  let r2 := (r1.dropWhile (· ≠ '-')).drop 1
  if isDigits p1 && isWord p2 && isDigits r2 && (name.dropWhile (· ≠ '-')).length > 0 &&
     (r1.dropWhile (· ≠ '-')).length > 0 && !r2.contains '-' then some (p1, p2, r2) else none

/-- Python's order of `str`: lexicographic by code point. -/
def strLt : List Char → List Char → Bool
  | [], [] => false
  | [], _ :: _ => true
  | _ :: _, [] => false
  | a :: as, b :: bs => if a.toNat < b.toNat then true else if a.toNat > b.toNat then false else strLt as bs

def keyLt (x y : List Char × List Char × List Char) : Bool :=
  -- sort key (prio, seq, resource)
  if strLt x.1 y.1 then true else if strLt y.1 x.1 then false
  else if strLt x.2.2 y.2.2 then true else if strLt y.2.2 x.2.2 then false
  else strLt x.2.1 y.2.1

def insertSorted (x : List Char × List Char × List Char) : List (List Char × List Char × List Char) →
    List (List Char × List Char × List Char)
  | [] => [x]
  | y :: t => if keyLt x y then x :: y :: t else y :: insertSorted x t

/-- The well-formed events in handling order (`sorted` is stable; equal keys are equal names). -/
def eventPlan (names : List (List Char)) : List (List Char × List Char × List Char) :=
  (names.filterMap parseEvent).foldl (fun acc e => insertSorted e acc) []

/-- `process_scheduled`: instances of the cell that are no longer listed are removed, listed ones that
    are not in the cell are loaded. -/
def scheduledPlan (current target : List Nat) : List Nat × List Nat :=
  (current.filter (fun a => !target.contains a), (target.filter (fun a => !current.contains a)).eraseDups)

/-- `_handle_servers_event`: the listed servers, or — for an empty list — every server of the model or of
    the store. -/
def serversPlan (listed loaded stored : List Nat) : List Nat :=
  if listed.isEmpty then (loaded ++ stored).eraseDups else listed

theorem scheduledPlan_spec (current target : List Nat) :
    (∀ a, a ∈ (scheduledPlan current target).1 ↔ (a ∈ current ∧ a ∉ target)) ∧
    (∀ a, a ∈ (scheduledPlan current target).2 ↔ (a ∈ target ∧ a ∉ current)) := by
  simp [scheduledPlan, List.mem_eraseDups]

/-- After the removals and the loads the cell holds exactly the listed instances (as far as they load). -/
theorem scheduledPlan_result (current target : List Nat) (a : Nat) :
    (a ∈ current ∧ a ∉ (scheduledPlan current target).1) ∨ a ∈ (scheduledPlan current target).2 ↔ a ∈ target := by
  have h := scheduledPlan_spec current target
  rw [h.1, h.2]
  by_cases h1 : a ∈ current <;> by_cases h2 : a ∈ target <;> simp [h1, h2]

theorem serversPlan_spec (listed loaded stored : List Nat) (s : Nat) :
    s ∈ serversPlan listed loaded stored ↔
      (if listed = [] then s ∈ loaded ∨ s ∈ stored else s ∈ listed) := by
  unfold serversPlan
  cases listed <;> simp [List.mem_eraseDups]

/-! ### the handling order -/

theorem insertSorted_perm (x) (l : List (List Char × List Char × List Char)) :
    (insertSorted x l).Perm (x :: l) := by
  induction l with
  | nil => exact List.Perm.refl _
  | cons y t ih =>
    simp only [insertSorted]
    split
    · exact List.Perm.refl _
    · exact (List.Perm.cons y ih).trans (List.Perm.swap x y t)

/-- Every well-formed event is handled exactly once (and nothing else is). -/
theorem eventPlan_perm (names : List (List Char)) :
    (eventPlan names).Perm (names.filterMap parseEvent).reverse := by
  unfold eventPlan
  generalize names.filterMap parseEvent = evs
  suffices h : ∀ acc, (evs.foldl (fun acc e => insertSorted e acc) acc).Perm (evs.reverse ++ acc) by
    simpa using h []
  induction evs with
  | nil => intro acc; simp
  | cons e t ih =>
    intro acc
    simp only [List.foldl_cons, List.reverse_cons, List.append_assoc, List.singleton_append]
    exact (ih _).trans (List.Perm.append_left _ (insertSorted_perm e acc))

theorem strLt_irrefl (a : List Char) : strLt a a = false := by
  induction a with
  | nil => rfl
  | cons c t ih => simp [strLt, ih]

theorem strLt_trans (a b c : List Char) (h1 : strLt a b = true) (h2 : strLt b c = true) : strLt a c = true := by
  induction a generalizing b c with
  | nil =>
    cases b with
    | nil => simp [strLt] at h1
    | cons y bs => cases c with
      | nil => simp [strLt] at h2
      | cons z cs => rfl
  | cons x as ih =>
    cases b with
    | nil => simp [strLt] at h1
    | cons y bs =>
      cases c with
      | nil => simp [strLt] at h2
      | cons z cs =>
        simp only [strLt] at h1 h2 ⊢
        by_cases hxy : x.toNat < y.toNat
        · by_cases hyz : y.toNat < z.toNat
          · simp [show x.toNat < z.toNat by omega]
          · simp only [hyz, if_false] at h2
            by_cases hzy : y.toNat > z.toNat
            · simp [hzy] at h2
            · simp [show x.toNat < z.toNat by omega]
        · simp only [hxy, if_false] at h1
          by_cases hyx : x.toNat > y.toNat
          · simp [hyx] at h1
          · simp only [hyx, if_false] at h1
            have exy : x.toNat = y.toNat := by omega
            by_cases hyz : y.toNat < z.toNat
            · simp [show x.toNat < z.toNat by omega]
            · simp only [hyz, if_false] at h2
              by_cases hzy : y.toNat > z.toNat
              · simp [hzy] at h2
              · simp only [hzy, if_false] at h2
                simp only [show ¬ x.toNat < z.toNat by omega, show ¬ x.toNat > z.toNat by omega, if_false]
                exact ih bs cs h1 h2

theorem strLt_total (a b : List Char) : strLt a b = true ∨ strLt b a = true ∨ a = b := by
  induction a generalizing b with
  | nil => cases b <;> simp [strLt]
  | cons x as ih =>
    cases b with
    | nil => simp [strLt]
    | cons y bs =>
      simp only [strLt]
      by_cases h1 : x.toNat < y.toNat
      · simp [h1]
      · by_cases h2 : x.toNat > y.toNat
        · simp [h1, h2]
        · have e : x = y := by
            have hxy : x.toNat = y.toNat := by omega
            have := congrArg Char.ofNat hxy
            simpa [Char.ofNat_toNat] using this
          subst e
          rcases ih bs with h | h | h
          · simp [h]
          · right; left; simp [h]
          · right; right; rw [h]

end TmVerif.Events
