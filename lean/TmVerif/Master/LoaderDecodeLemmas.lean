import TmVerif.Master.LoaderDecode
import TmVerif.Units.Lemmas

namespace TmVerif.LoaderDecode
open TmVerif.Units

/-- A manifest priority of 0 is honoured (it is not "unset"). -/
theorem appPriority_zero (assigned : Int) : appPriority assigned (some 0) = 0 := by
  simp [appPriority]

theorem appPriority_spec (assigned : Int) (m : Option Int) :
    appPriority assigned m = (match m with | some p => if p = -1 then assigned else p | none => assigned) := by
  cases m with
  | none => rfl
  | some p => by_cases h : p = -1 <;> simp [appPriority, h]

/-- A bucket named `level:rest…` without an explicit level has the level before the FIRST colon. -/
theorem bucketLevel_first_colon (lvl rest : List Char) (h : ':' ∉ lvl) :
    bucketLevel (lvl ++ ':' :: rest) none = lvl := by
  simp only [bucketLevel, Option.getD_none]
  induction lvl with
  | nil => simp
  | cons c t ih =>
    have hc : c ≠ ':' := fun e => h (by simp [e])
    have ht : ':' ∉ t := fun e => h (by simp [e])
    have ih' := ih ht
    simp only [ne_eq, decide_not] at ih' ⊢
    simp [hc, ih']

theorem bucketLevel_explicit (name l : List Char) : bucketLevel name (some l) = l := rfl

/-- Every stored identity group that has data is configured with exactly its stored count — zero
    included —, groups without data are left alone, and exactly the groups that are no longer stored
    are removed. -/
theorem groupPlan_spec (existing : List Nat) (stored : List (Nat × Option (Option Nat))) :
    (∀ g n, (g, n) ∈ (groupPlan existing stored).2 ↔
        ((g, some (some n)) ∈ stored ∨ (n = 0 ∧ (g, some none) ∈ stored))) ∧
    (∀ g, g ∈ (groupPlan existing stored).1 ↔ (g ∈ existing ∧ ∀ s ∈ stored, s.1 ≠ g)) := by
  refine ⟨?_, ?_⟩
  · intro g n
    simp only [groupPlan, List.mem_filterMap]
    constructor
    · rintro ⟨⟨g', d⟩, hm, hd⟩
      rcases d with _ | (_ | k) <;> simp at hd
      · obtain ⟨rfl, rfl⟩ := hd; exact Or.inr ⟨rfl, hm⟩
      · obtain ⟨rfl, rfl⟩ := hd; exact Or.inl hm
    · rintro (h | ⟨rfl, h⟩)
      · exact ⟨_, h, rfl⟩
      · exact ⟨_, h, rfl⟩
  · intro g
    simp [groupPlan]

/-- Lease and retention mean seconds whatever unit they are spelled in. -/
theorem appLease_nat (n : Nat) (hlim : WithinLimit (Nat.toDigits 10 n).length) :
    appLease (some (Nat.toDigits 10 n ++ ['s'])) = .ok (n : Int) ∧
    appLease (some (Nat.toDigits 10 n ++ ['m'])) = .ok ((n : Int) * 60) ∧
    appLease (some (Nat.toDigits 10 n ++ ['h'])) = .ok ((n : Int) * 3600) ∧
    appLease (some (Nat.toDigits 10 n ++ ['d'])) = .ok ((n : Int) * 86400) := by
  obtain ⟨h1, h2, h3, h4⟩ := toSeconds_nat n hlim
  exact ⟨h1 's' (by simp), h2 'm' (by simp), h3 'h' (by simp), h4 'd' (by simp)⟩

theorem appRetention_nat (n : Nat) (hlim : WithinLimit (Nat.toDigits 10 n).length) :
    appRetention (some (Nat.toDigits 10 n ++ ['s'])) = .ok (some (n : Int)) ∧
    appRetention (some (Nat.toDigits 10 n ++ ['m'])) = .ok (some ((n : Int) * 60)) ∧
    appRetention (some (Nat.toDigits 10 n ++ ['h'])) = .ok (some ((n : Int) * 3600)) ∧
    appRetention (some (Nat.toDigits 10 n ++ ['d'])) = .ok (some ((n : Int) * 86400)) ∧
    appRetention none = .ok none := by
  obtain ⟨h1, h2, h3, h4⟩ := toSeconds_nat n hlim
  simp only [appRetention]
  rw [h1 's' (by simp), h2 'm' (by simp), h3 'h' (by simp), h4 'd' (by simp)]
  simp [Except.map]

/-- The default lease is none at all. -/
theorem appLease_default : appLease none = .ok 0 := by decide

/-- The object is kept exactly when capacity, partition, traits and parent all agree with the record. -/
theorem reloadDecision_same (c r : SrvAttrs) :
    reloadDecision (some c) (some r) = .same ↔
      (c.cap = r.cap ∧ c.label = r.label ∧ c.traits = r.traits ∧ c.parent = r.parent) := by
  obtain ⟨a1, a2, a3, a4⟩ := c
  obtain ⟨b1, b2, b3, b4⟩ := r
  simp only [reloadDecision]
  split <;> simp_all

/-- Whatever was loaded before, after a reload the master holds exactly what the record says (or
    nothing, if there is no record). -/
theorem reloadResult_eq (cur rec : Option SrvAttrs) : reloadResult cur rec = rec := by
  rcases cur with _ | c <;> rcases rec with _ | r <;> simp [reloadResult, reloadDecision]
  split <;> simp_all

/-- Records that name other allocations do not matter: an allocation nobody names keeps its attributes. -/
theorem allocAfter_untouched (records : List AllocRec) (name : Nat) (a : AllocAttrs)
    (h : ∀ r ∈ records, r.name ≠ name) : allocAfter records name a = a := by
  unfold allocAfter
  have : records.filter (fun r => decide (r.name = name)) = [] := by
    rw [List.filter_eq_nil_iff]; intro r hr; simpa using h r hr
  rw [this]; rfl

/-- The last record naming an allocation decides its rank, cap and reservation. -/
theorem allocAfter_last (pre post : List AllocRec) (r : AllocRec) (a : AllocAttrs)
    (hpost : ∀ x ∈ post, x.name ≠ r.name) :
    (allocAfter (pre ++ r :: post) r.name a).rank = r.rank ∧
    (allocAfter (pre ++ r :: post) r.name a).maxUtil = r.maxUtil ∧
    (allocAfter (pre ++ r :: post) r.name a).reserved = r.reserved := by
  unfold allocAfter
  have hp : post.filter (fun x => decide (x.name = r.name)) = [] := by
    rw [List.filter_eq_nil_iff]; intro x hx; simpa using hpost x hx
  simp [List.filter_append, hp, List.foldl_append, applyRec]

end TmVerif.LoaderDecode
