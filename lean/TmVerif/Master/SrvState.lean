/-
  The server-state layer of the master (C08): how a server's (state, since) — the pair the retention
  and frozen clauses of `Cell.schedule()` read — is derived from presence, the stored /placement/<srv>
  record and admin events.

  Modelled functions (lib/python/treadmill/scheduler):
    Node.set_state / Server.set_state          `Srv.set`
    Loader.adjust_server_state                 `adjust`
    Master._handle_server_state_event,
    Master._freeze_server, _record_server_state `stateEvent`
    Loader.adjust_presence (who is touched)    `presencePlan`
    Master._check_pending_start                `checkPending`
  Each is tied to the code per call by the `master` engine (inputs captured at the call boundary of the
  real method, outputs compared).
-/
import TmVerif.Gen.Extracted

namespace TmVerif.SrvState

inductive S | up | down | frozen
  deriving DecidableEq, Repr

/-- The in-memory server as far as this layer goes. -/
structure Srv where
  state : S
  since : Int
  deriving DecidableEq, Repr

/-- `Server.set_state(state, since)`: a no-op when the state does not change (`since` is kept). -/
def Srv.set (s : Srv) (st : S) (since : Int) : Srv :=
  if s.state = st then s else { state := st, since := since }

/-- A freshly constructed `Server` (`Node.__init__`). -/
def Srv.fresh (now : Int) : Srv := { state := .up, since := now }

/-- Data of /placement/<server>: `none` = no node or empty. -/
abbrev Rec := Option (S × Int)

/-- `Loader.adjust_server_state` on a loaded server: the new in-memory pair and the record
    `_record_server_state` writes, if it writes one. -/
def adjust (s : Srv) (rec : Rec) (present : Bool) (now : Int) : Srv × Rec :=
  let r := rec.getD (.down, now)
  let s1 := s.set r.1 r.2
  let s2 := if !present then s1.set .down now
            else if s1.state ≠ .frozen then s1.set .up now else s1
  (s2, if s2.state ≠ r.1 then some (s2.state, s2.since) else none)

/-- The state an admin event asks for (`other` = any unsupported string). -/
inductive Req | up | down | frozen | other
  deriving DecidableEq, Repr

/-- `_handle_server_state_event` for a loaded server: new pair, the instances marked `unschedule`
    (only those ON this server), and the record written (always). -/
def stateEvent (s : Srv) (onSrv : List Nat) (req : Req) (apps : List Nat) (now : Int) :
    Srv × List Nat × (S × Int) :=
  let (s', marked) := match req with
    | .frozen => (s.set .frozen now, apps.filter (fun a => onSrv.contains a))
    | .up => (s.set .up now, [])
    | .down => (s.set .down now, [])
    | .other => (s, [])
  (s', marked, (s'.state, s'.since))

/-- `Loader.adjust_presence`: the servers that went away (state is not `down`, presence absent) are
    adjusted; the servers that came back (state `down`, presence there) are reloaded and adjusted.
    Servers are `(name, state)` pairs; results in the order of the input. -/
def presencePlan (servers : List (Nat × S)) (present : Nat → Bool) : List Nat × List Nat :=
  ((servers.filter (fun p => p.2 ≠ .down ∧ !present p.1)).map (·.1),
   (servers.filter (fun p => p.2 = .down ∧ present p.1)).map (·.1))

/-! ### `_check_pending_start` -/

structure Pend where
  app : Nat
  srv : Nat
  since : Int
  deriving DecidableEq, Repr

def START_INTERVAL : Int := Extracted.appStartInterval

def pendLookup (pend : List Pend) (a : Nat) : Option Pend := pend.find? (fun p => p.app = a)

/-- The entry of `pending_start` for one instance after the "should be running but is not" loop:
    `old` = its previous entry, `srv` = its server (if placed on a loaded server) with that server's
    state.  A new entry, or one whose server changed, starts its clock at `now`. -/
def pendEntry (old : Option Pend) (a : Nat) (running : Bool) (srv : Option (Nat × S)) (now : Int) : Option Pend :=
  match srv with
  | some (sv, st) =>
    if !running ∧ st ≠ .down then
      match old with
      | some p => if p.srv = sv then some p else some { app := a, srv := sv, since := now }
      | none => some { app := a, srv := sv, since := now }
    else none
  | none => none

/-- `_check_pending_start`: `apps` = `cell.apps` as `(name, running, server-if-loaded)` (names are dict
    keys: distinct).  Returns the new `pending_start` (as a map, listed in the order of `apps`; entries of
    instances no longer in the cell are dropped) and the overdue entries `(server, app)`: each such
    server is frozen with those apps marked. -/
def checkPending (pend : List Pend) (apps : List (Nat × Bool × Option (Nat × S))) (now : Int) :
    List Pend × List (Nat × Nat) :=
  let p1 := apps.filterMap (fun a => pendEntry (pendLookup pend a.1) a.1 a.2.1 a.2.2 now)
  (p1, (p1.filter (fun q => now > q.since + START_INTERVAL)).map (fun q => (q.srv, q.app)))

/-! ### One server's history -/

/-- What the ensemble and the master hold about one server. -/
structure World where
  srv : Option Srv        -- `loader.servers[name]` (none: not loaded / no master)
  record : Rec            -- /placement/<name>
  present : Bool          -- /server.presence/<name> exists
  deriving Repr

def World.adjust (w : World) (now : Int) : World :=
  match w.srv with
  | none => w
  | some s =>
    let r := TmVerif.SrvState.adjust s w.record w.present now
    { w with srv := some r.1, record := match r.2 with | some x => some x | none => w.record }

inductive Ev
  /-- A new master loads the server: fresh object, then `adjust_server_state`. -/
  | restart (now : Int)
  /-- Presence appears / disappears and the master's presence watch runs `adjust_presence`;
      `replaced` = `reload_server` found the record changed and built a fresh object. -/
  | presence (p : Bool) (replaced : Bool) (now : Int)
  /-- `servers` event: `reload_server`; a changed record gives a fresh object that is adjusted. -/
  | reload (replaced : Bool) (now : Int)
  /-- Admin state event. -/
  | event (req : Req) (now : Int)
  deriving Repr

/-- `adjust_presence` as far as this server goes, the presence flag being already updated. -/
def World.onPresence (w : World) (replaced : Bool) (now : Int) : World :=
  match w.srv with
  | none => w
  | some s =>
    if s.state ≠ .down ∧ !w.present then w.adjust now
    else if s.state = .down ∧ w.present then
      -- reload_server (load_server adjusts the fresh object), then adjust_server_state
      (if replaced then World.adjust { w with srv := some (Srv.fresh now) } now else w).adjust now
    else w

def World.step (w : World) : Ev → World
  | .restart now => World.adjust { w with srv := some (Srv.fresh now) } now
  | .presence p replaced now => World.onPresence { w with present := p } replaced now
  | .reload replaced now =>
    match w.srv with
    | none => w
    | some _ => if replaced then World.adjust { w with srv := some (Srv.fresh now) } now else w
  | .event req now =>
    match w.srv with
    | none => w
    | some s =>
      let r := stateEvent s [] req [] now
      { w with srv := some r.1, record := some r.2.2 }

def World.run (w : World) (evs : List Ev) : World := evs.foldl World.step w

end TmVerif.SrvState
