/-
  Master model — `init_schedule`'s reconciliation: after it, the records under every loaded server
  are exactly the instances the model places there.
-/
import TmVerif.Master.Lemmas

namespace TmVerif.Master
open TmVerif.Sched

/-- the write only concerns records (or the node) of server `t` -/
def About (t : Nat) : Write → Prop
  | .mkNode s => s = t
  | .delRec s _ => s = t
  | .putRec s _ _ _ _ => s = t
  | _ => False

theorem hasKey_apply_other (now : Int) (st : Store) (w : Write) (t srv app : Nat) (hw : About t w) (hne : srv ≠ t) :
    HasKey (st.apply now w) srv app ↔ HasKey st srv app := by
  rw [hasKey_apply]
  cases w <;> simp only [About] at hw <;> simp only [keyAfter]
  case delRec s a => subst hw; simp [hne]
  case putRec s a i n e => subst hw; simp [hne]

theorem hasKey_applyAll_other (now : Int) (t srv app : Nat) (hne : srv ≠ t) :
    ∀ (ws : List Write) (st : Store), (∀ w ∈ ws, About t w) →
      (HasKey (st.applyAll now ws) srv app ↔ HasKey st srv app) := by
  intro ws
  induction ws with
  | nil => intro st _; rfl
  | cons w ws ih =>
    intro st h
    rw [applyAll_cons, ih _ (fun w' hw' => h w' (List.mem_cons_of_mem _ hw')),
        hasKey_apply_other now st w t srv app (h w List.mem_cons_self) hne]

theorem mem_appsOn {st : Store} {sid a : Nat} : a ∈ st.appsOn sid ↔ HasKey st sid a := by
  unfold Store.appsOn HasKey
  rw [mem_sortNat, List.mem_map]
  constructor
  · rintro ⟨r, hr, rfl⟩
    have := List.mem_filter.mp hr
    exact ⟨r, this.1, by simpa using this.2, rfl⟩
  · rintro ⟨r, hr, h1, h2⟩
    exact ⟨r, List.mem_filter.mpr ⟨hr, by simpa using h1⟩, h2⟩

/-- the three groups of writes of one server -/
def initDels (_c' : Cell) (st : Store) (sid : Nat) (s : Srv) : List Write :=
  ((st.appsOn sid).filter (fun a => !(sortNat s.apps).contains a)).map (fun a => Write.delRec sid a)
def initPuts (c' : Cell) (st : Store) (sid : Nat) (s : Srv) : List Write :=
  ((sortNat s.apps).filter (fun a => !(st.appsOn sid).contains a)).filterMap (fun aid =>
    (c'.app? aid).map (fun a => let d := placementData c' a; Write.putRec sid aid d.1 d.2.1 d.2.2))

theorem initServer_eq {c' : Cell} {st : Store} {sid : Nat} {s : Srv} (hs : c'.srv? sid = some s) :
    initServer c' st sid = [Write.mkNode sid] ++ initDels c' st sid s ++ initPuts c' st sid s := by
  simp [initServer, hs, initDels, initPuts]

theorem initServer_about (c' : Cell) (st : Store) (sid : Nat) : ∀ w ∈ initServer c' st sid, About sid w := by
  intro w hw
  unfold initServer at hw
  split at hw
  · cases hw
  · simp only [List.mem_append, List.mem_singleton, List.mem_map, List.mem_filterMap] at hw
    rcases hw with (rfl | ⟨a, _, rfl⟩) | ⟨aid, _, hw⟩
    · rfl
    · rfl
    · cases hc : c'.app? aid with
      | none => simp [hc] at hw
      | some a => simp only [hc, Option.map_some, Option.some.injEq] at hw; subst hw; rfl

/-- After the writes of server `sid` (computed on `st`) have been applied to a store with the same
    records under `sid`, the records under `sid` are exactly `s.apps`. -/
theorem initServer_keys (now : Int) (c' : Cell) (st st1 : Store) (sid : Nat) (s : Srv)
    (hs : c'.srv? sid = some s)
    (hsame : ∀ a, HasKey st1 sid a ↔ HasKey st sid a)
    (happs : ∀ a ∈ s.apps, (c'.app? a).isSome) (a : Nat) :
    HasKey (st1.applyAll now (initServer c' st sid)) sid a ↔ a ∈ s.apps := by
  rw [initServer_eq hs, applyAll_append, applyAll_append]
  -- puts: no deletes among them
  have hputs_nodel : ∀ w ∈ initPuts c' st sid s, (∀ s' a', w ≠ .delRec s' a') ∧ (∀ s', w ≠ .delNode s') := by
    intro w hw
    simp only [initPuts, List.mem_filterMap] at hw
    obtain ⟨aid, _, hw⟩ := hw
    cases hc : c'.app? aid with
    | none => simp [hc] at hw
    | some x =>
      simp only [hc, Option.map_some, Option.some.injEq] at hw; subst hw
      exact ⟨fun _ _ e => (nomatch e), fun _ e => (nomatch e)⟩
  have hdels : ∀ w ∈ initDels c' st sid s, ∃ s' a', w = Write.delRec s' a' := by
    intro w hw
    simp only [initDels, List.mem_map] at hw
    obtain ⟨x, _, rfl⟩ := hw
    exact ⟨_, _, rfl⟩
  have hmk : ∀ x y, HasKey (st1.applyAll now [Write.mkNode sid]) x y ↔ HasKey st1 x y := by
    intro x y
    rw [applyAll_cons, applyAll_nil, hasKey_apply]; rfl
  -- keys after the deletes
  have hafterdel : HasKey ((st1.applyAll now [Write.mkNode sid]).applyAll now (initDels c' st sid s)) sid a ↔
      HasKey st sid a ∧ a ∈ s.apps := by
    rw [hasKey_applyAll_dels now _ _ sid a hdels, hmk, hsame]
    simp only [initDels, List.mem_map, List.mem_filter, not_exists, not_and]
    constructor
    · rintro ⟨hk, hnd⟩
      refine ⟨hk, ?_⟩
      apply Classical.byContradiction
      intro hna
      apply hnd a ⟨mem_appsOn.mpr hk, ?_⟩ rfl
      simp only [Bool.not_eq_eq_eq_not, Bool.not_true, List.contains_eq_mem, decide_eq_false_iff_not]
      rw [mem_sortNat]; exact hna
    · rintro ⟨hk, ha⟩
      refine ⟨hk, ?_⟩
      rintro x ⟨_, hx⟩ heq
      injection heq with _ h2
      subst h2
      simp only [Bool.not_eq_eq_eq_not, Bool.not_true, List.contains_eq_mem, decide_eq_false_iff_not] at hx
      exact hx (mem_sortNat.mpr ha)
  constructor
  · intro h
    rcases hasKey_applyAll_origin now _ _ sid a h with h1 | ⟨i, n, e, hm⟩
    · exact (hafterdel.mp h1).2
    · simp only [initPuts, List.mem_filterMap, List.mem_filter] at hm
      obtain ⟨aid, ⟨hin, _⟩, hm⟩ := hm
      cases hc : c'.app? aid with
      | none => simp [hc] at hm
      | some x =>
        simp only [hc, Option.map_some, Option.some.injEq] at hm
        injection hm with _ h2
        subst h2
        exact mem_sortNat.mp hin
  · intro ha
    apply hasKey_applyAll_mono now _ _ sid a hputs_nodel
    by_cases hk : HasKey st sid a
    · left; exact hafterdel.mpr ⟨hk, ha⟩
    · right
      have hsome := happs a ha
      cases hc : c'.app? a with
      | none => simp [hc] at hsome
      | some x =>
        refine ⟨(placementData c' x).1, (placementData c' x).2.1, (placementData c' x).2.2, ?_⟩
        simp only [initPuts, List.mem_filterMap, List.mem_filter]
        refine ⟨a, ⟨mem_sortNat.mpr ha, ?_⟩, by simp [hc]⟩
        simp only [Bool.not_eq_eq_eq_not, Bool.not_true, List.contains_eq_mem, decide_eq_false_iff_not]
        rw [mem_appsOn]; exact hk

/-- The loop over `cell.members()`. -/
theorem initLoop_keys (now : Int) (c' : Cell) (st : Store)
    (happs : ∀ sid s, c'.srv? sid = some s → ∀ a ∈ s.apps, (c'.app? a).isSome) :
    ∀ (l : List Nat) (st1 : Store), l.Nodup → (∀ sid ∈ l, (c'.srv? sid).isSome) →
      (∀ sid ∈ l, ∀ a, HasKey st1 sid a ↔ HasKey st sid a) →
      ∀ srv app, HasKey (st1.applyAll now (l.flatMap (initServer c' st))) srv app ↔
        (if srv ∈ l then ∃ s, c'.srv? srv = some s ∧ app ∈ s.apps else HasKey st1 srv app) := by
  intro l
  induction l with
  | nil => intro st1 _ _ _ srv app; simp [applyAll_nil]
  | cons t l ih =>
    intro st1 hnd hsrv hsame srv app
    rw [List.flatMap_cons, applyAll_append]
    have hnd' := List.nodup_cons.mp hnd
    obtain ⟨s, hs⟩ := Option.isSome_iff_exists.mp (hsrv t List.mem_cons_self)
    have hother : ∀ x, x ≠ t → ∀ a, HasKey (st1.applyAll now (initServer c' st t)) x a ↔ HasKey st1 x a :=
      fun x hx a => hasKey_applyAll_other now t x a hx _ _ (initServer_about c' st t)
    rw [ih _ hnd'.2 (fun sid h => hsrv sid (List.mem_cons_of_mem _ h))]
    · by_cases h1 : srv ∈ l
      · simp [h1]
      · simp only [h1, ↓reduceIte, List.mem_cons, or_false]
        by_cases h2 : srv = t
        · subst h2
          simp only [↓reduceIte]
          rw [initServer_keys now c' st st1 srv s hs (hsame srv List.mem_cons_self) (happs srv s hs)]
          constructor
          · intro h; exact ⟨s, hs, h⟩
          · rintro ⟨s', hs', h⟩; rw [hs] at hs'; cases hs'; exact h
        · simp only [h2, ↓reduceIte]
          exact hother srv h2 app
    · intro sid hsid a
      have : sid ≠ t := fun e => hnd'.1 (e ▸ hsid)
      rw [hother sid this a]
      exact hsame sid (List.mem_cons_of_mem _ hsid) a

end TmVerif.Master
