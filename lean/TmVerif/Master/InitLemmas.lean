/-
  Master model — `init_schedule`'s reconciliation: after it, the records under every loaded server
  are exactly the instances the model places there.
-/
import TmVerif.Master.Lemmas

namespace TmVerif.Master
open TmVerif.Sched

/-- the write only concerns records (or the node) of server `t` -/
def About (t : Nat) : Write → Prop
  | .mkNode s => s = t
  | .delRec s _ => s = t
  | .putRec s _ _ _ _ => s = t
  | _ => False

theorem hasKey_apply_other (now : Int) (st : Store) (w : Write) (t srv app : Nat) (hw : About t w) (hne : srv ≠ t) :
    HasKey (st.apply now w) srv app ↔ HasKey st srv app := by
  rw [hasKey_apply]
  cases w <;> simp only [About] at hw <;> simp only [keyAfter]
  case delRec s a => subst hw; simp [hne]
  case putRec s a i n e => subst hw; simp [hne]

theorem hasKey_applyAll_other (now : Int) (t srv app : Nat) (hne : srv ≠ t) :
    ∀ (ws : List Write) (st : Store), (∀ w ∈ ws, About t w) →
      (HasKey (st.applyAll now ws) srv app ↔ HasKey st srv app) := by
  intro ws
  induction ws with
  | nil => intro st _; rfl
  | cons w ws ih =>
    intro st h
    rw [applyAll_cons, ih _ (fun w' hw' => h w' (List.mem_cons_of_mem _ hw')),
        hasKey_apply_other now st w t srv app (h w List.mem_cons_self) hne]

theorem mem_appsOn {st : Store} {sid a : Nat} : a ∈ st.appsOn sid ↔ HasKey st sid a := by
  unfold Store.appsOn HasKey
  rw [mem_sortNat, List.mem_map]
  constructor
  · rintro ⟨r, hr, rfl⟩
    have := List.mem_filter.mp hr
    exact ⟨r, this.1, by simpa using this.2, rfl⟩
  · rintro ⟨r, hr, h1, h2⟩
    exact ⟨r, List.mem_filter.mpr ⟨hr, by simpa using h1⟩, h2⟩

/-- Keys under a list of writes that only delete records or create parent nodes. -/
theorem hasKey_applyAll_delmk (now : Int) :
    ∀ (ws : List Write) (st : Store) (s a : Nat),
      (∀ w ∈ ws, (∃ s' a', w = Write.delRec s' a') ∨ (∃ s', w = Write.mkNode s')) →
      (HasKey (st.applyAll now ws) s a ↔ HasKey st s a ∧ Write.delRec s a ∉ ws) := by
  intro ws
  induction ws with
  | nil => intro st s a _; simp [applyAll_nil]
  | cons w ws ih =>
    intro st s a hall
    rw [applyAll_cons, ih _ s a (fun w' hw' => hall w' (List.mem_cons_of_mem _ hw')), hasKey_apply]
    rcases hall w List.mem_cons_self with ⟨s', a', rfl⟩ | ⟨s', rfl⟩
    · simp only [keyAfter, List.mem_cons, not_or]
      constructor
      · rintro ⟨⟨h1, h2⟩, h3⟩
        refine ⟨h1, ?_, h3⟩
        intro e; injection e with e1 e2; exact h2 ⟨e1, e2⟩
      · rintro ⟨h1, h2, h3⟩
        refine ⟨⟨h1, ?_⟩, h3⟩
        rintro ⟨rfl, rfl⟩; exact h2 rfl
    · simp only [keyAfter, List.mem_cons, not_or]
      constructor
      · rintro ⟨h1, h3⟩; exact ⟨h1, (fun e => nomatch e), h3⟩
      · rintro ⟨h1, _, h3⟩; exact ⟨h1, h3⟩

/-- Keys under a list of writes without deletes. -/
theorem hasKey_applyAll_puts (now : Int) (ws : List Write) (st : Store) (s a : Nat)
    (h : ∀ w ∈ ws, (∀ s' a', w ≠ .delRec s' a') ∧ (∀ s', w ≠ .delNode s')) :
    HasKey (st.applyAll now ws) s a ↔ HasKey st s a ∨ ∃ i n e, Write.putRec s a i n e ∈ ws :=
  ⟨hasKey_applyAll_origin now ws st s a, hasKey_applyAll_mono now ws st s a h⟩

/-! ### the two loops of `init_schedule` -/

def passA (c' : Cell) (st : Store) : List Write := c'.tree.leaves.flatMap (initDelsOf c' st)
def passB (c' : Cell) (st : Store) : List Write := c'.tree.leaves.flatMap (initPutsOf c' st)

theorem initWrites_eq (c' : Cell) (st : Store) :
    initWrites c' st = passA c' st ++ (passB c' st ++ [Write.saveBlob]) := by
  simp [initWrites, passA, passB, List.append_assoc]

theorem passA_shape (c' : Cell) (st : Store) :
    ∀ w ∈ passA c' st, (∃ s' a', w = Write.delRec s' a') ∨ (∃ s', w = Write.mkNode s') := by
  intro w hw
  simp only [passA, List.mem_flatMap] at hw
  obtain ⟨sid, _, hw⟩ := hw
  unfold initDelsOf at hw
  split at hw
  · cases hw
  · simp only [List.mem_append, List.mem_singleton, List.mem_map] at hw
    rcases hw with rfl | ⟨a, _, rfl⟩
    · exact Or.inr ⟨_, rfl⟩
    · exact Or.inl ⟨_, _, rfl⟩

theorem mem_passA_del {c' : Cell} {st : Store} {s a : Nat} :
    Write.delRec s a ∈ passA c' st ↔
      s ∈ c'.tree.leaves ∧ ∃ sv, c'.srv? s = some sv ∧ HasKey st s a ∧ a ∉ sv.apps := by
  simp only [passA, List.mem_flatMap]
  constructor
  · rintro ⟨sid, hsid, hw⟩
    unfold initDelsOf at hw
    split at hw
    · cases hw
    · rename_i sv hsv
      simp only [List.mem_append, List.mem_singleton, List.mem_map, List.mem_filter] at hw
      rcases hw with hw | ⟨x, ⟨hx, hnot⟩, heq⟩
      · cases hw
      · injection heq with e1 e2
        subst e1 e2
        refine ⟨hsid, sv, hsv, mem_appsOn.mp hx, ?_⟩
        simp only [Bool.not_eq_eq_eq_not, Bool.not_true, List.contains_eq_mem, decide_eq_false_iff_not] at hnot
        exact fun h => hnot (mem_sortNat.mpr h)
  · rintro ⟨hsid, sv, hsv, hk, hna⟩
    refine ⟨s, hsid, ?_⟩
    unfold initDelsOf
    rw [hsv]
    simp only [List.mem_append, List.mem_singleton, List.mem_map, List.mem_filter]
    right
    refine ⟨a, ⟨mem_appsOn.mpr hk, ?_⟩, rfl⟩
    simp only [Bool.not_eq_eq_eq_not, Bool.not_true, List.contains_eq_mem, decide_eq_false_iff_not]
    exact fun h => hna (mem_sortNat.mp h)

/-- what a write of the second loop is -/
theorem mem_passB {c' : Cell} {st : Store} {w : Write} (hw : w ∈ passB c' st) :
    ∃ sid sv aid x, sid ∈ c'.tree.leaves ∧ c'.srv? sid = some sv ∧ aid ∈ sv.apps ∧ c'.app? aid = some x ∧
      w = .putRec sid aid (placementData c' x).1 (placementData c' x).2.1 (placementData c' x).2.2 := by
  simp only [passB, List.mem_flatMap] at hw
  obtain ⟨sid, hsid, hw⟩ := hw
  unfold initPutsOf at hw
  split at hw
  · cases hw
  · rename_i sv hsv
    simp only [List.mem_append, List.mem_filterMap, List.mem_filter] at hw
    rcases hw with ⟨aid, ⟨hin, _⟩, hw⟩ | ⟨aid, ⟨hin, _⟩, hw⟩
    · cases hc : c'.app? aid with
      | none => simp [hc] at hw
      | some x =>
        simp only [hc, Option.map_some, Option.some.injEq] at hw
        exact ⟨sid, sv, aid, x, hsid, hsv, mem_sortNat.mp hin, hc, hw.symm⟩
    · unfold republish at hw
      split at hw
      · rename_i x r hx hr
        simp only at hw
        split at hw
        · cases hw
        · simp only [Option.some.injEq] at hw
          exact ⟨sid, sv, aid, x, hsid, hsv, mem_sortNat.mp hin, hx, hw.symm⟩
      · cases hw

theorem passB_nodel (c' : Cell) (st : Store) :
    ∀ w ∈ passB c' st ++ [Write.saveBlob], (∀ s' a', w ≠ .delRec s' a') ∧ (∀ s', w ≠ .delNode s') := by
  intro w hw
  rcases List.mem_append.mp hw with hw | hw
  · obtain ⟨_, _, _, _, _, _, _, _, rfl⟩ := mem_passB hw
    exact ⟨fun _ _ e => (nomatch e), fun _ e => (nomatch e)⟩
  · simp only [List.mem_singleton] at hw; subst hw
    exact ⟨fun _ _ e => (nomatch e), fun _ e => (nomatch e)⟩

/-- a missing record of a placed instance is created by the second loop -/
theorem passB_puts_missing {c' : Cell} {st : Store} {sid aid : Nat} {sv : Srv} {x : App}
    (hsid : sid ∈ c'.tree.leaves) (hsv : c'.srv? sid = some sv) (ha : aid ∈ sv.apps)
    (hx : c'.app? aid = some x) (hk : ¬ HasKey st sid aid) :
    Write.putRec sid aid (placementData c' x).1 (placementData c' x).2.1 (placementData c' x).2.2 ∈ passB c' st := by
  simp only [passB, List.mem_flatMap]
  refine ⟨sid, hsid, ?_⟩
  unfold initPutsOf
  rw [hsv]
  simp only [List.mem_append, List.mem_filterMap, List.mem_filter]
  left
  refine ⟨aid, ⟨mem_sortNat.mpr ha, ?_⟩, by simp [hx]⟩
  simp only [Bool.not_eq_eq_eq_not, Bool.not_true, List.contains_eq_mem, decide_eq_false_iff_not]
  rw [mem_appsOn]; exact hk

/-- Keys after the complete first loop. -/
theorem keys_after_passA (now : Int) (c' : Cell) (st : Store) (s a : Nat) :
    HasKey (st.applyAll now (passA c' st)) s a ↔
      HasKey st s a ∧ ¬(s ∈ c'.tree.leaves ∧ ∃ sv, c'.srv? s = some sv ∧ a ∉ sv.apps) := by
  rw [hasKey_applyAll_delmk now _ st s a (passA_shape c' st), mem_passA_del]
  constructor
  · rintro ⟨hk, hnd⟩
    refine ⟨hk, ?_⟩
    rintro ⟨hs, sv, hsv, hna⟩
    exact hnd ⟨hs, sv, hsv, hk, hna⟩
  · rintro ⟨hk, hnd⟩
    refine ⟨hk, ?_⟩
    rintro ⟨hs, sv, hsv, _, hna⟩
    exact hnd ⟨hs, sv, hsv, hna⟩

/-- Keys after `init_schedule`'s publication: under a member of the cell exactly `server.apps`;
    elsewhere what was there. -/
theorem keys_after_init (now : Int) (c' : Cell) (st : Store)
    (hloadedSrv : ∀ sid ∈ c'.tree.leaves, (c'.srv? sid).isSome)
    (happs : ∀ sid sv, c'.srv? sid = some sv → ∀ a ∈ sv.apps, (c'.app? a).isSome) (s a : Nat) :
    HasKey (st.applyAll now (initWrites c' st)) s a ↔
      (if s ∈ c'.tree.leaves then ∃ sv, c'.srv? s = some sv ∧ a ∈ sv.apps else HasKey st s a) := by
  rw [initWrites_eq, applyAll_append, hasKey_applyAll_puts now _ _ s a (passB_nodel c' st), keys_after_passA]
  by_cases hs : s ∈ c'.tree.leaves
  · simp only [hs, true_and, ↓reduceIte]
    obtain ⟨sv, hsv⟩ := Option.isSome_iff_exists.mp (hloadedSrv s hs)
    constructor
    · rintro (⟨_, hnd⟩ | ⟨i, n, e, hm⟩)
      · refine ⟨sv, hsv, ?_⟩
        apply Classical.byContradiction
        intro hna
        exact hnd ⟨sv, hsv, hna⟩
      · rcases List.mem_append.mp hm with hm | hm
        · obtain ⟨sid, sv', aid, x, _, hsv', ha, _, heq⟩ := mem_passB hm
          injection heq with e1 e2
          subst e1 e2
          exact ⟨sv', hsv', ha⟩
        · simp at hm
    · rintro ⟨sv', hsv', ha⟩
      by_cases hk : HasKey st s a
      · left
        refine ⟨hk, ?_⟩
        rintro ⟨sv'', hsv'', hna⟩
        rw [hsv'] at hsv''; cases hsv''; exact hna ha
      · right
        obtain ⟨x, hx⟩ := Option.isSome_iff_exists.mp (happs s sv' hsv' a ha)
        exact ⟨_, _, _, List.mem_append_left _ (passB_puts_missing hs hsv' ha hx hk)⟩
  · simp only [hs, false_and, not_false_eq_true, and_true, ↓reduceIte]
    constructor
    · rintro (hk | ⟨i, n, e, hm⟩)
      · exact hk
      · rcases List.mem_append.mp hm with hm | hm
        · obtain ⟨sid, _, aid, _, hsid, _, _, _, heq⟩ := mem_passB hm
          injection heq with e1 e2
          subst e1
          exact absurd hsid hs
        · simp at hm
    · exact Or.inl

/-- What `init_schedule` needs of the cell after its start-up cycle; scheduler invariants
    (engine `sched`: `C01_views` / `InvCap`; every placed instance is on a server of the tree after
    `_fix_invalid_placements`). -/
structure CellViews (c : Cell) : Prop where
  leavesLoaded : ∀ sid ∈ c.tree.leaves, (c.srv? sid).isSome
  views : ∀ sid s, c.srv? sid = some s → ∀ aid, aid ∈ s.apps ↔ placedOn c aid sid
  placedInTree : ∀ aid sid, placedOn c aid sid → sid ∈ c.tree.leaves

theorem CellViews.apps {c : Cell} (hc : CellViews c) :
    ∀ sid sv, c.srv? sid = some sv → ∀ a ∈ sv.apps, (c.app? a).isSome := by
  intro sid s hs a ha
  obtain ⟨x, hx, _⟩ := (hc.views sid s hs a).mp ha
  simp [hx]

theorem noDouble_iff_keys {st : Store} :
    NoDouble st ↔ ∀ s₁ s₂ a, HasKey st s₁ a → HasKey st s₂ a → s₁ = s₂ := by
  constructor
  · rintro h s₁ s₂ a ⟨r₁, h₁, rfl, rfl⟩ ⟨r₂, h₂, rfl, e⟩
    exact h r₁ h₁ r₂ h₂ e.symm
  · intro h r₁ h₁ r₂ h₂ e
    exact h r₁.srv r₂.srv r₁.app ⟨r₁, h₁, rfl, rfl⟩ ⟨r₂, h₂, rfl, e.symm⟩

end TmVerif.Master
