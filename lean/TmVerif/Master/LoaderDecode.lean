/-
  What the loader makes of the records it reads (the decode step between ZooKeeper and the calls into
  the cell, which the master engine otherwise only RECORDS):

    Loader.load_app              priority / lease / data-retention of an instance      `appPriority`, `appLease`, `appRetention`
    Loader.load_bucket           level of a bucket                                      `bucketLevel`
    Loader.create_server         partition label of a server                            `serverLabel`
    Loader.load_identity_groups  which groups are configured with which count, removed  `groupPlan`

  Durations go through `Units.toSeconds` (`utils.to_seconds`).  Tied to the code per call by the master
  engine (`fapp` / `fbkt` / `fsrv` / `fidg` lines).
-/
import TmVerif.Units.Model

namespace TmVerif.LoaderDecode
open TmVerif.Units

/-- `load_app`: the manifest's own priority wins unless it is absent or `-1` (0 is a priority). -/
def appPriority (assigned : Int) (manifest : Option Int) : Int :=
  match manifest with
  | some p => if p ≠ -1 then p else assigned
  | none => assigned

/-- `_get_lease`: `utils.to_seconds(data.get('lease', '0s'))`. -/
def appLease (lease : Option (List Char)) : Except PyErr Int := toSeconds (lease.getD ['0', 's'])

/-- `_get_data_retention`: absent stays absent. -/
def appRetention (r : Option (List Char)) : Except PyErr (Option Int) :=
  match r with
  | none => .ok none
  | some s => (toSeconds s).map some

/-- `load_bucket`: `data.get('level', bucketname.split(':')[0])`. -/
def bucketLevel (name : List Char) (level : Option (List Char)) : List Char :=
  level.getD (name.takeWhile (· ≠ ':'))

def defaultPartition : List Char := "_default".toList

/-- `create_server`: a missing or empty partition is the default one. -/
def serverLabel (partition : Option (List Char)) : List Char :=
  match partition with
  | some p => if p.isEmpty then defaultPartition else p
  | none => defaultPartition

/-- `load_identity_groups`: groups of the cell that are not stored are removed; every stored group
    whose node has data is configured with its `count` (default 0).  `stored` = `(name, data)` with
    `data = none` for an empty node, `some none` for data without `count`. -/
def groupPlan (existing : List Nat) (stored : List (Nat × Option (Option Nat))) : List Nat × List (Nat × Nat) :=
  (existing.filter (fun g => !(stored.any (fun s => s.1 = g))),
   stored.filterMap (fun s => match s.2 with
     | some (some n) => some (s.1, n)
     | some none => some (s.1, 0)
     | none => none))

end TmVerif.LoaderDecode

namespace TmVerif.LoaderDecode

/-- What `reload_server` compares: declared capacity (memory, cpu, disk), partition label, own trait
    mask and parent bucket. -/
structure SrvAttrs where
  cap : Int × Int × Int
  label : Nat
  traits : Nat
  parent : Nat
  deriving DecidableEq, Repr

inductive Reload
  | loadNew      -- never loaded: `load_server`
  | removed      -- record gone or empty: `remove_server` + the placements of its instances deleted
  | same         -- nothing changed: the object is kept
  | replaced     -- something changed: removed and loaded as new (placements restored if it had instances)
  deriving DecidableEq, Repr

/-- `Loader.reload_server`: `cur` = the loaded server, `rec` = what the stored record decodes to
    (`none`: no node / no data). -/
def reloadDecision (cur : Option SrvAttrs) (rec : Option SrvAttrs) : Reload :=
  match cur, rec with
  | none, _ => .loadNew
  | some _, none => .removed
  | some c, some r => if c = r then .same else .replaced

/-- Does `reload_server` run `adjust_server_state` for the server (through `load_server`)?  Exactly when a
    server object is (re)built from a record whose parent bucket exists (`parentOk`). -/
def reloadAdjusts (cur rec : Option SrvAttrs) (parentOk : Bool) : Bool :=
  match reloadDecision cur rec with
  | .replaced => parentOk
  | .loadNew => rec.isSome && parentOk
  | _ => false

/-- Does it put the recorded placements back (`restore_placement`)?  Exactly when a server that held
    instances is replaced. -/
def reloadRestores (cur rec : Option SrvAttrs) (hadApps : Bool) : Bool :=
  match reloadDecision cur rec with
  | .replaced => hadApps
  | _ => false

/-- The attributes of the server the master holds after the reload (`none`: not loaded). -/
def reloadResult (cur : Option SrvAttrs) (rec : Option SrvAttrs) : Option SrvAttrs :=
  match reloadDecision cur rec with
  | .same => cur
  | _ => rec

end TmVerif.LoaderDecode

namespace TmVerif.LoaderDecode

/-- What `load_allocations` sets on the allocation a record names: rank, rank adjustment (kept when the record
    has none), utilisation cap ×1000 (`none` = unlimited) and the reserved vector. -/
structure AllocAttrs where
  rank : Int
  rankAdj : Int
  maxUtil : Option Int
  reserved : Int × Int × Int
  deriving DecidableEq, Repr

/-- A freshly created `Allocation()` (what `get_sub_alloc` makes for a path component nobody configured). -/
def AllocAttrs.fresh : AllocAttrs := { rank := 100, rankAdj := 0, maxUtil := none, reserved := (0, 0, 0) }

/-- One record of /allocations as far as `Allocation.update` goes. -/
structure AllocRec where
  name : Nat                    -- interned full name (`tenant/alloc`)
  rank : Int
  rankAdj : Option Int
  maxUtil : Option Int
  reserved : Int × Int × Int
  deriving Repr

/-- `Allocation.update(reserved, rank, rank_adjustment, max_utilization)`. -/
def applyRec (a : AllocAttrs) (r : AllocRec) : AllocAttrs :=
  { rank := r.rank, rankAdj := r.rankAdj.getD a.rankAdj, maxUtil := r.maxUtil, reserved := r.reserved }

/-- The attributes of the allocation named `name` after `load_allocations` went through `records` in order:
    only records naming it touch it. -/
def allocAfter (records : List AllocRec) (name : Nat) (a : AllocAttrs := AllocAttrs.fresh) : AllocAttrs :=
  (records.filter (fun r => r.name = name)).foldl applyRec a

end TmVerif.LoaderDecode
