import TmVerif.Master.SrvState

namespace TmVerif.SrvState

@[simp] theorem set_state (s : Srv) (st : S) (t : Int) : (s.set st t).state = st := by
  unfold Srv.set; split <;> simp_all

theorem set_since (s : Srv) (st : S) (t : Int) :
    (s.set st t).since = if s.state = st then s.since else t := by
  unfold Srv.set; split <;> simp_all

/-- The state `adjust_server_state` leaves: `down` without presence; with presence `frozen` if that
    is what the record says, else `up`. -/
theorem adjust_state (s : Srv) (rec : Rec) (present : Bool) (now : Int) :
    (adjust s rec present now).1.state =
      if present = false then .down
      else if (rec.getD (.down, now)).1 = .frozen then .frozen else .up := by
  unfold adjust
  cases present <;> simp
  split <;> simp_all

/-- A record is written exactly when the state left differs from the recorded one, and it is the
    in-memory pair. -/
theorem adjust_record (s : Srv) (rec : Rec) (present : Bool) (now : Int) :
    (adjust s rec present now).2 =
      if (adjust s rec present now).1.state ≠ (rec.getD (.down, now)).1
      then some ((adjust s rec present now).1.state, (adjust s rec present now).1.since) else none := by
  unfold adjust; rfl

/-- Non-`up` states are stored: the record (if the node has data at all) agrees with the in-memory
    pair.  (A server whose node never had data has never been up, so it holds no instance.) -/
def Coh (w : World) : Prop :=
  ∀ s, w.srv = some s → s.state ≠ .up → w.record = none ∨ w.record = some (s.state, s.since)

theorem coh_adjust_fresh (w : World) (now : Int) :
    Coh (World.adjust { w with srv := some (Srv.fresh now) } now) := by
  obtain ⟨srv, record, present⟩ := w
  intro s hs hne
  simp only [World.adjust, adjust, Srv.fresh] at hs ⊢
  rcases record with _ | ⟨st, t⟩ <;> cases present
  all_goals try (cases st)
  all_goals simp [Srv.set] at hs ⊢
  all_goals subst hs
  all_goals simp_all

theorem coh_adjust (w : World) (now : Int) (h : Coh w) : Coh (w.adjust now) := by
  obtain ⟨srv, record, present⟩ := w
  intro s hs hne
  rcases srv with _ | ⟨st0, t0⟩
  · simp [World.adjust] at hs
  have h0 := h ⟨st0, t0⟩ rfl
  simp only [World.adjust, adjust] at hs ⊢
  rcases record with _ | ⟨st, t⟩ <;> cases present <;> cases st0
  all_goals try (cases st)
  all_goals simp [Srv.set] at hs h0 ⊢
  all_goals subst hs
  all_goals simp_all

theorem coh_onPresence (w : World) (replaced : Bool) (now : Int) (h : Coh w) :
    Coh (w.onPresence replaced now) := by
  unfold World.onPresence
  split
  · exact h
  · split
    · exact coh_adjust _ now h
    · split
      · cases replaced
        · exact coh_adjust _ now h
        · exact coh_adjust _ now (coh_adjust_fresh _ now)
      · exact h

theorem coh_step (w : World) (e : Ev) (h : Coh w) : Coh (w.step e) := by
  cases e with
  | restart now => exact coh_adjust_fresh w now
  | presence p replaced now =>
    exact coh_onPresence _ replaced now (fun s hs hne => h s hs hne)
  | reload replaced now =>
    simp only [World.step]
    cases hsrv : w.srv with
    | none => simpa [hsrv] using h
    | some s0 =>
      cases replaced
      · simpa [hsrv] using h
      · exact coh_adjust_fresh w now
  | event req now =>
    simp only [World.step]
    cases hsrv : w.srv with
    | none => simpa [hsrv] using h
    | some s0 =>
      intro s hs hne
      simp only [Option.some.injEq] at hs
      subst hs
      simp [stateEvent]

/-- Events that are neither an admin state event nor a return of presence. -/
def Ev.awayQuiet : Ev → Prop
  | .restart _ => True
  | .presence p _ _ => p = false
  | .reload _ _ => True
  | .event _ _ => False

/-- The server is recorded `down` since `t`, and a master that has it loaded agrees. -/
def DownSince (w : World) (t : Int) : Prop :=
  w.present = false ∧ w.record = some (.down, t) ∧ (w.srv = none ∨ w.srv = some ⟨.down, t⟩)

theorem downSince_step (w : World) (e : Ev) (t : Int) (h : DownSince w t) (he : e.awayQuiet) :
    DownSince (w.step e) t := by
  obtain ⟨hp, hr, hs⟩ := h
  cases e with
  | restart now =>
    simp [World.step, World.adjust, adjust, hp, hr, Srv.fresh, Srv.set, DownSince]
  | presence p replaced now =>
    simp only [Ev.awayQuiet] at he
    subst he
    rcases hs with hs | hs <;>
      simp [World.step, World.onPresence, hs, DownSince, hr]
  | reload replaced now =>
    rcases hs with hs | hs
    · simp [World.step, hs, DownSince, hr, hp]
    · cases replaced <;>
        simp [World.step, World.adjust, adjust, hs, hp, hr, Srv.fresh, Srv.set, DownSince]
  | event req now => exact absurd he (by simp [Ev.awayQuiet])

/-- Events under which a frozen server must stay frozen: restarts and reloads while presence stays. -/
def Ev.presentQuiet : Ev → Prop
  | .restart _ => True
  | .presence p _ _ => p = true
  | .reload _ _ => True
  | .event _ _ => False

def FrozenSince (w : World) (t : Int) : Prop :=
  w.present = true ∧ w.record = some (.frozen, t) ∧ (w.srv = none ∨ w.srv = some ⟨.frozen, t⟩)

theorem frozenSince_step (w : World) (e : Ev) (t : Int) (h : FrozenSince w t) (he : e.presentQuiet) :
    FrozenSince (w.step e) t := by
  obtain ⟨hp, hr, hs⟩ := h
  cases e with
  | restart now =>
    simp [World.step, World.adjust, adjust, hp, hr, Srv.fresh, Srv.set, FrozenSince]
  | presence p replaced now =>
    simp only [Ev.presentQuiet] at he
    subst he
    rcases hs with hs | hs <;>
      simp [World.step, World.onPresence, hs, FrozenSince, hr]
  | reload replaced now =>
    rcases hs with hs | hs
    · simp [World.step, hs, FrozenSince, hr, hp]
    · cases replaced <;>
        simp [World.step, World.adjust, adjust, hs, hp, hr, Srv.fresh, Srv.set, FrozenSince]
  | event req now => exact absurd he (by simp [Ev.presentQuiet])

/-! ### Admin state events -/

/-- Only instances ON the frozen server, named by the request, are marked; nothing is marked by an
    `up` / `down` / unsupported request. -/
theorem stateEvent_marked (s : Srv) (onSrv : List Nat) (req : Req) (apps : List Nat) (now : Int) (a : Nat)
    (h : a ∈ (stateEvent s onSrv req apps now).2.1) : a ∈ onSrv ∧ a ∈ apps ∧ req = .frozen := by
  cases req <;> simp [stateEvent] at h
  exact ⟨h.2, h.1, rfl⟩

theorem stateEvent_state (s : Srv) (onSrv : List Nat) (req : Req) (apps : List Nat) (now : Int) :
    (stateEvent s onSrv req apps now).1.state =
      match req with | .up => .up | .down => .down | .frozen => .frozen | .other => s.state := by
  cases req <;> simp [stateEvent]

/-- Repeating the state a server is already in does not restart its clock. -/
theorem stateEvent_since_kept (s : Srv) (onSrv : List Nat) (req : Req) (apps : List Nat) (now : Int)
    (h : (stateEvent s onSrv req apps now).1.state = s.state) :
    (stateEvent s onSrv req apps now).1.since = s.since := by
  obtain ⟨st, t⟩ := s
  cases req <;> cases st <;> simp_all [stateEvent, Srv.set]

/-- The record written by an event is the in-memory pair. -/
theorem stateEvent_record (s : Srv) (onSrv : List Nat) (req : Req) (apps : List Nat) (now : Int) :
    (stateEvent s onSrv req apps now).2.2 =
      ((stateEvent s onSrv req apps now).1.state, (stateEvent s onSrv req apps now).1.since) := by
  cases req <;> simp [stateEvent]

/-! ### The pending-start check -/

/-- Every entry kept or made by the check belongs to an instance of the cell that is not running and
    sits on a loaded server that is not down. -/
theorem checkPending_entries (pend : List Pend) (apps : List (Nat × Bool × Option (Nat × S))) (now : Int)
    (q : Pend) (h : q ∈ (checkPending pend apps now).1) :
    ∃ st, (q.app, false, some (q.srv, st)) ∈ apps ∧ st ≠ .down := by
  simp only [checkPending, List.mem_filterMap] at h
  obtain ⟨⟨a, run, srv⟩, hmem, hq⟩ := h
  simp only [pendEntry] at hq
  rcases srv with _ | ⟨sv, st⟩
  · simp at hq
  · simp only at hq
    split at hq
    · rename_i hc
      have hrun : run = false := by cases run <;> simp_all
      subst hrun
      refine ⟨st, ?_, hc.2⟩
      cases hl : pendLookup pend a with
      | none => simp [hl] at hq; subst hq; exact hmem
      | some p =>
        simp only [hl] at hq
        split at hq
        · rename_i hsv
          simp at hq; subst hq
          have : p.app = a := by
            have := List.find?_some hl
            simpa using this
          rw [this, hsv]; exact hmem
        · simp at hq; subst hq; exact hmem
    · simp at hq

/-- **The pending-start check never freezes a down server**, and only for instances that are placed
    there, not running, and have been seen so for longer than the start interval. -/
theorem checkPending_overdue (pend : List Pend) (apps : List (Nat × Bool × Option (Nat × S))) (now : Int)
    (sv a : Nat) (h : (sv, a) ∈ (checkPending pend apps now).2) :
    (∃ st, (a, false, some (sv, st)) ∈ apps ∧ st ≠ .down) ∧
    ∃ q ∈ (checkPending pend apps now).1, q.app = a ∧ q.srv = sv ∧ now > q.since + START_INTERVAL := by
  have h' := h
  simp only [checkPending, List.mem_map, List.mem_filter] at h'
  obtain ⟨q, ⟨hq, hov⟩, he⟩ := h'
  simp only [Prod.mk.injEq] at he
  obtain ⟨e1, e2⟩ := he
  have := checkPending_entries pend apps now q (by simpa [checkPending] using hq)
  subst e1 e2
  exact ⟨this, q, by simpa [checkPending] using hq, rfl, rfl, by simpa using hov⟩

/-- The clock of an entry restarts when the instance moved to another server and is kept otherwise. -/
theorem pendEntry_since (p : Pend) (a : Nat) (sv : Nat) (st : S) (now : Int) (hst : st ≠ .down) :
    pendEntry (some p) a false (some (sv, st)) now =
      if p.srv = sv then some p else some { app := a, srv := sv, since := now } := by
  simp [pendEntry, hst]

end TmVerif.SrvState
