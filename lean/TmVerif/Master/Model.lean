/-
  Master model — publication and recovery of placements over a store
  (treadmill/scheduler/master.py, loader.py; storage through zkbackend.py / zkutils.py).

  State = `Sched.Cell` × `Store`.  The store holds exactly the znodes the modelled functions read or
  write: `/placement/<srv>` (existence + state data), `/placement/<srv>/<app>` (identity,
  identity_count, expires, ctime), `/server.presence/<srv>` (ctime), `/scheduled/<app>`,
  `/finished/<app>`.  Times in the cell are seconds (`Int`), znode ctimes are milliseconds.

  Every storage write is an element of a `List Write`, so that a crash is "apply a prefix".

  Modelled (one definition per Python function): `Master._placement_data`, `Master.reschedule`
  (with `_unschedule_evicted`, `_save_placement`), `Master.init_schedule`, `Master.remove_app`,
  `Loader.restore_placement`, `Loader.restore_placements`, `Loader.check_placement_integrity`.
  The scheduling cycle itself is `TmVerif.Sched.schedule`.  The rest of the loader (load_server,
  reload_server, remove_server, adjust_server_state, load_app, load_allocations, identity groups)
  is not modelled here: the harness records the calls it makes into the cell as `Sched.Op`s.
  `get_children` order is the order of the names; the harness names servers and instances so that
  this is the numeric order of their ids (`sortNat`).
-/
import TmVerif.Sched.Ops

namespace TmVerif.Master
open TmVerif.Sched

/-! ### store -/

/-- `/placement/<srv>/<app>`: `{identity, identity_count, expires}` and the znode's ctime (ms). -/
structure PRec where
  srv : Nat
  app : Nat
  identity : Option Nat
  count : Option Nat
  expires : Option Int
  ctime : Int
  deriving DecidableEq, Repr, Inhabited

/-- `/placement/<srv>`: state data `{state, since}` (empty until `_record_server_state`). -/
structure PNode where
  srv : Nat
  state : Option (SState × Int)
  deriving DecidableEq, Repr, Inhabited

/-- `/finished/<app>`: host, whether `data == 'schedule_once'`, `when`. -/
structure FinRec where
  app : Nat
  host : Option Nat
  once : Bool
  when_ : Int
  deriving DecidableEq, Repr, Inhabited

structure Store where
  pnodes : List PNode := []
  recs : List PRec := []
  presence : List (Nat × Int) := []      -- srv ↦ ctime (ms) of `/server.presence/<srv>`
  scheduled : List Nat := []
  finished : List FinRec := []
  deriving Repr, Inhabited

def Store.rec? (st : Store) (srv app : Nat) : Option PRec :=
  st.recs.find? (fun r => r.srv = srv ∧ r.app = app)
def Store.hasRec (st : Store) (srv app : Nat) : Bool := st.recs.any (fun r => r.srv = srv ∧ r.app = app)
def Store.hasNode (st : Store) (srv : Nat) : Bool := st.pnodes.any (fun p => p.srv = srv)
def Store.presence? (st : Store) (srv : Nat) : Option Int :=
  (st.presence.find? (fun p => p.1 = srv)).map (·.2)

/-- insertion sort on `Nat` (structural; `get_children` order of the harness's names) -/
def insertNat (x : Nat) : List Nat → List Nat
  | [] => [x]
  | y :: t => if x ≤ y then x :: y :: t else y :: insertNat x t
def sortNat (l : List Nat) : List Nat := l.foldr insertNat []

/-- `backend.list(z.path.placement(srv))` -/
def Store.appsOn (st : Store) (srv : Nat) : List Nat :=
  sortNat ((st.recs.filter (fun r => r.srv = srv)).map (·.app))
/-- `backend.list(z.PLACEMENT)` -/
def Store.servers (st : Store) : List Nat := sortNat (st.pnodes.map (·.srv))

/-! ### writes -/

inductive Write
  | mkNode (srv : Nat)                                  -- `ensure_exists(/placement/<srv>)` creating it
  | putState (srv : Nat) (state : Option (SState × Int))  -- `_record_server_state`
  | delNode (srv : Nat)
  | delRec (srv app : Nat)                              -- `backend.delete(/placement/<srv>/<app>)`
  | putRec (srv app : Nat) (identity count : Option Nat) (expires : Option Int)
  | putFinished (app : Nat) (host : Option Nat) (once : Bool) (when_ : Int)
  | delFinished (app : Nat)
  | delScheduled (app : Nat)
  | saveBlob                                            -- `_save_placement` (content not modelled)
  deriving DecidableEq, Repr, Inhabited

/-- Does the write change a znode (a delete of a missing node is no ZooKeeper write)? -/
def Write.effective (st : Store) : Write → Bool
  | .mkNode s => !st.hasNode s
  | .delNode s => st.hasNode s
  | .delRec s a => st.hasRec s a
  | .delFinished a => st.finished.any (fun f => f.app = a)
  | .delScheduled a => st.scheduled.contains a
  | _ => true

/-- Sub-second part (ms) of the creation time ZooKeeper stamps on a record the master creates in
    virtual second `now`: the harness's store registers presence nodes at `+200` and lets every other
    write happen at `+500`, so that restart detection is exercised with creation times that differ
    within one second. -/
def recStampMs : Int := 500

/-- One storage write at time `now` (seconds).  `zkutils.put` = create, or set on an existing node
    (a set never changes ctime); creating a record creates the missing parent node. -/
def Store.apply (now : Int) (st : Store) : Write → Store
  | .mkNode s => if st.hasNode s then st else { st with pnodes := st.pnodes ++ [⟨s, none⟩] }
  | .putState s d =>
    if st.hasNode s then { st with pnodes := st.pnodes.map (fun p => if p.srv = s then ⟨s, d⟩ else p) }
    else { st with pnodes := st.pnodes ++ [⟨s, d⟩] }
  | .delNode s => { st with pnodes := st.pnodes.filter (fun p => p.srv ≠ s),
                            recs := st.recs.filter (fun r => r.srv ≠ s) }
  | .delRec s a => { st with recs := st.recs.filter (fun r => ¬(r.srv = s ∧ r.app = a)) }
  | .putRec s a i n e =>
    if st.hasRec s a then
      { st with recs := st.recs.map (fun r => if r.srv = s ∧ r.app = a then { r with identity := i, count := n, expires := e } else r) }
    else
      { st with recs := st.recs ++ [⟨s, a, i, n, e, now * 1000 + recStampMs⟩],
                pnodes := if st.hasNode s then st.pnodes else st.pnodes ++ [⟨s, none⟩] }
  | .putFinished a h o w =>
    { st with finished := st.finished.filter (fun f => f.app ≠ a) ++ [⟨a, h, o, w⟩] }
  | .delFinished a => { st with finished := st.finished.filter (fun f => f.app ≠ a) }
  | .delScheduled a => { st with scheduled := st.scheduled.filter (· ≠ a) }
  | .saveBlob => st

def Store.applyAll (now : Int) (st : Store) (ws : List Write) : Store := ws.foldl (Store.apply now) st

/-- The writes of `ws` that reach ZooKeeper, in order (each judged on the store it meets). -/
def effectiveWrites (now : Int) : Store → List Write → List Write
  | _, [] => []
  | st, w :: ws =>
    if w.effective st then w :: effectiveWrites now (st.apply now w) ws
    else effectiveWrites now (st.apply now w) ws

/-- Crash after `k` ZooKeeper writes: the longest prefix of `ws` holding `k` effective writes. -/
def applyEffPrefix (now : Int) : Nat → Store → List Write → Store
  | _, st, [] => st
  | k, st, w :: ws =>
    if w.effective st then
      match k with
      | 0 => st
      | k + 1 => applyEffPrefix now k (st.apply now w) ws
    else applyEffPrefix now k (st.apply now w) ws

/-! ### state -/

structure MState where
  cell : Cell
  store : Store
  deriving Repr, Inhabited

/-- `Master._placement_data(app)`: identity, identity_count, expires. -/
def placementData (c : Cell) (a : App) : Option Nat × Option Nat × Option Int :=
  let cnt := match a.identity, a.group with
    | some _, some g => (c.grp? g).map (·.count)
    | _, _ => none
  (a.identity, cnt, a.expiry)

/-! ### `Master.reschedule` -/

/-- One tuple of `Cell.schedule()`'s result. -/
structure Pl where
  app : Nat
  before : Option Nat
  expB : Option Int
  after : Option Nat
  expA : Option Int
  deriving DecidableEq, Repr, Inhabited

/-- `before` / `after` snapshots in the order of `all_apps` (recorded). -/
def placementList (c c' : Cell) (order : List Nat) : M (List Pl) :=
  order.mapM (fun aid => do
    let a ← orAbort (c.app? aid) "schedule: app of the placement list not in the cell"
    let a' ← orAbort (c'.app? aid) "schedule: app of the placement list not in the cell"
    pure ⟨aid, a.server, a.expiry, a'.server, a'.expiry⟩)

/-- "Filter out placement records where nothing changed." -/
def changed (pl : List Pl) : List Pl :=
  pl.filter (fun p => p.before != p.after || p.expB != p.expA)

/-- First loop: remove all old placements. -/
def pass1 (ch : List Pl) : List Write :=
  ch.filterMap (fun p => match p.before with
    | some b => if p.before != p.after then some (.delRec b p.app) else none
    | none => none)

/-- Second loop: create the new placements (content from the cell after the cycle). -/
def pass2 (c' : Cell) (ch : List Pl) : List Write :=
  ch.filterMap (fun p => match p.after, c'.app? p.app with
    | some t, some a =>
      let d := placementData c' a
      some (.putRec t p.app d.1 d.2.1 d.2.2)
    | _, _ => none)

/-- `_unschedule_evicted`. -/
def unscheduleEvicted (c' : Cell) : List Write :=
  (c'.apps.filter (fun a => a.schedOnce && a.evicted)).flatMap
    (fun a => [.putFinished a.id none true c'.now, .delScheduled a.id])

def publication (c' : Cell) (pl : List Pl) : List Write :=
  let ch := changed pl
  pass1 ch ++ pass2 c' ch ++ unscheduleEvicted c' ++ [.saveBlob]

def isPerm (a b : List Nat) : Bool := sortNat a == sortNat b

/-- `Master.reschedule()`: returns the new cell and the publication's writes (not yet applied). -/
def rescheduleW (c : Cell) (order : List Nat) (qs : List (List (Nat × Bool))) (ch : List Nat) :
    M (Cell × List Write) := do
  if !isPerm order (c.apps.map (·.id)) then throw "placement list is not a permutation of the apps"
  let c' ← schedule c qs ch
  -- MODEL-ONLY assertion: a cycle neither adds nor removes instances (the correspondence run shows it
  -- never fires); it lets the publication theorems treat `Sched.schedule` as a black box
  if !isPerm order (c'.apps.map (·.id)) then throw "model-assert: schedule changed the set of apps"
  let pl ← placementList c c' order
  return (c', publication c' pl)

def reschedule (m : MState) (order : List Nat) (qs : List (List (Nat × Bool))) (ch : List Nat) :
    M (MState × List Write) := do
  let (c', ws) ← rescheduleW m.cell order qs ch
  return (⟨c', m.store.applyAll c'.now ws⟩, ws)

/-! ### `Master.init_schedule` -/

/-- First loop of `init_schedule` for one member: `ensure_exists`, then delete `current - correct`. -/
def initDelsOf (c' : Cell) (st : Store) (sid : Nat) : List Write :=
  match c'.srv? sid with
  | none => []
  | some s =>
    [.mkNode sid] ++
      ((st.appsOn sid).filter (fun a => !(sortNat s.apps).contains a)).map (fun a => .delRec sid a)

/-- `backend.update(path, _placement_data(app), check_content=True)`: a write only if the stored
    identity / identity_count / expires differ from the model's. -/
def republish (c' : Cell) (st : Store) (sid aid : Nat) : Option Write :=
  match c'.app? aid, st.rec? sid aid with
  | some a, some r =>
    let d := placementData c' a
    if r.identity = d.1 ∧ r.count = d.2.1 ∧ r.expires = d.2.2 then none
    else some (.putRec sid aid d.1 d.2.1 d.2.2)
  | _, _ => none

/-- Second loop for one member: put `correct - current`, republish `correct & current` whose
    content changed. -/
def initPutsOf (c' : Cell) (st : Store) (sid : Nat) : List Write :=
  match c'.srv? sid with
  | none => []
  | some s =>
    ((sortNat s.apps).filter (fun a => !(st.appsOn sid).contains a)).filterMap (fun aid =>
        (c'.app? aid).map (fun a => let d := placementData c' a; .putRec sid aid d.1 d.2.1 d.2.2))
      ++ ((sortNat s.apps).filter (fun a => (st.appsOn sid).contains a)).filterMap (republish c' st sid)

/-- `init_schedule`'s two loops over `cell.members()`: all removals first, then all creations
    (the second loop lists each server again; the first one only removed names not in `correct`, so
    `correct - current` and `correct & current` are the same sets as on the initial store). -/
def initWrites (c' : Cell) (st : Store) : List Write :=
  c'.tree.leaves.flatMap (initDelsOf c' st) ++ c'.tree.leaves.flatMap (initPutsOf c' st) ++ [.saveBlob]

def initSchedule (m : MState) (qs : List (List (Nat × Bool))) (ch : List Nat) :
    M (MState × List Write) := do
  let c' ← schedule m.cell qs ch
  let ws := initWrites c' m.store
  return (⟨c', m.store.applyAll c'.now ws⟩, ws)

/-! ### `Master.remove_app` -/

def removeAppW (c : Cell) (st : Store) (aid : Nat) : M (Cell × List Write) := do
  match c.app? aid with
  | none => return (c, [])
  | some a =>
    let w1 : List Write := match a.server with
      | some s => [.delRec s aid]
      | none => []
    let w2 : List Write :=
      if st.finished.any (fun f => f.app = aid) then [] else [.putFinished aid a.server false c.now]
    let c' ← removeApp c aid
    return (c', w1 ++ w2)

def masterRemoveApp (m : MState) (aid : Nat) : M (MState × List Write) := do
  let (c', ws) ← removeAppW m.cell m.store aid
  return (⟨c', m.store.applyAll m.cell.now ws⟩, ws)

/-! ### `Loader.restore_placement` / `restore_placements` -/

/-- `Server.put` as the code has it: no check that the instance is not already placed elsewhere
    (`Sched.serverPut` has that check as a model-only assertion).  Only a store with the instance
    recorded under two servers reaches the second branch. -/
def serverPutAny (c : Cell) (aid sid : Nat) (lease0 : Bool) : M (Cell × Bool) := do
  let a ← orAbort (c.app? aid) "put: unknown app"
  match a.server with
  | none => serverPut c aid sid lease0
  | some _ => do
    let r ← serverPut (c.setApp { a with server := none }) aid sid lease0
    if r.2 then return (r.1, true) else return (c, false)

/-- `if placement_expiry is None: placement_expiry = app.placement_expiry` -/
def restoreExpiry (exp : Option Int) (a : App) : Option Int :=
  match exp with
  | some e => some e
  | none => a.expiry

/-- `Server.restore` on top of `serverPutAny`. -/
def serverRestoreAny (c : Cell) (aid sid : Nat) (exp : Option Int) : M (Cell × Bool) := do
  let a ← orAbort (c.app? aid) "restore: unknown app"
  let r ← serverPutAny c aid sid true
  let a1 ← orAbort (r.1.app? aid) "restore: unknown app"
  return (r.1.setApp { a1 with expiry := restoreExpiry exp a }, r.2)

structure RState where
  cell : Cell
  writes : List Write
  restored : List Nat
  deriving Repr

/-- "If server is up and presence didn't change since we put app on it": presence ctime (ms) is
    truthy and not younger than the record's ctime. -/
def presenceFresh (st : Store) (sid : Nat) (r : PRec) : Bool :=
  match st.presence? sid with
  | some pt => decide (pt ≠ 0) && decide (pt ≤ r.ctime)
  | none => false

/-- The placement attempt for one recorded instance: restore branch (same expiry, lifetime
    ignored), or the put branch (schedule-once instances are not put back). -/
def restoreAttempt (c : Cell) (a : App) (sid : Nat) (fresh : Bool) (r : PRec) : M (Cell × Bool) :=
  if fresh then serverRestoreAny c a.id sid r.expires
  else if a.schedOnce then pure (c, false)
  else serverPutAny c a.id sid false

/-- `if not restored:` — the record is deleted; a schedule-once instance is finished for good
    (finished put, scheduled delete, then `self.remove_app`, which finds `/finished` present). -/
def restoreFail (c1 : Cell) (a : App) (sid : Nat) (now : Int) (rs : RState) : M RState := do
  if a.schedOnce then
    let c2 ← removeApp c1 a.id
    -- `Master.remove_app` deletes the record under the server the instance is placed on: only an
    -- instance recorded under two servers (restored by an earlier pass) has one here
    let w4 : List Write := match a.server with
      | some s => [.delRec s a.id]
      | none => []
    return { rs with cell := c2,
                     writes := rs.writes ++ [.delRec sid a.id, .putFinished a.id (some sid) true now,
                                             .delScheduled a.id] ++ w4 }
  else return { rs with cell := c1, writes := rs.writes ++ [.delRec sid a.id] }

/-- `if app.placement_expiry != expires: self._record_placement(servername, appname)`: a restore
    that re-evaluated the lease (put branch) republishes the record. -/
def recordIfChanged (c2 : Cell) (sid aid : Nat) (r : PRec) : List Write :=
  match c2.app? aid with
  | some a =>
    if a.expiry = r.expires then []
    else let d := placementData c2 a; [.putRec sid aid d.1 d.2.1 d.2.2]
  | none => []

/-- `else:` — restored; the recorded identity is forced on request, the record follows a new expiry. -/
def restoreDone (c1 : Cell) (sid aid : Nat) (restoreIdentity : Bool) (r : PRec) (rs : RState) : M RState := do
  let c2 ← (match restoreIdentity, r.identity with
    | true, some k => forceIdentity c1 aid k
    | _, _ => pure c1)
  return { rs with cell := c2, writes := rs.writes ++ recordIfChanged c2 sid aid r,
                   restored := rs.restored ++ [aid] }

/-- Body of `for appname in placed_apps` for one instance. -/
def restoreOne (st : Store) (sid : Nat) (restoreIdentity : Bool) (rs : RState) (aid : Nat) : M RState :=
  match rs.cell.app? aid with
  | none => pure { rs with writes := rs.writes ++ [.delRec sid aid] }     -- stale app
  | some a =>
    match st.rec? sid aid with
    | none => pure rs
    | some r => do
      let t ← restoreAttempt rs.cell a sid (presenceFresh st sid r) r
      if !t.2 then restoreFail t.1 a sid rs.cell.now rs else restoreDone t.1 sid aid restoreIdentity r rs

/-- `Loader.restore_placement(servername, restore_identity)`. Returns cell, writes, restored apps. -/
def restorePlacement (c : Cell) (st : Store) (sid : Nat) (restoreIdentity : Bool) :
    M (Cell × List Write × List Nat) := do
  if (c.srv? sid).isNone then throw "KeyError: self.servers[servername]"
  let c1 ← serverRemoveAll c sid
  let rs ← (st.appsOn sid).foldlM (restoreOne st sid restoreIdentity) ⟨c1, [], []⟩
  return (rs.cell, rs.writes, rs.restored)

def addIntegrity (acc : List (Nat × List Nat)) (aid sid : Nat) : List (Nat × List Nat) :=
  if acc.any (fun p => p.1 = aid) then acc.map (fun p => if p.1 = aid then (aid, p.2 ++ [sid]) else p)
  else acc ++ [(aid, [sid])]

/-- State of `restore_placements`' first loop: cell, writes so far, the `integrity` dict. -/
structure LState where
  cell : Cell
  writes : List Write
  integ : List (Nat × List Nat)
  deriving Repr

/-- One iteration of `for servername in self.servers` (each call reads the store as the previous
    ones left it). -/
def restoreStep (st : Store) (now : Int) (acc : LState) (sid : Nat) : M LState := do
  let r ← restorePlacement acc.cell (st.applyAll now acc.writes) sid true
  pure ⟨r.1, acc.writes ++ r.2.1, r.2.2.foldl (fun i aid => addIntegrity i aid sid) acc.integ⟩

/-- "Integrity error": `self.servers[servername].remove(appname)` + delete of the record. -/
def dedupOne (aid : Nat) (acc : Cell × List Write) (sid : Nat) : M (Cell × List Write) := do
  let c' ← serverRemove acc.1 sid aid
  pure (c', acc.2 ++ [Write.delRec sid aid])

def dedupApp (acc : Cell × List Write) (p : Nat × List Nat) : M (Cell × List Write) :=
  p.2.foldlM (dedupOne p.1) acc

/-- "Placement of a server that is not (or no longer) part of the cell is stale": the records under
    every `/placement/<srv>` whose server is not loaded are deleted first. -/
def dropUnloaded (c : Cell) (st : Store) : List Write :=
  (st.servers.filter (fun s => !(c.srvs.map (·.id)).contains s)).flatMap
    (fun s => (st.appsOn s).map (fun a => Write.delRec s a))

/-- `Loader.restore_placements()`; `order` = iteration order of `self.servers` (recorded). -/
def restorePlacements (c : Cell) (st : Store) (order : List Nat) : M (Cell × List Write) := do
  if !isPerm order (c.srvs.map (·.id)) then throw "server order is not a permutation of the servers"
  let ls ← order.foldlM (restoreStep st c.now) ⟨c, dropUnloaded c st, []⟩
  -- an instance restored on more than one server is removed from all of them
  (ls.integ.filter (fun p => p.2.length > 1)).foldlM dedupApp (ls.cell, ls.writes)

/-! ### `Loader.check_placement_integrity` -/

structure IState where
  app2server : List (Nat × Nat)
  writes : List Write
  failed : Option String
  deriving Repr

def integrityVisit (c : Cell) (sid : Nat) (is : IState) (aid : Nat) : IState :=
  if is.failed.isSome then is else
  match is.app2server.find? (fun p => p.1 = aid) with
  | none => { is with app2server := is.app2server ++ [(aid, sid)] }
  | some (_, first) =>
    match c.app? aid with
    | none => { is with failed := some "KeyError: self.cell.apps[app]" }
    | some a =>
      if a.server ≠ some first ∧ a.server ≠ some sid then
        { is with failed := some "assert correct_placement in [app2server[app], server]" }
      else
        let w1 : List Write := if a.server ≠ some sid then [.delRec sid aid] else []
        let w2 : List Write := if a.server ≠ some first then [.delRec first aid] else []
        -- the repair is remembered: `app2server[app] = server` when the first record was the wrong one
        let a2s := if a.server ≠ some first then
            is.app2server.map (fun p => if p.1 = aid then (aid, sid) else p) else is.app2server
        { is with writes := is.writes ++ w1 ++ w2, app2server := a2s }

/-- `check_placement_integrity()`: the repairs it performs and whether one of its `assert`s fails
    (the repairs made before a failing assert have happened). -/
def checkIntegrity (c : Cell) (st : Store) : List Write × Option String :=
  let is := st.servers.foldl (fun is sid => (st.appsOn sid).foldl (integrityVisit c sid) is) ⟨[], [], none⟩
  match is.failed with
  | some e => (is.writes, some e)
  | none =>
    let success := c.apps.all (fun a => match a.server with
      | none => true
      | some s => (is.app2server.find? (fun p => p.1 = a.id)).map (·.2) == some s)
    (is.writes, if success then none else some "assert success, 'Placement integrity failed.'")

/-! ### agreement between store and model (the property of C09) -/

/-- The model places instance `aid` on server `sid`. -/
def placedOn (c : Cell) (aid sid : Nat) : Prop := ∃ a, c.app? aid = some a ∧ a.server = some sid

/-- Existence: a record under `srv` for `app` iff the model places `app` on `srv`. -/
def AgreeWhere (c : Cell) (st : Store) : Prop :=
  ∀ srv app, (∃ r ∈ st.recs, r.srv = srv ∧ r.app = app) ↔ placedOn c app srv

/-- Content: every record carries the identity and expiry the model holds. -/
def AgreeWhat (c : Cell) (st : Store) : Prop :=
  ∀ r ∈ st.recs, ∀ a, c.app? r.app = some a → r.identity = a.identity ∧ r.expires = a.expiry

def Agree (c : Cell) (st : Store) : Prop := AgreeWhere c st ∧ AgreeWhat c st

/-- No instance has placement records under two servers. -/
def NoDouble (st : Store) : Prop :=
  ∀ r₁ ∈ st.recs, ∀ r₂ ∈ st.recs, r₁.app = r₂.app → r₁.srv = r₂.srv

/-- Executable versions (used by the driver and by the `decide` witnesses). -/
def agreeWhereB (c : Cell) (st : Store) : Bool :=
  st.recs.all (fun r => match c.app? r.app with
    | some a => a.server == some r.srv
    | none => false)
  && c.apps.all (fun a => match a.server with
    | some s => st.hasRec s a.id
    | none => true)

def agreeWhatB (c : Cell) (st : Store) : Bool :=
  st.recs.all (fun r => match c.app? r.app with
    | some a => r.identity == a.identity && r.expires == a.expiry
    | none => true)

def noDoubleB (st : Store) : Bool :=
  st.recs.all (fun r₁ => st.recs.all (fun r₂ => r₁.app != r₂.app || r₁.srv == r₂.srv))

end TmVerif.Master
