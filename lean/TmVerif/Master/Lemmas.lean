/-
  Master model — helper lemmas: how writes change the set of placement records, sorted listings,
  the structure of `Master.reschedule`'s publication.
-/
import TmVerif.Master.Model

namespace TmVerif.Master
open TmVerif.Sched

/-! ### `Except` plumbing (local copies: this file depends on the model only) -/

theorem bind_ok' {α β} {f : M α} {g : α → M β} {b : β} :
    (f >>= g) = .ok b ↔ ∃ a, f = .ok a ∧ g a = .ok b := by
  cases f with
  | error e => simp [bind, Except.bind]
  | ok a => simp [bind, Except.bind]

theorem orAbort_ok' {α} {o : Option α} {msg : String} {a : α} : orAbort o msg = .ok a ↔ o = some a := by
  cases o <;> simp [orAbort]

/-! ### sorted listings -/

theorem mem_insertNat {x y : Nat} {l : List Nat} : y ∈ insertNat x l ↔ y = x ∨ y ∈ l := by
  induction l with
  | nil => simp [insertNat]
  | cons h t ih =>
    simp only [insertNat]
    split
    · simp
    · simp only [List.mem_cons, ih]
      constructor
      · rintro (h1 | h1 | h1) <;> simp [h1]
      · rintro (h1 | h1 | h1) <;> simp [h1]

theorem mem_sortNat {y : Nat} {l : List Nat} : y ∈ sortNat l ↔ y ∈ l := by
  induction l with
  | nil => simp [sortNat]
  | cons h t ih =>
    have : sortNat (h :: t) = insertNat h (sortNat t) := rfl
    rw [this, mem_insertNat, ih]
    simp

theorem isPerm_mem {a b : List Nat} (h : isPerm a b = true) (x : Nat) : x ∈ a ↔ x ∈ b := by
  have e : sortNat a = sortNat b := by simpa [isPerm] using h
  rw [← mem_sortNat (l := a), e, mem_sortNat]

/-! ### records under writes -/

/-- `st` has a record for `app` under `srv`. -/
def HasKey (st : Store) (srv app : Nat) : Prop := ∃ r ∈ st.recs, r.srv = srv ∧ r.app = app

theorem hasRec_iff {st : Store} {s a : Nat} : st.hasRec s a = true ↔ HasKey st s a := by
  simp [Store.hasRec, HasKey]

/-- Effect of one write on the set of record keys. -/
def keyAfter (w : Write) (had : Nat → Nat → Prop) (s a : Nat) : Prop :=
  match w with
  | .delRec s' a' => had s a ∧ ¬(s = s' ∧ a = a')
  | .putRec s' a' _ _ _ => had s a ∨ (s = s' ∧ a = a')
  | .delNode s' => had s a ∧ s ≠ s'
  | _ => had s a

theorem hasKey_apply (now : Int) (st : Store) (w : Write) (s a : Nat) :
    HasKey (st.apply now w) s a ↔ keyAfter w (HasKey st) s a := by
  cases w with
  | mkNode x => simp only [Store.apply, keyAfter]; split <;> simp [HasKey]
  | putState x d => simp only [Store.apply, keyAfter]; split <;> simp [HasKey]
  | delNode x =>
    simp only [Store.apply, keyAfter, HasKey, List.mem_filter]
    constructor
    · rintro ⟨r, ⟨hr, hne⟩, h1, h2⟩
      exact ⟨⟨r, hr, h1, h2⟩, by simpa [h1] using hne⟩
    · rintro ⟨⟨r, hr, h1, h2⟩, hne⟩
      exact ⟨r, ⟨hr, by simpa [h1] using hne⟩, h1, h2⟩
  | delRec x y =>
    simp only [Store.apply, keyAfter, HasKey, List.mem_filter]
    constructor
    · rintro ⟨r, ⟨hr, hne⟩, h1, h2⟩
      refine ⟨⟨r, hr, h1, h2⟩, ?_⟩
      rintro ⟨e1, e2⟩
      simp [h1, h2, e1, e2] at hne
    · rintro ⟨⟨r, hr, h1, h2⟩, hne⟩
      exact ⟨r, ⟨hr, decide_eq_true (by rw [h1, h2]; exact hne)⟩, h1, h2⟩
  | putRec x y i n e =>
    simp only [Store.apply, keyAfter]
    split
    · rename_i hhas
      have hk : HasKey st x y := hasRec_iff.mp hhas
      simp only [HasKey, List.mem_map]
      constructor
      · rintro ⟨r, ⟨r0, hr0, rfl⟩, h1, h2⟩
        left
        refine ⟨r0, hr0, ?_, ?_⟩
        · split at h1 <;> simp_all
        · split at h2 <;> simp_all
      · rintro (⟨r, hr, h1, h2⟩ | ⟨h1, h2⟩)
        · refine ⟨_, ⟨r, hr, rfl⟩, ?_, ?_⟩ <;> (split <;> simp_all)
        · obtain ⟨r, hr, h3, h4⟩ := hk
          refine ⟨_, ⟨r, hr, rfl⟩, ?_, ?_⟩ <;> (split <;> simp_all)
    · simp only [HasKey, List.mem_append, List.mem_singleton]
      constructor
      · rintro ⟨r, (hr | rfl), h1, h2⟩
        · exact Or.inl ⟨r, hr, h1, h2⟩
        · exact Or.inr ⟨h1.symm, h2.symm⟩
      · rintro (⟨r, hr, h1, h2⟩ | ⟨h1, h2⟩)
        · exact ⟨r, Or.inl hr, h1, h2⟩
        · exact ⟨_, Or.inr rfl, h1.symm, h2.symm⟩
  | putFinished x h o t => simp [Store.apply, keyAfter, HasKey]
  | delFinished x => simp [Store.apply, keyAfter, HasKey]
  | delScheduled x => simp [Store.apply, keyAfter, HasKey]
  | saveBlob => simp [Store.apply, keyAfter, HasKey]

theorem applyAll_nil (now : Int) (st : Store) : st.applyAll now [] = st := rfl
theorem applyAll_cons (now : Int) (st : Store) (w : Write) (ws : List Write) :
    st.applyAll now (w :: ws) = (st.apply now w).applyAll now ws := rfl
theorem applyAll_append (now : Int) (st : Store) (ws₁ ws₂ : List Write) :
    st.applyAll now (ws₁ ++ ws₂) = (st.applyAll now ws₁).applyAll now ws₂ := by
  simp [Store.applyAll, List.foldl_append]

/-- A key-level invariant `J` is kept by a list of writes each of which keeps it. -/
theorem applyAll_keeps (now : Int) (J : (Nat → Nat → Prop) → Prop) (ok : Write → Prop)
    (hstep : ∀ w had, ok w → J had → J (keyAfter w had))
    (hext : ∀ h₁ h₂ : Nat → Nat → Prop, (∀ s a, h₁ s a ↔ h₂ s a) → J h₁ → J h₂) :
    ∀ (ws : List Write) (st : Store), (∀ w ∈ ws, ok w) → J (HasKey st) → J (HasKey (st.applyAll now ws)) := by
  intro ws
  induction ws with
  | nil => intro st _ h; exact h
  | cons w ws ih =>
    intro st hok h
    rw [applyAll_cons]
    apply ih
    · intro w' hw'; exact hok w' (List.mem_cons_of_mem _ hw')
    · refine hext _ _ (fun s a => (hasKey_apply now st w s a).symm) ?_
      exact hstep w _ (hok w List.mem_cons_self) h

/-- Keys only ever come from the store or from a `putRec` of the list. -/
theorem hasKey_applyAll_origin (now : Int) :
    ∀ (ws : List Write) (st : Store) (s a : Nat), HasKey (st.applyAll now ws) s a →
      HasKey st s a ∨ ∃ i n e, Write.putRec s a i n e ∈ ws := by
  intro ws
  induction ws with
  | nil => intro st s a h; exact Or.inl h
  | cons w ws ih =>
    intro st s a h
    rw [applyAll_cons] at h
    rcases ih _ s a h with h1 | ⟨i, n, e, hm⟩
    · rw [hasKey_apply] at h1
      cases w <;> simp only [keyAfter] at h1
      case putRec x y i n e =>
        rcases h1 with h1 | ⟨rfl, rfl⟩
        · exact Or.inl h1
        · exact Or.inr ⟨i, n, e, List.mem_cons_self⟩
      all_goals first | exact Or.inl h1 | exact Or.inl h1.1
    · exact Or.inr ⟨i, n, e, List.mem_cons_of_mem _ hm⟩

/-- A key that survives a list of writes was not the target of a `delRec` in it, unless put again. -/
theorem hasKey_applyAll_dels (now : Int) :
    ∀ (ws : List Write) (st : Store) (s a : Nat), (∀ w ∈ ws, ∃ s' a', w = .delRec s' a') →
      (HasKey (st.applyAll now ws) s a ↔ HasKey st s a ∧ Write.delRec s a ∉ ws) := by
  intro ws
  induction ws with
  | nil => intro st s a _; simp [applyAll_nil]
  | cons w ws ih =>
    intro st s a hall
    rw [applyAll_cons, ih _ s a (fun w' hw' => hall w' (List.mem_cons_of_mem _ hw')), hasKey_apply]
    obtain ⟨s', a', rfl⟩ := hall w List.mem_cons_self
    simp only [keyAfter, List.mem_cons, not_or]
    constructor
    · rintro ⟨⟨h1, h2⟩, h3⟩
      refine ⟨h1, ?_, h3⟩
      intro e; injection e with e1 e2; exact h2 ⟨e1, e2⟩
    · rintro ⟨h1, h2, h3⟩
      refine ⟨⟨h1, ?_⟩, h3⟩
      rintro ⟨rfl, rfl⟩; exact h2 rfl

/-- A key put by the list and never deleted afterwards is there at the end; here: lists without deletes. -/
theorem hasKey_applyAll_mono (now : Int) :
    ∀ (ws : List Write) (st : Store) (s a : Nat),
      (∀ w ∈ ws, (∀ s' a', w ≠ .delRec s' a') ∧ (∀ s', w ≠ .delNode s')) →
      (HasKey st s a ∨ ∃ i n e, Write.putRec s a i n e ∈ ws) → HasKey (st.applyAll now ws) s a := by
  intro ws
  induction ws with
  | nil =>
    intro st s a _ h
    rcases h with h | ⟨_, _, _, hm⟩
    · exact h
    · cases hm
  | cons w ws ih =>
    intro st s a hall h
    rw [applyAll_cons]
    apply ih _ s a (fun w' hw' => hall w' (List.mem_cons_of_mem _ hw'))
    have hw := hall w List.mem_cons_self
    rcases h with h | ⟨i, n, e, hm⟩
    · left
      rw [hasKey_apply]
      cases w <;> simp only [keyAfter]
      case delRec x y => exact absurd rfl (hw.1 x y)
      case delNode x => exact absurd rfl (hw.2 x)
      case putRec => exact Or.inl h
      all_goals exact h
    · rcases List.mem_cons.mp hm with rfl | hm
      · left; rw [hasKey_apply]; simp [keyAfter]
      · right; exact ⟨i, n, e, hm⟩

/-! ### content of records under writes -/

theorem mem_recs_apply (now : Int) (st : Store) (w : Write) (r : PRec) (hr : r ∈ (st.apply now w).recs) :
    (∃ i n e, w = .putRec r.srv r.app i n e ∧ r.identity = i ∧ r.expires = e) ∨
    (r ∈ st.recs ∧ ∀ i n e, w ≠ .putRec r.srv r.app i n e) := by
  cases w with
  | putRec x y i n e =>
    simp only [Store.apply] at hr
    split at hr
    · simp only [List.mem_map] at hr
      obtain ⟨r0, hr0, rfl⟩ := hr
      by_cases hk : r0.srv = x ∧ r0.app = y
      · left
        refine ⟨i, n, e, ?_, ?_, ?_⟩ <;> simp [hk]
      · right
        simp only [hk, ↓reduceIte]
        refine ⟨hr0, ?_⟩
        intro i' n' e' heq
        injection heq with h1 h2
        exact hk ⟨h1.symm, h2.symm⟩
    · simp only [List.mem_append, List.mem_singleton] at hr
      rcases hr with hr | rfl
      · rename_i hno
        right
        refine ⟨hr, ?_⟩
        intro i' n' e' heq
        injection heq with h1 h2
        apply hno
        exact hasRec_iff.mpr ⟨r, hr, h1.symm, h2.symm⟩
      · left; exact ⟨i, n, e, rfl, rfl, rfl⟩
  | delRec x y =>
    right
    simp only [Store.apply, List.mem_filter] at hr
    exact ⟨hr.1, by intro _ _ _ h; cases h⟩
  | delNode x =>
    right
    simp only [Store.apply, List.mem_filter] at hr
    exact ⟨hr.1, by intro _ _ _ h; cases h⟩
  | mkNode x =>
    right
    simp only [Store.apply] at hr
    split at hr <;> exact ⟨hr, by intro _ _ _ h; cases h⟩
  | putState x d =>
    right
    simp only [Store.apply] at hr
    split at hr <;> exact ⟨hr, by intro _ _ _ h; cases h⟩
  | putFinished x h o t => right; exact ⟨hr, by intro _ _ _ h; cases h⟩
  | delFinished x => right; exact ⟨hr, by intro _ _ _ h; cases h⟩
  | delScheduled x => right; exact ⟨hr, by intro _ _ _ h; cases h⟩
  | saveBlob => right; exact ⟨hr, by intro _ _ _ h; cases h⟩

/-- A record of the final store carries the content of a `putRec` of the list for its key, or it is
    a record of the initial store whose key no `putRec` of the list addresses. -/
theorem content_applyAll (now : Int) :
    ∀ (ws : List Write) (st : Store) (r : PRec), r ∈ (st.applyAll now ws).recs →
      (∃ i n e, Write.putRec r.srv r.app i n e ∈ ws ∧ r.identity = i ∧ r.expires = e) ∨
      (∃ r' ∈ st.recs, r'.srv = r.srv ∧ r'.app = r.app ∧ r'.identity = r.identity ∧ r'.expires = r.expires ∧
        ∀ i n e, Write.putRec r.srv r.app i n e ∉ ws) := by
  intro ws
  induction ws with
  | nil =>
    intro st r hr
    right
    exact ⟨r, hr, rfl, rfl, rfl, rfl, by intro _ _ _ h; cases h⟩
  | cons w ws ih =>
    intro st r hr
    rw [applyAll_cons] at hr
    rcases ih _ r hr with ⟨i, n, e, hm, h1, h2⟩ | ⟨r', hr', k1, k2, k3, k4, hno⟩
    · left; exact ⟨i, n, e, List.mem_cons_of_mem _ hm, h1, h2⟩
    · rcases mem_recs_apply now st w r' hr' with ⟨i, n, e, rfl, h1, h2⟩ | ⟨hin, hne⟩
      · left
        refine ⟨i, n, e, ?_, k3 ▸ h1, k4 ▸ h2⟩
        rw [← k1, ← k2]; exact List.mem_cons_self
      · right
        refine ⟨r', hin, k1, k2, k3, k4, ?_⟩
        intro i n e hm
        rcases List.mem_cons.mp hm with rfl | hm
        · exact hne i n e (by rw [k1, k2])
        · exact hno i n e hm

/-! ### the placement list and the two passes -/

/-- The server the model holds for an instance (`None`: pending or unknown). -/
def srvOf (c : Cell) (aid : Nat) : Option Nat := (c.app? aid).bind (·.server)

theorem placedOn_iff {c : Cell} {aid sid : Nat} : placedOn c aid sid ↔ srvOf c aid = some sid := by
  unfold placedOn srvOf
  cases c.app? aid <;> simp

/-- What a tuple of the placement list is. -/
def PlOk (c c' : Cell) (p : Pl) : Prop :=
  ∃ a a', c.app? p.app = some a ∧ c'.app? p.app = some a' ∧ p.before = a.server ∧ p.expB = a.expiry ∧
    p.after = a'.server ∧ p.expA = a'.expiry

theorem placementList_spec {c c' : Cell} :
    ∀ (order : List Nat) (pl : List Pl), placementList c c' order = .ok pl →
      pl.map (·.app) = order ∧ ∀ p ∈ pl, PlOk c c' p := by
  intro order
  induction order with
  | nil =>
    intro pl h
    simp only [placementList, List.mapM_nil, pure, Except.pure] at h
    injection h with h; subst h; simp
  | cons x xs ih =>
    intro pl h
    simp only [placementList, List.mapM_cons] at h
    obtain ⟨p, hp, h⟩ := bind_ok'.mp h
    obtain ⟨ps, hps, h⟩ := bind_ok'.mp h
    simp only [pure, Except.pure] at h
    injection h with h; subst h
    obtain ⟨a, ha, hp⟩ := bind_ok'.mp hp
    obtain ⟨a', ha', hp⟩ := bind_ok'.mp hp
    simp only [pure, Except.pure] at hp
    injection hp with hp; subst hp
    obtain ⟨e1, e2⟩ := ih ps hps
    refine ⟨by simp [e1], ?_⟩
    intro q hq
    rcases List.mem_cons.mp hq with rfl | hq
    · exact ⟨a, a', orAbort_ok'.mp ha, orAbort_ok'.mp ha', rfl, rfl, rfl, rfl⟩
    · exact e2 q hq

theorem mem_pass1 {ch : List Pl} {w : Write} :
    w ∈ pass1 ch ↔ ∃ p ∈ ch, ∃ b, p.before = some b ∧ p.before ≠ p.after ∧ w = .delRec b p.app := by
  simp only [pass1, List.mem_filterMap]
  constructor
  · rintro ⟨p, hp, h⟩
    refine ⟨p, hp, ?_⟩
    cases hb : p.before with
    | none => simp [hb] at h
    | some b =>
      simp only [hb] at h
      split at h
      · rename_i hne
        injection h with h
        exact ⟨b, rfl, by simpa [hb] using hne, h.symm⟩
      · cases h
  · rintro ⟨p, hp, b, hb, hne, rfl⟩
    refine ⟨p, hp, ?_⟩
    simp only [hb]
    rw [if_pos]
    simpa [hb] using hne

theorem mem_pass2 {c' : Cell} {ch : List Pl} {w : Write} :
    w ∈ pass2 c' ch ↔ ∃ p ∈ ch, ∃ t a, p.after = some t ∧ c'.app? p.app = some a ∧
      w = .putRec t p.app (placementData c' a).1 (placementData c' a).2.1 (placementData c' a).2.2 := by
  simp only [pass2, List.mem_filterMap]
  constructor
  · rintro ⟨p, hp, h⟩
    refine ⟨p, hp, ?_⟩
    cases ht : p.after with
    | none => simp [ht] at h
    | some t =>
      cases ha : c'.app? p.app with
      | none => simp [ht, ha] at h
      | some a =>
        simp only [ht, ha] at h
        injection h with h
        exact ⟨t, a, rfl, rfl, h.symm⟩
  · rintro ⟨p, hp, t, a, ht, ha, rfl⟩
    exact ⟨p, hp, by simp [ht, ha]⟩

theorem pass1_dels (ch : List Pl) : ∀ w ∈ pass1 ch, ∃ s a, w = Write.delRec s a := by
  intro w hw
  obtain ⟨p, _, b, _, _, rfl⟩ := mem_pass1.mp hw
  exact ⟨b, p.app, rfl⟩

theorem mem_unscheduleEvicted {c' : Cell} {w : Write} (h : w ∈ unscheduleEvicted c') :
    (∃ a h' o t, w = .putFinished a h' o t) ∨ (∃ a, w = .delScheduled a) := by
  simp only [unscheduleEvicted, List.mem_flatMap] at h
  obtain ⟨a, _, h⟩ := h
  simp only [List.mem_cons, List.not_mem_nil, or_false] at h
  rcases h with rfl | rfl
  · exact Or.inl ⟨_, _, _, _, rfl⟩
  · exact Or.inr ⟨_, rfl⟩

theorem rescheduleW_spec {c c' : Cell} {order : List Nat} {qs ch} {ws : List Write}
    (h : rescheduleW c order qs ch = .ok (c', ws)) :
    isPerm order (c.apps.map (·.id)) = true ∧ isPerm order (c'.apps.map (·.id)) = true ∧
    ∃ pl, pl.map (·.app) = order ∧ (∀ p ∈ pl, PlOk c c' p) ∧ ws = publication c' pl := by
  unfold rescheduleW at h
  split at h
  · cases h
  · rename_i h1
    obtain ⟨c1, _, h⟩ := bind_ok'.mp h
    split at h
    · cases h
    · rename_i h2
      obtain ⟨pl, hpl, h⟩ := bind_ok'.mp h
      simp only [pure, Except.pure] at h
      injection h with h
      injection h with h3 h4
      subst h3 h4
      obtain ⟨e1, e2⟩ := placementList_spec order pl hpl
      exact ⟨by simpa using h1, by simpa using h2, pl, e1, e2, rfl⟩

theorem app?_some_mem_ids {c : Cell} {aid : Nat} {a : App} (h : c.app? aid = some a) :
    aid ∈ c.apps.map (·.id) := by
  unfold Cell.app? at h
  have hm := List.mem_of_find?_eq_some h
  have hp := List.find?_some h
  simp only [decide_eq_true_eq] at hp
  exact List.mem_map.mpr ⟨a, hm, hp⟩

/-! ### executable checks used by the concrete examples and witnesses -/

/-- every record is a placement of the model (first half of `agreeWhereB`) -/
def recsPlacedB (c : Cell) (st : Store) : Bool :=
  st.recs.all (fun r => match c.app? r.app with
    | some a => a.server == some r.srv
    | none => false)

/-- every placement of the model has its record (second half of `agreeWhereB`) -/
def placedRecordedB (c : Cell) (st : Store) : Bool :=
  c.apps.all (fun a => match a.server with
    | some s => st.hasRec s a.id
    | none => true)

theorem recsPlacedB_sound {c : Cell} {st : Store} (h : recsPlacedB c st = true) :
    ∀ r ∈ st.recs, placedOn c r.app r.srv := by
  intro r hr
  have := List.all_eq_true.mp h r hr
  cases hc : c.app? r.app with
  | none => simp [hc] at this
  | some a => exact ⟨a, hc, by simpa [hc] using this⟩

theorem recsPlacedB_complete {c : Cell} {st : Store} (h : ∀ r ∈ st.recs, placedOn c r.app r.srv) :
    recsPlacedB c st = true := by
  apply List.all_eq_true.mpr
  intro r hr
  obtain ⟨a, ha, hs⟩ := h r hr
  simp [ha, hs]

theorem agreeWhere_of_B {c : Cell} {st : Store} (h1 : recsPlacedB c st = true) (h2 : placedRecordedB c st = true) :
    AgreeWhere c st := by
  intro srv app
  constructor
  · rintro ⟨r, hr, rfl, rfl⟩
    exact recsPlacedB_sound h1 r hr
  · rintro ⟨a, ha, hs⟩
    have hm : a ∈ c.apps := List.mem_of_find?_eq_some ha
    have hid : a.id = app := by
      have := List.find?_some ha
      simpa using this
    have := List.all_eq_true.mp h2 a hm
    simp only [hs] at this
    rw [hid] at this
    exact hasRec_iff.mp this

theorem agreeWhere_recsPlacedB {c : Cell} {st : Store} (h : AgreeWhere c st) : recsPlacedB c st = true :=
  recsPlacedB_complete (fun r hr => (h r.srv r.app).mp ⟨r, hr, rfl, rfl⟩)

theorem agreeWhatB_iff {c : Cell} {st : Store} : agreeWhatB c st = true ↔ AgreeWhat c st := by
  unfold agreeWhatB AgreeWhat
  rw [List.all_eq_true]
  constructor
  · intro h r hr a ha
    have := h r hr
    simpa [ha] using this
  · intro h r hr
    cases hc : c.app? r.app with
    | none => rfl
    | some a => simpa using h r hr a hc

theorem noDoubleB_iff {st : Store} : noDoubleB st = true ↔ NoDouble st := by
  unfold noDoubleB NoDouble
  simp only [List.all_eq_true, Bool.or_eq_true, bne_iff_ne, ne_eq, beq_iff_eq]
  constructor
  · intro h r₁ h₁ r₂ h₂ e
    rcases h r₁ h₁ r₂ h₂ with h' | h'
    · exact absurd e h'
    · exact h'
  · intro h r₁ h₁ r₂ h₂
    by_cases e : r₁.app = r₂.app
    · exact Or.inr (h r₁ h₁ r₂ h₂ e)
    · exact Or.inl e

/-- the value of a completed computation (examples only) -/
def getOk {α} [Inhabited α] : M α → α
  | .ok a => a
  | .error _ => default

def isOkB {α} : M α → Bool
  | .ok _ => true
  | .error _ => false

theorem eq_ok_getOk {α} [Inhabited α] {m : M α} (h : isOkB m = true) : m = .ok (getOk m) := by
  cases m with
  | ok a => rfl
  | error e => cases h

theorem eq_ok_pair {α β} [Inhabited α] [Inhabited β] {m : M (α × β)} (h : isOkB m = true) :
    m = .ok ((getOk m).1, (getOk m).2) := by
  cases m with
  | ok a => rfl
  | error e => cases h

theorem eq_ok_triple {α β γ} [Inhabited α] [Inhabited β] [Inhabited γ] {m : M (α × β × γ)} (h : isOkB m = true) :
    m = .ok ((getOk m).1, (getOk m).2.1, (getOk m).2.2) := by
  cases m with
  | ok a => rfl
  | error e => cases h

theorem srv?_some_mem_ids {c : Cell} {sid : Nat} {s : Srv} (h : c.srv? sid = some s) :
    sid ∈ c.srvs.map (·.id) := by
  unfold Cell.srv? at h
  have hm := List.mem_of_find?_eq_some h
  have hp := List.find?_some h
  simp only [decide_eq_true_eq] at hp
  exact List.mem_map.mpr ⟨s, hm, hp⟩

end TmVerif.Master
