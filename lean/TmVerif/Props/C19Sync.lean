/-
  C19 (cellsync layer) — what the reservation API accepted reaches the scheduler unchanged.

  `treadmill/cellsync.py` carries LDAP (partitions with limits and reboot schedules, the cell's
  reservations with their assignments) into ZooKeeper (`/partitions/<name>`, `/allocations`).
  Model: TmVerif/Reserve/CellSync.lean; helper lemmas: TmVerif/Reserve/CellSyncLemmas.lean.
  Property theorems only; all of them hold for every directory content, entity list and string.
-/
import TmVerif.Reserve.CellSyncLemmas
import TmVerif.Base.ListX

namespace TmVerif.CellSync

/-! ### generic core -/

theorem syncCore_get (inZk : Dir) (es : List (Str × Str)) (n : Str) :
    Dir.get (syncCore inZk es).2 n = lastGet es n := by
  simp only [syncCore, get_putAll]
  cases hl : lastGet es n with
  | some x => rfl
  | none =>
    simp only [get_delAll, mem_extras]
    by_cases hin : n ∈ inZk.names
    · have : n ∉ es.map (·.1) := by
        intro hm
        -- a name among the entries has a last entry
        have : ∀ (l : List (Str × Str)), n ∈ l.map (·.1) → lastGet l n ≠ none := by
          intro l
          induction l with
          | nil => intro h; cases h
          | cons e t ih =>
            obtain ⟨k, v⟩ := e
            intro h
            simp only [List.map_cons, List.mem_cons] at h
            simp only [lastGet]
            cases hlt : lastGet t n with
            | some x => simp
            | none =>
              rcases h with h | h
              · simp [h]
              · exact absurd hlt (ih h)
        exact this es hm hl
      simp [hin, this]
    · simp [hin, get_none_of_not_mem hin]

theorem syncDir_get (zk : Option Dir) (es : List (Str × Str)) (n : Str) :
    Dir.get (syncDir zk es).2 n = lastGet es n := by
  cases zk <;> exact syncCore_get _ es n

theorem syncCore_nodup (inZk : Dir) (es : List (Str × Str)) (h : inZk.names.Nodup) :
    (syncCore inZk es).2.names.Nodup :=
  nodup_putAll es _ (nodup_delAll _ inZk h)

/-- `zk` as a directory content (a missing directory has no children). -/
def dirOf : Option Dir → Dir
  | none => []
  | some d => d

def mkdirIf : Option Dir → List Write
  | none => [.mkdir]
  | some _ => []

theorem syncDir_writes (zk : Option Dir) (es : List (Str × Str)) (hnd : (es.map (·.1)).Nodup) :
    (syncDir zk es).1 = mkdirIf zk ++ (extras (dirOf zk) (es.map (·.1))).map .del ++
      es.filterMap (fun e => writeFor (Dir.get (dirOf zk) e.1) e.1 e.2) := by
  have core : ∀ d : Dir, (syncCore d es).1 = (extras d (es.map (·.1))).map .del ++
      es.filterMap (fun e => writeFor (Dir.get d e.1) e.1 e.2) := by
    intro d
    simp only [syncCore, putAll_writes es hnd]
    congr 1
    apply filterMap_congr'
    intro e he
    have hk : e.1 ∈ es.map (·.1) := List.mem_map_of_mem he
    have : e.1 ∉ extras d (es.map (·.1)) := by rw [mem_extras]; exact fun h => h.2 hk
    rw [get_delAll, if_neg this]
  cases zk with
  | none => simp [syncDir, core, mkdirIf, dirOf]
  | some d => simp [syncDir, core, mkdirIf, dirOf]

theorem syncDir_idem (zk : Option Dir) (es : List (Str × Str)) (hnd : (es.map (·.1)).Nodup) :
    syncDir (some (syncDir zk es).2) es = ([], (syncDir zk es).2) := by
  have hget := syncDir_get zk es
  generalize (syncDir zk es).2 = d at hget
  have hx : extras d (es.map (·.1)) = [] := by
    apply List.eq_nil_iff_forall_not_mem.mpr
    intro n hn
    rw [mem_extras, mem_names_iff, hget] at hn
    cases hl : lastGet es n with
    | none => rw [hl] at hn; simp at hn
    | some x => exact hn.2 (lastGet_isSome_mem hl)
  have hp : putAll es d = ([], d) := by
    apply putAll_noop
    intro n p hm
    rw [hget, lastGet_of_mem hnd hm]
  simp [syncDir, syncCore, hx, delAll, hp]

/-! ### C19_sync_exact -/

/-- **Exactness (`_sync_collection`).** Whatever the directory held before (or if it did not
    exist), afterwards it holds, under each name, the payload of the last entity with that `_id`
    that `match` accepts — and no node under any other name. -/
theorem C19_sync_exact (zk : Option Dir) (ents : List Entity) (n : Str) :
    Dir.get (syncCollection zk ents).2 n = lastGet (matchedEntries ents) n := by
  rw [syncCollection, syncDir_get, ← toSync_get, get_eq_lastGet _ (toSync_nodup ents)]

/-- **Exactness (`sync_partitions`).** Afterwards `/partitions` holds, under each partition name,
    the serialised partition (schedule converted) of the last LDAP partition of that name, and
    nothing under any other name. -/
theorem C19_sync_exact_partitions (zk : Option Dir) (parts : List Partition) (n : Str) :
    Dir.get (syncPartitions zk parts).2 n = lastGet (parts.map partEntry) n := by
  rw [syncPartitions, syncDir_get]

/-- One node per name: child names stay distinct (so `Dir.get` describes the whole directory). -/
theorem C19_sync_nodup (zk : Option Dir) (h : (dirOf zk).names.Nodup) (ents : List Entity)
    (parts : List Partition) :
    (syncCollection zk ents).2.names.Nodup ∧ (syncPartitions zk parts).2.names.Nodup := by
  cases zk with
  | none => exact ⟨syncCore_nodup [] _ List.nodup_nil, syncCore_nodup [] _ List.nodup_nil⟩
  | some d => exact ⟨syncCore_nodup d _ h, syncCore_nodup d _ h⟩

/-- non-vacuity: a stale node is overwritten, an extra one deleted, a missing one created. -/
example :
    let e (i : String) (m : Bool) : Entity := ⟨i.toList, m, [("k".toList, "1".toList)]⟩
    let r := syncCollection (some [("old".toList, "x".toList), ("a".toList, "stale".toList)])
      [e "a" true, e "b" true, e "c" false]
    r.2 = [("a".toList, "{\"k\": 1}".toList), ("b".toList, "{\"k\": 1}".toList)] ∧
    r.1 = [.del "old".toList, .set "a".toList "{\"k\": 1}".toList, .create "b".toList "{\"k\": 1}".toList] := by
  decide

/-! ### C19_sync_idempotent -/

/-- **Idempotence (`_sync_collection`).** A second run over the same entities writes nothing. -/
theorem C19_sync_idempotent (zk : Option Dir) (ents : List Entity) :
    syncCollection (some (syncCollection zk ents).2) ents = ([], (syncCollection zk ents).2) :=
  syncDir_idem zk _ (toSync_nodup ents)

/-- **Idempotence (`sync_partitions`)**, `_partial`: proved for LDAP lists with distinct partition
    ids (what an LDAP subtree search returns: the id is the entry's RDN).  The loop puts every list
    element, so a list that repeats an id with different attributes rewrites the node on every run
    (witness below). -/
theorem C19_sync_idempotent_partitions_partial (zk : Option Dir) (parts : List Partition)
    (hnd : (parts.map (·.id)).Nodup) :
    syncPartitions (some (syncPartitions zk parts).2) parts = ([], (syncPartitions zk parts).2) := by
  apply syncDir_idem
  simpa [partEntry, List.map_map, Function.comp_def] using hnd

/-- non-vacuity of the hypothesis, and the witness that it is needed. -/
example :
    let p (c : String) : Partition := ⟨"p1".toList, none, [("cpu".toList, c.toList)]⟩
    ((([p "1"] : List Partition).map (·.id)).Nodup) ∧
    (syncPartitions (some (syncPartitions none [p "1", p "2"]).2) [p "1", p "2"]).1 ≠ [] := by
  decide

/-! ### C19_sync_minimal -/

/-- **Minimality (`_sync_collection`)** — what `check_content=True` is for.  The writes of a run
    are exactly: (the directory itself if it was missing,) one delete per child whose name no accepted
    entity has, and per accepted name, in dict order, a create if there was no such node, a set if
    its bytes differ from the serialised entity — and nothing for a node that is up to date. -/
theorem C19_sync_minimal (zk : Option Dir) (ents : List Entity) :
    (syncCollection zk ents).1 =
      mkdirIf zk ++ (extras (dirOf zk) ((toSync ents).map (·.1))).map .del ++
      (toSync ents).filterMap (fun e => writeFor (Dir.get (dirOf zk) e.1) e.1 e.2) :=
  syncDir_writes zk _ (toSync_nodup ents)

/-- **Minimality (`sync_partitions`)**, `_partial`: for distinct partition ids (see above; with a
    repeated id the second put compares with what the first one wrote). -/
theorem C19_sync_minimal_partitions_partial (zk : Option Dir) (parts : List Partition)
    (hnd : (parts.map (·.id)).Nodup) :
    (syncPartitions zk parts).1 =
      mkdirIf zk ++ (extras (dirOf zk) (parts.map (·.id))).map .del ++
      parts.filterMap (fun p => writeFor (Dir.get (dirOf zk) p.id) p.id (partEntry p).2) := by
  have h : ((parts.map partEntry).map (·.1)).Nodup := by
    simpa [partEntry, List.map_map, Function.comp_def] using hnd
  rw [syncPartitions, syncDir_writes _ _ h]
  simp [List.map_map, Function.comp_def, partEntry, List.filterMap_map]

/-- a node whose content already equals the entity is not written; any other one is. -/
theorem C19_sync_minimal_node (cur : Option Str) (n p : Str) :
    (writeFor cur n p = none ↔ cur = some p) := by
  unfold writeFor
  cases cur with
  | none => simp
  | some c => by_cases h : c = p <;> simp [h]

example : writeFor (some "a".toList) "n".toList "a".toList = none ∧
    writeFor (some "b".toList) "n".toList "a".toList = some (.set "n".toList "a".toList) ∧
    writeFor none "n".toList "a".toList = some (.create "n".toList "a".toList) := by decide

/-! ### C19_sync_allocations -/

theorem takeWhile_holds {α} (p : α → Bool) : ∀ (l : List α) (x : α), x ∈ l.takeWhile p → p x = true
  | [], _, h => by cases h
  | a :: t, x, h => by
    rw [List.takeWhile_cons] at h
    by_cases ha : p a = true
    · simp only [ha, if_true, List.mem_cons] at h
      rcases h with h | h
      · exact h ▸ ha
      · exact takeWhile_holds p t x h
    · simp [ha] at h

theorem dropWhile_nil_holds {α} (p : α → Bool) : ∀ (l : List α), l.dropWhile p = [] → ∀ x ∈ l, p x = true
  | [], _, _, h => by cases h
  | a :: t, hd, x, h => by
    rw [List.dropWhile_cons] at hd
    by_cases ha : p a = true
    · simp only [ha, if_true] at hd
      rcases List.mem_cons.mp h with h | h
      · exact h ▸ ha
      · exact dropWhile_nil_holds p t hd x h
    · simp [ha] at hd

theorem rsplit1_spec {s pre suf : Str} (h : rsplit1 s = some (pre, suf)) :
    s = pre ++ '/' :: suf ∧ '/' ∉ suf := by
  unfold rsplit1 at h
  simp only at h
  have hsplit := List.takeWhile_append_dropWhile (p := (· ≠ '/')) (l := s.reverse)
  cases hd : List.dropWhile (· ≠ '/') s.reverse with
  | nil => rw [hd] at h; cases h
  | cons c rest =>
    rw [hd] at h hsplit
    simp only [Option.some.injEq, Prod.mk.injEq] at h
    have hc : c = '/' := by
      have := List.head_dropWhile_not (p := (· ≠ '/')) (l := s.reverse) (by rw [hd]; simp)
      simp only [hd, List.head_cons] at this
      simpa using this
    subst hc
    obtain ⟨h1, h2⟩ := h
    constructor
    · have : s = (List.takeWhile (· ≠ '/') s.reverse ++ '/' :: rest).reverse := by
        rw [hsplit, List.reverse_reverse]
      rw [this, List.reverse_append, List.reverse_cons, h2, h1]
      simp
    · rw [← h2]
      intro hm
      have := takeWhile_holds _ _ _ (List.mem_reverse.mp hm)
      simp at this

/-- what one reservation becomes: its own attributes, plus `name` = the id without the cell suffix,
    and of its assignments only the well-formed ones. -/
def AllocOut (a : Alloc) (o : Dict) : Prop :=
  ∃ name cell, a.id = name ++ '/' :: cell ∧ '/' ∉ cell ∧
    o = (let d := dictSet (dictSet a.fields kId (jsonStr a.id)) kName (jsonStr name)
         match a.asg with
         | .absent => d
         | .null => dictSet d kAssignments "null".toList
         | .list l => dictSet d kAssignments (renderList ((l.filter wfAsg).map renderDict)))

theorem mapM_outAlloc {allocs : List Alloc} {outs : List Dict} (h : allocs.mapM outAlloc = some outs) :
    Forall2 AllocOut allocs outs := by
  induction allocs generalizing outs with
  | nil => simp at h; subst h; exact .nil
  | cons a t ih =>
    rw [List.mapM_cons] at h
    cases ha : outAlloc a with
    | none => simp [ha] at h
    | some o =>
      cases ht : t.mapM outAlloc with
      | none => simp [ha, ht] at h
      | some os =>
        simp [ha, ht] at h
        subst h
        refine .cons ?_ (ih ht)
        unfold outAlloc at ha
        cases hr : rsplit1 a.id with
        | none => simp [hr] at ha
        | some pr =>
          obtain ⟨name, cell⟩ := pr
          obtain ⟨h1, h2⟩ := rsplit1_spec hr
          simp only [hr, Option.some.injEq] at ha
          exact ⟨name, cell, h1, h2, ha.symm⟩

/-- **Allocations.** When `sync_allocations` completes, `/allocations` holds the list — in LDAP
    order, one element per reservation of the cell and no other — of each reservation's attributes
    (cpu, memory, disk, partition, traits, rank ... exactly the fragments LDAP returned) with `name` set
    to the id without the `/cell` suffix and the assignments lacking `pattern` or `priority` removed;
    and an `allocations` event is queued for the scheduler exactly when the bytes changed. -/
theorem C19_sync_allocations (zk zk' : AllocZk) (allocs : List Alloc) (ws : List Write)
    (h : syncAllocations zk allocs = some (ws, zk')) :
    ∃ outs, Forall2 AllocOut allocs outs ∧ zk'.node = some (allocPayload outs) ∧
      zk'.events = zk.events ++ (if zk.node = some (allocPayload outs) then [] else [eventName zk.seq]) ∧
      (ws = [] ↔ zk.node = some (allocPayload outs)) := by
  unfold syncAllocations at h
  cases hm : allocs.mapM outAlloc with
  | none => simp [hm] at h
  | some outs =>
    simp only [hm, Option.map_some, Option.some.injEq] at h
    refine ⟨outs, mapM_outAlloc hm, ?_⟩
    unfold updateAllocations at h
    cases hn : zk.node with
    | none =>
      simp only [hn] at h
      cases h
      simp [postEvent]
    | some c =>
      simp only [hn] at h
      by_cases hc : c = allocPayload outs
      · simp only [hc, if_true] at h
        cases h
        simp [hn, hc]
      · simp only [if_neg hc] at h
        cases h
        simp [postEvent, hc]

/-- `sync_allocations` completes whenever every id has the API's form `<allocation>/<cell>`;
    otherwise it raises ValueError before anything is written. -/
theorem C19_sync_allocations_total (zk : AllocZk) (allocs : List Alloc) :
    (syncAllocations zk allocs).isSome = true ↔ ∀ a ∈ allocs, '/' ∈ a.id := by
  have hone : ∀ a : Alloc, (outAlloc a).isSome = true ↔ '/' ∈ a.id := by
    intro a
    unfold outAlloc
    cases hr : rsplit1 a.id with
    | none =>
      simp only [Option.isSome_none, Bool.false_eq_true, false_iff]
      unfold rsplit1 at hr
      simp only at hr
      cases hd : List.dropWhile (· ≠ '/') a.id.reverse with
      | nil =>
        intro hm
        have := dropWhile_nil_holds _ _ hd '/' (List.mem_reverse.mpr hm)
        simp at this
      | cons c r => rw [hd] at hr; cases hr
    | some pr =>
      obtain ⟨name, cell⟩ := pr
      have := (rsplit1_spec hr).1
      simp [this]
  unfold syncAllocations
  rw [Option.isSome_map]
  induction allocs with
  | nil => simp
  | cons a t ih =>
    rw [List.mapM_cons]
    cases ha : outAlloc a with
    | none =>
      have : '/' ∉ a.id := fun hm => by have := (hone a).mpr hm; simp [ha] at this
      simp [this]
    | some o =>
      have h1 := (hone a).mp (by simp [ha])
      cases ht : t.mapM outAlloc with
      | none =>
        simp only [ht, Option.isSome_none, Bool.false_eq_true, false_iff] at ih
        simp only [Option.bind_eq_bind, Option.bind_some, Option.bind_none, Option.isSome_none,
          Bool.false_eq_true, List.mem_cons, forall_eq_or_imp, false_iff, not_and]
        exact fun _ => ih
      | some os =>
        simp only [ht, Option.isSome_some, true_iff] at ih
        simp only [Option.bind_eq_bind, Option.bind_some, List.mem_cons, forall_eq_or_imp]
        exact ⟨fun _ => ⟨h1, ih⟩, fun _ => rfl⟩

/-- non-vacuity: a nested tenant id, one malformed assignment dropped, an event queued. -/
example :
    let a : Alloc := ⟨"t1:t2/c1".toList,
      .list [[("pattern".toList, "\"foo.*\"".toList), ("priority".toList, "1".toList)],
             [("pattern".toList, "\"bar.*\"".toList)]],
      [("cpu".toList, "\"10%\"".toList)]⟩
    syncAllocations ⟨none, [], 3⟩ [a] = some
      ([.create [] ("[{\"_id\": \"t1:t2/c1\", \"assignments\": [{\"pattern\": \"foo.*\", \"priority\": 1}], " ++
          "\"cpu\": \"10%\", \"name\": \"t1:t2\"}]").toList, .event "000-allocations-0000000003".toList],
       ⟨some ("[{\"_id\": \"t1:t2/c1\", \"assignments\": [{\"pattern\": \"foo.*\", \"priority\": 1}], " ++
          "\"cpu\": \"10%\", \"name\": \"t1:t2\"}]").toList, ["000-allocations-0000000003".toList], 4⟩) := by
  decide +kernel

/-! ### `sync_servers`, `sync_traits` -/

/-- `/globals/servers` afterwards holds the JSON list of the LDAP server ids, in LDAP order,
    whatever it held before (`ensure_exists` has no content check: the node is always written). -/
theorem C19_sync_servers (node : Option Str) (ids : List Str) :
    (syncServers node ids).2 = some (renderList (ids.map jsonStr)) ∧ (syncServers node ids).1 ≠ [] := by
  cases node <;> simp [syncServers, ensureExists, payloadOf]

/-- `/traits` afterwards holds the cell's `traits` value — except that a `None` value leaves an
    existing node as it is (`ensure_exists`: "if data not provided, we keep original data"). -/
theorem C19_sync_traits (node : Option Str) (data : Data) :
    (syncTraits node data).2 =
      match node, data with
      | some c, .none => some c
      | _, _ => some (payloadOf data) := by
  cases node <;> cases data <;> rfl

example : syncServers (some "old".toList) ["s1".toList, "s\"2".toList] =
    ([.set [] "[\"s1\", \"s\\\"2\"]".toList], some "[\"s1\", \"s\\\"2\"]".toList) ∧
    syncTraits (some "kept".toList) .none = ([], some "kept".toList) := by decide

end TmVerif.CellSync
