/-
  Property theorems about the loader's decode step (model: TmVerif/Master/LoaderDecode.lean, lemmas:
  TmVerif/Master/LoaderDecodeLemmas.lean, TmVerif/Units/Lemmas.lean): what the quantities the scheduler
  theorems reason about MEAN in terms of the stored records.  Each is listed under the property whose
  statement uses the quantity.
-/
import TmVerif.Master.LoaderDecodeLemmas

namespace TmVerif.LoaderDecode
open TmVerif.Units

/-- **C04 (levels).**  The level at which an affinity limit applies to a bucket is the bucket's stored
    level, or — when none is stored — the part of its name before the FIRST colon. -/
theorem C04_bucket_level (lvl rest l : List Char) (name : List Char) (h : ':' ∉ lvl) :
    bucketLevel (lvl ++ ':' :: rest) none = lvl ∧ bucketLevel name (some l) = l :=
  ⟨bucketLevel_first_colon lvl rest h, rfl⟩

/-- **C05 (group sizes).**  After `load_identity_groups` every stored group with data has been
    configured with exactly its stored count (zero included, default zero), and exactly the groups no
    longer stored have been removed. -/
theorem C05_group_counts (existing : List Nat) (stored : List (Nat × Option (Option Nat))) :
    (∀ g n, (g, n) ∈ (groupPlan existing stored).2 ↔
        ((g, some (some n)) ∈ stored ∨ (n = 0 ∧ (g, some none) ∈ stored))) ∧
    (∀ g, g ∈ (groupPlan existing stored).1 ↔ (g ∈ existing ∧ ∀ s ∈ stored, s.1 ≠ g)) :=
  groupPlan_spec existing stored

/-- **C06 (priority).**  An instance's own priority — 0 included — overrides the assignment's; only an
    absent priority or `-1` falls back to it. -/
theorem C06_priority (assigned : Int) (m : Option Int) :
    appPriority assigned m = (match m with | some p => if p = -1 then assigned else p | none => assigned) ∧
    appPriority assigned (some 0) = 0 :=
  ⟨appPriority_spec assigned m, appPriority_zero assigned⟩

/-- **C07 (lease) / C08 (retention): durations mean seconds in every unit.**  For every natural `n`
    (within the interpreter's digit limit): `n s`, `n m`, `n h`, `n d` are `n`, `60 n`, `3600 n`,
    `86400 n` seconds, as a lease and as a data-retention timeout; no lease is 0 s, no retention is none. -/
theorem C07_C08_durations (n : Nat) (hlim : WithinLimit (Nat.toDigits 10 n).length) :
    (appLease (some (Nat.toDigits 10 n ++ ['s'])) = .ok (n : Int) ∧
     appLease (some (Nat.toDigits 10 n ++ ['m'])) = .ok ((n : Int) * 60) ∧
     appLease (some (Nat.toDigits 10 n ++ ['h'])) = .ok ((n : Int) * 3600) ∧
     appLease (some (Nat.toDigits 10 n ++ ['d'])) = .ok ((n : Int) * 86400)) ∧
    (appRetention (some (Nat.toDigits 10 n ++ ['s'])) = .ok (some (n : Int)) ∧
     appRetention (some (Nat.toDigits 10 n ++ ['m'])) = .ok (some ((n : Int) * 60)) ∧
     appRetention (some (Nat.toDigits 10 n ++ ['h'])) = .ok (some ((n : Int) * 3600)) ∧
     appRetention (some (Nat.toDigits 10 n ++ ['d'])) = .ok (some ((n : Int) * 86400)) ∧
     appRetention none = .ok none) ∧
    appLease none = .ok 0 :=
  ⟨appLease_nat n hlim, appRetention_nat n hlim, appLease_default⟩

/-- Case and surrounding blanks of the spelling do not matter. -/
theorem C07_C08_duration_spelling (s t : List Char) (h : norm s = norm t) :
    appLease (some s) = appLease (some t) ∧ appRetention (some s) = appRetention (some t) := by
  simp only [appLease, appRetention, Option.getD_some, toSeconds_of_norm_eq s t h, and_self]

/-- **C01 / C03 (a reloaded server is what its record says).**  After `reload_server` the master's
    server has the record's declared capacity, partition, traits and parent — the old object is kept
    only when all four agree — and a server without record is not loaded. -/
theorem C01_C03_reload (cur rec : Option SrvAttrs) :
    reloadResult cur rec = rec ∧
    ∀ c r, cur = some c → rec = some r →
      (reloadDecision cur rec = .same ↔
        (c.cap = r.cap ∧ c.label = r.label ∧ c.traits = r.traits ∧ c.parent = r.parent)) := by
  refine ⟨reloadResult_eq cur rec, ?_⟩
  rintro c r rfl rfl
  exact reloadDecision_same c r

/-- **C03 / C08 (a rebuilt server gets its state back; a replaced server gets its instances back).**
    Whenever `reload_server` builds a server object from a record (new, or replacing a changed one) the
    state adjustment runs for it — it does not stay at the constructor's `up` —, and whenever it replaces a
    server that held instances their recorded placements are restored. -/
theorem C03_C08_reload_effects (c r : SrvAttrs) (hne : c ≠ r) (hadApps : Bool) :
    reloadAdjusts (some c) (some r) true = true ∧ reloadAdjusts none (some r) true = true ∧
    reloadRestores (some c) (some r) hadApps = hadApps ∧ reloadAdjusts (some c) (some c) true = false := by
  simp [reloadAdjusts, reloadRestores, reloadDecision, hne]

/-- **C06 (an allocation has the attributes of its own record).**  After `load_allocations` the rank, the
    utilisation cap and the reservation of an allocation are those of the LAST record that names it; records naming
    other allocations - its children included - do not touch it. -/
theorem C06_alloc_own_record (pre post : List AllocRec) (r : AllocRec) (a : AllocAttrs)
    (hpost : ∀ x ∈ post, x.name ≠ r.name) :
    ((allocAfter (pre ++ r :: post) r.name a).rank = r.rank ∧
     (allocAfter (pre ++ r :: post) r.name a).maxUtil = r.maxUtil ∧
     (allocAfter (pre ++ r :: post) r.name a).reserved = r.reserved) ∧
    ∀ other, (∀ x ∈ pre ++ r :: post, x.name ≠ other) → allocAfter (pre ++ r :: post) other a = a :=
  ⟨allocAfter_last pre post r a hpost, fun other h => allocAfter_untouched _ other a h⟩

/-! ### Non-vacuity -/
example : reloadDecision (some ⟨(8, 4, 2), 0, 3, 7⟩) (some ⟨(8, 4, 2), 0, 1, 7⟩) = .replaced ∧
    reloadDecision (some ⟨(8, 4, 2), 0, 3, 7⟩) (some ⟨(8, 4, 2), 0, 3, 7⟩) = .same ∧
    reloadDecision (some ⟨(8, 4, 2), 0, 3, 7⟩) none = .removed := by decide
example : appLease (some "19d".toList) = .ok 1641600 ∧ appRetention (some " 1M\n".toList) = .ok (some 60) ∧
    appRetention (some "30x".toList) = .error .exception ∧ appLease (some "".toList) = .error .indexError := by
  decide +kernel
example : bucketLevel "rack:ny:2".toList none = "rack".toList ∧ bucketLevel "pod7".toList none = "pod7".toList := by
  decide
example : groupPlan [1, 2, 3] [(1, some (some 0)), (3, none), (4, some none)] = ([2], [(1, 0), (4, 0)]) := by decide
example : WithinLimit (Nat.toDigits 10 86400).length := by decide

end TmVerif.LoaderDecode
