/-
  C09 — "The published placement equals the scheduler's model after every cycle."
  Property theorems only.  Model: TmVerif/Master/Model.lean; lemmas: TmVerif/Master/Lemmas.lean,
  the after-pass invariants of Props/C10.lean.
-/
import TmVerif.Props.C10
import TmVerif.Props.C11
import TmVerif.Master.InitLemmas

namespace TmVerif.Master
open TmVerif.Sched

/-- **C09, existence.**  If the records agree with the model before a cycle (a record under `srv`
    for `app` iff the model places `app` on `srv`), they agree with the model after
    `Master.reschedule` has published the cycle's result: exactly one entry for every placed
    instance, under the server the model placed it on, and none for an instance that is pending or
    no longer scheduled.  For every queue, identity choice and placement-list order; the cycle
    itself (`Sched.schedule`) is arbitrary. -/
theorem C09_cycle_where (c c' : Cell) (st : Store) (order : List Nat) (qs : List (List (Nat × Bool)))
    (ch : List Nat) (ws : List Write) (now : Int)
    (hpre : AgreeWhere c st) (h : rescheduleW c order qs ch = .ok (c', ws)) :
    AgreeWhere c' (st.applyAll now ws) := by
  obtain ⟨hperm, hperm', pl, hord, hpl, rfl⟩ := rescheduleW_spec h
  have hpre' : ∀ s a, HasKey st s a → srvOf c a = some s := by
    intro s a hk
    exact placedOn_iff.mp ((hpre s a).mp hk)
  have hcover : ∀ a, (c.app? a).isSome → a ∈ pl.map (·.app) := by
    intro a ha
    rw [hord, isPerm_mem hperm]
    cases hc : c.app? a with
    | none => simp [hc] at ha
    | some x => exact app?_some_mem_ids hc
  have hpub : publication c' pl =
      pass1 (changed pl) ++ (pass2 c' (changed pl) ++ unscheduleEvicted c' ++ [Write.saveBlob]) := by
    simp [publication, List.append_assoc]
  intro srv app
  change HasKey _ srv app ↔ _
  rw [placedOn_iff, hpub, applyAll_append]
  constructor
  · -- a record at the end is a placement of the new model
    intro hk
    exact after_keeps now c' _ _ (pass2_okAfter hpl)
      (pass1_complete_after now c c' st pl hpl hcover hpre') srv app hk
  · -- a placement of the new model has its record
    intro hs
    have hnodel : ∀ w ∈ pass2 c' (changed pl) ++ unscheduleEvicted c' ++ [Write.saveBlob],
        (∀ s' a', w ≠ .delRec s' a') ∧ (∀ s', w ≠ .delNode s') := by
      intro w hw
      simp only [List.mem_append, List.mem_singleton] at hw
      rcases hw with (hw | hw) | rfl
      · obtain ⟨p, _, t, a, _, _, rfl⟩ := mem_pass2.mp hw
        exact ⟨fun _ _ e => (nomatch e), fun _ e => (nomatch e)⟩
      · rcases mem_unscheduleEvicted hw with ⟨_, _, _, _, rfl⟩ | ⟨_, rfl⟩ <;>
          exact ⟨fun _ _ e => (nomatch e), fun _ e => (nomatch e)⟩
      · exact ⟨fun _ _ e => (nomatch e), fun _ e => (nomatch e)⟩
    apply hasKey_applyAll_mono now _ _ srv app hnodel
    -- the instance is in the placement list
    have hsome' : ∃ a', c'.app? app = some a' ∧ a'.server = some srv := by
      unfold srvOf at hs
      cases hc : c'.app? app with
      | none => simp [hc] at hs
      | some a' => exact ⟨a', rfl, by simpa [hc] using hs⟩
    obtain ⟨a', ha', hsrv⟩ := hsome'
    have hin : app ∈ pl.map (·.app) := by
      rw [hord, isPerm_mem hperm']; exact app?_some_mem_ids ha'
    obtain ⟨p, hp, rfl⟩ := List.mem_map.mp hin
    obtain ⟨x, x', hx, hx', e1, e2, e3, e4⟩ := hpl p hp
    have hxa : x' = a' := by rw [hx'] at ha'; exact Option.some.inj ha'
    subst hxa
    by_cases hch : p ∈ changed pl
    · -- republished by the second pass
      right
      refine ⟨_, _, _, List.mem_append_left _ (List.mem_append_left _ (mem_pass2.mpr ⟨p, hch, srv, x', ?_, hx', rfl⟩))⟩
      rw [e3, hsrv]
    · -- untouched: it was there before and the first pass did not delete it
      left
      have hsame : p.before = p.after := by
        simp only [changed, List.mem_filter, not_and] at hch
        have := hch hp
        simp only [Bool.or_eq_true, bne_iff_ne, ne_eq, not_or, Decidable.not_not] at this
        exact this.1
      have hbefore : srvOf c p.app = some srv := by
        unfold srvOf; simp only [hx, Option.bind_some]; rw [← e1, hsame, e3, hsrv]
      have h0 : HasKey st srv p.app := (hpre srv p.app).mpr (placedOn_iff.mpr hbefore)
      refine (hasKey_applyAll_dels now _ st srv p.app (pass1_dels _)).mpr ⟨h0, ?_⟩
      intro hdel
      obtain ⟨q, hq, b, hb, hne, heq⟩ := mem_pass1.mp hdel
      injection heq with k1 k2
      -- q is the tuple of the same instance: then before = after, contradiction
      have hq' : q ∈ pl := (List.mem_filter.mp hq).1
      obtain ⟨y, y', hy, hy', f1, _, f3, _⟩ := hpl q hq'
      rw [← k2, hx] at hy
      rw [← k2, hx'] at hy'
      have : y = x := (Option.some.inj hy).symm
      have : y' = x' := (Option.some.inj hy').symm
      subst_vars
      apply hne
      rw [f1, f3, ← e1, ← e3, hsame]

/-- The scheduler left the identity of every instance it kept in place with the same expiry. -/
def IdentityStable (c c' : Cell) : Prop :=
  ∀ aid a a', c.app? aid = some a → c'.app? aid = some a' → a.server = a'.server →
    a.expiry = a'.expiry → a'.identity = a.identity

/-- **C09, content (partial).**  If before the cycle the records agree with the model in existence
    and carry the model's identity and expiry, they carry the new model's identity and expiry after
    the publication — provided the cycle did not change the identity of an instance whose server and
    expiry it left unchanged (`IdentityStable`: `reschedule` republishes a record only when
    (server, expiry) changed; in real time a re-placement always changes the expiry).
    PARTIAL with respect to the property: `IdentityStable` is a fact about the scheduler that is not
    proved here, and that the loader's event handlers re-establish `AgreeWhat c st` between cycles
    (`restore_placement` republishes a re-evaluated lease since fix d79bbbc, `remove_app` deletes the
    record) is decided by the correspondence run and the monitor, not by a theorem; after start-up
    it is `C09_init`. -/
theorem C09_cycle_what_partial (c c' : Cell) (st : Store) (order : List Nat) (qs : List (List (Nat × Bool)))
    (ch : List Nat) (ws : List Write) (now : Int)
    (hwhere : AgreeWhere c st) (hwhat : AgreeWhat c st) (hid : IdentityStable c c')
    (h : rescheduleW c order qs ch = .ok (c', ws)) :
    AgreeWhat c' (st.applyAll now ws) := by
  have hwhere' := C09_cycle_where c c' st order qs ch ws now hwhere h
  obtain ⟨hperm, hperm', pl, hord, hpl, rfl⟩ := rescheduleW_spec h
  intro r hr a' ha'
  rcases content_applyAll now _ st r hr with ⟨i, n, e, hm, h1, h2⟩ | ⟨r0, hr0, k1, k2, k3, k4, hno⟩
  · -- content written by the second pass
    simp only [publication, List.mem_append, List.mem_singleton] at hm
    rcases hm with ((hm | hm) | hm) | hm
    · obtain ⟨_, _, _, _, _, hm⟩ := mem_pass1.mp hm; cases hm
    · obtain ⟨p, _, t, a, _, ha, heq⟩ := mem_pass2.mp hm
      injection heq with q1 q2 q3 q4 q5
      rw [← q2, ha'] at ha
      have : a = a' := (Option.some.inj ha).symm
      subst this
      simp only [placementData] at q3 q5
      exact ⟨h1.trans q3, h2.trans q5⟩
    · rcases mem_unscheduleEvicted hm with ⟨_, _, _, _, hm⟩ | ⟨_, hm⟩ <;> cases hm
    · cases hm
  · -- untouched record: same server, same expiry, hence (IdentityStable) same identity
    have hplaced' : a'.server = some r.srv := by
      obtain ⟨x, hx, hs⟩ := (hwhere' r.srv r.app).mp ⟨r, hr, rfl, rfl⟩
      rw [hx] at ha'; rw [← Option.some.inj ha']; exact hs
    obtain ⟨a, ha, hs⟩ := (hwhere r.srv r.app).mp ⟨r0, hr0, k1, k2⟩
    have hc := hwhat r0 hr0 a (by rw [k2]; exact ha)
    have hin : r.app ∈ pl.map (·.app) := by
      rw [hord, isPerm_mem hperm']; exact app?_some_mem_ids ha'
    obtain ⟨p, hp, hpa⟩ := List.mem_map.mp hin
    obtain ⟨x, x', hx, hx', e1, e2, e3, e4⟩ := hpl p hp
    rw [hpa] at hx hx'
    have : x = a := by rw [hx] at ha; exact Option.some.inj ha
    have : x' = a' := by rw [hx'] at ha'; exact Option.some.inj ha'
    subst_vars
    have hexp : x.expiry = x'.expiry := by
      apply Classical.byContradiction
      intro hne
      apply hno (placementData c' x').1 (placementData c' x').2.1 (placementData c' x').2.2
      simp only [publication]
      refine List.mem_append_left _ (List.mem_append_left _ (List.mem_append_right _ (mem_pass2.mpr
        ⟨p, ?_, r.srv, x', by rw [e3, hplaced'], by rw [hpa]; exact hx', by rw [hpa]⟩)))
      simp only [changed, List.mem_filter]
      refine ⟨hp, ?_⟩
      have : p.expB ≠ p.expA := by rw [e2, e4]; exact hne
      simp [this]
    have hidn := hid r.app x x' hx hx' (by rw [hs, hplaced']) hexp
    exact ⟨by rw [← k3, hc.1, hidn], by rw [← k4, hc.2, hexp]⟩

/-- **C09 (partial), both halves** for the state-level operation `Master.reschedule`. -/
theorem C09_cycle_partial (m m' : MState) (order : List Nat) (qs : List (List (Nat × Bool))) (ch : List Nat)
    (ws : List Write) (hpre : Agree m.cell m.store) (hid : IdentityStable m.cell m'.cell)
    (h : reschedule m order qs ch = .ok (m', ws)) :
    Agree m'.cell m'.store := by
  unfold reschedule at h
  obtain ⟨⟨c', ws'⟩, hw, h⟩ := bind_ok'.mp h
  simp only [pure, Except.pure] at h
  injection h with h
  injection h with h1 h2
  subst h1 h2
  exact ⟨C09_cycle_where _ _ _ _ _ _ _ _ hpre.1 hw,
         C09_cycle_what_partial _ _ _ _ _ _ _ _ hpre.1 hpre.2 hid hw⟩

/-- ZooKeeper paths are unique: at most one record per (server, instance). -/
def KeysUnique (st : Store) : Prop :=
  ∀ r₁ ∈ st.recs, ∀ r₂ ∈ st.recs, r₁.srv = r₂.srv → r₁.app = r₂.app → r₁ = r₂

theorem rec?_of_mem {st : Store} (hu : KeysUnique st) {r : PRec} (hr : r ∈ st.recs) :
    st.rec? r.srv r.app = some r := by
  unfold Store.rec?
  cases hf : st.recs.find? (fun x => x.srv = r.srv ∧ x.app = r.app) with
  | none =>
    have := List.find?_eq_none.mp hf r hr
    simp at this
  | some r0 =>
    have hm := List.mem_of_find?_eq_some hf
    have hp := List.find?_some hf
    simp only [decide_eq_true_eq] at hp
    rw [hu r0 hm r hr hp.1 hp.2]

/-- **C09 at start-up, existence.**  After `Master.init_schedule` has reconciled `/placement/<srv>`
    for every member of the cell — whatever the store held before: the records of a crashed
    predecessor, stale instances, missing records — a record exists under `srv` for `app` iff the
    model places `app` on `srv`.  `hloaded`: every record is under a member of the cell, which
    `restore_placements` establishes (`C11_startup_loaded`; see `C09_startup`). -/
theorem C09_init_where (c' : Cell) (st : Store) (now : Int) (hc : CellViews c')
    (hloaded : ∀ r ∈ st.recs, r.srv ∈ c'.tree.leaves) :
    AgreeWhere c' (st.applyAll now (initWrites c' st)) := by
  intro srv app
  change HasKey _ srv app ↔ _
  rw [keys_after_init now c' st hc.leavesLoaded hc.apps srv app]
  by_cases hin : srv ∈ c'.tree.leaves
  · simp only [hin, ↓reduceIte]
    constructor
    · rintro ⟨s, hs, ha⟩; exact (hc.views srv s hs app).mp ha
    · intro hp
      obtain ⟨s, hs⟩ := Option.isSome_iff_exists.mp (hc.leavesLoaded srv hin)
      exact ⟨s, hs, (hc.views srv s hs app).mpr hp⟩
  · simp only [hin, ↓reduceIte]
    constructor
    · rintro ⟨r, hr, rfl, rfl⟩; exact absurd (hloaded r hr) hin
    · intro hp; exact absurd (hc.placedInTree app srv hp) hin

/-- **C09 at start-up, content** (since fix 9069eb3 `init_schedule` republishes a record whose
    identity / identity_count / expires differ from the model's): after `init_schedule` every record
    carries the identity and the expiry the model holds. -/
theorem C09_init_what (c' : Cell) (st : Store) (now : Int) (hc : CellViews c')
    (hloaded : ∀ r ∈ st.recs, r.srv ∈ c'.tree.leaves) (hu : KeysUnique st) :
    AgreeWhat c' (st.applyAll now (initWrites c' st)) := by
  intro r hr a ha
  have hwhere := C09_init_where c' st now hc hloaded
  rcases content_applyAll now _ st r hr with ⟨i, n, e, hm, h1, h2⟩ | ⟨r0, hr0, k1, k2, k3, k4, hno⟩
  · -- written by the second loop: the model's content
    rw [initWrites_eq] at hm
    rcases List.mem_append.mp hm with hm | hm
    · rcases passA_shape c' st _ hm with ⟨_, _, e⟩ | ⟨_, e⟩ <;> cases e
    · rcases List.mem_append.mp hm with hm | hm
      · obtain ⟨sid, sv, aid, x, _, _, _, hx, heq⟩ := mem_passB hm
        injection heq with q1 q2 q3 q4 q5
        rw [← q2, ha] at hx
        have : x = a := (Option.some.inj hx).symm
        subst this
        simp only [placementData] at q3 q5
        exact ⟨h1.trans q3, h2.trans q5⟩
      · simp at hm
  · -- untouched: `republish` found nothing to change
    obtain ⟨a', ha', hsrv⟩ := (hwhere r.srv r.app).mp ⟨r, hr, rfl, rfl⟩
    rw [ha] at ha'; cases ha'
    have hleaf : r.srv ∈ c'.tree.leaves := by rw [← k1]; exact hloaded r0 hr0
    obtain ⟨sv, hsv⟩ := Option.isSome_iff_exists.mp (hc.leavesLoaded r.srv hleaf)
    have happ : r.app ∈ sv.apps := (hc.views r.srv sv hsv r.app).mpr ⟨a, ha, hsrv⟩
    have hrec : st.rec? r.srv r.app = some r0 := by rw [← k1, ← k2]; exact rec?_of_mem hu hr0
    have hkey : HasKey st r.srv r.app := ⟨r0, hr0, k1, k2⟩
    -- otherwise the second loop holds a republishing put
    apply Classical.byContradiction
    intro hne
    apply hno (placementData c' a).1 (placementData c' a).2.1 (placementData c' a).2.2
    rw [initWrites_eq]
    refine List.mem_append_right _ (List.mem_append_left _ ?_)
    simp only [passB, List.mem_flatMap]
    refine ⟨r.srv, hleaf, ?_⟩
    unfold initPutsOf
    rw [hsv]
    simp only [List.mem_append, List.mem_filterMap, List.mem_filter]
    right
    refine ⟨r.app, ⟨mem_sortNat.mpr happ, ?_⟩, ?_⟩
    · simp only [List.contains_eq_mem, decide_eq_true_eq]
      exact mem_appsOn.mpr hkey
    · unfold republish
      rw [ha, hrec]
      simp only
      rw [if_neg]
      intro hc3
      apply hne
      simp only [placementData] at hc3
      exact ⟨by rw [← k3]; exact hc3.1, by rw [← k4]; exact hc3.2.2⟩

/-- **C09 at start-up.**  Both halves for the state-level operation. -/
theorem C09_init (m m' : MState) (qs : List (List (Nat × Bool))) (ch : List Nat) (ws : List Write)
    (h : initSchedule m qs ch = .ok (m', ws)) (hc : CellViews m'.cell)
    (hloaded : ∀ r ∈ m.store.recs, r.srv ∈ m'.cell.tree.leaves) (hu : KeysUnique m.store) :
    Agree m'.cell m'.store := by
  unfold initSchedule at h
  obtain ⟨c', _, h⟩ := bind_ok'.mp h
  simp only [pure, Except.pure] at h
  injection h with h
  injection h with h1 h2
  subst h1 h2
  exact ⟨C09_init_where _ _ _ hc hloaded, C09_init_what _ _ _ hc hloaded hu⟩

/-- **C09 at start-up, from any stored state.**  `load_model`'s last step `restore_placements`
    followed by `init_schedule`: whatever the store holds when the master starts (records of a
    crashed predecessor, records under servers whose record is gone, stale or double records), the
    published placement equals the model after start-up, in existence and content.
    `hfresh`: the loaded model places nothing before `restore_placements`; `hsame`: the loaded
    servers are the members of the cell after the start-up cycle; `hparent`, `hu`: tree structure of
    the store. -/
theorem C09_startup (c c₁ : Cell) (st : Store) (order : List Nat) (ws₁ : List Write) (m' : MState)
    (qs : List (List (Nat × Bool))) (ch : List Nat) (ws : List Write)
    (hfresh : ∀ x, srvOf c x = none) (hparent : ∀ r ∈ st.recs, r.srv ∈ st.servers)
    (h₁ : restorePlacements c st order = .ok (c₁, ws₁))
    (h₂ : initSchedule ⟨c₁, st.applyAll c.now ws₁⟩ qs ch = .ok (m', ws))
    (hc : CellViews m'.cell) (hsame : ∀ sid ∈ c.srvs.map (·.id), sid ∈ m'.cell.tree.leaves)
    (hu : KeysUnique (st.applyAll c.now ws₁)) :
    Agree m'.cell m'.store :=
  C09_init _ m' qs ch ws h₂ hc
    (fun r hr => hsame _ (C11_startup_loaded c c₁ st order ws₁ c.now hfresh hparent h₁ r hr)) hu

/-! ### non-vacuity -/

def identityStableB (c c' : Cell) : Bool :=
  c.apps.all (fun a => match c'.app? a.id with
    | some a' => !(a.server == a'.server && a.expiry == a'.expiry) || a'.identity == a.identity
    | none => true)

theorem identityStableB_sound {c c' : Cell} (h : identityStableB c c' = true) : IdentityStable c c' := by
  intro aid a a' ha ha' hs he
  have hm : a ∈ c.apps := List.mem_of_find?_eq_some ha
  have hid : a.id = aid := by
    have := List.find?_some ha
    simpa using this
  have := List.all_eq_true.mp h a hm
  rw [hid, ha'] at this
  simpa [hs, he] using this

/-- Non-vacuity of `C09_cycle_partial`: the concrete pair agrees in existence and content, the cycle
    (which moves the instance) completes, the identity hypothesis holds — and the conclusion is the
    non-trivial store with the record moved to server 2 carrying the new expiry. -/
example : Agree Ex.downCell (Ex.storeOn 1) ∧
    (∃ m' ws, reschedule ⟨Ex.downCell, Ex.storeOn 1⟩ [10] Ex.q10 [] = .ok (m', ws) ∧
      IdentityStable Ex.downCell m'.cell ∧ m'.store.recs = [⟨2, 10, none, none, some 105, 5500⟩]) := by
  refine ⟨⟨agreeWhere_of_B (by decide +kernel) (by decide +kernel), agreeWhatB_iff.mp (by decide +kernel)⟩, ?_⟩
  exact ⟨(getOk (reschedule ⟨Ex.downCell, Ex.storeOn 1⟩ [10] Ex.q10 [])).1,
         (getOk (reschedule ⟨Ex.downCell, Ex.storeOn 1⟩ [10] Ex.q10 [])).2, eq_ok_pair (by decide +kernel),
         identityStableB_sound (by decide +kernel), by decide +kernel⟩

namespace Ex
/-- the presence node of server 1 was re-created at t=50 s (the record is from t=0) -/
def bouncedStore : Store := { storeOn 1 with presence := [(1, 50000), (2, 0)] }
def at60 : Cell := { cellOn 1 with now := 60 }
/-- the cell after `restore_placement` re-placed the instance through the put branch at t=60 -/
def c60 : Cell := (getOk (restorePlacement at60 bouncedStore 1 true)).1
/-- a store whose record carries a stale expiry (100) while the model holds 160 -/
def startSt : MState := ⟨{ c60 with now := 62 }, bouncedStore⟩
end Ex

/-- Non-vacuity of `C09_init` on a CONTENT repair (the former findings F10 / F13): the store's record
    says `expires = 100`, the restored model holds 160; `init_schedule` finds the name sets equal and
    republishes the record with the model's expiry. -/
example : isOkB (initSchedule Ex.startSt Ex.q10 []) = true ∧
    (getOk (initSchedule Ex.startSt Ex.q10 [])).2 =
      [.mkNode 1, .mkNode 2, .putRec 1 10 none none (some 160), .saveBlob] ∧
    agreeWhatB (getOk (initSchedule Ex.startSt Ex.q10 [])).1.cell (getOk (initSchedule Ex.startSt Ex.q10 [])).1.store = true ∧
    KeysUnique Ex.startSt.store := by
  refine ⟨by decide +kernel, by decide +kernel, by decide +kernel, ?_⟩
  intro r₁ h₁ r₂ h₂ _ _
  have : Ex.startSt.store.recs = [⟨1, 10, none, none, some 100, 0⟩] := by decide +kernel
  rw [this] at h₁ h₂
  simp only [List.mem_singleton] at h₁ h₂
  rw [h₁, h₂]

/-- The put branch of `restore_placement` now republishes (fix d79bbbc; former finding F10, event
    path): server 1 bounced, the lease is re-evaluated (160 instead of 100) and the record follows. -/
example : isOkB (restorePlacement Ex.at60 Ex.bouncedStore 1 false) = true ∧
    (getOk (restorePlacement Ex.at60 Ex.bouncedStore 1 false)).2.1 = [.putRec 1 10 none none (some 160)] ∧
    agreeWhatB (getOk (restorePlacement Ex.at60 Ex.bouncedStore 1 false)).1
      (Ex.bouncedStore.applyAll 60 (getOk (restorePlacement Ex.at60 Ex.bouncedStore 1 false)).2.1) = true :=
  ⟨by decide +kernel, by decide +kernel, by decide +kernel⟩

end TmVerif.Master
