/-
  C09 — "The published placement equals the scheduler's model after every cycle."
  Property theorems only.  Model: TmVerif/Master/Model.lean; lemmas: TmVerif/Master/Lemmas.lean,
  the after-pass invariants of Props/C10.lean.
-/
import TmVerif.Props.C10
import TmVerif.Master.InitLemmas

namespace TmVerif.Master
open TmVerif.Sched

/-- **C09, existence.**  If the records agree with the model before a cycle (a record under `srv`
    for `app` iff the model places `app` on `srv`), they agree with the model after
    `Master.reschedule` has published the cycle's result: exactly one entry for every placed
    instance, under the server the model placed it on, and none for an instance that is pending or
    no longer scheduled.  For every queue, identity choice and placement-list order; the cycle
    itself (`Sched.schedule`) is arbitrary. -/
theorem C09_cycle_where (c c' : Cell) (st : Store) (order : List Nat) (qs : List (List (Nat × Bool)))
    (ch : List Nat) (ws : List Write) (now : Int)
    (hpre : AgreeWhere c st) (h : rescheduleW c order qs ch = .ok (c', ws)) :
    AgreeWhere c' (st.applyAll now ws) := by
  obtain ⟨hperm, hperm', pl, hord, hpl, rfl⟩ := rescheduleW_spec h
  have hpre' : ∀ s a, HasKey st s a → srvOf c a = some s := by
    intro s a hk
    exact placedOn_iff.mp ((hpre s a).mp hk)
  have hcover : ∀ a, (c.app? a).isSome → a ∈ pl.map (·.app) := by
    intro a ha
    rw [hord, isPerm_mem hperm]
    cases hc : c.app? a with
    | none => simp [hc] at ha
    | some x => exact app?_some_mem_ids hc
  have hpub : publication c' pl =
      pass1 (changed pl) ++ (pass2 c' (changed pl) ++ unscheduleEvicted c' ++ [Write.saveBlob]) := by
    simp [publication, List.append_assoc]
  intro srv app
  change HasKey _ srv app ↔ _
  rw [placedOn_iff, hpub, applyAll_append]
  constructor
  · -- a record at the end is a placement of the new model
    intro hk
    exact after_keeps now c' _ _ (pass2_okAfter hpl)
      (pass1_complete_after now c c' st pl hpl hcover hpre') srv app hk
  · -- a placement of the new model has its record
    intro hs
    have hnodel : ∀ w ∈ pass2 c' (changed pl) ++ unscheduleEvicted c' ++ [Write.saveBlob],
        (∀ s' a', w ≠ .delRec s' a') ∧ (∀ s', w ≠ .delNode s') := by
      intro w hw
      simp only [List.mem_append, List.mem_singleton] at hw
      rcases hw with (hw | hw) | rfl
      · obtain ⟨p, _, t, a, _, _, rfl⟩ := mem_pass2.mp hw
        exact ⟨fun _ _ e => (nomatch e), fun _ e => (nomatch e)⟩
      · rcases mem_unscheduleEvicted hw with ⟨_, _, _, _, rfl⟩ | ⟨_, rfl⟩ <;>
          exact ⟨fun _ _ e => (nomatch e), fun _ e => (nomatch e)⟩
      · exact ⟨fun _ _ e => (nomatch e), fun _ e => (nomatch e)⟩
    apply hasKey_applyAll_mono now _ _ srv app hnodel
    -- the instance is in the placement list
    have hsome' : ∃ a', c'.app? app = some a' ∧ a'.server = some srv := by
      unfold srvOf at hs
      cases hc : c'.app? app with
      | none => simp [hc] at hs
      | some a' => exact ⟨a', rfl, by simpa [hc] using hs⟩
    obtain ⟨a', ha', hsrv⟩ := hsome'
    have hin : app ∈ pl.map (·.app) := by
      rw [hord, isPerm_mem hperm']; exact app?_some_mem_ids ha'
    obtain ⟨p, hp, rfl⟩ := List.mem_map.mp hin
    obtain ⟨x, x', hx, hx', e1, e2, e3, e4⟩ := hpl p hp
    have hxa : x' = a' := by rw [hx'] at ha'; exact Option.some.inj ha'
    subst hxa
    by_cases hch : p ∈ changed pl
    · -- republished by the second pass
      right
      refine ⟨_, _, _, List.mem_append_left _ (List.mem_append_left _ (mem_pass2.mpr ⟨p, hch, srv, x', ?_, hx', rfl⟩))⟩
      rw [e3, hsrv]
    · -- untouched: it was there before and the first pass did not delete it
      left
      have hsame : p.before = p.after := by
        simp only [changed, List.mem_filter, not_and] at hch
        have := hch hp
        simp only [Bool.or_eq_true, bne_iff_ne, ne_eq, not_or, Decidable.not_not] at this
        exact this.1
      have hbefore : srvOf c p.app = some srv := by
        unfold srvOf; simp only [hx, Option.bind_some]; rw [← e1, hsame, e3, hsrv]
      have h0 : HasKey st srv p.app := (hpre srv p.app).mpr (placedOn_iff.mpr hbefore)
      refine (hasKey_applyAll_dels now _ st srv p.app (pass1_dels _)).mpr ⟨h0, ?_⟩
      intro hdel
      obtain ⟨q, hq, b, hb, hne, heq⟩ := mem_pass1.mp hdel
      injection heq with k1 k2
      -- q is the tuple of the same instance: then before = after, contradiction
      have hq' : q ∈ pl := (List.mem_filter.mp hq).1
      obtain ⟨y, y', hy, hy', f1, _, f3, _⟩ := hpl q hq'
      rw [← k2, hx] at hy
      rw [← k2, hx'] at hy'
      have : y = x := (Option.some.inj hy).symm
      have : y' = x' := (Option.some.inj hy').symm
      subst_vars
      apply hne
      rw [f1, f3, ← e1, ← e3, hsame]

/-- The scheduler left the identity of every instance it kept in place with the same expiry. -/
def IdentityStable (c c' : Cell) : Prop :=
  ∀ aid a a', c.app? aid = some a → c'.app? aid = some a' → a.server = a'.server →
    a.expiry = a'.expiry → a'.identity = a.identity

/-- **C09, content (partial).**  If before the cycle the records agree with the model in existence
    and carry the model's identity and expiry, they carry the new model's identity and expiry after
    the publication — provided the cycle did not change the identity of an instance whose server and
    expiry it left unchanged (`IdentityStable`: `reschedule` republishes a record only when
    (server, expiry) changed; in real time a re-placement always changes the expiry).
    PARTIAL with respect to the property: the hypothesis `AgreeWhat c st` is NOT re-established by
    the loader's event handlers — `restore_placement`'s put branch gives a new expiry that nothing
    republishes (finding F10, witness `C09_F10_witness`) and `init_schedule` reconciles by name only
    (finding F13). -/
theorem C09_cycle_what_partial (c c' : Cell) (st : Store) (order : List Nat) (qs : List (List (Nat × Bool)))
    (ch : List Nat) (ws : List Write) (now : Int)
    (hwhere : AgreeWhere c st) (hwhat : AgreeWhat c st) (hid : IdentityStable c c')
    (h : rescheduleW c order qs ch = .ok (c', ws)) :
    AgreeWhat c' (st.applyAll now ws) := by
  have hwhere' := C09_cycle_where c c' st order qs ch ws now hwhere h
  obtain ⟨hperm, hperm', pl, hord, hpl, rfl⟩ := rescheduleW_spec h
  intro r hr a' ha'
  rcases content_applyAll now _ st r hr with ⟨i, n, e, hm, h1, h2⟩ | ⟨r0, hr0, k1, k2, k3, k4, hno⟩
  · -- content written by the second pass
    simp only [publication, List.mem_append, List.mem_singleton] at hm
    rcases hm with ((hm | hm) | hm) | hm
    · obtain ⟨_, _, _, _, _, hm⟩ := mem_pass1.mp hm; cases hm
    · obtain ⟨p, _, t, a, _, ha, heq⟩ := mem_pass2.mp hm
      injection heq with q1 q2 q3 q4 q5
      rw [← q2, ha'] at ha
      have : a = a' := (Option.some.inj ha).symm
      subst this
      simp only [placementData] at q3 q5
      exact ⟨h1.trans q3, h2.trans q5⟩
    · rcases mem_unscheduleEvicted hm with ⟨_, _, _, _, hm⟩ | ⟨_, hm⟩ <;> cases hm
    · cases hm
  · -- untouched record: same server, same expiry, hence (IdentityStable) same identity
    have hplaced' : a'.server = some r.srv := by
      obtain ⟨x, hx, hs⟩ := (hwhere' r.srv r.app).mp ⟨r, hr, rfl, rfl⟩
      rw [hx] at ha'; rw [← Option.some.inj ha']; exact hs
    obtain ⟨a, ha, hs⟩ := (hwhere r.srv r.app).mp ⟨r0, hr0, k1, k2⟩
    have hc := hwhat r0 hr0 a (by rw [k2]; exact ha)
    have hin : r.app ∈ pl.map (·.app) := by
      rw [hord, isPerm_mem hperm']; exact app?_some_mem_ids ha'
    obtain ⟨p, hp, hpa⟩ := List.mem_map.mp hin
    obtain ⟨x, x', hx, hx', e1, e2, e3, e4⟩ := hpl p hp
    rw [hpa] at hx hx'
    have : x = a := by rw [hx] at ha; exact Option.some.inj ha
    have : x' = a' := by rw [hx'] at ha'; exact Option.some.inj ha'
    subst_vars
    have hexp : x.expiry = x'.expiry := by
      apply Classical.byContradiction
      intro hne
      apply hno (placementData c' x').1 (placementData c' x').2.1 (placementData c' x').2.2
      simp only [publication]
      refine List.mem_append_left _ (List.mem_append_left _ (List.mem_append_right _ (mem_pass2.mpr
        ⟨p, ?_, r.srv, x', by rw [e3, hplaced'], by rw [hpa]; exact hx', by rw [hpa]⟩)))
      simp only [changed, List.mem_filter]
      refine ⟨hp, ?_⟩
      have : p.expB ≠ p.expA := by rw [e2, e4]; exact hne
      simp [this]
    have hidn := hid r.app x x' hx hx' (by rw [hs, hplaced']) hexp
    exact ⟨by rw [← k3, hc.1, hidn], by rw [← k4, hc.2, hexp]⟩

/-- **C09 (partial), both halves** for the state-level operation `Master.reschedule`. -/
theorem C09_cycle_partial (m m' : MState) (order : List Nat) (qs : List (List (Nat × Bool))) (ch : List Nat)
    (ws : List Write) (hpre : Agree m.cell m.store) (hid : IdentityStable m.cell m'.cell)
    (h : reschedule m order qs ch = .ok (m', ws)) :
    Agree m'.cell m'.store := by
  unfold reschedule at h
  obtain ⟨⟨c', ws'⟩, hw, h⟩ := bind_ok'.mp h
  simp only [pure, Except.pure] at h
  injection h with h
  injection h with h1 h2
  subst h1 h2
  exact ⟨C09_cycle_where _ _ _ _ _ _ _ _ hpre.1 hw,
         C09_cycle_what_partial _ _ _ _ _ _ _ _ hpre.1 hpre.2 hid hw⟩

/-- What `init_schedule` needs of the cell after its start-up cycle; all three are scheduler
    invariants (engine `sched`: `C01_views`; every placed instance is on a server of the tree after
    `_fix_invalid_placements`). -/
structure CellViews (c : Cell) : Prop where
  leavesNodup : c.tree.leaves.Nodup
  leavesLoaded : ∀ sid ∈ c.tree.leaves, (c.srv? sid).isSome
  views : ∀ sid s, c.srv? sid = some s → ∀ aid, aid ∈ s.apps ↔ placedOn c aid sid
  placedInTree : ∀ aid sid, placedOn c aid sid → sid ∈ c.tree.leaves

/-- **C09 at start-up, existence (partial).**  After `Master.init_schedule` has reconciled
    `/placement/<srv>` for every member of the cell — whatever the store held before: the records of
    a crashed predecessor, stale instances, missing records — a record exists under `srv` for `app`
    iff the model places `app` on `srv`.
    PARTIAL: `hloaded` excludes records under a server that is not part of the loaded cell; the
    code never visits those (start-up face of finding F6, corpus case C10-F6-…, proposed fix F6b).
    Content (`AgreeWhat`) does NOT hold after `init_schedule`: it reconciles by name only
    (findings F10 start-up path and F13, witness `C09_F13_witness`). -/
theorem C09_init_where_partial (c' : Cell) (st : Store) (now : Int) (hc : CellViews c')
    (hloaded : ∀ r ∈ st.recs, r.srv ∈ c'.tree.leaves) :
    AgreeWhere c' (st.applyAll now (initWrites c' st)) := by
  intro srv app
  change HasKey _ srv app ↔ _
  unfold initWrites
  rw [applyAll_append]
  have hblob : ∀ st2 : Store, HasKey (st2.applyAll now [Write.saveBlob]) srv app ↔ HasKey st2 srv app := by
    intro st2; rw [applyAll_cons, applyAll_nil, hasKey_apply]; rfl
  rw [hblob]
  have happs : ∀ sid s, c'.srv? sid = some s → ∀ a ∈ s.apps, (c'.app? a).isSome := by
    intro sid s hs a ha
    obtain ⟨x, hx, _⟩ := (hc.views sid s hs a).mp ha
    simp [hx]
  rw [initLoop_keys now c' st happs c'.tree.leaves st hc.leavesNodup hc.leavesLoaded (fun _ _ _ => Iff.rfl)]
  by_cases hin : srv ∈ c'.tree.leaves
  · simp only [hin, ↓reduceIte]
    constructor
    · rintro ⟨s, hs, ha⟩; exact (hc.views srv s hs app).mp ha
    · intro hp
      obtain ⟨s, hs⟩ := Option.isSome_iff_exists.mp (hc.leavesLoaded srv hin)
      exact ⟨s, hs, (hc.views srv s hs app).mpr hp⟩
  · simp only [hin, ↓reduceIte]
    constructor
    · rintro ⟨r, hr, rfl, rfl⟩; exact absurd (hloaded r hr) hin
    · intro hp; exact absurd (hc.placedInTree app srv hp) hin

/-! ### non-vacuity and finding witnesses -/

def identityStableB (c c' : Cell) : Bool :=
  c.apps.all (fun a => match c'.app? a.id with
    | some a' => !(a.server == a'.server && a.expiry == a'.expiry) || a'.identity == a.identity
    | none => true)

theorem identityStableB_sound {c c' : Cell} (h : identityStableB c c' = true) : IdentityStable c c' := by
  intro aid a a' ha ha' hs he
  have hm : a ∈ c.apps := List.mem_of_find?_eq_some ha
  have hid : a.id = aid := by
    have := List.find?_some ha
    simpa using this
  have := List.all_eq_true.mp h a hm
  rw [hid, ha'] at this
  simpa [hs, he] using this

/-- Non-vacuity of `C09_cycle_partial`: the concrete pair agrees in existence and content, the cycle
    (which moves the instance) completes, the identity hypothesis holds — and the conclusion is the
    non-trivial store with the record moved to server 2 carrying the new expiry. -/
example : Agree Ex.downCell (Ex.storeOn 1) ∧
    (∃ m' ws, reschedule ⟨Ex.downCell, Ex.storeOn 1⟩ [10] Ex.q10 [] = .ok (m', ws) ∧
      IdentityStable Ex.downCell m'.cell ∧ m'.store.recs = [⟨2, 10, none, none, some 105, 5000⟩]) := by
  refine ⟨⟨agreeWhere_of_B (by decide +kernel) (by decide +kernel), agreeWhatB_iff.mp (by decide +kernel)⟩, ?_⟩
  exact ⟨(getOk (reschedule ⟨Ex.downCell, Ex.storeOn 1⟩ [10] Ex.q10 [])).1,
         (getOk (reschedule ⟨Ex.downCell, Ex.storeOn 1⟩ [10] Ex.q10 [])).2, eq_ok_pair (by decide +kernel),
         identityStableB_sound (by decide +kernel), by decide +kernel⟩

namespace Ex
/-- F6: both server records are removed (`Loader.remove_server`, recorded as `removeServer`). -/
def goneCell : Cell :=
  { getOk (step (getOk (step (cellOn 1) (.removeServer 1))) (.removeServer 2)) with now := 5 }
/-- F10: the presence node of server 1 was re-created at t=50 s (the record is from t=0). -/
def bouncedStore : Store := { storeOn 1 with presence := [(1, 50000), (2, 0)] }
def at60 : Cell := { cellOn 1 with now := 60 }
end Ex

/-- **Witness of finding F6.**  The store agrees with the model; `Loader.remove_server` (a recorded
    loader step: it touches the cell only) unplaces the instance; the following cycle completes,
    publishes nothing for it (before = None) and the record of the now-pending instance is still
    there: the hypothesis `AgreeWhere` of `C09_cycle_where` is what the loader breaks, and no later
    cycle repairs it. -/
theorem C09_F6_witness :
    AgreeWhere (Ex.cellOn 1) (Ex.storeOn 1) ∧
    ∃ c' ws, rescheduleW Ex.goneCell [10] Ex.q10 [] = .ok (c', ws) ∧
      ¬ AgreeWhere c' ((Ex.storeOn 1).applyAll 5 ws) := by
  refine ⟨agreeWhere_of_B (by decide +kernel) (by decide +kernel), ?_⟩
  refine ⟨(getOk (rescheduleW Ex.goneCell [10] Ex.q10 [])).1, (getOk (rescheduleW Ex.goneCell [10] Ex.q10 [])).2,
          eq_ok_pair (by decide +kernel), ?_⟩
  intro h
  have := agreeWhere_recsPlacedB h
  revert this
  decide +kernel

/-- **Witness of finding F10.**  The store agrees with the model in existence and content; server 1
    bounced (presence younger than the record), `Loader.restore_placement` (modelled) re-places the
    instance through its put branch with a NEW expiry (160 instead of 100) and writes nothing; the
    following cycle sees no change and the record keeps `expires = 100`: content disagreement that
    no publication path repairs. -/
theorem C09_F10_witness :
    Agree (Ex.cellOn 1) (Ex.storeOn 1) ∧
    ∃ c₁ ws₁ restored c₂ ws₂, restorePlacement Ex.at60 Ex.bouncedStore 1 false = .ok (c₁, ws₁, restored) ∧
      ws₁ = [] ∧ restored = [10] ∧
      rescheduleW { c₁ with now := 62 } [10] Ex.q10 [] = .ok (c₂, ws₂) ∧
      AgreeWhere c₂ (Ex.bouncedStore.applyAll 62 ws₂) ∧ ¬ AgreeWhat c₂ (Ex.bouncedStore.applyAll 62 ws₂) := by
  refine ⟨⟨agreeWhere_of_B (by decide +kernel) (by decide +kernel), agreeWhatB_iff.mp (by decide +kernel)⟩, ?_⟩
  refine ⟨(getOk (restorePlacement Ex.at60 Ex.bouncedStore 1 false)).1,
          (getOk (restorePlacement Ex.at60 Ex.bouncedStore 1 false)).2.1,
          (getOk (restorePlacement Ex.at60 Ex.bouncedStore 1 false)).2.2,
          (getOk (rescheduleW { (getOk (restorePlacement Ex.at60 Ex.bouncedStore 1 false)).1 with now := 62 } [10] Ex.q10 [])).1,
          (getOk (rescheduleW { (getOk (restorePlacement Ex.at60 Ex.bouncedStore 1 false)).1 with now := 62 } [10] Ex.q10 [])).2,
          eq_ok_triple (by decide +kernel), by decide +kernel, by decide +kernel,
          eq_ok_pair (by decide +kernel), agreeWhere_of_B (by decide +kernel) (by decide +kernel), ?_⟩
  rw [← agreeWhatB_iff]
  decide +kernel

namespace Ex
/-- the cell after the start-up cycle of `down2` (instance moved from the down server 2 to server 1) -/
def started : Cell := getOk (schedule down2 q10 [])
/-- F13: the cell after `restore_placement` re-placed the instance through the put branch at t=60 -/
def c60 : Cell := (getOk (restorePlacement at60 bouncedStore 1 true)).1
def startSt : MState := ⟨{ c60 with now := 62 }, bouncedStore⟩
end Ex

/-- Non-vacuity of `C09_init_where_partial`: the concrete start-up state (`Ex.down2`: instance
    restored on the down server 2) satisfies the hypotheses after its start-up cycle, and the
    reconciliation is non-trivial (one put, one delete). -/
example : isOkB (schedule Ex.down2 Ex.q10 []) = true ∧ CellViews Ex.started ∧
    (∀ r ∈ (Ex.storeOn 2).recs, r.srv ∈ Ex.started.tree.leaves) ∧
    initWrites Ex.started (Ex.storeOn 2) =
      [.mkNode 1, .putRec 1 10 none none (some 105), .mkNode 2, .delRec 2 10, .saveBlob] := by
  refine ⟨by decide +kernel, ?_, by decide +kernel, by decide +kernel⟩
  have hids : Ex.started.apps.map (·.id) = [10] := by decide +kernel
  have h10 : (Ex.started.app? 10).map (·.server) = some (some 1) := by decide +kernel
  have happ : ∀ x, x ≠ 10 → Ex.started.app? x = none := by
    intro x hx
    cases hf : Ex.started.app? x with
    | none => rfl
    | some a =>
      have := app?_some_mem_ids hf
      rw [hids] at this
      simp at this; exact absurd this hx
  have hplaced : ∀ aid sid, placedOn Ex.started aid sid ↔ aid = 10 ∧ sid = 1 := by
    intro aid sid
    unfold placedOn
    by_cases hx : aid = 10
    · subst hx
      cases h : Ex.started.app? 10 with
      | none => rw [h] at h10; cases h10
      | some a =>
        rw [h] at h10
        simp only [Option.map_some, Option.some.injEq] at h10
        simp [h10, eq_comm]
    · simp [happ aid hx, hx]
  refine ⟨by decide +kernel, by decide +kernel, ?_, ?_⟩
  · intro sid s hs aid
    have hm : sid ∈ Ex.started.srvs.map (·.id) := srv?_some_mem_ids hs
    have hsids : Ex.started.srvs.map (·.id) = [1, 2] := by decide +kernel
    rw [hsids] at hm
    rw [hplaced]
    simp only [List.mem_cons, List.not_mem_nil, or_false] at hm
    rcases hm with rfl | rfl
    · have hs1 : (Ex.started.srv? 1).map (·.apps) = some [10] := by decide +kernel
      rw [hs] at hs1
      simp only [Option.map_some, Option.some.injEq] at hs1
      simp [hs1]
    · have hs2 : (Ex.started.srv? 2).map (·.apps) = some [] := by decide +kernel
      rw [hs] at hs2
      simp only [Option.map_some, Option.some.injEq] at hs2
      simp [hs2]
  · intro aid sid hp
    have hl : Ex.started.tree.leaves = [1, 2] := by decide +kernel
    rw [hl, ((hplaced aid sid).mp hp).2]
    simp

/-- **Witness of finding F13 / F10 (start-up path).**  At start-up `restore_placement` re-placed the
    instance through its put branch (new expiry 160, the record says 100) without writing anything;
    `init_schedule` then finds the name sets of server 1 equal and writes nothing for the instance:
    existence agrees, content does not. -/
theorem C09_F13_witness :
    isOkB (restorePlacement Ex.at60 Ex.bouncedStore 1 true) = true ∧
    (getOk (restorePlacement Ex.at60 Ex.bouncedStore 1 true)).2.1 = [] ∧
    ∃ m' ws, initSchedule Ex.startSt Ex.q10 [] = .ok (m', ws) ∧
      ws = [.mkNode 1, .mkNode 2, .saveBlob] ∧
      AgreeWhere m'.cell m'.store ∧ ¬ AgreeWhat m'.cell m'.store := by
  refine ⟨by decide +kernel, by decide +kernel,
          (getOk (initSchedule Ex.startSt Ex.q10 [])).1, (getOk (initSchedule Ex.startSt Ex.q10 [])).2,
          eq_ok_pair (by decide +kernel), by decide +kernel,
          agreeWhere_of_B (by decide +kernel) (by decide +kernel), ?_⟩
  rw [← agreeWhatB_iff]
  decide +kernel

end TmVerif.Master
