/-
  C11 — "A restarted master reloads exactly the placement that was published."
  Property theorems only.  Model: `Loader.restore_placements` / `restore_placement` in
  TmVerif/Master/Model.lean (the last step of `load_model`; the steps before it — servers,
  allocations, apps, identity groups — are recorded loader steps that place nothing);
  lemmas: TmVerif/Master/RestoreLemmas.lean.
-/
import TmVerif.Master.RestoreLemmas
import TmVerif.Props.C10

namespace TmVerif.Master
open TmVerif.Sched

/-- Invariant of `restore_placements`' loops: every placement of the cell is a record of the
    ORIGINAL store, and nothing written so far creates a record. -/
def OnlyRecorded (st : Store) (c : Cell) (ws : List Write) : Prop :=
  (∀ x s, srvOf c x = some s → HasKey st s x) ∧ (∀ w ∈ ws, NoPut w)

theorem hasKey_of_noPut (now : Int) (st : Store) (ws : List Write) (h : ∀ w ∈ ws, NoPut w) (s a : Nat)
    (hk : HasKey (st.applyAll now ws) s a) : HasKey st s a := by
  rcases hasKey_applyAll_origin now ws st s a hk with h' | ⟨i, n, e, hm⟩
  · exact h'
  · exact absurd rfl (h _ hm s a i n e)

theorem restoreStep_keeps {st : Store} {now : Int} {acc acc' : LState} {sid : Nat}
    (h : restoreStep st now acc sid = .ok acc') (hi : OnlyRecorded st acc.cell acc.writes) :
    OnlyRecorded st acc'.cell acc'.writes := by
  unfold restoreStep at h
  obtain ⟨r, hr, h⟩ := bind_ok'.mp h
  obtain ⟨c1, ws1, restored⟩ := r
  simp only [pure, Except.pure] at h
  injection h with h; subst h
  obtain ⟨s1, s2⟩ := restorePlacement_spec hr
  refine ⟨?_, ?_⟩
  · intro x s hs
    rcases s1 x s hs with h' | ⟨rfl, hk⟩
    · exact hi.1 x s h'
    · exact hasKey_of_noPut now st acc.writes hi.2 _ x hk
  · intro w hw
    rcases List.mem_append.mp hw with h' | h'
    · exact hi.2 w h'
    · exact s2 w h'

theorem restoreLoop_keeps {st : Store} {now : Int} :
    ∀ (order : List Nat) (acc acc' : LState), order.foldlM (restoreStep st now) acc = .ok acc' →
      OnlyRecorded st acc.cell acc.writes → OnlyRecorded st acc'.cell acc'.writes := by
  intro order
  induction order with
  | nil =>
    intro acc acc' h hi
    simp only [List.foldlM, pure, Except.pure] at h
    injection h with h; subst h; exact hi
  | cons sid t ih =>
    intro acc acc' h hi
    simp only [List.foldlM] at h
    obtain ⟨acc1, h1, h⟩ := bind_ok'.mp h
    exact ih acc1 acc' h (restoreStep_keeps h1 hi)

theorem dedupOne_keeps {st : Store} {aid sid : Nat} {acc acc' : Cell × List Write}
    (h : dedupOne aid acc sid = .ok acc') (hi : OnlyRecorded st acc.1 acc.2) : OnlyRecorded st acc'.1 acc'.2 := by
  unfold dedupOne at h
  obtain ⟨c1, h1, h⟩ := bind_ok'.mp h
  simp only [pure, Except.pure] at h
  injection h with h; subst h
  refine ⟨?_, ?_⟩
  · intro x s hs
    rw [serverRemove_srvOf h1 x] at hs
    split at hs
    · cases hs
    · exact hi.1 x s hs
  · intro w hw
    rcases List.mem_append.mp hw with h' | h'
    · exact hi.2 w h'
    · simp only [List.mem_singleton] at h'; subst h'
      exact fun _ _ _ _ _ e => nomatch e

theorem dedupApp_keeps {st : Store} {p : Nat × List Nat} :
    ∀ (l : List Nat) (acc acc' : Cell × List Write), l.foldlM (dedupOne p.1) acc = .ok acc' →
      OnlyRecorded st acc.1 acc.2 → OnlyRecorded st acc'.1 acc'.2 := by
  intro l
  induction l with
  | nil =>
    intro acc acc' h hi
    simp only [List.foldlM, pure, Except.pure] at h
    injection h with h; subst h; exact hi
  | cons sid t ih =>
    intro acc acc' h hi
    simp only [List.foldlM] at h
    obtain ⟨acc1, h1, h⟩ := bind_ok'.mp h
    exact ih acc1 acc' h (dedupOne_keeps h1 hi)

theorem dedupLoop_keeps {st : Store} :
    ∀ (l : List (Nat × List Nat)) (acc acc' : Cell × List Write), l.foldlM dedupApp acc = .ok acc' →
      OnlyRecorded st acc.1 acc.2 → OnlyRecorded st acc'.1 acc'.2 := by
  intro l
  induction l with
  | nil =>
    intro acc acc' h hi
    simp only [List.foldlM, pure, Except.pure] at h
    injection h with h; subst h; exact hi
  | cons p t ih =>
    intro acc acc' h hi
    simp only [List.foldlM] at h
    obtain ⟨acc1, h1, h⟩ := bind_ok'.mp h
    exact ih acc1 acc' h (dedupApp_keeps p.2 acc acc1 h1 hi)

/-- **C11, "places nothing that is not recorded".**  Let `c` be the model a starting master has
    loaded before `restore_placements` (it places nothing yet).  Whatever the store holds (records of
    a crashed predecessor, stale instances, double records) and in whatever order the servers are
    visited: every instance the rebuilt model places is recorded in the store, under that very
    server — and `restore_placements` creates no record itself (it only deletes). -/
theorem C11_nothing_unrecorded (c c' : Cell) (st : Store) (order : List Nat) (ws : List Write)
    (hfresh : ∀ x, srvOf c x = none)
    (h : restorePlacements c st order = .ok (c', ws)) :
    (∀ app srv, placedOn c' app srv → ∃ r ∈ st.recs, r.srv = srv ∧ r.app = app) ∧
    (∀ w ∈ ws, ∀ s a i n e, w ≠ .putRec s a i n e) := by
  unfold restorePlacements at h
  split at h
  · cases h
  · obtain ⟨ls, h1, h2⟩ := bind_ok'.mp h
    have i0 : OnlyRecorded st c [] := ⟨fun x s hs => (by rw [hfresh x] at hs; cases hs), fun _ hw => (by cases hw)⟩
    have i1 := restoreLoop_keeps order _ ls h1 i0
    have i2 := dedupLoop_keeps _ _ (c', ws) h2 i1
    exact ⟨fun app srv hp => i2.1 app srv (placedOn_iff.mp hp), i2.2⟩

/-- The same for the single-server reload (`reload_server` → `restore_placement(servername,
    restore_identity=False)`): it can only ADD placements of instances recorded under that server,
    on that server. -/
theorem C11_reload_only_recorded (c c' : Cell) (st : Store) (sid : Nat) (ri : Bool) (ws : List Write)
    (restored : List Nat) (h : restorePlacement c st sid ri = .ok (c', ws, restored)) :
    ∀ app srv, placedOn c' app srv → placedOn c app srv ∨ (srv = sid ∧ ∃ r ∈ st.recs, r.srv = sid ∧ r.app = app) := by
  intro app srv hp
  rcases (restorePlacement_spec h).1 app srv (placedOn_iff.mp hp) with h' | ⟨rfl, hk⟩
  · exact Or.inl (placedOn_iff.mpr h')
  · exact Or.inr ⟨rfl, hk⟩

/-- **C11, fidelity of a successful restore (partial).**  For the reload of one server
    (`restore_placement(srv, restore_identity=True)`, the body of `restore_placements`' loop): every
    instance the call reports as restored whose record is fresh (the presence node exists, its ctime
    is not younger than the record's: the server did not restart since the instance was placed) is
    afterwards placed on that very server, with the recorded expiry and the recorded identity —
    whatever the other records under the server are and in whatever state the rest of the cell is.
    PARTIAL with respect to the property: (1) THAT the restore of a record under a healthy server
    succeeds (capacity, partition, traits, affinity limits still admit it) is not proved here; it is
    decided by the monitor on the real code and fails for instances of one affinity name with
    different limits (known finding C11-mixed-affinity-limits…); (2) the statement is for one
    server's pass; that the passes of the other servers and the final de-duplication leave the
    instance alone (no record under two servers, C10) is covered by the correspondence run. -/
theorem C11_restore_fidelity_partial (c c' : Cell) (st : Store) (sid : Nat) (ws : List Write) (restored : List Nat)
    (hnd : (st.appsOn sid).Nodup)
    (h : restorePlacement c st sid true = .ok (c', ws, restored)) :
    ∀ aid ∈ restored, ∀ r, st.rec? sid aid = some r → presenceFresh st sid r = true →
      ∃ a, c'.app? aid = some a ∧ a.server = some sid ∧
        (∀ e, r.expires = some e → a.expiry = some e) ∧ (∀ k, r.identity = some k → a.identity = some k) := by
  unfold restorePlacement at h
  split at h
  · cases h
  · obtain ⟨c1, h1, h⟩ := bind_ok'.mp h
    obtain ⟨rs, h2, h⟩ := bind_ok'.mp h
    simp only [pure, Except.pure] at h
    injection h with h; injection h with e1 e2; injection e2 with e2 e3
    subst e1 e2 e3
    intro aid haid r hr hf
    rcases (restoreLoop_restored _ _ _ hnd h2).2 aid haid with h' | ⟨_, hgood⟩
    · cases h'
    · exact hgood r hr hf

/-! ### non-vacuity -/

namespace Ex2
/-- the model a starting master has loaded before `restore_placements`: servers 1 and 2, instance 10 unplaced -/
def loaded : Cell := { getOk (runOps (Cell.init 1000 1)
  [.addBucket 1001 1000 3, .setAlloc 1 ⟨0, 0, 0⟩, .addServer 1 1001 ⟨4, 4, 4⟩ 0 0 100000,
   .addServer 2 1001 ⟨4, 4, 4⟩ 0 0 100000, .addApp (Ex.mkApp 10 100)]) with now := 60 }
/-- a healthy record: presence of server 1 (ctime 1 ms) is not younger than the record (ctime 5 ms) -/
def store : Store :=
  { pnodes := [⟨1, none⟩, ⟨2, none⟩], recs := [⟨1, 10, none, none, some 100, 5⟩],
    presence := [(1, 1), (2, 1)], scheduled := [10] }
end Ex2

/-- Non-vacuity of `C11_nothing_unrecorded`: a concrete freshly loaded model and a store with one
    healthy record; `restore_placements` completes and restores the instance on the recorded server
    with the recorded expiry (so the conclusion is about a non-empty placement). -/
example : (∀ x, srvOf Ex2.loaded x = none) ∧
    isOkB (restorePlacements Ex2.loaded (Ex2.store) [1, 2]) = true ∧
    ((getOk (restorePlacements Ex2.loaded (Ex2.store) [1, 2])).1.app? 10).map (fun a => (a.server, a.expiry))
      = some (some 1, some 100) := by
  refine ⟨?_, by decide +kernel, by decide +kernel⟩
  intro x
  have hall : Ex2.loaded.apps.all (fun a => a.server == none) = true := by decide +kernel
  unfold srvOf
  cases hx : Ex2.loaded.app? x with
  | none => rfl
  | some a =>
    have := List.all_eq_true.mp hall a (List.mem_of_find?_eq_some hx)
    simpa using this

/-- Non-vacuity of `C11_restore_fidelity_partial`: for the concrete healthy record the hypotheses hold
    and instance 10 is in the restored list. -/
example : (Ex2.store.appsOn 1).Nodup ∧
    isOkB (restorePlacement Ex2.loaded Ex2.store 1 true) = true ∧
    (getOk (restorePlacement Ex2.loaded Ex2.store 1 true)).2.2 = [10] ∧
    (Ex2.store.rec? 1 10).map (presenceFresh Ex2.store 1) = some true := by
  refine ⟨by decide +kernel, by decide +kernel, by decide +kernel, by decide +kernel⟩

end TmVerif.Master
