/-
  C11 — "A restarted master reloads exactly the placement that was published."
  Property theorems only.  Model: `Loader.restore_placements` / `restore_placement` in
  TmVerif/Master/Model.lean (the last step of `load_model`; the steps before it — servers,
  allocations, apps, identity groups — are recorded loader steps that place nothing);
  lemmas: TmVerif/Master/RestoreLemmas.lean.
-/
import TmVerif.Master.RestoreLemmas
import TmVerif.Props.C10

namespace TmVerif.Master
open TmVerif.Sched

/-- Invariant of `restore_placements`' loops: every placement of the cell is a record of the
    ORIGINAL store; every record written so far republishes an existing record of the original
    store under a server satisfying `P` (a loaded one); the writes start with `pre`. -/
def OnlyRecorded (st : Store) (P : Nat → Prop) (pre : List Write) (c : Cell) (ws : List Write) : Prop :=
  (∀ x s, srvOf c x = some s → HasKey st s x) ∧
  (∀ w ∈ ws, ∀ s a i n e, w = Write.putRec s a i n e → HasKey st s a ∧ P s) ∧
  pre <+: ws

theorem hasKey_of_putsIn (now : Int) (st : Store) (ws : List Write)
    (h : ∀ w ∈ ws, ∀ s a i n e, w = Write.putRec s a i n e → HasKey st s a) (s a : Nat)
    (hk : HasKey (st.applyAll now ws) s a) : HasKey st s a := by
  rcases hasKey_applyAll_origin now ws st s a hk with h' | ⟨i, n, e, hm⟩
  · exact h'
  · exact h _ hm s a i n e rfl

theorem restoreStep_keeps {st : Store} {P : Nat → Prop} {pre : List Write} {now : Int} {acc acc' : LState} {sid : Nat}
    (hP : P sid) (h : restoreStep st now acc sid = .ok acc') (hi : OnlyRecorded st P pre acc.cell acc.writes) :
    OnlyRecorded st P pre acc'.cell acc'.writes := by
  unfold restoreStep at h
  obtain ⟨r, hr, h⟩ := bind_ok'.mp h
  obtain ⟨c1, ws1, restored⟩ := r
  simp only [pure, Except.pure] at h
  injection h with h; subst h
  obtain ⟨s1, s2⟩ := restorePlacement_spec hr
  have hback : ∀ s a, HasKey (st.applyAll now acc.writes) s a → HasKey st s a :=
    fun s a hk => hasKey_of_putsIn now st acc.writes (fun w hw s a i n e he => (hi.2.1 w hw s a i n e he).1) s a hk
  refine ⟨?_, ?_, ?_⟩
  · intro x s hs
    rcases s1 x s hs with h' | ⟨rfl, hk⟩
    · exact hi.1 x s h'
    · exact hback _ x hk
  · intro w hw s a i n e he
    rcases List.mem_append.mp hw with h' | h'
    · exact hi.2.1 w h' s a i n e he
    · obtain ⟨rfl, hk⟩ := s2 w h' s a i n e he
      exact ⟨hback _ a hk, hP⟩
  · exact List.IsPrefix.trans hi.2.2 (List.prefix_append _ _)

theorem restoreLoop_keeps {st : Store} {P : Nat → Prop} {pre : List Write} {now : Int} :
    ∀ (order : List Nat) (acc acc' : LState), (∀ sid ∈ order, P sid) →
      order.foldlM (restoreStep st now) acc = .ok acc' →
      OnlyRecorded st P pre acc.cell acc.writes → OnlyRecorded st P pre acc'.cell acc'.writes := by
  intro order
  induction order with
  | nil =>
    intro acc acc' _ h hi
    simp only [List.foldlM, pure, Except.pure] at h
    injection h with h; subst h; exact hi
  | cons sid t ih =>
    intro acc acc' hP h hi
    simp only [List.foldlM] at h
    obtain ⟨acc1, h1, h⟩ := bind_ok'.mp h
    exact ih acc1 acc' (fun x hx => hP x (List.mem_cons_of_mem _ hx)) h
      (restoreStep_keeps (hP sid List.mem_cons_self) h1 hi)

theorem dedupOne_keeps {st : Store} {P : Nat → Prop} {pre : List Write} {aid sid : Nat} {acc acc' : Cell × List Write}
    (h : dedupOne aid acc sid = .ok acc') (hi : OnlyRecorded st P pre acc.1 acc.2) :
    OnlyRecorded st P pre acc'.1 acc'.2 := by
  unfold dedupOne at h
  obtain ⟨c1, h1, h⟩ := bind_ok'.mp h
  simp only [pure, Except.pure] at h
  injection h with h; subst h
  refine ⟨?_, ?_, ?_⟩
  · intro x s hs
    rw [serverRemove_srvOf h1 x] at hs
    split at hs
    · cases hs
    · exact hi.1 x s hs
  · intro w hw s a i n e he
    rcases List.mem_append.mp hw with h' | h'
    · exact hi.2.1 w h' s a i n e he
    · simp only [List.mem_singleton] at h'; subst h'; cases he
  · exact List.IsPrefix.trans hi.2.2 (List.prefix_append _ _)

theorem dedupApp_keeps {st : Store} {P : Nat → Prop} {pre : List Write} {p : Nat × List Nat} :
    ∀ (l : List Nat) (acc acc' : Cell × List Write), l.foldlM (dedupOne p.1) acc = .ok acc' →
      OnlyRecorded st P pre acc.1 acc.2 → OnlyRecorded st P pre acc'.1 acc'.2 := by
  intro l
  induction l with
  | nil =>
    intro acc acc' h hi
    simp only [List.foldlM, pure, Except.pure] at h
    injection h with h; subst h; exact hi
  | cons sid t ih =>
    intro acc acc' h hi
    simp only [List.foldlM] at h
    obtain ⟨acc1, h1, h⟩ := bind_ok'.mp h
    exact ih acc1 acc' h (dedupOne_keeps h1 hi)

theorem dedupLoop_keeps {st : Store} {P : Nat → Prop} {pre : List Write} :
    ∀ (l : List (Nat × List Nat)) (acc acc' : Cell × List Write), l.foldlM dedupApp acc = .ok acc' →
      OnlyRecorded st P pre acc.1 acc.2 → OnlyRecorded st P pre acc'.1 acc'.2 := by
  intro l
  induction l with
  | nil =>
    intro acc acc' h hi
    simp only [List.foldlM, pure, Except.pure] at h
    injection h with h; subst h; exact hi
  | cons p t ih =>
    intro acc acc' h hi
    simp only [List.foldlM] at h
    obtain ⟨acc1, h1, h⟩ := bind_ok'.mp h
    exact ih acc1 acc' h (dedupApp_keeps p.2 acc acc1 h1 hi)

theorem mem_dropUnloaded {c : Cell} {st : Store} {w : Write} :
    w ∈ dropUnloaded c st ↔ ∃ s a, w = .delRec s a ∧ s ∈ st.servers ∧ s ∉ c.srvs.map (·.id) ∧ HasKey st s a := by
  simp only [dropUnloaded, List.mem_flatMap, List.mem_filter, List.mem_map]
  constructor
  · rintro ⟨s, ⟨hs, hnot⟩, a, ha, rfl⟩
    refine ⟨s, a, rfl, hs, ?_, mem_appsOn.mp ha⟩
    simpa using hnot
  · rintro ⟨s, a, rfl, hs, hnot, hk⟩
    exact ⟨s, ⟨hs, by simpa using hnot⟩, a, mem_appsOn.mpr hk, rfl⟩

theorem restorePlacements_inv {c c' : Cell} {st : Store} {order : List Nat} {ws : List Write}
    (hfresh : ∀ x, srvOf c x = none) (h : restorePlacements c st order = .ok (c', ws)) :
    OnlyRecorded st (fun s => s ∈ c.srvs.map (·.id)) (dropUnloaded c st) c' ws := by
  unfold restorePlacements at h
  split at h
  · cases h
  · rename_i hperm
    have hperm : isPerm order (c.srvs.map (·.id)) = true := by simpa using hperm
    obtain ⟨ls, h1, h2⟩ := bind_ok'.mp h
    have i0 : OnlyRecorded st (fun s => s ∈ c.srvs.map (·.id)) (dropUnloaded c st) c (dropUnloaded c st) := by
      refine ⟨fun x s hs => (by rw [hfresh x] at hs; cases hs), ?_, List.prefix_refl _⟩
      intro w hw s a i n e he
      obtain ⟨_, _, rfl, _⟩ := mem_dropUnloaded.mp hw
      cases he
    have i1 := restoreLoop_keeps order _ ls (fun sid hsid => (isPerm_mem hperm sid).mp hsid) h1 i0
    exact dedupLoop_keeps _ _ (c', ws) h2 i1

/-- **C11, "places nothing that is not recorded".**  Let `c` be the model a starting master has
    loaded before `restore_placements` (it places nothing yet).  Whatever the store holds (records of
    a crashed predecessor, stale instances, double records, records under servers that are gone) and
    in whatever order the servers are visited: every instance the rebuilt model places is recorded in
    the store, under that very server — and `restore_placements` creates no record: a `putRec` it
    issues (fix d79bbbc: the put branch republishes the new expiry) addresses a record that exists
    in the store, under a loaded server. -/
theorem C11_nothing_unrecorded (c c' : Cell) (st : Store) (order : List Nat) (ws : List Write)
    (hfresh : ∀ x, srvOf c x = none)
    (h : restorePlacements c st order = .ok (c', ws)) :
    (∀ app srv, placedOn c' app srv → ∃ r ∈ st.recs, r.srv = srv ∧ r.app = app) ∧
    (∀ w ∈ ws, ∀ s a i n e, w = .putRec s a i n e →
      (∃ r ∈ st.recs, r.srv = s ∧ r.app = a) ∧ s ∈ c.srvs.map (·.id)) := by
  have inv := restorePlacements_inv hfresh h
  exact ⟨fun app srv hp => inv.1 app srv (placedOn_iff.mp hp), inv.2.1⟩

/-- **After `restore_placements` no record is left under a server that is not loaded** (fix dbbb9e3;
    this was the start-up face of finding F6): what `C09_init` / `C10_init_prefix` need as `hloaded`.
    `hparent`: a record's server node is listed by `get_children(/placement)`. -/
theorem C11_startup_loaded (c c' : Cell) (st : Store) (order : List Nat) (ws : List Write) (now : Int)
    (hfresh : ∀ x, srvOf c x = none) (hparent : ∀ r ∈ st.recs, r.srv ∈ st.servers)
    (h : restorePlacements c st order = .ok (c', ws)) :
    ∀ r ∈ (st.applyAll now ws).recs, r.srv ∈ c.srvs.map (·.id) := by
  have inv := restorePlacements_inv hfresh h
  obtain ⟨rest, hrest⟩ := inv.2.2
  intro r hr
  have hk : HasKey (st.applyAll now ws) r.srv r.app := ⟨r, hr, rfl, rfl⟩
  rw [← hrest, applyAll_append] at hk
  rcases hasKey_applyAll_origin now rest _ r.srv r.app hk with h0 | ⟨i, n, e, hm⟩
  · have hdels : ∀ w ∈ dropUnloaded c st, ∃ s' a', w = Write.delRec s' a' := by
      intro w hw
      obtain ⟨s, a, rfl, _⟩ := mem_dropUnloaded.mp hw
      exact ⟨s, a, rfl⟩
    obtain ⟨h1, hnd⟩ := (hasKey_applyAll_dels now _ st r.srv r.app hdels).mp h0
    apply Classical.byContradiction
    intro hnot
    apply hnd
    have h1' := h1
    obtain ⟨r0, hr0, e1, _⟩ := h1
    exact mem_dropUnloaded.mpr ⟨r.srv, r.app, rfl, e1 ▸ hparent r0 hr0, hnot, h1'⟩
  · exact (inv.2.1 _ (hrest ▸ List.mem_append_right _ hm) r.srv r.app i n e rfl).2

/-- The same for the single-server reload (`reload_server` → `restore_placement(servername,
    restore_identity=False)`): it can only ADD placements of instances recorded under that server,
    on that server. -/
theorem C11_reload_only_recorded (c c' : Cell) (st : Store) (sid : Nat) (ri : Bool) (ws : List Write)
    (restored : List Nat) (h : restorePlacement c st sid ri = .ok (c', ws, restored)) :
    ∀ app srv, placedOn c' app srv → placedOn c app srv ∨ (srv = sid ∧ ∃ r ∈ st.recs, r.srv = sid ∧ r.app = app) := by
  intro app srv hp
  rcases (restorePlacement_spec h).1 app srv (placedOn_iff.mp hp) with h' | ⟨rfl, hk⟩
  · exact Or.inl (placedOn_iff.mpr h')
  · exact Or.inr ⟨rfl, hk⟩

/-- **C11, fidelity of a successful restore (partial).**  For the reload of one server
    (`restore_placement(srv, restore_identity=True)`, the body of `restore_placements`' loop): every
    instance the call reports as restored whose record is fresh (the presence node exists, its ctime
    is not younger than the record's: the server did not restart since the instance was placed) is
    afterwards placed on that very server, with the recorded expiry and the recorded identity —
    whatever the other records under the server are and in whatever state the rest of the cell is.
    PARTIAL with respect to the property: (1) THAT the restore of a record under a healthy server
    succeeds (capacity, partition, traits, affinity limits still admit it) is not proved here; it is
    decided by the monitor on the real code (instances of one affinity share their limits; one
    known finding, F14: a server moved to another rack without the running master being told); (2) the statement is for one
    server's pass; that the passes of the other servers and the final de-duplication leave the
    instance alone (no record under two servers, C10) is covered by the correspondence run. -/
theorem C11_restore_fidelity_partial (c c' : Cell) (st : Store) (sid : Nat) (ws : List Write) (restored : List Nat)
    (hnd : (st.appsOn sid).Nodup)
    (h : restorePlacement c st sid true = .ok (c', ws, restored)) :
    ∀ aid ∈ restored, ∀ r, st.rec? sid aid = some r → presenceFresh st sid r = true →
      ∃ a, c'.app? aid = some a ∧ a.server = some sid ∧
        (∀ e, r.expires = some e → a.expiry = some e) ∧ (∀ k, r.identity = some k → a.identity = some k) := by
  unfold restorePlacement at h
  split at h
  · cases h
  · obtain ⟨c1, h1, h⟩ := bind_ok'.mp h
    obtain ⟨rs, h2, h⟩ := bind_ok'.mp h
    simp only [pure, Except.pure] at h
    injection h with h; injection h with e1 e2; injection e2 with e2 e3
    subst e1 e2 e3
    intro aid haid r hr hf
    rcases (restoreLoop_restored _ _ _ hnd h2).2 aid haid with h' | ⟨_, hgood⟩
    · cases h'
    · exact hgood r hr hf

/-! ### non-vacuity -/

namespace Ex2
/-- the model a starting master has loaded before `restore_placements`: servers 1 and 2, instance 10 unplaced -/
def loaded : Cell := { getOk (runOps (Cell.init 1000 1)
  [.addBucket 1001 1000 3, .setAlloc 1 ⟨0, 0, 0⟩, .addServer 1 1001 ⟨4, 4, 4⟩ 0 0 100000,
   .addServer 2 1001 ⟨4, 4, 4⟩ 0 0 100000, .addApp (Ex.mkApp 10 100)]) with now := 60 }
/-- a healthy record: presence of server 1 (ctime 1 ms) is not younger than the record (ctime 5 ms) -/
def store : Store :=
  { pnodes := [⟨1, none⟩, ⟨2, none⟩], recs := [⟨1, 10, none, none, some 100, 5⟩],
    presence := [(1, 1), (2, 1)], scheduled := [10] }
end Ex2

/-- Non-vacuity of `C11_nothing_unrecorded`: a concrete freshly loaded model and a store with one
    healthy record; `restore_placements` completes and restores the instance on the recorded server
    with the recorded expiry (so the conclusion is about a non-empty placement). -/
example : (∀ x, srvOf Ex2.loaded x = none) ∧
    isOkB (restorePlacements Ex2.loaded (Ex2.store) [1, 2]) = true ∧
    ((getOk (restorePlacements Ex2.loaded (Ex2.store) [1, 2])).1.app? 10).map (fun a => (a.server, a.expiry))
      = some (some 1, some 100) := by
  refine ⟨?_, by decide +kernel, by decide +kernel⟩
  intro x
  have hall : Ex2.loaded.apps.all (fun a => a.server == none) = true := by decide +kernel
  unfold srvOf
  cases hx : Ex2.loaded.app? x with
  | none => rfl
  | some a =>
    have := List.all_eq_true.mp hall a (List.mem_of_find?_eq_some hx)
    simpa using this

/-- Non-vacuity of `C11_restore_fidelity_partial`: for the concrete healthy record the hypotheses hold
    and instance 10 is in the restored list. -/
example : (Ex2.store.appsOn 1).Nodup ∧
    isOkB (restorePlacement Ex2.loaded Ex2.store 1 true) = true ∧
    (getOk (restorePlacement Ex2.loaded Ex2.store 1 true)).2.2 = [10] ∧
    (Ex2.store.rec? 1 10).map (presenceFresh Ex2.store 1) = some true := by
  refine ⟨by decide +kernel, by decide +kernel, by decide +kernel, by decide +kernel⟩

end TmVerif.Master
