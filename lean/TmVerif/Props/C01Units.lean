/-
  C01 (units clause) / C19 (unit spellings) — equivalent spellings of a quantity parse to the
  same number, for EVERY natural number `n`.

  `dec n` is `Nat.toDigits 10 n`, the character list of `toString n` (`dec_eq_toString`), i.e. the
  decimal numeral Python's `str(n)` prints.  Parsers: `TmVerif/Units/Model.lean`.
  All statements carry the hypothesis `WithinLimit …`: the running interpreter refuses to
  `int()` a string of more than `sys.get_int_max_str_digits()` (extracted: `intMaxStrDigits`)
  digits, so beyond that length the two sides of e.g. `n"G" = (1024·n)"M"` genuinely differ
  (`units_digit_limit_witness`).
-/
import TmVerif.Units.Lemmas

namespace TmVerif.Units
open TmVerif.ExtReserve

/-- Decimal numeral of `n`. -/
abbrev dec (n : Nat) : List Char := Nat.toDigits 10 n

theorem dec_eq_toString (n : Nat) : (toString n).toList = dec n := Nat.toList_repr

theorem withinLimit_mono {m n : Nat} (h : m ≤ n) (hl : WithinLimit (dec n).length) :
    WithinLimit (dec m).length := by
  by_cases hz : intMaxStrDigits = 0
  · exact Or.inl hz
  · rcases hl with h0 | hl
    · exact Or.inl h0
    · right
      have hpos : 0 < intMaxStrDigits := Nat.pos_of_ne_zero hz
      rw [Nat.length_toDigits_le_iff (by decide) hpos] at hl ⊢
      omega

/-- Every suffix of the size-scale table is its own upper case and not white space. -/
theorem scale_char_facts_tbl : ∀ p ∈ sizeScale,
    upperC (Char.ofNat p.1) = [Char.ofNat p.1] ∧ isPySpace (Char.ofNat p.1) = false := by decide

theorem lookupNat_mem {β} (k : Nat) (l : List (Nat × β)) (v : β) (h : lookupNat k l = some v) :
    (k, v) ∈ l := by
  induction l with
  | nil => cases h
  | cons p t ih =>
    obtain ⟨k', v'⟩ := p
    simp only [lookupNat] at h
    split at h
    · rename_i e; cases h; subst e; exact List.mem_cons_self
    · exact List.mem_cons_of_mem _ (ih h)

theorem scale_char_facts {u : Char} {k : Nat} (h : scaleOf u = some k) :
    upperC u = [u] ∧ isPySpace u = false := by
  have := scale_char_facts_tbl _ (lookupNat_mem _ _ _ h)
  simpa [Char.ofNat_toNat] using this

/-- **size_to_bytes, binary suffixes.** `size_to_bytes(str(n) + u) = n · 1024^k` for every suffix
    `u ≠ 'B'` of the extracted table with exponent `k`. -/
theorem C01_units_size_to_bytes (n : Nat) (u : Char) (k : Nat) (hk : scaleOf u = some k)
    (hB : u ≠ 'B') (hl : WithinLimit (dec n).length) :
    sizeToBytes (dec n ++ [u]) = .ok ((n : Int) * 1024 ^ k) := by
  obtain ⟨hu, hs⟩ := scale_char_facts hk
  have := sizeToBytes_dec_unit (dec n) [] u u k Nat.toDigits_ne_nil (toDigits_dec n) hu hs hB hk
    (fun x hx => by cases hx) hl
  simpa [decVal_toDigits] using this

/-- **size_to_bytes, decimal suffixes** (`GB` is a different quantity from `G`):
    `size_to_bytes(str(n) + u + 'B') = n · 1000^k`. -/
theorem C01_units_size_to_bytes_B (n : Nat) (u : Char) (k : Nat) (hk : scaleOf u = some k)
    (hl : WithinLimit (dec n).length) :
    sizeToBytes (dec n ++ [u, 'B']) = .ok ((n : Int) * 1000 ^ k) := by
  obtain ⟨hu, _⟩ := scale_char_facts hk
  have := sizeToBytes_dec_unitB (dec n) [] u u 'B' k Nat.toDigits_ne_nil (toDigits_dec n) hu
    (by decide) hk (fun x hx => by cases hx) hl
  simpa [decVal_toDigits] using this

/-- **One step up the scale is a factor 1024**: `size_to_bytes(nG) = 1024 · size_to_bytes(nM)`,
    `nT = 1024 · nG`, … for any two suffixes with consecutive exponents. -/
theorem C01_units_size_step (n : Nat) (u u' : Char) (k : Nat) (hk : scaleOf u = some k)
    (hk' : scaleOf u' = some (k + 1)) (hB : u ≠ 'B') (hB' : u' ≠ 'B')
    (hl : WithinLimit (dec n).length) :
    ∃ v, sizeToBytes (dec n ++ [u]) = .ok v ∧ sizeToBytes (dec n ++ [u']) = .ok (1024 * v) := by
  refine ⟨_, C01_units_size_to_bytes n u k hk hB hl, ?_⟩
  rw [C01_units_size_to_bytes n u' (k + 1) hk' hB' hl, Int.pow_succ]
  congr 1
  rw [Int.mul_comm 1024, Int.mul_assoc]

theorem scale_K : scaleOf 'K' = some 1 := by decide
theorem scale_M : scaleOf 'M' = some 2 := by decide
theorem scale_G : scaleOf 'G' = some 3 := by decide
theorem scale_T : scaleOf 'T' = some 4 := by decide

theorem megabytes_dec (n : Nat) (u : Char) (k : Nat) (hk : scaleOf u = some k) (hB : u ≠ 'B')
    (hl : WithinLimit (dec n).length) :
    megabytes (dec n ++ [u]) = .ok ((n : Int) * 1024 ^ k / 1024 / 1024) := by
  obtain ⟨hu, hs⟩ := scale_char_facts hk
  have := megabytes_dec_unit (dec n) [] u u k Nat.toDigits_ne_nil (toDigits_dec n) hu hs hB hk
    (fun x hx => by cases hx) hl
  simpa [decVal_toDigits] using this

theorem kilobytes_dec (n : Nat) (u : Char) (k : Nat) (hk : scaleOf u = some k) (hB : u ≠ 'B')
    (hl : WithinLimit (dec n).length) :
    kilobytes (dec n ++ [u]) = .ok ((n : Int) * 1024 ^ k / 1024) := by
  obtain ⟨hu, hs⟩ := scale_char_facts hk
  have := kilobytes_dec_unit (dec n) [] u u k Nat.toDigits_ne_nil (toDigits_dec n) hu hs hB hk
    (fun x hx => by cases hx) hl
  simpa [decVal_toDigits] using this

/-- **megabytes: `nG` = `(1024·n)M`** (both are `1024·n` megabytes). -/
theorem C01_units_megabytes_G_M (n : Nat) (hl : WithinLimit (dec (1024 * n)).length) :
    megabytes (dec n ++ ['G']) = megabytes (dec (1024 * n) ++ ['M']) ∧
    megabytes (dec n ++ ['G']) = .ok (1024 * (n : Int)) := by
  have hn := withinLimit_mono (Nat.le_mul_of_pos_left n (by decide : 0 < 1024)) hl
  rw [megabytes_dec n 'G' 3 scale_G (by decide) hn,
    megabytes_dec (1024 * n) 'M' 2 scale_M (by decide) hl]
  have e3 : (1024 : Int) ^ 3 = 1073741824 := by rfl
  have e2 : (1024 : Int) ^ 2 = 1048576 := by rfl
  rw [e3, e2]
  constructor
  · refine congrArg _ ?_; rw [Int.natCast_mul]; omega
  · refine congrArg _ ?_; omega

/-- **megabytes: `nT` = `(1024·n)G`**. -/
theorem C01_units_megabytes_T_G (n : Nat) (hl : WithinLimit (dec (1024 * n)).length) :
    megabytes (dec n ++ ['T']) = megabytes (dec (1024 * n) ++ ['G']) ∧
    megabytes (dec n ++ ['T']) = .ok (1048576 * (n : Int)) := by
  have hn := withinLimit_mono (Nat.le_mul_of_pos_left n (by decide : 0 < 1024)) hl
  rw [megabytes_dec n 'T' 4 scale_T (by decide) hn,
    megabytes_dec (1024 * n) 'G' 3 scale_G (by decide) hl]
  have e4 : (1024 : Int) ^ 4 = 1099511627776 := by rfl
  have e3 : (1024 : Int) ^ 3 = 1073741824 := by rfl
  rw [e4, e3]
  constructor
  · refine congrArg _ ?_; rw [Int.natCast_mul]; omega
  · refine congrArg _ ?_; omega

/-- **kilobytes / size_to_bytes: `nG` = `(1024·n)M`, `nT` = `(1024·n)G`** as well. -/
theorem C01_units_bytes_G_M (n : Nat) (hl : WithinLimit (dec (1024 * n)).length) :
    sizeToBytes (dec n ++ ['G']) = sizeToBytes (dec (1024 * n) ++ ['M']) ∧
    sizeToBytes (dec n ++ ['T']) = sizeToBytes (dec (1024 * n) ++ ['G']) ∧
    kilobytes (dec n ++ ['G']) = kilobytes (dec (1024 * n) ++ ['M']) ∧
    kilobytes (dec n ++ ['T']) = kilobytes (dec (1024 * n) ++ ['G']) := by
  have hn := withinLimit_mono (Nat.le_mul_of_pos_left n (by decide : 0 < 1024)) hl
  rw [C01_units_size_to_bytes n 'G' 3 scale_G (by decide) hn,
    C01_units_size_to_bytes (1024 * n) 'M' 2 scale_M (by decide) hl,
    C01_units_size_to_bytes n 'T' 4 scale_T (by decide) hn,
    C01_units_size_to_bytes (1024 * n) 'G' 3 scale_G (by decide) hl,
    kilobytes_dec n 'G' 3 scale_G (by decide) hn,
    kilobytes_dec (1024 * n) 'M' 2 scale_M (by decide) hl,
    kilobytes_dec n 'T' 4 scale_T (by decide) hn,
    kilobytes_dec (1024 * n) 'G' 3 scale_G (by decide) hl]
  have e4 : (1024 : Int) ^ 4 = 1099511627776 := by rfl
  have e3 : (1024 : Int) ^ 3 = 1073741824 := by rfl
  have e2 : (1024 : Int) ^ 2 = 1048576 := by rfl
  rw [e4, e3, e2]
  refine ⟨?_, ?_, ?_, ?_⟩ <;> (refine congrArg _ ?_; rw [Int.natCast_mul]; omega)

/-- **cpu: `n%` and the bare digits both mean `n`.** -/
theorem C01_units_cpu (n : Nat) (hl : WithinLimit (dec n).length) :
    cpuUnits (dec n ++ ['%']) = .ok (n : Int) ∧ cpuUnits (dec n) = .ok (n : Int) := by
  constructor
  · have := cpuUnits_dec_percent (dec n) [] '%' Nat.toDigits_ne_nil (toDigits_dec n) (by decide)
      (fun x hx => by cases hx) hl
    simpa [decVal_toDigits] using this
  · have := cpuUnits_dec (dec n) [] Nat.toDigits_ne_nil (toDigits_dec n)
      (fun x hx => by cases hx) hl
    simpa [decVal_toDigits] using this

/-- **Case-insensitivity.** Lower- or upper-casing (ASCII) any argument string changes the result
    of none of the four parsers (`10g`, `10G`; `5Kb`, `5KB`; …). -/
theorem C01_units_case_insensitive (s : List Char) :
    (cpuUnits (s.map Char.toLower) = cpuUnits s ∧ sizeToBytes (s.map Char.toLower) = sizeToBytes s ∧
     kilobytes (s.map Char.toLower) = kilobytes s ∧ megabytes (s.map Char.toLower) = megabytes s) ∧
    (cpuUnits (s.map Char.toUpper) = cpuUnits s ∧ sizeToBytes (s.map Char.toUpper) = sizeToBytes s ∧
     kilobytes (s.map Char.toUpper) = kilobytes s ∧ megabytes (s.map Char.toUpper) = megabytes s) :=
  ⟨parsers_of_norm_eq _ _ (norm_map_toLower s), parsers_of_norm_eq _ _ (norm_map_toUpper s)⟩

/-- Lower-case suffix, spelled out: `size_to_bytes(str(n)+'g') = size_to_bytes(str(n)+'G')`. -/
theorem C01_units_lower_suffix (n : Nat) (u : Char) :
    sizeToBytes (dec n ++ [u.toLower]) = sizeToBytes (dec n ++ [u]) ∧
    megabytes (dec n ++ [u.toLower]) = megabytes (dec n ++ [u]) := by
  have h : norm (dec n ++ [u.toLower]) = norm (dec n ++ [u]) := by
    simp only [norm, upper, List.flatMap_append, List.flatMap_cons, List.flatMap_nil,
      upperC_toLower]
  exact ⟨(parsers_of_norm_eq _ _ h).2.1, (parsers_of_norm_eq _ _ h).2.2.2⟩

/-! ### non-vacuity / sanity on concrete values (kernel-evaluated) -/

example : WithinLimit (dec (1024 * 123456789)).length := by decide
example : megabytes "2G".toList = .ok 2048 ∧ megabytes "2048M".toList = .ok 2048 := by decide
example : sizeToBytes "1KB".toList = .ok 1000 ∧ sizeToBytes "1K".toList = .ok 1024 := by decide
example : cpuUnits " 10% ".toList = .ok 10 ∧ cpuUnits "abc".toList = .error .valueError := by decide
example : sizeToBytes [] = .error .indexError ∧ kilobytes "10".toList = .error .exception := by decide
example : kilobytes "0".toList = .ok 0 ∧ sizeToBytes "-1_0 m".toList = .ok (-10485760) := by decide
/-- Arabic-Indic digits, a no-break space and a trailing newline are accepted like Python does. -/
example : sizeToBytes [Char.ofNat 1635, Char.ofNat 160, 'g', '\n'] = .ok (3 * 1024 ^ 3) := by decide


/-- The digit limit is real: a string of `intMaxStrDigits` digits parses, one more digit is a
    `ValueError` (kernel-evaluated on the extracted limit). -/
theorem units_digit_limit_witness : intMaxStrDigits ≠ 0 →
    cpuUnits (List.replicate intMaxStrDigits '1' ++ ['%']) ≠ .error .valueError ∧
    cpuUnits (List.replicate (intMaxStrDigits + 1) '1' ++ ['%']) = .error .valueError := by
  decide +kernel

end TmVerif.Units
