/-
  Property theorems about the loader's event handlers as call sequences (model:
  TmVerif/Master/LoaderOps.lean; tie: `fops` lines of the master engine).  They say WHICH calls into the cell
  and the store a handler makes for given stored records and loader tables; what each call does to the cell
  is the subject of the scheduler theorems (`Sched.step`), which the composition statements at the end cite.
  Each theorem is listed under the property whose statement depends on it.
-/
import TmVerif.Master.LoaderOps
import TmVerif.Master.LoaderDecodeLemmas
import TmVerif.Sched.InvCapOps

namespace TmVerif.LoaderOps
open TmVerif.Sched TmVerif.Master TmVerif.LoaderDecode

/-! ### helpers -/

def LCall.isAddServer : LCall → Bool
  | .cell (.addServer ..) => true
  | _ => false

def LCall.isAddApp : LCall → Bool
  | .cell (.addApp _) => true
  | _ => false

/-- The server a call concerns (`none`: an instance-level call). -/
def LCall.server? : LCall → Option Nat
  | .cell (.addServer s ..) => some s
  | .cell (.detachServer s) => some s
  | .cell (.serverRemoveAll s) => some s
  | .cell (.setState s ..) => some s
  | .cell (.setValidUntil s _) => some s
  | .write (.mkNode s) => some s
  | .write (.putState s _) => some s
  | .write (.delRec s _) => some s
  | .restoreOne s _ => some s
  | _ => none

def unconv : SState → SrvState.S
  | .up => .up | .down => .down | .frozen => .frozen

@[simp] theorem unconv_conv (s : SrvState.S) : unconv (conv s) = s := by cases s <;> rfl

/-- What a recorded `set_state` call does to the in-memory pair (`Server.set_state`); other calls leave it. -/
def applyState (s : SrvState.Srv) : LCall → SrvState.Srv
  | .cell (.setState _ st since) => s.set (unconv st) since
  | _ => s

def writesOf (l : List LCall) : List Write :=
  l.filterMap (fun c => match c with | .write w => some w | _ => none)

theorem recordCalls_cases (sid : Nat) (o : SrvState.Rec) :
    recordCalls sid o = [] ∨ ∃ st t, recordCalls sid o = [.write (.putState sid (some (conv st, t)))] := by
  cases o with
  | none => exact Or.inl rfl
  | some p => exact Or.inr ⟨p.1, p.2, rfl⟩

theorem adjustSecond_noAdd (sid : Nat) (i : AdjIn) : ∀ c ∈ adjustSecond sid i, c.isAddServer = false := by
  intro c hc
  unfold adjustSecond at hc
  simp only at hc
  split at hc
  · simp at hc; subst hc; rfl
  · split at hc
    · simp at hc; subst hc; rfl
    · simp at hc

theorem adjustCalls_noAdd (sid : Nat) (i : AdjIn) : ∀ c ∈ adjustCalls sid i, c.isAddServer = false := by
  intro c hc
  unfold adjustCalls at hc
  simp only [List.mem_append, List.mem_singleton] at hc
  rcases hc with (rfl | hc) | hc
  · rfl
  · exact adjustSecond_noAdd sid i c hc
  · rcases recordCalls_cases sid (SrvState.adjust i.cur i.stored i.present i.now).2 with h | ⟨st, t, h⟩
    · rw [h] at hc; simp at hc
    · rw [h] at hc; simp at hc; subst hc; rfl

theorem fold_wlist (s : SrvState.Srv) (o : SrvState.Rec) (sid : Nat) :
    (recordCalls sid o).foldl applyState s = s := by
  cases o <;> rfl

theorem writes_wlist (o : SrvState.Rec) (sid : Nat) :
    writesOf (recordCalls sid o) = (o.map (fun p => Write.putState sid (some (conv p.1, p.2)))).toList := by
  cases o <;> rfl

theorem writes_second (sid : Nat) (i : AdjIn) : writesOf (adjustSecond sid i) = [] := by
  unfold adjustSecond
  simp only
  split
  · rfl
  · split <;> rfl

theorem writesOf_append (a b : List LCall) : writesOf (a ++ b) = writesOf a ++ writesOf b := by
  simp [writesOf, List.filterMap_append]

theorem validUntilCalls_noAdd (sid : Nat) (p : Bool) (v : Int) :
    ∀ c ∈ validUntilCalls sid p v, c.isAddServer = false := by
  intro c hc
  unfold validUntilCalls at hc
  split at hc
  · simp at hc; subst hc; rfl
  · simp at hc

/-! ### C08: `adjust_server_state` -/

/-- **C08 (the state adjustment is what `SrvState.adjust` says, call by call).**  The `set_state` calls
    `adjust_server_state` makes, applied in order to the in-memory pair, give exactly the pair of
    `SrvState.adjust` (the function the C08 state theorems are about), the storage writes are exactly the
    record `adjust` says is written (none when the state is the stored one), the first call puts the
    STORED state back (or `down` since now when nothing is stored), and every call concerns this server. -/
theorem C08_adjust_ops (sid : Nat) (i : AdjIn) :
    (adjustCalls sid i).foldl applyState i.cur = (SrvState.adjust i.cur i.stored i.present i.now).1 ∧
    writesOf (adjustCalls sid i) =
      ((SrvState.adjust i.cur i.stored i.present i.now).2.map
        (fun p => Write.putState sid (some (conv p.1, p.2)))).toList ∧
    (adjustCalls sid i).head? =
      some (.cell (.setState sid (conv (i.stored.getD (.down, i.now)).1) (i.stored.getD (.down, i.now)).2)) ∧
    ∀ c ∈ adjustCalls sid i, c.server? = some sid := by
  refine ⟨?_, ?_, ?_, ?_⟩
  · simp only [adjustCalls, List.foldl_append, List.foldl_cons, List.foldl_nil, fold_wlist, applyState, unconv_conv]
    obtain ⟨cur, stored, present, now⟩ := i
    simp only [adjustSecond, SrvState.adjust]
    cases present
    · simp [applyState, unconv]
    · by_cases hf : (cur.set (stored.getD (.down, now)).1 (stored.getD (.down, now)).2).state = .frozen
      · simp [hf]
      · simp [hf, applyState, unconv]
  · simp only [adjustCalls, writesOf_append, writes_second, writes_wlist]
    simp [writesOf]
  · simp [adjustCalls]
  · intro c hc
    simp only [adjustCalls, List.mem_append, List.mem_singleton] at hc
    rcases hc with (rfl | hc) | hc
    · rfl
    · unfold adjustSecond at hc
      simp only at hc
      split at hc
      · simp at hc; subst hc; rfl
      · split at hc
        · simp at hc; subst hc; rfl
        · simp at hc
    · rcases recordCalls_cases sid (SrvState.adjust i.cur i.stored i.present i.now).2 with h | ⟨st, t, h⟩
      · rw [h] at hc; simp at hc
      · rw [h] at hc; simp at hc; subst hc; rfl

/-! ### C01 / C03: `load_server` -/

/-- **C01 / C03 (a loaded server is what its record says, attached where its record says).**  For a record
    whose parent bucket is loaded, `load_server` makes exactly ONE `add_node` call, first, with the record's
    decoded capacity, partition label, traits and parent; then creates /placement/<server> if it is missing,
    then adjusts the state of the fresh (`up` since now) object, then sets the valid-until — nothing else.
    Without record (or data), or with a parent that is not a loaded bucket: no call at all, and the server is
    not in the loader's table. -/
theorem C01_C03_load_server_ops (sid : Nat) (i : LoadIn) :
    (∀ r, i.srec = some r → r.parentLoaded = true →
      loadCalls sid i =
        .cell (.addServer sid r.attrs.parent (vecOf r.attrs.cap) r.attrs.label r.attrs.traits 0) ::
          ((if i.nodeExists then [] else [.write (.mkNode sid)]) ++
           adjustCalls sid { cur := SrvState.Srv.fresh i.now, stored := i.prec, present := i.present, now := i.now } ++
           validUntilCalls sid i.present i.validUntil) ∧
      ((loadCalls sid i).filter LCall.isAddServer).length = 1 ∧ loadLoads i = true) ∧
    ((i.srec = none ∨ ∃ r, i.srec = some r ∧ r.parentLoaded = false) →
      loadCalls sid i = [] ∧ loadLoads i = false) := by
  refine ⟨?_, ?_⟩
  · intro r hr hp
    have h1 : loadCalls sid i =
        .cell (.addServer sid r.attrs.parent (vecOf r.attrs.cap) r.attrs.label r.attrs.traits 0) ::
          ((if i.nodeExists then [] else [.write (.mkNode sid)]) ++
           adjustCalls sid { cur := SrvState.Srv.fresh i.now, stored := i.prec, present := i.present, now := i.now } ++
           validUntilCalls sid i.present i.validUntil) := by
      simp [loadCalls, hr, hp]
    refine ⟨h1, ?_, by simp [loadLoads, hr, hp]⟩
    rw [h1]
    have hz : ∀ l : List LCall, (∀ c ∈ l, c.isAddServer = false) → l.filter LCall.isAddServer = [] := by
      intro l hl
      simp only [List.filter_eq_nil_iff]
      intro c hc; simp [hl c hc]
    have hrest : ((if i.nodeExists then [] else [LCall.write (.mkNode sid)]) ++
           adjustCalls sid { cur := SrvState.Srv.fresh i.now, stored := i.prec, present := i.present, now := i.now } ++
           validUntilCalls sid i.present i.validUntil).filter LCall.isAddServer = [] := by
      apply hz
      intro c hc
      simp only [List.mem_append] at hc
      rcases hc with (hc | hc) | hc
      · split at hc
        · simp at hc
        · simp at hc; subst hc; rfl
      · exact adjustCalls_noAdd _ _ c hc
      · exact validUntilCalls_noAdd _ _ _ c hc
    rw [List.filter_cons_of_pos (by rfl), hrest]; rfl
  · rintro (h | ⟨r, hr, hp⟩)
    · simp [loadCalls, loadLoads, h]
    · simp [loadCalls, loadLoads, hr, hp]

/-! ### C01: `remove_server` -/

/-- **C01 (removing a server frees its instances first).**  `remove_server` of a loaded server takes every
    instance off it (`remove_all`) BEFORE the node is detached — so the capacity the instances held is
    returned to the server while it is still counted by its buckets — and does nothing else; the two
    calls are the model's `Sched.removeServer`.  For a server that is not loaded: no call. -/
theorem C01_remove_server_ops (sid : Nat) (c : Cell) :
    removeCalls sid true = [.cell (.serverRemoveAll sid), .cell (.detachServer sid)] ∧
    removeCalls sid false = [] ∧
    runOps c (cellOps (removeCalls sid true)) = step c (.removeServer sid) := by
  refine ⟨rfl, rfl, ?_⟩
  simp only [removeCalls, cellOps, if_true, List.filterMap_cons, LCall.op?, List.filterMap_nil, runOps, step,
    removeServer]
  cases h : serverRemoveAll c sid with
  | error e => rfl
  | ok c1 =>
    simp only [bind, Except.bind]
    cases detachServer c1 sid <;> rfl

/-! ### C01 / C03 / C09: `reload_server` -/

/-- **C01 / C03 / C09 (reload).**  For a loaded server (attributes `c`, instances `placed`):
    * record unchanged (capacity, partition, traits and parent all equal): NO call at all;
    * anything changed — a traits change included —: the remove calls, then the load calls of the new
      record, then — iff the old object held instances — its recorded placements are restored
      (`restore_placement(server, restore_identity=False)`), in this order;
    * record gone or empty: the remove calls, then the placement record of every instance that was on the
      server is deleted (exactly those that exist), and nothing is loaded;
    * parent bucket of the new record not loaded: the handler's assertion fails (`none`).
    A server that was never loaded is simply loaded. -/
theorem C01_C03_C09_reload_server_ops (sid : Nat) (i : ReloadIn) :
    (i.cur = none → reloadCalls sid i = some (loadCalls sid i.load)) ∧
    (∀ c, i.cur = some c →
      (i.load.srec = none →
        reloadCalls sid i = some (removeCalls sid true ++ deleteCalls sid i.placed) ∧
        (∀ a, Write.delRec sid a ∈ writesOf (deleteCalls sid i.placed) ↔ (a, true) ∈ i.placed)) ∧
      (∀ r, i.load.srec = some r →
        (r.parentLoaded = false → reloadCalls sid i = none) ∧
        (r.parentLoaded = true → c = r.attrs → reloadCalls sid i = some []) ∧
        (r.parentLoaded = true → c ≠ r.attrs →
          reloadCalls sid i = some (removeCalls sid true ++ loadCalls sid i.load ++
            (if i.placed.isEmpty then [] else [.restoreOne sid false]))) ∧
        (c.traits ≠ r.attrs.traits → c ≠ r.attrs))) := by
  refine ⟨?_, ?_⟩
  · intro h
    simp [reloadCalls, reloadDecision, h]
  · intro c hc
    refine ⟨?_, ?_⟩
    · intro hn
      refine ⟨by simp [reloadCalls, reloadDecision, hc, hn], ?_⟩
      intro a
      simp only [writesOf, deleteCalls, List.mem_filterMap]
      constructor
      · rintro ⟨x, ⟨p, hp, hx⟩, hw⟩
        obtain ⟨a', e⟩ := p
        cases e
        · simp at hx
        · simp at hx; subst hx; simp at hw; subst hw; exact hp
      · intro h
        exact ⟨.write (.delRec sid a), ⟨(a, true), h, by simp⟩, rfl⟩
    · intro r hr
      refine ⟨?_, ?_, ?_, ?_⟩
      · intro hp
        by_cases he : c = r.attrs <;> simp [reloadCalls, reloadDecision, hc, hr, hp, he]
      · intro hp he
        simp [reloadCalls, reloadDecision, hc, hr, hp, he]
      · intro hp he
        simp [reloadCalls, reloadDecision, hc, hr, hp, he]
      · intro ht he
        exact ht (by rw [he])

/-! ### C08: `adjust_presence` -/

theorem isPermOf_mem {a b : List Nat} (h : isPermOf a b = true) : ∀ x, x ∈ a ↔ x ∈ b := by
  intro x
  simp only [isPermOf, Bool.and_eq_true, List.all_eq_true, List.contains_eq_mem, decide_eq_true_eq] at h
  exact ⟨fun hx => h.1.2 x hx, fun hx => h.2 x hx⟩

/-- **C08 (presence).**  Whenever `adjust_presence` runs to completion, the servers whose state it adjusts
    down are exactly the loaded servers that are not `down` and have no presence node (`presencePlan.1`),
    each adjusted once; the servers it reloads are exactly the `down` ones whose presence node is there
    (`presencePlan.2`), each reloaded once, then adjusted, then given its valid-until; and the calls it
    makes are the calls of these sub-handlers, in that order. -/
theorem C08_presence_ops (servers : List (Nat × SrvState.S)) (present : Nat → Bool) (subs : List Sub)
    (l : List LCall) (h : presenceCalls servers present subs = some l) :
    ∃ ups rl,
      eatUp (eatDown subs).2 = some ups ∧
      ((eatDown subs).1.map (·.1)).length = (SrvState.presencePlan servers present).1.length ∧
      (ups.map (·.1)).length = (SrvState.presencePlan servers present).2.length ∧
      (∀ s, s ∈ (eatDown subs).1.map (·.1) ↔ s ∈ (SrvState.presencePlan servers present).1) ∧
      (∀ s, s ∈ ups.map (·.1) ↔ s ∈ (SrvState.presencePlan servers present).2) ∧
      ups.mapM (fun u => (reloadCalls u.1 u.2.1).map
        (· ++ adjustCalls u.1 u.2.2.1 ++ validUntilCalls u.1 u.2.2.2.1 u.2.2.2.2)) = some rl ∧
      l = ((eatDown subs).1.map (fun p => adjustCalls p.1 p.2)).flatten ++ rl.flatten := by
  unfold presenceCalls at h
  simp only at h
  split at h
  · simp at h
  · rename_i ups hups
    split at h
    · simp at h
    · rename_i hperm
      simp only [Bool.not_eq_true, Bool.not_eq_false', Bool.and_eq_true] at hperm
      have hperm' : isPermOf ((eatDown subs).1.map (·.1)) (SrvState.presencePlan servers present).1 = true ∧
          isPermOf (ups.map (·.1)) (SrvState.presencePlan servers present).2 = true := by
        cases h1 : isPermOf ((eatDown subs).1.map (·.1)) (SrvState.presencePlan servers present).1 <;>
        cases h2 : isPermOf (ups.map (·.1)) (SrvState.presencePlan servers present).2 <;> simp_all
      split at h
      · simp at h
      · rename_i rl hrl
        refine ⟨ups, rl, hups, ?_, ?_, isPermOf_mem hperm'.1, isPermOf_mem hperm'.2, hrl, ?_⟩
        · have := hperm'.1
          simp only [isPermOf, Bool.and_eq_true, decide_eq_true_eq] at this
          exact this.1.1
        · have := hperm'.2
          simp only [isPermOf, Bool.and_eq_true, decide_eq_true_eq] at this
          exact this.1.1
        · simpa using h.symm

/-! ### C03 / C09: `load_app` -/

/-- `find_assignment`: the FIRST matching assignment of the proid applies; without a match, the default. -/
theorem findAssignment_first (pre post : List Assign) (a : Assign) (dflt : Nat)
    (hpre : ∀ x ∈ pre, x.isMatch = false) (ha : a.isMatch = true) :
    findAssignment (pre ++ a :: post) dflt = (a.prio, a.alloc) := by
  unfold findAssignment
  have : (pre ++ a :: post).find? (·.isMatch) = some a := by
    rw [List.find?_append]
    have : pre.find? (·.isMatch) = none := by
      simp only [List.find?_eq_none]; intro x hx; simp [hpre x hx]
    simp [this, ha]
  rw [this]

theorem findAssignment_default (asg : List Assign) (dflt : Nat) (h : ∀ x ∈ asg, x.isMatch = false) :
    findAssignment asg dflt = (1, dflt) := by
  unfold findAssignment
  have : asg.find? (·.isMatch) = none := by
    simp only [List.find?_eq_none]; intro x hx; simp [h x hx]
  rw [this]

/-- **C03 / C09 (an instance is queued under the allocation its proid is assigned to).**  With a manifest,
    `load_app` makes exactly one `add_app` call — for a new instance an `addApp` carrying the manifest's
    demand, affinity, limits, identity group, schedule-once flag, retention, lease and traits (followed by the
    blacklist mark iff an entry of the blacklist matches), for a known instance an update — whose allocation
    is that of the FIRST matching assignment (else the default allocation) and whose priority is
    `appPriority` of that assignment's priority and the manifest's.  Without a manifest nothing is added:
    the instance is removed through `Master.remove_app`. -/
theorem C03_C09_load_app_ops (aid : Nat) (m : Manifest) (asg : List Assign) (dflt : Nat) (bl : List Bool) :
    loadAppCalls aid none true asg dflt bl = [.masterRemoveApp aid] ∧
    loadAppCalls aid none false asg dflt bl = [.masterRemoveApp aid] ∧
    loadAppCalls aid (some m) true asg dflt bl =
      [.cell (.updateApp aid (findAssignment asg dflt).2 (appPriority (findAssignment asg dflt).1 m.prio)
                m.retention (bl.any id))] ∧
    (∃ a : App, a.id = aid ∧ a.alloc = (findAssignment asg dflt).2 ∧
        a.prio = appPriority (findAssignment asg dflt).1 m.prio ∧ a.demand = m.demand ∧ a.group = m.group ∧
        a.schedOnce = m.schedOnce ∧ a.retention = m.retention ∧ a.lease = m.lease ∧ a.traits = m.traits ∧
        a.aff = m.aff ∧ a.limits = m.limits ∧ a.server = none ∧ a.identity = none ∧
        loadAppCalls aid (some m) false asg dflt bl =
          .cell (.addApp a) :: (if bl.any id then [.cell (.setBlacklisted aid true)] else [])) := by
  refine ⟨rfl, rfl, by simp [loadAppCalls], ?_⟩
  exact ⟨{ id := aid, prio := appPriority (findAssignment asg dflt).1 m.prio, demand := m.demand, aff := m.aff,
           limits := m.limits, retention := m.retention, lease := m.lease, group := m.group, identity := none,
           schedOnce := m.schedOnce, evicted := false, unschedule := false, renew := false, blacklisted := false,
           expiry := none, traits := m.traits, server := none, alloc := (findAssignment asg dflt).2 },
         rfl, rfl, rfl, rfl, rfl, rfl, rfl, rfl, rfl, rfl, rfl, rfl, rfl, by simp [loadAppCalls]⟩

/-! ### C05: `load_identity_groups` -/

/-- **C05 (identity groups follow the stored groups).**  `load_identity_groups` first removes exactly the
    groups of the cell that are no longer stored, then configures exactly the stored groups that have data,
    each with its stored count (zero included, default zero) — and makes no other call. -/
theorem C05_identity_group_ops (existing : List Nat) (stored : List (Nat × Option (Option Nat))) :
    identityGroupCalls existing stored =
      (groupPlan existing stored).1.map (fun g => .cell (.removeGroup g)) ++
      (groupPlan existing stored).2.map (fun q => .cell (.configureGroup q.1 q.2)) ∧
    (∀ g n, (g, n) ∈ (groupPlan existing stored).2 ↔
        ((g, some (some n)) ∈ stored ∨ (n = 0 ∧ (g, some none) ∈ stored))) ∧
    (∀ g, g ∈ (groupPlan existing stored).1 ↔ (g ∈ existing ∧ ∀ s ∈ stored, s.1 ≠ g)) :=
  ⟨rfl, (groupPlan_spec existing stored).1, (groupPlan_spec existing stored).2⟩

/-! ### C08: the blacklist event -/

/-- **C08 (blacklisting follows the stored list).**  After `_handle_apps_blacklist_event` every instance of the
    cell — each once, in the cell's order — is flagged, and it is flagged blacklisted iff some entry of the NEW
    list matches its base name (an instance matched by two entries stays blacklisted when one of them is
    dropped). -/
theorem C08_blacklist_ops (apps : List (Nat × List Bool)) :
    (blacklistFlags apps).map (·.1) = apps.map (·.1) ∧
    (∀ a ms, (a, ms) ∈ apps → (a, ms.any id) ∈ blacklistFlags apps) ∧
    (∀ a f, (a, f) ∈ blacklistFlags apps → ∃ ms, (a, ms) ∈ apps ∧ (f = true ↔ true ∈ ms)) := by
  refine ⟨by simp [blacklistFlags, List.map_map, Function.comp_def], ?_, ?_⟩
  · intro a ms h
    simp only [blacklistFlags, List.mem_map]
    exact ⟨(a, ms), h, rfl⟩
  · intro a f h
    simp only [blacklistFlags, List.mem_map] at h
    obtain ⟨⟨a', ms⟩, hm, he⟩ := h
    simp only [Prod.mk.injEq] at he
    obtain ⟨rfl, rfl⟩ := he
    exact ⟨ms, hm, by simp [List.any_eq_true]⟩

/-! ### Composition with the scheduler invariant -/

/-- Operations whose guard `OpOk` is trivially true. -/
def plainOp : Op → Bool
  | .addServer .. => false
  | .addApp _ => false
  | _ => true

theorem guards_of_plain : ∀ (ops : List Op) (c : Cell), (∀ op ∈ ops, plainOp op = true) → GuardsHold c ops := by
  intro ops
  induction ops with
  | nil => intro c _; trivial
  | cons op ops ih =>
    intro c h
    refine ⟨?_, fun c' _ => ih c' (fun o ho => h o (List.mem_cons_of_mem _ ho))⟩
    have := h op (List.mem_cons_self ..)
    cases op <;> simp_all [plainOp, OpOk]

/-- **C01 (the derived calls keep the capacity invariant).**  Whatever call list a handler derives, running its
    cell operations through `Sched.step` from a cell that satisfies the C01 invariant `InvCap` (free capacity
    non-negative and equal to declared capacity minus placed demand; the two placement views agree) gives a
    cell that satisfies it, provided the operation guards hold along the run — this is `invCap_runOps`
    (TmVerif/Sched/InvCapOps.lean), cited, not re-proved. -/
theorem C01_handler_ops_preserve (l : List LCall) (c c' : Cell) (hc : InvCap c)
    (hg : GuardsHold c (cellOps l)) (h : runOps c (cellOps l) = .ok c') : InvCap c' :=
  invCap_runOps (cellOps l) c c' hc hg h

/-- … and for `remove_server` and `adjust_server_state` / `set_server_valid_until` the guards hold
    unconditionally (none of their calls is guarded). -/
theorem C01_remove_adjust_preserve (sid : Nat) (i : AdjIn) (p : Bool) (v : Int) (c c' : Cell) (hc : InvCap c)
    (h : runOps c (cellOps (removeCalls sid true ++ adjustCalls sid i ++ validUntilCalls sid p v)) = .ok c') :
    InvCap c' := by
  refine invCap_runOps _ c c' hc (guards_of_plain _ c ?_) h
  intro op hop
  simp only [cellOps, List.mem_filterMap] at hop
  obtain ⟨x, hx, hop⟩ := hop
  simp only [List.mem_append] at hx
  rcases hx with (hx | hx) | hx
  · simp only [removeCalls, if_true, List.mem_cons, List.mem_nil_iff, or_false] at hx
    rcases hx with rfl | rfl <;> (simp [LCall.op?] at hop; subst hop; rfl)
  · have hs := adjustCalls_noAdd sid i x hx
    cases x with
    | cell o =>
      simp [LCall.op?] at hop; subst hop
      have hsv := (C08_adjust_ops sid i).2.2.2 _ hx
      cases o <;> simp_all [plainOp, LCall.isAddServer, LCall.server?]
    | _ => simp [LCall.op?] at hop
  · unfold validUntilCalls at hx
    split at hx
    · simp at hx; subst hx; simp [LCall.op?] at hop; subst hop; rfl
    · simp at hx

/-- The cell operations of `adjust_server_state` and `set_server_valid_until` are unguarded. -/
theorem plain_adjust_vu (sid : Nat) (i : AdjIn) (p : Bool) (v : Int) :
    ∀ op ∈ cellOps (adjustCalls sid i ++ validUntilCalls sid p v), plainOp op = true := by
  intro op hop
  simp only [cellOps, List.mem_filterMap] at hop
  obtain ⟨x, hx, hop⟩ := hop
  simp only [List.mem_append] at hx
  rcases hx with hx | hx
  · have hs := adjustCalls_noAdd sid i x hx
    cases x with
    | cell o =>
      simp [LCall.op?] at hop; subst hop
      have hsv := (C08_adjust_ops sid i).2.2.2 _ hx
      cases o <;> simp_all [plainOp, LCall.isAddServer, LCall.server?]
    | _ => simp [LCall.op?] at hop
  · unfold validUntilCalls at hx
    split at hx
    · simp at hx; subst hx; simp [LCall.op?] at hop; subst hop; rfl
    · simp at hx

theorem cellOps_append (a b : List LCall) : cellOps (a ++ b) = cellOps a ++ cellOps b := by
  simp [cellOps, List.filterMap_append]

/-- **C01 (loading a server keeps the capacity invariant).**  If the record's declared capacity is non-negative
    and no instance of the cell claims to be on the server (the guard of `addServer`; after `remove_server`'s
    `remove_all` none does), the calls `load_server` derives from the record take a cell satisfying `InvCap`
    to one satisfying it: the first call is the guarded `addServer`, every later one is unguarded. -/
theorem C01_load_server_preserve (sid : Nat) (i : LoadIn) (c c' : Cell) (hc : InvCap c)
    (hcap : ∀ r, i.srec = some r → (vecOf r.attrs.cap).nonneg)
    (hfree : ∀ a ∈ c.apps, a.server ≠ some sid)
    (h : runOps c (cellOps (loadCalls sid i)) = .ok c') : InvCap c' := by
  refine invCap_runOps _ c c' hc ?_ h
  cases hr : i.srec with
  | none => simp [loadCalls, hr, cellOps, GuardsHold]
  | some r =>
    cases hp : r.parentLoaded with
    | false => simp [loadCalls, hr, hp, cellOps, GuardsHold]
    | true =>
      rw [((C01_C03_load_server_ops sid i).1 r hr hp).1]
      have hsplit : ∀ (x : LCall) (l : List LCall) (o : Op), x.op? = some o → cellOps (x :: l) = o :: cellOps l := by
        intro x l o hx; simp [cellOps, hx]
      rw [hsplit _ _ _ rfl]
      refine ⟨⟨hcap r hr, hfree⟩, fun c1 _ => guards_of_plain _ c1 ?_⟩
      intro op hop
      rw [List.append_assoc, cellOps_append] at hop
      simp only [List.mem_append] at hop
      rcases hop with hop | hop
      · split at hop
        · simp [cellOps] at hop
        · simp [cellOps, LCall.op?] at hop
      · exact plain_adjust_vu sid _ i.present i.validUntil op hop

/-! ### Non-vacuity -/

def demoLoad : LoadIn :=
  { srec := some { attrs := { cap := (8192, 400, 16384), label := 0, traits := 2, parent := 1002 }, parentLoaded := true },
    nodeExists := false, prec := none, present := true, now := 1000, validUntil := 86399 }

example : loadCalls 1 demoLoad =
    [.cell (.addServer 1 1002 ⟨8192, 400, 16384⟩ 0 2 0), .write (.mkNode 1),
     .cell (.setState 1 .down 1000), .cell (.setState 1 .up 1000), .write (.putState 1 (some (.up, 1000))),
     .cell (.setValidUntil 1 86399)] := by decide
example : (∀ r, demoLoad.srec = some r → (vecOf r.attrs.cap).nonneg) := by
  intro r hr; simp [demoLoad] at hr; subst hr; simp [vecOf, Vec.nonneg]
example : loadCalls 1 { demoLoad with srec := none } = [] ∧
    loadCalls 1 { demoLoad with srec := some { attrs := ⟨(1, 1, 1), 0, 0, 0⟩, parentLoaded := false } } = [] := by
  decide
example : reloadCalls 1 { cur := some ⟨(8192, 400, 16384), 0, 0, 1002⟩, placed := [(5, true), (6, false)],
                          load := { demoLoad with nodeExists := true, prec := some (.up, 900) } } =
    some [.cell (.serverRemoveAll 1), .cell (.detachServer 1),
          .cell (.addServer 1 1002 ⟨8192, 400, 16384⟩ 0 2 0),
          .cell (.setState 1 .up 900), .cell (.setState 1 .up 1000), .cell (.setValidUntil 1 86399),
          .restoreOne 1 false] := by decide
example : reloadCalls 1 { cur := some ⟨(8192, 400, 16384), 0, 2, 1002⟩, placed := [(5, true)], load := demoLoad } = some [] ∧
    reloadCalls 1 { cur := some ⟨(8192, 400, 16384), 0, 2, 1002⟩, placed := [(5, true), (6, false)],
                    load := { demoLoad with srec := none } } =
      some [.cell (.serverRemoveAll 1), .cell (.detachServer 1), .write (.delRec 1 5)] ∧
    reloadCalls 1 { cur := some ⟨(8192, 400, 16384), 0, 2, 1002⟩, placed := [],
                    load := { demoLoad with srec := some { attrs := ⟨(1, 1, 1), 0, 0, 0⟩, parentLoaded := false } } } = none := by
  decide
example : presenceCalls [(1, .up), (2, .down)] (fun n => n = 2)
    [.adjust 1 ⟨⟨.up, 900⟩, none, false, 1000⟩,
     .reload 2 { cur := some ⟨(8192, 400, 16384), 0, 2, 1002⟩, placed := [], load := demoLoad },
     .adjust 2 ⟨⟨.down, 990⟩, some (.down, 990), true, 1000⟩, .validUntil 2 true 77] =
    some [.cell (.setState 1 .down 1000), .cell (.setState 1 .down 1000),
          .cell (.setState 2 .down 990), .cell (.setState 2 .up 1000), .write (.putState 2 (some (.up, 1000))),
          .cell (.setValidUntil 2 77)] := by decide
example : presenceCalls [(1, .up), (2, .down)] (fun n => n = 2) [.adjust 2 ⟨⟨.down, 990⟩, none, true, 1000⟩] = none := by
  decide
example : findAssignment [⟨false, 5, 3⟩, ⟨true, 7, 4⟩, ⟨true, 9, 5⟩] 9 = (7, 4) ∧ findAssignment [⟨false, 5, 3⟩] 9 = (1, 9) := by
  decide
example : blacklistFlags [(7, [false, true]), (8, [false, false]), (9, [])] = [(7, true), (8, false), (9, false)] := by
  decide
example : identityGroupCalls [1, 2] [(1, some (some 3))] = [.cell (.removeGroup 2), .cell (.configureGroup 1 3)] := by
  decide

end TmVerif.LoaderOps
