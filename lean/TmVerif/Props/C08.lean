/-
  C08 — Server failure handling: data retention, frozen servers, blacklisting.

  Property theorems only.  Model: TmVerif/Sched; lemmas: TmVerif/Sched/{ReachPlace, ReachPlace2,
  ReachCycle, Const, Track, Keep, CycleInv, C08More}.lean.  All theorems are about ONE arbitrary
  cycle started in an arbitrary state satisfying `InvCap` (which C01 proves for every reachable
  state), with an arbitrary queue and arbitrary identity choices; they therefore hold for every
  history of server down/up/frozen transitions, clock advances, arrivals, blacklist changes and
  capacity pressure.
-/
import TmVerif.Sched.Expire
import TmVerif.Sched.InvAffOps

namespace TmVerif.Sched

/-- **C08 (retention).** An instance on a server that is down, within its data-retention window
    (`now < since + retention`), not blacklisted, not over its utilisation cap, holding a valid
    identity, on a server of its partition with its traits, and with no renewal pending, is still
    on that server after the cycle — in particular it is never evicted for capacity. -/
theorem C08_retention_keep (c c' : Cell) (qs : List (List (Nat × Bool))) (ch : List Nat)
    (x : Nat) (a : App) (sid : Nat) (s : Srv)
    (hc : InvCap c) (ha : c.app? x = some a) (hs : c.srv? sid = some s) (hon : a.server = some sid)
    (hdown : s.state = .down) (hwin : c.now < expiresAt s a)
    (hnb : a.blacklisted = false) (hnr : a.renew = false)
    (hcap : ∀ q ∈ qs, ∀ e ∈ q, e.1 = x → e.2 = false)
    (hid : a.hasIdentity = true)
    (hidv : ∀ k g grp, a.identity = some k → a.group = some g → c.grp? g = some grp → k < grp.count)
    (hlab : s.label = (c.allocInfo a.alloc).label)
    (htr : c.appTraits a = 0 ∨ hasTraits s.traits (c.appTraits a) = true)
    (h : schedule c qs ch = .ok c') :
    ∃ a', c'.app? x = some a' ∧ a'.server = some sid :=
  keep_schedule hc
    { app := ha, srv := hs, on := hon, notBl := hnb, notRenew := hnr,
      hasId := hid, idValid := hidv, labelOk := hlab, traitsOk := htr,
      stay := ⟨fun _ => hwin, fun hf => (by rw [hdown] at hf; cases hf)⟩ } (by rw [hdown]; decide) hcap h

/-- **C08 (frozen keeps).** An instance on a frozen server that is not marked for unscheduling
    (and to which none of the other exceptions applies) is still on that server after the cycle. -/
theorem C08_frozen_keep (c c' : Cell) (qs : List (List (Nat × Bool))) (ch : List Nat)
    (x : Nat) (a : App) (sid : Nat) (s : Srv)
    (hc : InvCap c) (ha : c.app? x = some a) (hs : c.srv? sid = some s) (hon : a.server = some sid)
    (hfrozen : s.state = .frozen) (hmark : a.unschedule = false)
    (hnb : a.blacklisted = false) (hnr : a.renew = false)
    (hcap : ∀ q ∈ qs, ∀ e ∈ q, e.1 = x → e.2 = false)
    (hid : a.hasIdentity = true)
    (hidv : ∀ k g grp, a.identity = some k → a.group = some g → c.grp? g = some grp → k < grp.count)
    (hlab : s.label = (c.allocInfo a.alloc).label)
    (htr : c.appTraits a = 0 ∨ hasTraits s.traits (c.appTraits a) = true)
    (h : schedule c qs ch = .ok c') :
    ∃ a', c'.app? x = some a' ∧ a'.server = some sid :=
  keep_schedule hc
    { app := ha, srv := hs, on := hon, notBl := hnb, notRenew := hnr,
      hasId := hid, idValid := hidv, labelOk := hlab, traitsOk := htr,
      stay := ⟨fun hd => (by rw [hfrozen] at hd; cases hd), fun _ => hmark⟩ } (by rw [hfrozen]; decide) hcap h

/-- **C08 (no new instance on a server that is not up).** After a cycle every instance on a down or
    frozen server was already on that server when the cycle started. -/
theorem C08_no_new_on_nonup (c c' : Cell) (qs : List (List (Nat × Bool))) (ch : List Nat)
    (sid : Nat) (s : Srv) (hc : InvCap c) (hs : c.srv? sid = some s) (hnu : s.state ≠ .up)
    (h : schedule c qs ch = .ok c') :
    ∀ y a', c'.app? y = some a' → a'.server = some sid → ∃ a, c.app? y = some a ∧ a.server = some sid :=
  onlyOld_schedule hc hs hnu h

/-- **C08 (blacklisted).** After a cycle no blacklisted instance is placed (it is removed if it was,
    and never placed). -/
theorem C08_blacklisted (c c' : Cell) (qs : List (List (Nat × Bool))) (ch : List Nat)
    (hc : InvCap c) (h : schedule c qs ch = .ok c') :
    ∀ a ∈ c'.apps, a.blacklisted = true → a.server = none :=
  blacklisted_schedule hc h

/-- **C08 (retention expired).** An instance on a down server whose data-retention timeout has
    passed (`since + retention ≤ now`; no retention = expires immediately) is not on that server
    after the cycle: it loses the placement in the first cycle after the timeout.
    (`hleaf`: the server is attached to the topology.) -/
theorem C08_retention_expire (c c' : Cell) (qs : List (List (Nat × Bool))) (ch : List Nat)
    (x : Nat) (a : App) (sid : Nat) (s : Srv)
    (hc : InvCap c) (ha : c.app? x = some a) (hs : c.srv? sid = some s) (hleaf : sid ∈ c.tree.leaves)
    (hdown : s.state = .down) (hexp : expiresAt s a ≤ c.now)
    (h : schedule c qs ch = .ok c') :
    ∀ a', c'.app? x = some a' → a'.server ≠ some sid :=
  off_schedule hc hs ha hleaf (Or.inl ⟨hdown, hexp⟩) h

/-- **C08 (frozen, marked for unscheduling).** An instance on a frozen server that is explicitly
    marked for unscheduling is not on that server after the cycle. -/
theorem C08_frozen_unschedule (c c' : Cell) (qs : List (List (Nat × Bool))) (ch : List Nat)
    (x : Nat) (a : App) (sid : Nat) (s : Srv)
    (hc : InvCap c) (ha : c.app? x = some a) (hs : c.srv? sid = some s) (hleaf : sid ∈ c.tree.leaves)
    (hfrozen : s.state = .frozen) (hmark : a.unschedule = true)
    (h : schedule c qs ch = .ok c') :
    ∀ a', c'.app? x = some a' → a'.server ≠ some sid :=
  off_schedule hc hs ha hleaf (Or.inr ⟨hfrozen, hmark⟩) h

/-! ### The same two clauses for every reachable state, with no side condition on the topology:
    in a state reached from the empty cell by any guarded history the server table and the tree
    agree (`C04_tree`), so "the server is attached" is automatic. -/

theorem C08_retention_expire_reachable (r l : Nat) (ops : List Op) (c c' : Cell)
    (hg : GuardsHold (Cell.init r l) ops) (hl : LimGuards (Cell.init r l) ops)
    (hrun : runOps (Cell.init r l) ops = .ok c)
    (qs : List (List (Nat × Bool))) (ch : List Nat) (x : Nat) (a : App) (sid : Nat) (s : Srv)
    (ha : c.app? x = some a) (hs : c.srv? sid = some s)
    (hdown : s.state = .down) (hexp : expiresAt s a ≤ c.now)
    (h : schedule c qs ch = .ok c') :
    ∀ a', c'.app? x = some a' → a'.server ≠ some sid := by
  have hall := affAll_runOps ops _ c (affAll_init r l) hg hl hrun
  have hleaf : sid ∈ c.tree.leaves := (hall.tree.leaves sid).mpr ⟨s, srv?_mem hs, srv?_id hs⟩
  exact off_schedule hall.cap hs ha hleaf (Or.inl ⟨hdown, hexp⟩) h

theorem C08_frozen_unschedule_reachable (r l : Nat) (ops : List Op) (c c' : Cell)
    (hg : GuardsHold (Cell.init r l) ops) (hl : LimGuards (Cell.init r l) ops)
    (hrun : runOps (Cell.init r l) ops = .ok c)
    (qs : List (List (Nat × Bool))) (ch : List Nat) (x : Nat) (a : App) (sid : Nat) (s : Srv)
    (ha : c.app? x = some a) (hs : c.srv? sid = some s)
    (hfrozen : s.state = .frozen) (hmark : a.unschedule = true)
    (h : schedule c qs ch = .ok c') :
    ∀ a', c'.app? x = some a' → a'.server ≠ some sid := by
  have hall := affAll_runOps ops _ c (affAll_init r l) hg hl hrun
  have hleaf : sid ∈ c.tree.leaves := (hall.tree.leaves sid).mpr ⟨s, srv?_mem hs, srv?_id hs⟩
  exact off_schedule hall.cap hs ha hleaf (Or.inr ⟨hfrozen, hmark⟩) h

/-! ### Non-vacuity: a down server inside and outside the retention window. -/

def c08App (i : Nat) (ret : Option Int) : App :=
  { id := i, prio := 10, demand := ⟨2, 2, 2⟩, aff := 7, limits := [], retention := ret, lease := 0,
    group := none, identity := none, schedOnce := false, evicted := false, unschedule := false,
    renew := false, blacklisted := false, expiry := none, traits := 0, server := none, alloc := 1 }

def c08Ops : List Op :=
  [.addBucket 101 100 2, .addServer 1 101 ⟨10, 10, 10⟩ 0 0 1000, .addServer 2 101 ⟨10, 10, 10⟩ 0 0 1000,
   .setAlloc 1 ⟨0, 0, 0⟩, .addApp (c08App 1 (some 30)), .addApp (c08App 2 none), .tick 5,
   .schedule [[(1, false), (2, false)]] [], .setState 1 .down 10, .setState 2 .down 10, .tick 20,
   .schedule [[(1, false), (2, false)]] []]

/-- app 1 (retention 30 s, down since 10, now 20) keeps its server; app 2 (no retention) loses it. -/
example : (runOps (Cell.init 100 1) c08Ops).toOption.map (fun c => c.apps.map (·.server)) =
    some [some 1, none] := by decide +kernel

end TmVerif.Sched
