/-
  C01 — No server is oversubscribed; every instance sits on at most one server.

  Property theorems only.  Model: TmVerif/Sched (Types, Tree, Place, Ops); invariant and helper
  lemmas: TmVerif/Sched/{Reach, InvCap, InvCapPrim, InvCapOps}.lean.
  The unit-spelling clause (1G = 1024M, 100% = 100) is in TmVerif/Props/C01Units.lean.
-/
import TmVerif.Sched.InvCapOps
import TmVerif.Sched.Cons

namespace TmVerif.Sched

/-- **C01 (capacity).** In every state reachable from the empty cell by any history of cell
    operations and scheduling cycles (any queue order, any identity choices), on every server
    and in every dimension: free capacity is non-negative, equals declared capacity minus the
    summed demand of the instances placed there, hence the summed demand never exceeds capacity. -/
theorem C01_capacity (r l : Nat) (ops : List Op) (c : Cell)
    (hg : GuardsHold (Cell.init r l) ops) (h : runOps (Cell.init r l) ops = .ok c) :
    ∀ s ∈ c.srvs,
      s.free.nonneg ∧ s.free + used c.apps s.id = s.init ∧
      (used c.apps s.id).m ≤ s.init.m ∧ (used c.apps s.id).c ≤ s.init.c ∧ (used c.apps s.id).d ≤ s.init.d := by
  intro s hs
  have hc := invCap_runOps ops _ c (invCap_init r l) hg h
  obtain ⟨⟨n1, n2, n3⟩, he⟩ := hc.free s hs
  have hm := congrArg Vec.m he
  have hcc := congrArg Vec.c he
  have hd := congrArg Vec.d he
  simp at hm hcc hd
  exact ⟨⟨n1, n2, n3⟩, he, by omega, by omega, by omega⟩

/-- **C01 (views).** In every reachable state the server→instance view (`Server.apps`) and the
    instance→server view (`app.server`) agree exactly on every server, no server lists an instance
    twice, and an instance (having a single `server` field) is listed by at most one server. -/
theorem C01_views (r l : Nat) (ops : List Op) (c : Cell)
    (hg : GuardsHold (Cell.init r l) ops) (h : runOps (Cell.init r l) ops = .ok c) :
    (∀ s ∈ c.srvs, ∀ aid, aid ∈ s.apps ↔ ∃ a ∈ c.apps, a.id = aid ∧ a.server = some s.id) ∧
    (∀ s ∈ c.srvs, s.apps.Nodup) ∧
    (∀ s1 ∈ c.srvs, ∀ s2 ∈ c.srvs, ∀ aid, aid ∈ s1.apps → aid ∈ s2.apps → s1 = s2) := by
  have hc := invCap_runOps ops _ c (invCap_init r l) hg h
  refine ⟨hc.views, hc.sapps, ?_⟩
  intro s1 h1 s2 h2 aid m1 m2
  obtain ⟨a, ha, hid, hs1⟩ := (hc.views s1 h1 aid).mp m1
  obtain ⟨b, hb, hid2, hs2⟩ := (hc.views s2 h2 aid).mp m2
  have : a = b := key_unique (·.id) c.apps hc.appIds a b ha hb (by rw [hid, hid2])
  subst this
  rw [hs1] at hs2
  exact key_unique (·.id) c.srvs hc.srvIds s1 s2 h1 h2 (Option.some.inj hs2)

/-- One scheduling cycle, whatever the queue and the identity choices, preserves the invariant
    (this is the step used by the two theorems above, exported for the master-level model). -/
theorem C01_cycle (c c' : Cell) (qs : List (List (Nat × Bool))) (ch : List Nat)
    (hc : InvCap c) (h : schedule c qs ch = .ok c') : InvCap c' := invCap_schedule hc h

/-- **C01 (after every cycle).** After a cycle every placed instance names an existing server, and
    that server lists the instance — so each scheduled instance is on at most one server and the
    two views agree exactly, with no dangling placement left. -/
theorem C01_after_cycle (c c' : Cell) (qs : List (List (Nat × Bool))) (ch : List Nat)
    (hc : InvCap c) (h : schedule c qs ch = .ok c') :
    InvCap c' ∧ ∀ a ∈ c'.apps, ∀ sid, a.server = some sid → ∃ s ∈ c'.srvs, s.id = sid ∧ a.id ∈ s.apps := by
  have hc' : InvCap c' := invCap_schedule hc h
  refine ⟨hc', ?_⟩
  intro a ha sid hsv
  have hlook : c'.app? a.id = some a := by
    unfold Cell.app?; exact find?_key_unique (·.id) c'.apps hc'.appIds a ha
  obtain ⟨s, hs, _⟩ := consOk_schedule hc h a.id a sid hlook hsv
  refine ⟨s, srv?_mem hs, srv?_id hs, ?_⟩
  exact (hc'.views s (srv?_mem hs) a.id).mpr ⟨a, ha, rfl, by rw [hsv, srv?_id hs]⟩

/-! ### Non-vacuity: a concrete history with capacity pressure (eviction) completes and
    satisfies the guards. -/

def demoApp (i : Nat) (prio : Int) (d : Int) : App :=
  { id := i, prio := prio, demand := ⟨d, d, d⟩, aff := 7, limits := [], retention := none, lease := 0,
    group := none, identity := none, schedOnce := false, evicted := false, unschedule := false,
    renew := false, blacklisted := false, expiry := none, traits := 0, server := none, alloc := 1 }

def demoOps : List Op :=
  [.addBucket 101 100 2, .addServer 1 101 ⟨10, 10, 10⟩ 0 0 1000, .setAlloc 1 ⟨0, 0, 0⟩,
   .addApp (demoApp 1 1 8), .tick 5, .schedule [[(1, false)]] [],
   .addApp (demoApp 2 50 8), .schedule [[(2, false), (1, false)]] []]

example : (runOps (Cell.init 100 1) demoOps).toOption.map (fun c => c.apps.map (·.server)) =
    some [none, some 1] := by decide +kernel

example : GuardsHold (Cell.init 100 1) demoOps := guardsB_sound _ _ (by decide +kernel)

end TmVerif.Sched
