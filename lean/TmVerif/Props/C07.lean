/-
  C07 — A running instance is displaced only for an instance ahead of it in the queue.

  Property theorems only.  Model: TmVerif/Sched (Types, Tree, Place, Ops).  Lemmas:
  TmVerif/Sched/{DisplaceBasic, DisplaceShape, DisplaceRestore, Displace}.lean, on top of the C04
  invariants (InvAff*.lean: counters = true counts ≤ limits) and the C01 invariant.
-/
import TmVerif.Sched.Displace
import TmVerif.Sched.Keep

namespace TmVerif.Sched

/-- **C07 (one partition queue).**  See `queue_displace`: from the state in which `_find_placements`
    is called, an instance on an up server of its partition — not blacklisted, not over its cap,
    holding its identity, no renewal pending — is still there after the call, unless an instance
    strictly ahead of it in that queue ended on a server it was not on before the call. -/
theorem C07_queue {c0 c' : Cell} {x S : Nat} {queue : List (Nat × Bool)} {ch ch' : List Nat}
    (h0 : AffAll c0) (hprot : Protected c0 x S) (hnd : (queue.map (·.1)).Nodup) (hx : (x, false) ∈ queue)
    (hw : ∃ a, c0.app? x = some a ∧ a.renew = false ∧ a.hasIdentity = true)
    (h : findPlacements c0 queue ch = .ok (c', ch')) :
    (∃ a', c'.app? x = some a' ∧ a'.server = some S) ∨
    ∃ y, AheadOf x (queue.map (·.1)) y ∧ MovedTo c0 c' y :=
  findPlacements_displace h0 hprot hnd hx hw h

/-- **C07 (whole cycle).**  Let `x` be placed on the up server `S` when `Cell.schedule` starts, with
    the server in `x`'s partition and carrying the traits `x` wants, `x` not blacklisted, holding a
    valid identity (or needing none), with no lease renewal pending, and not over its utilisation cap
    (`(x, false)` is an entry of its partition's queue `q`; the partition queues are disjoint and `q`
    lists every instance once).  Then after the cycle `x` is still on `S`, unless some instance
    strictly ahead of `x` in `q` sits, after the cycle, on a server it was not on when the placement
    phase began (i.e. right after the pre-passes `cpre`): it gained that placement during the cycle.
    No instance behind `x` in the queue, and no cycle without such a gain, displaces `x`. -/
theorem C07_displaced (c c' : Cell) (qa : List (List (Nat × Bool))) (q : List (Nat × Bool))
    (qb : List (List (Nat × Bool))) (ch : List Nat) (x S : Nat) (a : App) (s : Srv)
    (h0 : AffAll c)
    (ha : c.app? x = some a) (hs : c.srv? S = some s) (hon : a.server = some S) (hup : s.state = .up)
    (hnb : a.blacklisted = false) (hnr : a.renew = false) (hid : a.hasIdentity = true)
    (hidv : ∀ k g grp, a.identity = some k → a.group = some g → c.grp? g = some grp → k < grp.count)
    (hlab : s.label = (c.allocInfo a.alloc).label)
    (htr : hasTraits s.traits (c.appTraits a) = true)
    (hq : (x, false) ∈ q) (hnd : (q.map (·.1)).Nodup)
    (hdisj : ∀ q' ∈ qa ++ qb, ∀ y ∈ q.map (·.1), y ∉ q'.map (·.1))
    (h : schedule c (qa ++ q :: qb) ch = .ok c') :
    (∃ a', c'.app? x = some a' ∧ a'.server = some S) ∨
    ∃ cpre y, prePasses c = .ok cpre ∧ AheadOf x (q.map (·.1)) y ∧ MovedTo cpre c' y := by
  simp only [schedule, bind_ok] at h
  obtain ⟨c1, hpre, ⟨c2, rest⟩, hf, h⟩ := h
  have hcy : Cycle (qa ++ q :: qb) c1 c2 := partitions_cycle _ _ _ hf
  have hc2 : c2 = c' := by
    split at h
    · simp only [throw_bind, throw_ne_ok] at h
    · simp only [pure_ok] at h; exact h
  subst hc2
  -- the pre-passes leave x alone
  have hh : KeepHyp c x a S s :=
    { app := ha, srv := hs, on := hon, notBl := hnb, notRenew := hnr, hasId := hid, idValid := hidv,
      labelOk := hlab, traitsOk := Or.inr htr,
      stay := ⟨fun hd => (by rw [hup] at hd; cases hd), fun hf' => (by rw [hup] at hf'; cases hf')⟩ }
  have hk0 : Keep c x a S c := ⟨.refl _, h0.cap, a, ha, hon, rfl, rfl, hnr⟩
  have hpreL := prePasses_lreach h0.cap hpre
  obtain ⟨hst1, _, a1, ha1, hsv1, hid1, _, hrn1⟩ := keep_prepass hh hk0 hpreL
  have hr1 : Reach c c1 := hpreL.toReach
  -- split the partitions
  obtain ⟨ca, hcya, hcyq⟩ := Cycle.split hcy
  cases hcyq with
  | @cons _ _ _ cq _ hloop hcyb =>
    have hra : Reach c1 ca := hcya.toReach
    have hrq : Reach ca cq := (Reach.single ⟨_, LPrim.clearEv⟩).trans hloop.toReach
    have hrb : Reach cq c2 := hcyb.toReach
    have hxq : x ∈ q.map (·.1) := List.mem_map_of_mem (f := (·.1)) hq
    have hda : ∀ y ∈ q.map (·.1), ∀ q' ∈ qa, y ∉ q'.map (·.1) :=
      fun y hy q' hq' => hdisj q' (List.mem_append_left _ hq') y hy
    have hdb : ∀ y ∈ q.map (·.1), ∀ q' ∈ qb, y ∉ q'.map (·.1) :=
      fun y hy q' hq' => hdisj q' (List.mem_append_right _ hq') y hy
    -- x when its partition's turn comes
    have hsta : SameStatic c ca := sameStatic_reach (hr1.trans hra)
    obtain ⟨aa, haa, estaa⟩ := app?_stat_to hsta ha
    obtain ⟨a1', ha1', f1, f2, f3⟩ := cycle_untouched hcya (hda x hxq) aa haa
    rw [ha1] at ha1'; cases ha1'
    obtain ⟨sa, hsa, estsa⟩ := srv?_stat_to hsta hs
    have hall_a : AffAll ca := affAll_reach h0 (hr1.trans hra)
    have hprot : Protected ca x S := by
      refine ⟨aa, sa, haa, hsa, by rw [f1]; exact hsv1, ?_, ?_, ?_⟩
      · have : aa.blacklisted = a.blacklisted := congrArg AppStat.blacklisted estaa
        rw [this]; exact hnb
      · have e1 : sa.label = s.label := congrArg SrvStat.label estsa
        have e2 : aa.alloc = a.alloc := congrArg AppStat.alloc estaa
        rw [e1, hlab, e2]; unfold Cell.allocInfo; rw [hsta.allocs]
      · have e1 : sa.traits = s.traits := congrArg SrvStat.traits estsa
        have e2 : aa.alloc = a.alloc := congrArg AppStat.alloc estaa
        have e3 : aa.traits = a.traits := congrArg AppStat.traits estaa
        have : ca.appTraits aa = c.appTraits a := by
          unfold Cell.appTraits Cell.allocInfo; rw [e2, e3, hsta.allocs]
        rw [e1, this]; exact htr
    have hw : ∃ b, ca.app? x = some b ∧ b.renew = false ∧ b.hasIdentity = true := by
      refine ⟨aa, haa, by rw [f3]; exact hrn1, ?_⟩
      have eg : aa.group = a.group := congrArg AppStat.group estaa
      unfold App.hasIdentity at hid ⊢
      rw [eg, f2, hid1]; exact hid
    rcases queue_displace hall_a hprot hnd hq hw hloop with ⟨aq, haq, hsvq⟩ | ⟨y, hahead, b0, b, t, hb0, hb, hbt, hne⟩
    · -- still on S after its partition; the later partitions do not touch it
      left
      obtain ⟨a2, ha2, _⟩ := app?_stat_to (sameStatic_reach hrb) haq
      obtain ⟨aq', haq', g1, _, _⟩ := cycle_untouched hcyb (hdb x hxq) a2 ha2
      rw [haq] at haq'; cases haq'
      exact ⟨a2, ha2, by rw [g1]; exact hsvq⟩
    · right
      refine ⟨c1, y, hpre, hahead, ?_⟩
      obtain ⟨l1, l2, el, hy1, _⟩ := hahead
      have hyq : y ∈ q.map (·.1) := by rw [el]; exact List.mem_append_left _ hy1
      -- y before its partition's turn: as after the pre-passes
      obtain ⟨d1, hd1, k1, _, _⟩ := cycle_untouched hcya (hda y hyq) b0 hb0
      -- y after the later partitions: as after its own
      obtain ⟨b2, hb2, _⟩ := app?_stat_to (sameStatic_reach hrb) hb
      obtain ⟨b', hb', m1, _, _⟩ := cycle_untouched hcyb (hdb y hyq) b2 hb2
      rw [hb] at hb'; cases hb'
      exact ⟨d1, b2, t, hd1, hb2, by rw [m1]; exact hbt, by rw [← k1]; exact hne⟩

/-- The invariant `C07_displaced` assumes at the start of the cycle holds in every state reachable
    from the empty cell by a guarded history (C01 + C04 invariants). -/
theorem C07_invariants_reachable (r l : Nat) (ops : List Op) (c : Cell)
    (hg : GuardsHold (Cell.init r l) ops) (hl : LimGuards (Cell.init r l) ops)
    (h : runOps (Cell.init r l) ops = .ok c) : AffAll c :=
  affAll_runOps ops _ c (affAll_init r l) hg hl h

/-! ### Non-vacuity: a concrete cycle in which a running instance IS displaced — by an instance ahead
    of it — and one in which the running instance survives a failed attempt of an instance ahead of
    it (evicted, then restored when its turn comes). -/

def c07App (i : Nat) (prio : Int) (d : Int) : App :=
  { id := i, prio := prio, demand := ⟨d, d, d⟩, aff := i, limits := [], retention := none, lease := 0,
    group := none, identity := none, schedOnce := false, evicted := false, unschedule := false,
    renew := false, blacklisted := false, expiry := none, traits := 0, server := none, alloc := 1 }

/-- app 1 (size 8) runs on the only server (size 10); app 2 (size 20, ahead) cannot fit even after
    evicting app 1: app 1 is evicted and restored, the cycle ends as it began. -/
def c07Ops : List Op :=
  [.addBucket 101 100 2, .addServer 1 101 ⟨10, 10, 10⟩ 0 0 1000, .setAlloc 1 ⟨0, 0, 0⟩,
   .addApp (c07App 1 1 8), .tick 5, .schedule [[(1, false)]] [],
   .addApp (c07App 2 50 20), .schedule [[(2, false), (1, false)]] []]

example : (runOps (Cell.init 100 1) c07Ops).toOption.map (fun c => c.apps.map (fun a => (a.id, a.server, a.evicted))) =
    some [(1, some 1, false), (2, none, false)] := by decide +kernel

/-- same, but app 2 has size 9: it takes the server and app 1 is displaced (app 2 is ahead of it). -/
def c07Ops' : List Op :=
  [.addBucket 101 100 2, .addServer 1 101 ⟨10, 10, 10⟩ 0 0 1000, .setAlloc 1 ⟨0, 0, 0⟩,
   .addApp (c07App 1 1 8), .tick 5, .schedule [[(1, false)]] [],
   .addApp (c07App 2 50 9), .schedule [[(2, false), (1, false)]] []]

example : (runOps (Cell.init 100 1) c07Ops').toOption.map (fun c => c.apps.map (fun a => (a.id, a.server))) =
    some [(1, none), (2, some 1)] := by decide +kernel

end TmVerif.Sched
